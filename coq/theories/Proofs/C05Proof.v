(* Proofs/C05Proof.v — every model trace is accepted by the consent monitor step5 *)
Require Import Verif.Model.Time Verif.Base.Bytes Verif.Proofs.BytesFacts Verif.Model.Version Verif.Model.Json Verif.Model.Proto
               Verif.Model.Request Verif.Model.Env Verif.Model.SM Verif.Model.Monitors Verif.Proofs.Monitor
               Verif.Proofs.RequestFacts.
Open Scope Z_scope.

Notation T := (triple step5).

Definition neutral (a : action) : Prop := forall q, step5 q a = Some q.
Definition neutralM {A} (m : M A) : Prop := forall P : ph5 -> Prop, T P m (fun _ q => P q).

Lemma neutralM_ret {A} (a : A) : neutralM (ret a).
Proof. intro P. apply triple_ret. auto. Qed.
Lemma neutralM_bind {A B} (m : M A) (f : A -> M B) : neutralM m -> (forall a, neutralM (f a)) -> neutralM (bind m f).
Proof. intros Hm Hf P. eapply triple_bind; [apply Hm|]. intro a. apply Hf. Qed.
Lemma neutralM_emit a : neutral a -> neutralM (emit a).
Proof. intros H P. apply triple_emit. intros q Hq. exists q. split; [apply H|exact Hq]. Qed.
Lemma neutralM_silent {A} (m : M A) : silent m -> neutralM m.
Proof. intros H P. apply triple_silent. exact H. Qed.
Lemma neutralM_halt {A} : neutralM (@halt A).
Proof. intro P. apply triple_halt. Qed.
Lemma neutralM_iterM {A} (f : A -> M unit) l : (forall x, neutralM (f x)) -> neutralM (iterM f l).
Proof. intros H P. apply triple_iterM. intros x _. apply H. Qed.

Lemma neutralM_st_write op : neutralM (st_write op).
Proof.
  intros P q0 e q Hq Hp. exists q. split; [|exact Hp].
  unfold mst, st_write. cbn [snd upd_trace e_trace rev]. rewrite runmon_app.
  unfold mst in Hq. rewrite Hq. reflexivity.
Qed.

Lemma neutralM_now : neutralM now.
Proof.
  unfold now. apply neutralM_bind; [apply neutralM_silent, silent_read_clock|].
  intro c. apply neutralM_bind; [apply neutralM_emit; intro q; reflexivity|]. intro. apply neutralM_ret.
Qed.

Ltac neu :=
  repeat first
    [ apply neutralM_ret
    | apply neutralM_now
    | apply neutralM_st_write
    | apply neutralM_halt
    | apply neutralM_bind; [|intro]
    | apply neutralM_iterM; intro
    | apply neutralM_emit; intro; reflexivity
    | apply neutralM_silent;
      first [ apply silent_pop_next_time | apply silent_pop_backoff | apply silent_fresh_guid | apply silent_fresh_nonce
            | apply silent_canon_guid | apply silent_st_get_int | apply silent_st_get_str | apply silent_st_get_time
            | apply silent_ret ]
    | match goal with
      | |- neutralM (match ?x with _ => _ end) => destruct x
      | |- neutralM (if ?x then _ else _) => destruct x
      | |- neutralM (let '(_, _) := ?x in _) => destruct x
      end ].

Lemma neutralM_report m : neutralM (report m).
Proof. unfold report. neu. Qed.
Lemma neutralM_st_set_option_int k v : neutralM (st_set_option_int k v).
Proof. unfold st_set_option_int. neu. Qed.
Lemma neutralM_st_set_time k t : neutralM (st_set_time k t).
Proof. unfold st_set_time. apply neutralM_st_set_option_int. Qed.
Lemma neutralM_ctx_persist sc ps : neutralM (ctx_persist sc ps).
Proof. unfold ctx_persist. repeat (apply neutralM_bind; [apply neutralM_st_set_option_int|intro]). apply neutralM_ret. Qed.
Lemma neutralM_persist_data m : neutralM (persist_data m).
Proof.
  unfold persist_data. apply neutralM_bind; [apply neutralM_ctx_persist|intro].
  apply neutralM_bind; [apply neutralM_iterM; intro; neu|intro]. neu.
Qed.
Lemma neutralM_with_ids b s r : neutralM (with_ids b s r).
Proof. unfold with_ids. neu. Qed.
Lemma neutralM_report_check_interval src m : neutralM (report_check_interval src m).
Proof. unfold report_check_interval. apply neutralM_bind; [apply neutralM_now|intro]. apply neutralM_bind; [|intro; apply neutralM_ret].
  destruct (s_last_check (m_sched m)) as [[w|mm|c]|]; try apply neutralM_ret.
  - destruct (w <=? wall a); [apply neutralM_report|apply neutralM_ret].
  - destruct (mono c <=? mono a); [apply neutralM_report|apply neutralM_ret].
Qed.
Lemma neutralM_record_first_seen plan t : neutralM (record_first_seen plan t).
Proof.
  unfold record_first_seen. apply neutralM_bind; [apply neutralM_silent, silent_st_get_str|intro prev].
  destruct prev as [p|].
  - destruct (bytes_eqb p plan).
    + apply neutralM_bind; [apply neutralM_silent, silent_st_get_time|intro]. apply neutralM_ret.
    + apply neutralM_bind; [apply neutralM_st_write|intro ok1]. destruct (negb ok1); [apply neutralM_ret|].
      apply neutralM_bind; [apply neutralM_st_set_time|intro ok2]. destruct (negb ok2).
      * apply neutralM_bind; [apply neutralM_st_write|intro]. apply neutralM_ret.
      * apply neutralM_bind; [apply neutralM_st_write|intro]. apply neutralM_ret.
  - apply neutralM_bind; [apply neutralM_st_write|intro ok1]. destruct (negb ok1); [apply neutralM_ret|].
    apply neutralM_bind; [apply neutralM_st_set_time|intro ok2]. destruct (negb ok2).
    + apply neutralM_bind; [apply neutralM_st_write|intro]. apply neutralM_ret.
    + apply neutralM_bind; [apply neutralM_st_write|intro]. apply neutralM_ret.
Qed.
Lemma neutralM_report_attempts_install s : neutralM (report_attempts_to_successful_install s).
Proof.
  unfold report_attempts_to_successful_install.
  apply neutralM_bind; [apply neutralM_silent, silent_st_get_int|intro].
  apply neutralM_bind; [apply neutralM_report|intro].
  apply neutralM_bind; [destruct s; apply neutralM_st_write|intro]. apply neutralM_ret.
Qed.
Lemma neutralM_yield_state s :
  (match s with CheckingForUpdates _ | WaitingForReboot | Idle => False | _ => True end) -> neutralM (yield_state s).
Proof. intro H. unfold yield_state. apply neutralM_emit. intro q. destruct s; try contradiction; reflexivity. Qed.
