(* Proofs/C03fProof.v — every model trace is accepted by step3f (Model/Monitors3.v): every request decorated, and no nonce
   ever used twice.  Nonces are draws from the environment's counter, so the invariant ties the monitor's list of nonces
   seen to that counter (Proofs/MonitorG.v): every nonce seen is the text of a draw already made, the next draw is new. *)
Require Import Verif.Model.Time Verif.Base.Bytes Verif.Proofs.BytesFacts Verif.Model.Version Verif.Model.Json Verif.Model.Proto
               Verif.Model.Request Verif.Model.Env Verif.Model.SM Verif.Model.Monitors3
               Verif.Proofs.Monitor Verif.Proofs.MonitorG Verif.Proofs.UriFacts.
Require Verif.Proofs.C03Proof Verif.Proofs.C06rtProof.
From Coq Require Import Lia.
Open Scope N_scope.

Notation TG := (tripleG step3f).
Notation retp := C06rtProof.retp.
Notation sc := C06rtProof.sc.

Definition Seen (q : q3f) (e : env) : Prop := forall x, In x (seen3f q) -> exists k, k < e_nonces e /\ x = nonce_text k.
Definition Vst (P : q3f -> env -> Prop) : Prop := forall q e e', e_nonces e <= e_nonces e' -> P q e -> P q e'.

Definition boringF (a : action) : bool := match a with AHttp _ _ | AInstaller (ICreatePlan _ _ _ _) _ => false | _ => true end.
Lemma step3f_boring q a : boringF a = true -> step3f q a = Some q.
Proof. destruct a as [ev|pq ans|w o|c ans|c|w|op ok|mt|id src|id r]; try discriminate; try reflexivity. destruct c; try discriminate; reflexivity. Qed.

Definition ninv {A} (m : M A) : Prop := forall P, Vst P -> TG P m (fun _ => P).
Definition quietV {A} (m : M A) : Prop := forall e, e_trace (snd (m e)) = e_trace e /\ e_nonces e <= e_nonces (snd (m e)).
Lemma ninv_ret {A} (a : A) : ninv (ret a). Proof. intros P _. apply tripleG_ret. auto. Qed.
Lemma ninv_bind {A B} (m : M A) (f : A -> M B) : ninv m -> (forall a, ninv (f a)) -> ninv (bind m f).
Proof. intros Hm Hf P HP. eapply tripleG_bind; [apply Hm; exact HP|]. intro a. apply Hf. exact HP. Qed.
Lemma ninv_quiet {A} (m : M A) : quietV m -> ninv m.
Proof. intros H P HP. apply tripleG_silent; [intro e; apply (H e)|]. intros q e a Hp _. destruct (H e) as (_ & H1). exact (HP q e _ H1 Hp). Qed.
Lemma ninv_emit a : boringF a = true -> ninv (emit a).
Proof.
  intros H P HP. apply tripleG_emit. intros q e Hp. exists q. split; [apply step3f_boring; exact H|]. apply (HP q e); [apply N.le_refl|exact Hp].
Qed.
Lemma ninv_report x : ninv (report x). Proof. unfold report. apply ninv_emit. reflexivity. Qed.
Lemma ninv_write op : ninv (st_write op).
Proof.
  intros P HP q0 e q Hq Hp. exists q. split.
  - unfold mst, st_write. cbn [snd upd_trace e_trace rev]. rewrite runmon_app. unfold mst in Hq. rewrite Hq. reflexivity.
  - cbn [fst st_write]. apply (HP q e); [apply N.le_refl|exact Hp].
Qed.
Lemma ninv_halt {A} : ninv (@halt A). Proof. intros P _. apply tripleG_halt. Qed.
Lemma ninv_iterM {A} (f : A -> M unit) l : (forall x, ninv (f x)) -> ninv (iterM f l).
Proof. intros H P HP. apply tripleG_iterM. intros x _. apply H. exact HP. Qed.
Lemma ninv_after_event b : ninv (after_event b).
Proof.
  intros P HP q0 e q Hm Hp. exists q. unfold mst, after_event in *.
  destruct (c_inject (e_cs e)) as [|[k src] rest]; [split; [exact Hm|apply (HP q e); [apply N.le_refl|exact Hp]]|].
  destruct ((k <=? c_evn (e_cs e)) && negb b); [|split; [exact Hm|apply (HP q e); [apply N.le_refl|exact Hp]]].
  destruct (c_incheck (e_cs e)); cbn [fst snd upd_trace set_cs e_trace rev]; (split; [|apply (HP q e); [apply N.le_refl|exact Hp]]).
  - rewrite <- app_assoc, runmon_app, Hm. reflexivity.
  - rewrite runmon_app, Hm. reflexivity.
Qed.
Lemma ninv_yield ev : ninv (yield_ ev).
Proof. unfold yield_. apply ninv_bind; [apply ninv_emit; reflexivity|]. intros []. apply ninv_after_event. Qed.
Lemma ninv_enter_check : ninv enter_check.
Proof.
  intros P HP q0 e q Hm Hp. exists q. split; [|apply (HP q e); [apply N.le_refl|exact Hp]].
  unfold mst, enter_check in *. cbn [snd upd_trace set_cs e_trace].
  rewrite rev_app_distr, rev_involutive, runmon_app, Hm.
  induction (c_inq (e_cs e)) as [|x r IH]; cbn [map runmon]; [reflexivity|exact IH].
Qed.
Ltac qv := intro e; split; [reflexivity|apply N.le_refl].
Lemma quietV_pop_queued : quietV pop_queued. Proof. intro e. unfold pop_queued. destruct (c_inq (e_cs e)); split; try reflexivity; apply N.le_refl. Qed.
Lemma ninv_do_outer_select roles : ninv (do_outer_select roles).
Proof.
  intros P HP. unfold do_outer_select.
  eapply tripleG_bind; [apply (ninv_quiet pop_queued quietV_pop_queued P HP)|].
  intros [[id src]|]; [apply tripleG_ret; auto|].
  intros q0 e q Hm Hp. exists q. unfold mst in *.
  destruct (outer_select (e_stim e) roles (e_ctl e)) as [[[[[src id]|] r] c]|]; cbn [fst snd upd_trace set_stim e_trace rev].
  - split; [rewrite runmon_app, Hm; reflexivity|apply (HP q e); [apply N.le_refl|exact Hp]].
  - split; [exact Hm|apply (HP q e); [apply N.le_refl|exact Hp]].
  - split; [exact Hm|exact I].
Qed.
Lemma quietV_read_clock : quietV read_clock. Proof. intro e. unfold read_clock. destruct (e_clock e); split; try reflexivity; apply N.le_refl. Qed.
Lemma quietV_pop_next_time : quietV pop_next_time. Proof. intro e. unfold pop_next_time. destruct (q_next_time e); split; try reflexivity; apply N.le_refl. Qed.
Lemma quietV_pop_allowed : quietV pop_allowed. Proof. intro e. unfold pop_allowed. destruct (q_allowed e); split; try reflexivity; apply N.le_refl. Qed.
Lemma quietV_pop_can_start : quietV pop_can_start. Proof. intro e. unfold pop_can_start. destruct (q_can_start e); split; try reflexivity; apply N.le_refl. Qed.
Lemma quietV_pop_reboot_needed : quietV pop_reboot_needed. Proof. intro e. unfold pop_reboot_needed. destruct (q_reboot_needed e); split; try reflexivity; apply N.le_refl. Qed.
Lemma quietV_pop_reboot_allowed : quietV pop_reboot_allowed. Proof. intro e. unfold pop_reboot_allowed. destruct (q_reboot_allowed e); split; try reflexivity; apply N.le_refl. Qed.
Lemma quietV_pop_http : quietV pop_http. Proof. intro e. unfold pop_http. destruct (q_http e); split; try reflexivity; apply N.le_refl. Qed.
Lemma quietV_pop_plan : quietV pop_plan. Proof. intro e. unfold pop_plan. destruct (q_plan e); split; try reflexivity; apply N.le_refl. Qed.
Lemma quietV_pop_perform : quietV pop_perform. Proof. intro e. unfold pop_perform. destruct (q_perform e); split; try reflexivity; apply N.le_refl. Qed.
Lemma quietV_pop_reboot : quietV pop_reboot. Proof. intro e. unfold pop_reboot. destruct (q_reboot e); split; try reflexivity; apply N.le_refl. Qed.
Lemma quietV_pop_backoff : quietV pop_backoff. Proof. intro e. unfold pop_backoff. destruct (q_backoff e); split; try reflexivity; apply N.le_refl. Qed.
Lemma quietV_pop_stim : quietV pop_stim. Proof. intro e. unfold pop_stim. destruct (e_stim e); split; try reflexivity; apply N.le_refl. Qed.
Lemma quietV_fresh_guid : quietV fresh_guid. Proof. qv. Qed.
Lemma quietV_fresh_nonce : quietV fresh_nonce. Proof. intro e. split; [reflexivity|]. cbn. lia. Qed.
Lemma quietV_canon_guid d : quietV (canon_guid d). Proof. intro e. unfold canon_guid. destruct (glookup (e_guids e) d); split; try reflexivity; apply N.le_refl. Qed.
Lemma quietV_st_get_int k : quietV (st_get_int k). Proof. qv. Qed.
Lemma quietV_st_get_str k : quietV (st_get_str k). Proof. qv. Qed.
Lemma quietV_next_ctl : quietV next_ctl. Proof. qv. Qed.
Lemma quietV_set_incheck b : quietV (set_incheck b). Proof. qv. Qed.
Lemma quietV_take_upgrade : quietV take_upgrade. Proof. qv. Qed.
Lemma ninv_st_get_time k : ninv (st_get_time k).
Proof. unfold st_get_time. apply ninv_bind; [apply ninv_quiet, quietV_st_get_int|intro; apply ninv_ret]. Qed.
Lemma ninv_with_ids b s r : ninv (with_ids b s r).
Proof. unfold with_ids. apply ninv_bind; [apply ninv_quiet, quietV_canon_guid|intro]. apply ninv_bind; [apply ninv_quiet, quietV_canon_guid|intro]. apply ninv_ret. Qed.
Lemma ninv_maybe_ids (c : bool) b s r : ninv (if c then with_ids b s r else ret b).
Proof. destruct c; [apply ninv_with_ids|apply ninv_ret]. Qed.
Lemma ninv_now : ninv now.
Proof. unfold now. apply ninv_bind; [apply ninv_quiet, quietV_read_clock|intro c]. apply ninv_bind; [apply ninv_emit; reflexivity|intro; apply ninv_ret]. Qed.
Lemma ninv_set_opt k v : ninv (st_set_option_int k v).
Proof. unfold st_set_option_int. destruct v; apply ninv_write. Qed.
Lemma ninv_ctx_persist s ps : ninv (ctx_persist s ps).
Proof. unfold ctx_persist. repeat (apply ninv_bind; [apply ninv_set_opt|intro]). apply ninv_ret. Qed.
Lemma ninv_persist_data m : ninv (persist_data m).
Proof.
  unfold persist_data. apply ninv_bind; [apply ninv_ctx_persist|intro]. apply ninv_bind.
  - apply ninv_iterM. intro ap. apply ninv_bind; [apply ninv_write|intro; apply ninv_ret].
  - intro. apply ninv_bind; [apply ninv_write|intro; apply ninv_ret].
Qed.
Lemma ninv_report_check_interval src m : ninv (report_check_interval src m).
Proof.
  unfold report_check_interval. apply ninv_bind; [apply ninv_now|intro n]. apply ninv_bind; [|intro; apply ninv_ret].
  destruct (s_last_check (m_sched m)) as [[w|mm|c]|]; try apply ninv_ret.
  - destruct (w <=? wall n)%Z; [apply ninv_report|apply ninv_ret].
  - destruct (mono c <=? mono n)%Z; [apply ninv_report|apply ninv_ret].
Qed.
Lemma ninv_record_first_seen plan t : ninv (record_first_seen plan t).
Proof.
  unfold record_first_seen. apply ninv_bind; [apply ninv_quiet, quietV_st_get_str|intro prev].
  assert (Hnew : ninv (ok1 <- st_write (SSetStr K_INSTALL_PLAN_ID plan);;
                        (if negb ok1 then ret t
                         else ok2 <- st_set_time K_FIRST_SEEN t;;
                              (if negb ok2 then st_write (SRemove K_INSTALL_PLAN_ID);;; ret t else st_write SCommit;;; ret t)))).
  { apply ninv_bind; [apply ninv_write|intro ok1]. destruct (negb ok1); [apply ninv_ret|].
    apply ninv_bind; [apply ninv_set_opt|intro ok2]. destruct (negb ok2);
      (apply ninv_bind; [apply ninv_write|intro; apply ninv_ret]). }
  destruct prev as [p|]; [|exact Hnew].
  destruct (bytes_eqb p plan); [|exact Hnew].
  apply ninv_bind; [apply ninv_st_get_time|intro]. apply ninv_ret.
Qed.
Lemma ninv_report_attempts s : ninv (report_attempts_to_successful_install s).
Proof.
  unfold report_attempts_to_successful_install. apply ninv_bind; [apply ninv_quiet, quietV_st_get_int|intro].
  apply ninv_bind; [apply ninv_report|intro]. apply ninv_bind; [destruct s; apply ninv_write|intro]. apply ninv_ret.
Qed.
Lemma ninv_update_next m : ninv (update_next_update_time m).
Proof.
  unfold update_next_update_time. apply ninv_bind; [apply ninv_quiet, quietV_pop_next_time|intro t].
  apply ninv_bind; [apply ninv_emit; reflexivity|intro]. apply ninv_bind; [apply ninv_yield|intro]. apply ninv_ret.
Qed.
Lemma ninv_make_wait t : ninv (make_wait t).
Proof.
  unfold make_wait. destruct (t_min t).
  - apply ninv_bind; [apply ninv_emit; reflexivity|intro]. apply ninv_bind; [apply ninv_emit; reflexivity|intro]. apply ninv_ret.
  - apply ninv_bind; [apply ninv_emit; reflexivity|intro]. apply ninv_ret.
Qed.
Lemma ninv_ask_reboot src : ninv (ask_reboot_allowed src).
Proof.
  unfold ask_reboot_allowed. apply ninv_bind; [apply ninv_quiet, quietV_pop_reboot_allowed|intro b].
  apply ninv_bind; [apply ninv_emit; reflexivity|intro]. apply ninv_ret.
Qed.
Lemma ninv_handle_in_reboot id sc0 : ninv (handle_in_reboot id sc0).
Proof. unfold handle_in_reboot. apply ninv_bind; [apply ninv_emit; reflexivity|intro]. destruct sc0; [apply ninv_ask_reboot|apply ninv_ret]. Qed.

Lemma tripleG_pre_pure_l {A} (P : q3f -> env -> Prop) (phi : Prop) (m : M A) Q :
  (phi -> TG P m Q) -> TG (fun q e => phi /\ P q e) m Q.
Proof. intros H q0 e q Hq [Hphi Hp]. exact (H Hphi q0 e q Hq Hp). Qed.

Lemma TG_and_ret {A} (P : q3f -> env -> Prop) (m : M A) Q (R : A -> Prop) :
  TG P m Q -> retp m R -> TG P m (fun a q e => Q a q e /\ R a).
Proof.
  intros H HR q0 e q Hq Hp. destruct (H q0 e q Hq Hp) as (q' & H1 & H2). exists q'. split; [exact H1|].
  destruct (fst (m e)) eqn:E; [|exact I]. split; [exact H2|]. eapply HR. exact E.
Qed.

(* ---------- the invariant ---------- *)
Section Flow.
  Variable m0 : sm.        (* the machine as built: its service URL and CUP handler never change (C06rtProof.sc) *)
  Definition Jf (q : q3f) (e : env) : Prop := url3f q = m_url m0 /\ kid3f q = m_cup m0 /\ Seen q e.
  Lemma Vst_Jf : Vst Jf.
  Proof.
    intros q e e' Hle (H1 & H2 & H3). split; [exact H1|]. split; [exact H2|]. intros x Hx. destruct (H3 x Hx) as (k & Hk & ->). exists k. split; [lia|reflexivity].
  Qed.
  Ltac nn H := eapply tripleG_bind; [eapply H; exact Vst_Jf|intro; cbv beta].
  Tactic Notation "nna" constr(H) "as" ident(x) := eapply tripleG_bind; [eapply H; exact Vst_Jf|intro x; cbv beta].
  Ltac ny := eapply tripleG_bind; [apply (ninv_yield _ Jf Vst_Jf)|intro; cbv beta].
  Ltac ne := match goal with |- TG _ (bind (emit ?a) _) _ => eapply tripleG_bind; [apply (ninv_emit a eq_refl Jf Vst_Jf)|intro; cbv beta] end.
  Ltac rj := apply tripleG_ret; auto.
  (* a step that returns a machine: the invariant, and the machine still has the URL and handler it was built with *)
  Ltac thread H RC Hsc x y :=
    eapply tripleG_bind; [apply TG_and_ret; [apply H; exact Hsc|apply RC]|]; intro x; cbv beta; apply tripleG_pre_pure; intro y.

  (* the decorated request: a fresh draw, so a nonce not seen before *)
  Lemma step3f_http q e n o b kid : Jf q e -> m_cup m0 = Some kid -> e_nonces e = n + 1 ->
    (forall x, In x (seen3f q) -> exists k, k < n /\ x = nonce_text k) ->
    forall cfg,
    exists q', step3f q (AHttp {| w_uri := u_prefix (m_url m0) ++ append_query (u_path (m_url m0)) (u_query (m_url m0)) (s2b "cup2key") (print_dec kid ++ 58 :: nonce_text n);
                                  w_headers := headers_of cfg b; w_body := body_of cfg b; w_sum := summary_of b |} o) = Some q' /\
               forall e', e_nonces e' = n + 1 -> Jf q' e'.
  Proof.
    intros (Hu & Hk & _) Hc Hn Hs cfg. unfold step3f. cbn [w_uri]. rewrite Hk, Hc, Hu.
    assert (E : u_prefix (m_url m0) ++ append_query (u_path (m_url m0)) (u_query (m_url m0)) (s2b "cup2key") (print_dec kid ++ 58 :: nonce_text n)
                = cup_prefix (m_url m0) kid ++ nonce_text n).
    { unfold cup_prefix. rewrite <- app_assoc. f_equal.
      change (print_dec kid ++ 58 :: nonce_text n) with (print_dec kid ++ [58] ++ nonce_text n).
      rewrite app_assoc. apply C03Proof.append_query_app. }
    rewrite E, C03Proof.firstn_exact, C03Proof.skipn_exact, bytes_eqb_refl, C03Proof.nonce_text_hex. cbn [andb].
    assert (Hlen : Nat.leb 64 (length (nonce_text n)) = true) by (apply Nat.leb_le, C03Proof.nonce_text_long). rewrite Hlen. cbn [andb].
    assert (Hfresh : existsb (bytes_eqb (nonce_text n)) (seen3f q) = false).
    { destruct (existsb (bytes_eqb (nonce_text n)) (seen3f q)) eqn:Ex; [|reflexivity]. apply existsb_exists in Ex. destruct Ex as (x & Hx & Heq).
      apply bytes_eqb_eq in Heq. destruct (Hs x Hx) as (k & Hk' & ->). apply nonce_text_injective in Heq. lia. }
    rewrite Hfresh. cbn [negb]. eexists. split; [reflexivity|]. intros e' He'. split; [reflexivity|]. split; [symmetry; exact Hc|].
    intros x [<-|Hx]; [exists n; split; [lia|reflexivity]|]. destruct (Hs x Hx) as (k & Hk' & ->). exists k. split; [lia|reflexivity].
  Qed.

  Lemma F_do_req b m : sc m0 m -> TG Jf (do_omaha_request b m) (fun _ => Jf).
  Proof.
    intros [Hcup Hurl]. unfold do_omaha_request.
    destruct (negb (u_valid (m_url m))); [rj|].
    destruct (negb (headers_ok (m_cfg m) b)).
    { eapply tripleG_bind with (R := fun _ => Jf); [|intro; rj]. destruct (m_cup m); [|rj]. nn (ninv_quiet _ quietV_fresh_nonce). rj. }
    assert (Hrest : forall o, TG Jf (match o with
      | HErr k => ret (m, inl (REHttpTransport k))
      | HResp status ra authentic bd =>
          if match m_cup m with Some _ => negb authentic | None => false end then ret (m, inl RECupValidation)
          else m' <- (if oZ_eqb (ps_poll (m_ps m)) (parse_retry_after ra) then ret m
                      else yield_ (EvProtocol (m_ps (with_ps m (set_poll (m_ps m) (parse_retry_after ra)))));;;
                           ctx_persist (m_sched (with_ps m (set_poll (m_ps m) (parse_retry_after ra)))) (m_ps (with_ps m (set_poll (m_ps m) (parse_retry_after ra))));;;
                           st_write SCommit;;; ret (with_ps m (set_poll (m_ps m) (parse_retry_after ra))));;
               (if ((200 <=? status) && (status <? 300))%N then ret (m', inr bd) else ret (m', inl (REHttpStatus status))) end) (fun _ => Jf)).
    { intros [k|status ra au bd]; [rj|].
      destruct (match m_cup m with Some _ => negb au | None => false end); [rj|].
      eapply tripleG_bind with (R := fun _ => Jf).
      { destruct (oZ_eqb (ps_poll (m_ps m)) (parse_retry_after ra)); [rj|]. ny. nn ninv_ctx_persist. nn ninv_write. rj. }
      intro m'. destruct ((200 <=? status) && (status <? 300))%N; rj. }
    destruct (m_cup m) as [kid|] eqn:Ec.
    - (* CUP: draw, then send *)
      eapply tripleG_bind with (R := fun uri q e => exists n, uri = u_prefix (m_url m) ++ append_query (u_path (m_url m)) (u_query (m_url m)) (s2b "cup2key") (print_dec kid ++ 58 :: nonce_text n)
                                                     /\ Jf q e /\ e_nonces e = n + 1 /\ (forall x, In x (seen3f q) -> exists k, k < n /\ x = nonce_text k)).
      { eapply tripleG_bind with (R := fun n q e => Jf q e /\ e_nonces e = n + 1 /\ (forall x, In x (seen3f q) -> exists k, k < n /\ x = nonce_text k)).
        - apply tripleG_silent; [intro e; reflexivity|]. intros q e a (H1 & H2 & H3) Ha. cbn in Ha. inversion Ha; subst a. cbn [snd fresh_nonce set_ids e_nonces].
          split; [split; [exact H1|split; [exact H2|]]|split; [reflexivity|exact H3]].
          intros x Hx. destruct (H3 x Hx) as (k & Hk & ->). exists k. split; [cbn; lia|reflexivity].
        - intro n. apply tripleG_ret. intros q e H. exists n. split; [reflexivity|exact H]. }
      intro uri. cbv beta.
      eapply tripleG_bind with (R := fun _ q e => exists n, uri = u_prefix (m_url m) ++ append_query (u_path (m_url m)) (u_query (m_url m)) (s2b "cup2key") (print_dec kid ++ 58 :: nonce_text n)
                                                     /\ Jf q e /\ e_nonces e = n + 1 /\ (forall x, In x (seen3f q) -> exists k, k < n /\ x = nonce_text k)).
      { apply tripleG_silent; [intro e; unfold pop_http; destruct (q_http e); reflexivity|]. intros q e a (n & H1 & H2 & H3 & H4) _.
        exists n. split; [exact H1|]. split; [apply (Vst_Jf q e); [|exact H2]|split; [|exact H4]]; unfold pop_http; destruct (q_http e); cbn; try lia; exact H3. }
      intro o. cbv beta.
      eapply tripleG_bind with (R := fun _ => Jf); [|intro; apply Hrest].
      apply tripleG_emit. intros q e (n & -> & HJ & Hn & Hs). rewrite Hurl.
      destruct (step3f_http q e n o b kid HJ (eq_sym Hcup) Hn Hs (m_cfg m)) as (q' & Hq' & HJ').
      exists q'. split; [exact Hq'|]. apply HJ'. exact Hn.
    - (* no CUP: the plain URI *)
      eapply tripleG_bind with (R := fun uri q e => uri = plain_uri (m_url m) /\ Jf q e).
      { apply tripleG_ret. auto. }
      intro uri. cbv beta. apply tripleG_pre_pure_l. intros ->.
      nna (ninv_quiet _ quietV_pop_http) as o.
      eapply tripleG_bind with (R := fun _ => Jf); [|intro; apply Hrest].
      apply tripleG_emit. intros q e (Hu & Hk & Hs). exists q. split; [|split; [exact Hu|split; [exact Hk|exact Hs]]].
      unfold step3f. cbn [w_uri]. rewrite Hk, <- Hcup, Hu, <- Hurl, bytes_eqb_refl. reflexivity.
  Qed.

  Notation rc_do_req := C06rtProof.rc_do_req.
  Lemma sc_tr a b c : sc a b -> sc b c -> sc a c. Proof. apply C06rtProof.sc_trans. Qed.

  Lemma F_report_event p ev apps sess nv dur m : sc m0 m -> TG Jf (report_event p ev apps sess nv dur m) (fun _ => Jf).
  Proof.
    intro Hsc. unfold report_event. nna (ninv_quiet _ quietV_fresh_guid) as req. nna ninv_maybe_ids as b.
    eapply tripleG_bind; [apply (F_do_req b m Hsc)|]. intros [m' [e|bd]]; [|rj]. nn ninv_report. rj.
  Qed.

  Lemma F_attempt_loop b0 sess fuel : forall attempt m, sc m0 m -> TG Jf (attempt_loop fuel attempt b0 sess m) (fun _ => Jf).
  Proof.
    induction fuel as [|f IH]; intros attempt m Hsc; cbn [attempt_loop]; [apply tripleG_halt|].
    nna ninv_now as start. nna (ninv_quiet _ quietV_fresh_guid) as req. nna ninv_maybe_ids as b.
    thread F_do_req rc_do_req Hsc r H1. destruct r as [m1 res]. cbn [fst] in H1.
    nna ninv_now as fin.
    eapply tripleG_bind with (R := fun _ => Jf).
    { match goal with |- TG _ (if ?c then _ else _) _ => destruct c end; [apply (ninv_report _ Jf Vst_Jf)|rj]. }
    intros _. destruct res as [e|bd]; [|rj].
    match goal with |- TG _ (if ?c then _ else _) _ => destruct c end.
    - ny. rj.
    - nna (ninv_quiet _ quietV_pop_backoff) as r. ne. apply IH. eapply sc_tr; eassumption.
  Qed.

  (* the install plan is created with the CUP metadata iff a handler is configured *)
  Lemma F_create_plan p d pl m : sc m0 m ->
    TG Jf (emit (AInstaller (ICreatePlan p (match m_cup m with Some _ => Some true | None => None end) d
                                         (match m_cup m with Some _ => true | None => false end)) (IPlan pl))) (fun _ => Jf).
  Proof.
    intros [Hcup Hurl]. apply tripleG_emit. intros q e (Hu & Hk & Hs). exists q. split; [|split; [exact Hu|split; [exact Hk|exact Hs]]].
    unfold step3f. rewrite Hk, <- Hcup. destruct (m_cup m); reflexivity.
  Qed.

  Lemma F_perform fuel p apps m : sc m0 m -> TG Jf (perform_update_check fuel p apps m) (fun _ => Jf).
  Proof.
    intro Hsc. unfold perform_update_check. ny.
    eapply tripleG_bind; [apply TG_and_ret; [apply (ninv_report_check_interval _ _ Jf Vst_Jf)|apply C06rtProof.rc_report_check_interval]|].
    intro ma. cbv beta. apply tripleG_pre_pure. intro Ha. assert (Hsa : sc m0 ma) by (eapply sc_tr; eassumption).
    nna (ninv_quiet _ quietV_fresh_guid) as sess.
    eapply tripleG_bind; [apply TG_and_ret; [apply (F_attempt_loop _ sess fuel 1 ma Hsa)|apply C06rtProof.rc_attempt_loop]|].
    intros [[m1 attempts] res]. cbv beta. cbn [fst]. apply tripleG_pre_pure. intro H1. assert (Hs1 : sc m0 m1) by (eapply sc_tr; eassumption).
    nn ninv_report.
    destruct res as [e|[d|]].
    - rj.
    - ny. destruct (filter uc_ok (d_apps d)) as [|wu0 wur]; [ny; rj|].
      nna (ninv_quiet _ quietV_pop_plan) as pl.
      eapply tripleG_bind; [apply (F_create_plan p d pl m1 Hs1)|intro; cbv beta].
      destruct pl as [plan|].
      2:{ ny. ny. eapply tripleG_bind; [apply (F_report_event _ _ _ _ _ _ m1 Hs1)|]. intro. rj. }
      nna (ninv_quiet _ quietV_pop_can_start) as dec. ne.
      destruct dec.
      + ny. thread F_report_event C06rtProof.rc_report_event Hs1 m2 H2. assert (Hs2 : sc m0 m2) by (eapply sc_tr; eassumption).
        nna ninv_now as t0. nna ninv_record_first_seen as fs. nna (ninv_quiet _ quietV_pop_perform) as pa. ne.
        eapply tripleG_bind; [apply (ninv_iterM _ _ (fun bits => ninv_yield (EvProgress bits)) Jf Vst_Jf)|]. intro. cbv beta.
        nna ninv_now as t1.
        eapply tripleG_bind with (R := fun _ => Jf).
        { match goal with |- TG _ (if ?c then _ else _) _ => destruct c end; [|rj]. nn ninv_report. rj. }
        intro dur. nna (ninv_quiet _ quietV_fresh_guid) as req. nna ninv_maybe_ids as b.
        thread F_do_req rc_do_req Hs2 r3 H3. destruct r3 as [m3 rr]. cbn [fst] in H3. assert (Hs3 : sc m0 m3) by (eapply sc_tr; eassumption).
        eapply tripleG_bind with (R := fun _ => Jf).
        { destruct rr; [|rj]. apply (ninv_iterM _ _ (fun x => ninv_report _) Jf Vst_Jf). }
        intros _.
        eapply tripleG_bind with (R := fun _ => Jf).
        { match goal with |- TG _ (match ?l with [] => _ | _ => _ end) _ => destruct l end; [rj|apply F_report_event; exact Hs3]. }
        intro m4.
        match goal with |- TG _ (match ?n with O => _ | S _ => _ end) _ => destruct n as [|nerr] end.
        * eapply tripleG_bind with (R := fun _ => Jf).
          { match goal with |- TG _ (if ?c then _ else _) _ => destruct c end; [apply (ninv_report _ Jf Vst_Jf)|rj]. }
          intros _. nn ninv_set_opt.
          eapply tripleG_bind with (R := fun _ => Jf).
          { match goal with |- TG _ (match ?x with Some _ => _ | None => _ end) _ => destruct x end; [|rj]. nn ninv_write. rj. }
          intros _. nn ninv_write. nna (ninv_quiet _ quietV_pop_reboot_needed) as rn. ne. rj.
        * eapply tripleG_bind; [apply (ninv_iterM _ _ (fun _ : unit => ninv_yield EvInstallerError) Jf Vst_Jf)|]. intro. cbv beta. ny. rj.
      + eapply tripleG_bind; [apply (F_report_event _ _ _ _ _ _ m1 Hs1)|]. intro. ny. rj.
      + eapply tripleG_bind; [apply (F_report_event _ _ _ _ _ _ m1 Hs1)|]. intro. rj.
    - ny. eapply tripleG_bind; [apply (F_report_event _ _ _ _ _ _ m1 Hs1)|]. intro. rj.
  Qed.

  Lemma F_start fuel p m : sc m0 m -> TG Jf (start_update_check fuel p m) (fun _ => Jf).
  Proof.
    intro Hsc. unfold start_update_check. eapply tripleG_bind; [apply (F_perform fuel p _ m Hsc)|]. intros [m1 res].
    eapply tripleG_bind with (R := fun _ => Jf).
    { destruct res as [e|[rs rb]].
      - eapply tripleG_bind with (R := fun _ => Jf).
        + destruct e as [re| |]; [destruct re; rj| |]; (nna ninv_now as n; rj).
        + intros [m2 reason]. nn ninv_report. rj.
      - nna ninv_now as n. nn ninv_report.
        eapply tripleG_bind with (R := fun _ => Jf).
        { destruct (install_success rs); [apply (ninv_report_attempts _ Jf Vst_Jf)|rj]. }
        intro. rj. }
    intros [[m2 result] rb]. ny. ny. ny. nn ninv_persist_data. rj.
  Qed.

  Lemma F_ping m : sc m0 m -> TG Jf (ping_omaha m) (fun _ => Jf).
  Proof.
    intro Hsc. unfold ping_omaha. cbv zeta. nna (ninv_quiet _ quietV_fresh_guid) as sess. nna (ninv_quiet _ quietV_fresh_guid) as req.
    nna ninv_maybe_ids as b. eapply tripleG_bind; [apply (F_do_req b m Hsc)|]. intros [m1 res].
    destruct res as [er|[d|]]; [nn ninv_persist_data; rj| |nn ninv_persist_data; rj].
    nna ninv_now as n. ny. nn ninv_persist_data. rj.
  Qed.

  Lemma F_reboot_loop fuel : forall src pending m, sc m0 m -> TG Jf (reboot_loop fuel src pending m) (fun _ => Jf).
  Proof.
    induction fuel as [|f IH]; intros src pending m Hsc; cbn [reboot_loop]; [apply tripleG_halt|].
    nna (ninv_quiet _ quietV_pop_queued) as qd. destruct qd as [[id sc0]|].
    { nna ninv_handle_in_reboot as go. destruct go; [rj|apply IH; exact Hsc]. }
    nna (ninv_quiet _ quietV_pop_stim) as st. destruct st as [i|sc0|].
    - assert (Hping : TG Jf (m1 <- ping_omaha m;; mt <- update_next_update_time m1;;
                            (let '(m2, t) := mt in roles <- make_wait t;; reboot_loop f src (remove_nth i pending ++ roles) m2)) (fun _ => Jf)).
      { thread F_ping C06rtProof.rc_ping Hsc m1 H1. assert (Hs1 : sc m0 m1) by (eapply sc_tr; eassumption).
        eapply tripleG_bind; [apply TG_and_ret; [apply (ninv_update_next m1 Jf Vst_Jf)|apply C06rtProof.rc_update_next]|].
        intros [m2 t]. cbv beta. cbn [fst]. apply tripleG_pre_pure. intro H2.
        nna ninv_make_wait as roles. apply IH. eapply sc_tr; eassumption. }
      destruct (nth_error pending i) as [[| |]|].
      + destruct (has_ping_roles (remove_nth i pending)); [apply IH; exact Hsc|exact Hping].
      + destruct (has_ping_roles (remove_nth i pending)); [apply IH; exact Hsc|exact Hping].
      + nna ninv_ask_reboot as ok. destruct ok; [rj|]. ne. apply IH. exact Hsc.
      + apply IH. exact Hsc.
    - nna (ninv_quiet _ quietV_next_ctl) as id. ne. nna ninv_handle_in_reboot as go. destruct go; [rj|apply IH; exact Hsc].
    - apply IH. exact Hsc.
  Qed.
  Lemma F_wait_for_reboot fuel src m : sc m0 m -> TG Jf (wait_for_reboot fuel src m) (fun _ => Jf).
  Proof.
    intro Hsc. unfold wait_for_reboot. nna ninv_ask_reboot as ok.
    eapply tripleG_bind with (R := fun _ => Jf).
    { destruct ok; [rj|]. ne.
      eapply tripleG_bind; [apply TG_and_ret; [apply (ninv_update_next m Jf Vst_Jf)|apply C06rtProof.rc_update_next]|].
      intros [m1 t]. cbv beta. cbn [fst]. apply tripleG_pre_pure. intro H1.
      nna ninv_make_wait as roles. apply F_reboot_loop. eapply sc_tr; eassumption. }
    intro m1. nna (ninv_quiet _ quietV_pop_reboot) as okr. ne. rj.
  Qed.

  Lemma F_run_iteration fuel finish start_mono sr m : sc m0 m -> TG Jf (run_iteration fuel finish start_mono sr m) (fun _ => Jf).
  Proof.
    intro Hsc. unfold run_iteration.
    eapply tripleG_bind with (R := fun _ => Jf).
    { destruct sr; [|rj]. nna ninv_now as n.
      match goal with |- TG _ (match ?x with Some _ => _ | None => _ end) _ => destruct x end; [|rj].
      nn ninv_report. nn ninv_write. nn ninv_write. nn ninv_write. rj. }
    intro sr'.
    eapply tripleG_bind; [apply TG_and_ret; [apply (ninv_update_next m Jf Vst_Jf)|apply C06rtProof.rc_update_next]|].
    intros [m1 t]. cbv beta. cbn [fst]. apply tripleG_pre_pure. intro H1. assert (Hs1 : sc m0 m1) by (eapply sc_tr; eassumption).
    nna ninv_make_wait as roles. nna ninv_do_outer_select as sel.
    nna (ninv_quiet _ quietV_pop_allowed) as dec. ne.
    assert (Hrep : forall r, TG Jf (match sel with Some (_, id) => emit (AReply id r) | None => ret tt end) (fun _ => Jf)).
    { intro r. destruct sel as [[s id]|]; [apply (ninv_emit (AReply id r) eq_refl Jf Vst_Jf)|rj]. }
    destruct dec.
    1,2: (eapply tripleG_bind; [apply Hrep|intro; cbv beta]; nn ninv_enter_check;
          thread F_start C06rtProof.rc_start Hs1 r2 H2; destruct r2 as [m2 rb]; cbn [fst] in H2;
          nn (ninv_quiet _ (quietV_set_incheck false)); nna (ninv_quiet _ quietV_take_upgrade) as upg;
          eapply tripleG_bind with (R := fun _ => Jf);
          [destruct rb; [ny; apply F_wait_for_reboot; eapply sc_tr; eassumption|rj]|intro m3; cbv beta]; ny; rj).
    all: (eapply tripleG_bind; [apply Hrep|intro; cbv beta]; rj).
  Qed.

  Lemma F_run_loop iters : forall fuel finish start_mono sr m, sc m0 m -> TG Jf (run_loop iters fuel finish start_mono sr m) (fun _ => Jf).
  Proof.
    induction iters as [|k IH]; intros fuel finish start_mono sr m Hsc; cbn [run_loop]; [apply tripleG_halt|].
    thread F_run_iteration C06rtProof.rc_run_iteration Hsc r H1. destruct r as [m' sr']. cbn [fst] in H1.
    apply IH. eapply sc_tr; eassumption.
  Qed.
  Lemma F_run iters fuel m : sc m0 m -> TG Jf (run iters fuel m) (fun _ => Jf).
  Proof.
    intro Hsc. unfold run. destruct (negb (forallb app_valid (m_apps m))); [rj|].
    nna ninv_now as n. nna ninv_st_get_time as fin. nna (ninv_quiet _ (quietV_st_get_str K_TARGET_VERSION)) as tv. apply F_run_loop. exact Hsc.
  Qed.
  Lemma F_oneshot fuel m : sc m0 m -> TG Jf (oneshot fuel m) (fun _ => Jf).
  Proof. intro Hsc. unfold oneshot. eapply tripleG_bind; [apply (F_start fuel _ m Hsc)|]. intros [m' rb]. rj. Qed.
End Flow.

Theorem model_accepted_c03f ep cfg url cup apps e :
  e_trace e = [] -> accepts step3f (init3f url cup) (run_case ep cfg url cup apps e) = true.
Proof.
  intros Ht. unfold run_case, accepts.
  set (m0 := build cfg url cup apps (e_store e)).
  set (q0 := init3f url cup).
  assert (Hm0 : mst step3f q0 e = Some q0) by (unfold mst; rewrite Ht; reflexivity).
  assert (HI : Jf m0 q0 e).
  { unfold Jf, m0, build, q0, init3f. destruct (ctx_load (pend (e_store e))). cbn. split; [reflexivity|]. split; [reflexivity|]. intros x []. }
  assert (Hsc : sc m0 m0) by (split; reflexivity).
  destruct ep.
  - destruct (F_run m0 (Datatypes.S (length (e_stim e) + length (c_inject (e_cs e)))) (4 + length (e_stim e) + length (c_inject (e_cs e)))
                m0 Hsc q0 e q0 Hm0 HI) as (q' & Hq' & _).
    fold m0. destruct (run _ _ m0 e) as [r e'] eqn:E. cbn [snd] in Hq'. unfold mst in Hq'. rewrite Hq'. reflexivity.
  - destruct (F_oneshot m0 (4 + length (e_stim e) + length (c_inject (e_cs e))) m0 Hsc q0 e q0 Hm0 HI) as (q' & Hq' & _).
    fold m0. destruct (oneshot _ m0 e) as [r e'] eqn:E. cbn [snd] in Hq'. unfold mst in Hq'. rewrite Hq'. reflexivity.
Qed.
