(* Proofs/C03Proof.v — every model trace is accepted by the decoration monitor step3a *)
Require Import Verif.Model.Time Verif.Base.Bytes Verif.Proofs.BytesFacts Verif.Model.Version Verif.Model.Json Verif.Model.Proto
               Verif.Model.Request Verif.Model.Env Verif.Model.SM Verif.Model.Monitors Verif.Model.Monitors3
               Verif.Proofs.Monitor Verif.Proofs.MonGeneric Verif.Proofs.UriFacts.
From Coq Require Import Lia.
Open Scope Z_scope.

Notation T := (triple step3a).
Definition Inv3 (q : q3a) : Prop := True.
Notation nM := (neutralM step3a Inv3).

(* the monitor knows the service URL and the key id the machine uses *)
Definition J (m : sm) (q : q3a) : Prop := url3a q = m_url m /\ kid3a q = m_cup m.
Lemma J_inv m q : J m q -> Inv3 q. Proof. intros; exact I. Qed.
Lemma J_ext m m' q : m_url m' = m_url m -> m_cup m' = m_cup m -> J m q -> J m' q.
Proof. intros Hu Hc (H1 & H2). split; congruence. Qed.

Definition idle_action (a : action) : Prop :=
  match a with AHttp _ _ | AInstaller (ICreatePlan _ _ _ _) _ => False | _ => True end.
Lemma step3a_idle q a : idle_action a -> step3a q a = Some q.
Proof.
  intros Ha. destruct a as [ev|pq ans|w o|c ans|c|w|op ok|mt|id src|id r]; try contradiction; try reflexivity.
  destruct c; try contradiction; reflexivity.
Qed.
Lemma ign_store3 : ign_store step3a Inv3. Proof. intros op ok q H. reflexivity. Qed.
Lemma ign_clock3 : ign_clock step3a Inv3. Proof. intros c q H. reflexivity. Qed.
Lemma ign_metric3 : ign_metric step3a Inv3. Proof. intros c q H. reflexivity. Qed.
Lemma ign_timer3 w : neutral step3a Inv3 (ATimer w). Proof. intros q H. reflexivity. Qed.
Lemma ign_ctl3 : ign_ctl step3a. Proof. split; intros; reflexivity. Qed.
Ltac temit := first [apply triple_emit | apply (T_yield step3a _ _ _ ign_ctl3) | (unfold yield_state; apply (T_yield step3a _ _ _ ign_ctl3))].

Lemma Jn {A} (m0 : sm) (m : M A) : nM m -> T (J m0) m (fun _ => J m0).
Proof. intro H. apply (H (J m0)). apply J_inv. Qed.
Ltac kn H := eapply triple_bind; [apply (Jn _ _ H)|intro].
Tactic Notation "kna" constr(H) "as" ident(x) := eapply triple_bind; [apply (Jn _ _ H)|intro x].
Lemma nM_emit_idle a : idle_action a -> nM (emit a).
Proof. intro Ha. apply neutralM_emit. intros q H. apply step3a_idle; assumption. Qed.
Lemma nM_yield_idle ev : True -> nM (yield_ ev).
Proof. intro H. apply neutralM_yield; [apply ign_ctl3|]. intros q Hq. reflexivity. Qed.
Lemma nM_yield_state s : nM (yield_state s).
Proof. apply nM_yield_idle. exact I. Qed.
Ltac rj := apply triple_ret; intros q Hq; exact Hq.
Ltac rext := apply triple_ret; intros q Hq; (eapply J_ext; [| |exact Hq]; reflexivity).

(* ---------- the decorated URI ---------- *)
Lemma append_query_app p q k a b : append_query p q k (a ++ b) = append_query p q k a ++ b.
Proof. unfold append_query. destruct q; rewrite <- ?app_assoc; cbn [List.app]; rewrite <- ?app_assoc; cbn [List.app]; rewrite <- ?app_assoc; reflexivity. Qed.
Lemma firstn_exact {A} (a b : list A) : firstn (length a) (a ++ b) = a.
Proof. induction a as [|x a IH]; cbn; [reflexivity|]. rewrite IH. reflexivity. Qed.
Lemma skipn_exact {A} (a b : list A) : skipn (length a) (a ++ b) = b.
Proof. induction a as [|x a IH]; cbn; [reflexivity|exact IH]. Qed.
Lemma nonce_text_long n : (64 <= length (nonce_text n))%nat.
Proof. unfold nonce_text, pad_to. rewrite app_length, repeat_length. lia. Qed.
Lemma digit_is_hex c : is_digit c = true -> is_hex c = true.
Proof. unfold is_digit, is_hex. intro H. rewrite H. reflexivity. Qed.
Lemma nonce_text_hex n : forallb is_hex (nonce_text n) = true.
Proof.
  unfold nonce_text, pad_to. rewrite forallb_app. apply andb_true_iff. split.
  - apply forallb_forall. intros x Hx. apply repeat_spec in Hx. subst. reflexivity.
  - destruct (print_dec_canonical n) as (_ & Had & _). unfold all_digits in Had.
    apply forallb_forall. intros x Hx. rewrite forallb_forall in Had. apply digit_is_hex, Had, Hx.
Qed.

Lemma decorated_ok u kid n :
  bytes_eqb (firstn (length (cup_prefix u kid)) (u_prefix u ++ append_query (u_path u) (u_query u) (s2b "cup2key") (print_dec kid ++ 58%N :: nonce_text n)))
            (cup_prefix u kid)
  && Nat.leb 64 (length (skipn (length (cup_prefix u kid)) (u_prefix u ++ append_query (u_path u) (u_query u) (s2b "cup2key") (print_dec kid ++ 58%N :: nonce_text n))))
  && forallb is_hex (skipn (length (cup_prefix u kid)) (u_prefix u ++ append_query (u_path u) (u_query u) (s2b "cup2key") (print_dec kid ++ 58%N :: nonce_text n))) = true.
Proof.
  assert (E : u_prefix u ++ append_query (u_path u) (u_query u) (s2b "cup2key") (print_dec kid ++ 58%N :: nonce_text n)
              = cup_prefix u kid ++ nonce_text n).
  { unfold cup_prefix. rewrite <- app_assoc. f_equal.
    change (print_dec kid ++ 58%N :: nonce_text n) with (print_dec kid ++ [58%N] ++ nonce_text n).
    rewrite app_assoc. apply append_query_app. }
  rewrite E, firstn_exact, skipn_exact, bytes_eqb_refl, nonce_text_hex. cbn [andb].
  rewrite andb_true_r. apply Nat.leb_le. apply nonce_text_long.
Qed.

(* ---------- do_omaha_request ---------- *)
Lemma T_do_req b m : T (J m) (do_omaha_request b m) (fun r => J (fst r)).
Proof.
  unfold do_omaha_request.
  destruct (negb (u_valid (m_url m))); [apply triple_ret; auto|].
  destruct (negb (headers_ok (m_cfg m) b)).
  { eapply triple_bind with (R := fun _ => J m); [|intro; apply triple_ret; auto].
    destruct (m_cup m); [|apply triple_ret; auto].
    kn (neutralM_silent step3a Inv3 _ silent_fresh_nonce). apply triple_ret. auto. }
  eapply triple_bind with
    (R := fun uri q => J m q /\ match m_cup m with
                               | Some kid => exists n, uri = u_prefix (m_url m) ++ append_query (u_path (m_url m)) (u_query (m_url m)) (s2b "cup2key") (print_dec kid ++ 58%N :: nonce_text n)
                               | None => uri = plain_uri (m_url m) end).
  { destruct (m_cup m) as [kid|].
    - kna (neutralM_silent step3a Inv3 _ silent_fresh_nonce) as n. apply triple_ret. intros q Hq. split; [exact Hq|]. exists n. reflexivity.
    - apply triple_ret. intros q Hq. split; [exact Hq|reflexivity]. }
  intro uri. apply T_pre_pure. intro Huri.
  kna (neutralM_silent step3a Inv3 _ silent_pop_http) as o.
  eapply triple_bind with (R := fun _ => J m).
  { apply triple_emit. intros q Hq. exists q. split; [|exact Hq]. destruct Hq as [Hu Hk].
    unfold step3a. rewrite Hk, Hu. cbn [w_uri]. destruct (m_cup m) as [kid|].
    - destruct Huri as (n & ->). rewrite decorated_ok. reflexivity.
    - rewrite Huri, bytes_eqb_refl. reflexivity. }
  intros _.
  destruct o as [k|status ra authentic bd]; [rj|].
  destruct (match m_cup m with Some _ => negb authentic | None => false end); [rj|].
  eapply triple_bind with (R := fun m' => J m').
  { destruct (oZ_eqb (ps_poll (m_ps m)) (parse_retry_after ra)); [rj|]. cbv zeta.
    match goal with |- T _ (bind (yield_ ?ev) _) _ => kn (nM_yield_idle ev I) end.
    match goal with |- T _ (bind (ctx_persist ?a ?b) _) _ => kn (neutralM_ctx_persist step3a Inv3 a b ign_store3) end.
    kn (neutralM_st_write step3a Inv3 SCommit ign_store3). rext. }
  intro m'. destruct ((200 <=? status) && (status <? 300))%N; rj.
Qed.

(* ---------- the rest of the flow keeps the invariant ---------- *)
Lemma T_report_event p ev apps sess nv dur m : T (J m) (report_event p ev apps sess nv dur m) J.
Proof.
  unfold report_event. kn (neutralM_silent step3a Inv3 _ silent_fresh_guid).
  eapply triple_bind with (R := fun _ => J m).
  { eapply triple_conseq; [apply (T_maybe_ids step3a _ _ _ _ (J m))|auto|]. intros b q [H _]. exact H. }
  intro b. eapply triple_bind; [apply T_do_req|]. intros [m' [e|bd]]; cbn [fst].
  - kn (neutralM_report step3a Inv3 (MOmahaEventLost ev) ign_metric3). apply triple_ret. auto.
  - apply triple_ret. auto.
Qed.

Lemma T_attempt_loop b0 sess fuel : forall attempt m,
  T (J m) (attempt_loop fuel attempt b0 sess m) (fun r => J (fst (fst r))).
Proof.
  induction fuel as [|f IH]; intros attempt m; cbn [attempt_loop]; [apply triple_halt|].
  kn (neutralM_now step3a Inv3 ign_clock3). kn (neutralM_silent step3a Inv3 _ silent_fresh_guid).
  eapply triple_bind with (R := fun _ => J m).
  { eapply triple_conseq; [apply (T_maybe_ids step3a _ _ _ _ (J m))|auto|]. intros b q [H _]. exact H. }
  intro b. eapply triple_bind; [apply T_do_req|]. intros [m1 res]; cbn [fst].
  kna (neutralM_now step3a Inv3 ign_clock3) as fin.
  eapply triple_bind with (R := fun _ => J m1).
  { match goal with |- T _ (if ?c then _ else _) _ => destruct c end;
      [apply (Jn _ _ (neutralM_report step3a Inv3 _ ign_metric3))|apply triple_ret; auto]. }
  intros _. destruct res as [e|bd]; [|apply triple_ret; auto].
  match goal with |- T _ (if ?c then _ else _) _ => destruct c end.
  - kn (nM_yield_state ErrorCheckingForUpdate). apply triple_ret. auto.
  - kna (neutralM_silent step3a Inv3 _ silent_pop_backoff) as r.
    kn (neutralM_emit step3a Inv3 _ (ign_timer3 (WFor (randomize (Z.shiftl 1 (attempt - 1) * 1000) 1000 r * 1000000)))).
    apply IH.
Qed.


Lemma T_report_check_interval src m : T (J m) (report_check_interval src m) J.
Proof.
  unfold report_check_interval. kna (neutralM_now step3a Inv3 ign_clock3) as n.
  eapply triple_bind with (R := fun _ => J m); [|intro; rext].
  destruct (s_last_check (m_sched m)) as [[w|mm|c]|]; try (apply triple_ret; auto).
  - destruct (w <=? wall n); [apply (Jn _ _ (neutralM_report step3a Inv3 _ ign_metric3))|apply triple_ret; auto].
  - destruct (mono c <=? mono n); [apply (Jn _ _ (neutralM_report step3a Inv3 _ ign_metric3))|apply triple_ret; auto].
Qed.

Lemma T_maybe_ids3 (c : bool) b s r m : T (J m) (if c then with_ids b s r else ret b) (fun _ => J m).
Proof. eapply triple_conseq; [apply (T_maybe_ids step3a _ _ _ _ (J m))|auto|]. intros b' q [H _]. exact H. Qed.

Lemma T_perform fuel p apps m : T (J m) (perform_update_check fuel p apps m) (fun r => J (fst r)).
Proof.
  unfold perform_update_check.
  kn (nM_yield_state (CheckingForUpdates (p_source p))).
  eapply triple_bind; [apply T_report_check_interval|]. intro m0.
  kn (neutralM_silent step3a Inv3 _ silent_fresh_guid).
  eapply triple_bind; [apply T_attempt_loop|]. intros [[m1 attempts] res]; cbn [fst].
  kn (neutralM_report step3a Inv3 (MRequestsPerCheck attempts (match res with inr _ => true | inl _ => false end)) ign_metric3).
  destruct res as [e|[d|]].
  - rj.
  - kn (nM_yield_idle (EvServerResponse d) I).
    destruct (filter uc_ok (d_apps d)) as [|wu0 wur] eqn:Hwu.
    + kn (nM_yield_state NoUpdateAvailable). rj.
    + kna (neutralM_silent step3a Inv3 _ silent_pop_plan) as pl.
      eapply triple_bind with (R := fun _ => J m1).
      { apply triple_emit. intros q Hq. exists q. split; [|exact Hq]. destruct Hq as [_ Hk]. unfold step3a. rewrite Hk.
        destruct (m_cup m1); reflexivity. }
      intro.
      destruct pl as [plan|].
      2:{ kn (nM_yield_state InstallingUpdate). kn (nM_yield_state InstallationError).
          eapply triple_bind; [apply T_report_event|]. intro. rj. }
      kna (neutralM_silent step3a Inv3 _ silent_pop_can_start) as dec.
      match goal with |- T _ (bind (emit ?a) _) _ => kn (nM_emit_idle a I) end.
      destruct dec.
      * kn (nM_yield_state InstallingUpdate).
        eapply triple_bind; [apply T_report_event|]. intro m2.
        kna (neutralM_now step3a Inv3 ign_clock3) as t0.
        kn (neutralM_record_first_seen step3a Inv3 plan (wall t0) ign_store3).
        kna (neutralM_silent step3a Inv3 _ silent_pop_perform) as pa.
        match goal with |- T _ (bind (emit ?a) _) _ => kn (nM_emit_idle a I) end.
        kn (neutralM_iterM step3a Inv3 (fun bits => yield_ (EvProgress bits)) (pa_progress pa)
              (fun bits => nM_yield_idle (EvProgress bits) I)).
        kna (neutralM_now step3a Inv3 ign_clock3) as t1.
        eapply triple_bind with (R := fun _ => J m2).
        { match goal with |- T _ (if ?c then _ else _) _ => destruct c end.
          - match goal with |- T _ (bind (report ?x) _) _ => kn (neutralM_report step3a Inv3 x ign_metric3) end. rj.
          - rj. }
        intro dur. kn (neutralM_silent step3a Inv3 _ silent_fresh_guid).
        eapply triple_bind; [apply T_maybe_ids3|]. intro b.
        eapply triple_bind; [apply T_do_req|]. intros [m3 rr]; cbn [fst].
        eapply triple_bind with (R := fun _ => J m3).
        { destruct rr; [|rj]. apply (Jn _ _ (neutralM_iterM step3a Inv3 _ _ (fun x => neutralM_report step3a Inv3 _ ign_metric3))). }
        intros _.
        eapply triple_bind with (R := fun m' => J m').
        { match goal with |- T _ (match ?l with [] => _ | _ => _ end) _ => destruct l end; [rj|apply T_report_event]. }
        intro m4.
        match goal with |- T _ (match ?n with O => _ | S _ => _ end) _ => destruct n as [|nerr] end.
        -- eapply triple_bind with (R := fun _ => J m4).
           { match goal with |- T _ (if ?c then _ else _) _ => destruct c end;
               [apply (Jn _ _ (neutralM_report step3a Inv3 _ ign_metric3))|rj]. }
           intros _. kn (neutralM_st_set_time step3a Inv3 K_FINISH_TIME (wall t1) ign_store3).
           eapply triple_bind with (R := fun _ => J m4).
           { match goal with |- T _ (match ?x with Some _ => _ | None => _ end) _ => destruct x as [o|] end; [|rj].
             kn (neutralM_st_write step3a Inv3 (SSetStr K_TARGET_VERSION (match o with Some v => v | None => s2b "UNKNOWN" end)) ign_store3). rj. }
           intros _. kn (neutralM_st_write step3a Inv3 SCommit ign_store3).
           kna (neutralM_silent step3a Inv3 _ silent_pop_reboot_needed) as rn.
           match goal with |- T _ (bind (emit ?a) _) _ => kn (nM_emit_idle a I) end. rj.
        -- kn (neutralM_iterM step3a Inv3 (fun _ : unit => yield_ EvInstallerError) (repeat tt (Datatypes.S nerr))
                 (fun _ => nM_yield_idle EvInstallerError I)).
           kn (nM_yield_state InstallationError). rj.
      * eapply triple_bind; [apply T_report_event|]. intro.
        kn (nM_yield_state InstallationDeferredByPolicy). rj.
      * eapply triple_bind; [apply T_report_event|]. intro. rj.
  - kn (nM_yield_state ErrorCheckingForUpdate).
    eapply triple_bind; [apply T_report_event|]. intro. rj.
Qed.


Lemma T_start fuel p m : T (J m) (start_update_check fuel p m) (fun r => J (fst r)).
Proof.
  unfold start_update_check.
  eapply triple_bind; [apply T_perform|]. intros [m1 res]; cbn [fst].
  eapply triple_bind with (R := fun fin => J (fst (fst fin))).
  { destruct res as [e|[rs rb]].
    - eapply triple_bind with (R := fun mr => J (fst mr)).
      { destruct e as [re| |].
        + destruct re; rj.
        + kna (neutralM_now step3a Inv3 ign_clock3) as n. rext.
        + kna (neutralM_now step3a Inv3 ign_clock3) as n. rext. }
      intros [m2 reason]; cbn [fst].
      kn (neutralM_report step3a Inv3 (MFailureReason reason) ign_metric3). rext.
    - kna (neutralM_now step3a Inv3 ign_clock3) as n.
      match goal with |- T _ (bind (report ?x) _) _ => kn (neutralM_report step3a Inv3 x ign_metric3) end.
      eapply triple_bind with (R := fun _ => J m1).
      { destruct (install_success rs); [apply (Jn _ _ (neutralM_report_attempts_install step3a Inv3 _ ign_store3 ign_metric3))|rj]. }
      intro. rext. }
  intros [[m2 result] rb]; cbn [fst].
  kn (nM_yield_idle (EvSchedule (m_sched m2)) I).
  kn (nM_yield_idle (EvProtocol (m_ps m2)) I).
  kn (nM_yield_idle (EvResult result) I).
  kn (neutralM_persist_data step3a Inv3 m2 ign_store3). rj.
Qed.

Lemma T_update_next m : T (J m) (update_next_update_time m) (fun r => J (fst r)).
Proof.
  unfold update_next_update_time. kna (neutralM_silent step3a Inv3 _ silent_pop_next_time) as t.
  match goal with |- T _ (bind (emit ?a) _) _ => kn (nM_emit_idle a I) end.
  match goal with |- T _ (bind (yield_ ?ev) _) _ => kn (nM_yield_idle ev I) end. rext.
Qed.

Lemma T_ping m : T (J m) (ping_omaha m) J.
Proof.
  unfold ping_omaha. kn (neutralM_silent step3a Inv3 _ silent_fresh_guid). kn (neutralM_silent step3a Inv3 _ silent_fresh_guid).
  eapply triple_bind; [apply T_maybe_ids3|]. intro b.
  eapply triple_bind; [apply T_do_req|]. intros [m1 res]; cbn [fst].
  assert (Hfail : T (J m1)
            (persist_data (with_ps m1 (set_fails (m_ps m1) (sat_inc_u32 (ps_fails (m_ps m1)))));;;
             ret (with_ps m1 (set_fails (m_ps m1) (sat_inc_u32 (ps_fails (m_ps m1)))))) J).
  { kn (neutralM_persist_data step3a Inv3 (with_ps m1 (set_fails (m_ps m1) (sat_inc_u32 (ps_fails (m_ps m1))))) ign_store3). rext. }
  destruct res as [er|[d|]]; [exact Hfail| |exact Hfail].
  kna (neutralM_now step3a Inv3 ign_clock3) as n.
  match goal with |- T _ (bind (yield_ ?ev) _) _ => kn (nM_yield_idle ev I) end.
  match goal with |- T _ (bind (persist_data ?x) _) _ => kn (neutralM_persist_data step3a Inv3 x ign_store3) end. rext.
Qed.

Lemma T_ask_reboot src m : T (J m) (ask_reboot_allowed src) (fun _ => J m).
Proof.
  unfold ask_reboot_allowed. kna (neutralM_silent step3a Inv3 _ silent_pop_reboot_allowed) as b.
  kn (nM_emit_idle (APolicy (QRebootAllowed src) (PBool b)) I). rj.
Qed.

Lemma T_handle_in_reboot id sc m : T (J m) (handle_in_reboot id sc) (fun _ => J m).
Proof.
  unfold handle_in_reboot. kn (nM_emit_idle (AReply id AlreadyRunning) I).
  destruct sc; [apply T_ask_reboot|rj].
Qed.

Lemma T_reboot_loop fuel : forall src pending m, T (J m) (reboot_loop fuel src pending m) J.
Proof.
  induction fuel as [|f IH]; intros src pending m; cbn [reboot_loop]; [apply triple_halt|].
  kna (neutralM_silent step3a Inv3 _ (silent_pop_queued)) as qd. destruct qd as [[id sc]|].
  { eapply triple_bind; [apply T_handle_in_reboot|]. intros [|]; [rj|apply IH]. }
  kna (neutralM_silent step3a Inv3 _ silent_pop_stim) as s. destruct s as [i|sc|].
  - assert (Hping : T (J m)
              (m1 <- ping_omaha m;; mt <- update_next_update_time m1;;
               (let '(m2, t) := mt in roles <- make_wait t;; reboot_loop f src (remove_nth i pending ++ roles) m2)) J).
    { eapply triple_bind; [apply T_ping|]. intro m1.
      eapply triple_bind; [apply T_update_next|]. intros [m2 t]; cbn [fst].
      kna (neutralM_make_wait step3a Inv3 t ign_timer3) as roles. apply IH. }
    destruct (nth_error pending i) as [[| |]|].
    + destruct (has_ping_roles (remove_nth i pending)); [apply IH|exact Hping].
    + destruct (has_ping_roles (remove_nth i pending)); [apply IH|exact Hping].
    + eapply triple_bind; [apply T_ask_reboot|]. intros [|]; [rj|].
      kn (neutralM_emit step3a Inv3 _ (ign_timer3 (WFor REBOOT_INTERVAL_NS))). apply IH.
    + apply IH.
  - kna (neutralM_silent step3a Inv3 _ silent_next_ctl) as id.
    kn (nM_emit_idle (ARequest id sc) I).
    eapply triple_bind; [apply T_handle_in_reboot|]. intros [|]; [rj|apply IH].
  - apply IH.
Qed.

Lemma T_wait_for_reboot fuel src m : T (J m) (wait_for_reboot fuel src m) J.
Proof.
  unfold wait_for_reboot.
  eapply triple_bind; [apply T_ask_reboot|]. intro ok.
  eapply triple_bind with (R := J).
  { destruct ok; [rj|].
    kn (neutralM_emit step3a Inv3 _ (ign_timer3 (WFor REBOOT_INTERVAL_NS))).
    eapply triple_bind; [apply T_update_next|]. intros [m1 t]; cbn [fst].
    kna (neutralM_make_wait step3a Inv3 t ign_timer3) as roles. apply T_reboot_loop. }
  intro m1. kna (neutralM_silent step3a Inv3 _ silent_pop_reboot) as okr.
  kn (nM_emit_idle (AInstaller IReboot (IRebooted okr)) I). rj.
Qed.

Lemma T_run_iteration fuel finish start_mono sr m :
  T (J m) (run_iteration fuel finish start_mono sr m) (fun r => J (fst r)).
Proof.
  unfold run_iteration.
  eapply triple_bind with (R := fun _ => J m).
  { destruct sr; [|rj]. kna (neutralM_now step3a Inv3 ign_clock3) as n.
    match goal with |- T _ (match ?x with Some _ => _ | None => _ end) _ => destruct x end; [|rj].
    match goal with |- T _ (bind (report ?x) _) _ => kn (neutralM_report step3a Inv3 x ign_metric3) end.
    kn (neutralM_st_write step3a Inv3 (SRemove K_FINISH_TIME) ign_store3). kn (neutralM_st_write step3a Inv3 (SRemove K_TARGET_VERSION) ign_store3).
    kn (neutralM_st_write step3a Inv3 SCommit ign_store3). rj. }
  intro sr'. eapply triple_bind; [apply T_update_next|]. intros [m1 t]; cbn [fst].
  kna (neutralM_make_wait step3a Inv3 t ign_timer3) as roles.
  eapply triple_bind with (R := fun _ => J m1); [apply (T_do_outer_select step3a roles (J m1) ign_ctl3)|]. intro sel.
  kna (neutralM_silent step3a Inv3 _ silent_pop_allowed) as dec.
  match goal with |- T _ (bind (emit ?a) _) _ => kn (nM_emit_idle a I) end.
  assert (Hneg : T (J m1) (match sel with Some (_, id) => emit (AReply id Throttled) | None => ret tt end;;; ret (m1, sr'))
                   (fun r => J (fst r))).
  { eapply triple_bind with (R := fun _ => J m1); [|intro; rj].
    destruct sel as [[s id]|]; [apply (Jn _ _ (nM_emit_idle (AReply id Throttled) I))|rj]. }
  assert (Hpos : forall p, T (J m1)
            (match sel with Some (_, id) => emit (AReply id Started) | None => ret tt end;;;
             enter_check;;;
             r <- start_update_check fuel p m1;;
             set_incheck false;;;
             upg <- take_upgrade;;
             (let '(m0, rb) := r in
              m2 <- match rb with
                    | RebootNeeded _ => yield_state WaitingForReboot;;; wait_for_reboot fuel (if upg then OnDemand else match sel with Some (s, _) => s | None => ScheduledTask end) m0
                    | RebootNotNeeded => ret m0
                    end;;
              yield_state Idle;;; ret (m2, sr'))) (fun r => J (fst r))).
  { intro p. eapply triple_bind with (R := fun _ => J m1).
    { destruct sel as [[s id]|]; [apply (Jn _ _ (nM_emit_idle (AReply id Started) I))|rj]. }
    intro. eapply triple_bind with (R := fun _ => J m1); [apply (T_enter_check step3a (J m1) ign_ctl3)|]. intro.
    eapply triple_bind; [apply T_start|]. intros [m2 rb]; cbn [fst].
    kn (neutralM_silent step3a Inv3 _ (silent_set_incheck false)).
    kna (neutralM_silent step3a Inv3 _ silent_take_upgrade) as upg.
    eapply triple_bind with (R := J).
    { destruct rb as [plan|]; [|rj]. kn (nM_yield_state WaitingForReboot). apply T_wait_for_reboot. }
    intro m3. kn (nM_yield_state Idle). rj. }
  destruct dec; [apply Hpos|apply Hpos|exact Hneg|exact Hneg|exact Hneg].
Qed.

Lemma T_run_loop iters : forall fuel finish start_mono sr m,
  T (J m) (run_loop iters fuel finish start_mono sr m) J.
Proof.
  induction iters as [|k IH]; intros; cbn [run_loop]; [apply triple_halt|].
  eapply triple_bind; [apply T_run_iteration|]. intros [m' sr']; cbn [fst]. apply IH.
Qed.

Lemma T_run iters fuel m : T (J m) (run iters fuel m) J.
Proof.
  unfold run. destruct (negb (forallb app_valid (m_apps m))); [rj|].
  kn (neutralM_now step3a Inv3 ign_clock3). kn (neutralM_silent step3a Inv3 _ (silent_st_get_time K_FINISH_TIME)).
  kn (neutralM_silent step3a Inv3 _ (silent_st_get_str K_TARGET_VERSION)). apply T_run_loop.
Qed.

Lemma T_oneshot fuel m : T (J m) (oneshot fuel m) J.
Proof. unfold oneshot. eapply triple_bind; [apply T_start|]. intros [m' rb]; cbn [fst]. rj. Qed.

Theorem model_accepted_c03 ep cfg url cup apps e :
  e_trace e = [] -> accepts step3a ((init3a url cup)) (run_case ep cfg url cup apps e) = true.
Proof.
  intro Ht. unfold run_case, accepts.
  set (m := build cfg url cup apps (e_store e)).
  assert (HJ : J m ((init3a url cup))).
  { unfold J, init3a, m, build. destruct (ctx_load (pend (e_store e))) as [sc ps]. split; reflexivity. }
  destruct ep.
  - destruct (T_run (Datatypes.S (length (e_stim e) + length (c_inject (e_cs e)))) (4 + length (e_stim e) + length (c_inject (e_cs e))) m ((init3a url cup)) e ((init3a url cup))) as (q' & Hq' & _).
    + unfold mst. rewrite Ht. reflexivity.
    + exact HJ.
    + destruct (run _ _ m e) as [r e'] eqn:E. cbn [snd] in Hq'. unfold mst in Hq'. rewrite Hq'. reflexivity.
  - destruct (T_oneshot (4 + length (e_stim e) + length (c_inject (e_cs e))) m ((init3a url cup)) e ((init3a url cup))) as (q' & Hq' & _).
    + unfold mst. rewrite Ht. reflexivity.
    + exact HJ.
    + destruct (oneshot _ m e) as [r e'] eqn:E. cbn [snd] in Hq'. unfold mst in Hq'. rewrite Hq'. reflexivity.
Qed.
