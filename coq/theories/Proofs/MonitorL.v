(* Proofs/MonitorL.v — the trace-Hoare framework of Proofs/Monitor.v with a *link* between the monitor's state and
   the environment: `tripleL P m Q` additionally assumes and re-establishes `L q e`.  Used where a monitor keeps a ghost
   copy of something the environment owns (C18: the storage view) and the model reads that thing back. *)
Require Import Verif.Model.Time Verif.Base.Bytes Verif.Model.Proto Verif.Model.Env Verif.Proofs.Monitor.
Open Scope Z_scope.

Section MonL.
  Context {S : Type}.
  Variable step : S -> action -> option S.
  Variable L : S -> env -> Prop.
  (* the link looks at the store only, and an action that is not a storage operation does not move the ghost *)
  Hypothesis L_store : forall q e e', e_store e' = e_store e -> L q e -> L q e'.

  Definition tripleL {A} (P : S -> Prop) (m : M A) (Q : A -> S -> Prop) : Prop :=
    forall q0 e q, mst step q0 e = Some q -> L q e -> P q ->
      exists q', mst step q0 (snd (m e)) = Some q' /\ L q' (snd (m e)) /\
                 match fst (m e) with Some a => Q a q' | None => True end.

  Lemma tripleL_ret {A} (a : A) (P : S -> Prop) (Q : A -> S -> Prop) :
    (forall q, P q -> Q a q) -> tripleL P (ret a) Q.
  Proof. intros H q0 e q Hm Hl Hp. exists q. split; [exact Hm|]. split; [exact Hl|apply H; exact Hp]. Qed.

  Lemma tripleL_bind {A B} (m : M A) (f : A -> M B) P R Q :
    tripleL P m R -> (forall a, tripleL (R a) (f a) Q) -> tripleL P (bind m f) Q.
  Proof.
    intros Hm Hf q0 e q Hq Hl Hp. unfold bind.
    destruct (Hm q0 e q Hq Hl Hp) as (q1 & Hq1 & Hl1 & Hr).
    destruct (m e) as [[a|] e1]; cbn [fst snd] in *.
    - exact (Hf a q0 e1 q1 Hq1 Hl1 Hr).
    - exists q1. split; [exact Hq1|]. split; [exact Hl1|exact I].
  Qed.

  Lemma tripleL_conseq {A} (m : M A) (P P' : S -> Prop) (Q Q' : A -> S -> Prop) :
    tripleL P' m Q' -> (forall q, P q -> P' q) -> (forall a q, Q' a q -> Q a q) -> tripleL P m Q.
  Proof.
    intros H HP HQ q0 e q Hq Hl Hp. destruct (H q0 e q Hq Hl (HP _ Hp)) as (q' & Hq' & Hl' & Hr).
    exists q'. split; [exact Hq'|]. split; [exact Hl'|]. destruct (fst (m e)); [apply HQ; exact Hr|exact I].
  Qed.

  Lemma tripleL_halt {A} (P : S -> Prop) (Q : A -> S -> Prop) : tripleL P (@halt A) Q.
  Proof. intros q0 e q Hq Hl _. exists q. split; [exact Hq|]. split; [exact Hl|exact I]. Qed.

  Lemma tripleL_pre_pure {A} (P : S -> Prop) (phi : Prop) (m : M A) Q :
    (phi -> tripleL P m Q) -> tripleL (fun q => P q /\ phi) m Q.
  Proof. intros H q0 e q Hq Hl [Hp Hphi]. exact (H Hphi q0 e q Hq Hl Hp). Qed.

  (* an emitted action: the monitor's step must keep the link (the store is untouched by emit) *)
  Lemma tripleL_emit (a : action) (P : S -> Prop) (Q : unit -> S -> Prop) :
    (forall q e, L q e -> P q -> exists q', step q a = Some q' /\ L q' e /\ Q tt q') -> tripleL P (emit a) Q.
  Proof.
    intros H q0 e q Hq Hl Hp. destruct (H q e Hl Hp) as (q' & Hs & Hl' & HQ).
    exists q'. split; [|split; [|exact HQ]].
    - unfold mst, emit. cbn [snd upd_trace e_trace rev]. rewrite runmon_app.
      unfold mst in Hq. rewrite Hq. cbn [runmon]. rewrite Hs. reflexivity.
    - eapply L_store; [|exact Hl']. reflexivity.
  Qed.

  (* programs that leave trace and store alone *)
  Definition quietL {A} (m : M A) : Prop := forall e, e_trace (snd (m e)) = e_trace e /\ e_store (snd (m e)) = e_store e.

  Lemma tripleL_quiet {A} (m : M A) (P : S -> Prop) : quietL m -> tripleL P m (fun _ q => P q).
  Proof.
    intros H q0 e q Hq Hl Hp. destruct (H e) as [Ht Hs]. exists q. split; [unfold mst; rewrite Ht; exact Hq|].
    split; [eapply L_store; [exact Hs|exact Hl]|]. destruct (fst (m e)); [exact Hp|exact I].
  Qed.

  (* reading through the link: what a quiet program returns can be related to the monitor's state *)
  Lemma tripleL_read {A} (m : M A) (P : S -> Prop) (R : A -> S -> Prop) :
    quietL m -> (forall q e a, L q e -> fst (m e) = Some a -> R a q) -> tripleL P m (fun a q => P q /\ R a q).
  Proof.
    intros H HR q0 e q Hq Hl Hp. destruct (H e) as [Ht Hs]. exists q. split; [unfold mst; rewrite Ht; exact Hq|].
    split; [eapply L_store; [exact Hs|exact Hl]|]. destruct (fst (m e)) eqn:E; [|exact I]. split; [exact Hp|eapply HR; eassumption].
  Qed.

  Lemma quietL_bind {A B} (m : M A) (f : A -> M B) : quietL m -> (forall a, quietL (f a)) -> quietL (bind m f).
  Proof.
    intros Hm Hf e. unfold bind. destruct (Hm e) as [Ht Hs]. destruct (m e) as [[a|] e1]; cbn [snd] in *.
    - destruct (Hf a e1) as [Ht1 Hs1]. split; congruence.
    - split; assumption.
  Qed.
  Lemma quietL_ret {A} (a : A) : quietL (ret a).
  Proof. intro e. split; reflexivity. Qed.

  (* a storage write: the ghost must follow *)
  Lemma tripleL_st_write (op : store_op) (P : S -> Prop) (Q : bool -> S -> Prop) :
    (forall q e, L q e -> P q ->
       exists q', step q (AStore op (negb (faulty e))) = Some q' /\ L q' (snd (st_write op e)) /\ Q (negb (faulty e)) q') ->
    tripleL P (st_write op) Q.
  Proof.
    intros H q0 e q Hq Hl Hp. destruct (H q e Hl Hp) as (q' & Hs & Hl' & HQ).
    exists q'. split; [|split; [exact Hl'|exact HQ]].
    unfold mst, st_write. cbn [snd upd_trace e_trace rev]. rewrite runmon_app.
    unfold mst in Hq. rewrite Hq. cbn [runmon]. rewrite Hs. reflexivity.
  Qed.

  Lemma tripleL_iterM {A} (f : A -> M unit) (l : list A) (Inv : S -> Prop) :
    (forall x, In x l -> tripleL Inv (f x) (fun _ q => Inv q)) -> tripleL Inv (iterM f l) (fun _ q => Inv q).
  Proof.
    induction l as [|x r IH]; intro H; cbn [iterM].
    - apply tripleL_ret. auto.
    - eapply tripleL_bind; [apply H; left; reflexivity|].
      intros []. apply IH. intros y Hy. apply H. right. exact Hy.
  Qed.
End MonL.

(* ---------- quietness of the primitives (none of them touches the store or the trace) ---------- *)
Lemma quietL_read_clock : quietL read_clock.
Proof. intro e. unfold read_clock. destruct (e_clock e); split; reflexivity. Qed.
Lemma quietL_pop_next_time : quietL pop_next_time.
Proof. intro e. unfold pop_next_time. destruct (q_next_time e); split; reflexivity. Qed.
Lemma quietL_pop_allowed : quietL pop_allowed.
Proof. intro e. unfold pop_allowed. destruct (q_allowed e); split; reflexivity. Qed.
Lemma quietL_pop_can_start : quietL pop_can_start.
Proof. intro e. unfold pop_can_start. destruct (q_can_start e); split; reflexivity. Qed.
Lemma quietL_pop_reboot_needed : quietL pop_reboot_needed.
Proof. intro e. unfold pop_reboot_needed. destruct (q_reboot_needed e); split; reflexivity. Qed.
Lemma quietL_pop_reboot_allowed : quietL pop_reboot_allowed.
Proof. intro e. unfold pop_reboot_allowed. destruct (q_reboot_allowed e); split; reflexivity. Qed.
Lemma quietL_pop_http : quietL pop_http.
Proof. intro e. unfold pop_http. destruct (q_http e); split; reflexivity. Qed.
Lemma quietL_pop_plan : quietL pop_plan.
Proof. intro e. unfold pop_plan. destruct (q_plan e); split; reflexivity. Qed.
Lemma quietL_pop_perform : quietL pop_perform.
Proof. intro e. unfold pop_perform. destruct (q_perform e); split; reflexivity. Qed.
Lemma quietL_pop_reboot : quietL pop_reboot.
Proof. intro e. unfold pop_reboot. destruct (q_reboot e); split; reflexivity. Qed.
Lemma quietL_pop_backoff : quietL pop_backoff.
Proof. intro e. unfold pop_backoff. destruct (q_backoff e); split; reflexivity. Qed.
Lemma quietL_fresh_guid : quietL fresh_guid.
Proof. intro e. split; reflexivity. Qed.
Lemma quietL_fresh_nonce : quietL fresh_nonce.
Proof. intro e. split; reflexivity. Qed.
Lemma quietL_canon_guid d : quietL (canon_guid d).
Proof. intro e. unfold canon_guid. destruct (glookup (e_guids e) d); split; reflexivity. Qed.
Lemma quietL_st_get_int k : quietL (st_get_int k).
Proof. intro e. split; reflexivity. Qed.
Lemma quietL_st_get_str k : quietL (st_get_str k).
Proof. intro e. split; reflexivity. Qed.
Lemma quietL_st_get_time k : quietL (st_get_time k).
Proof. unfold st_get_time. apply quietL_bind; [apply quietL_st_get_int|intro; apply quietL_ret]. Qed.
Lemma quietL_pop_stim : quietL pop_stim.
Proof. intro e. unfold pop_stim. destruct (e_stim e); split; reflexivity. Qed.
Lemma quietL_next_ctl : quietL next_ctl.
Proof. intro e. split; reflexivity. Qed.
Lemma quietL_pop_queued : quietL pop_queued.
Proof. intro e. unfold pop_queued. destruct (c_inq (e_cs e)); split; reflexivity. Qed.
Lemma quietL_set_incheck b : quietL (set_incheck b).
Proof. intro e. split; reflexivity. Qed.
Lemma quietL_take_upgrade : quietL take_upgrade.
Proof. intro e. split; reflexivity. Qed.
