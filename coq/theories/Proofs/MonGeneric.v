(* Proofs/MonGeneric.v — monitor-independent part of the trace-Hoare proofs:
   programs that only emit actions the monitor ignores. *)
Require Import Verif.Model.Time Verif.Base.Bytes Verif.Model.Version Verif.Model.Json Verif.Model.Proto
               Verif.Model.Request Verif.Model.Env Verif.Model.SM Verif.Proofs.Monitor.
Open Scope Z_scope.

Section Generic.
  Context {S : Type}.
  Variable step : S -> action -> option S.
  (* actions are ignored by the monitor whenever its state satisfies Inv (e.g. "no pending obligation") *)
  Variable Inv : S -> Prop.
  Notation T := (triple step).

  Definition neutral (a : action) : Prop := forall q, Inv q -> step q a = Some q.
  Definition neutralM {A} (m : M A) : Prop :=
    forall P : S -> Prop, (forall q, P q -> Inv q) -> T P m (fun _ q => P q).

  Lemma neutralM_ret {A} (a : A) : neutralM (ret a).
  Proof. intros P _. apply triple_ret. auto. Qed.
  Lemma neutralM_bind {A B} (m : M A) (f : A -> M B) : neutralM m -> (forall a, neutralM (f a)) -> neutralM (bind m f).
  Proof. intros Hm Hf P HP. eapply triple_bind; [apply Hm; exact HP|]. intro a. apply Hf. exact HP. Qed.
  Lemma neutralM_emit a : neutral a -> neutralM (emit a).
  Proof. intros H P HP. apply triple_emit. intros q Hq. exists q. split; [apply H, HP, Hq|exact Hq]. Qed.
  Lemma neutralM_silent {A} (m : M A) : silent m -> neutralM m.
  Proof. intros H P _. apply triple_silent. exact H. Qed.
  Lemma neutralM_halt {A} : neutralM (@halt A).
  Proof. intros P _. apply triple_halt. Qed.
  Lemma neutralM_iterM {A} (f : A -> M unit) l : (forall x, neutralM (f x)) -> neutralM (iterM f l).
  Proof. intros H P HP. apply triple_iterM. intros x _. apply H. exact HP. Qed.

  (* what the monitor may be told to ignore *)
  Definition ign_store : Prop := forall op ok, neutral (AStore op ok).
  Definition ign_clock : Prop := forall c, neutral (AClock c).
  Definition ign_metric : Prop := forall m, neutral (AMetric m).

  Lemma neutralM_st_write op : ign_store -> neutralM (st_write op).
  Proof.
    intros Hs P HP q0 e q Hq Hp. exists q. split; [|exact Hp].
    unfold mst, st_write. cbn [snd upd_trace e_trace rev]. rewrite runmon_app.
    unfold mst in Hq. rewrite Hq. cbn [runmon]. rewrite Hs by (apply HP, Hp). reflexivity.
  Qed.

  Lemma neutralM_now : ign_clock -> neutralM now.
  Proof.
    intro Hc. unfold now. apply neutralM_bind; [apply neutralM_silent, silent_read_clock|].
    intro c. apply neutralM_bind; [apply neutralM_emit, Hc|]. intro. apply neutralM_ret.
  Qed.

  Lemma neutralM_report m : ign_metric -> neutralM (report m).
  Proof. intro H. unfold report. apply neutralM_emit, H. Qed.

  Lemma neutralM_st_set_option_int k v : ign_store -> neutralM (st_set_option_int k v).
  Proof. intro H. unfold st_set_option_int. destruct v; apply neutralM_st_write, H. Qed.
  Lemma neutralM_st_set_time k t : ign_store -> neutralM (st_set_time k t).
  Proof. intro H. apply neutralM_st_set_option_int, H. Qed.
  Lemma neutralM_ctx_persist sc ps : ign_store -> neutralM (ctx_persist sc ps).
  Proof. intro H. unfold ctx_persist. repeat (apply neutralM_bind; [apply neutralM_st_set_option_int, H|intro]). apply neutralM_ret. Qed.
  Lemma neutralM_persist_data m : ign_store -> neutralM (persist_data m).
  Proof.
    intro H. unfold persist_data. apply neutralM_bind; [apply neutralM_ctx_persist, H|intro].
    apply neutralM_bind.
    - apply neutralM_iterM; intro. apply neutralM_bind; [apply neutralM_st_write, H|intro; apply neutralM_ret].
    - intro. apply neutralM_bind; [apply neutralM_st_write, H|intro; apply neutralM_ret].
  Qed.
  Lemma neutralM_with_ids b s r : neutralM (with_ids b s r).
  Proof.
    unfold with_ids. apply neutralM_bind; [apply neutralM_silent, silent_canon_guid|intro].
    apply neutralM_bind; [apply neutralM_silent, silent_canon_guid|intro]. apply neutralM_ret.
  Qed.
  Lemma neutralM_report_check_interval src m : ign_clock -> ign_metric -> neutralM (report_check_interval src m).
  Proof.
    intros Hc Hm. unfold report_check_interval. apply neutralM_bind; [apply neutralM_now, Hc|intro a].
    apply neutralM_bind; [|intro; apply neutralM_ret].
    destruct (s_last_check (m_sched m)) as [[w|mm|c]|]; try apply neutralM_ret.
    - destruct (w <=? wall a); [apply neutralM_report, Hm|apply neutralM_ret].
    - destruct (mono c <=? mono a); [apply neutralM_report, Hm|apply neutralM_ret].
  Qed.
  Lemma neutralM_record_first_seen plan t : ign_store -> neutralM (record_first_seen plan t).
  Proof.
    intro H. unfold record_first_seen. apply neutralM_bind; [apply neutralM_silent, silent_st_get_str|intro prev].
    assert (Hnew : neutralM (ok1 <- st_write (SSetStr K_INSTALL_PLAN_ID plan);;
                             (if negb ok1 then ret t
                              else ok2 <- st_set_time K_FIRST_SEEN t;;
                                   (if negb ok2 then st_write (SRemove K_INSTALL_PLAN_ID);;; ret t else st_write SCommit;;; ret t)))).
    { apply neutralM_bind; [apply neutralM_st_write, H|intro ok1]. destruct (negb ok1); [apply neutralM_ret|].
      apply neutralM_bind; [apply neutralM_st_set_time, H|intro ok2]. destruct (negb ok2);
        (apply neutralM_bind; [apply neutralM_st_write, H|intro; apply neutralM_ret]). }
    destruct prev as [p|]; [|exact Hnew].
    destruct (bytes_eqb p plan); [|exact Hnew].
    apply neutralM_bind; [apply neutralM_silent, silent_st_get_time|intro]. apply neutralM_ret.
  Qed.
  Lemma neutralM_report_attempts_install s : ign_store -> ign_metric -> neutralM (report_attempts_to_successful_install s).
  Proof.
    intros Hs Hm. unfold report_attempts_to_successful_install.
    apply neutralM_bind; [apply neutralM_silent, silent_st_get_int|intro].
    apply neutralM_bind; [apply neutralM_report, Hm|intro].
    apply neutralM_bind; [destruct s; apply neutralM_st_write, Hs|intro]. apply neutralM_ret.
  Qed.
  Lemma neutralM_make_wait t : (forall w, neutral (ATimer w)) -> neutralM (make_wait t).
  Proof.
    intro H. unfold make_wait. destruct (t_min t).
    - apply neutralM_bind; [apply neutralM_emit, H|intro]. apply neutralM_bind; [apply neutralM_emit, H|intro]. apply neutralM_ret.
    - apply neutralM_bind; [apply neutralM_emit, H|intro]. apply neutralM_ret.
  Qed.

  (* control traffic (requests sent through a handle, and their replies) ignored in every state *)
  Definition ign_ctl : Prop := (forall id s q, step q (ARequest id s) = Some q) /\ (forall id r q, step q (AReply id r) = Some q).

  Lemma T_after_event (P : S -> Prop) b : ign_ctl -> T P (after_event b) (fun _ => P).
  Proof.
    intros [Hq Hr] q0 e q Hm Hp. exists q.
    unfold mst, after_event in *.
    destruct (c_inject (e_cs e)) as [|[k src] rest]; [split; [exact Hm|exact Hp]|].
    destruct ((k <=? c_evn (e_cs e))%N && negb b); [|split; [exact Hm|exact Hp]].
    destruct (c_incheck (e_cs e)); cbn [fst snd upd_trace set_cs e_trace rev]; (split; [|exact Hp]).
    - rewrite <- app_assoc, runmon_app, Hm. cbn [List.app runmon]. rewrite Hq, Hr. reflexivity.
    - rewrite runmon_app, Hm. cbn [runmon]. rewrite Hq. reflexivity.
  Qed.

  Lemma T_yield (ev : sm_event) (P : S -> Prop) (Q : unit -> S -> Prop) :
    ign_ctl -> (forall q, P q -> exists q', step q (AEvent ev) = Some q' /\ Q tt q') -> T P (yield_ ev) Q.
  Proof.
    intros Hc H. unfold yield_. eapply triple_bind with (R := Q); [apply triple_emit; exact H|]. intros [].
    eapply triple_conseq; [apply (T_after_event (Q tt) _ Hc)|auto|]. intros [] q Hq. exact Hq.
  Qed.

  Lemma neutralM_yield (ev : sm_event) : ign_ctl -> neutral (AEvent ev) -> neutralM (yield_ ev).
  Proof.
    intros Hc Hn P HP. apply T_yield; [exact Hc|]. intros q Hq. exists q. split; [apply Hn, HP, Hq|exact Hq].
  Qed.

  Lemma runmon_replies q l : ign_ctl ->
    runmon step q (map (fun x : N * isource => AReply (fst x) AlreadyRunning) l) = Some q.
  Proof. intros [_ Hr]. induction l as [|x r IH]; cbn [map runmon]; [reflexivity|]. rewrite Hr. exact IH. Qed.

  Lemma T_enter_check (P : S -> Prop) : ign_ctl -> T P enter_check (fun _ => P).
  Proof.
    intros Hc q0 e q Hm Hp. exists q. split; [|exact Hp].
    unfold mst, enter_check in *. cbn [snd upd_trace set_cs e_trace].
    rewrite rev_app_distr, rev_involutive, runmon_app, Hm. apply runmon_replies. exact Hc.
  Qed.

  Lemma silent_pop_queued : silent pop_queued.
  Proof. intro e. unfold pop_queued. destruct (c_inq (e_cs e)); reflexivity. Qed.
  Lemma silent_set_incheck b : silent (set_incheck b).
  Proof. intro e. reflexivity. Qed.
  Lemma silent_take_upgrade : silent take_upgrade.
  Proof. intro e. reflexivity. Qed.

  (* helpers shared by the per-monitor proofs *)
  Lemma T_pre_pure {A} (P : S -> Prop) (phi : Prop) (m : M A) Q :
    (phi -> T P m Q) -> T (fun q => P q /\ phi) m Q.
  Proof. intros H q0 e q Hq [Hp Hphi]. exact (H Hphi q0 e q Hq Hp). Qed.

  Lemma T_silent_val {A} (m : M A) (P : S -> Prop) (R : A -> Prop) :
    silent m -> (forall e a, fst (m e) = Some a -> R a) -> T P m (fun a q => P q /\ R a).
  Proof.
    intros Hs Hr q0 e q Hq Hp. exists q. split; [unfold mst; rewrite Hs; exact Hq|].
    destruct (fst (m e)) eqn:E; [split; [exact Hp|eapply Hr; exact E]|exact I].
  Qed.

  Definition same_core (b b' : builder) : Prop :=
    b_params b' = b_params b /\ b_entries b' = b_entries b /\
    (b_sessid b' = b_sessid b /\ b_reqid b' = b_reqid b \/ exists s r, b_sessid b' = Some s /\ b_reqid b' = Some r).

  Lemma silent_with_ids b s r : silent (with_ids b s r).
  Proof. unfold with_ids. apply silent_bind; [apply silent_canon_guid|intro]. apply silent_bind; [apply silent_canon_guid|intro]. apply silent_ret. Qed.

  Lemma with_ids_core b s r e b' : fst (with_ids b s r e) = Some b' -> same_core b b'.
  Proof.
    unfold with_ids, bind, ret. destruct (canon_guid s e) as [[cs|] e1] eqn:E1; [|discriminate].
    destruct (canon_guid r e1) as [[cr|] e2] eqn:E2; [|discriminate].
    cbn [fst]. intro H. inversion H. split; [reflexivity|split; [reflexivity|]]. right. eexists _, _. split; reflexivity.
  Qed.

  Lemma T_maybe_ids (c : bool) b s r P :
    T P (if c then with_ids b s r else ret b) (fun b' q => P q /\ same_core b b').
  Proof.
    destruct c.
    - apply T_silent_val; [apply silent_with_ids|]. intros e a H. eapply with_ids_core; exact H.
    - apply triple_ret. intros q Hq. split; [exact Hq|split; [reflexivity|split; [reflexivity|left; split; reflexivity]]].
  Qed.

  Lemma silent_pop_stim : silent pop_stim.
  Proof. intro e. unfold pop_stim. destruct (e_stim e); reflexivity. Qed.
  Lemma silent_next_ctl : silent next_ctl.
  Proof. intro e. reflexivity. Qed.
  Lemma T_do_outer_select roles (P : S -> Prop) : ign_ctl -> T P (do_outer_select roles) (fun _ => P).
  Proof.
    intros [Hq Hr]. unfold do_outer_select.
    eapply triple_bind; [apply triple_silent, silent_pop_queued|]. intros [[id src]|]; [apply triple_ret; auto|].
    intros q0 e q Hm Hp. exists q. unfold mst in *.
    destruct (outer_select (e_stim e) roles (e_ctl e)) as [[[[[src id]|] r] c]|]; cbn [fst snd upd_trace set_stim e_trace rev].
    - split; [rewrite runmon_app, Hm; cbn [runmon]; rewrite Hq; reflexivity|exact Hp].
    - split; [exact Hm|exact Hp].
    - split; [exact Hm|exact I].
  Qed.
End Generic.
