(* Proofs/RequestFacts.v — the builder fold equals the declarative spec *)
Require Import Verif.Base.Bytes Verif.Proofs.BytesFacts Verif.Model.Version Verif.Model.Json Verif.Model.Proto Verif.Model.Request.
Open Scope N_scope.

Definition mem (x : bytes) (l : list bytes) : bool := existsb (bytes_eqb x) l.
Definition aid (a : app) : bytes := a_id a.
Definition oid (o : op) : bytes := a_id (op_app o).

Lemma beq_sym x y : bytes_eqb x y = bytes_eqb y x.
Proof.
  destruct (bytes_eqb x y) eqn:E, (bytes_eqb y x) eqn:F; try reflexivity.
  - apply bytes_eqb_eq in E. subst. rewrite bytes_eqb_refl in F. discriminate.
  - apply bytes_eqb_eq in F. subst. rewrite bytes_eqb_refl in E. discriminate.
Qed.

Lemma beq_neq x y : bytes_eqb x y = false -> x <> y.
Proof. intros H ->. rewrite bytes_eqb_refl in H. discriminate. Qed.

Lemma mem_congr x y l : bytes_eqb x y = true -> mem x l = mem y l.
Proof. intro H. apply bytes_eqb_eq in H. subst. reflexivity. Qed.

(* first_ids with "seen" written through mem *)
Lemma first_ids_cons o r seen :
  first_ids (o :: r) seen =
  if mem (oid o) seen then first_ids r seen else op_app o :: first_ids r (oid o :: seen).
Proof. reflexivity. Qed.

Lemma mem_cons x y l : mem x (y :: l) = bytes_eqb x y || mem x l.
Proof. reflexivity. Qed.

Lemma first_ids_snoc ops : forall o seen,
  first_ids (ops ++ [o]) seen =
  first_ids ops seen ++ (if mem (oid o) seen || mem (oid o) (map oid ops) then [] else [op_app o]).
Proof.
  induction ops as [|o1 r IH]; intros o seen.
  - cbn [List.app map]. rewrite first_ids_cons.
    replace (mem (oid o) []) with false by reflexivity. rewrite orb_false_r.
    destruct (mem (oid o) seen); reflexivity.
  - cbn [List.app map]. rewrite !first_ids_cons, mem_cons.
    destruct (mem (oid o1) seen) eqn:E1.
    + rewrite IH. f_equal.
      destruct (bytes_eqb (oid o) (oid o1)) eqn:E2.
      * rewrite (mem_congr _ _ seen E2), E1. reflexivity.
      * reflexivity.
    + rewrite IH. cbn [List.app]. f_equal. f_equal. rewrite mem_cons.
      destruct (bytes_eqb (oid o) (oid o1)), (mem (oid o) seen), (mem (oid o) (map oid r)); reflexivity.
Qed.

(* ids produced by first_ids *)
Lemma first_ids_mem ops : forall seen x,
  mem x (map aid (first_ids ops seen)) = mem x (map oid ops) && negb (mem x seen).
Proof.
  induction ops as [|o r IH]; intros seen x; [reflexivity|].
  rewrite first_ids_cons. cbn [map]. rewrite mem_cons.
  destruct (mem (oid o) seen) eqn:E.
  - rewrite IH. destruct (bytes_eqb x (oid o)) eqn:E2.
    + rewrite (mem_congr _ _ seen E2), E. cbn. rewrite andb_false_r. reflexivity.
    + reflexivity.
  - cbn [map]. rewrite mem_cons, IH, mem_cons. unfold aid at 1. fold (oid o).
    destruct (bytes_eqb x (oid o)) eqn:E2.
    + rewrite (mem_congr _ _ seen E2), E. reflexivity.
    + reflexivity.
Qed.

Definition distinct_ids (l : list app) : Prop :=
  forall i j a b, nth_error l i = Some a -> nth_error l j = Some b -> a_id a = a_id b -> i = j.

Lemma first_ids_nodup ops : forall seen, NoDup (map aid (first_ids ops seen)).
Proof.
  induction ops as [|o r IH]; intro seen; [constructor|].
  rewrite first_ids_cons. destruct (mem (oid o) seen) eqn:E; [apply IH|].
  cbn [map]. constructor; [|apply IH].
  intro Hin.
  assert (Hm : mem (aid (op_app o)) (map aid (first_ids r (oid o :: seen))) = true).
  { unfold mem. apply existsb_exists. exists (aid (op_app o)). split; [assumption|apply bytes_eqb_refl]. }
  rewrite first_ids_mem in Hm. apply andb_true_iff in Hm as [_ Hm].
  rewrite mem_cons in Hm. unfold aid, oid in Hm. rewrite bytes_eqb_refl in Hm. discriminate.
Qed.

(* the three entry modifications *)
Definition modify (p : params) (o : op) (e : entry) : entry :=
  match o with
  | OpUpdateCheck _ => {| e_app := e_app e; e_uc := Some (p_disable p, p_samever p); e_ping := e_ping e; e_events := e_events e |}
  | OpPing _ => {| e_app := e_app e; e_uc := e_uc e; e_ping := true; e_events := e_events e |}
  | OpEvent _ ev => {| e_app := e_app e; e_uc := e_uc e; e_ping := e_ping e; e_events := e_events e ++ [ev] |}
  end.

Lemma apply_op_modify p es o : apply_op p es o = insert_and_modify es (op_app o) (modify p o).
Proof. destruct o; reflexivity. Qed.

Lemma spec_entry_snoc p ops o a :
  spec_entry p (ops ++ [o]) a =
  if bytes_eqb (oid o) (a_id a) then modify p o (spec_entry p ops a) else spec_entry p ops a.
Proof.
  unfold spec_entry. rewrite filter_app. cbn [filter]. fold (oid o).
  destruct (bytes_eqb (oid o) (a_id a)) eqn:E; [|rewrite app_nil_r; reflexivity].
  rewrite !existsb_app, flat_map_app. cbn [existsb flat_map].
  destruct o as [b|b|b ev]; cbn [modify e_app e_uc e_ping e_events]; rewrite ?orb_false_r, ?orb_true_r, ?app_nil_r; reflexivity.
Qed.

Lemma spec_entry_fresh p ops a :
  mem (a_id a) (map oid ops) = false -> spec_entry p ops a = entry_new a.
Proof.
  intro H. unfold spec_entry.
  assert (Hf : filter (fun o => bytes_eqb (a_id (op_app o)) (a_id a)) ops = []).
  { induction ops as [|o r IH]; [reflexivity|]. cbn [filter map] in *.
    rewrite mem_cons in H. apply orb_false_iff in H as [H1 H2].
    fold (oid o). rewrite beq_sym, H1. apply IH. exact H2. }
  rewrite Hf. reflexivity.
Qed.

(* insert_and_modify on a list of entries with distinct ids *)
Lemma iam_absent (g : app -> entry) l a f :
  (forall x, e_app (g x) = x) -> mem (a_id a) (map aid l) = false ->
  insert_and_modify (map g l) a f = map g l ++ [f (entry_new a)].
Proof.
  intros Hg. induction l as [|x r IH]; intro H; [reflexivity|].
  cbn [map insert_and_modify]. rewrite Hg.
  cbn [map] in H. rewrite mem_cons in H. apply orb_false_iff in H as [H1 H2].
  unfold aid in H1. rewrite beq_sym, H1. cbn [List.app]. f_equal. apply IH. exact H2.
Qed.

Lemma iam_present (g : app -> entry) l a f :
  (forall x, e_app (g x) = x) -> NoDup (map aid l) ->
  mem (a_id a) (map aid l) = true ->
  insert_and_modify (map g l) a f = map (fun x => if bytes_eqb (a_id a) (a_id x) then f (g x) else g x) l.
Proof.
  intros Hg. induction l as [|x r IH]; intros Hnd H; [discriminate|].
  cbn [map insert_and_modify]. rewrite Hg. rewrite (beq_sym (a_id x)).
  inversion Hnd as [|? ? Hnotin Hnd']; subst.
  destruct (bytes_eqb (a_id a) (a_id x)) eqn:E.
  - f_equal. apply bytes_eqb_eq in E.
    (* no later element has this id *)
    apply map_ext_in. intros y Hy.
    destruct (bytes_eqb (a_id a) (a_id y)) eqn:E2; [|reflexivity].
    apply bytes_eqb_eq in E2. exfalso. apply Hnotin. unfold aid at 1. rewrite <- E, E2.
    apply (in_map aid). exact Hy.
  - f_equal. apply IH; [assumption|].
    cbn [map] in H. rewrite mem_cons in H. unfold aid at 1 in H. rewrite E in H. exact H.
Qed.

Lemma spec_entry_app p ops a : e_app (spec_entry p ops a) = a.
Proof. reflexivity. Qed.

Lemma spec_entries_snoc p ops o :
  spec_entries p (ops ++ [o]) = apply_op p (spec_entries p ops) o.
Proof.
  rewrite apply_op_modify. unfold spec_entries.
  rewrite first_ids_snoc. replace (mem (oid o) []) with false by reflexivity. cbn [orb].
  destruct (mem (oid o) (map oid ops)) eqn:Hm.
  - rewrite app_nil_r.
    rewrite (iam_present (spec_entry p ops)); [|apply spec_entry_app|apply first_ids_nodup|].
    + apply map_ext. intro x. rewrite spec_entry_snoc. reflexivity.
    + rewrite first_ids_mem. fold (oid o). rewrite Hm. reflexivity.
  - rewrite map_app. cbn [map].
    rewrite (iam_absent (spec_entry p ops)); [|apply spec_entry_app|].
    + f_equal.
      * apply map_ext_in. intros x Hx. rewrite spec_entry_snoc.
        destruct (bytes_eqb (oid o) (a_id x)) eqn:E; [|reflexivity].
        exfalso. apply bytes_eqb_eq in E.
        assert (Hin : mem (oid o) (map aid (first_ids ops [])) = true).
        { unfold mem. apply existsb_exists. exists (aid x). split; [apply in_map; exact Hx|].
          unfold aid. rewrite E. apply bytes_eqb_refl. }
        rewrite first_ids_mem, Hm in Hin. discriminate.
      * rewrite spec_entry_snoc. unfold oid at 1. rewrite bytes_eqb_refl.
        rewrite spec_entry_fresh; [reflexivity|exact Hm].
    + rewrite first_ids_mem. fold (oid o). rewrite Hm. reflexivity.
Qed.

Theorem build_refines_spec p ops : fold_left (apply_op p) ops [] = spec_entries p ops.
Proof.
  induction ops as [|o ops IH] using rev_ind; [reflexivity|].
  rewrite fold_left_app. cbn [fold_left]. rewrite IH. symmetry. apply spec_entries_snoc.
Qed.

(* consequences in the property's words *)
Lemma spec_ids_once p ops : NoDup (map (fun e => a_id (e_app e)) (spec_entries p ops)).
Proof.
  unfold spec_entries. rewrite map_map. cbn [spec_entry e_app]. apply first_ids_nodup.
Qed.

Lemma spec_ids_cover p ops x :
  mem x (map (fun e => a_id (e_app e)) (spec_entries p ops)) = mem x (map oid ops).
Proof.
  unfold spec_entries. rewrite map_map. cbn [spec_entry e_app].
  change (fun x0 : app => a_id x0) with aid. rewrite first_ids_mem. cbn. rewrite andb_true_r. reflexivity.
Qed.
