(* Proofs/C06idsProof.v — every model trace is accepted by step6ids: all requests of one check carry one session id,
   and no request id is ever used twice in a history.  The invariant relates the ids the monitor has seen to the
   environment's table of canonical GUIDs (first appearance on the wire), so it ranges over monitor state and environment
   (Proofs/MonitorG.v).  Used by C06 (retries) and C10 (reports). *)
Require Import Verif.Model.Time Verif.Base.Bytes Verif.Proofs.BytesFacts Verif.Model.Version Verif.Model.Json Verif.Model.Proto
               Verif.Model.Request Verif.Model.Env Verif.Model.SM Verif.Model.Monitors
               Verif.Proofs.Monitor Verif.Proofs.MonitorG Verif.Proofs.UriFacts.
From Coq Require Import Lia.
Open Scope N_scope.

Notation TG := (tripleG step6ids).

(* ---------- canonical GUID texts are injective ---------- *)
Lemma guid_text_injective i j : guid_text i = guid_text j -> i = j.
Proof.
  unfold guid_text. intro H. apply app_inv_head in H. apply app_inv_tail in H.
  apply (f_equal dec_value) in H. rewrite !pad_value in H. exact H.
Qed.

(* ---------- the invariant ---------- *)
Definition glen (e : env) : N := N.of_nat (length (e_guids e)).
Definition Gwf (e : env) : Prop := forall d c, In (d, c) (e_guids e) -> d < e_draws e /\ c < glen e.
Definition Seen (q : q6i) (e : env) : Prop :=
  forall r, In r (i_reqs q) -> exists c, r = Some (guid_text c) /\ c < glen e.
Definition sess_ok (sess : N) (q : q6i) (e : env) : Prop :=
  i_sess q = None \/ exists cs, i_sess q = Some (Some (guid_text cs)) /\ glookup (e_guids e) sess = Some cs.
Definition Inv (so : option N) (q : q6i) (e : env) : Prop :=
  Gwf e /\ Seen q e /\
  match so with
  | None => i_in q = false /\ i_sess q = None
  | Some sess => i_in q = true /\ sess < e_draws e /\ sess_ok sess q e
  end.
(* inside a check, whatever its session *)
Definition InCk (q : q6i) (e : env) : Prop := Gwf e /\ Seen q e /\ i_in q = true.
(* between the announcement of a check and the drawing of its session id *)
Definition Mid (q : q6i) (e : env) : Prop := Gwf e /\ Seen q e /\ i_in q = true /\ i_sess q = None.

Definition Vst (P : q6i -> env -> Prop) : Prop :=
  forall q e e', e_guids e' = e_guids e -> e_draws e' = e_draws e -> P q e -> P q e'.
Lemma Vst_Inv so : Vst (Inv so).
Proof. intros q e e' Hg Hd H. unfold Inv, Gwf, Seen, sess_ok, glen in *. rewrite Hg, Hd. exact H. Qed.
Lemma Vst_InCk : Vst InCk.
Proof. intros q e e' Hg Hd H. unfold InCk, Gwf, Seen, glen in *. rewrite Hg, Hd. exact H. Qed.
Lemma Vst_Mid : Vst Mid.
Proof. intros q e e' Hg Hd H. unfold Mid, Gwf, Seen, glen in *. rewrite Hg, Hd. exact H. Qed.

Definition boring6 (a : action) : bool :=
  match a with AHttp _ _ | AEvent (EvState (CheckingForUpdates _)) | AEvent (EvResult _) => false | _ => true end.
Lemma step6ids_boring q a : boring6 a = true -> step6ids q a = Some q.
Proof.
  destruct a as [ev|pq ans|w o|c ans|c|w|op ok|mt|id src|id r]; cbn; intro H; try discriminate; try reflexivity.
  destruct ev as [s| | | | | |]; try discriminate; try reflexivity. destruct s; try discriminate; reflexivity.
Qed.

(* ---------- programs that touch neither the trace's special actions nor the GUID table ---------- *)
Definition ninv {A} (m : M A) : Prop := forall P, Vst P -> TG P m (fun _ => P).
Definition quietV {A} (m : M A) : Prop :=
  forall e, e_trace (snd (m e)) = e_trace e /\ e_guids (snd (m e)) = e_guids e /\ e_draws (snd (m e)) = e_draws e.

Lemma ninv_ret {A} (a : A) : ninv (ret a). Proof. intros P _. apply tripleG_ret. auto. Qed.
Lemma ninv_bind {A B} (m : M A) (f : A -> M B) : ninv m -> (forall a, ninv (f a)) -> ninv (bind m f).
Proof. intros Hm Hf P HP. eapply tripleG_bind; [apply Hm; exact HP|]. intro a. apply Hf. exact HP. Qed.
Lemma ninv_quiet {A} (m : M A) : quietV m -> ninv m.
Proof.
  intros H P HP. apply tripleG_silent; [intro e; apply (H e)|]. intros q e a Hp _. destruct (H e) as (_ & H1 & H2). exact (HP q e _ H1 H2 Hp).
Qed.
Lemma ninv_emit a : boring6 a = true -> ninv (emit a).
Proof.
  intros H P HP. apply tripleG_emit. intros q e Hp. exists q. split; [apply step6ids_boring; exact H|]. apply (HP q e); [reflexivity|reflexivity|exact Hp].
Qed.
Lemma ninv_report x : ninv (report x). Proof. unfold report. apply ninv_emit. reflexivity. Qed.
Lemma ninv_write op : ninv (st_write op).
Proof.
  intros P HP q0 e q Hq Hp. exists q. split.
  - unfold mst, st_write. cbn [snd upd_trace e_trace rev]. rewrite runmon_app. unfold mst in Hq. rewrite Hq. reflexivity.
  - cbn [fst st_write]. apply (HP q e); [reflexivity|reflexivity|exact Hp].
Qed.
Lemma ninv_halt {A} : ninv (@halt A). Proof. intros P _. apply tripleG_halt. Qed.
Lemma ninv_iterM {A} (f : A -> M unit) l : (forall x, ninv (f x)) -> ninv (iterM f l).
Proof. intros H P HP. apply tripleG_iterM. intros x _. apply H. exact HP. Qed.

Lemma ninv_after_event b : ninv (after_event b).
Proof.
  intros P HP q0 e q Hm Hp. exists q. unfold mst, after_event in *.
  destruct (c_inject (e_cs e)) as [|[k src] rest]; [split; [exact Hm|apply (HP q e); [reflexivity|reflexivity|exact Hp]]|].
  destruct ((k <=? c_evn (e_cs e)) && negb b); [|split; [exact Hm|apply (HP q e); [reflexivity|reflexivity|exact Hp]]].
  destruct (c_incheck (e_cs e)); cbn [fst snd upd_trace set_cs e_trace rev]; (split; [|apply (HP q e); [reflexivity|reflexivity|exact Hp]]).
  - rewrite <- app_assoc, runmon_app, Hm. reflexivity.
  - rewrite runmon_app, Hm. reflexivity.
Qed.
Lemma ninv_yield ev : boring6 (AEvent ev) = true -> ninv (yield_ ev).
Proof. intro H. unfold yield_. apply ninv_bind; [apply ninv_emit; exact H|]. intros []. apply ninv_after_event. Qed.
Lemma ninv_enter_check : ninv enter_check.
Proof.
  intros P HP q0 e q Hm Hp. exists q. split; [|apply (HP q e); [reflexivity|reflexivity|exact Hp]].
  unfold mst, enter_check in *. cbn [snd upd_trace set_cs e_trace].
  rewrite rev_app_distr, rev_involutive, runmon_app, Hm.
  induction (c_inq (e_cs e)) as [|x r IH]; cbn [map runmon]; [reflexivity|exact IH].
Qed.
Lemma ninv_do_outer_select roles : ninv (do_outer_select roles).
Proof.
  intros P HP. unfold do_outer_select.
  eapply tripleG_bind.
  { apply (ninv_quiet pop_queued); [|exact HP]. intro e. unfold pop_queued. destruct (c_inq (e_cs e)); repeat split; reflexivity. }
  intros [[id src]|]; [apply tripleG_ret; auto|].
  intros q0 e q Hm Hp. exists q. unfold mst in *.
  destruct (outer_select (e_stim e) roles (e_ctl e)) as [[[[[src id]|] r] c]|]; cbn [fst snd upd_trace set_stim e_trace rev].
  - split; [rewrite runmon_app, Hm; reflexivity|apply (HP q e); [reflexivity|reflexivity|exact Hp]].
  - split; [exact Hm|apply (HP q e); [reflexivity|reflexivity|exact Hp]].
  - split; [exact Hm|exact I].
Qed.

Ltac qv := intro e; repeat split; reflexivity.
Lemma quietV_read_clock : quietV read_clock. Proof. intro e. unfold read_clock. destruct (e_clock e); repeat split; reflexivity. Qed.
Lemma quietV_pop_next_time : quietV pop_next_time. Proof. intro e. unfold pop_next_time. destruct (q_next_time e); repeat split; reflexivity. Qed.
Lemma quietV_pop_allowed : quietV pop_allowed. Proof. intro e. unfold pop_allowed. destruct (q_allowed e); repeat split; reflexivity. Qed.
Lemma quietV_pop_can_start : quietV pop_can_start. Proof. intro e. unfold pop_can_start. destruct (q_can_start e); repeat split; reflexivity. Qed.
Lemma quietV_pop_reboot_needed : quietV pop_reboot_needed. Proof. intro e. unfold pop_reboot_needed. destruct (q_reboot_needed e); repeat split; reflexivity. Qed.
Lemma quietV_pop_reboot_allowed : quietV pop_reboot_allowed. Proof. intro e. unfold pop_reboot_allowed. destruct (q_reboot_allowed e); repeat split; reflexivity. Qed.
Lemma quietV_pop_http : quietV pop_http. Proof. intro e. unfold pop_http. destruct (q_http e); repeat split; reflexivity. Qed.
Lemma quietV_pop_plan : quietV pop_plan. Proof. intro e. unfold pop_plan. destruct (q_plan e); repeat split; reflexivity. Qed.
Lemma quietV_pop_perform : quietV pop_perform. Proof. intro e. unfold pop_perform. destruct (q_perform e); repeat split; reflexivity. Qed.
Lemma quietV_pop_reboot : quietV pop_reboot. Proof. intro e. unfold pop_reboot. destruct (q_reboot e); repeat split; reflexivity. Qed.
Lemma quietV_pop_backoff : quietV pop_backoff. Proof. intro e. unfold pop_backoff. destruct (q_backoff e); repeat split; reflexivity. Qed.
Lemma quietV_fresh_nonce : quietV fresh_nonce. Proof. qv. Qed.
Lemma quietV_st_get_int k : quietV (st_get_int k). Proof. qv. Qed.
Lemma quietV_st_get_str k : quietV (st_get_str k). Proof. qv. Qed.
Lemma quietV_st_get_time k : quietV (st_get_time k).
Proof.
  intro e. unfold st_get_time, bind, st_get_int, ret. cbn. repeat split; reflexivity.
Qed.
Lemma quietV_pop_stim : quietV pop_stim. Proof. intro e. unfold pop_stim. destruct (e_stim e); repeat split; reflexivity. Qed.
Lemma quietV_next_ctl : quietV next_ctl. Proof. qv. Qed.
Lemma quietV_pop_queued : quietV pop_queued. Proof. intro e. unfold pop_queued. destruct (c_inq (e_cs e)); repeat split; reflexivity. Qed.
Lemma quietV_set_incheck b : quietV (set_incheck b). Proof. qv. Qed.
Lemma quietV_take_upgrade : quietV take_upgrade. Proof. qv. Qed.

Lemma ninv_now : ninv now.
Proof. unfold now. apply ninv_bind; [apply ninv_quiet, quietV_read_clock|intro c]. apply ninv_bind; [apply ninv_emit; reflexivity|intro; apply ninv_ret]. Qed.
Lemma ninv_set_opt k v : ninv (st_set_option_int k v).
Proof. unfold st_set_option_int. destruct v; apply ninv_write. Qed.
Lemma ninv_ctx_persist sc ps : ninv (ctx_persist sc ps).
Proof. unfold ctx_persist. repeat (apply ninv_bind; [apply ninv_set_opt|intro]). apply ninv_ret. Qed.
Lemma ninv_persist_data m : ninv (persist_data m).
Proof.
  unfold persist_data. apply ninv_bind; [apply ninv_ctx_persist|intro]. apply ninv_bind.
  - apply ninv_iterM. intro ap. apply ninv_bind; [apply ninv_write|intro; apply ninv_ret].
  - intro. apply ninv_bind; [apply ninv_write|intro; apply ninv_ret].
Qed.
Lemma ninv_report_check_interval src m : ninv (report_check_interval src m).
Proof.
  unfold report_check_interval. apply ninv_bind; [apply ninv_now|intro n]. apply ninv_bind; [|intro; apply ninv_ret].
  destruct (s_last_check (m_sched m)) as [[w|mm|c]|]; try apply ninv_ret.
  - destruct (w <=? wall n)%Z; [apply ninv_report|apply ninv_ret].
  - destruct (mono c <=? mono n)%Z; [apply ninv_report|apply ninv_ret].
Qed.
Lemma ninv_record_first_seen plan t : ninv (record_first_seen plan t).
Proof.
  unfold record_first_seen. apply ninv_bind; [apply ninv_quiet, quietV_st_get_str|intro prev].
  assert (Hnew : ninv (ok1 <- st_write (SSetStr K_INSTALL_PLAN_ID plan);;
                        (if negb ok1 then ret t
                         else ok2 <- st_set_time K_FIRST_SEEN t;;
                              (if negb ok2 then st_write (SRemove K_INSTALL_PLAN_ID);;; ret t else st_write SCommit;;; ret t)))).
  { apply ninv_bind; [apply ninv_write|intro ok1]. destruct (negb ok1); [apply ninv_ret|].
    apply ninv_bind; [apply ninv_set_opt|intro ok2]. destruct (negb ok2);
      (apply ninv_bind; [apply ninv_write|intro; apply ninv_ret]). }
  destruct prev as [p|]; [|exact Hnew].
  destruct (bytes_eqb p plan); [|exact Hnew].
  apply ninv_bind; [apply ninv_quiet, quietV_st_get_time|intro]. apply ninv_ret.
Qed.
Lemma ninv_report_attempts s : ninv (report_attempts_to_successful_install s).
Proof.
  unfold report_attempts_to_successful_install. apply ninv_bind; [apply ninv_quiet, quietV_st_get_int|intro].
  apply ninv_bind; [apply ninv_report|intro]. apply ninv_bind; [destruct s; apply ninv_write|intro]. apply ninv_ret.
Qed.
Lemma ninv_update_next m : ninv (update_next_update_time m).
Proof.
  unfold update_next_update_time. apply ninv_bind; [apply ninv_quiet, quietV_pop_next_time|intro t].
  apply ninv_bind; [apply ninv_emit; reflexivity|intro]. apply ninv_bind; [apply ninv_yield; reflexivity|intro]. apply ninv_ret.
Qed.
Lemma ninv_make_wait t : ninv (make_wait t).
Proof.
  unfold make_wait. destruct (t_min t).
  - apply ninv_bind; [apply ninv_emit; reflexivity|intro]. apply ninv_bind; [apply ninv_emit; reflexivity|intro]. apply ninv_ret.
  - apply ninv_bind; [apply ninv_emit; reflexivity|intro]. apply ninv_ret.
Qed.
Lemma ninv_ask_reboot src : ninv (ask_reboot_allowed src).
Proof.
  unfold ask_reboot_allowed. apply ninv_bind; [apply ninv_quiet, quietV_pop_reboot_allowed|intro b].
  apply ninv_bind; [apply ninv_emit; reflexivity|intro]. apply ninv_ret.
Qed.
Lemma ninv_handle_in_reboot id sc : ninv (handle_in_reboot id sc).
Proof. unfold handle_in_reboot. apply ninv_bind; [apply ninv_emit; reflexivity|intro]. destruct sc; [apply ninv_ask_reboot|apply ninv_ret]. Qed.

(* ---------- drawing and canonicalising GUIDs ---------- *)
Definition notin_dom (d : N) (e : env) : Prop := forall d' c, In (d', c) (e_guids e) -> d' <> d.

Lemma glookup_none g d : (forall d' c, In (d', c) g -> d' <> d) -> glookup g d = None.
Proof.
  induction g as [|[d' c] g IH]; intro H; [reflexivity|]. cbn [glookup].
  destruct (d' =? d) eqn:E; [apply N.eqb_eq in E; exfalso; apply (H d' c); [left; reflexivity|exact E]|].
  apply IH. intros d2 c2 Hi. apply (H d2 c2). right. exact Hi.
Qed.
Lemma glookup_in g d c : glookup g d = Some c -> In (d, c) g.
Proof.
  induction g as [|[d' c'] g IH]; cbn [glookup]; [discriminate|].
  destruct (d' =? d) eqn:E; [apply N.eqb_eq in E; subst; intro H; inversion H; left; reflexivity|intro H; right; apply IH; exact H].
Qed.

(* a fresh draw: later than everything in the table *)
Lemma TG_fresh (P : q6i -> env -> Prop) :
  (forall q e e', e_guids e' = e_guids e -> e_draws e' = e_draws e + 1 -> P q e -> P q e') ->
  TG (fun q e => P q e /\ Gwf e) fresh_guid (fun d q e => P q e /\ Gwf e /\ d < e_draws e /\ notin_dom d e).
Proof.
  intro HP. apply tripleG_silent; [intro e; reflexivity|]. intros q e a [Hp Hg] Ha. unfold fresh_guid in *. cbn [fst snd] in *. inversion Ha; subst a.
  split; [apply (HP q e); [reflexivity|reflexivity|exact Hp]|].
  split; [intros d c Hi; destruct (Hg d c Hi) as [H1 H2]; cbn [e_draws e_guids set_ids] in *; unfold glen in *; cbn [e_guids set_ids]; split; [lia|exact H2]|].
  split; [cbn [e_draws set_ids]; lia|]. intros d' c Hi Heq. cbn [e_guids set_ids] in Hi. destruct (Hg d' c Hi) as [H1 _]. lia.
Qed.

(* canonicalising a draw: afterwards it is in the table; older entries and their indices are untouched *)
Lemma canon_spec d e :
  let r := canon_guid d e in
  exists c, fst r = Some c /\ e_draws (snd r) = e_draws e /\ e_trace (snd r) = e_trace e /\ glookup (e_guids (snd r)) d = Some c /\
    ((glookup (e_guids e) d = Some c /\ e_guids (snd r) = e_guids e) \/
     (glookup (e_guids e) d = None /\ c = glen e /\ e_guids (snd r) = (d, c) :: e_guids e)).
Proof.
  unfold canon_guid. destruct (glookup (e_guids e) d) as [c|] eqn:E.
  - exists c. cbn [fst snd]. repeat split; try reflexivity; [exact E|left; split; reflexivity].
  - exists (glen e). cbn [fst snd e_draws e_trace e_guids set_ids glookup]. rewrite N.eqb_refl. repeat split; try reflexivity. right. repeat split; reflexivity.
Qed.

(* what the builder carries once both ids are canonical *)
Definition ids_ready (so : option N) (b0 b : builder) (q : q6i) (e : env) : Prop :=
  exists cs cr, b = set_request_id (set_session_id b0 (guid_text cs)) (guid_text cr) /\ cr < glen e /\
    (forall r, In r (i_reqs q) -> r <> Some (guid_text cr)) /\
    match so with Some sess => glookup (e_guids e) sess = Some cs /\ (i_sess q = None \/ i_sess q = Some (Some (guid_text cs))) | None => True end.

Lemma Gwf_cons d c e e' : Gwf e -> e_guids e' = (d, c) :: e_guids e -> e_draws e' = e_draws e -> d < e_draws e -> c = glen e -> Gwf e'.
Proof.
  intros Hg He Hd Hlt Hc d' c' Hi. unfold glen in *. rewrite He in *. rewrite Hd. cbn [length] in *. rewrite Nat2N.inj_succ. destruct Hi as [Hi|Hi].
  - inversion Hi; subst. split; [exact Hlt|apply N.lt_succ_diag_r].
  - destruct (Hg d' c' Hi). split; [assumption|apply N.lt_lt_succ_r; assumption].
Qed.
Lemma Seen_grow q e e' : Seen q e -> glen e <= glen e' -> Seen q e'.
Proof. intros H Hl r Hr. destruct (H r Hr) as (c & -> & Hc). exists c. split; [reflexivity|lia]. Qed.

Lemma TG_with_ids so b0 sess req :
  TG (fun q e => Inv so q e /\ req < e_draws e /\ notin_dom req e /\ sess < e_draws e /\ sess <> req /\
                 match so with Some s => s = sess | None => True end)
     (with_ids b0 sess req) (fun b q e => Inv so q e /\ ids_ready so b0 b q e).
Proof.
  apply tripleG_silent.
  { intro e. unfold with_ids, bind, ret. destruct (canon_spec sess e) as (cs & H1 & _ & Ht1 & _). destruct (canon_guid sess e) as [[x|] e1]; cbn [fst snd] in *; [|discriminate].
    destruct (canon_spec req e1) as (cr & H2 & _ & Ht2 & _). destruct (canon_guid req e1) as [[y|] e2]; cbn [fst snd] in *; [|discriminate]. congruence. }
  intros q e b ((Hg & Hs & Hso) & Hreq & Hnd & Hsess & Hne & Hsoeq) Hb.
  unfold with_ids, bind, ret in *.
  destruct (canon_spec sess e) as (cs & H1 & Hd1 & _ & Hl1 & Hc1). destruct (canon_guid sess e) as [[x|] e1]; cbn [fst snd] in *; [|discriminate]. inversion H1; subst x.
  destruct (canon_spec req e1) as (cr & H2 & Hd2 & _ & Hl2 & Hc2). destruct (canon_guid req e1) as [[y|] e2]; cbn [fst snd] in *; [|discriminate]. inversion H2; subst y.
  inversion Hb; subst b. clear Hb H1 H2.
  (* after canonicalising the session *)
  assert (Hg1 : Gwf e1 /\ glen e <= glen e1 /\ notin_dom req e1).
  { destruct Hc1 as [[_ He]|(_ & Hc & He)].
    - unfold Gwf, glen, notin_dom in *. rewrite He, Hd1. split; [exact Hg|]. split; [apply N.le_refl|exact Hnd].
    - split; [eapply Gwf_cons; eassumption|]. unfold glen, notin_dom in *. rewrite He. cbn [length]. rewrite Nat2N.inj_succ. split; [apply N.le_succ_diag_r|].
      intros d' c' [Hi|Hi]; [inversion Hi; subst; exact Hne|eapply Hnd; exact Hi]. }
  destruct Hg1 as (Hg1 & Hle1 & Hnd1).
  (* the request draw is new: it gets the next index *)
  rewrite (glookup_none _ _ Hnd1) in Hc2. destruct Hc2 as [[Hx _]|(_ & Hc & He2)]; [discriminate|].
  assert (Hg2 : Gwf e2) by (eapply Gwf_cons; [exact Hg1|exact He2|exact Hd2|rewrite Hd1; exact Hreq|exact Hc]).
  assert (Hle2 : glen e1 < glen e2) by (unfold glen; rewrite He2; cbn [length]; rewrite Nat2N.inj_succ; apply N.lt_succ_diag_r).
  assert (Hlk : glookup (e_guids e2) sess = Some cs).
  { rewrite He2. cbn [glookup]. destruct (req =? sess) eqn:E; [apply N.eqb_eq in E; subst; contradiction Hne; reflexivity|exact Hl1]. }
  split.
  - split; [exact Hg2|]. split; [eapply Seen_grow; [exact Hs|lia]|].
    destruct so as [s|]; [|exact Hso]. subst s. destruct Hso as (Hin & _ & Hok). split; [exact Hin|]. split; [rewrite Hd2, Hd1; exact Hsess|].
    destruct Hok as [Hn|(cs0 & Hi & Hl0)]; [left; exact Hn|right]. exists cs0. split; [exact Hi|].
    (* the session's index is stable *)
    destruct Hc1 as [[Hl _]|(Hl & _)]; [|rewrite Hl in Hl0; discriminate]. rewrite Hl in Hl0. inversion Hl0; subst. exact Hlk.
  - exists cs, cr. split; [reflexivity|]. split; [subst cr; exact Hle2|]. split.
    + intros r Hr Heq. destruct (Hs r Hr) as (c & -> & Hc'). assert (Hx : guid_text c = guid_text cr) by congruence.
      apply guid_text_injective in Hx. subst c. lia.
    + destruct so as [s|]; [|exact I]. subst s. split; [exact Hlk|]. destruct Hso as (_ & _ & [Hn|(cs0 & Hi & Hl0)]); [left; exact Hn|right].
      destruct Hc1 as [[Hl _]|(Hl & _)]; [|rewrite Hl in Hl0; discriminate]. rewrite Hl in Hl0. inversion Hl0; subst. exact Hi.
Qed.

(* ---------- a request with canonical ids goes on the wire ---------- *)
Lemma obytes_eqb_refl o : obytes_eqb o o = true.
Proof. destruct o; cbn; [apply bytes_eqb_refl|reflexivity]. Qed.
Lemma obytes_eqb_eq a b : obytes_eqb a b = true -> a = b.
Proof. destruct a, b; cbn; intro H; try discriminate; [apply bytes_eqb_eq in H; subst|]; reflexivity. Qed.
Lemma not_seen (r : option bytes) l : (forall r', In r' l -> r' <> r) -> existsb (obytes_eqb r) l = false.
Proof.
  intro H. destruct (existsb (obytes_eqb r) l) eqn:E; [|reflexivity]. apply existsb_exists in E. destruct E as (x & Hx & E).
  apply obytes_eqb_eq in E. exfalso. apply (H x Hx). symmetry. exact E.
Qed.

Lemma headers_ok_ids cfg b0 s r : headers_ok cfg (set_request_id (set_session_id b0 s) r) = headers_ok cfg b0.
Proof. reflexivity. Qed.

Lemma T_do_req_ids so b0 b m :
  TG (fun q e => Inv so q e /\ (u_valid (m_url m) && headers_ok (m_cfg m) b = true -> ids_ready so b0 b q e))
     (do_omaha_request b m) (fun _ => Inv so).
Proof.
  unfold do_omaha_request. pose proof (Vst_Inv so) as HV.
  assert (Hdrop : forall {A} (x : A), TG (fun q e => Inv so q e /\ (u_valid (m_url m) && headers_ok (m_cfg m) b = true -> ids_ready so b0 b q e))
                                         (ret x) (fun _ => Inv so)).
  { intros A x. apply tripleG_ret. intros q e [H _]. exact H. }
  destruct (u_valid (m_url m)) eqn:Eu; cbn [negb andb]; [|apply Hdrop].
  destruct (headers_ok (m_cfg m) b) eqn:Eh; cbn [negb].
  2:{ eapply tripleG_bind with (R := fun _ => Inv so); [|intro; apply tripleG_ret; auto].
      destruct (m_cup m); [|apply tripleG_ret; intros q e [H _]; exact H].
      eapply tripleG_bind with (R := fun _ => Inv so); [|intro; apply tripleG_ret; auto].
      eapply tripleG_conseq; [apply (ninv_quiet _ quietV_fresh_nonce _ HV)|intros q e [H _]; exact H|auto]. }
  set (Pre := fun q e => Inv so q e /\ ids_ready so b0 b q e).
  assert (HVp : Vst Pre).
  { intros q e e' Hg Hd [Hi Hr]. split; [eapply HV; eassumption|]. unfold ids_ready, glen in *. rewrite Hg. exact Hr. }
  eapply tripleG_conseq with (P' := Pre); [|intros q e [H1 H2]; split; [exact H1|apply H2; reflexivity]|intros a q e H; exact H].
  eapply tripleG_bind with (R := fun _ => Pre).
  { destruct (m_cup m); [|apply tripleG_ret; auto].
    eapply tripleG_bind; [apply (ninv_quiet _ quietV_fresh_nonce _ HVp)|]. intro. apply tripleG_ret. auto. }
  intro uri. eapply tripleG_bind; [apply (ninv_quiet _ quietV_pop_http _ HVp)|]. intro o.
  eapply tripleG_bind with (R := fun _ => Inv so).
  { apply tripleG_emit. intros q e [(Hg & Hs & Hso) (cs & cr & Hb & Hlt & Hnew & Hse)].
    assert (Hr : ws_request (w_sum {| w_uri := uri; w_headers := headers_of (m_cfg m) b; w_body := body_of (m_cfg m) b; w_sum := summary_of b |}) = Some (guid_text cr))
      by (subst b; reflexivity).
    assert (Hss : ws_session (w_sum {| w_uri := uri; w_headers := headers_of (m_cfg m) b; w_body := body_of (m_cfg m) b; w_sum := summary_of b |}) = Some (guid_text cs))
      by (subst b; reflexivity).
    assert (Hseen' : forall qn, i_reqs qn = Some (guid_text cr) :: i_reqs q -> Seen qn (upd_trace e (AHttp {| w_uri := uri; w_headers := headers_of (m_cfg m) b; w_body := body_of (m_cfg m) b; w_sum := summary_of b |} o :: e_trace e))).
    { intros qn Hqn r Hin. rewrite Hqn in Hin. destruct Hin as [<-|Hin]; [exists cr; split; [reflexivity|exact Hlt]|apply (Hs r Hin)]. }
    unfold step6ids. cbv zeta. rewrite Hr, Hss, (not_seen _ _ Hnew).
    destruct so as [sess|].
    - destruct Hso as (Hin & Hsd & Hok). destruct Hse as (Hlk & Hsq). rewrite Hin.
      destruct Hsq as [Hn|Hn]; rewrite Hn.
      + eexists. split; [reflexivity|]. split; [exact Hg|]. split; [apply Hseen'; reflexivity|].
        cbn [i_in i_sess]. split; [reflexivity|]. split; [exact Hsd|]. right. exists cs. split; [reflexivity|exact Hlk].
      + rewrite obytes_eqb_refl. eexists. split; [reflexivity|]. split; [exact Hg|]. split; [apply Hseen'; reflexivity|].
        cbn [i_in i_sess]. split; [reflexivity|]. split; [exact Hsd|]. right. exists cs. split; [reflexivity|exact Hlk].
    - destruct Hso as (Hin & Hn). rewrite Hin. eexists. split; [reflexivity|]. split; [exact Hg|]. split; [apply Hseen'; reflexivity|]. split; reflexivity. }
  intros _. destruct o as [k|status ra au bd]; [apply tripleG_ret; auto|].
  destruct (match m_cup m with Some _ => negb au | None => false end); [apply tripleG_ret; auto|].
  eapply tripleG_bind with (R := fun _ => Inv so).
  { destruct (oZ_eqb (ps_poll (m_ps m)) (parse_retry_after ra)); [apply tripleG_ret; auto|]. cbv zeta.
    match goal with |- TG _ (bind (yield_ ?ev) _) _ => eapply tripleG_bind; [apply (ninv_yield ev eq_refl _ HV)|] end. intro. eapply tripleG_bind; [apply (ninv_ctx_persist _ _ _ HV)|]. intro.
    eapply tripleG_bind; [apply (ninv_write _ _ HV)|]. intro. apply tripleG_ret. auto. }
  intro m'. destruct ((200 <=? status) && (status <? 300))%N; apply tripleG_ret; auto.
Qed.

(* drawing a request id: it is later than the session's draw and not yet in the table *)
Lemma TG_fresh_after so sess :
  TG (fun q e => Inv so q e /\ sess < e_draws e) fresh_guid
     (fun d q e => Inv so q e /\ d < e_draws e /\ notin_dom d e /\ sess < e_draws e /\ sess <> d).
Proof.
  apply tripleG_silent; [intro e; reflexivity|]. intros q e a [(Hg & Hs & Hso) Hlt] Ha. unfold fresh_guid in *. cbn [fst snd] in *. inversion Ha; subst a.
  assert (Hg' : Gwf (set_ids e (e_draws e + 1) (e_guids e) (e_nonces e))).
  { intros d c Hi. destruct (Hg d c Hi) as [H1 H2]. cbn [e_draws e_guids set_ids] in *. unfold glen in *. cbn [e_guids set_ids]. split; [lia|exact H2]. }
  split.
  - split; [exact Hg'|]. split; [exact Hs|]. destruct so as [s|]; [|exact Hso]. destruct Hso as (H1 & H2 & H3). split; [exact H1|]. split; [cbn [e_draws set_ids]; lia|exact H3].
  - cbn [e_draws e_guids set_ids]. split; [lia|]. split; [|split; [lia|lia]]. intros d' c Hi Heq. destruct (Hg d' c Hi) as [H1 _]. lia.
Qed.
(* ... and the first draw of a pair *)
Lemma TG_fresh_first (P : q6i -> env -> Prop) :
  (forall q e e', e_guids e' = e_guids e -> e_draws e < e_draws e' -> P q e -> P q e') ->
  TG P fresh_guid (fun d q e => P q e /\ d < e_draws e).
Proof.
  intro HP. apply tripleG_silent; [intro e; reflexivity|]. intros q e a Hp Ha. unfold fresh_guid in *. cbn [fst snd] in *. inversion Ha; subst a.
  split; [apply (HP q e); [reflexivity|cbn [e_draws set_ids]; lia|exact Hp]|cbn [e_draws set_ids]; lia].
Qed.
Lemma Inv_more_draws so q e e' : e_guids e' = e_guids e -> e_draws e < e_draws e' -> Inv so q e -> Inv so q e'.
Proof.
  intros Hg Hd (H1 & H2 & H3). unfold Inv, Gwf, Seen, sess_ok, glen in *. rewrite Hg. split; [|split; [exact H2|]].
  - intros d c Hi. destruct (H1 d c Hi). split; [lia|assumption].
  - destruct so as [s|]; [|exact H3]. destruct H3 as (Ha & Hb & Hc). split; [exact Ha|]. split; [lia|exact Hc].
Qed.
Lemma InCk_more_draws q e e' : e_guids e' = e_guids e -> e_draws e < e_draws e' -> InCk q e -> InCk q e'.
Proof.
  intros Hg Hd (H1 & H2 & H3). unfold InCk, Gwf, Seen, glen in *. rewrite Hg. split; [|split; [exact H2|exact H3]].
  intros d c Hi. destruct (H1 d c Hi). split; [lia|assumption].
Qed.
Lemma Mid_more_draws q e e' : e_guids e' = e_guids e -> e_draws e < e_draws e' -> Mid q e -> Mid q e'.
Proof.
  intros Hg Hd (H1 & H2 & H3). unfold Mid, Gwf, Seen, glen in *. rewrite Hg. split; [|split; [exact H2|exact H3]].
  intros d c Hi. destruct (H1 d c Hi). split; [lia|assumption].
Qed.

(* the three steps every request goes through: draw a request id, canonicalise, send *)
Lemma T_request so b0 sess m {A} (K : sm * (req_err + body) -> M A) (Q : A -> q6i -> env -> Prop) :
  match so with Some s => s = sess | None => True end ->
  (forall r, TG (Inv so) (K r) Q) ->
  TG (fun q e => Inv so q e /\ sess < e_draws e)
     (req <- fresh_guid;;
      b <- (if u_valid (m_url m) && headers_ok (m_cfg m) b0 then with_ids b0 sess req else ret b0);;
      r <- do_omaha_request b m;; K r) Q.
Proof.
  intros Hso HK.
  eapply tripleG_bind; [apply TG_fresh_after|]. intro req. cbv beta.
  eapply tripleG_bind with (R := fun b q e => Inv so q e /\ (u_valid (m_url m) && headers_ok (m_cfg m) b = true -> ids_ready so b0 b q e)).
  { destruct (u_valid (m_url m) && headers_ok (m_cfg m) b0) eqn:Ec.
    - eapply tripleG_conseq; [apply (TG_with_ids so b0 sess req)| |].
      + intros q e (Hi & H1 & H2 & H3 & H4). exact (conj Hi (conj H1 (conj H2 (conj H3 (conj H4 Hso))))).
      + intros b q e [Hi Hr]. split; [exact Hi|]. intros _. exact Hr.
    - apply tripleG_ret. intros q e (Hi & _). split; [exact Hi|]. intro Hx. rewrite Ec in Hx. discriminate. }
  intro b. eapply tripleG_bind; [apply T_do_req_ids|]. exact HK.
Qed.

(* ---------- inside a check with session draw `sess` ---------- *)
Definition Ic (sess : N) := Inv (Some sess).
Lemma Ic_lt sess q e : Ic sess q e -> Ic sess q e /\ sess < e_draws e.
Proof. intro H. split; [exact H|]. destruct H as (_ & _ & _ & H & _). exact H. Qed.
Ltac nn H := match goal with |- TG ?P _ _ => eapply tripleG_bind; [eapply H; first [apply Vst_Inv | apply Vst_InCk | apply Vst_Mid]|intro; cbv beta] end.
Tactic Notation "nna" constr(H) "as" ident(x) :=
  match goal with |- TG ?P _ _ => eapply tripleG_bind; [eapply H; first [apply Vst_Inv | apply Vst_InCk | apply Vst_Mid]|intro x; cbv beta] end.
Ltac ny := match goal with
  | |- TG ?P (bind (yield_ ?ev) _) _ => eapply tripleG_bind; [apply (ninv_yield ev eq_refl P); first [apply Vst_Inv | apply Vst_InCk | apply Vst_Mid]|intro; cbv beta]
  | |- TG ?P (bind (yield_state ?s) _) _ => eapply tripleG_bind; [apply (ninv_yield (EvState s) eq_refl P); first [apply Vst_Inv | apply Vst_InCk | apply Vst_Mid]|intro; cbv beta]
  end.
Ltac ne := match goal with |- TG ?P (bind (emit ?a) _) _ => eapply tripleG_bind; [apply (ninv_emit a eq_refl P); first [apply Vst_Inv | apply Vst_InCk | apply Vst_Mid]|intro; cbv beta] end.

Lemma T_report_event sess p ev apps nv dur m : TG (Ic sess) (report_event p ev apps sess nv dur m) (fun _ => Ic sess).
Proof.
  unfold report_event. cbv zeta.
  eapply tripleG_conseq; [apply (T_request (Some sess) _ sess m _ (fun _ => Ic sess) eq_refl)|intros q e H; apply Ic_lt; exact H|auto].
  intros [m' [e|bd]]; [|apply tripleG_ret; auto]. nn ninv_report. apply tripleG_ret. auto.
Qed.

Lemma T_attempt_loop sess b0 fuel : forall attempt m, TG (Ic sess) (attempt_loop fuel attempt b0 sess m) (fun _ => Ic sess).
Proof.
  induction fuel as [|f IH]; intros attempt m; cbn [attempt_loop]; [apply tripleG_halt|].
  nna ninv_now as start.
  eapply tripleG_conseq; [apply (T_request (Some sess) b0 sess m _ (fun _ => Ic sess) eq_refl)|intros q e H; apply Ic_lt; exact H|auto].
  intros [m1 res]. nna ninv_now as fin.
  eapply tripleG_bind with (R := fun _ => Ic sess).
  { match goal with |- TG _ (if ?c then _ else _) _ => destruct c end; [apply (ninv_report _ _ (Vst_Inv _))|apply tripleG_ret; auto]. }
  intros _. destruct res as [e|bd]; [|apply tripleG_ret; auto].
  match goal with |- TG _ (if ?c then _ else _) _ => destruct c end.
  - ny. apply tripleG_ret. auto.
  - nna (ninv_quiet _ quietV_pop_backoff) as r. ne. apply IH.
Qed.

Lemma Ic_InCk sess q e : Ic sess q e -> InCk q e.
Proof. intros (H1 & H2 & H3 & _). split; [exact H1|]. split; [exact H2|exact H3]. Qed.

Lemma T_perform fuel p apps m : TG (Inv None) (perform_update_check fuel p apps m) (fun _ => InCk).
Proof.
  unfold perform_update_check.
  eapply tripleG_bind with (R := fun _ => Mid).
  { unfold yield_state, yield_. eapply tripleG_bind with (R := fun _ => Mid); [|intros []; apply (ninv_after_event _ _ Vst_Mid)].
    apply tripleG_emit. intros q e (Hg & Hs & Hin & Hse). eexists. split; [reflexivity|]. split; [exact Hg|]. split; [exact Hs|]. split; reflexivity. }
  intros _. nna ninv_report_check_interval as m0.
  eapply tripleG_bind; [apply (TG_fresh_first Mid Mid_more_draws)|]. intro sess. cbv beta.
  eapply tripleG_conseq with (P' := Ic sess) (Q' := fun _ => InCk);
    [|intros q e [(Hg & Hs & Hin & Hse) Hlt]; split; [exact Hg|split; [exact Hs|split; [exact Hin|split; [exact Hlt|left; exact Hse]]]]|auto].
  eapply tripleG_bind; [apply T_attempt_loop|]. intros [[m1 attempts] res].
  nn ninv_report.
  assert (Hend : forall (x : sm * (check_err + (list app_response * reboot))), TG (Ic sess) (ret x) (fun _ => InCk)).
  { intro x. apply tripleG_ret. intros q e H. eapply Ic_InCk. exact H. }
  destruct res as [e|[d|]].
  - apply Hend.
  - ny. destruct (filter uc_ok (d_apps d)) as [|wu0 wur]; [ny; apply Hend|].
    nna (ninv_quiet _ quietV_pop_plan) as pl. ne.
    destruct pl as [plan|].
    2:{ ny. ny. eapply tripleG_bind; [apply T_report_event|]. intro. apply Hend. }
    nna (ninv_quiet _ quietV_pop_can_start) as dec. ne.
    destruct dec.
    + ny. eapply tripleG_bind; [apply T_report_event|]. intro m2.
      nna ninv_now as t0. nna ninv_record_first_seen as fs. nna (ninv_quiet _ quietV_pop_perform) as pa. ne.
      eapply tripleG_bind; [apply (ninv_iterM _ _ (fun bits => ninv_yield (EvProgress bits) eq_refl) _ (Vst_Inv _))|]. intro. cbv beta.
      nna ninv_now as t1.
      eapply tripleG_bind with (R := fun _ => Ic sess).
      { match goal with |- TG _ (if ?c then _ else _) _ => destruct c end; [|apply tripleG_ret; auto]. nn ninv_report. apply tripleG_ret. auto. }
      intro dur.
      eapply tripleG_conseq; [apply (T_request (Some sess) _ sess m2 _ (fun _ => InCk) eq_refl)|intros q e H; apply Ic_lt; exact H|auto].
      intros [m3 rr].
      eapply tripleG_bind with (R := fun _ => Ic sess).
      { destruct rr; [|apply tripleG_ret; auto]. apply (ninv_iterM _ _ (fun x => ninv_report _) _ (Vst_Inv _)). }
      intros _.
      eapply tripleG_bind with (R := fun _ => Ic sess).
      { match goal with |- TG _ (match ?l with [] => _ | _ => _ end) _ => destruct l end; [apply tripleG_ret; auto|apply T_report_event]. }
      intro m4.
      match goal with |- TG _ (match ?n with O => _ | S _ => _ end) _ => destruct n as [|nerr] end.
      * eapply tripleG_bind with (R := fun _ => Ic sess).
        { match goal with |- TG _ (if ?c then _ else _) _ => destruct c end; [apply (ninv_report _ _ (Vst_Inv _))|apply tripleG_ret; auto]. }
        intros _. nn ninv_set_opt.
        eapply tripleG_bind with (R := fun _ => Ic sess).
        { match goal with |- TG _ (match ?x with Some _ => _ | None => _ end) _ => destruct x end; [|apply tripleG_ret; auto].
          nn ninv_write. apply tripleG_ret. auto. }
        intros _. nn ninv_write. nna (ninv_quiet _ quietV_pop_reboot_needed) as rn. ne. apply Hend.
      * eapply tripleG_bind; [apply (ninv_iterM _ _ (fun _ : unit => ninv_yield EvInstallerError eq_refl) _ (Vst_Inv _))|]. intro. cbv beta.
        ny. apply Hend.
    + eapply tripleG_bind; [apply T_report_event|]. intro. ny. apply Hend.
    + eapply tripleG_bind; [apply T_report_event|]. intro. apply Hend.
  - ny. eapply tripleG_bind; [apply T_report_event|]. intro. apply Hend.
Qed.

Definition inv0 {A} (m : M A) : Prop := TG (Inv None) m (fun _ => Inv None).
Lemma inv0_of {A} (m : M A) : ninv m -> inv0 m. Proof. intro H. apply H. apply Vst_Inv. Qed.
Lemma inv0_bind {A B} (m : M A) (f : A -> M B) : inv0 m -> (forall a, inv0 (f a)) -> inv0 (bind m f).
Proof. intros Hm Hf. eapply tripleG_bind; [exact Hm|]. intro a. apply Hf. Qed.
Lemma inv0_ret {A} (a : A) : inv0 (ret a). Proof. apply tripleG_ret. auto. Qed.

Lemma inv0_start fuel p m : inv0 (start_update_check fuel p m).
Proof.
  unfold start_update_check. eapply tripleG_bind; [apply T_perform|]. intros [m1 res].
  eapply tripleG_bind with (R := fun _ => InCk).
  { destruct res as [e|[rs rb]].
    - eapply tripleG_bind with (R := fun _ => InCk).
      + destruct e as [re| |]; [destruct re; apply tripleG_ret; auto| |]; (nna ninv_now as n; apply tripleG_ret; auto).
      + intros [m2 reason]. nn ninv_report. apply tripleG_ret. auto.
    - nna ninv_now as n. nn ninv_report.
      eapply tripleG_bind with (R := fun _ => InCk).
      { destruct (install_success rs); [apply (ninv_report_attempts _ _ Vst_InCk)|apply tripleG_ret; auto]. }
      intro. apply tripleG_ret. auto. }
  intros [[m2 result] rb]. ny. ny.
  eapply tripleG_bind with (R := fun _ => Inv None).
  { unfold yield_. eapply tripleG_bind with (R := fun _ => Inv None); [|intros []; apply (ninv_after_event _ _ (Vst_Inv None))].
    apply tripleG_emit. intros q e (Hg & Hs & Hin). eexists. split; [reflexivity|]. split; [exact Hg|]. split; [exact Hs|]. split; reflexivity. }
  intros _. nn ninv_persist_data. apply tripleG_ret. auto.
Qed.

Lemma inv0_ping m : inv0 (ping_omaha m).
Proof.
  unfold ping_omaha, inv0. cbv zeta.
  eapply tripleG_bind; [apply (TG_fresh_first (Inv None) (Inv_more_draws None))|]. intro sess. cbv beta.
  apply (T_request None _ sess m _ (fun _ => Inv None) I).
  intros [m1 res].
  assert (Hf : inv0 (persist_data (with_ps m1 (set_fails (m_ps m1) (sat_inc_u32 (ps_fails (m_ps m1)))));;;
                     ret (with_ps m1 (set_fails (m_ps m1) (sat_inc_u32 (ps_fails (m_ps m1))))))).
  { apply inv0_bind; [apply inv0_of, ninv_persist_data|intro; apply inv0_ret]. }
  destruct res as [er|[d|]]; [exact Hf| |exact Hf].
  apply inv0_bind; [apply inv0_of, ninv_now|intro n]. apply inv0_bind; [apply inv0_of, ninv_yield; reflexivity|intro].
  apply inv0_bind; [apply inv0_of, ninv_persist_data|intro]. apply inv0_ret.
Qed.

Lemma inv0_reboot_loop fuel : forall src pending m, inv0 (reboot_loop fuel src pending m).
Proof.
  induction fuel as [|f IH]; intros src pending m; cbn [reboot_loop]; [apply tripleG_halt|].
  apply inv0_bind; [apply inv0_of, ninv_quiet, quietV_pop_queued|]. intros [[id sc]|].
  { apply inv0_bind; [apply inv0_of, ninv_handle_in_reboot|]. intros [|]; [apply inv0_ret|apply IH]. }
  apply inv0_bind; [apply inv0_of, ninv_quiet, quietV_pop_stim|]. intros [i|sc|].
  - assert (Hping : inv0 (m1 <- ping_omaha m;; mt <- update_next_update_time m1;;
                          (let '(m2, t) := mt in roles <- make_wait t;; reboot_loop f src (remove_nth i pending ++ roles) m2))).
    { apply inv0_bind; [apply inv0_ping|intro m1]. apply inv0_bind; [apply inv0_of, ninv_update_next|]. intros [m2 t].
      apply inv0_bind; [apply inv0_of, ninv_make_wait|intro roles]. apply IH. }
    destruct (nth_error pending i) as [[| |]|].
    + destruct (has_ping_roles (remove_nth i pending)); [apply IH|exact Hping].
    + destruct (has_ping_roles (remove_nth i pending)); [apply IH|exact Hping].
    + apply inv0_bind; [apply inv0_of, ninv_ask_reboot|]. intros [|]; [apply inv0_ret|].
      apply inv0_bind; [apply inv0_of, ninv_emit; reflexivity|intro]. apply IH.
    + apply IH.
  - apply inv0_bind; [apply inv0_of, ninv_quiet, quietV_next_ctl|intro id].
    apply inv0_bind; [apply inv0_of, ninv_emit; reflexivity|intro].
    apply inv0_bind; [apply inv0_of, ninv_handle_in_reboot|]. intros [|]; [apply inv0_ret|apply IH].
  - apply IH.
Qed.
Lemma inv0_wait_for_reboot fuel src m : inv0 (wait_for_reboot fuel src m).
Proof.
  unfold wait_for_reboot. apply inv0_bind; [apply inv0_of, ninv_ask_reboot|intro ok].
  apply inv0_bind.
  { destruct ok; [apply inv0_ret|]. apply inv0_bind; [apply inv0_of, ninv_emit; reflexivity|intro].
    apply inv0_bind; [apply inv0_of, ninv_update_next|]. intros [m1 t]. apply inv0_bind; [apply inv0_of, ninv_make_wait|intro roles]. apply inv0_reboot_loop. }
  intro m1. apply inv0_bind; [apply inv0_of, ninv_quiet, quietV_pop_reboot|intro okr].
  apply inv0_bind; [apply inv0_of, ninv_emit; reflexivity|intro]. apply inv0_ret.
Qed.
Lemma inv0_run_iteration fuel finish start_mono sr m : inv0 (run_iteration fuel finish start_mono sr m).
Proof.
  unfold run_iteration.
  apply inv0_bind.
  { destruct sr; [|apply inv0_ret]. apply inv0_bind; [apply inv0_of, ninv_now|intro n].
    match goal with |- inv0 (match ?x with Some _ => _ | None => _ end) => destruct x end; [|apply inv0_ret].
    apply inv0_bind; [apply inv0_of, ninv_report|intro]. repeat (apply inv0_bind; [apply inv0_of, ninv_write|intro]). apply inv0_ret. }
  intro sr'. apply inv0_bind; [apply inv0_of, ninv_update_next|]. intros [m1 t].
  apply inv0_bind; [apply inv0_of, ninv_make_wait|intro roles]. apply inv0_bind; [apply inv0_of, ninv_do_outer_select|intro sel].
  apply inv0_bind; [apply inv0_of, ninv_quiet, quietV_pop_allowed|intro dec]. apply inv0_bind; [apply inv0_of, ninv_emit; reflexivity|intro].
  assert (Hrep : forall r, inv0 (match sel with Some (_, id) => emit (AReply id r) | None => ret tt end)).
  { intro r. destruct sel as [[s id]|]; [apply inv0_of, ninv_emit; reflexivity|apply inv0_ret]. }
  destruct dec.
  1,2: (apply inv0_bind; [apply Hrep|intro]; apply inv0_bind; [apply inv0_of, ninv_enter_check|intro];
        apply inv0_bind; [apply inv0_start|]; intros [m2 rb]; apply inv0_bind; [apply inv0_of, ninv_quiet, quietV_set_incheck|intro];
        apply inv0_bind; [apply inv0_of, ninv_quiet, quietV_take_upgrade|intro upg];
        apply inv0_bind; [destruct rb; [apply inv0_bind; [apply inv0_of, ninv_yield; reflexivity|intro; apply inv0_wait_for_reboot]|apply inv0_ret]|intro m3];
        apply inv0_bind; [apply inv0_of, ninv_yield; reflexivity|intro]; apply inv0_ret).
  all: (apply inv0_bind; [apply Hrep|intro]; apply inv0_ret).
Qed.
Lemma inv0_run_loop iters : forall fuel finish start_mono sr m, inv0 (run_loop iters fuel finish start_mono sr m).
Proof.
  induction iters as [|k IH]; intros; cbn [run_loop]; [apply tripleG_halt|].
  apply inv0_bind; [apply inv0_run_iteration|]. intros [m' sr']. apply IH.
Qed.
Lemma inv0_run iters fuel m : inv0 (run iters fuel m).
Proof.
  unfold run. destruct (negb (forallb app_valid (m_apps m))); [apply inv0_ret|].
  apply inv0_bind; [apply inv0_of, ninv_now|intro]. apply inv0_bind; [apply inv0_of, ninv_quiet, quietV_st_get_time|intro].
  apply inv0_bind; [apply inv0_of, ninv_quiet, quietV_st_get_str|intro]. apply inv0_run_loop.
Qed.
Lemma inv0_oneshot fuel m : inv0 (oneshot fuel m).
Proof. unfold oneshot. apply inv0_bind; [apply inv0_start|]. intros [m' rb]. apply inv0_ret. Qed.

(* a script starts with an empty GUID table *)
Theorem model_accepted_ids ep cfg url cup apps e :
  e_trace e = [] -> e_guids e = [] ->
  accepts step6ids {| i_in := false; i_sess := None; i_reqs := [] |} (run_case ep cfg url cup apps e) = true.
Proof.
  intros Ht Hg. unfold run_case, accepts.
  set (q0 := {| i_in := false; i_sess := None; i_reqs := [] |}).
  assert (Hm0 : mst step6ids q0 e = Some q0) by (unfold mst; rewrite Ht; reflexivity).
  assert (HI : Inv None q0 e).
  { split; [intros d c Hi; rewrite Hg in Hi; contradiction|]. split; [intros r []|split; reflexivity]. }
  destruct ep.
  - destruct (inv0_run (Datatypes.S (length (e_stim e) + length (c_inject (e_cs e)))) (4 + length (e_stim e) + length (c_inject (e_cs e)))
                (build cfg url cup apps (e_store e)) q0 e q0 Hm0 HI) as (q' & Hq' & _).
    destruct (run _ _ _ e) as [r e'] eqn:E. cbn [snd] in Hq'. unfold mst in Hq'. rewrite Hq'. reflexivity.
  - destruct (inv0_oneshot (4 + length (e_stim e) + length (c_inject (e_cs e))) (build cfg url cup apps (e_store e)) q0 e q0 Hm0 HI) as (q' & Hq' & _).
    destruct (oneshot _ _ e) as [r e'] eqn:E. cbn [snd] in Hq'. unfold mst in Hq'. rewrite Hq'. reflexivity.
Qed.
