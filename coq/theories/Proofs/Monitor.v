(* Proofs/Monitor.v — a small trace-Hoare framework for programs of Model/Env.v.
   A monitor is a partial step function over actions; `triple P m Q` says: from any
   environment whose trace so far the monitor accepts in a state satisfying P, the
   actions emitted by m are accepted too, and if m returns a, the monitor is then in
   a state satisfying Q a.  Pre/postconditions speak about the monitor state only:
   every answer of the environment is part of the trace (Model/Env.v), so no
   property needs to look at the script. *)
Require Import Verif.Model.Time Verif.Base.Bytes Verif.Model.Proto Verif.Model.Env.
Open Scope Z_scope.

Section Mon.
  Context {S : Type}.
  Variable step : S -> action -> option S.

  Fixpoint runmon (q : S) (l : list action) : option S :=
    match l with
    | [] => Some q
    | a :: r => match step q a with Some q' => runmon q' r | None => None end
    end.

  Lemma runmon_app q l1 l2 :
    runmon q (l1 ++ l2) = match runmon q l1 with Some q' => runmon q' l2 | None => None end.
  Proof.
    revert q; induction l1 as [|a l1 IH]; intro q; cbn [List.app runmon]; [reflexivity|].
    destruct (step q a); [apply IH|reflexivity].
  Qed.

  Definition accepts (q0 : S) (l : list action) : bool :=
    match runmon q0 l with Some _ => true | None => false end.

  Definition mst (q0 : S) (e : env) : option S := runmon q0 (rev (e_trace e)).

  Definition triple {A} (P : S -> Prop) (m : M A) (Q : A -> S -> Prop) : Prop :=
    forall q0 e q, mst q0 e = Some q -> P q ->
      exists q', mst q0 (snd (m e)) = Some q' /\
                 match fst (m e) with Some a => Q a q' | None => True end.

  Lemma triple_ret {A} (a : A) (P : S -> Prop) (Q : A -> S -> Prop) :
    (forall q, P q -> Q a q) -> triple P (ret a) Q.
  Proof. intros H q0 e q Hm Hp. exists q. split; [exact Hm|apply H; exact Hp]. Qed.

  Lemma triple_bind {A B} (m : M A) (f : A -> M B) P R Q :
    triple P m R -> (forall a, triple (R a) (f a) Q) -> triple P (bind m f) Q.
  Proof.
    intros Hm Hf q0 e q Hq Hp. unfold bind.
    destruct (Hm q0 e q Hq Hp) as (q1 & Hq1 & Hr).
    destruct (m e) as [[a|] e1]; cbn [fst snd] in *.
    - exact (Hf a q0 e1 q1 Hq1 Hr).
    - exists q1. split; [exact Hq1|exact I].
  Qed.

  Lemma triple_conseq {A} (m : M A) (P P' : S -> Prop) (Q Q' : A -> S -> Prop) :
    triple P' m Q' -> (forall q, P q -> P' q) -> (forall a q, Q' a q -> Q a q) -> triple P m Q.
  Proof.
    intros H HP HQ q0 e q Hq Hp. destruct (H q0 e q Hq (HP _ Hp)) as (q' & Hq' & Hr).
    exists q'. split; [exact Hq'|]. destruct (fst (m e)); [apply HQ; exact Hr|exact I].
  Qed.

  Lemma triple_halt {A} (P : S -> Prop) (Q : A -> S -> Prop) : triple P (@halt A) Q.
  Proof. intros q0 e q Hq _. exists q. split; [exact Hq|exact I]. Qed.

  Lemma triple_emit (a : action) (P : S -> Prop) (Q : unit -> S -> Prop) :
    (forall q, P q -> exists q', step q a = Some q' /\ Q tt q') -> triple P (emit a) Q.
  Proof.
    intros H q0 e q Hq Hp. destruct (H q Hp) as (q' & Hs & HQ).
    exists q'. split; [|exact HQ].
    unfold mst, emit. cbn [snd upd_trace e_trace rev]. rewrite runmon_app.
    unfold mst in Hq. rewrite Hq. cbn [runmon]. rewrite Hs. reflexivity.
  Qed.

  Lemma triple_st_write (op : store_op) (P : S -> Prop) (Q : bool -> S -> Prop) :
    (forall q ok, P q -> exists q', step q (AStore op ok) = Some q' /\ Q ok q') -> triple P (st_write op) Q.
  Proof.
    intros H q0 e q Hq Hp. destruct (H q (negb (faulty e)) Hp) as (q' & Hs & HQ).
    exists q'. split; [|exact HQ].
    unfold mst, st_write. cbn [snd upd_trace e_trace rev]. rewrite runmon_app.
    unfold mst in Hq. rewrite Hq. cbn [runmon]. rewrite Hs. reflexivity.
  Qed.

  (* programs that leave the trace alone *)
  Definition silent {A} (m : M A) : Prop := forall e, e_trace (snd (m e)) = e_trace e.

  Lemma triple_silent {A} (m : M A) (P : S -> Prop) :
    silent m -> triple P m (fun _ q => P q).
  Proof.
    intros H q0 e q Hq Hp. exists q. split.
    - unfold mst. rewrite H. exact Hq.
    - destruct (fst (m e)); [exact Hp|exact I].
  Qed.

  Lemma triple_silent' {A} (m : M A) (P : S -> Prop) (Q : A -> S -> Prop) :
    silent m -> (forall a q, P q -> Q a q) -> triple P m Q.
  Proof.
    intros H HQ. eapply triple_conseq; [apply (triple_silent m P H)|auto|auto].
  Qed.

  (* iteration *)
  Lemma triple_iterM {A} (f : A -> M unit) (l : list A) (Inv : S -> Prop) :
    (forall x, In x l -> triple Inv (f x) (fun _ q => Inv q)) -> triple Inv (iterM f l) (fun _ q => Inv q).
  Proof.
    induction l as [|x r IH]; intro H; cbn [iterM].
    - apply triple_ret. auto.
    - eapply triple_bind; [apply H; left; reflexivity|].
      intros []. apply IH. intros y Hy. apply H. right. exact Hy.
  Qed.
End Mon.

(* ---------- silence of the primitives ---------- *)

Lemma silent_ret {A} (a : A) : silent (ret a).
Proof. intro e. reflexivity. Qed.
Lemma silent_read_clock : silent read_clock.
Proof. intro e. unfold read_clock. destruct (e_clock e); reflexivity. Qed.
Lemma silent_pop_next_time : silent pop_next_time.
Proof. intro e. unfold pop_next_time. destruct (q_next_time e); reflexivity. Qed.
Lemma silent_pop_allowed : silent pop_allowed.
Proof. intro e. unfold pop_allowed. destruct (q_allowed e); reflexivity. Qed.
Lemma silent_pop_can_start : silent pop_can_start.
Proof. intro e. unfold pop_can_start. destruct (q_can_start e); reflexivity. Qed.
Lemma silent_pop_reboot_needed : silent pop_reboot_needed.
Proof. intro e. unfold pop_reboot_needed. destruct (q_reboot_needed e); reflexivity. Qed.
Lemma silent_pop_reboot_allowed : silent pop_reboot_allowed.
Proof. intro e. unfold pop_reboot_allowed. destruct (q_reboot_allowed e); reflexivity. Qed.
Lemma silent_pop_http : silent pop_http.
Proof. intro e. unfold pop_http. destruct (q_http e); reflexivity. Qed.
Lemma silent_pop_plan : silent pop_plan.
Proof. intro e. unfold pop_plan. destruct (q_plan e); reflexivity. Qed.
Lemma silent_pop_perform : silent pop_perform.
Proof. intro e. unfold pop_perform. destruct (q_perform e); reflexivity. Qed.
Lemma silent_pop_reboot : silent pop_reboot.
Proof. intro e. unfold pop_reboot. destruct (q_reboot e); reflexivity. Qed.
Lemma silent_pop_backoff : silent pop_backoff.
Proof. intro e. unfold pop_backoff. destruct (q_backoff e); reflexivity. Qed.
Lemma silent_fresh_guid : silent fresh_guid.
Proof. intro e. reflexivity. Qed.
Lemma silent_fresh_nonce : silent fresh_nonce.
Proof. intro e. reflexivity. Qed.
Lemma silent_canon_guid d : silent (canon_guid d).
Proof. intro e. unfold canon_guid. destruct (glookup (e_guids e) d); reflexivity. Qed.
Lemma silent_st_get_int k : silent (st_get_int k).
Proof. intro e. reflexivity. Qed.
Lemma silent_st_get_str k : silent (st_get_str k).
Proof. intro e. reflexivity. Qed.

Lemma silent_bind {A B} (m : M A) (f : A -> M B) : silent m -> (forall a, silent (f a)) -> silent (bind m f).
Proof.
  intros Hm Hf e. unfold bind. specialize (Hm e). destruct (m e) as [[a|] e1]; cbn [snd] in *.
  - rewrite Hf. exact Hm.
  - exact Hm.
Qed.
Lemma silent_st_get_time k : silent (st_get_time k).
Proof. unfold st_get_time. apply silent_bind; [apply silent_st_get_int|intro; apply silent_ret]. Qed.
