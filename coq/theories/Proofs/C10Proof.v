(* Proofs/C10Proof.v — every model trace is accepted by the report monitor step10 *)
Require Import Verif.Model.Time Verif.Base.Bytes Verif.Proofs.BytesFacts Verif.Model.Version Verif.Model.Json Verif.Model.Proto
               Verif.Model.Request Verif.Proofs.RequestFacts Verif.Model.Env Verif.Model.SM Verif.Model.Monitors
               Verif.Proofs.Monitor Verif.Proofs.MonGeneric Verif.Proofs.C10Pure.
Open Scope Z_scope.

Notation T := (triple step10).
Definition Inv10 (q : q10) : Prop := True.
Notation nM := (neutralM step10 Inv10).

Definition cupb (m : sm) : bool := match m_cup m with Some _ => true | None => false end.
(* monitor state: fixed parameters A (apps) and C (cup), phase, obligations *)
Definition St (A : idvers) (C : bool) (ph : ph10) (td : list ob10) (q : q10) : Prop :=
  apps10 q = A /\ cup10 q = C /\ ph10_ q = ph /\ todo10 q = td.
Definition J (m : sm) : q10 -> Prop := St (idv (m_apps m)) (cupb m) X0 [].
(* the parts of the state machine the monitor depends on *)
Definition skm (m m' : sm) : Prop := m_apps m' = m_apps m /\ m_cup m' = m_cup m.

Lemma skm_refl m : skm m m. Proof. split; reflexivity. Qed.
Lemma skm_trans a b c : skm a b -> skm b c -> skm a c.
Proof. intros [H1 H2] [H3 H4]. split; congruence. Qed.
Lemma skm_St m m' ph td q : skm m m' -> St (idv (m_apps m)) (cupb m) ph td q -> St (idv (m_apps m')) (cupb m') ph td q.
Proof. intros [H1 H2]. unfold cupb. rewrite H1, H2. auto. Qed.

Definition boring (a : action) : bool :=
  match a with
  | AClock _ | ATimer _ | AStore _ _ | ARequest _ _ | AReply _ _ => true
  | AMetric (MRequestsPerCheck _ _) | AMetric (MOmahaEventLost _) => false
  | AMetric _ => true
  | AEvent (EvState (CheckingForUpdates _)) | AEvent (EvState ErrorCheckingForUpdate)
  | AEvent (EvServerResponse _) | AEvent (EvResult _) => false
  | AEvent _ => true
  | APolicy (QCanStart _) _ => false
  | APolicy _ _ => true
  | AInstaller IReboot _ => true
  | AInstaller _ _ => false
  | AHttp _ _ => false
  end.

Lemma step10_boring q a : boring a = true -> step10 q a = Some q.
Proof.
  destruct a as [ev|pq ans|w o|c ans|c|w|op ok|mt|id src|id r]; cbn [boring]; intro H; try discriminate; try reflexivity.
  - destruct ev as [s| | | | | |]; try discriminate; try reflexivity. destruct s; try discriminate; reflexivity.
  - destruct pq; try discriminate; reflexivity.
  - destruct c; try discriminate; reflexivity.
  - destruct mt; try discriminate; reflexivity.
Qed.

Lemma ign_store10 : ign_store step10 Inv10. Proof. intros op ok q _. reflexivity. Qed.
Lemma ign_clock10 : ign_clock step10 Inv10. Proof. intros c q _. reflexivity. Qed.
Lemma ign_timer10 w : neutral step10 Inv10 (ATimer w). Proof. intros q _. reflexivity. Qed.
Lemma ign_ctl10 : ign_ctl step10. Proof. split; intros; reflexivity. Qed.

Lemma Pn {A} (P : q10 -> Prop) (m : M A) : nM m -> T P m (fun _ => P).
Proof. intro H. apply (H P). intros; exact I. Qed.
Ltac kn H := eapply triple_bind; [apply (Pn _ _ H)|intro].
Tactic Notation "kna" constr(H) "as" ident(x) := eapply triple_bind; [apply (Pn _ _ H)|intro x].

Lemma nM_emit_b a : boring a = true -> nM (emit a).
Proof. intro H. apply neutralM_emit. intros q _. apply step10_boring. exact H. Qed.
Lemma nM_yield_b ev : boring (AEvent ev) = true -> nM (yield_ ev).
Proof. intro H. apply neutralM_yield; [apply ign_ctl10|]. intros q _. apply step10_boring. exact H. Qed.
Lemma nM_report_b x : boring (AMetric x) = true -> nM (report x).
Proof. intro H. unfold report. apply nM_emit_b. exact H. Qed.
Lemma nM_silent {A} (m : M A) : silent m -> nM m.
Proof. apply neutralM_silent. Qed.

Lemma T_pre_l {A} (P : q10 -> Prop) (phi : Prop) (m : M A) Q : (phi -> T P m Q) -> T (fun q => phi /\ P q) m Q.
Proof. intros H q0 e q Hq [Hphi Hp]. exact (H Hphi q0 e q Hq Hp). Qed.

Ltac brep := match goal with |- T _ (report ?x) _ => apply (Pn _ _ (nM_report_b x eq_refl)) end.
Ltac temit := first [apply triple_emit | apply (T_yield step10 _ _ _ ign_ctl10) | (unfold yield_state; apply (T_yield step10 _ _ _ ign_ctl10))].

(* ---------- do_omaha_request, parametric in what the monitor makes of the request ---------- *)
Definition wire_of (uri : bytes) (m : sm) (b : builder) : wire :=
  {| w_uri := uri; w_headers := headers_of (m_cfg m) b; w_body := body_of (m_cfg m) b; w_sum := summary_of b |}.

Lemma T_do_req_gen b m (P Qd Qu : q10 -> Prop) :
  (forall q uri o, P q -> exists q', step10 q (AHttp (wire_of uri m b) o) = Some q'
                                     /\ (if delivered (cupb m) o then Qd q' else Qu q')) ->
  T P (do_omaha_request b m)
    (fun r q => skm m (fst r) /\ match snd r with inr _ => Qd q | inl _ => Qu q \/ P q end).
Proof.
  intro H. unfold do_omaha_request.
  destruct (negb (u_valid (m_url m))).
  { apply triple_ret. intros q Hq. split; [apply skm_refl|right; exact Hq]. }
  destruct (negb (headers_ok (m_cfg m) b)).
  { eapply triple_bind with (R := fun _ => P).
    - destruct (m_cup m); [|apply triple_ret; auto]. kn (nM_silent _ silent_fresh_nonce). apply triple_ret; auto.
    - intro. apply triple_ret. intros q Hq. split; [apply skm_refl|right; exact Hq]. }
  eapply triple_bind with (R := fun _ => P).
  { destruct (m_cup m); [|apply triple_ret; auto]. kn (nM_silent _ silent_fresh_nonce). apply triple_ret; auto. }
  intro uri. kna (nM_silent _ silent_pop_http) as o.
  eapply triple_bind with (R := fun _ q => if delivered (cupb m) o then Qd q else Qu q).
  { apply triple_emit. intros q Hq. exact (H q uri o Hq). }
  intros _. destruct o as [k|status ra au bd].
  - apply triple_ret. cbn [delivered]. intros q Hq. split; [apply skm_refl|left; exact Hq].
  - destruct (match m_cup m with Some _ => negb au | None => false end) eqn:Ef.
    + assert (Hd : delivered (cupb m) (HResp status ra au bd) = false).
      { unfold delivered, cupb. destruct (m_cup m); [|discriminate]. destruct au; [discriminate|reflexivity]. }
      rewrite Hd. apply triple_ret. intros q Hq. split; [apply skm_refl|left; exact Hq].
    + assert (Hd : delivered (cupb m) (HResp status ra au bd) = is_2xx status).
      { unfold delivered, cupb. destruct (m_cup m); [destruct au; [reflexivity|discriminate]|reflexivity]. }
      rewrite Hd.
      eapply triple_bind with (R := fun m' q => (if is_2xx status then Qd q else Qu q) /\ skm m m').
      { destruct (oZ_eqb (ps_poll (m_ps m)) (parse_retry_after ra)).
        - apply triple_ret. intros q Hq. split; [exact Hq|apply skm_refl].
        - kn (nM_yield_b (EvProtocol (m_ps (with_ps m (set_poll (m_ps m) (parse_retry_after ra))))) eq_refl).
          kn (neutralM_ctx_persist step10 Inv10 (m_sched (with_ps m (set_poll (m_ps m) (parse_retry_after ra))))
                (m_ps (with_ps m (set_poll (m_ps m) (parse_retry_after ra)))) ign_store10).
          kn (neutralM_st_write step10 Inv10 SCommit ign_store10).
          apply triple_ret. intros q Hq. split; [exact Hq|split; reflexivity]. }
      intro m'. unfold is_2xx. destruct ((200 <=? status) && (status <? 300))%N; apply triple_ret; intros q [Hq Hk];
        (split; [exact Hk|]); [exact Hq|left; exact Hq].
Qed.

(* requests that carry no events, outside a check or during its attempts *)
Lemma no_events_ops p ops :
  (forall o, In o ops -> match o with OpEvent _ _ => False | _ => True end) ->
  flat_map wa_events (map wa_of (fold_left (apply_op p) ops [])) = [].
Proof.
  intro H. rewrite build_refines_spec. unfold spec_entries. rewrite map_map.
  induction (first_ids ops []) as [|a l IH]; [reflexivity|]. cbn [map flat_map]. rewrite IH, app_nil_r.
  cbn [wa_of spec_entry wa_events e_events].
  assert (Hn : forall l', (forall o, In o l' -> In o ops) -> flat_map (fun o => match o with OpEvent _ e => [e] | _ => [] end) l' = []).
  { induction l' as [|o l' IH']; intro Hl; [reflexivity|]. cbn [flat_map]. rewrite IH' by (intros; apply Hl; right; assumption).
    specialize (H o (Hl o (or_introl eq_refl))). destruct o; [reflexivity|reflexivity|contradiction]. }
  rewrite Hn; [reflexivity|]. intros o Ho. apply filter_In in Ho. exact (proj1 Ho).
Qed.

Lemma T_do_req_plain b m A C ph :
  (ph = X0 \/ ph = XAtt) -> flat_map wa_events (ws_apps (summary_of b)) = [] ->
  T (St A C ph []) (do_omaha_request b m) (fun r q => skm m (fst r) /\ St A C ph [] q).
Proof.
  intros Hph Hev.
  eapply triple_conseq; [apply (T_do_req_gen b m (St A C ph []) (St A C ph []) (St A C ph []))| auto |].
  - intros q uri o Hq. exists q. split; [|destruct (delivered (cupb m) o); exact Hq].
    destruct Hq as (_ & _ & Hp & Ht). unfold step10. rewrite Ht, Hp. unfold total_events, wire_of. cbn [w_sum]. rewrite Hev.
    destruct Hph as [->| ->]; reflexivity.
  - intros r q [Hk Hq]. split; [exact Hk|]. destruct (snd r); [destruct Hq; assumption|exact Hq].
Qed.

(* the builder after the optional id assignment still has the same entries *)
Lemma same_core_apps b b' : same_core b b' -> ws_apps (summary_of b') = ws_apps (summary_of b).
Proof. intros (_ & He & _). rewrite !ws_apps_summary, He. reflexivity. Qed.

Lemma T_maybe_ids10 (c : bool) b s r P : T P (if c then with_ids b s r else ret b) (fun b' q => P q /\ same_core b b').
Proof. apply T_maybe_ids. Qed.

(* ---------- one report through report_event ---------- *)
Lemma step10_lost_olost A C ph c l rest ev q :
  St A C ph (OLost (c :: l) :: rest) q -> ev_code ev = c ->
  exists q', step10 q (AMetric (MOmahaEventLost ev)) = Some q' /\ St A C ph (after_lost l rest) q'.
Proof.
  intros (Ha & Hc & Hp & Ht) He. eexists. split.
  - unfold step10. rewrite Ht, He, code3_eqb_refl. reflexivity.
  - unfold St, q10_set. cbn. auto.
Qed.
Lemma step10_lost_oreport A C ph exp c l rest ev q :
  St A C ph (OReport exp (c :: l) :: rest) q -> ev_code ev = c ->
  exists q', step10 q (AMetric (MOmahaEventLost ev)) = Some q' /\ St A C ph (after_lost l rest) q'.
Proof.
  intros (Ha & Hc & Hp & Ht) He. eexists. split.
  - unfold step10. rewrite Ht, He, code3_eqb_refl. reflexivity.
  - unfold St, q10_set. cbn. auto.
Qed.

Lemma step10_report A C ph exp lost rest q w o :
  St A C ph (OReport exp lost :: rest) q -> report_ok exp w = true ->
  exists q', step10 q (AHttp w o) = Some q' /\
             (if delivered C o then St A C ph rest q' else St A C ph (after_lost lost rest) q').
Proof.
  intros (Ha & Hc & Hp & Ht) Hr. eexists. split.
  - unfold step10. rewrite Ht, Hr. reflexivity.
  - rewrite Hc. destruct (delivered C o); unfold St, q10_set; cbn; auto.
Qed.

Lemma T_report_event p ev apps sess nv dur m A C ph exp rest :
  cupb m = C -> Forall2 match_op exp (report_ops ev apps nv dur) ->
  T (St A C ph (OReport exp [ev_code ev] :: rest)) (report_event p ev apps sess nv dur m)
    (fun m' q => skm m m' /\ St A C ph rest q).
Proof.
  intros <- HF. unfold report_event. kn (nM_silent _ silent_fresh_guid).
  eapply triple_bind; [apply T_maybe_ids10|]. intro b.
  apply T_pre_pure. intro Hcore.
  eapply triple_bind.
  { apply (T_do_req_gen b m _ (St A (cupb m) ph rest) (St A (cupb m) ph (after_lost [ev_code ev] rest))).
    intros q uri o Hq. apply (step10_report _ _ _ _ _ _ _ _ _ Hq).
    apply (report_ok_ops p _ _ _ HF). unfold wire_of. cbn [w_sum]. rewrite (same_core_apps _ _ Hcore). reflexivity. }
  intros [m' [e|bd]]; cbn [fst snd].
  - eapply triple_bind with (R := fun _ q => skm m m' /\ St A (cupb m) ph rest q); [|intro; apply triple_ret; auto].
    apply triple_emit. intros q [Hk [Hq|Hq]].
    + destruct (step10_lost_olost _ _ _ _ _ _ ev _ Hq eq_refl) as (q' & Hs & Hq'). exists q'. split; [exact Hs|split; assumption].
    + destruct (step10_lost_oreport _ _ _ _ _ _ _ ev _ Hq eq_refl) as (q' & Hs & Hq'). exists q'. split; [exact Hs|split; assumption].
  - apply triple_ret. auto.
Qed.

(* ---------- the lost-event metrics of the per-app report ---------- *)
Lemma T_lost_iter A C ph rest (evs : list (app * ares * event)) :
  T (St A C ph (after_lost (map (fun x => ev_code (snd x)) evs) rest))
    (iterM (fun x => report (MOmahaEventLost (snd x))) evs) (fun _ => St A C ph rest).
Proof.
  induction evs as [|x evs IH]; cbn [iterM map after_lost]; [apply triple_ret; auto|].
  eapply triple_bind with (R := fun _ => St A C ph (after_lost (map (fun x => ev_code (snd x)) evs) rest)); [|intros []; exact IH].
  apply triple_emit. intros q Hq. exact (step10_lost_olost _ _ _ _ _ _ (snd x) _ Hq eq_refl).
Qed.

Lemma T_lost_iter_unsent A C ph exp rest (evs : list (app * ares * event)) :
  evs <> [] ->
  T (St A C ph (OReport exp (map (fun x => ev_code (snd x)) evs) :: rest))
    (iterM (fun x => report (MOmahaEventLost (snd x))) evs) (fun _ => St A C ph rest).
Proof.
  destruct evs as [|x evs]; [contradiction|]. intros _. cbn [iterM map].
  eapply triple_bind with (R := fun _ => St A C ph (after_lost (map (fun x => ev_code (snd x)) evs) rest)); [|intros []; apply T_lost_iter].
  apply triple_emit. intros q Hq. exact (step10_lost_oreport _ _ _ _ _ _ _ (snd x) _ Hq eq_refl).
Qed.

(* ---------- the attempt loop: update-check requests carry no events ---------- *)
Lemma uc_ops_no_events (apps : list app) o :
  In o (flat_map (fun a => [OpUpdateCheck a; OpPing a]) apps) -> match o with OpEvent _ _ => False | _ => True end.
Proof.
  intro H. apply in_flat_map in H. destruct H as (a & _ & [<-|[<-|[]]]); exact I.
Qed.

Lemma T_attempt_loop p apps sess A C fuel : forall attempt m,
  T (St A C XAtt [])
    (attempt_loop fuel attempt (add_ops (builder_new p) (flat_map (fun a => [OpUpdateCheck a; OpPing a]) apps)) sess m)
    (fun r q => skm m (fst (fst r)) /\ St A C XAtt [] q).
Proof.
  set (b0 := add_ops (builder_new p) (flat_map (fun a => [OpUpdateCheck a; OpPing a]) apps)).
  induction fuel as [|f IH]; intros attempt m; cbn [attempt_loop]; [apply triple_halt|].
  kn (neutralM_now step10 Inv10 ign_clock10). kn (nM_silent _ silent_fresh_guid).
  eapply triple_bind; [apply T_maybe_ids10|]. intro b. apply T_pre_pure. intro Hcore.
  eapply triple_bind.
  { apply (T_do_req_plain b m A C XAtt); [right; reflexivity|].
    rewrite (same_core_apps _ _ Hcore), ws_apps_summary. apply no_events_ops. intros o Ho. eapply uc_ops_no_events; exact Ho. }
  intros [m1 res]; cbn [fst snd]. apply T_pre_l. intro Hk.
  kna (neutralM_now step10 Inv10 ign_clock10) as fin.
  eapply triple_bind with (R := fun _ => St A C XAtt []).
  { match goal with |- T _ (if ?c then _ else _) _ => destruct c end;
      [brep|apply triple_ret; auto]. }
  intros _. destruct res as [e|bd]; [|apply triple_ret; auto].
  match goal with |- T _ (if ?c then _ else _) _ => destruct c end.
  - eapply triple_bind with (R := fun _ => St A C XAtt []); [|intro; apply triple_ret; auto].
    temit. intros q Hq. exists q. split; [|exact Hq]. destruct Hq as (_ & _ & Hp & Ht). cbn [step10]. rewrite Hp, Ht. reflexivity.
  - kna (nM_silent _ silent_pop_backoff) as r.
    kn (neutralM_emit step10 Inv10 _ (ign_timer10 (WFor (randomize (Z.shiftl 1 (attempt - 1) * 1000) 1000 r * 1000000)))).
    eapply triple_conseq; [apply IH|auto|]. intros r0 q [Hk1 Hq]. split; [eapply skm_trans; eassumption|exact Hq].
Qed.

Lemma T_report_check_interval src m P : T P (report_check_interval src m) (fun m' q => P q /\ skm m m').
Proof.
  unfold report_check_interval. kna (neutralM_now step10 Inv10 ign_clock10) as n.
  eapply triple_bind with (R := fun _ => P); [|intro; apply triple_ret; intros q Hq; split; [exact Hq|split; reflexivity]].
  destruct (s_last_check (m_sched m)) as [[w|mm|c]|]; try (apply triple_ret; auto).
  - destruct (w <=? wall n); [brep|apply triple_ret; auto].
  - destruct (mono c <=? mono n); [brep|apply triple_ret; auto].
Qed.

(* ---------- perform_update_check ---------- *)
Definition settled (A : idvers) (C : bool) (q : q10) : Prop :=
  exists td, St A C XDone td q /\ forallb optional10 td = true.

Lemma settled_nil A C q : St A C XDone [] q -> settled A C q.
Proof. intro H. exists []. split; [exact H|reflexivity]. Qed.

Lemma step10_flow A C ph q a ph' td' :
  St A C ph [] q -> (forall q0, apps10 q0 = A -> ph10_ q0 = ph -> todo10 q0 = [] -> step10 q0 a = Some (q10_set q0 ph' td')) ->
  exists q', step10 q a = Some q' /\ St A C ph' td' q'.
Proof.
  intros (Ha & Hc & Hp & Ht) H. eexists. split; [apply H; assumption|]. unfold St, q10_set. cbn. auto.
Qed.

Lemma T_perform fuel p m :
  T (J m) (perform_update_check fuel p (m_apps m) m)
    (fun r q => skm m (fst r) /\ settled (idv (m_apps m)) (cupb m) q).
Proof.
  unfold perform_update_check, J.
  set (A := idv (m_apps m)). set (C := cupb m). set (apps := m_apps m).
  eapply triple_bind with (R := fun _ => St A C XAtt []).
  { temit. intros q Hq. apply (step10_flow _ _ _ _ _ _ _ Hq). intros q0 Ha Hp Ht. cbn [step10]. rewrite Hp, Ht, ?Ha. reflexivity. }
  intros _. eapply triple_bind; [apply T_report_check_interval|]. intro m0. apply T_pre_pure. intro Hk0.
  kna (nM_silent _ silent_fresh_guid) as sess.
  eapply triple_bind; [apply T_attempt_loop|]. intros [[m1 attempts] res]; cbn [fst]. apply T_pre_l. intro Hk1.
  assert (Hk : skm m m1) by (eapply skm_trans; eassumption).
  assert (HC : cupb m1 = C) by (unfold C, cupb; rewrite (proj2 Hk); reflexivity).
  eapply triple_bind with
    (R := fun _ => St A C (if match res with inr _ => true | inl _ => false end then XBody else XDone) []).
  { unfold report. apply triple_emit. intros q Hq. apply (step10_flow _ _ _ _ _ _ _ Hq).
    intros q0 Ha Hp Ht. cbn [step10]. rewrite Hp, Ht, ?Ha. reflexivity. }
  intros _. destruct res as [e|[d|]].
  - apply triple_ret. intros q Hq. split; [exact Hk|apply settled_nil; exact Hq].
  - (* a document *)
    eapply triple_bind with (R := fun _ => St A C (if no_offers d then XDone else XOffer d) []).
    { temit. intros q Hq. apply (step10_flow _ _ _ _ _ _ _ Hq). intros q0 Ha Hp Ht. cbn [step10]. rewrite Hp, Ht, ?Ha. reflexivity. }
    intros _. unfold no_offers.
    destruct (filter uc_ok (d_apps d)) as [|wu0 wur] eqn:Hwu.
    + kn (nM_yield_b (EvState NoUpdateAvailable) eq_refl).
      apply triple_ret. intros q Hq. split; [exact Hk|apply settled_nil; exact Hq].
    + rewrite <- Hwu.
      assert (Hnv : map (fun r => (r_id r, manifest_version r)) (filter uc_ok (d_apps d)) = nv_of (filter uc_ok (d_apps d))) by reflexivity.
      rewrite Hnv. set (nv := nv_of (filter uc_ok (d_apps d))).
      kna (nM_silent _ silent_pop_plan) as pl.
      eapply triple_bind with
        (R := fun _ => match pl with
                       | None => St A C XDone [OReport (exp_offered c_plan_error d A) [c_plan_error]]
                       | Some _ => St A C (XPlan d) [] end).
      { apply triple_emit. intros q Hq. destruct pl; apply (step10_flow _ _ _ _ _ _ _ Hq); intros q0 Ha Hp Ht; cbn [step10]; rewrite Hp, Ht, ?Ha; reflexivity. }
      intros _. destruct pl as [plan|].
      2:{ kn (nM_yield_b (EvState InstallingUpdate) eq_refl). kn (nM_yield_b (EvState InstallationError) eq_refl).
          eapply triple_bind; [apply (T_report_event p (event_error EEConstructInstallPlan) apps sess nv None m1 A C XDone _ [] HC); apply report_ops_offered|].
          intro m2. apply triple_ret. intros q [Hk2 Hq]. split; [eapply skm_trans; eassumption|apply settled_nil; exact Hq]. }
      kna (nM_silent _ silent_pop_can_start) as dec.
      eapply triple_bind with
        (R := fun _ => match dec with
                       | UDeferred => St A C XDone [OReport (exp_offered c_deferred d A) [c_deferred]]
                       | UDenied => St A C XDone [OReport (exp_offered c_denied d A) [c_denied]]
                       | UOk => St A C (XInstall d) [OReport (exp_offered c_started d A) [c_started]]
                       end).
      { apply triple_emit. intros q Hq. destruct dec; apply (step10_flow _ _ _ _ _ _ _ Hq); intros q0 Ha Hp Ht; cbn [step10]; rewrite Hp, Ht, ?Ha; reflexivity. }
      intros _. destruct dec.
      * (* approved: install *)
        kn (nM_yield_b (EvState InstallingUpdate) eq_refl).
        eapply triple_bind; [apply (T_report_event p (event_success ETUpdateDownloadStarted) apps sess nv None m1 A C (XInstall d) _ [] HC); apply report_ops_offered|].
        intro m2. apply T_pre_l. intro Hk2.
        assert (Hkm2 : skm m m2) by (eapply skm_trans; eassumption).
        assert (HC2 : cupb m2 = C) by (unfold C, cupb; rewrite (proj2 Hkm2); reflexivity).
        kna (neutralM_now step10 Inv10 ign_clock10) as t0.
        kn (neutralM_record_first_seen step10 Inv10 plan (wall t0) ign_store10).
        kna (nM_silent _ silent_pop_perform) as pa.
        set (pairs := combine (filter uc_ok (d_apps d)) (pa_results pa)).
        set (er := exp_results d (pa_results pa) A). set (ec := exp_complete d (pa_results pa) A).
        set (rest := match ec with [] => [] | _ => [OReport ec [c_complete]] end).
        eapply triple_bind with (R := fun _ => St A C XDone (OReport er (map x_code er) :: rest)).
        { apply triple_emit. intros q Hq. apply (step10_flow _ _ _ _ _ _ _ Hq). intros q0 Ha Hp Ht. cbn [step10]. rewrite Hp, Ht, ?Ha. reflexivity. }
        intros _.
        kn (neutralM_iterM step10 Inv10 (fun bits => yield_ (EvProgress bits)) (pa_progress pa)
              (fun bits => nM_yield_b (EvProgress bits) eq_refl)).
        kna (neutralM_now step10 Inv10 ign_clock10) as t1.
        eapply triple_bind with (R := fun _ => St A C XDone (OReport er (map x_code er) :: rest)).
        { match goal with |- T _ (if ?c then _ else _) _ => destruct c end; [|apply triple_ret; auto].
          match goal with |- T _ (bind (report ?x) _) _ => assert (Hb : boring (AMetric x) = true) by (destruct (forallb _ _); reflexivity);
            kn (nM_report_b x Hb) end. apply triple_ret; auto. }
        intro dur.
        match goal with |- context [iterM (fun x => report (MOmahaEventLost (snd x))) ?E] => change E with (model_evs apps pairs (dl_ms dur)) end.
        remember (model_evs apps pairs (dl_ms dur)) as evs eqn:Hevs.
        kn (nM_silent _ silent_fresh_guid).
        eapply triple_bind; [apply T_maybe_ids10|]. intro b. apply T_pre_pure. intro Hcore.
        assert (Her : er = exp_results_on pairs (idv apps)) by reflexivity.
        eapply triple_bind.
        { apply (T_do_req_gen b m2 _ (St A C XDone rest) (St A C XDone (after_lost (map x_code er) rest))).
          intros q uri o Hq. rewrite HC2. apply (step10_report _ _ _ _ _ _ _ _ _ Hq).
          apply (report_ok_ops p _ (map (fun x => OpEvent (fst (fst x)) (snd x)) evs)).
          - rewrite Her, Hevs. apply results_ops.
          - unfold wire_of. cbn [w_sum]. rewrite (same_core_apps _ _ Hcore). reflexivity. }
        intros [m3 rr]; cbn [fst snd]. apply T_pre_l. intro Hk3.
        assert (Hlost : map x_code er = map (fun x => ev_code (snd x)) evs) by (rewrite Her, Hevs; symmetry; apply results_lost).
        eapply triple_bind with (R := fun _ q => St A C XDone rest q \/ (St A C XDone (OReport er [] :: rest) q /\ evs = [])).
        { destruct rr as [e|bd]; [|apply triple_ret; auto].
          destruct evs as [|x0 evs0].
          - apply triple_ret. cbn [map after_lost] in *. rewrite Hlost. cbn [map after_lost]. intros q [Hq|Hq]; [left; exact Hq|right; split; [exact Hq|reflexivity]].
          - intros q0 e0 q Hm [Hq|Hq].
            + rewrite Hlost in Hq. destruct (T_lost_iter A C XDone rest (x0 :: evs0) q0 e0 q Hm Hq) as (q' & H1 & H2).
              exists q'. split; [exact H1|]. destruct (fst _); [left; exact H2|exact I].
            + rewrite Hlost in Hq. destruct (T_lost_iter_unsent A C XDone er rest (x0 :: evs0) ltac:(discriminate) q0 e0 q Hm Hq) as (q' & H1 & H2).
              exists q'. split; [exact H1|]. destruct (fst _); [left; exact H2|exact I]. }
        intros _.
        change (flat_map _ evs) with (installed_of evs).
        assert (Hci : Forall2 (compl d) ec (installed_of evs)).
        { rewrite Hevs. apply complete_installed. intros pr Hpr. destruct pr as [r0 res0]. apply in_combine_l in Hpr. exact Hpr. }
        assert (Hkm3 : skm m m3) by (eapply skm_trans; eassumption).
        assert (HC3 : cupb m3 = C) by (unfold C, cupb; rewrite (proj2 Hkm3); reflexivity).
        eapply triple_bind with (R := fun m4 q => skm m m4 /\ settled A C q).
        { destruct (installed_of evs) as [|ia il] eqn:Ei.
          - apply triple_ret. assert (Hec : ec = []) by (apply (Forall2_nil_iff _ _ _ Hci); reflexivity).
            unfold rest. rewrite Hec. intros q [Hq|[Hq Hev]]; (split; [exact Hkm3|]).
            + apply settled_nil. exact Hq.
            + rewrite Hev in Hlost. cbn [map] in Hlost. apply map_eq_nil in Hlost. rewrite Hlost in Hq.
              eexists. split; [exact Hq|reflexivity].
          - assert (Hrest : rest = [OReport ec [c_complete]]).
            { unfold rest. destruct ec; [inversion Hci|reflexivity]. }
            rewrite Hrest.
            eapply triple_conseq;
              [apply (T_report_event p (event_success ETUpdateComplete) (ia :: il) sess nv dur m3 A C XDone ec [] HC3);
               apply complete_ops; [reflexivity|exact Hci]| |].
            + intros q [Hq|[_ Hev]]; [exact Hq|]. rewrite Hev in Ei. discriminate.
            + intros m4 q [Hk4 Hq]. split; [eapply skm_trans; eassumption|apply settled_nil; exact Hq]. }
        intro m4. apply T_pre_l. intro Hk4.
        match goal with |- T _ (match ?n with O => _ | S _ => _ end) _ => destruct n as [|nerr] end.
        -- eapply triple_bind with (R := fun _ => settled A C).
           { match goal with |- T _ (if ?c then _ else _) _ => destruct c end; [brep|apply triple_ret; auto]. }
           intros _. kn (neutralM_st_set_time step10 Inv10 K_FINISH_TIME (wall t1) ign_store10).
           eapply triple_bind with (R := fun _ => settled A C).
           { match goal with |- T _ (match ?x with Some _ => _ | None => _ end) _ => destruct x as [o|] end; [|apply triple_ret; auto].
             kn (neutralM_st_write step10 Inv10 (SSetStr K_TARGET_VERSION (match o with Some v => v | None => s2b "UNKNOWN" end)) ign_store10).
             apply triple_ret; auto. }
           intros _. kn (neutralM_st_write step10 Inv10 SCommit ign_store10).
           kna (nM_silent _ silent_pop_reboot_needed) as rn.
           kn (nM_emit_b (APolicy (QRebootNeeded plan) (PBool rn)) eq_refl).
           apply triple_ret. intros q Hq. split; [exact Hk4|exact Hq].
        -- kn (neutralM_iterM step10 Inv10 (fun _ : unit => yield_ EvInstallerError) (repeat tt (Datatypes.S nerr))
                 (fun _ => nM_yield_b EvInstallerError eq_refl)).
           kn (nM_yield_b (EvState InstallationError) eq_refl).
           apply triple_ret. intros q Hq. split; [exact Hk4|exact Hq].
      * eapply triple_bind; [apply (T_report_event p deferred_event apps sess nv None m1 A C XDone (exp_offered c_deferred d A) [] HC); exact (report_ops_offered deferred_event d apps None)|].
        intro m2. apply T_pre_l. intro Hk2.
        kn (nM_yield_b (EvState InstallationDeferredByPolicy) eq_refl).
        apply triple_ret. intros q Hq. split; [eapply skm_trans; eassumption|apply settled_nil; exact Hq].
      * eapply triple_bind; [apply (T_report_event p (event_error EEDeniedByPolicy) apps sess nv None m1 A C XDone _ [] HC); apply report_ops_offered|].
        intro m2. apply triple_ret. intros q [Hk2 Hq]. split; [eapply skm_trans; eassumption|apply settled_nil; exact Hq].
  - (* unparseable body *)
    eapply triple_bind with (R := fun _ => St A C XDone [OReport (exp_all c_parse_error A) [c_parse_error]]).
    { temit. intros q Hq. apply (step10_flow _ _ _ _ _ _ _ Hq). intros q0 Ha Hp Ht. cbn [step10]. rewrite Hp, Ht, ?Ha. reflexivity. }
    intros _.
    eapply triple_bind; [apply (T_report_event p (event_error EEParseResponse) apps sess _ None m1 A C XDone _ [] HC); apply report_ops_all|].
    intro m2. apply triple_ret. intros q [Hk2 Hq]. split; [eapply skm_trans; eassumption|apply settled_nil; exact Hq].
Qed.

(* ---------- the rest of the flow ---------- *)
Lemma J_skm m m' q : skm m m' -> J m q -> J m' q.
Proof. intros Hk Hq. unfold J in *. apply (skm_St m m'); assumption. Qed.
Lemma J_ext m m' q : idv (m_apps m') = idv (m_apps m) -> m_cup m' = m_cup m -> J m q -> J m' q.
Proof. intros Ha Hc Hq. unfold J, cupb in *. rewrite Ha, Hc. exact Hq. Qed.

Ltac rj := apply triple_ret; intros q Hq; exact Hq.

Lemma nM_report_attempts_install s : nM (report_attempts_to_successful_install s).
Proof.
  unfold report_attempts_to_successful_install.
  apply neutralM_bind; [apply nM_silent, silent_st_get_int|intro].
  apply neutralM_bind; [apply nM_report_b; reflexivity|intro].
  apply neutralM_bind; [destruct s; apply neutralM_st_write, ign_store10|intro]. apply neutralM_ret.
Qed.

Lemma T_start fuel p m : T (J m) (start_update_check fuel p m) (fun r => J (fst r)).
Proof.
  unfold start_update_check.
  eapply triple_bind; [apply T_perform|]. intros [m1 res]; cbn [fst]. apply T_pre_l. intro Hk1.
  set (A := idv (m_apps m)). set (C := cupb m).
  eapply triple_bind with (R := fun fin q => settled A C q /\ (idv (m_apps (fst (fst fin))) = A /\ m_cup (fst (fst fin)) = m_cup m)).
  { destruct res as [e|[rs rb]].
    - eapply triple_bind with (R := fun mr q => settled A C q /\ skm m (fst mr)).
      { destruct e as [re| |].
        + destruct re; apply triple_ret; auto.
        + kna (neutralM_now step10 Inv10 ign_clock10) as n. apply triple_ret. intros q Hq. split; [exact Hq|exact Hk1].
        + kna (neutralM_now step10 Inv10 ign_clock10) as n. apply triple_ret. intros q Hq. split; [exact Hq|exact Hk1]. }
      intros [m2 reason]; cbn [fst]. apply T_pre_pure. intro Hk2.
      kn (nM_report_b (MFailureReason reason) eq_refl).
      apply triple_ret. intros q Hq. split; [exact Hq|]. cbn [fst with_ps m_apps m_cup]. destruct Hk2 as [H1 H2]. unfold A. rewrite H1. auto.
    - kna (neutralM_now step10 Inv10 ign_clock10) as n.
      match goal with |- T _ (bind (report ?x) _) _ => kn (nM_report_b x eq_refl) end.
      eapply triple_bind with (R := fun _ => settled A C).
      { destruct (install_success rs); [apply (Pn _ _ (nM_report_attempts_install _))|apply triple_ret; auto]. }
      intro. apply triple_ret. intros q Hq. split; [exact Hq|].
      cbn [fst with_apps with_ps with_sched m_apps m_cup]. rewrite idv_update. destruct Hk1 as [H1 H2]. unfold A. rewrite H1. auto. }
  intros [[m2 result] rb]; cbn [fst]. apply T_pre_pure. intros [Ha Hc].
  kn (nM_yield_b (EvSchedule (m_sched m2)) eq_refl).
  kn (nM_yield_b (EvProtocol (m_ps m2)) eq_refl).
  eapply triple_bind with (R := fun _ => J m2).
  { temit. intros q (td & (Hqa & Hqc & Hp & Ht) & Hopt). eexists. split.
    - cbn [step10]. rewrite Hp, Ht, Hopt. reflexivity.
    - unfold J, St, q10_set, cupb. cbn. rewrite Ha, Hc. auto. }
  intro. kn (neutralM_persist_data step10 Inv10 m2 ign_store10). rj.
Qed.

Lemma T_update_next m : T (J m) (update_next_update_time m) (fun r => J (fst r)).
Proof.
  unfold update_next_update_time. kna (nM_silent _ silent_pop_next_time) as t.
  kn (nM_emit_b (APolicy (QNextTime (m_apps m) (m_sched m) (m_ps m)) (PTiming t)) eq_refl).
  match goal with |- T _ (bind (yield_ ?ev) _) _ => kn (nM_yield_b ev eq_refl) end. rj.
Qed.

Lemma ping_ops_no_events (apps : list app) o : In o (map OpPing apps) -> match o with OpEvent _ _ => False | _ => True end.
Proof. intro H. apply in_map_iff in H. destruct H as (a & <- & _). exact I. Qed.

Lemma T_ping m : T (J m) (ping_omaha m) J.
Proof.
  unfold ping_omaha. kn (nM_silent _ silent_fresh_guid). kn (nM_silent _ silent_fresh_guid).
  eapply triple_bind; [apply T_maybe_ids10|]. intro b. apply T_pre_pure. intro Hcore.
  eapply triple_bind.
  { apply (T_do_req_plain b m _ _ X0); [left; reflexivity|].
    rewrite (same_core_apps _ _ Hcore), ws_apps_summary. apply no_events_ops. intros o Ho. eapply ping_ops_no_events; exact Ho. }
  intros [m1 res]; cbn [fst snd]. apply T_pre_l. intro Hk. fold (J m).
  assert (Hfail : T (J m)
            (persist_data (with_ps m1 (set_fails (m_ps m1) (sat_inc_u32 (ps_fails (m_ps m1)))));;;
             ret (with_ps m1 (set_fails (m_ps m1) (sat_inc_u32 (ps_fails (m_ps m1)))))) J).
  { kn (neutralM_persist_data step10 Inv10 (with_ps m1 (set_fails (m_ps m1) (sat_inc_u32 (ps_fails (m_ps m1))))) ign_store10).
    apply triple_ret. intros q Hq. apply (J_skm m); [|exact Hq]. exact Hk. }
  destruct res as [er|[d|]]; [exact Hfail| |exact Hfail].
  kna (neutralM_now step10 Inv10 ign_clock10) as n.
  match goal with |- T _ (bind (yield_ ?ev) _) _ => kn (nM_yield_b ev eq_refl) end.
  match goal with |- T _ (bind (persist_data ?x) _) _ => kn (neutralM_persist_data step10 Inv10 x ign_store10) end.
  apply triple_ret. intros q Hq. eapply J_ext; [| |exact Hq].
  - cbn [with_apps with_sched with_ps m_apps]. rewrite idv_update. rewrite (proj1 Hk). reflexivity.
  - cbn [with_apps with_sched with_ps m_cup]. exact (proj2 Hk).
Qed.

Lemma T_ask_reboot src m : T (J m) (ask_reboot_allowed src) (fun _ => J m).
Proof.
  unfold ask_reboot_allowed. kna (nM_silent _ silent_pop_reboot_allowed) as b.
  kn (nM_emit_b (APolicy (QRebootAllowed src) (PBool b)) eq_refl). rj.
Qed.

Lemma T_handle_in_reboot id sc m : T (J m) (handle_in_reboot id sc) (fun _ => J m).
Proof.
  unfold handle_in_reboot. kn (nM_emit_b (AReply id AlreadyRunning) eq_refl).
  destruct sc; [apply T_ask_reboot|rj].
Qed.

Lemma T_reboot_loop fuel : forall src pending m, T (J m) (reboot_loop fuel src pending m) J.
Proof.
  induction fuel as [|f IH]; intros src pending m; cbn [reboot_loop]; [apply triple_halt|].
  kna (nM_silent _ (silent_pop_queued)) as qd. destruct qd as [[id sc]|].
  { eapply triple_bind; [apply T_handle_in_reboot|]. intros [|]; [rj|apply IH]. }
  kna (nM_silent _ silent_pop_stim) as s. destruct s as [i|sc|].
  - assert (Hping : T (J m)
              (m1 <- ping_omaha m;; mt <- update_next_update_time m1;;
               (let '(m2, t) := mt in roles <- make_wait t;; reboot_loop f src (remove_nth i pending ++ roles) m2)) J).
    { eapply triple_bind; [apply T_ping|]. intro m1.
      eapply triple_bind; [apply T_update_next|]. intros [m2 t]; cbn [fst].
      kna (neutralM_make_wait step10 Inv10 t ign_timer10) as roles. apply IH. }
    destruct (nth_error pending i) as [[| |]|].
    + destruct (has_ping_roles (remove_nth i pending)); [apply IH|exact Hping].
    + destruct (has_ping_roles (remove_nth i pending)); [apply IH|exact Hping].
    + eapply triple_bind; [apply T_ask_reboot|]. intros [|]; [rj|].
      kn (neutralM_emit step10 Inv10 _ (ign_timer10 (WFor REBOOT_INTERVAL_NS))). apply IH.
    + apply IH.
  - kna (nM_silent _ silent_next_ctl) as id.
    kn (nM_emit_b (ARequest id sc) eq_refl).
    eapply triple_bind; [apply T_handle_in_reboot|]. intros [|]; [rj|apply IH].
  - apply IH.
Qed.

Lemma T_wait_for_reboot fuel src m : T (J m) (wait_for_reboot fuel src m) J.
Proof.
  unfold wait_for_reboot.
  eapply triple_bind; [apply T_ask_reboot|]. intro ok.
  eapply triple_bind with (R := J).
  { destruct ok; [rj|].
    kn (neutralM_emit step10 Inv10 _ (ign_timer10 (WFor REBOOT_INTERVAL_NS))).
    eapply triple_bind; [apply T_update_next|]. intros [m1 t]; cbn [fst].
    kna (neutralM_make_wait step10 Inv10 t ign_timer10) as roles. apply T_reboot_loop. }
  intro m1. kna (nM_silent _ silent_pop_reboot) as okr.
  kn (nM_emit_b (AInstaller IReboot (IRebooted okr)) eq_refl). rj.
Qed.

Lemma T_run_iteration fuel finish start_mono sr m :
  T (J m) (run_iteration fuel finish start_mono sr m) (fun r => J (fst r)).
Proof.
  unfold run_iteration.
  eapply triple_bind with (R := fun _ => J m).
  { destruct sr; [|rj]. kna (neutralM_now step10 Inv10 ign_clock10) as n.
    match goal with |- T _ (match ?x with Some _ => _ | None => _ end) _ => destruct x end; [|rj].
    match goal with |- T _ (bind (report ?x) _) _ => kn (nM_report_b x eq_refl) end.
    kn (neutralM_st_write step10 Inv10 (SRemove K_FINISH_TIME) ign_store10). kn (neutralM_st_write step10 Inv10 (SRemove K_TARGET_VERSION) ign_store10).
    kn (neutralM_st_write step10 Inv10 SCommit ign_store10). rj. }
  intro sr'. eapply triple_bind; [apply T_update_next|]. intros [m1 t]; cbn [fst].
  kna (neutralM_make_wait step10 Inv10 t ign_timer10) as roles.
  eapply triple_bind with (R := fun _ => J m1); [apply (T_do_outer_select step10 roles (J m1) ign_ctl10)|]. intro sel.
  kna (nM_silent _ silent_pop_allowed) as dec.
  match goal with |- T _ (bind (emit ?a) _) _ => kn (nM_emit_b a eq_refl) end.
  assert (Hneg : T (J m1) (match sel with Some (_, id) => emit (AReply id Throttled) | None => ret tt end;;; ret (m1, sr'))
                   (fun r => J (fst r))).
  { eapply triple_bind with (R := fun _ => J m1); [|intro; rj].
    destruct sel as [[s id]|]; [apply (Pn _ _ (nM_emit_b (AReply id Throttled) eq_refl))|rj]. }
  assert (Hpos : forall p, T (J m1)
            (match sel with Some (_, id) => emit (AReply id Started) | None => ret tt end;;;
             enter_check;;;
             r <- start_update_check fuel p m1;;
             set_incheck false;;;
             upg <- take_upgrade;;
             (let '(m0, rb) := r in
              m2 <- match rb with
                    | RebootNeeded _ => yield_state WaitingForReboot;;; wait_for_reboot fuel (if upg then OnDemand else match sel with Some (s, _) => s | None => ScheduledTask end) m0
                    | RebootNotNeeded => ret m0
                    end;;
              yield_state Idle;;; ret (m2, sr'))) (fun r => J (fst r))).
  { intro p. eapply triple_bind with (R := fun _ => J m1).
    { destruct sel as [[s id]|]; [apply (Pn _ _ (nM_emit_b (AReply id Started) eq_refl))|rj]. }
    intro. eapply triple_bind with (R := fun _ => J m1); [apply (T_enter_check step10 (J m1) ign_ctl10)|]. intro.
    eapply triple_bind; [apply T_start|]. intros [m2 rb]; cbn [fst].
    kn (nM_silent _ (silent_set_incheck false)).
    kna (nM_silent _ silent_take_upgrade) as upg.
    eapply triple_bind with (R := J).
    { destruct rb as [plan|]; [|rj]. kn (nM_yield_b (EvState WaitingForReboot) eq_refl). apply T_wait_for_reboot. }
    intro m3. kn (nM_yield_b (EvState Idle) eq_refl). rj. }
  destruct dec; [apply Hpos|apply Hpos|exact Hneg|exact Hneg|exact Hneg].
Qed.

Lemma T_run_loop iters : forall fuel finish start_mono sr m,
  T (J m) (run_loop iters fuel finish start_mono sr m) J.
Proof.
  induction iters as [|k IH]; intros; cbn [run_loop]; [apply triple_halt|].
  eapply triple_bind; [apply T_run_iteration|]. intros [m' sr']; cbn [fst]. apply IH.
Qed.

Lemma T_run iters fuel m : T (J m) (run iters fuel m) J.
Proof.
  unfold run. destruct (negb (forallb app_valid (m_apps m))); [rj|].
  kn (neutralM_now step10 Inv10 ign_clock10). kn (nM_silent _ (silent_st_get_time K_FINISH_TIME)).
  kn (nM_silent _ (silent_st_get_str K_TARGET_VERSION)). apply T_run_loop.
Qed.

Lemma T_oneshot fuel m : T (J m) (oneshot fuel m) J.
Proof. unfold oneshot. eapply triple_bind; [apply T_start|]. intros [m' rb]; cbn [fst]. rj. Qed.

Lemma idv_build cfg url cup apps st : idv (m_apps (build cfg url cup apps st)) = idv apps.
Proof.
  unfold build. destruct (ctx_load (pend st)) as [sc ps]. cbn [m_apps]. unfold idv. rewrite map_map.
  apply map_ext. intro a. unfold app_load. destruct (sm_get (pend st) (a_id a)) as [v|]; [|reflexivity]. destruct v; try reflexivity.
  match goal with |- context [decode_persisted ?js] => destruct (decode_persisted js) as [[c u]|] end; reflexivity.
Qed.

Theorem model_accepted_c10 ep cfg url cup apps e :
  e_trace e = [] -> accepts step10 (init10 cup apps) (run_case ep cfg url cup apps e) = true.
Proof.
  intro Ht. unfold run_case, accepts.
  set (m := build cfg url cup apps (e_store e)).
  assert (HJ : J m (init10 cup apps)).
  { unfold J, St, init10. cbn [apps10 cup10 ph10_ todo10]. unfold m. rewrite idv_build. unfold cupb, build.
    destruct (ctx_load (pend (e_store e))) as [sc ps]. cbn [m_cup]. auto. }
  destruct ep.
  - destruct (T_run (Datatypes.S (length (e_stim e) + length (c_inject (e_cs e)))) (4 + length (e_stim e) + length (c_inject (e_cs e))) m (init10 cup apps) e (init10 cup apps)) as (q' & Hq' & _).
    + unfold mst. rewrite Ht. reflexivity.
    + exact HJ.
    + destruct (run _ _ m e) as [r e'] eqn:E. cbn [snd] in Hq'. unfold mst in Hq'. rewrite Hq'. reflexivity.
  - destruct (T_oneshot (4 + length (e_stim e) + length (c_inject (e_cs e))) m (init10 cup apps) e (init10 cup apps)) as (q' & Hq' & _).
    + unfold mst. rewrite Ht. reflexivity.
    + exact HJ.
    + destruct (oneshot _ m e) as [r e'] eqn:E. cbn [snd] in Hq'. unfold mst in Hq'. rewrite Hq'. reflexivity.
Qed.
