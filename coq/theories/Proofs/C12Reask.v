(* Proofs/C12Reask.v — while waiting for the reboot the policy's reboot question is asked only when the reboot timer
   fires or an on-demand request is seen.  One turn of the model's wait loop (reboot_loop) consumes one queued request
   or one stimulus; the theorems give, for every kind of turn, what the turn does before the loop goes on - and the
   code run by the turns that must not ask (a ping, re-arming the ping timers) is shown never to ask. *)
Require Import Verif.Model.Time Verif.Base.Bytes Verif.Model.Version Verif.Model.Json Verif.Model.Proto
               Verif.Model.Request Verif.Model.Env Verif.Model.SM Verif.Proofs.Monitor Verif.Proofs.MonGeneric.
Open Scope N_scope.

(* a monitor that rejects the reboot question and nothing else *)
Definition is_ask (a : action) : bool := match a with APolicy (QRebootAllowed _) _ => true | _ => false end.
Definition step_noask (q : unit) (a : action) : option unit := if is_ask a then None else Some q.
Notation NM := (neutralM step_noask (fun _ => True)).
Lemma na a : is_ask a = false -> neutral step_noask (fun _ => True) a.
Proof. intros H q _. unfold step_noask. rewrite H. reflexivity. Qed.
Lemma ctl_na : ign_ctl step_noask. Proof. split; intros; reflexivity. Qed.

(* what NM says: if the question has not been asked before the program runs, it has not been asked after *)
Theorem NM_no_ask {A} (m : M A) : NM m -> forall e, accepts step_noask tt (rev (e_trace e)) = true -> accepts step_noask tt (rev (e_trace (snd (m e)))) = true.
Proof.
  intros H e He. unfold accepts in *. destruct (runmon step_noask tt (rev (e_trace e))) as [q|] eqn:E; [|discriminate].
  destruct (H (fun _ => True) (fun _ _ => I) tt e q E I) as (q' & Hq' & _). unfold mst in Hq'. rewrite Hq'. reflexivity.
Qed.

Lemma NM_do_req b m : NM (do_omaha_request b m).
Proof.
  unfold do_omaha_request.
  destruct (negb (u_valid (m_url m))); [apply neutralM_ret|].
  destruct (negb (headers_ok (m_cfg m) b)).
  { apply neutralM_bind; [|intro; apply neutralM_ret]. destruct (m_cup m); [|apply neutralM_ret].
    apply neutralM_bind; [apply neutralM_silent; intro e; reflexivity|intro; apply neutralM_ret]. }
  apply neutralM_bind.
  { destruct (m_cup m); [|apply neutralM_ret]. apply neutralM_bind; [apply neutralM_silent; intro e; reflexivity|intro; apply neutralM_ret]. }
  intro uri. apply neutralM_bind; [apply neutralM_silent; intro e; unfold pop_http; destruct (q_http e); reflexivity|intro o].
  apply neutralM_bind; [apply neutralM_emit, na; reflexivity|intro].
  destruct o as [k|status ra au bd]; [apply neutralM_ret|].
  destruct (match m_cup m with Some _ => negb au | None => false end); [apply neutralM_ret|].
  apply neutralM_bind.
  { destruct (oZ_eqb (ps_poll (m_ps m)) (parse_retry_after ra)); [apply neutralM_ret|]. cbv zeta.
    apply neutralM_bind; [apply neutralM_yield; [apply ctl_na|apply na; reflexivity]|intro].
    apply neutralM_bind; [apply neutralM_ctx_persist; intros op ok; apply na; reflexivity|intro].
    apply neutralM_bind; [apply neutralM_st_write; intros op ok; apply na; reflexivity|intro]. apply neutralM_ret. }
  intro m'. destruct ((200 <=? status) && (status <? 300))%N; apply neutralM_ret.
Qed.
Lemma NM_persist m : NM (persist_data m).
Proof. apply neutralM_persist_data. intros op ok. apply na. reflexivity. Qed.
Theorem NM_ping m : NM (ping_omaha m).
Proof.
  unfold ping_omaha. cbv zeta.
  apply neutralM_bind; [apply neutralM_silent; intro e; reflexivity|intro sess].
  apply neutralM_bind; [apply neutralM_silent; intro e; reflexivity|intro req].
  apply neutralM_bind; [destruct (u_valid (m_url m) && headers_ok (m_cfg m) _); [apply neutralM_with_ids|apply neutralM_ret]|intro b].
  apply neutralM_bind; [apply NM_do_req|]. intros [m1 res].
  destruct res as [er|[d|]].
  - apply neutralM_bind; [apply NM_persist|intro; apply neutralM_ret].
  - apply neutralM_bind; [apply neutralM_now; intro c; apply na; reflexivity|intro n].
    apply neutralM_bind; [apply neutralM_yield; [apply ctl_na|apply na; reflexivity]|intro].
    apply neutralM_bind; [apply NM_persist|intro; apply neutralM_ret].
  - apply neutralM_bind; [apply NM_persist|intro; apply neutralM_ret].
Qed.
Theorem NM_update_next m : NM (update_next_update_time m).
Proof.
  unfold update_next_update_time.
  apply neutralM_bind; [apply neutralM_silent; intro e; unfold pop_next_time; destruct (q_next_time e); reflexivity|intro t].
  apply neutralM_bind; [apply neutralM_emit, na; reflexivity|intro].
  apply neutralM_bind; [apply neutralM_yield; [apply ctl_na|apply na; reflexivity]|intro]. apply neutralM_ret.
Qed.
Theorem NM_make_wait t : NM (make_wait t).
Proof. apply neutralM_make_wait. intro w. apply na. reflexivity. Qed.

(* ---------- the turns of the loop ---------- *)
Section Turns.
  Variables (f : nat) (src : isource) (pending : list role) (m : sm) (e : env).

  (* nothing queued, a timer fires that is not the reboot timer: ping timers are consumed; when the last one has fired
     the ping goes out and the ping timers are re-armed - no question *)
  Theorem turn_ping_timer i k r :
    c_inq (e_cs e) = [] -> e_stim e = Fire i :: r -> nth_error pending i = Some k -> k <> RReboot ->
    reboot_loop (S f) src pending m e =
    (if has_ping_roles (remove_nth i pending) then reboot_loop f src (remove_nth i pending) m
     else m1 <- ping_omaha m;; mt <- update_next_update_time m1;;
          (let '(m2, t) := mt in roles <- make_wait t;; reboot_loop f src (remove_nth i pending ++ roles) m2))
      (set_stim e r (e_ctl e)).
  Proof.
    intros Hq Hs Hn Hk. cbn [reboot_loop]. unfold bind at 1. unfold pop_queued. rewrite Hq. unfold bind at 1. unfold pop_stim. rewrite Hs.
    rewrite Hn. destruct k; [reflexivity|reflexivity|contradiction].
  Qed.
  (* a firing of a timer that is no longer armed, or dropping the handles: nothing happens *)
  Theorem turn_stale_timer i r :
    c_inq (e_cs e) = [] -> e_stim e = Fire i :: r -> nth_error pending i = None ->
    reboot_loop (S f) src pending m e = reboot_loop f src pending m (set_stim e r (e_ctl e)).
  Proof.
    intros Hq Hs Hn. cbn [reboot_loop]. unfold bind at 1. unfold pop_queued. rewrite Hq. unfold bind at 1. unfold pop_stim. rewrite Hs, Hn. reflexivity.
  Qed.
  Theorem turn_drop_handles r :
    c_inq (e_cs e) = [] -> e_stim e = DropHandles :: r ->
    reboot_loop (S f) src pending m e = reboot_loop f src pending m (set_stim e r (e_ctl e)).
  Proof.
    intros Hq Hs. cbn [reboot_loop]. unfold bind at 1. unfold pop_queued. rewrite Hq. unfold bind at 1. unfold pop_stim. rewrite Hs. reflexivity.
  Qed.
  (* the reboot timer fires: the question is asked with the source in force; a refusal re-arms the 30-minute timer *)
  Theorem turn_reboot_timer i r :
    c_inq (e_cs e) = [] -> e_stim e = Fire i :: r -> nth_error pending i = Some RReboot ->
    reboot_loop (S f) src pending m e =
    (ok <- ask_reboot_allowed src;;
     if ok then ret m else emit (ATimer (WFor REBOOT_INTERVAL_NS));;; reboot_loop f src (remove_nth i pending ++ [RReboot]) m)
      (set_stim e r (e_ctl e)).
  Proof.
    intros Hq Hs Hn. cbn [reboot_loop]. unfold bind at 1. unfold pop_queued. rewrite Hq. unfold bind at 1. unfold pop_stim. rewrite Hs, Hn. reflexivity.
  Qed.
  (* a request: answered AlreadyRunning; only an on-demand one makes the machine ask (as on-demand, and from then on) *)
  Theorem turn_request sc r :
    c_inq (e_cs e) = [] -> e_stim e = Control sc :: r ->
    reboot_loop (S f) src pending m e =
    (emit (ARequest (e_ctl e) sc);;; emit (AReply (e_ctl e) AlreadyRunning);;;
     match sc with
     | OnDemand => go <- ask_reboot_allowed OnDemand;; if go then ret m else reboot_loop f OnDemand pending m
     | ScheduledTask => reboot_loop f src pending m
     end) (set_stim e r (e_ctl e + 1)).
  Proof.
    intros Hq Hs. cbn [reboot_loop]. unfold bind at 1. unfold pop_queued. rewrite Hq. unfold bind at 1. unfold pop_stim. rewrite Hs.
    unfold bind at 1. unfold next_ctl. cbn [fst snd set_stim e_stim e_ctl]. unfold handle_in_reboot.
    destruct sc; reflexivity.
  Qed.
  Theorem turn_queued_request id sc rq :
    c_inq (e_cs e) = (id, sc) :: rq ->
    reboot_loop (S f) src pending m e =
    (emit (AReply id AlreadyRunning);;;
     match sc with
     | OnDemand => go <- ask_reboot_allowed OnDemand;; if go then ret m else reboot_loop f OnDemand pending m
     | ScheduledTask => reboot_loop f src pending m
     end)
      (set_cs e {| c_inject := c_inject (e_cs e); c_evn := c_evn (e_cs e); c_inq := rq; c_incheck := c_incheck (e_cs e); c_upg := c_upg (e_cs e) |} (e_ctl e)).
  Proof.
    intros Hq. cbn [reboot_loop]. unfold bind at 1. unfold pop_queued. rewrite Hq. unfold handle_in_reboot. destruct sc; reflexivity.
  Qed.
End Turns.
