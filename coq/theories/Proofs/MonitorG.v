(* Proofs/MonitorG.v — trace-Hoare triples whose pre- and postconditions may speak about the environment as well as the
   monitor's state (the most general form; Proofs/Monitor.v and MonitorL.v are special cases). *)
Require Import Verif.Model.Time Verif.Base.Bytes Verif.Model.Proto Verif.Model.Env Verif.Proofs.Monitor.
Open Scope Z_scope.

Section MonG.
  Context {S : Type}.
  Variable step : S -> action -> option S.

  Definition tripleG {A} (P : S -> env -> Prop) (m : M A) (Q : A -> S -> env -> Prop) : Prop :=
    forall q0 e q, mst step q0 e = Some q -> P q e ->
      exists q', mst step q0 (snd (m e)) = Some q' /\ match fst (m e) with Some a => Q a q' (snd (m e)) | None => True end.

  Lemma tripleG_ret {A} (a : A) (P : S -> env -> Prop) (Q : A -> S -> env -> Prop) :
    (forall q e, P q e -> Q a q e) -> tripleG P (ret a) Q.
  Proof. intros H q0 e q Hm Hp. exists q. split; [exact Hm|apply H; exact Hp]. Qed.

  Lemma tripleG_bind {A B} (m : M A) (f : A -> M B) P R Q :
    tripleG P m R -> (forall a, tripleG (R a) (f a) Q) -> tripleG P (bind m f) Q.
  Proof.
    intros Hm Hf q0 e q Hq Hp. unfold bind.
    destruct (Hm q0 e q Hq Hp) as (q1 & Hq1 & Hr).
    destruct (m e) as [[a|] e1]; cbn [fst snd] in *.
    - exact (Hf a q0 e1 q1 Hq1 Hr).
    - exists q1. split; [exact Hq1|exact I].
  Qed.

  Lemma tripleG_conseq {A} (m : M A) (P P' : S -> env -> Prop) (Q Q' : A -> S -> env -> Prop) :
    tripleG P' m Q' -> (forall q e, P q e -> P' q e) -> (forall a q e, Q' a q e -> Q a q e) -> tripleG P m Q.
  Proof.
    intros H HP HQ q0 e q Hq Hp. destruct (H q0 e q Hq (HP _ _ Hp)) as (q' & Hq' & Hr).
    exists q'. split; [exact Hq'|]. destruct (fst (m e)); [apply HQ; exact Hr|exact I].
  Qed.

  Lemma tripleG_halt {A} (P : S -> env -> Prop) (Q : A -> S -> env -> Prop) : tripleG P (@halt A) Q.
  Proof. intros q0 e q Hq _. exists q. split; [exact Hq|exact I]. Qed.

  Lemma tripleG_pre_pure {A} (P : S -> env -> Prop) (phi : Prop) (m : M A) Q :
    (phi -> tripleG P m Q) -> tripleG (fun q e => P q e /\ phi) m Q.
  Proof. intros H q0 e q Hq [Hp Hphi]. exact (H Hphi q0 e q Hq Hp). Qed.

  Lemma tripleG_emit (a : action) (P : S -> env -> Prop) (Q : unit -> S -> env -> Prop) :
    (forall q e, P q e -> exists q', step q a = Some q' /\ Q tt q' (upd_trace e (a :: e_trace e))) -> tripleG P (emit a) Q.
  Proof.
    intros H q0 e q Hq Hp. destruct (H q e Hp) as (q' & Hs & HQ). exists q'. split; [|exact HQ].
    unfold mst, emit. cbn [snd upd_trace e_trace rev]. rewrite runmon_app. unfold mst in Hq. rewrite Hq. cbn [runmon]. rewrite Hs. reflexivity.
  Qed.

  (* a program that leaves the trace alone: only the environment moves *)
  Lemma tripleG_silent {A} (m : M A) (P : S -> env -> Prop) (Q : A -> S -> env -> Prop) :
    silent m -> (forall q e a, P q e -> fst (m e) = Some a -> Q a q (snd (m e))) -> tripleG P m Q.
  Proof.
    intros Hs H q0 e q Hq Hp. exists q. split; [unfold mst; rewrite Hs; exact Hq|].
    destruct (fst (m e)) eqn:E; [eapply H; eassumption|exact I].
  Qed.

  Lemma tripleG_iterM {A} (f : A -> M unit) (l : list A) (Inv : S -> env -> Prop) :
    (forall x, In x l -> tripleG Inv (f x) (fun _ => Inv)) -> tripleG Inv (iterM f l) (fun _ => Inv).
  Proof.
    induction l as [|x r IH]; intro H; cbn [iterM].
    - apply tripleG_ret. auto.
    - eapply tripleG_bind; [apply H; left; reflexivity|].
      intros []. apply IH. intros y Hy. apply H. right. exact Hy.
  Qed.
End MonG.
