(* Proofs/C14Rel.v — storage failures are harmless (second clause of C14): two runs of the model from environments that
   differ only in which storage operations fail produce the same trace once storage operations and metrics are removed:
   the same requests, events, policy questions, installer calls, clock readings, timers, control requests and replies,
   in the same order.  A relational ("two-run") Hoare logic over the model's monad: `rtx m1 m2` says that from related
   environments m1 and m2 return the same value and leave related environments; the relation forgets the store, the
   fault list and - in the trace - storage operations and metrics.  Blocks whose control flow depends on what storage
   holds or on whether a write succeeded are covered by a unary judgement `hst` ("touches nothing else, always
   returns"). *)
Require Import Verif.Model.Time Verif.Base.Bytes Verif.Model.Version Verif.Model.Json Verif.Model.Proto
               Verif.Model.Request Verif.Model.Env Verif.Model.SM.
From Coq Require Import Lia.
Open Scope Z_scope.

Definition low (a : action) : bool := match a with AStore _ _ | AMetric _ => false | _ => true end.
Definition lowt (t : list action) : list action := filter low t.
Definition store0 : storage := {| pend := []; comm := []; opn := 0%N |}.
(* the environment with its store, fault list and trace blanked *)
Definition nonhigh (e : env) : env :=
  {| e_clock := e_clock e; e_last_clock := e_last_clock e; e_store := store0; e_faults := [];
     q_next_time := q_next_time e; q_allowed := q_allowed e; q_can_start := q_can_start e;
     q_reboot_needed := q_reboot_needed e; q_reboot_allowed := q_reboot_allowed e;
     q_http := q_http e; q_plan := q_plan e; q_perform := q_perform e; q_reboot := q_reboot e;
     q_backoff := q_backoff e; e_stim := e_stim e; e_ctl := e_ctl e; e_cs := e_cs e;
     e_draws := e_draws e; e_guids := e_guids e; e_nonces := e_nonces e; e_trace := [] |}.
Definition R (e1 e2 : env) : Prop := nonhigh e1 = nonhigh e2 /\ lowt (e_trace e1) = lowt (e_trace e2).

Definition rtx {A} (m1 m2 : M A) : Prop :=
  forall e1 e2, R e1 e2 -> R (snd (m1 e1)) (snd (m2 e2)) /\ fst (m1 e1) = fst (m2 e2).
(* unary: only the store, the fault list and high trace entries change, and a value is returned *)
Definition hst {A} (m : M A) : Prop :=
  forall e, nonhigh (snd (m e)) = nonhigh e /\ lowt (e_trace (snd (m e))) = lowt (e_trace e) /\ exists a, fst (m e) = Some a.

Lemma rtx_ret {A} (a : A) : rtx (ret a) (ret a).
Proof. intros e1 e2 H. split; [exact H|reflexivity]. Qed.
Lemma rtx_halt {A} : rtx (@halt A) (@halt A).
Proof. intros e1 e2 H. split; [exact H|reflexivity]. Qed.
Lemma rtx_bind {A B} (m1 m2 : M A) (f1 f2 : A -> M B) :
  rtx m1 m2 -> (forall a, rtx (f1 a) (f2 a)) -> rtx (bind m1 f1) (bind m2 f2).
Proof.
  intros Hm Hf e1 e2 H. destruct (Hm e1 e2 H) as [HR Hv]. unfold bind.
  destruct (m1 e1) as [[a1|] e1'], (m2 e2) as [[a2|] e2']; cbn [fst snd] in *; try discriminate Hv.
  - inversion Hv; subst. apply Hf. exact HR.
  - split; [exact HR|reflexivity].
Qed.
Lemma rtx_bind_high {A B C} (m1 : M A) (m2 : M B) (f1 : A -> M C) (f2 : B -> M C) :
  hst m1 -> hst m2 -> (forall a1 a2, rtx (f1 a1) (f2 a2)) -> rtx (bind m1 f1) (bind m2 f2).
Proof.
  intros H1 H2 Hf e1 e2 [Hn Ht]. destruct (H1 e1) as (N1 & T1 & a1 & V1). destruct (H2 e2) as (N2 & T2 & a2 & V2).
  unfold bind. destruct (m1 e1) as [o1 e1'], (m2 e2) as [o2 e2']; cbn [fst snd] in *. subst o1 o2.
  apply Hf. split; congruence.
Qed.
Lemma rtx_high {A B} (m1 : M A) (m2 : M B) : hst m1 -> hst m2 -> rtx (m1 ;;; ret tt) (m2 ;;; ret tt).
Proof. intros H1 H2. apply rtx_bind_high; [exact H1|exact H2|]. intros. apply rtx_ret. Qed.

Lemma hst_ret {A} (a : A) : hst (ret a).
Proof. intro e. repeat split. exists a. reflexivity. Qed.
Lemma hst_bind {A B} (m : M A) (f : A -> M B) : hst m -> (forall a, hst (f a)) -> hst (bind m f).
Proof.
  intros Hm Hf e. destruct (Hm e) as (N1 & T1 & a & V1). unfold bind. destruct (m e) as [o e']; cbn [fst snd] in *. subst o.
  destruct (Hf a e') as (N2 & T2 & b & V2). repeat split; [congruence|congruence|exists b; exact V2].
Qed.
Lemma hst_emit a : low a = false -> hst (emit a).
Proof. intros H e. unfold emit. cbn [fst snd upd_trace e_trace lowt filter]. rewrite H. repeat split. exists tt. reflexivity. Qed.
Lemma hst_write op : hst (st_write op).
Proof. intro e. unfold st_write. cbn [fst snd upd_trace set_store e_trace lowt filter low]. repeat split. eexists. reflexivity. Qed.
Lemma hst_get_int k : hst (st_get_int k). Proof. intro e. repeat split. eexists. reflexivity. Qed.
Lemma hst_get_str k : hst (st_get_str k). Proof. intro e. repeat split. eexists. reflexivity. Qed.
Lemma hst_iterM {A} (f : A -> M unit) l : (forall x, hst (f x)) -> hst (iterM f l).
Proof. intro H. induction l as [|x r IH]; cbn [iterM]; [apply hst_ret|]. apply hst_bind; [apply H|intro; exact IH]. Qed.

(* programs that neither look at nor touch store, faults and trace: their effect is a function of the rest *)
Definition pure_low {A} (m : M A) : Prop :=
  forall e, fst (m e) = fst (m (nonhigh e)) /\ nonhigh (snd (m e)) = nonhigh (snd (m (nonhigh e))) /\ e_trace (snd (m e)) = e_trace e.
Lemma rtx_pure {A} (m : M A) : pure_low m -> rtx m m.
Proof.
  intros H e1 e2 [Hn Ht]. destruct (H e1) as (V1 & N1 & T1). destruct (H e2) as (V2 & N2 & T2).
  split; [split|]; [rewrite N1, N2, Hn; reflexivity|rewrite T1, T2; exact Ht|rewrite V1, V2, Hn; reflexivity].
Qed.
(* emitting the same low action on both sides *)
Lemma rtx_emit a : rtx (emit a) (emit a).
Proof.
  intros e1 e2 [Hn Ht]. split; [|reflexivity]. split; [exact Hn|].
  unfold emit. cbn [snd upd_trace e_trace lowt filter]. destruct (low a); [f_equal|]; exact Ht.
Qed.

(* programs whose effect on everything but store and faults, and the actions they add to the trace, are a function of
   everything but store, faults and the trace so far *)
Definition low_prog {A} (m : M A) : Prop :=
  forall e, fst (m e) = fst (m (nonhigh e)) /\ nonhigh (snd (m e)) = nonhigh (snd (m (nonhigh e)))
            /\ e_trace (snd (m e)) = e_trace (snd (m (nonhigh e))) ++ e_trace e.
Lemma lowt_app a b : lowt (a ++ b) = lowt a ++ lowt b. Proof. apply filter_app. Qed.
Lemma rtx_low {A} (m : M A) : low_prog m -> rtx m m.
Proof.
  intros H e1 e2 [Hn Ht]. destruct (H e1) as (V1 & N1 & T1). destruct (H e2) as (V2 & N2 & T2).
  split; [split|]; [rewrite N1, N2, Hn; reflexivity|rewrite T1, T2, !lowt_app, Hn, Ht; reflexivity|rewrite V1, V2, Hn; reflexivity].
Qed.
Ltac lp := intro e; repeat split; reflexivity.
Lemma lp_read_clock : low_prog read_clock. Proof. intro e. unfold read_clock. cbn. destruct (e_clock e); repeat split; reflexivity. Qed.
Lemma lp_pop_next_time : low_prog pop_next_time. Proof. intro e. unfold pop_next_time. cbn. destruct (q_next_time e); repeat split; reflexivity. Qed.
Lemma lp_pop_allowed : low_prog pop_allowed. Proof. intro e. unfold pop_allowed. cbn. destruct (q_allowed e); repeat split; reflexivity. Qed.
Lemma lp_pop_can_start : low_prog pop_can_start. Proof. intro e. unfold pop_can_start. cbn. destruct (q_can_start e); repeat split; reflexivity. Qed.
Lemma lp_pop_reboot_needed : low_prog pop_reboot_needed. Proof. intro e. unfold pop_reboot_needed. cbn. destruct (q_reboot_needed e); repeat split; reflexivity. Qed.
Lemma lp_pop_reboot_allowed : low_prog pop_reboot_allowed. Proof. intro e. unfold pop_reboot_allowed. cbn. destruct (q_reboot_allowed e); repeat split; reflexivity. Qed.
Lemma lp_pop_http : low_prog pop_http. Proof. intro e. unfold pop_http. cbn. destruct (q_http e); repeat split; reflexivity. Qed.
Lemma lp_pop_plan : low_prog pop_plan. Proof. intro e. unfold pop_plan. cbn. destruct (q_plan e); repeat split; reflexivity. Qed.
Lemma lp_pop_perform : low_prog pop_perform. Proof. intro e. unfold pop_perform. cbn. destruct (q_perform e); repeat split; reflexivity. Qed.
Lemma lp_pop_reboot : low_prog pop_reboot. Proof. intro e. unfold pop_reboot. cbn. destruct (q_reboot e); repeat split; reflexivity. Qed.
Lemma lp_pop_backoff : low_prog pop_backoff. Proof. intro e. unfold pop_backoff. cbn. destruct (q_backoff e); repeat split; reflexivity. Qed.
Lemma lp_pop_stim : low_prog pop_stim. Proof. intro e. unfold pop_stim. cbn. destruct (e_stim e); repeat split; reflexivity. Qed.
Lemma lp_next_ctl : low_prog next_ctl. Proof. lp. Qed.
Lemma lp_pop_queued : low_prog pop_queued. Proof. intro e. unfold pop_queued. cbn. destruct (c_inq (e_cs e)); repeat split; reflexivity. Qed.
Lemma lp_set_incheck b : low_prog (set_incheck b). Proof. lp. Qed.
Lemma lp_take_upgrade : low_prog take_upgrade. Proof. lp. Qed.
Lemma lp_fresh_guid : low_prog fresh_guid. Proof. lp. Qed.
Lemma lp_fresh_nonce : low_prog fresh_nonce. Proof. lp. Qed.
Lemma lp_canon_guid d : low_prog (canon_guid d). Proof. intro e. unfold canon_guid. cbn. destruct (glookup (e_guids e) d); repeat split; reflexivity. Qed.
Lemma lp_emit a : low_prog (emit a). Proof. lp. Qed.
Lemma lp_enter_check : low_prog enter_check.
Proof. intro e. unfold enter_check. cbn. repeat split; try reflexivity. rewrite app_nil_r. reflexivity. Qed.
Lemma lp_after_event b : low_prog (after_event b).
Proof.
  intro e. unfold after_event. cbn. destruct (c_inject (e_cs e)) as [|[k src] rest]; [repeat split; reflexivity|].
  destruct ((k <=? c_evn (e_cs e))%N && negb b); [|repeat split; reflexivity].
  destruct (c_incheck (e_cs e)); repeat split; reflexivity.
Qed.

(* ---------- the model's functions, one by one ---------- *)
Notation rte m := (rtx m m).
Ltac rb := apply rtx_bind; [|intro].
Tactic Notation "rbx" simple_intropattern(x) := apply rtx_bind; [|intros x].
Ltac rl H := apply rtx_low, H.
Lemma rte_high_then {A B} (h : M A) (f : M B) : hst h -> rte f -> rte (h ;;; f).
Proof. intros Hh Hf. apply rtx_bind_high; [exact Hh|exact Hh|]. intros _ _. exact Hf. Qed.
Lemma rte_if {A} (c : bool) (a b : M A) : rte a -> rte b -> rte (if c then a else b). Proof. destruct c; auto. Qed.

Lemma hst_report x : hst (report x). Proof. apply hst_emit. reflexivity. Qed.
Lemma hst_set_opt k v : hst (st_set_option_int k v). Proof. unfold st_set_option_int. destruct v; apply hst_write. Qed.
Lemma hst_set_time k t : hst (st_set_time k t). Proof. apply hst_set_opt. Qed.
Lemma hst_get_time k : hst (st_get_time k). Proof. unfold st_get_time. apply hst_bind; [apply hst_get_int|intro; apply hst_ret]. Qed.
Lemma hst_ctx_persist sc ps : hst (ctx_persist sc ps).
Proof. unfold ctx_persist. repeat (apply hst_bind; [apply hst_set_opt|intro]). apply hst_ret. Qed.
Lemma hst_persist_data m : hst (persist_data m).
Proof.
  unfold persist_data. apply hst_bind; [apply hst_ctx_persist|intro]. apply hst_bind.
  - apply hst_iterM. intro ap. apply hst_bind; [apply hst_write|intro; apply hst_ret].
  - intro. apply hst_bind; [apply hst_write|intro; apply hst_ret].
Qed.
Lemma hst_record_first_seen plan t : hst (record_first_seen plan t).
Proof.
  unfold record_first_seen. apply hst_bind; [apply hst_get_str|intro prev].
  assert (Hnew : hst (ok1 <- st_write (SSetStr K_INSTALL_PLAN_ID plan);;
                       (if negb ok1 then ret t
                        else ok2 <- st_set_time K_FIRST_SEEN t;;
                             (if negb ok2 then st_write (SRemove K_INSTALL_PLAN_ID);;; ret t else st_write SCommit;;; ret t)))).
  { apply hst_bind; [apply hst_write|intro ok1]. destruct (negb ok1); [apply hst_ret|].
    apply hst_bind; [apply hst_set_time|intro ok2]. destruct (negb ok2);
      (apply hst_bind; [apply hst_write|intro; apply hst_ret]). }
  destruct prev as [p|]; [|exact Hnew].
  destruct (bytes_eqb p plan); [|exact Hnew].
  apply hst_bind; [apply hst_get_time|intro]. apply hst_ret.
Qed.
Lemma hst_report_attempts s : hst (report_attempts_to_successful_install s).
Proof.
  unfold report_attempts_to_successful_install. apply hst_bind; [apply hst_get_int|intro].
  apply hst_bind; [apply hst_report|intro]. apply hst_bind; [destruct s; apply hst_write|intro]. apply hst_ret.
Qed.

Lemma rte_now : rte now.
Proof. unfold now. rb; [rl lp_read_clock|]. rb; [apply rtx_emit|]. apply rtx_ret. Qed.
Lemma rte_yield ev : rte (yield_ ev).
Proof. unfold yield_. rb; [apply rtx_emit|]. rl lp_after_event. Qed.
Lemma rte_with_ids b s r : rte (with_ids b s r).
Proof. unfold with_ids. rb; [rl lp_canon_guid|]. rb; [rl lp_canon_guid|]. apply rtx_ret. Qed.
Lemma rte_maybe_ids (c : bool) b s r : rte (if c then with_ids b s r else ret b).
Proof. destruct c; [apply rte_with_ids|apply rtx_ret]. Qed.
Lemma rte_report_check_interval src m : rte (report_check_interval src m).
Proof.
  unfold report_check_interval. rbx a; [apply rte_now|]. apply rte_high_then; [|apply rtx_ret].
  destruct (s_last_check (m_sched m)) as [[w|mm|c]|]; try apply hst_ret.
  - destruct (w <=? wall a); [apply hst_report|apply hst_ret].
  - destruct (mono c <=? mono a); [apply hst_report|apply hst_ret].
Qed.
Lemma rte_update_next m : rte (update_next_update_time m).
Proof. unfold update_next_update_time. rb; [rl lp_pop_next_time|]. rb; [apply rtx_emit|]. rb; [apply rte_yield|]. apply rtx_ret. Qed.
Lemma rte_make_wait t : rte (make_wait t).
Proof.
  unfold make_wait. destruct (t_min t).
  - rb; [apply rtx_emit|]. rb; [apply rtx_emit|]. apply rtx_ret.
  - rb; [apply rtx_emit|]. apply rtx_ret.
Qed.
Lemma rte_ask_reboot src : rte (ask_reboot_allowed src).
Proof. unfold ask_reboot_allowed. rb; [rl lp_pop_reboot_allowed|]. rb; [apply rtx_emit|]. apply rtx_ret. Qed.
Lemma rte_handle_in_reboot id sc0 : rte (handle_in_reboot id sc0).
Proof. unfold handle_in_reboot. rb; [apply rtx_emit|]. destruct sc0; [apply rte_ask_reboot|apply rtx_ret]. Qed.
Lemma rte_do_req b m : rte (do_omaha_request b m).
Proof.
  unfold do_omaha_request.
  destruct (negb (u_valid (m_url m))); [apply rtx_ret|].
  destruct (negb (headers_ok (m_cfg m) b)).
  { rb; [|apply rtx_ret]. destruct (m_cup m); [|apply rtx_ret]. rb; [rl lp_fresh_nonce|apply rtx_ret]. }
  rbx uri. { destruct (m_cup m); [|apply rtx_ret]. rb; [rl lp_fresh_nonce|apply rtx_ret]. }
  rbx o; [rl lp_pop_http|]. rb; [apply rtx_emit|].
  destruct o as [k|status ra0 au bd]; [apply rtx_ret|].
  destruct (match m_cup m with Some _ => negb au | None => false end); [apply rtx_ret|].
  rb.
  { destruct (oZ_eqb (ps_poll (m_ps m)) (parse_retry_after ra0)); [apply rtx_ret|]. cbv zeta.
    rb; [apply rte_yield|]. apply rte_high_then; [apply hst_ctx_persist|]. apply rte_high_then; [apply hst_write|]. apply rtx_ret. }
  destruct ((200 <=? status) && (status <? 300))%N; apply rtx_ret.
Qed.
Lemma rte_report_event p ev apps sess nv dur m : rte (report_event p ev apps sess nv dur m).
Proof.
  unfold report_event. rb; [rl lp_fresh_guid|]. rb; [apply rte_maybe_ids|]. rbx [m' [e|bd]]; [apply rte_do_req| |apply rtx_ret].
  apply rte_high_then; [apply hst_report|apply rtx_ret].
Qed.
Lemma rte_attempt_loop b0 sess fuel : forall attempt m, rte (attempt_loop fuel attempt b0 sess m).
Proof.
  induction fuel as [|f IH]; intros attempt m; cbn [attempt_loop]; [apply rtx_halt|].
  rb; [apply rte_now|]. rb; [rl lp_fresh_guid|]. rb; [apply rte_maybe_ids|]. rbx [m1 res]; [apply rte_do_req|]. rb; [apply rte_now|].
  apply rte_high_then.
  { match goal with |- hst (if ?c then _ else _) => destruct c end; [apply hst_report|apply hst_ret]. }
  destruct res as [e|bd]; [|apply rtx_ret].
  match goal with |- rtx (if ?c then _ else _) _ => destruct c end.
  - rb; [apply rte_yield|apply rtx_ret].
  - rb; [rl lp_pop_backoff|]. rb; [apply rtx_emit|]. apply IH.
Qed.
Lemma rte_ping m : rte (ping_omaha m).
Proof.
  unfold ping_omaha. cbv zeta. rb; [rl lp_fresh_guid|]. rb; [rl lp_fresh_guid|]. rb; [apply rte_maybe_ids|]. rbx [m1 res]; [apply rte_do_req|].
  destruct res as [er|[d|]]; [apply rte_high_then; [apply hst_persist_data|apply rtx_ret]| |apply rte_high_then; [apply hst_persist_data|apply rtx_ret]].
  rb; [apply rte_now|]. rb; [apply rte_yield|]. apply rte_high_then; [apply hst_persist_data|apply rtx_ret].
Qed.
Lemma rte_reboot_loop fuel : forall src pending m, rte (reboot_loop fuel src pending m).
Proof.
  induction fuel as [|f IH]; intros src pending m; cbn [reboot_loop]; [apply rtx_halt|].
  rbx [[id sc]|]; [rl lp_pop_queued| |].
  { rbx [|]; [apply rte_handle_in_reboot|apply rtx_ret|apply IH]. }
  rbx [i|sc|]; [rl lp_pop_stim| | |].
  - assert (Hping : rte (m1 <- ping_omaha m;; mt <- update_next_update_time m1;;
                         (let '(m2, t) := mt in roles <- make_wait t;; reboot_loop f src (remove_nth i pending ++ roles) m2))).
    { rb; [apply rte_ping|]. rbx [m2 t]; [apply rte_update_next|]. rb; [apply rte_make_wait|]. apply IH. }
    destruct (nth_error pending i) as [[| |]|].
    + destruct (has_ping_roles (remove_nth i pending)); [apply IH|exact Hping].
    + destruct (has_ping_roles (remove_nth i pending)); [apply IH|exact Hping].
    + rbx [|]; [apply rte_ask_reboot|apply rtx_ret|]. rb; [apply rtx_emit|]. apply IH.
    + apply IH.
  - rb; [rl lp_next_ctl|]. rb; [apply rtx_emit|]. rbx [|]; [apply rte_handle_in_reboot|apply rtx_ret|apply IH].
  - apply IH.
Qed.
Lemma rte_wait_for_reboot fuel src m : rte (wait_for_reboot fuel src m).
Proof.
  unfold wait_for_reboot. rbx ok; [apply rte_ask_reboot|]. rb.
  { destruct ok; [apply rtx_ret|]. rb; [apply rtx_emit|]. rbx [m1 t]; [apply rte_update_next|]. rb; [apply rte_make_wait|]. apply rte_reboot_loop. }
  rb; [rl lp_pop_reboot|]. rb; [apply rtx_emit|]. apply rtx_ret.
Qed.

Lemma rte_iter_yield {A} (f : A -> sm_event) l : rte (iterM (fun x => yield_ (f x)) l).
Proof. induction l as [|x r IH]; cbn [iterM]; [apply rtx_ret|]. rb; [apply rte_yield|exact IH]. Qed.

Lemma rte_perform fuel p apps m : rte (perform_update_check fuel p apps m).
Proof.
  unfold perform_update_check.
  rb; [apply rte_yield|]. rbx m0; [apply rte_report_check_interval|]. rbx sess; [rl lp_fresh_guid|].
  rbx [[m1 attempts] res]; [apply rte_attempt_loop|]. apply rte_high_then; [apply hst_report|].
  destruct res as [e|[d|]].
  - apply rtx_ret.
  - rb; [apply rte_yield|].
    destruct (filter uc_ok (d_apps d)) as [|wu0 wur] eqn:Ewu; [rb; [apply rte_yield|apply rtx_ret]|].
    rbx pl; [rl lp_pop_plan|]. rb; [apply rtx_emit|].
    destruct pl as [plan|].
    2:{ rb; [apply rte_yield|]. rb; [apply rte_yield|]. rbx m2; [apply rte_report_event|]. apply rtx_ret. }
    rbx dec; [rl lp_pop_can_start|]. rb; [apply rtx_emit|].
    destruct dec.
    + rb; [apply rte_yield|]. rbx m2; [apply rte_report_event|]. rbx t0; [apply rte_now|].
      (* the first-seen time comes from storage: the rest of the install is related for any two values of it *)
      apply rtx_bind_high; [apply hst_record_first_seen|apply hst_record_first_seen|]. intros fs1 fs2.
      rbx pa; [rl lp_pop_perform|]. rb; [apply rtx_emit|]. rb; [apply rte_iter_yield|]. rbx t1; [apply rte_now|].
      rbx dur.
      { match goal with |- rtx (if ?c then _ else _) _ => destruct c end; [|apply rtx_ret]. apply rte_high_then; [apply hst_report|apply rtx_ret]. }
      rbx req; [rl lp_fresh_guid|]. rbx b; [apply rte_maybe_ids|]. rbx [m3 rr]; [apply rte_do_req|].
      apply rtx_bind_high with (f1 := fun _ => _) (f2 := fun _ => _).
      1,2: (destruct rr; [apply hst_iterM; intro; apply hst_report|apply hst_ret]).
      intros _ _.
      rbx m4.
      { match goal with |- rtx (match ?l with [] => _ | _ => _ end) _ => destruct l end; [apply rtx_ret|apply rte_report_event]. }
      match goal with |- rtx (match ?n with O => _ | S _ => _ end) _ => destruct n as [|nerr] end.
      * apply rtx_bind_high with (f1 := fun _ => _) (f2 := fun _ => _).
        1,2: (match goal with |- hst (if ?c then _ else _) => destruct c end; [apply hst_report|apply hst_ret]).
        intros _ _. apply rte_high_then; [apply hst_set_time|].
        apply rte_high_then.
        { match goal with |- hst (match ?x with Some _ => _ | None => _ end) => destruct x end; [|apply hst_ret]. apply hst_bind; [apply hst_write|intro; apply hst_ret]. }
        apply rte_high_then; [apply hst_write|]. rbx rn; [rl lp_pop_reboot_needed|]. rb; [apply rtx_emit|]. apply rtx_ret.
      * rb; [apply rte_iter_yield|]. rb; [apply rte_yield|]. apply rtx_ret.
    + rbx m2; [apply rte_report_event|]. rb; [apply rte_yield|]. apply rtx_ret.
    + rbx m2; [apply rte_report_event|]. apply rtx_ret.
  - rb; [apply rte_yield|]. rbx m2; [apply rte_report_event|]. apply rtx_ret.
Qed.

Lemma rte_start fuel p m : rte (start_update_check fuel p m).
Proof.
  unfold start_update_check. rbx [m1 res]; [apply rte_perform|].
  rbx [[m2 result] rb0].
  { destruct res as [e|[rs rb0]].
    - rbx [m2 reason].
      + destruct e as [re| |]; [destruct re; apply rtx_ret| |]; (rb; [apply rte_now|apply rtx_ret]).
      + apply rte_high_then; [apply hst_report|apply rtx_ret].
    - rbx n; [apply rte_now|]. apply rte_high_then; [apply hst_report|].
      apply rte_high_then; [destruct (install_success rs); [apply hst_report_attempts|apply hst_ret]|]. apply rtx_ret. }
  rb; [apply rte_yield|]. rb; [apply rte_yield|]. rb; [apply rte_yield|]. apply rte_high_then; [apply hst_persist_data|apply rtx_ret].
Qed.

Lemma lp_outer_raw roles : low_prog (fun e : env =>
        match outer_select (e_stim e) roles (e_ctl e) with
        | None => (None, set_stim e [] (e_ctl e))
        | Some (None, r, c) => (Some None, set_stim e r c)
        | Some (Some (src, id), r, c) =>
            (Some (Some (src, id)), upd_trace (set_stim e r c) (ARequest id src :: e_trace e))
        end).
Proof.
  intro e. cbn. destruct (outer_select (e_stim e) roles (e_ctl e)) as [[[[[src id]|] r] c]|]; repeat split; reflexivity.
Qed.
Lemma rte_do_outer_select roles : rte (do_outer_select roles).
Proof.
  unfold do_outer_select. rbx [[id src]|]; [rl lp_pop_queued|apply rtx_ret|]. rl (lp_outer_raw roles).
Qed.

Lemma rte_run_iteration fuel finish start_mono sr m : rte (run_iteration fuel finish start_mono sr m).
Proof.
  unfold run_iteration.
  rbx sr'.
  { destruct sr; [|apply rtx_ret]. rbx n; [apply rte_now|].
    match goal with |- rtx (match ?x with Some _ => _ | None => _ end) _ => destruct x end; [|apply rtx_ret].
    apply rte_high_then; [apply hst_report|]. apply rte_high_then; [apply hst_write|]. apply rte_high_then; [apply hst_write|].
    apply rte_high_then; [apply hst_write|]. apply rtx_ret. }
  rbx [m1 t]; [apply rte_update_next|]. rbx roles; [apply rte_make_wait|]. rbx sel; [apply rte_do_outer_select|].
  rbx dec; [rl lp_pop_allowed|]. rb; [apply rtx_emit|].
  assert (Hrep : forall r, rte (match sel with Some (_, id) => emit (AReply id r) | None => ret tt end)).
  { intro r. destruct sel as [[s id]|]; [apply rtx_emit|apply rtx_ret]. }
  destruct dec.
  1,2: (rb; [apply Hrep|]; rb; [rl lp_enter_check|]; rbx [m2 rb0]; [apply rte_start|]; rb; [rl (lp_set_incheck false)|];
        rbx upg; [rl lp_take_upgrade|]; rbx m3;
        [destruct rb0 as [pl|]; [rb; [apply rte_yield|apply rte_wait_for_reboot]|apply rtx_ret]
        |rb; [apply rte_yield|apply rtx_ret]]).
  all: (rb; [apply Hrep|apply rtx_ret]).
Qed.
Lemma rte_run_loop iters : forall fuel finish start_mono sr m, rte (run_loop iters fuel finish start_mono sr m).
Proof.
  induction iters as [|k IH]; intros; cbn [run_loop]; [apply rtx_halt|].
  rbx [m' sr']; [apply rte_run_iteration|apply IH].
Qed.
Lemma rte_oneshot fuel m : rte (oneshot fuel m).
Proof. unfold oneshot. rbx [m' rb0]; [apply rte_start|apply rtx_ret]. Qed.

(* ---------- the two runs ---------- *)
Definition setf (e : env) (f : list N) : env :=
  {| e_clock := e_clock e; e_last_clock := e_last_clock e; e_store := e_store e; e_faults := f;
     q_next_time := q_next_time e; q_allowed := q_allowed e; q_can_start := q_can_start e;
     q_reboot_needed := q_reboot_needed e; q_reboot_allowed := q_reboot_allowed e;
     q_http := q_http e; q_plan := q_plan e; q_perform := q_perform e; q_reboot := q_reboot e;
     q_backoff := q_backoff e; e_stim := e_stim e; e_ctl := e_ctl e; e_cs := e_cs e;
     e_draws := e_draws e; e_guids := e_guids e; e_nonces := e_nonces e; e_trace := e_trace e |}.
Lemma R_setf e f1 f2 : R (setf e f1) (setf e f2). Proof. split; reflexivity. Qed.
Lemma lowt_rev t : lowt (rev t) = rev (lowt t).
Proof.
  induction t as [|a r IH]; [reflexivity|]. cbn [rev]. rewrite lowt_app, IH. unfold lowt at 2 3. cbn [filter].
  destruct (low a); cbn [rev List.app]; [reflexivity|rewrite app_nil_r; reflexivity].
Qed.
Lemma store_now e : e_store (snd (now e)) = e_store e.
Proof. unfold now, bind, read_clock, emit. destruct (e_clock e); reflexivity. Qed.

Lemma run_two iters fuel m e f1 f2 :
  lowt (e_trace (snd (run iters fuel m (setf e f1)))) = lowt (e_trace (snd (run iters fuel m (setf e f2)))).
Proof.
  unfold run. destruct (negb (forallb app_valid (m_apps m))); [reflexivity|].
  pose proof (rte_now (setf e f1) (setf e f2) (R_setf e f1 f2)) as [HR Hv].
  pose proof (store_now (setf e f1)) as S1. pose proof (store_now (setf e f2)) as S2. cbn [setf e_store] in S1, S2.
  unfold bind.
  destruct (now (setf e f1)) as [[c1|] e1], (now (setf e f2)) as [[c2|] e2]; cbn [fst snd] in *; try discriminate Hv.
  2:{ apply HR. }
  inversion Hv; subst c2.
  (* the two reads see the same store: nothing has been written yet *)
  unfold st_get_time, st_get_int, st_get_str, bind, ret. cbn [fst snd]. rewrite S1, S2.
  match goal with |- lowt (e_trace (snd (run_loop ?a ?b ?c ?d ?s ?mm e1))) = _ =>
    pose proof (rte_run_loop a b c d s mm e1 e2 HR) as [HR' _] end.
  apply HR'.
Qed.

Theorem faults_harmless ep cfg url cup apps e f1 f2 :
  lowt (run_case ep cfg url cup apps (setf e f1)) = lowt (run_case ep cfg url cup apps (setf e f2)).
Proof.
  unfold run_case. cbn [setf e_store e_stim e_cs].
  set (m := build cfg url cup apps (e_store e)).
  set (n := Datatypes.S (length (e_stim e) + length (c_inject (e_cs e)))).
  set (fuel := (4 + length (e_stim e) + length (c_inject (e_cs e)))%nat).
  destruct ep.
  - pose proof (run_two n fuel m e f1 f2) as H.
    destruct (run n fuel m (setf e f1)) as [r1 e1'], (run n fuel m (setf e f2)) as [r2 e2']. cbn [snd] in H.
    rewrite !lowt_rev. f_equal. exact H.
  - pose proof (rte_oneshot fuel m (setf e f1) (setf e f2) (R_setf e f1 f2)) as [HR _].
    destruct (oneshot fuel m (setf e f1)) as [r1 e1'], (oneshot fuel m (setf e f2)) as [r2 e2']. cbn [snd] in HR.
    rewrite !lowt_rev. f_equal. apply HR.
Qed.
