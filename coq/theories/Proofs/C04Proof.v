(* Proofs/C04Proof.v — every model trace is accepted by the event-stream monitor step4 *)
Require Import Verif.Model.Time Verif.Base.Bytes Verif.Proofs.BytesFacts Verif.Model.Version Verif.Model.Json Verif.Model.Proto
               Verif.Model.Request Verif.Model.Env Verif.Model.SM Verif.Model.Monitors
               Verif.Proofs.Monitor Verif.Proofs.MonGeneric.
Open Scope Z_scope.

Notation T := (triple step4).
Definition Inv4 (q : q4) : Prop := True.
Notation nM := (neutralM step4 Inv4).

Definition cupb (m : sm) : bool := match m_cup m with Some _ => true | None => false end.
Definition skc (m m' : sm) : Prop := m_cup m' = m_cup m.
Lemma skc_refl m : skc m m. Proof. reflexivity. Qed.
Lemma skc_trans a b c : skc a b -> skc b c -> skc a c.
Proof. unfold skc. congruence. Qed.
Lemma skc_cupb m m' : skc m m' -> cupb m' = cupb m.
Proof. unfold skc, cupb. intros ->. reflexivity. Qed.

(* monitor state, written out *)
Definition S4 (C : bool) (ph : ph4) (pend : option sched) (fin : option (sched * pstate)) (q : q4) : Prop :=
  q = {| cup4 := C; ph4_ := ph; pend4 := pend; fin4 := fin |}.

Definition boring (a : action) : bool :=
  match a with
  | AClock _ | ATimer _ | AStore _ _ | AMetric _ | ARequest _ _ | AReply _ _ => true
  | APolicy (QCheckAllowed _ _ _ _) _ | APolicy (QRebootAllowed _) _ => true
  | AInstaller IReboot _ => true
  | _ => false
  end.
Lemma step4_boring q a : boring a = true -> step4 q a = Some q.
Proof.
  destruct a as [ev|pq ans|w o|c ans|c|w|op ok|mt|id src|id r]; cbn [boring]; intro H; try discriminate; try reflexivity.
  - destruct pq; try discriminate; reflexivity.
  - destruct c; try discriminate; reflexivity.
Qed.

Lemma ign_store4 : ign_store step4 Inv4. Proof. intros op ok q _. reflexivity. Qed.
Lemma ign_clock4 : ign_clock step4 Inv4. Proof. intros c q _. reflexivity. Qed.
Lemma ign_metric4 : ign_metric step4 Inv4. Proof. intros c q _. reflexivity. Qed.
Lemma ign_timer4 w : neutral step4 Inv4 (ATimer w). Proof. intros q _. reflexivity. Qed.
Lemma ign_ctl4 : ign_ctl step4. Proof. split; intros; reflexivity. Qed.

Lemma Pn {A} (P : q4 -> Prop) (m : M A) : nM m -> T P m (fun _ => P).
Proof. intro H. apply (H P). intros; exact I. Qed.
Ltac kn H := eapply triple_bind; [apply (Pn _ _ H)|intro].
Tactic Notation "kna" constr(H) "as" ident(x) := eapply triple_bind; [apply (Pn _ _ H)|intro x].
Lemma nM_emit_b a : boring a = true -> nM (emit a).
Proof. intro H. apply neutralM_emit. intros q _. apply step4_boring. exact H. Qed.
Lemma nM_silent {A} (m : M A) : silent m -> nM m.
Proof. apply neutralM_silent. Qed.
Lemma T_pre_l {A} (P : q4 -> Prop) (phi : Prop) (m : M A) Q : (phi -> T P m Q) -> T (fun q => phi /\ P q) m Q.
Proof. intros H q0 e q Hq [Hphi Hp]. exact (H Hphi q0 e q Hq Hp). Qed.
Lemma T_pre_ex {A X} (P : X -> q4 -> Prop) (m : M A) Q : (forall x, T (P x) m Q) -> T (fun q => exists x, P x q) m Q.
Proof. intros H q0 e q Hq [x Hp]. exact (H x q0 e q Hq Hp). Qed.
Ltac brep := match goal with |- T _ (report ?x) _ => apply (Pn _ _ (neutralM_report step4 Inv4 x ign_metric4)) end.
Ltac temit := first [apply triple_emit | apply (T_yield step4 _ _ _ ign_ctl4) | (unfold yield_state; apply (T_yield step4 _ _ _ ign_ctl4))].
(* one monitor step from a written-out state *)
Ltac stepq := intros q Hq; unfold S4 in Hq; subst q; eexists; split; [cbn; reflexivity|].

(* the protocol-state announcement of a poll-interval change is ignored in these phases *)
Definition quiet (ph : ph4) : Prop := match ph with YExpect (XProto :: _) _ _ => False | _ => True end.
Lemma step4_proto_quiet C ph pend fin ps : quiet ph ->
  step4 {| cup4 := C; ph4_ := ph; pend4 := pend; fin4 := fin |} (AEvent (EvProtocol ps)) = Some {| cup4 := C; ph4_ := ph; pend4 := pend; fin4 := fin |}.
Proof. intro H. cbn. destruct ph; try reflexivity. destruct l as [|[]]; try reflexivity. contradiction. Qed.

(* the tail of do_omaha_request after the exchange: a poll-interval change announced and stored *)
Lemma T_poll_update (P : q4 -> Prop) m poll :
  (forall q ps, P q -> step4 q (AEvent (EvProtocol ps)) = Some q) ->
  T P (if oZ_eqb (ps_poll (m_ps m)) poll then ret m
       else let m1 := with_ps m (set_poll (m_ps m) poll) in
            yield_ (EvProtocol (m_ps m1));;; ctx_persist (m_sched m1) (m_ps m1);;; st_write SCommit;;; ret m1)
    (fun m' q => P q /\ skc m m').
Proof.
  intro Hq. destruct (oZ_eqb (ps_poll (m_ps m)) poll).
  - apply triple_ret. intros q H. split; [exact H|apply skc_refl].
  - cbv zeta. eapply triple_bind with (R := fun _ => P).
    { temit. intros q H. exists q. split; [apply Hq; exact H|exact H]. }
    intro. kn (neutralM_ctx_persist step4 Inv4 (m_sched (with_ps m (set_poll (m_ps m) poll))) (m_ps (with_ps m (set_poll (m_ps m) poll))) ign_store4).
    kn (neutralM_st_write step4 Inv4 SCommit ign_store4).
    apply triple_ret. intros q H. split; [exact H|reflexivity].
Qed.

(* ---------- an update-check attempt ---------- *)
Definition att (C : bool) (want : option body) (q : q4) : Prop :=
  exists last, S4 C (YAtt last) None None q /\ usable C last = want.

Lemma T_do_req_att b m :
  T (att (cupb m) None) (do_omaha_request b m)
    (fun r q => skc m (fst r) /\ att (cupb m) (match snd r with inr bd => Some bd | inl _ => None end) q).
Proof.
  unfold do_omaha_request. set (C := cupb m).
  destruct (negb (u_valid (m_url m))).
  { apply triple_ret. intros q Hq. split; [apply skc_refl|exact Hq]. }
  destruct (negb (headers_ok (m_cfg m) b)).
  { eapply triple_bind with (R := fun _ => att C None).
    - destruct (m_cup m); [|apply triple_ret; auto]. kn (nM_silent _ silent_fresh_nonce). apply triple_ret; auto.
    - intro. apply triple_ret. intros q Hq. split; [apply skc_refl|exact Hq]. }
  eapply triple_bind with (R := fun _ => att C None).
  { destruct (m_cup m); [|apply triple_ret; auto]. kn (nM_silent _ silent_fresh_nonce). apply triple_ret; auto. }
  intro uri. kna (nM_silent _ silent_pop_http) as o.
  eapply triple_bind with (R := fun _ => S4 C (YAtt (Some o)) None None).
  { apply triple_emit. intros q (last & Hq & _). unfold S4 in Hq. subst q. eexists. split; reflexivity. }
  intros _. destruct o as [k|status ra au bd].
  - apply triple_ret. intros q Hq. split; [apply skc_refl|]. exists (Some (HErr k)). split; [exact Hq|reflexivity].
  - destruct (match m_cup m with Some _ => negb au | None => false end) eqn:Ef.
    + apply triple_ret. intros q Hq. split; [apply skc_refl|]. exists (Some (HResp status ra au bd)). split; [exact Hq|].
      unfold usable, C, cupb. destruct (m_cup m); [|discriminate]. destruct au; [discriminate|reflexivity].
    + assert (Hu : usable C (Some (HResp status ra au bd)) = if is_2xx status then Some bd else None).
      { unfold usable, C, cupb. destruct (m_cup m); [destruct au; [reflexivity|discriminate]|reflexivity]. }
      eapply triple_bind; [apply (T_poll_update (S4 C (YAtt (Some (HResp status ra au bd))) None None))|].
      { intros q ps Hq. unfold S4 in Hq. subst q. reflexivity. }
      intro m'. apply T_pre_pure. intro Hk. unfold is_2xx in Hu.
      destruct ((200 <=? status) && (status <? 300))%N; apply triple_ret; intros q Hq; (split; [exact Hk|]);
        exists (Some (HResp status ra au bd)); (split; [exact Hq|exact Hu]).
Qed.

(* ---------- any other request (reports, pings): only forgets the announced final state ---------- *)
Lemma T_do_req_other b m C ph : quiet ph -> (forall l, ph <> YAtt l) ->
  T (S4 C ph None None) (do_omaha_request b m) (fun r q => skc m (fst r) /\ S4 C ph None None q).
Proof.
  intros Hquiet Hna. unfold do_omaha_request.
  destruct (negb (u_valid (m_url m))).
  { apply triple_ret. intros q Hq. split; [apply skc_refl|exact Hq]. }
  destruct (negb (headers_ok (m_cfg m) b)).
  { eapply triple_bind with (R := fun _ => S4 C ph None None).
    - destruct (m_cup m); [|apply triple_ret; auto]. kn (nM_silent _ silent_fresh_nonce). apply triple_ret; auto.
    - intro. apply triple_ret. intros q Hq. split; [apply skc_refl|exact Hq]. }
  eapply triple_bind with (R := fun _ => S4 C ph None None).
  { destruct (m_cup m); [|apply triple_ret; auto]. kn (nM_silent _ silent_fresh_nonce). apply triple_ret; auto. }
  intro uri. kna (nM_silent _ silent_pop_http) as o.
  eapply triple_bind with (R := fun _ => S4 C ph None None).
  { apply triple_emit. intros q Hq. unfold S4 in Hq. subst q. eexists. split; [|reflexivity].
    cbn. destruct ph; try reflexivity. exfalso. eapply Hna. reflexivity. }
  intros _. destruct o as [k|status ra au bd].
  - apply triple_ret. intros q Hq. split; [apply skc_refl|exact Hq].
  - destruct (match m_cup m with Some _ => negb au | None => false end).
    + apply triple_ret. intros q Hq. split; [apply skc_refl|exact Hq].
    + eapply triple_bind; [apply (T_poll_update (S4 C ph None None))|].
      { intros q ps Hq. unfold S4 in Hq. subst q. apply step4_proto_quiet. exact Hquiet. }
      intro m'. apply T_pre_pure. intro Hk.
      destruct ((200 <=? status) && (status <? 300))%N; apply triple_ret; intros q Hq; (split; [exact Hk|exact Hq]).
Qed.

Lemma T_maybe_ids4 (c : bool) b s r P : T P (if c then with_ids b s r else ret b) (fun b' q => P q).
Proof. eapply triple_conseq; [apply (T_maybe_ids step4 c b s r P)|auto|]. intros b' q [H _]. exact H. Qed.

Lemma T_report_event p ev apps sess nv dur m C ph : quiet ph -> (forall l, ph <> YAtt l) ->
  T (S4 C ph None None) (report_event p ev apps sess nv dur m) (fun m' q => skc m m' /\ S4 C ph None None q).
Proof.
  intros Hq Hna. unfold report_event. kn (nM_silent _ silent_fresh_guid).
  eapply triple_bind; [apply T_maybe_ids4|]. intro b.
  eapply triple_bind; [apply (T_do_req_other b m C ph Hq Hna)|].
  intros [m' [e|bd]]; cbn [fst snd].
  - apply T_pre_l. intro Hk. eapply triple_bind with (R := fun _ => S4 C ph None None); [brep|].
    intro. apply triple_ret. auto.
  - apply triple_ret. auto.
Qed.

(* ---------- the attempt loop ---------- *)
Lemma T_attempt_loop b0 sess fuel : forall attempt m,
  T (att (cupb m) None) (attempt_loop fuel attempt b0 sess m)
    (fun r q => skc m (fst (fst r)) /\
                match snd r with
                | inr bd => att (cupb m) (Some bd) q
                | inl _ => S4 (cupb m) (YExpect tail4 (XRFail false) false) None None q
                end).
Proof.
  induction fuel as [|f IH]; intros attempt m; cbn [attempt_loop]; [apply triple_halt|].
  kn (neutralM_now step4 Inv4 ign_clock4). kn (nM_silent _ silent_fresh_guid).
  eapply triple_bind; [apply T_maybe_ids4|]. intro b.
  eapply triple_bind; [apply T_do_req_att|]. intros [m1 res]; cbn [fst snd]. apply T_pre_l. intro Hk.
  kna (neutralM_now step4 Inv4 ign_clock4) as fin.
  eapply triple_bind with (R := fun _ => att (cupb m) (match res with inr bd => Some bd | inl _ => None end)).
  { match goal with |- T _ (if ?c then _ else _) _ => destruct c end; [brep|apply triple_ret; auto]. }
  intros _. destruct res as [e|bd]; [|apply triple_ret; intros q Hq; split; [exact Hk|exact Hq]].
  match goal with |- T _ (if ?c then _ else _) _ => destruct c end.
  - eapply triple_bind with (R := fun _ => S4 (cupb m) (YExpect tail4 (XRFail false) false) None None).
    { temit. intros q (last & Hq & Hu). unfold S4 in Hq. subst q. eexists. split; [|reflexivity]. cbn. rewrite Hu. reflexivity. }
    intro. apply triple_ret. intros q Hq. split; [exact Hk|exact Hq].
  - kna (nM_silent _ silent_pop_backoff) as r.
    kn (neutralM_emit step4 Inv4 _ (ign_timer4 (WFor (randomize (Z.shiftl 1 (attempt - 1) * 1000) 1000 r * 1000000)))).
    assert (HC1 : cupb m1 = cupb m) by (apply skc_cupb; exact Hk). rewrite <- HC1.
    eapply triple_conseq; [apply IH|auto|]. intros r0 q [Hk1 Hq]. split; [eapply skc_trans; eassumption|exact Hq].
Qed.

Lemma T_report_check_interval src m P : T P (report_check_interval src m) (fun m' q => P q /\ skc m m').
Proof.
  unfold report_check_interval. kna (neutralM_now step4 Inv4 ign_clock4) as n.
  eapply triple_bind with (R := fun _ => P); [|intro; apply triple_ret; intros q Hq; split; [exact Hq|reflexivity]].
  destruct (s_last_check (m_sched m)) as [[w|mm|c]|]; try (apply triple_ret; auto).
  - destruct (w <=? wall n); [brep|apply triple_ret; auto].
  - destruct (mono c <=? mono n); [brep|apply triple_ret; auto].
Qed.

(* ---------- perform_update_check ---------- *)
Definition res_result (res : check_err + (list app_response * reboot)) : check_err + list app_response :=
  match res with inl e => inl e | inr (rs, _) => inr rs end.
Definition res_rb (res : check_err + (list app_response * reboot)) : bool :=
  match res with inr (_, RebootNeeded _) => true | _ => false end.
(* at the end of perform_update_check only the tail is due, with the result that is returned *)
Definition due (C : bool) (res : check_err + (list app_response * reboot)) (q : q4) : Prop :=
  exists x, S4 C (YExpect tail4 x (res_rb res)) None None q /\ res_ok x (res_result res) = true.

Lemma resps_eq_refl rs : (if resps_eq_dec rs rs then true else false) = true.
Proof. destruct (resps_eq_dec rs rs); [reflexivity|contradiction]. Qed.

Lemma quiet_state s l x rb : quiet (YExpect (XState s :: l) x rb). Proof. exact I. Qed.
Lemma quiet_tail x rb : quiet (YExpect tail4 x rb). Proof. exact I. Qed.
Lemma notatt_expect l x rb : forall l0, YExpect l x rb <> YAtt l0. Proof. intros l0 H. discriminate. Qed.

Lemma T_perform fuel p apps m :
  T (S4 (cupb m) Y0 None None) (perform_update_check fuel p apps m)
    (fun r q => skc m (fst r) /\ due (cupb m) (snd r) q).
Proof.
  unfold perform_update_check. set (C := cupb m).
  eapply triple_bind with (R := fun _ => att C None).
  { temit. stepq. exists None. split; reflexivity. }
  intros _. eapply triple_bind; [apply T_report_check_interval|]. intro m0. apply T_pre_pure. intro Hk0.
  kna (nM_silent _ silent_fresh_guid) as sess.
  assert (HC0 : cupb m0 = C) by (apply skc_cupb; exact Hk0).
  eapply triple_bind; [rewrite <- HC0; apply T_attempt_loop|]. intros [[m1 attempts] res]; cbn [fst snd]. apply T_pre_l. intro Hk1.
  rewrite HC0.
  assert (Hk : skc m m1) by (eapply skc_trans; eassumption).
  kn (neutralM_report step4 Inv4 (MRequestsPerCheck attempts (match res with inr _ => true | inl _ => false end)) ign_metric4).
  destruct res as [e|[d|]].
  - apply triple_ret. intros q Hq. split; [exact Hk|]. exists (XRFail false). split; [exact Hq|reflexivity].
  - (* a document *)
    eapply triple_bind with
      (R := fun _ => S4 C (if no_offers d then YExpect (XState NoUpdateAvailable :: tail4) (XROk (make_app_responses d ANoUpdate)) false
                           else YDoc d) None None).
    { temit. intros q (last & Hq & Hu). unfold S4 in Hq. subst q. eexists. split; [|reflexivity].
      cbn. rewrite Hu. destruct (doc_eq_dec d d); [reflexivity|contradiction]. }
    intros _. unfold no_offers.
    destruct (filter uc_ok (d_apps d)) as [|wu0 wur] eqn:Hwu.
    + eapply triple_bind with (R := fun _ => S4 C (YExpect tail4 (XROk (make_app_responses d ANoUpdate)) false) None None).
      { temit. stepq. reflexivity. }
      intros _. apply triple_ret. intros q Hq. split; [exact Hk|]. eexists. split; [exact Hq|]. cbn. apply resps_eq_refl.
    + rewrite <- Hwu. set (nv := map (fun r => (r_id r, manifest_version r)) (filter uc_ok (d_apps d))).
      kna (nM_silent _ silent_pop_plan) as pl.
      eapply triple_bind with
        (R := fun _ => S4 C (match pl with
                             | None => YExpect (XState InstallingUpdate :: XState InstallationError :: tail4) XRPlan false
                             | Some _ => YPlanned d end) None None).
      { apply triple_emit. stepq. reflexivity. }
      intros _. destruct pl as [plan|].
      2:{ eapply triple_bind with (R := fun _ => S4 C (YExpect (XState InstallationError :: tail4) XRPlan false) None None).
          { temit. stepq. reflexivity. }
          intros _. eapply triple_bind with (R := fun _ => S4 C (YExpect tail4 XRPlan false) None None).
          { temit. stepq. reflexivity. }
          intros _. eapply triple_bind; [apply (T_report_event _ _ _ _ _ _ _ C _ (quiet_tail _ _) (notatt_expect _ _ _))|].
          intro m2. apply triple_ret. intros q [Hk2 Hq]. split; [eapply skc_trans; eassumption|].
          exists XRPlan. split; [exact Hq|reflexivity]. }
      kna (nM_silent _ silent_pop_can_start) as dec.
      eapply triple_bind with
        (R := fun _ => S4 C (match dec with
                             | UDeferred => YExpect (XState InstallationDeferredByPolicy :: tail4) (XROk (make_app_responses d ADeferredByPolicy)) false
                             | UDenied => YExpect tail4 (XROk (make_app_responses d ADeniedByPolicy)) false
                             | UOk => YApproved d end) None None).
      { apply triple_emit. stepq. reflexivity. }
      intros _. destruct dec.
      * (* approved *)
        eapply triple_bind with (R := fun _ => S4 C (YInstalling d) None None).
        { temit. stepq. reflexivity. }
        intros _. eapply triple_bind; [apply (T_report_event _ _ _ _ _ _ _ C (YInstalling d) I)|]. { intros l H. discriminate. }
        intro m2. apply T_pre_l. intro Hk2.
        kna (neutralM_now step4 Inv4 ign_clock4) as t0.
        kn (neutralM_record_first_seen step4 Inv4 plan (wall t0) ign_store4).
        kna (nM_silent _ silent_pop_perform) as pa.
        set (rs := assign_results (d_apps d) (pa_results pa) (ds_of d)).
        set (nerr := failed_count d (pa_results pa)).
        set (phI := match nerr with
                    | O => YNeedRN rs
                    | Datatypes.S n => YExpect (repeat XErrEv (Datatypes.S n) ++ XState InstallationError :: tail4) (XROk rs) false end).
        assert (HqI : quiet phI) by (unfold phI; destruct nerr; exact I).
        assert (HnI : forall l, phI <> YAtt l) by (unfold phI; destruct nerr; intros l H; discriminate).
        eapply triple_bind with (R := fun _ => S4 C phI None None).
        { apply triple_emit. stepq. reflexivity. }
        intros _.
        eapply triple_bind with (R := fun _ => S4 C phI None None).
        { apply (triple_iterM step4). intros bits _. temit. intros q Hq. unfold S4 in Hq. subst q. eexists. split; [|reflexivity].
          unfold phI. destruct nerr; reflexivity. }
        intros _. kna (neutralM_now step4 Inv4 ign_clock4) as t1.
        eapply triple_bind with (R := fun _ => S4 C phI None None).
        { match goal with |- T _ (if ?c then _ else _) _ => destruct c end; [|apply triple_ret; auto].
          eapply triple_bind; [brep|]. intro. apply triple_ret; auto. }
        intro dur. kn (nM_silent _ silent_fresh_guid).
        eapply triple_bind; [apply T_maybe_ids4|]. intro b.
        eapply triple_bind; [apply (T_do_req_other b m2 C phI HqI HnI)|].
        intros [m3 rr]; cbn [fst snd]. apply T_pre_l. intro Hk3.
        eapply triple_bind with (R := fun _ => S4 C phI None None).
        { destruct rr; [|apply triple_ret; auto]. apply (Pn _ _ (neutralM_iterM step4 Inv4 _ _ (fun x => neutralM_report step4 Inv4 _ ign_metric4))). }
        intros _.
        eapply triple_bind with (R := fun m4 q => skc m3 m4 /\ S4 C phI None None q).
        { match goal with |- T _ (match ?l with [] => _ | _ => _ end) _ => destruct l end;
            [apply triple_ret; intros q Hq; split; [apply skc_refl|exact Hq]|apply (T_report_event _ _ _ _ _ _ _ C phI HqI HnI)]. }
        intro m4. apply T_pre_l. intro Hk4.
        assert (Hkm4 : skc m m4) by (repeat (eapply skc_trans; [eassumption|]); apply skc_refl).
        change (length (filter (fun r => match r with RFailed => true | _ => false end)
                               (firstn (length (filter uc_ok (d_apps d))) (pa_results pa)))) with nerr.
        change (assign_results (d_apps d) (pa_results pa) (match d_daystart d with Some x => x | None => None end)) with rs.
        unfold phI. destruct nerr as [|n].
        -- eapply triple_bind with (R := fun _ => S4 C (YNeedRN rs) None None).
           { match goal with |- T _ (if ?c then _ else _) _ => destruct c end; [brep|apply triple_ret; auto]. }
           intros _. kn (neutralM_st_set_time step4 Inv4 K_FINISH_TIME (wall t1) ign_store4).
           eapply triple_bind with (R := fun _ => S4 C (YNeedRN rs) None None).
           { match goal with |- T _ (match ?x with Some _ => _ | None => _ end) _ => destruct x as [o|] end; [|apply triple_ret; auto].
             kn (neutralM_st_write step4 Inv4 (SSetStr K_TARGET_VERSION (match o with Some v => v | None => s2b "UNKNOWN" end)) ign_store4).
             apply triple_ret; auto. }
           intros _. kn (neutralM_st_write step4 Inv4 SCommit ign_store4).
           kna (nM_silent _ silent_pop_reboot_needed) as rn.
           eapply triple_bind with (R := fun _ => S4 C (YExpect tail4 (XROk rs) rn) None None).
           { apply triple_emit. stepq. reflexivity. }
           intros _. apply triple_ret. intros q Hq. split; [exact Hkm4|].
           exists (XROk rs). cbn [snd res_rb res_result]. split; [destruct rn; exact Hq|cbn; apply resps_eq_refl].
        -- eapply triple_bind with (R := fun _ => S4 C (YExpect (XState InstallationError :: tail4) (XROk rs) false) None None).
           { assert (Hi : forall k, T (S4 C (YExpect (repeat XErrEv k ++ XState InstallationError :: tail4) (XROk rs) false) None None)
                                     (iterM (fun _ : unit => yield_ EvInstallerError) (repeat tt k))
                                     (fun _ => S4 C (YExpect (XState InstallationError :: tail4) (XROk rs) false) None None)).
             { induction k as [|k IHk]; cbn [repeat iterM List.app]; [apply triple_ret; auto|].
               eapply triple_bind with (R := fun _ => S4 C (YExpect (repeat XErrEv k ++ XState InstallationError :: tail4) (XROk rs) false) None None);
                 [|intros []; exact IHk].
               temit. stepq. reflexivity. }
             apply Hi. }
           intros _. eapply triple_bind with (R := fun _ => S4 C (YExpect tail4 (XROk rs) false) None None).
           { temit. stepq. reflexivity. }
           intros _. apply triple_ret. intros q Hq. split; [exact Hkm4|].
           exists (XROk rs). split; [exact Hq|cbn; apply resps_eq_refl].
      * eapply triple_bind; [apply (T_report_event _ _ _ _ _ _ _ C _ (quiet_state _ _ _ _) (notatt_expect _ _ _))|].
        intro m2. apply T_pre_l. intro Hk2.
        eapply triple_bind with (R := fun _ => S4 C (YExpect tail4 (XROk (make_app_responses d ADeferredByPolicy)) false) None None).
        { temit. stepq. reflexivity. }
        intros _. apply triple_ret. intros q Hq. split; [eapply skc_trans; eassumption|].
        eexists. split; [exact Hq|cbn; apply resps_eq_refl].
      * eapply triple_bind; [apply (T_report_event _ _ _ _ _ _ _ C _ (quiet_tail _ _) (notatt_expect _ _ _))|].
        intro m2. apply triple_ret. intros q [Hk2 Hq]. split; [eapply skc_trans; eassumption|].
        eexists. split; [exact Hq|cbn; apply resps_eq_refl].
  - (* unparseable body *)
    eapply triple_bind with (R := fun _ => S4 C (YExpect tail4 (XRFail true) false) None None).
    { temit. intros q (last & Hq & Hu). unfold S4 in Hq. subst q. eexists. split; [|reflexivity]. cbn. rewrite Hu. reflexivity. }
    intros _. eapply triple_bind; [apply (T_report_event _ _ _ _ _ _ _ C _ (quiet_tail _ _) (notatt_expect _ _ _))|].
    intro m2. apply triple_ret. intros q [Hk2 Hq]. split; [eapply skc_trans; eassumption|].
    exists (XRFail true). split; [exact Hq|reflexivity].
Qed.

(* ---------- the rest of the flow ---------- *)
Definition rbb (rb : reboot) : bool := match rb with RebootNeeded _ => true | RebootNotNeeded => false end.
Definition finok (m : sm) (fin : option (sched * pstate)) : Prop := fin = None \/ fin = Some (m_sched m, m_ps m).
Definition J (m : sm) (q : q4) : Prop := exists fin, S4 (cupb m) Y0 None fin q /\ finok m fin.

Lemma sched_eq_refl s : (if sched_eq_dec s s then true else false) = true.
Proof. destruct (sched_eq_dec s s); [reflexivity|contradiction]. Qed.

Lemma T_start fuel p m :
  T (S4 (cupb m) Y0 None None) (start_update_check fuel p m)
    (fun r q => skc m (fst r) /\ S4 (cupb m) (YAfter (rbb (snd r))) None (Some (m_sched (fst r), m_ps (fst r))) q).
Proof.
  unfold start_update_check. set (C := cupb m).
  eapply triple_bind; [apply T_perform|]. intros [m1 res]; cbn [fst snd]. apply T_pre_l. intro Hk1. fold C.
  eapply triple_bind with
    (R := fun fin q => skc m (fst (fst fin)) /\
                       exists x, S4 C (YExpect tail4 x (rbb (snd fin))) None None q /\ res_ok x (snd (fst fin)) = true).
  { destruct res as [e|[rs rb]].
    - eapply triple_bind with (R := fun mr q => due C (inl e) q /\ skc m (fst mr)).
      { destruct e as [re| |].
        + destruct re; apply triple_ret; auto.
        + kna (neutralM_now step4 Inv4 ign_clock4) as n. apply triple_ret. intros q Hq. split; [exact Hq|exact Hk1].
        + kna (neutralM_now step4 Inv4 ign_clock4) as n. apply triple_ret. intros q Hq. split; [exact Hq|exact Hk1]. }
      intros [m2 reason]; cbn [fst]. apply T_pre_pure. intro Hk2.
      kn (neutralM_report step4 Inv4 (MFailureReason reason) ign_metric4).
      apply triple_ret. intros q (x & Hq & Hx). split; [exact Hk2|]. exists x. split; [exact Hq|exact Hx].
    - kna (neutralM_now step4 Inv4 ign_clock4) as n.
      match goal with |- T _ (bind (report ?x) _) _ => kn (neutralM_report step4 Inv4 x ign_metric4) end.
      eapply triple_bind with (R := fun _ => due C (inr (rs, rb))).
      { destruct (install_success rs); [apply (Pn _ _ (neutralM_report_attempts_install step4 Inv4 _ ign_store4 ign_metric4))|apply triple_ret; auto]. }
      intro. apply triple_ret. intros q (x & Hq & Hx). split; [exact Hk1|]. exists x. cbn [fst snd].
      split; [|exact Hx]. destruct rb; exact Hq. }
  intros [[m2 result] rb]; cbn [fst snd]. apply T_pre_l. intro Hk2.
  apply T_pre_ex. intro x. apply T_pre_pure. intro Hx.
  eapply triple_bind with (R := fun _ => S4 C (YExpect [XProto; XResult] x (rbb rb)) (Some (m_sched m2)) None).
  { temit. stepq. reflexivity. }
  intros _. eapply triple_bind with (R := fun _ => S4 C (YExpect [XResult] x (rbb rb)) None (Some (m_sched m2, m_ps m2))).
  { temit. stepq. reflexivity. }
  intros _. eapply triple_bind with (R := fun _ => S4 C (YAfter (rbb rb)) None (Some (m_sched m2, m_ps m2))).
  { temit. intros q Hq. unfold S4 in Hq. subst q. eexists. split; [cbn; rewrite Hx; reflexivity|reflexivity]. }
  intros _. kn (neutralM_persist_data step4 Inv4 m2 ign_store4).
  apply triple_ret. intros q Hq. split; [exact Hk2|exact Hq].
Qed.

(* the policy's next-time question shows the final state announced with the last result *)
Lemma T_update_next m C ph : (ph = Y0 \/ ph = YReboot) ->
  T (fun q => exists fin, S4 C ph None fin q /\ finok m fin) (update_next_update_time m)
    (fun r q => S4 C ph None None q /\ skc m (fst r)).
Proof.
  intro Hph. unfold update_next_update_time. kna (nM_silent _ silent_pop_next_time) as t.
  eapply triple_bind with (R := fun _ => S4 C ph None None).
  { apply triple_emit. intros q (fin & Hq & [->| ->]); unfold S4 in Hq; subst q; eexists; (split; [|reflexivity]).
    - reflexivity.
    - cbn. destruct (sched_eq_dec (m_sched m) (m_sched m)); [|contradiction].
      destruct (pstate_eq_dec (m_ps m) (m_ps m)); [reflexivity|contradiction]. }
  intros _. eapply triple_bind with (R := fun _ => S4 C ph None None).
  { temit. intros q Hq. unfold S4 in Hq. subst q. eexists. split; [|reflexivity]. destruct Hph as [-> | ->]; reflexivity. }
  intros _. apply triple_ret. intros q Hq. split; [exact Hq|reflexivity].
Qed.

Lemma T_ping m C : T (S4 C YReboot None None) (ping_omaha m) (fun m' q => S4 C YReboot None None q /\ skc m m').
Proof.
  unfold ping_omaha. kn (nM_silent _ silent_fresh_guid). kn (nM_silent _ silent_fresh_guid).
  eapply triple_bind; [apply T_maybe_ids4|]. intro b.
  eapply triple_bind; [apply (T_do_req_other b m C YReboot I)|]. { intros l H. discriminate. }
  intros [m1 res]; cbn [fst snd]. apply T_pre_l. intro Hk.
  assert (Hfail : T (S4 C YReboot None None)
            (persist_data (with_ps m1 (set_fails (m_ps m1) (sat_inc_u32 (ps_fails (m_ps m1)))));;;
             ret (with_ps m1 (set_fails (m_ps m1) (sat_inc_u32 (ps_fails (m_ps m1))))))
            (fun m' q => S4 C YReboot None None q /\ skc m m')).
  { kn (neutralM_persist_data step4 Inv4 (with_ps m1 (set_fails (m_ps m1) (sat_inc_u32 (ps_fails (m_ps m1))))) ign_store4).
    apply triple_ret. intros q Hq. split; [exact Hq|exact Hk]. }
  destruct res as [er|[d|]]; [exact Hfail| |exact Hfail].
  kna (neutralM_now step4 Inv4 ign_clock4) as n.
  eapply triple_bind with (R := fun _ => S4 C YReboot None None).
  { temit. stepq. reflexivity. }
  intros _.
  match goal with |- T _ (bind (persist_data ?x) _) _ => kn (neutralM_persist_data step4 Inv4 x ign_store4) end.
  apply triple_ret. intros q Hq. split; [exact Hq|exact Hk].
Qed.

Lemma T_ask_reboot src P : T P (ask_reboot_allowed src) (fun _ => P).
Proof.
  unfold ask_reboot_allowed. kna (nM_silent _ silent_pop_reboot_allowed) as b.
  kn (nM_emit_b (APolicy (QRebootAllowed src) (PBool b)) eq_refl). apply triple_ret; auto.
Qed.

Lemma T_handle_in_reboot id sc P : T P (handle_in_reboot id sc) (fun _ => P).
Proof.
  unfold handle_in_reboot. kn (nM_emit_b (AReply id AlreadyRunning) eq_refl).
  destruct sc; [apply T_ask_reboot|apply triple_ret; auto].
Qed.

Definition R4 (C : bool) (m0 : sm) (m : sm) (q : q4) : Prop := S4 C YReboot None None q /\ skc m0 m.

Lemma T_reboot_loop C m0 fuel : forall src pending m, skc m0 m ->
  T (S4 C YReboot None None) (reboot_loop fuel src pending m) (R4 C m0).
Proof.
  induction fuel as [|f IH]; intros src pending m Hk; cbn [reboot_loop]; [apply triple_halt|].
  assert (Hret : T (S4 C YReboot None None) (ret m) (R4 C m0)).
  { apply triple_ret. intros q Hq. split; [exact Hq|exact Hk]. }
  kna (nM_silent _ (silent_pop_queued)) as qd. destruct qd as [[id sc]|].
  { eapply triple_bind; [apply T_handle_in_reboot|]. intros [|]; [exact Hret|apply IH; exact Hk]. }
  kna (nM_silent _ silent_pop_stim) as s. destruct s as [i|sc|].
  - assert (Hping : T (S4 C YReboot None None)
              (m1 <- ping_omaha m;; mt <- update_next_update_time m1;;
               (let '(m2, t) := mt in roles <- make_wait t;; reboot_loop f src (remove_nth i pending ++ roles) m2)) (R4 C m0)).
    { eapply triple_bind; [apply T_ping|]. intro m1. apply T_pre_pure. intro Hk1.
      eapply triple_bind.
      { eapply triple_conseq; [apply (T_update_next m1 C YReboot); right; reflexivity| |intros r q H; exact H].
        intros q Hq. exists None. split; [exact Hq|left; reflexivity]. }
      intros [m2 t]; cbn [fst]. apply T_pre_pure. intro Hk2.
      kna (neutralM_make_wait step4 Inv4 t ign_timer4) as roles. apply IH.
      eapply skc_trans; [exact Hk|]. eapply skc_trans; eassumption. }
    destruct (nth_error pending i) as [[| |]|].
    + destruct (has_ping_roles (remove_nth i pending)); [apply IH; exact Hk|exact Hping].
    + destruct (has_ping_roles (remove_nth i pending)); [apply IH; exact Hk|exact Hping].
    + eapply triple_bind; [apply T_ask_reboot|]. intros [|]; [exact Hret|].
      kn (neutralM_emit step4 Inv4 _ (ign_timer4 (WFor REBOOT_INTERVAL_NS))). apply IH; exact Hk.
    + apply IH; exact Hk.
  - kna (nM_silent _ silent_next_ctl) as id.
    kn (nM_emit_b (ARequest id sc) eq_refl).
    eapply triple_bind; [apply T_handle_in_reboot|]. intros [|]; [exact Hret|apply IH; exact Hk].
  - apply IH; exact Hk.
Qed.

Lemma T_wait_for_reboot fuel src m C :
  T (fun q => exists fin, S4 C YReboot None fin q /\ finok m fin) (wait_for_reboot fuel src m)
    (fun m' q => (exists fin, S4 C YReboot None fin q /\ finok m' fin) /\ skc m m').
Proof.
  unfold wait_for_reboot.
  eapply triple_bind; [apply T_ask_reboot|]. intro ok.
  eapply triple_bind with (R := fun m' q => (exists fin, S4 C YReboot None fin q /\ finok m' fin) /\ skc m m').
  { destruct ok; [apply triple_ret; intros q Hq; split; [exact Hq|apply skc_refl]|].
    kn (neutralM_emit step4 Inv4 _ (ign_timer4 (WFor REBOOT_INTERVAL_NS))).
    eapply triple_bind; [apply (T_update_next m C YReboot); right; reflexivity|]. intros [m1 t]; cbn [fst]. apply T_pre_pure. intro Hk1.
    kna (neutralM_make_wait step4 Inv4 t ign_timer4) as roles.
    eapply triple_conseq; [apply (T_reboot_loop C m fuel src (RReboot :: roles) m1 Hk1)|auto|].
    intros m' q [Hq Hk]. split; [|exact Hk]. exists None. split; [exact Hq|left; reflexivity]. }
  intro m1. apply T_pre_pure. intro Hk1. kna (nM_silent _ silent_pop_reboot) as okr.
  kn (nM_emit_b (AInstaller IReboot (IRebooted okr)) eq_refl).
  apply triple_ret. intros q Hq. split; [exact Hq|exact Hk1].
Qed.

Lemma J_of m C fin q : C = cupb m -> S4 C Y0 None fin q -> finok m fin -> J m q.
Proof. intros -> Hq Hf. exists fin. split; assumption. Qed.

Lemma T_run_iteration fuel finish start_mono sr m :
  T (J m) (run_iteration fuel finish start_mono sr m) (fun r q => J (fst r) q /\ skc m (fst r)).
Proof.
  unfold run_iteration. set (C := cupb m).
  eapply triple_bind with (R := fun _ => J m).
  { destruct sr; [|apply triple_ret; auto]. kna (neutralM_now step4 Inv4 ign_clock4) as n.
    match goal with |- T _ (match ?x with Some _ => _ | None => _ end) _ => destruct x end; [|apply triple_ret; auto].
    match goal with |- T _ (bind (report ?x) _) _ => kn (neutralM_report step4 Inv4 x ign_metric4) end.
    kn (neutralM_st_write step4 Inv4 (SRemove K_FINISH_TIME) ign_store4). kn (neutralM_st_write step4 Inv4 (SRemove K_TARGET_VERSION) ign_store4).
    kn (neutralM_st_write step4 Inv4 SCommit ign_store4). apply triple_ret; auto. }
  intro sr'. eapply triple_bind; [apply (T_update_next m C Y0); left; reflexivity|]. intros [m1 t]; cbn [fst]. apply T_pre_pure. intro Hk1.
  assert (HC1 : cupb m1 = C) by (apply skc_cupb; exact Hk1).
  kna (neutralM_make_wait step4 Inv4 t ign_timer4) as roles.
  eapply triple_bind with (R := fun _ => S4 C Y0 None None); [apply (T_do_outer_select step4 roles _ ign_ctl4)|]. intro sel.
  kna (nM_silent _ silent_pop_allowed) as dec.
  match goal with |- T _ (bind (emit ?a) _) _ => kn (nM_emit_b a eq_refl) end.
  assert (Hneg : T (S4 C Y0 None None) (match sel with Some (_, id) => emit (AReply id Throttled) | None => ret tt end;;; ret (m1, sr'))
                   (fun r q => J (fst r) q /\ skc m (fst r))).
  { eapply triple_bind with (R := fun _ => S4 C Y0 None None).
    - destruct sel as [[s id]|]; [apply (Pn _ _ (nM_emit_b (AReply id Throttled) eq_refl))|apply triple_ret; auto].
    - intro. apply triple_ret. intros q Hq. split; [|exact Hk1]. apply (J_of m1 C None); [symmetry; exact HC1|exact Hq|left; reflexivity]. }
  assert (Hpos : forall p, T (S4 C Y0 None None)
            (match sel with Some (_, id) => emit (AReply id Started) | None => ret tt end;;;
             enter_check;;;
             r <- start_update_check fuel p m1;;
             set_incheck false;;;
             upg <- take_upgrade;;
             (let '(m0, rb) := r in
              m2 <- match rb with
                    | RebootNeeded _ => yield_state WaitingForReboot;;; wait_for_reboot fuel (if upg then OnDemand else match sel with Some (s, _) => s | None => ScheduledTask end) m0
                    | RebootNotNeeded => ret m0
                    end;;
              yield_state Idle;;; ret (m2, sr'))) (fun r q => J (fst r) q /\ skc m (fst r))).
  { intro p. eapply triple_bind with (R := fun _ => S4 C Y0 None None).
    { destruct sel as [[s id]|]; [apply (Pn _ _ (nM_emit_b (AReply id Started) eq_refl))|apply triple_ret; auto]. }
    intro. eapply triple_bind with (R := fun _ => S4 C Y0 None None); [apply (T_enter_check step4 _ ign_ctl4)|]. intro.
    eapply triple_bind; [rewrite <- HC1; apply T_start|]. intros [m2 rb]; cbn [fst snd]. apply T_pre_l. intro Hk2. rewrite HC1.
    kn (nM_silent _ (silent_set_incheck false)).
    kna (nM_silent _ silent_take_upgrade) as upg.
    eapply triple_bind with (R := fun m3 q => (exists ph, (ph = YReboot \/ ph = YAfter false) /\ exists fin, S4 C ph None fin q /\ finok m3 fin) /\ skc m2 m3).
    { destruct rb as [plan|]; cbn [rbb].
      - eapply triple_bind with (R := fun _ q => exists fin, S4 C YReboot None fin q /\ finok m2 fin).
        { temit. stepq. eexists. split; [reflexivity|right; reflexivity]. }
        intros _. eapply triple_conseq; [apply (T_wait_for_reboot fuel _ m2 C)|intros q Hq; exact Hq|].
        intros m3 q [Hq Hk3]. split; [|exact Hk3]. exists YReboot. split; [left; reflexivity|exact Hq].
      - apply triple_ret. intros q Hq. split; [|apply skc_refl]. exists (YAfter false). split; [right; reflexivity|].
        eexists. split; [exact Hq|right; reflexivity]. }
    intro m3. apply T_pre_pure. intro Hk3.
    eapply triple_bind with (R := fun _ q => exists fin, S4 C Y0 None fin q /\ finok m3 fin).
    { temit. intros q (ph & Hph & fin & Hq & Hf). unfold S4 in Hq. subst q. eexists. split.
      - destruct Hph as [-> | ->]; reflexivity.
      - exists fin. split; [reflexivity|exact Hf]. }
    intros _. apply triple_ret. intros q (fin & Hq & Hf).
    assert (Hkm3 : skc m m3) by (eapply skc_trans; [exact Hk1|]; eapply skc_trans; eassumption).
    split; [|exact Hkm3]. apply (J_of m3 C fin); [symmetry; apply skc_cupb; exact Hkm3|exact Hq|exact Hf]. }
  destruct dec; [apply Hpos|apply Hpos|exact Hneg|exact Hneg|exact Hneg].
Qed.

Lemma T_run_loop iters : forall fuel finish start_mono sr m,
  T (J m) (run_loop iters fuel finish start_mono sr m) (fun _ _ => True).
Proof.
  induction iters as [|k IH]; intros; cbn [run_loop]; [apply triple_halt|].
  eapply triple_bind; [apply T_run_iteration|]. intros [m' sr']; cbn [fst].
  eapply triple_conseq; [apply IH| |auto]. intros q [Hq _]. exact Hq.
Qed.

Lemma T_run iters fuel m : T (J m) (run iters fuel m) (fun _ _ => True).
Proof.
  unfold run. destruct (negb (forallb app_valid (m_apps m))); [apply triple_ret; auto|].
  kn (neutralM_now step4 Inv4 ign_clock4). kn (nM_silent _ (silent_st_get_time K_FINISH_TIME)).
  kn (nM_silent _ (silent_st_get_str K_TARGET_VERSION)). apply T_run_loop.
Qed.

Lemma T_oneshot fuel m : T (S4 (cupb m) Y0 None None) (oneshot fuel m) (fun _ _ => True).
Proof. unfold oneshot. eapply triple_bind; [apply T_start|]. intros [m' rb]. apply triple_ret. auto. Qed.

Theorem model_accepted_c04 ep cfg url cup apps e :
  e_trace e = [] -> accepts step4 (init4 cup) (run_case ep cfg url cup apps e) = true.
Proof.
  intro Ht. unfold run_case, accepts.
  set (m := build cfg url cup apps (e_store e)).
  assert (HS : S4 (cupb m) Y0 None None (init4 cup)).
  { unfold S4, init4, cupb, m, build. destruct (ctx_load (pend (e_store e))) as [sc ps]. reflexivity. }
  destruct ep.
  - destruct (T_run (Datatypes.S (length (e_stim e) + length (c_inject (e_cs e)))) (4 + length (e_stim e) + length (c_inject (e_cs e))) m (init4 cup) e (init4 cup)) as (q' & Hq' & _).
    + unfold mst. rewrite Ht. reflexivity.
    + exists None. split; [exact HS|left; reflexivity].
    + destruct (run _ _ m e) as [r e'] eqn:E. cbn [snd] in Hq'. unfold mst in Hq'. rewrite Hq'. reflexivity.
  - destruct (T_oneshot (4 + length (e_stim e) + length (c_inject (e_cs e))) m (init4 cup) e (init4 cup)) as (q' & Hq' & _).
    + unfold mst. rewrite Ht. reflexivity.
    + exact HS.
    + destruct (oneshot _ m e) as [r e'] eqn:E. cbn [snd] in Hq'. unfold mst in Hq'. rewrite Hq'. reflexivity.
Qed.
