(* Proofs/VersionFacts.v — lemmas behind Props/C20.v *)
Require Import Verif.Base.Bytes Verif.Proofs.BytesFacts Verif.Model.Version.
Open Scope N_scope.

Definition u32 (n : N) : Prop := n < 2 ^ 32.
Definition part_ok (p : bytes) (n : N) : Prop := numeral (2 ^ 32) p n.

Lemma part_ok_iff p n : parse_u32 p = Some n <-> part_ok p n.
Proof. apply parse_unsigned_iff. Qed.

Lemma part_ok_no_dot p n : part_ok p n -> no_sep dot p.
Proof.
  intros (ds & Hs & _ & Had & _) Hin.
  assert (Hd : In dot ds).
  { destruct Hs as [->| ->]; [assumption|]. destruct Hin as [H|H]; [discriminate H|assumption]. }
  unfold all_digits in Had. rewrite forallb_forall in Had. specialize (Had _ Hd). discriminate.
Qed.

(* ---- the parts loop ---- *)
Lemma parse_parts_ok parts :
  forall ns i acc,
    Forall2 part_ok parts ns -> (i + length parts <= 4)%nat ->
    parse_parts i parts acc = inr (rev acc ++ ns).
Proof.
  induction parts as [|p ps IH]; intros ns i acc HF Hlen; inversion HF; subst.
  - cbn [parse_parts]. rewrite app_nil_r. reflexivity.
  - cbn [parse_parts]. cbn [length] in Hlen.
    destruct (Nat.leb 4 i) eqn:E; [apply Nat.leb_le in E; lia|].
    match goal with H : part_ok p _ |- _ => apply part_ok_iff in H; rewrite H end.
    erewrite IH; [|eassumption|lia].
    cbn [rev]. rewrite <- app_assoc. reflexivity.
Qed.

Lemma parse_parts_inr parts :
  forall i acc l,
    parse_parts i parts acc = inr l ->
    exists ns, l = rev acc ++ ns /\ Forall2 part_ok parts ns /\
               (parts = [] \/ (i + length parts <= 4)%nat).
Proof.
  induction parts as [|p ps IH]; intros i acc l H; cbn [parse_parts] in H.
  - inversion H; subst. exists []. rewrite app_nil_r. repeat split; [constructor|left; reflexivity].
  - destruct (Nat.leb 4 i) eqn:E; [discriminate|]. apply Nat.leb_gt in E.
    destruct (parse_u32 p) as [n|] eqn:Hp; [|discriminate].
    apply IH in H as (ns & -> & HF & Hl).
    exists (n :: ns). split; [cbn [rev]; rewrite <- app_assoc; reflexivity|].
    split; [constructor; [apply part_ok_iff; assumption|assumption]|].
    right. cbn [length]. destruct Hl as [->|Hl]; cbn [length]; lia.
Qed.

Lemma parse_parts_too_many parts :
  forall i acc, (4 < i + length parts)%nat -> parts <> [] ->
    exists e, parse_parts i parts acc = inl e.
Proof.
  induction parts as [|p ps IH]; intros i acc Hlen Hne; [congruence|].
  cbn [parse_parts]. destruct (Nat.leb 4 i) eqn:E; [eexists; reflexivity|].
  apply Nat.leb_gt in E.
  destruct (parse_u32 p); [|eexists; reflexivity].
  cbn [length] in Hlen. apply IH; [lia|]. destruct ps; [cbn [length] in Hlen; lia|discriminate].
Qed.

Lemma parse_parts_bad parts :
  forall i acc, (exists p, In p parts /\ parse_u32 p = None) ->
    exists e, parse_parts i parts acc = inl e.
Proof.
  induction parts as [|p ps IH]; intros i acc (q & Hin & Hq); [destruct Hin|].
  cbn [parse_parts]. destruct (Nat.leb 4 i); [eexists; reflexivity|].
  destruct Hin as [->|Hin].
  - rewrite Hq. eexists; reflexivity.
  - destruct (parse_u32 p); [|eexists; reflexivity]. apply IH. exists q. tauto.
Qed.

(* ---- parse: both directions ---- *)
Lemma parse_accepts parts ns :
  (1 <= length parts <= 4)%nat -> Forall2 part_ok parts ns ->
  parse (join_with dot parts) = Some (fill ns).
Proof.
  intros Hlen HF. unfold parse, parse_res.
  rewrite split_join.
  - rewrite (parse_parts_ok parts ns 0 []); [reflexivity|assumption|lia].
  - destruct parts; [cbn in Hlen; lia|discriminate].
  - clear Hlen. induction HF; constructor; [eapply part_ok_no_dot; eassumption|assumption].
Qed.

Lemma parse_only s v :
  parse s = Some v ->
  exists parts ns, s = join_with dot parts /\ (1 <= length parts <= 4)%nat /\
                   Forall2 part_ok parts ns /\ v = fill ns.
Proof.
  unfold parse, parse_res. intro H.
  destruct (parse_parts 0 (split_on dot s) []) as [e|l] eqn:Hp; [discriminate|].
  inversion H; subst v.
  apply parse_parts_inr in Hp as (ns & -> & HF & Hl).
  exists (split_on dot s), ns. split; [symmetry; apply join_split|].
  pose proof (split_on_nonempty dot s) as Hne.
  split; [|split; [assumption|reflexivity]].
  destruct Hl as [Hl|Hl]; [congruence|].
  destruct (split_on dot s); [congruence|cbn [length] in *; lia].
Qed.

Lemma parse_none_iff s :
  parse s = None <->
  (4 < length (split_on dot s))%nat \/ exists p, In p (split_on dot s) /\ parse_u32 p = None.
Proof.
  split.
  - intro H.
    destruct (Nat.ltb 4 (length (split_on dot s))) eqn:E; [apply Nat.ltb_lt in E; left; exact E|].
    apply Nat.ltb_ge in E. right.
    (* otherwise every part parsing would make parse succeed *)
    assert (Hdec : (exists p, In p (split_on dot s) /\ parse_u32 p = None) \/
                   (forall p, In p (split_on dot s) -> parse_u32 p <> None)).
    { generalize (split_on dot s) as l. induction l as [|p l IH].
      - right. intros p [].
      - destruct (parse_u32 p) eqn:Hp.
        + destruct IH as [(q & Hq & Hn)|IH].
          * left. exists q. split; [right; assumption|assumption].
          * right. intros q [->|Hq]; [congruence|apply IH; assumption].
        + left. exists p. split; [left; reflexivity|assumption]. }
    destruct Hdec as [Hd|Hall]; [exact Hd|exfalso].
    assert (exists ns, Forall2 part_ok (split_on dot s) ns) as (ns & HF).
    { revert Hall. generalize (split_on dot s) as l. induction l as [|p l IH]; intro Hall.
      - exists []. constructor.
      - destruct (parse_u32 p) as [n|] eqn:Hp; [|exfalso; eapply Hall; [left; reflexivity|assumption]].
        destruct IH as (ns & HF); [intros q Hq; apply Hall; right; assumption|].
        exists (n :: ns). constructor; [apply part_ok_iff; assumption|assumption]. }
    pose proof (split_on_nonempty dot s) as Hne.
    assert (Hok : parse (join_with dot (split_on dot s)) = Some (fill ns)).
    { apply parse_accepts; [|assumption]. destruct (split_on dot s); [congruence|cbn [length] in *; lia]. }
    rewrite join_split in Hok. congruence.
  - intros [Hlen|Hbad]; unfold parse, parse_res.
    + destruct (parse_parts_too_many (split_on dot s) 0 []) as (e & ->); [lia|apply split_on_nonempty|reflexivity].
    + destruct (parse_parts_bad (split_on dot s) 0 [] Hbad) as (e & ->). reflexivity.
Qed.

(* ---- print ---- *)
Lemma print_is_join v :
  let '(a, b, c, d) := v in
  print v = join_with dot [print_dec a; print_dec b; print_dec c; print_dec d].
Proof.
  destruct v as [[[a b] c] d]. reflexivity.
Qed.

Lemma print_dec_part_ok n : u32 n -> part_ok (print_dec n) n.
Proof.
  intro H. apply part_ok_iff. apply parse_print_dec. assumption.
Qed.

Lemma parse_print v : wf v -> parse (print v) = Some v.
Proof.
  destruct v as [[[a b] c] d]. intros (Ha & Hb & Hc & Hd).
  pose proof (print_is_join (a, b, c, d)) as H. cbv beta iota in H. rewrite H.
  rewrite (parse_accepts _ [a; b; c; d]).
  - reflexivity.
  - cbn [length]. lia.
  - repeat constructor; apply print_dec_part_ok; assumption.
Qed.

(* ---- ordering ---- *)
Definition lex_lt (x y : version) : Prop :=
  let '(a, b, c, d) := x in
  let '(a', b', c', d') := y in
  a < a' \/ (a = a' /\ (b < b' \/ (b = b' /\ (c < c' \/ (c = c' /\ d < d'))))).

Lemma cmp_eq_iff x y : cmp x y = Eq <-> x = y.
Proof.
  destruct x as [[[a b] c] d], y as [[[a' b'] c'] d']. unfold cmp.
  destruct (N.compare_spec a a'), (N.compare_spec b b'), (N.compare_spec c c'), (N.compare_spec d d');
    split; intro Hx; try discriminate; try (inversion Hx; subst; lia); try (subst; reflexivity).
Qed.

Lemma cmp_lt_iff x y : cmp x y = Lt <-> lex_lt x y.
Proof.
  destruct x as [[[a b] c] d], y as [[[a' b'] c'] d']. unfold cmp, lex_lt.
  destruct (N.compare_spec a a'), (N.compare_spec b b'), (N.compare_spec c c'), (N.compare_spec d d');
    split; intro Hx; try discriminate; try reflexivity; try lia.
Qed.

Lemma cmp_antisym x y : cmp y x = CompOpp (cmp x y).
Proof.
  destruct x as [[[a b] c] d], y as [[[a' b'] c'] d']. unfold cmp.
  rewrite (N.compare_antisym a a'), (N.compare_antisym b b'), (N.compare_antisym c c'), (N.compare_antisym d d').
  destruct (a ?= a'), (b ?= b'), (c ?= c'), (d ?= d'); reflexivity.
Qed.

Lemma lex_lt_trans x y z : lex_lt x y -> lex_lt y z -> lex_lt x z.
Proof.
  destruct x as [[[a b] c] d], y as [[[a' b'] c'] d'], z as [[[a'' b''] c''] d''].
  unfold lex_lt. lia.
Qed.

Lemma lex_total x y : lex_lt x y \/ x = y \/ lex_lt y x.
Proof.
  destruct x as [[[a b] c] d], y as [[[a' b'] c'] d']. unfold lex_lt.
  destruct (N.lt_trichotomy a a') as [|[->|]]; [lia| |lia].
  destruct (N.lt_trichotomy b b') as [|[->|]]; [lia| |lia].
  destruct (N.lt_trichotomy c c') as [|[->|]]; [lia| |lia].
  destruct (N.lt_trichotomy d d') as [|[->|]]; [lia| |lia].
  right. left. reflexivity.
Qed.

(* ---- JSON ---- *)
Lemma canonical_dec_plain n ds :
  canonical_dec n ds ->
  forallb (fun c => negb (c =? 34) && negb (c =? 92) && (32 <=? c) && (c <? 128)) ds = true.
Proof.
  intros (_ & Had & _). unfold all_digits in Had. rewrite forallb_forall in *.
  intros c Hc. specialize (Had c Hc). unfold is_digit in Had.
  apply andb_true_iff in Had as [H1 H2]. apply N.leb_le in H1, H2.
  repeat (apply andb_true_iff; split).
  - apply negb_true_iff, N.eqb_neq. lia.
  - apply negb_true_iff, N.eqb_neq. lia.
  - apply N.leb_le. lia.
  - apply N.ltb_lt. lia.
Qed.

Lemma print_plain v :
  forallb (fun c => negb (c =? 34) && negb (c =? 92) && (32 <=? c) && (c <? 128)) (print v) = true.
Proof.
  destruct v as [[[a b] c] d]. unfold print.
  repeat (rewrite forallb_app || cbn [forallb]).
  rewrite !(canonical_dec_plain _ _ (print_dec_canonical _)). reflexivity.
Qed.

Lemma simple_json_string_quote s :
  forallb (fun c => negb (c =? 34) && negb (c =? 92) && (32 <=? c) && (c <? 128)) s = true ->
  simple_json_string (quote :: s ++ [quote]) = Some s.
Proof.
  intro H. unfold simple_json_string, quote.
  rewrite rev_app_distr. cbn [rev app]. rewrite rev_involutive, H. reflexivity.
Qed.

Lemma of_to_json v : wf v -> of_json (to_json v) = Some v.
Proof.
  intro H. unfold of_json, to_json.
  rewrite simple_json_string_quote by apply print_plain.
  apply parse_print. assumption.
Qed.
