(* Proofs/C09Proof.v — every model trace is accepted by the cohort / user-counting monitor step9 *)
Require Import Verif.Model.Time Verif.Base.Bytes Verif.Proofs.BytesFacts Verif.Model.Version Verif.Model.Json Verif.Model.Proto
               Verif.Model.Request Verif.Proofs.RequestFacts Verif.Model.Env Verif.Model.SM Verif.Model.Monitors
               Verif.Proofs.Monitor Verif.Proofs.MonGeneric Verif.Proofs.SMPure Verif.Proofs.C10Pure.
Open Scope Z_scope.

Notation T := (triple step9).
Definition Inv9 (q : q9) : Prop := todo9 q = [].
Notation nM := (neutralM step9 Inv9).

Definition cupb (m : sm) : bool := match m_cup m with Some _ => true | None => false end.
Definition skm (m m' : sm) : Prop := m_apps m' = m_apps m /\ m_cup m' = m_cup m.
Lemma skm_refl m : skm m m. Proof. split; reflexivity. Qed.
Lemma skm_trans a b c : skm a b -> skm b c -> skm a c.
Proof. intros [H1 H2] [H3 H4]. split; congruence. Qed.

Definition S9 (C i : bool) (A : list app) (td : list ob9) (q : q9) : Prop :=
  q = {| cup9 := C; in9 := i; apps9 := A; todo9 := td |}.
Definition J (m : sm) : q9 -> Prop := S9 (cupb m) false (m_apps m) [].
Lemma J_skm m m' q : skm m m' -> J m q -> J m' q.
Proof. intros [H1 H2] H. unfold J, cupb in *. rewrite H1, H2. exact H. Qed.

Definition idle9 (a : action) : Prop :=
  match a with
  | AEvent (EvState (CheckingForUpdates _)) | AEvent (EvResult _) | AHttp _ _
  | APolicy (QNextTime _ _ _) _ | APolicy (QCheckAllowed _ _ _ _) _ => False
  | _ => True
  end.
Lemma step9_idle q a : todo9 q = [] -> idle9 a -> step9 q a = Some q.
Proof.
  intros H Ha.
  destruct a as [ev|pq ans|w o|c ans|c|w|op ok|mt|id src|id r]; try contradiction; unfold step9; try rewrite H; try reflexivity.
  - destruct ev as [s| | | | | |]; try contradiction; try rewrite H; try reflexivity. destruct s; try contradiction; reflexivity.
  - destruct pq; try contradiction; reflexivity.
Qed.

Lemma ign_store9 : ign_store step9 Inv9. Proof. intros op ok q H. apply step9_idle; [exact H|exact I]. Qed.
Lemma ign_clock9 : ign_clock step9 Inv9. Proof. intros c q H. reflexivity. Qed.
Lemma ign_metric9 : ign_metric step9 Inv9. Proof. intros c q H. reflexivity. Qed.
Lemma ign_timer9 w : neutral step9 Inv9 (ATimer w). Proof. intros q H. reflexivity. Qed.
Lemma ign_ctl9 : ign_ctl step9. Proof. split; intros; reflexivity. Qed.

Lemma S9_inv C i A q : S9 C i A [] q -> Inv9 q.
Proof. intros ->. reflexivity. Qed.
Lemma Pn {A} C i L (m : M A) : nM m -> T (S9 C i L []) m (fun _ => S9 C i L []).
Proof. intro H. apply (H (S9 C i L [])). apply S9_inv. Qed.
Ltac kn H := eapply triple_bind; [apply (Pn _ _ _ _ H)|intro].
Tactic Notation "kna" constr(H) "as" ident(x) := eapply triple_bind; [apply (Pn _ _ _ _ H)|intro x].
Lemma nM_emit_idle a : idle9 a -> nM (emit a).
Proof. intro Ha. apply neutralM_emit. intros q H. apply step9_idle; assumption. Qed.
Lemma nM_yield_idle ev : idle9 (AEvent ev) -> nM (yield_ ev).
Proof. intro H. apply neutralM_yield; [apply ign_ctl9|]. intros q Hq. apply step9_idle; assumption. Qed.
Lemma nM_silent {A} (m : M A) : silent m -> nM m.
Proof. apply neutralM_silent. Qed.
Lemma T_pre_l {A} (P : q9 -> Prop) (phi : Prop) (m : M A) Q : (phi -> T P m Q) -> T (fun q => phi /\ P q) m Q.
Proof. intros H q0 e q Hq [Hphi Hp]. exact (H Hphi q0 e q Hq Hp). Qed.
Ltac brep := match goal with |- T _ (report ?x) _ => apply (Pn _ _ _ _ (neutralM_report step9 Inv9 x ign_metric9)) end.
Ltac temit := first [apply triple_emit | apply (T_yield step9 _ _ _ ign_ctl9) | (unfold yield_state; apply (T_yield step9 _ _ _ ign_ctl9))].
Ltac stepq := intros q Hq; unfold S9 in Hq; subst q; eexists; split; [cbn; reflexivity|].

(* ---------- requests carry the current values ---------- *)
Lemma first_ids_in ops : forall seen a, In a (first_ids ops seen) -> exists o, In o ops /\ op_app o = a.
Proof.
  induction ops as [|o r IH]; intros seen a H; [contradiction|].
  rewrite first_ids_cons in H. destruct (mem (oid o) seen).
  - destruct (IH _ _ H) as (o' & Ho & Ha). exists o'. split; [right; exact Ho|exact Ha].
  - destruct H as [<-|H]; [exists o; split; [left; reflexivity|reflexivity]|].
    destruct (IH _ _ H) as (o' & Ho & Ha). exists o'. split; [right; exact Ho|exact Ha].
Qed.

Lemma oN_eqb_refl o : oN_eqb o o = true.
Proof. destruct o; cbn; [apply N.eqb_refl|reflexivity]. Qed.

Lemma req_current_ops p ops L w :
  (forall o, In o ops -> In (op_app o) L) ->
  ws_apps (w_sum w) = map wa_of (fold_left (apply_op p) ops []) -> req_current L w = true.
Proof.
  intros Hin Hw. unfold req_current. rewrite Hw, build_refines_spec. apply forallb_forall. intros wa Hwa.
  apply in_map_iff in Hwa. destruct Hwa as (e & <- & He). unfold spec_entries in He. apply in_map_iff in He.
  destruct He as (a & <- & Ha). destruct (first_ids_in _ _ _ Ha) as (o & Ho & <-).
  unfold wa_current. apply existsb_exists. exists (op_app o). split; [apply Hin; exact Ho|].
  cbn [wa_of spec_entry e_app wa_id wa_cohort wa_ping e_ping]. rewrite bytes_eqb_refl.
  destruct (cohort_eq_dec (a_cohort (op_app o)) (a_cohort (op_app o))); [|contradiction]. cbn [andb].
  match goal with |- match (if ?c then _ else _) with _ => _ end = true => destruct c end; [|reflexivity].
  rewrite oN_eqb_refl. reflexivity.
Qed.

Lemma same_core_apps b b' : same_core b b' -> ws_apps (summary_of b') = ws_apps (summary_of b).
Proof. intros (_ & He & _). rewrite !ws_apps_summary, He. reflexivity. Qed.

Definition wire_of (uri : bytes) (m : sm) (b : builder) : wire :=
  {| w_uri := uri; w_headers := headers_of (m_cfg m) b; w_body := body_of (m_cfg m) b; w_sum := summary_of b |}.

(* stores and protocol-state announcements while nothing, or only the schedule announcement, is owed *)
Definition quiet9 (td : list ob9) : Prop := match td with [] | ObS :: _ => True | _ => False end.
Lemma step9_store_quiet C i L td op ok : quiet9 td ->
  step9 {| cup9 := C; in9 := i; apps9 := L; todo9 := td |} (AStore op ok) = Some {| cup9 := C; in9 := i; apps9 := L; todo9 := td |}.
Proof. intro H. destruct td as [|[| |] r]; try contradiction; reflexivity. Qed.
Lemma step9_proto_quiet C i L td ps : quiet9 td ->
  step9 {| cup9 := C; in9 := i; apps9 := L; todo9 := td |} (AEvent (EvProtocol ps)) = Some {| cup9 := C; in9 := i; apps9 := L; todo9 := td |}.
Proof. intro H. destruct td as [|[| |] r]; try contradiction; reflexivity. Qed.

Lemma T_write_quiet C i L td op : quiet9 td -> T (S9 C i L td) (st_write op) (fun _ => S9 C i L td).
Proof. intro H. apply triple_st_write. intros q ok ->. eexists. split; [apply step9_store_quiet; exact H|reflexivity]. Qed.
Lemma T_set_opt_quiet C i L td k v : quiet9 td -> T (S9 C i L td) (st_set_option_int k v) (fun _ => S9 C i L td).
Proof. intro H. unfold st_set_option_int. destruct v; apply T_write_quiet; exact H. Qed.
Lemma T_ctx_persist_quiet C i L td sc ps : quiet9 td -> T (S9 C i L td) (ctx_persist sc ps) (fun _ => S9 C i L td).
Proof.
  intro H. unfold ctx_persist. repeat (eapply triple_bind; [apply T_set_opt_quiet; exact H|intro]). apply triple_ret. auto.
Qed.

Lemma T_poll_update C i L td m poll : quiet9 td ->
  T (S9 C i L td)
    (if oZ_eqb (ps_poll (m_ps m)) poll then ret m
     else let m1 := with_ps m (set_poll (m_ps m) poll) in
          yield_ (EvProtocol (m_ps m1));;; ctx_persist (m_sched m1) (m_ps m1);;; st_write SCommit;;; ret m1)
    (fun m' q => S9 C i L td q /\ skm m m').
Proof.
  intro Hq. destruct (oZ_eqb (ps_poll (m_ps m)) poll).
  - apply triple_ret. intros q H. split; [exact H|apply skm_refl].
  - cbv zeta. eapply triple_bind with (R := fun _ => S9 C i L td).
    { temit. intros q ->. eexists. split; [apply step9_proto_quiet; exact Hq|reflexivity]. }
    intro. eapply triple_bind; [apply T_ctx_persist_quiet; exact Hq|]. intro.
    eapply triple_bind; [apply T_write_quiet; exact Hq|]. intro.
    apply triple_ret. intros q H. split; [exact H|split; reflexivity].
Qed.

(* a request inside a check *)
Lemma T_do_req_in b m C L :
  req_current L (wire_of [] m b) = true ->
  T (S9 C true L []) (do_omaha_request b m) (fun r q => skm m (fst r) /\ S9 C true L [] q).
Proof.
  intro Hreq. unfold do_omaha_request.
  destruct (negb (u_valid (m_url m))).
  { apply triple_ret. intros q Hq. split; [apply skm_refl|exact Hq]. }
  destruct (negb (headers_ok (m_cfg m) b)).
  { eapply triple_bind with (R := fun _ => S9 C true L []).
    - destruct (m_cup m); [|apply triple_ret; auto]. kn (nM_silent _ silent_fresh_nonce). apply triple_ret; auto.
    - intro. apply triple_ret. intros q Hq. split; [apply skm_refl|exact Hq]. }
  eapply triple_bind with (R := fun _ => S9 C true L []).
  { destruct (m_cup m); [|apply triple_ret; auto]. kn (nM_silent _ silent_fresh_nonce). apply triple_ret; auto. }
  intro uri. kna (nM_silent _ silent_pop_http) as o.
  eapply triple_bind with (R := fun _ => S9 C true L []).
  { apply triple_emit. intros q ->. eexists. split; [|reflexivity]. unfold step9. cbn [todo9 in9 apps9 cup9].
    unfold req_current in *. cbn [w_sum wire_of] in *. rewrite Hreq. reflexivity. }
  intros _. destruct o as [k|status ra au bd].
  - apply triple_ret. intros q Hq. split; [apply skm_refl|exact Hq].
  - destruct (match m_cup m with Some _ => negb au | None => false end).
    + apply triple_ret. intros q Hq. split; [apply skm_refl|exact Hq].
    + eapply triple_bind; [apply (T_poll_update C true L [] m (parse_retry_after ra) I)|].
      intro m'. apply T_pre_pure. intro Hk.
      destruct ((200 <=? status) && (status <? 300))%N; apply triple_ret; intros q Hq; (split; [exact Hk|exact Hq]).
Qed.

(* a ping: a usable document updates the app set and makes the announcement and the writes due *)
Definition upd (L : list app) (d : doc) : list app := update_from_omaha L (make_app_responses d ANoUpdate).
Definition after_ping (C : bool) (L : list app) (res : req_err + body) (q : q9) : Prop :=
  match res with
  | inr (BDoc d) => S9 C false (upd L d) (ObS :: writes9 (upd L d)) q
  | _ => S9 C false L [] q
  end.

Lemma T_do_req_ping b m L :
  req_current L (wire_of [] m b) = true ->
  T (S9 (cupb m) false L []) (do_omaha_request b m) (fun r q => skm m (fst r) /\ after_ping (cupb m) L (snd r) q).
Proof.
  intro Hreq. unfold do_omaha_request. set (C := cupb m).
  destruct (negb (u_valid (m_url m))).
  { apply triple_ret. intros q Hq. split; [apply skm_refl|exact Hq]. }
  destruct (negb (headers_ok (m_cfg m) b)).
  { eapply triple_bind with (R := fun _ => S9 C false L []).
    - destruct (m_cup m); [|apply triple_ret; auto]. kn (nM_silent _ silent_fresh_nonce). apply triple_ret; auto.
    - intro. apply triple_ret. intros q Hq. split; [apply skm_refl|exact Hq]. }
  eapply triple_bind with (R := fun _ => S9 C false L []).
  { destruct (m_cup m); [|apply triple_ret; auto]. kn (nM_silent _ silent_fresh_nonce). apply triple_ret; auto. }
  intro uri. kna (nM_silent _ silent_pop_http) as o.
  eapply triple_bind with
    (R := fun _ q => match usable C (Some o) with Some (BDoc d) => S9 C false (upd L d) (ObS :: writes9 (upd L d)) q | _ => S9 C false L [] q end).
  { apply triple_emit. intros q ->. unfold req_current in Hreq. cbn [w_sum wire_of] in Hreq.
    destruct (usable C (Some o)) as [[d|]|] eqn:Eu; eexists;
      (split; [unfold step9; cbn [todo9 in9 apps9 cup9]; unfold req_current; cbn [w_sum]; rewrite Hreq, Eu; reflexivity|reflexivity]). }
  intros _. destruct o as [k|status ra au bd].
  - apply triple_ret. cbn [usable]. intros q Hq. split; [apply skm_refl|exact Hq].
  - destruct (match m_cup m with Some _ => negb au | None => false end) eqn:Ef.
    + assert (Hu : usable C (Some (HResp status ra au bd)) = None).
      { unfold usable, C, cupb. destruct (m_cup m); [|discriminate]. destruct au; [discriminate|reflexivity]. }
      rewrite Hu. apply triple_ret. intros q Hq. split; [apply skm_refl|exact Hq].
    + assert (Hu : usable C (Some (HResp status ra au bd)) = if is_2xx status then Some bd else None).
      { unfold usable, C, cupb. destruct (m_cup m); [destruct au; [reflexivity|discriminate]|reflexivity]. }
      rewrite Hu. unfold is_2xx. destruct ((200 <=? status) && (status <? 300))%N.
      * destruct bd as [d|].
        -- eapply triple_bind; [apply (T_poll_update C false (upd L d) (ObS :: writes9 (upd L d)) m (parse_retry_after ra) I)|].
           intro m'. apply triple_ret. intros q [Hq Hk]. split; [exact Hk|exact Hq].
        -- eapply triple_bind; [apply (T_poll_update C false L [] m (parse_retry_after ra) I)|].
           intro m'. apply triple_ret. intros q [Hq Hk]. split; [exact Hk|exact Hq].
      * eapply triple_bind; [apply (T_poll_update C false L [] m (parse_retry_after ra) I)|].
        intro m'. apply triple_ret. intros q [Hq Hk]. split; [exact Hk|exact Hq].
Qed.

(* ---------- persist_data discharges the writes ---------- *)
Lemma T_app_writes C i L : forall l,
  T (S9 C i L (map (fun a => ObW (a_id a) (persisted_json a)) l ++ [ObC]))
    (iterM (fun a => st_write (SSetStr (a_id a) (persisted_json a));;; ret tt) l) (fun _ => S9 C i L [ObC]).
Proof.
  induction l as [|a l IH]; cbn [map List.app iterM]; [apply triple_ret; auto|].
  eapply triple_bind with (R := fun _ => S9 C i L (map (fun a => ObW (a_id a) (persisted_json a)) l ++ [ObC])); [|intros []; exact IH].
  eapply triple_bind with (R := fun _ => S9 C i L (map (fun a => ObW (a_id a) (persisted_json a)) l ++ [ObC])); [|intro; apply triple_ret; auto].
  apply triple_st_write. intros q ok ->. eexists. split; [|reflexivity]. cbn. rewrite !bytes_eqb_refl. reflexivity.
Qed.

Lemma T_ctx_persist_w C i L td sc ps : td <> [] -> (forall r, td <> ObS :: r) ->
  T (S9 C i L td) (ctx_persist sc ps) (fun _ => S9 C i L td).
Proof.
  intros Hne Hns. unfold ctx_persist.
  assert (Hw : forall k v, T (S9 C i L td) (st_set_option_int k v) (fun _ => S9 C i L td)).
  { intros k v. unfold st_set_option_int. destruct v; apply triple_st_write; intros q ok ->; eexists; (split; [|reflexivity]);
      destruct td as [|[| |] r]; try contradiction; try reflexivity; exfalso; eapply Hns; reflexivity. }
  repeat (eapply triple_bind; [apply Hw|intro]). apply triple_ret. auto.
Qed.

Lemma T_persist_writes C i m :
  T (S9 C i (m_apps m) (writes9 (m_apps m))) (persist_data m) (fun _ => S9 C i (m_apps m) []).
Proof.
  unfold persist_data, writes9.
  eapply triple_bind.
  { apply T_ctx_persist_w.
    - destruct (m_apps m); discriminate.
    - intros r. destruct (m_apps m); discriminate. }
  intro. eapply triple_bind; [apply T_app_writes|]. intro.
  eapply triple_bind with (R := fun _ => S9 C i (m_apps m) []); [|intro; apply triple_ret; auto].
  apply triple_st_write. intros q ok ->. eexists. split; reflexivity.
Qed.

Lemma T_maybe_ids9 (c : bool) b s r P : T P (if c then with_ids b s r else ret b) (fun b' q => P q /\ same_core b b').
Proof. apply T_maybe_ids. Qed.

(* ---------- reports inside a check ---------- *)
Lemma report_ops_in ev apps nv dur o : In o (report_ops ev apps nv dur) -> In (op_app o) apps.
Proof.
  intro H. assert (Hm : In (op_app o) (map op_app (report_ops ev apps nv dur))) by (apply in_map; exact H).
  rewrite report_ops_apps in Hm. apply filter_In in Hm. exact (proj1 Hm).
Qed.

Lemma T_report_event p ev apps sess nv dur m C L :
  (forall a, In a apps -> In a L) ->
  T (S9 C true L []) (report_event p ev apps sess nv dur m) (fun m' q => skm m m' /\ S9 C true L [] q).
Proof.
  intro Hsub. unfold report_event. kn (nM_silent _ silent_fresh_guid).
  eapply triple_bind; [apply T_maybe_ids9|]. intro b. apply T_pre_pure. intro Hcore.
  eapply triple_bind.
  { apply (T_do_req_in b m C L). apply (req_current_ops p (report_ops ev apps nv dur)).
    - intros o Ho. apply Hsub. eapply report_ops_in. exact Ho.
    - unfold wire_of. cbn [w_sum]. rewrite (same_core_apps _ _ Hcore). reflexivity. }
  intros [m' [e|bd]]; cbn [fst snd].
  - apply T_pre_l. intro Hk. eapply triple_bind with (R := fun _ => S9 C true L []); [brep|].
    intro. apply triple_ret. auto.
  - apply triple_ret. auto.
Qed.

Lemma uc_ops_in (apps : list app) o :
  In o (flat_map (fun a => [OpUpdateCheck a; OpPing a]) apps) -> In (op_app o) apps.
Proof. intro H. apply in_flat_map in H. destruct H as (a & Ha & [<-|[<-|[]]]); exact Ha. Qed.

Lemma T_attempt_loop p apps sess C L fuel : (forall a, In a apps -> In a L) -> forall attempt m,
  T (S9 C true L [])
    (attempt_loop fuel attempt (add_ops (builder_new p) (flat_map (fun a => [OpUpdateCheck a; OpPing a]) apps)) sess m)
    (fun r q => skm m (fst (fst r)) /\ S9 C true L [] q).
Proof.
  intro Hsub. induction fuel as [|f IH]; intros attempt m; cbn [attempt_loop]; [apply triple_halt|].
  kn (neutralM_now step9 Inv9 ign_clock9). kn (nM_silent _ silent_fresh_guid).
  eapply triple_bind; [apply T_maybe_ids9|]. intro b. apply T_pre_pure. intro Hcore.
  eapply triple_bind.
  { apply (T_do_req_in b m C L). apply (req_current_ops p (flat_map (fun a => [OpUpdateCheck a; OpPing a]) apps)).
    - intros o Ho. apply Hsub. apply uc_ops_in. exact Ho.
    - unfold wire_of. cbn [w_sum]. rewrite (same_core_apps _ _ Hcore). reflexivity. }
  intros [m1 res]; cbn [fst snd]. apply T_pre_l. intro Hk.
  kna (neutralM_now step9 Inv9 ign_clock9) as fin.
  eapply triple_bind with (R := fun _ => S9 C true L []).
  { match goal with |- T _ (if ?c then _ else _) _ => destruct c end; [brep|apply triple_ret; auto]. }
  intros _. destruct res as [e|bd]; [|apply triple_ret; auto].
  match goal with |- T _ (if ?c then _ else _) _ => destruct c end.
  - kn (nM_yield_idle (EvState ErrorCheckingForUpdate) I). apply triple_ret; auto.
  - kna (nM_silent _ silent_pop_backoff) as r.
    kn (neutralM_emit step9 Inv9 _ (ign_timer9 (WFor (randomize (Z.shiftl 1 (attempt - 1) * 1000) 1000 r * 1000000)))).
    eapply triple_conseq; [apply IH|auto|]. intros r0 q [Hk1 Hq]. split; [eapply skm_trans; eassumption|exact Hq].
Qed.

Lemma T_report_check_interval src m (P : q9 -> Prop) : (forall q, P q -> Inv9 q) -> T P (report_check_interval src m) (fun m' q => P q /\ skm m m').
Proof.
  intro HP. unfold report_check_interval.
  eapply triple_bind; [apply (neutralM_now step9 Inv9 ign_clock9 P HP)|]. intro n.
  eapply triple_bind with (R := fun _ => P); [|intro; apply triple_ret; intros q Hq; split; [exact Hq|split; reflexivity]].
  destruct (s_last_check (m_sched m)) as [[w|mm|c]|]; try (apply triple_ret; auto).
  - destruct (w <=? wall n); [apply (neutralM_report step9 Inv9 _ ign_metric9 P HP)|apply triple_ret; auto].
  - destruct (mono c <=? mono n); [apply (neutralM_report step9 Inv9 _ ign_metric9 P HP)|apply triple_ret; auto].
Qed.

Lemma model_evs_in apps pairs dl x : In x (model_evs apps pairs dl) -> In (fst (fst x)) apps.
Proof.
  unfold model_evs. intro H. apply in_flat_map in H. destruct H as (pr & _ & H).
  destruct (find (fun a => bytes_eqb (a_id a) (r_id (fst pr))) apps) as [a|] eqn:E; [|contradiction].
  destruct H as [<-|[]]. cbn [fst]. apply find_some in E. exact (proj1 E).
Qed.
Lemma installed_in apps pairs dl a : In a (installed_of (model_evs apps pairs dl)) -> In a apps.
Proof.
  unfold installed_of. intro H. apply in_flat_map in H. destruct H as (x & Hx & H).
  destruct (snd (fst x)); try contradiction. destruct H as [<-|[]]. eapply model_evs_in. exact Hx.
Qed.

Lemma T_perform fuel p m :
  T (J m) (perform_update_check fuel p (m_apps m) m)
    (fun r q => skm m (fst r) /\ S9 (cupb m) true (m_apps m) [] q).
Proof.
  unfold perform_update_check, J. set (C := cupb m). set (L := m_apps m).
  assert (Hsub : forall a, In a L -> In a L) by auto.
  eapply triple_bind with (R := fun _ => S9 C true L []).
  { temit. stepq. reflexivity. }
  intros _. eapply triple_bind; [apply T_report_check_interval; apply S9_inv|]. intro m0. apply T_pre_pure. intro Hk0.
  kna (nM_silent _ silent_fresh_guid) as sess.
  eapply triple_bind; [apply (T_attempt_loop p L sess C L fuel Hsub)|]. intros [[m1 attempts] res]; cbn [fst]. apply T_pre_l. intro Hk1.
  assert (Hk : skm m m1) by (eapply skm_trans; eassumption).
  kn (neutralM_report step9 Inv9 (MRequestsPerCheck attempts (match res with inr _ => true | inl _ => false end)) ign_metric9).
  destruct res as [e|[d|]].
  - apply triple_ret. intros q Hq. split; [exact Hk|exact Hq].
  - kn (nM_yield_idle (EvServerResponse d) I).
    destruct (filter uc_ok (d_apps d)) as [|wu0 wur] eqn:Hwu.
    + kn (nM_yield_idle (EvState NoUpdateAvailable) I). apply triple_ret. intros q Hq. split; [exact Hk|exact Hq].
    + rewrite <- Hwu. set (nv := map (fun r => (r_id r, manifest_version r)) (filter uc_ok (d_apps d))).
      kna (nM_silent _ silent_pop_plan) as pl.
      match goal with |- T _ (bind (emit ?a) _) _ => kn (nM_emit_idle a I) end.
      destruct pl as [plan|].
      2:{ kn (nM_yield_idle (EvState InstallingUpdate) I). kn (nM_yield_idle (EvState InstallationError) I).
          eapply triple_bind; [apply (T_report_event _ _ L _ _ _ _ C L Hsub)|].
          intro m2. apply triple_ret. intros q [Hk2 Hq]. split; [eapply skm_trans; eassumption|exact Hq]. }
      kna (nM_silent _ silent_pop_can_start) as dec.
      match goal with |- T _ (bind (emit ?a) _) _ => kn (nM_emit_idle a I) end.
      destruct dec.
      * kn (nM_yield_idle (EvState InstallingUpdate) I).
        eapply triple_bind; [apply (T_report_event _ _ L _ _ _ _ C L Hsub)|].
        intro m2. apply T_pre_l. intro Hk2.
        kna (neutralM_now step9 Inv9 ign_clock9) as t0.
        kn (neutralM_record_first_seen step9 Inv9 plan (wall t0) ign_store9).
        kna (nM_silent _ silent_pop_perform) as pa.
        match goal with |- T _ (bind (emit ?a) _) _ => kn (nM_emit_idle a I) end.
        kn (neutralM_iterM step9 Inv9 (fun bits => yield_ (EvProgress bits)) (pa_progress pa)
              (fun bits => nM_yield_idle (EvProgress bits) I)).
        kna (neutralM_now step9 Inv9 ign_clock9) as t1.
        eapply triple_bind with (R := fun _ => S9 C true L []).
        { match goal with |- T _ (if ?c then _ else _) _ => destruct c end; [|apply triple_ret; auto].
          eapply triple_bind; [brep|]. intro. apply triple_ret; auto. }
        intro dur.
        set (pairs := combine (filter uc_ok (d_apps d)) (pa_results pa)).
        match goal with |- context [iterM (fun x => report (MOmahaEventLost (snd x))) ?E] => change E with (model_evs L pairs (dl_ms dur)) end.
        remember (model_evs L pairs (dl_ms dur)) as evs eqn:Hevs.
        kn (nM_silent _ silent_fresh_guid).
        eapply triple_bind; [apply T_maybe_ids9|]. intro b. apply T_pre_pure. intro Hcore.
        eapply triple_bind.
        { apply (T_do_req_in b m2 C L). apply (req_current_ops p (map (fun x => OpEvent (fst (fst x)) (snd x)) evs)).
          - intros o Ho. apply in_map_iff in Ho. destruct Ho as (x & <- & Hx). cbn [op_app]. rewrite Hevs in Hx. eapply model_evs_in. exact Hx.
          - unfold wire_of. cbn [w_sum]. rewrite (same_core_apps _ _ Hcore). reflexivity. }
        intros [m3 rr]; cbn [fst snd]. apply T_pre_l. intro Hk3.
        eapply triple_bind with (R := fun _ => S9 C true L []).
        { destruct rr; [|apply triple_ret; auto]. apply (Pn _ _ _ _ (neutralM_iterM step9 Inv9 _ _ (fun x => neutralM_report step9 Inv9 _ ign_metric9))). }
        intros _. change (flat_map _ evs) with (installed_of evs).
        eapply triple_bind with (R := fun m4 q => skm m3 m4 /\ S9 C true L [] q).
        { destruct (installed_of evs) as [|ia il] eqn:Ei.
          - apply triple_ret. intros q Hq. split; [apply skm_refl|exact Hq].
          - apply (T_report_event _ _ (ia :: il) _ _ _ _ C L). intros ax Hax. rewrite <- Ei, Hevs in Hax. eapply installed_in. exact Hax. }
        intro m4. apply T_pre_l. intro Hk4.
        assert (Hkm4 : skm m m4) by (repeat (eapply skm_trans; [eassumption|]); apply skm_refl).
        match goal with |- T _ (match ?n with O => _ | S _ => _ end) _ => destruct n as [|nerr] end.
        -- eapply triple_bind with (R := fun _ => S9 C true L []).
           { match goal with |- T _ (if ?c then _ else _) _ => destruct c end; [brep|apply triple_ret; auto]. }
           intros _. kn (neutralM_st_set_time step9 Inv9 K_FINISH_TIME (wall t1) ign_store9).
           eapply triple_bind with (R := fun _ => S9 C true L []).
           { match goal with |- T _ (match ?x with Some _ => _ | None => _ end) _ => destruct x as [o|] end; [|apply triple_ret; auto].
             kn (neutralM_st_write step9 Inv9 (SSetStr K_TARGET_VERSION (match o with Some v => v | None => s2b "UNKNOWN" end)) ign_store9).
             apply triple_ret; auto. }
           intros _. kn (neutralM_st_write step9 Inv9 SCommit ign_store9).
           kna (nM_silent _ silent_pop_reboot_needed) as rn.
           match goal with |- T _ (bind (emit ?a) _) _ => kn (nM_emit_idle a I) end.
           apply triple_ret. intros q Hq. split; [exact Hkm4|exact Hq].
        -- kn (neutralM_iterM step9 Inv9 (fun _ : unit => yield_ EvInstallerError) (repeat tt (Datatypes.S nerr))
                 (fun _ => nM_yield_idle EvInstallerError I)).
           kn (nM_yield_idle (EvState InstallationError) I).
           apply triple_ret. intros q Hq. split; [exact Hkm4|exact Hq].
      * eapply triple_bind; [apply (T_report_event _ _ L _ _ _ _ C L Hsub)|].
        intro m2. apply T_pre_l. intro Hk2.
        kn (nM_yield_idle (EvState InstallationDeferredByPolicy) I).
        apply triple_ret. intros q Hq. split; [eapply skm_trans; eassumption|exact Hq].
      * eapply triple_bind; [apply (T_report_event _ _ L _ _ _ _ C L Hsub)|].
        intro m2. apply triple_ret. intros q [Hk2 Hq]. split; [eapply skm_trans; eassumption|exact Hq].
  - kn (nM_yield_idle (EvState ErrorCheckingForUpdate) I).
    eapply triple_bind; [apply (T_report_event _ _ L _ _ _ _ C L Hsub)|].
    intro m2. apply triple_ret. intros q [Hk2 Hq]. split; [eapply skm_trans; eassumption|exact Hq].
Qed.

(* ---------- the rest of the flow ---------- *)
Ltac rj := apply triple_ret; intros q Hq; exact Hq.
Lemma apps_eq_refl (l : list app) : (if apps_eq_dec l l then true else false) = true.
Proof. destruct (apps_eq_dec l l); [reflexivity|contradiction]. Qed.

Lemma T_start fuel p m : T (J m) (start_update_check fuel p m) (fun r => J (fst r)).
Proof.
  unfold start_update_check.
  eapply triple_bind; [apply T_perform|]. intros [m1 res]; cbn [fst]. apply T_pre_l. intro Hk1.
  set (C := cupb m). set (L := m_apps m).
  (* what the result says the app set must become is what the state machine holds *)
  eapply triple_bind with
    (R := fun fin q => S9 C true L [] q /\ m_cup (fst (fst fin)) = m_cup m /\
                       m_apps (fst (fst fin)) = match snd (fst fin) with inr rs => update_from_omaha L rs | inl _ => L end).
  { destruct res as [e|[rs rb]].
    - eapply triple_bind with (R := fun mr q => S9 C true L [] q /\ skm m (fst mr)).
      { destruct e as [re| |].
        + destruct re; apply triple_ret; auto.
        + kna (neutralM_now step9 Inv9 ign_clock9) as n. apply triple_ret. intros q Hq. split; [exact Hq|exact Hk1].
        + kna (neutralM_now step9 Inv9 ign_clock9) as n. apply triple_ret. intros q Hq. split; [exact Hq|exact Hk1]. }
      intros [m2 reason]; cbn [fst]. apply T_pre_pure. intro Hk2.
      kn (neutralM_report step9 Inv9 (MFailureReason reason) ign_metric9).
      apply triple_ret. intros q Hq. split; [exact Hq|]. cbn [fst snd with_ps m_apps m_cup]. destruct Hk2 as [H1 H2]. auto.
    - kna (neutralM_now step9 Inv9 ign_clock9) as n.
      match goal with |- T _ (bind (report ?x) _) _ => kn (neutralM_report step9 Inv9 x ign_metric9) end.
      eapply triple_bind with (R := fun _ => S9 C true L []).
      { destruct (install_success rs); [apply (Pn _ _ _ _ (neutralM_report_attempts_install step9 Inv9 _ ign_store9 ign_metric9))|apply triple_ret; auto]. }
      intro. apply triple_ret. intros q Hq. split; [exact Hq|].
      cbn [fst snd with_apps with_ps with_sched m_apps m_cup]. destruct Hk1 as [H1 H2]. rewrite H1. auto. }
  intros [[m2 result] rb]; cbn [fst snd]. apply T_pre_pure. intros [Hc Ha].
  kn (nM_yield_idle (EvSchedule (m_sched m2)) I).
  kn (nM_yield_idle (EvProtocol (m_ps m2)) I).
  assert (HC2 : cupb m2 = C) by (unfold C, cupb; rewrite Hc; reflexivity).
  eapply triple_bind with (R := fun _ => S9 C false (m_apps m2) (writes9 (m_apps m2))).
  { temit. intros q ->. eexists. split; [|reflexivity]. cbn. rewrite Ha. destruct result; reflexivity. }
  intro. eapply triple_bind; [apply T_persist_writes|]. intro.
  apply triple_ret. intros q Hq. cbn [fst]. unfold J. rewrite HC2. exact Hq.
Qed.

Lemma T_update_next m : T (J m) (update_next_update_time m) (fun r => J (fst r)).
Proof.
  unfold update_next_update_time, J. kna (nM_silent _ silent_pop_next_time) as t.
  eapply triple_bind with (R := fun _ => S9 (cupb m) false (m_apps m) []).
  { apply triple_emit. intros q ->. eexists. split; [|reflexivity]. unfold step9. cbn [todo9 apps9].
    destruct (apps_eq_dec (m_apps m) (m_apps m)); [reflexivity|contradiction]. }
  intro. match goal with |- T _ (bind (yield_ ?ev) _) _ => kn (nM_yield_idle ev I) end. rj.
Qed.

Lemma ping_ops_in (apps : list app) o : In o (map OpPing apps) -> In (op_app o) apps.
Proof. intro H. apply in_map_iff in H. destruct H as (a & <- & Ha). exact Ha. Qed.

Lemma T_ping m : T (J m) (ping_omaha m) J.
Proof.
  unfold ping_omaha, J. set (C := cupb m). set (L := m_apps m).
  kn (nM_silent _ silent_fresh_guid). kn (nM_silent _ silent_fresh_guid).
  eapply triple_bind; [apply T_maybe_ids9|]. intro b. apply T_pre_pure. intro Hcore.
  eapply triple_bind.
  { apply (T_do_req_ping b m L). apply (req_current_ops ping_params (map OpPing L)).
    - intros o Ho. apply ping_ops_in. exact Ho.
    - unfold wire_of. cbn [w_sum]. rewrite (same_core_apps _ _ Hcore). reflexivity. }
  intros [m1 res]; cbn [fst snd]. apply T_pre_l. intro Hk. fold C.
  assert (Hfail : T (S9 C false L [])
            (persist_data (with_ps m1 (set_fails (m_ps m1) (sat_inc_u32 (ps_fails (m_ps m1)))));;;
             ret (with_ps m1 (set_fails (m_ps m1) (sat_inc_u32 (ps_fails (m_ps m1))))))
            (fun m' => S9 (cupb m') false (m_apps m') [])).
  { kn (neutralM_persist_data step9 Inv9 (with_ps m1 (set_fails (m_ps m1) (sat_inc_u32 (ps_fails (m_ps m1))))) ign_store9).
    apply triple_ret. intros q Hq. apply (J_skm m); [|exact Hq]. exact Hk. }
  destruct res as [er|[d|]]; cbn [after_ping]; [exact Hfail| |exact Hfail].
  set (L' := upd L d).
  eapply triple_bind with (R := fun _ => S9 C false L' (ObS :: writes9 L')).
  { unfold now. eapply triple_bind; [apply (triple_silent step9 _ _ silent_read_clock)|]. intro c.
    eapply triple_bind with (R := fun _ => S9 C false L' (ObS :: writes9 L')); [|intro; apply triple_ret; auto].
    apply triple_emit. intros q ->. eexists. split; reflexivity. }
  intro n.
  eapply triple_bind with (R := fun _ => S9 C false L' (writes9 L')).
  { temit. intros q ->. eexists. split; reflexivity. }
  intros _.
  match goal with |- T _ (bind (persist_data ?x) _) _ => set (m2 := x) end.
  assert (Ha2 : m_apps m2 = L').
  { unfold m2, L', upd, L. cbn [with_apps with_sched with_ps m_apps]. rewrite (proj1 Hk). reflexivity. }
  rewrite <- Ha2.
  eapply triple_bind; [apply T_persist_writes|]. intro.
  apply triple_ret. intros q Hq. assert (HC2 : cupb m2 = C) by (unfold C, cupb, m2; cbn [with_apps with_sched with_ps m_cup]; rewrite (proj2 Hk); reflexivity).
  rewrite HC2. exact Hq.
Qed.

Lemma T_ask_reboot src m : T (J m) (ask_reboot_allowed src) (fun _ => J m).
Proof.
  unfold ask_reboot_allowed, J. kna (nM_silent _ silent_pop_reboot_allowed) as b.
  kn (nM_emit_idle (APolicy (QRebootAllowed src) (PBool b)) I). rj.
Qed.

Lemma T_handle_in_reboot id sc m : T (J m) (handle_in_reboot id sc) (fun _ => J m).
Proof.
  unfold handle_in_reboot. eapply triple_bind with (R := fun _ => J m).
  { unfold J. apply (Pn _ _ _ _ (nM_emit_idle (AReply id AlreadyRunning) I)). }
  intro. destruct sc; [apply T_ask_reboot|rj].
Qed.

Lemma Jn {A} (m0 : sm) (m : M A) : nM m -> T (J m0) m (fun _ => J m0).
Proof. intro H. unfold J. apply Pn. exact H. Qed.
Ltac kj H := eapply triple_bind; [apply (Jn _ _ H)|intro].
Tactic Notation "kja" constr(H) "as" ident(x) := eapply triple_bind; [apply (Jn _ _ H)|intro x].

Lemma T_reboot_loop fuel : forall src pending m, T (J m) (reboot_loop fuel src pending m) J.
Proof.
  induction fuel as [|f IH]; intros src pending m; cbn [reboot_loop]; [apply triple_halt|].
  kja (nM_silent _ (silent_pop_queued)) as qd. destruct qd as [[id sc]|].
  { eapply triple_bind; [apply T_handle_in_reboot|]. intros [|]; [rj|apply IH]. }
  kja (nM_silent _ silent_pop_stim) as s. destruct s as [i|sc|].
  - assert (Hping : T (J m)
              (m1 <- ping_omaha m;; mt <- update_next_update_time m1;;
               (let '(m2, t) := mt in roles <- make_wait t;; reboot_loop f src (remove_nth i pending ++ roles) m2)) J).
    { eapply triple_bind; [apply T_ping|]. intro m1.
      eapply triple_bind; [apply T_update_next|]. intros [m2 t]; cbn [fst].
      kja (neutralM_make_wait step9 Inv9 t ign_timer9) as roles. apply IH. }
    destruct (nth_error pending i) as [[| |]|].
    + destruct (has_ping_roles (remove_nth i pending)); [apply IH|exact Hping].
    + destruct (has_ping_roles (remove_nth i pending)); [apply IH|exact Hping].
    + eapply triple_bind; [apply T_ask_reboot|]. intros [|]; [rj|].
      kj (neutralM_emit step9 Inv9 _ (ign_timer9 (WFor REBOOT_INTERVAL_NS))). apply IH.
    + apply IH.
  - kja (nM_silent _ silent_next_ctl) as id.
    kj (nM_emit_idle (ARequest id sc) I).
    eapply triple_bind; [apply T_handle_in_reboot|]. intros [|]; [rj|apply IH].
  - apply IH.
Qed.

Lemma T_wait_for_reboot fuel src m : T (J m) (wait_for_reboot fuel src m) J.
Proof.
  unfold wait_for_reboot.
  eapply triple_bind; [apply T_ask_reboot|]. intro ok.
  eapply triple_bind with (R := J).
  { destruct ok; [rj|].
    kj (neutralM_emit step9 Inv9 _ (ign_timer9 (WFor REBOOT_INTERVAL_NS))).
    eapply triple_bind; [apply T_update_next|]. intros [m1 t]; cbn [fst].
    kja (neutralM_make_wait step9 Inv9 t ign_timer9) as roles. apply T_reboot_loop. }
  intro m1. kja (nM_silent _ silent_pop_reboot) as okr.
  kj (nM_emit_idle (AInstaller IReboot (IRebooted okr)) I). rj.
Qed.

Lemma T_run_iteration fuel finish start_mono sr m :
  T (J m) (run_iteration fuel finish start_mono sr m) (fun r => J (fst r)).
Proof.
  unfold run_iteration.
  eapply triple_bind with (R := fun _ => J m).
  { destruct sr; [|rj]. kja (neutralM_now step9 Inv9 ign_clock9) as n.
    match goal with |- T _ (match ?x with Some _ => _ | None => _ end) _ => destruct x end; [|rj].
    match goal with |- T _ (bind (report ?x) _) _ => kj (neutralM_report step9 Inv9 x ign_metric9) end.
    kj (neutralM_st_write step9 Inv9 (SRemove K_FINISH_TIME) ign_store9). kj (neutralM_st_write step9 Inv9 (SRemove K_TARGET_VERSION) ign_store9).
    kj (neutralM_st_write step9 Inv9 SCommit ign_store9). rj. }
  intro sr'. eapply triple_bind; [apply T_update_next|]. intros [m1 t]; cbn [fst].
  kja (neutralM_make_wait step9 Inv9 t ign_timer9) as roles.
  eapply triple_bind with (R := fun _ => J m1); [apply (T_do_outer_select step9 roles (J m1) ign_ctl9)|]. intro sel.
  kja (nM_silent _ silent_pop_allowed) as dec.
  eapply triple_bind with (R := fun _ => J m1).
  { apply triple_emit. intros q ->. eexists. split; [|reflexivity]. unfold step9. cbn [todo9 apps9].
    destruct (apps_eq_dec (m_apps m1) (m_apps m1)); [reflexivity|contradiction]. }
  intro.
  assert (Hneg : T (J m1) (match sel with Some (_, id) => emit (AReply id Throttled) | None => ret tt end;;; ret (m1, sr'))
                   (fun r => J (fst r))).
  { eapply triple_bind with (R := fun _ => J m1); [|intro; rj].
    destruct sel as [[s id]|]; [apply (Jn _ _ (nM_emit_idle (AReply id Throttled) I))|rj]. }
  assert (Hpos : forall p, T (J m1)
            (match sel with Some (_, id) => emit (AReply id Started) | None => ret tt end;;;
             enter_check;;;
             r <- start_update_check fuel p m1;;
             set_incheck false;;;
             upg <- take_upgrade;;
             (let '(m0, rb) := r in
              m2 <- match rb with
                    | RebootNeeded _ => yield_state WaitingForReboot;;; wait_for_reboot fuel (if upg then OnDemand else match sel with Some (s, _) => s | None => ScheduledTask end) m0
                    | RebootNotNeeded => ret m0
                    end;;
              yield_state Idle;;; ret (m2, sr'))) (fun r => J (fst r))).
  { intro p. eapply triple_bind with (R := fun _ => J m1).
    { destruct sel as [[s id]|]; [apply (Jn _ _ (nM_emit_idle (AReply id Started) I))|rj]. }
    intro. eapply triple_bind with (R := fun _ => J m1); [apply (T_enter_check step9 (J m1) ign_ctl9)|]. intro.
    eapply triple_bind; [apply T_start|]. intros [m2 rb]; cbn [fst].
    kj (nM_silent _ (silent_set_incheck false)).
    kja (nM_silent _ silent_take_upgrade) as upg.
    eapply triple_bind with (R := J).
    { destruct rb as [plan|]; [|rj]. kj (nM_yield_idle (EvState WaitingForReboot) I). apply T_wait_for_reboot. }
    intro m3. kj (nM_yield_idle (EvState Idle) I). rj. }
  destruct dec; [apply Hpos|apply Hpos|exact Hneg|exact Hneg|exact Hneg].
Qed.

Lemma T_run_loop iters : forall fuel finish start_mono sr m,
  T (J m) (run_loop iters fuel finish start_mono sr m) J.
Proof.
  induction iters as [|k IH]; intros; cbn [run_loop]; [apply triple_halt|].
  eapply triple_bind; [apply T_run_iteration|]. intros [m' sr']; cbn [fst]. apply IH.
Qed.

Lemma T_run iters fuel m : T (J m) (run iters fuel m) J.
Proof.
  unfold run. destruct (negb (forallb app_valid (m_apps m))); [rj|].
  kj (neutralM_now step9 Inv9 ign_clock9). kj (nM_silent _ (silent_st_get_time K_FINISH_TIME)).
  kj (nM_silent _ (silent_st_get_str K_TARGET_VERSION)). apply T_run_loop.
Qed.

Lemma T_oneshot fuel m : T (J m) (oneshot fuel m) J.
Proof. unfold oneshot. eapply triple_bind; [apply T_start|]. intros [m' rb]; cbn [fst]. rj. Qed.

Theorem model_accepted_c09 ep cfg url cup apps e :
  e_trace e = [] -> accepts step9 (init9 cup apps (e_store e)) (run_case ep cfg url cup apps e) = true.
Proof.
  intro Ht. unfold run_case, accepts.
  set (m := build cfg url cup apps (e_store e)).
  assert (HJ : J m (init9 cup apps (e_store e))).
  { unfold J, S9, init9, cupb, m, build. destruct (ctx_load (pend (e_store e))) as [sc ps]. reflexivity. }
  destruct ep.
  - destruct (T_run (Datatypes.S (length (e_stim e) + length (c_inject (e_cs e)))) (4 + length (e_stim e) + length (c_inject (e_cs e))) m (init9 cup apps (e_store e)) e (init9 cup apps (e_store e))) as (q' & Hq' & _).
    + unfold mst. rewrite Ht. reflexivity.
    + exact HJ.
    + destruct (run _ _ m e) as [r e'] eqn:E. cbn [snd] in Hq'. unfold mst in Hq'. rewrite Hq'. reflexivity.
  - destruct (T_oneshot (4 + length (e_stim e) + length (c_inject (e_cs e))) m (init9 cup apps (e_store e)) e (init9 cup apps (e_store e))) as (q' & Hq' & _).
    + unfold mst. rewrite Ht. reflexivity.
    + exact HJ.
    + destruct (oneshot _ m e) as [r e'] eqn:E. cbn [snd] in Hq'. unfold mst in Hq'. rewrite Hq'. reflexivity.
Qed.
