(* Proofs/UriFacts.v — facts about append_query (http_uri_ext.rs:52-67) and the canonical nonce text *)
Require Import Verif.Model.Time Verif.Base.Bytes Verif.Proofs.BytesFacts Verif.Model.Env Verif.Model.SM.
From Coq Require Import Lia.
Open Scope N_scope.

Definition amp : N := 38. Definition qmark : N := 63. Definition eqs : N := 61.

(* the query string of the decorated URI *)
Definition new_query (query : option bytes) (k v : bytes) : bytes :=
  match query with Some q => q ++ amp :: k ++ eqs :: v | None => k ++ eqs :: v end.

Lemma append_query_shape path query k v :
  append_query path query k v = path ++ qmark :: new_query query k v.
Proof. unfold append_query, new_query. destruct query; reflexivity. Qed.

(* the parameters of a query string *)
Definition params_of (q : bytes) : list bytes := split_on amp q.
Definition is_param (k : bytes) (p : bytes) : bool := starts_with (k ++ [eqs]) p.
Definition count_param (k : bytes) (q : bytes) : nat := length (filter (is_param k) (params_of q)).

Lemma split_on_app_sep_gen sep p rest :
  split_on sep (p ++ sep :: rest) = (match split_on sep p with [] => [] | _ => removelast (split_on sep p) end)
                                   ++ [last (split_on sep p) []] ++ split_on sep rest.
Proof.
  induction p as [|c r IH]; cbn [List.app split_on].
  - rewrite N.eqb_refl. reflexivity.
  - destruct (c =? sep) eqn:E.
    + rewrite IH. pose proof (split_on_nonempty sep r) as Hne.
      destruct (split_on sep r) as [|x xs] eqn:Es; [congruence|].
      cbn [removelast last List.app]. destruct xs; reflexivity.
    + rewrite IH. pose proof (split_on_nonempty sep r) as Hne.
      destruct (split_on sep r) as [|x xs] eqn:Es; [congruence|].
      destruct xs as [|y ys]; cbn [removelast last List.app]; reflexivity.
Qed.

Lemma removelast_last {A} (l : list A) d : l <> [] -> removelast l ++ [last l d] = l.
Proof. intro H. symmetry. apply app_removelast_last. exact H. Qed.

Lemma params_append q kv : no_sep amp kv -> params_of (q ++ amp :: kv) = params_of q ++ [kv].
Proof.
  intro H. unfold params_of. rewrite split_on_app_sep_gen, (split_on_no_sep _ _ H).
  pose proof (split_on_nonempty amp q) as Hne.
  destruct (split_on amp q) as [|x xs] eqn:Es; [congruence|].
  rewrite app_assoc. rewrite (removelast_last (x :: xs) []) by discriminate. reflexivity.
Qed.

Lemma starts_with_self_app a b : starts_with a (a ++ b) = true.
Proof. induction a as [|x r IH]; cbn [starts_with List.app]; [reflexivity|]. rewrite N.eqb_refl, IH. reflexivity. Qed.

(* exactly one more `k=` parameter, whatever the old query was *)
Lemma count_param_append_some q k v :
  no_sep amp k -> no_sep amp v ->
  count_param k (new_query (Some q) k v) = Datatypes.S (count_param k q).
Proof.
  intros Hk Hv. unfold count_param, new_query. rewrite params_append.
  - rewrite filter_app, app_length. cbn [filter]. unfold is_param at 2.
    replace (k ++ eqs :: v) with ((k ++ [eqs]) ++ v) by (rewrite <- app_assoc; reflexivity).
    rewrite starts_with_self_app. cbn [length]. lia.
  - intro Hin. apply in_app_or in Hin as [H|[H|H]]; [apply Hk, H|discriminate H|apply Hv, H].
Qed.
Lemma count_param_append_none k v :
  no_sep amp k -> no_sep amp v -> count_param k (new_query None k v) = 1%nat.
Proof.
  intros Hk Hv. unfold count_param, new_query, params_of.
  rewrite split_on_no_sep.
  - cbn [filter]. unfold is_param. replace (k ++ eqs :: v) with ((k ++ [eqs]) ++ v) by (rewrite <- app_assoc; reflexivity).
    rewrite starts_with_self_app. reflexivity.
  - intro Hin. apply in_app_or in Hin as [H|[H|H]]; [apply Hk, H|discriminate H|apply Hv, H].
Qed.

(* ---------- canonical nonce / GUID texts are injective ---------- *)
Lemma dec_value_zeros n ds : dec_value (repeat 48 n ++ ds) = dec_value ds.
Proof.
  unfold dec_value. rewrite fold_left_app. f_equal.
  induction n as [|k IH]; [reflexivity|]. cbn [repeat fold_left]. exact IH.
Qed.
Lemma pad_value n i : dec_value (pad_to 48 n (print_dec i)) = i.
Proof. unfold pad_to. rewrite dec_value_zeros. apply print_dec_canonical. Qed.
Lemma nonce_text_injective i j : nonce_text i = nonce_text j -> i = j.
Proof. intro H. apply (f_equal dec_value) in H. unfold nonce_text in H. rewrite !pad_value in H. exact H. Qed.
