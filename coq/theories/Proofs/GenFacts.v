(* Proofs/GenFacts.v — facts about the generator model (Model/Gen.v) for C13.

   Structure:
   1. the machine between polls is "clean" (channel empty, sender not parked);
      on clean machines one poll of the task is described by the relation
      TaskRun (one constructor per way an operation can go);
   2. properties of TaskRun by induction on its derivations: frame, emission
      accounting, wake-up, wake potential;
   3. one poll of the generator from a boundary state (poll_running /
      poll_finished) and the boundary invariant;
   4. the C13 theorems by induction on the schedule. *)
Require Import Verif.Model.Gen Verif.Model.GenMon.
From Coq Require Import Lia Arith.
Open Scope N_scope.

(* ------------------------------------------------------------ 1. TaskRun *)
Definition clean (m : mach) : Prop :=
  m_queue m = [] /\ m_parked m = false /\ m_swaker m = false.

(* a clean machine after the task pushed x and its flush returned Pending *)
Definition sent_m (x : N) (m : mach) : mach :=
  mkM [x] true true (m_open m) false (m_completed m) (m_wait_reg m) (m_woken m || m_rwaker m) (m_log m).

Definition reg_wait (k : N) (m : mach) : mach :=
  mkM (m_queue m) (m_parked m) (m_swaker m) (m_open m) (m_rwaker m) (m_completed m) (Some k) (m_woken m) (m_log m).

Inductive TaskRun : nat -> list op -> sub -> nat -> bool -> mach -> task -> mach -> Prop :=
| TR_ret pc sb sent sw m :
    TaskRun pc [] sb sent sw m (mkT pc [] NotSent 0 false true) (drop_sender m)
| TR_yield_closed pc x r sb sent sw m t' m' :
    m_open m = false ->
    TaskRun (S pc) r NotSent 0 false (log_done pc m) t' m' ->
    TaskRun pc (Yield x :: r) sb sent sw m t' m'
| TR_yield_send pc x r sent sw m :
    m_open m = true ->
    TaskRun pc (Yield x :: r) NotSent sent sw m (mkT pc (Yield x :: r) SentWaitingFlush sent sw false) (sent_m x m)
| TR_yield_flush pc x r sent sw m t' m' :
    m_open m = true ->
    TaskRun (S pc) r NotSent 0 false (log_done pc m) t' m' ->
    TaskRun pc (Yield x :: r) SentWaitingFlush sent sw m t' m'
| TR_ya_closed pc xs r sb sent sw m t' m' :
    m_open m = false ->
    TaskRun (S pc) r NotSent 0 false (log_done pc m) t' m' ->
    TaskRun pc (YieldAll xs :: r) sb sent sw m t' m'
| TR_ya_end pc xs r sb sent sw m t' m' :
    m_open m = true -> skipn sent xs = [] ->
    TaskRun (S pc) r NotSent 0 false (log_done pc m) t' m' ->
    TaskRun pc (YieldAll xs :: r) sb sent sw m t' m'
| TR_ya_send pc xs r sb sent sw m x xs' :
    m_open m = true -> skipn sent xs = x :: xs' ->
    TaskRun pc (YieldAll xs :: r) sb sent sw m (mkT pc (YieldAll xs :: r) sb (S sent) sw false) (sent_m x m)
| TR_selfwake_first pc r sb sent m :
    TaskRun pc (SelfWake :: r) sb sent false m (mkT pc (SelfWake :: r) sb sent true false) (wake_root m)
| TR_selfwake_second pc r sb sent m t' m' :
    TaskRun (S pc) r NotSent 0 false (log_done pc m) t' m' ->
    TaskRun pc (SelfWake :: r) sb sent true m t' m'
| TR_wait_block pc k r sb sent sw m :
    mem k (m_completed m) = false ->
    TaskRun pc (Wait k :: r) sb sent sw m (mkT pc (Wait k :: r) sb sent sw false) (reg_wait k m)
| TR_wait_ready pc k r sb sent sw m t' m' :
    mem k (m_completed m) = true ->
    TaskRun (S pc) r NotSent 0 false (log_done pc m) t' m' ->
    TaskRun pc (Wait k :: r) sb sent sw m t' m'
| TR_drop pc r sb sent sw m t' m' :
    TaskRun (S pc) r NotSent 0 false (log_done pc (drop_sender m)) t' m' ->
    TaskRun pc (DropHandle :: r) sb sent sw m t' m'.

Lemma clean_log_done : forall pc m, clean m -> clean (log_done pc m).
Proof. intros pc [] H; exact H. Qed.

Lemma clean_drop_sender : forall m, clean m -> clean (drop_sender m).
Proof.
  intros [q pk sk op rw c wr wk lg] (H1 & H2 & H3); simpl in *; subst.
  unfold drop_sender, recv_task_wake; simpl. destruct op, rw; repeat split; reflexivity.
Qed.

Lemma skipn_cons_length : forall (xs : list N) n x xs',
  skipn n xs = x :: xs' -> (length xs - length xs' = S n)%nat /\ skipn (S n) xs = xs' /\ nth_error xs n = Some x.
Proof.
  induction xs as [|a xs IH]; intros n x xs' H.
  - destruct n; discriminate.
  - destruct n as [|n].
    + simpl in H. injection H as -> ->. repeat split; auto. cbn [length]. lia.
    + simpl in H. destruct (IH _ _ _ H) as (A & B & C). repeat split; auto.
      simpl length. assert (length xs' <= length xs)%nat.
      { rewrite <- B. rewrite skipn_length. lia. } lia.
Qed.

(* a parked sender cannot push: SendAll buffers the item and registers the waker *)
Lemma send_all_parked : forall xs q sk op rw c wr wk lg,
  send_all xs (mkM q true sk op rw c wr wk lg) = (xs, mkM q true true op rw c wr wk lg, false).
Proof. destruct xs; reflexivity. Qed.

Lemma run_task_TaskRun : forall rest pc sb sent sw m,
  clean m ->
  TaskRun pc rest sb sent sw m (fst (run_task pc rest sb sent sw m)) (snd (run_task pc rest sb sent sw m)).
Proof.
  induction rest as [|o rest IH]; intros pc sb sent sw m Hc.
  - simpl. constructor.
  - destruct o.
    + (* Yield *)
      destruct (m_open m) eqn:Ho.
      * destruct sb.
        -- assert (E : run_task pc (Yield x :: rest) NotSent sent sw m
                       = (mkT pc (Yield x :: rest) SentWaitingFlush sent sw false, sent_m x m)).
           { destruct m as [q pk sk op rw c wr wk lg]; destruct Hc as (H1 & H2 & H3); simpl in *; subst.
             unfold recv_task_wake, sent_m; simpl. destruct rw, wk; reflexivity. }
           rewrite E. apply TR_yield_send; auto.
        -- assert (E : run_task pc (Yield x :: rest) SentWaitingFlush sent sw m
                       = run_task (S pc) rest NotSent 0 false (log_done pc m)).
           { destruct m as [q pk sk op rw c wr wk lg]; destruct Hc as (H1 & H2 & H3); simpl in *; subst. reflexivity. }
           rewrite E. apply TR_yield_flush; auto using clean_log_done.
      * assert (E : run_task pc (Yield x :: rest) sb sent sw m
                     = run_task (S pc) rest NotSent 0 false (log_done pc m)).
        { simpl. rewrite Ho. reflexivity. }
        rewrite E. apply TR_yield_closed; auto using clean_log_done.
    + (* YieldAll *)
      destruct (m_open m) eqn:Ho.
      * destruct (skipn sent xs) as [|x xs'] eqn:Hs.
        -- assert (E : run_task pc (YieldAll xs :: rest) sb sent sw m
                       = run_task (S pc) rest NotSent 0 false (log_done pc m)).
           { destruct m as [q pk sk op rw c wr wk lg]; destruct Hc as (H1 & H2 & H3); simpl in *; subst.
             rewrite Hs. reflexivity. }
           rewrite E. apply TR_ya_end; auto using clean_log_done.
        -- destruct (skipn_cons_length _ _ _ _ Hs) as (L & _ & _).
           assert (E : run_task pc (YieldAll xs :: rest) sb sent sw m
                       = (mkT pc (YieldAll xs :: rest) sb (S sent) sw false, sent_m x m)).
           { destruct m as [q pk sk op rw c wr wk lg]; destruct Hc as (H1 & H2 & H3); simpl in *; subst.
             rewrite Hs. simpl. unfold start_send, recv_task_wake, sent_m; simpl.
             destruct rw, wk; simpl; unfold wake_root, set_woken; simpl; rewrite send_all_parked; simpl; rewrite L; reflexivity. }
           rewrite E. eapply TR_ya_send; eauto.
      * assert (E : run_task pc (YieldAll xs :: rest) sb sent sw m
                     = run_task (S pc) rest NotSent 0 false (log_done pc m)).
        { simpl. rewrite Ho. reflexivity. }
        rewrite E. apply TR_ya_closed; auto using clean_log_done.
    + (* SelfWake *)
      destruct sw.
      * change (run_task pc (SelfWake :: rest) sb sent true m)
          with (run_task (S pc) rest NotSent 0 false (log_done pc m)).
        apply TR_selfwake_second; auto using clean_log_done.
      * simpl. constructor.
    + (* Wait *)
      destruct (mem k (m_completed m)) eqn:Hk.
      * assert (E : run_task pc (Wait k :: rest) sb sent sw m
                     = run_task (S pc) rest NotSent 0 false (log_done pc m)).
        { simpl. unfold wait_poll. rewrite Hk. reflexivity. }
        rewrite E. apply TR_wait_ready; auto using clean_log_done.
      * assert (E : run_task pc (Wait k :: rest) sb sent sw m
                     = (mkT pc (Wait k :: rest) sb sent sw false, reg_wait k m)).
        { simpl. unfold wait_poll. rewrite Hk. reflexivity. }
        rewrite E. apply TR_wait_block; auto.
    + (* DropHandle *)
      change (run_task pc (DropHandle :: rest) sb sent sw m)
        with (run_task (S pc) rest NotSent 0 false (log_done pc (drop_sender m))).
      apply TR_drop; auto using clean_log_done, clean_drop_sender.
Qed.

(* --------------------------------------------- 2. properties of TaskRun *)
(* the task pushed one item, parked, and registered the root waker in its SenderTask *)
Definition sentq (m : mach) (t : task) : Prop :=
  exists x, m_queue m = [x] /\ m_parked m = true /\ m_swaker m = true /\ m_open m = true /\ t_done t = false.

Lemma skipn_skipn' : forall (A : Type) a b (l : list A), skipn a (skipn b l) = skipn (b + a) l.
Proof.
  intros A a b; revert a. induction b as [|b IH]; intros a l; [reflexivity|].
  destruct l; simpl; [apply skipn_nil|apply IH].
Qed.

Lemma skipn_next : forall (A : Type) (o : A) r a b, (S a <= b)%nat -> skipn (b - a) (o :: r) = skipn (b - S a) r.
Proof. intros. replace (b - a)%nat with (S (b - S a)) by lia. reflexivity. Qed.

Lemma seq_next : forall a b, (S a <= b)%nat -> map N.of_nat (seq a (b - a)) = N.of_nat a :: map N.of_nat (seq (S a) (b - S a)).
Proof. intros. replace (b - a)%nat with (S (b - S a)) by lia. reflexivity. Qed.

Lemma m_log_log_done : forall pc m, m_log (log_done pc m) = m_log m ++ [N.of_nat pc].
Proof. reflexivity. Qed.

Lemma open_drop_sender : forall m, m_open (drop_sender m) = false.
Proof. intros [q pk sk op rw c wr wk lg]. unfold drop_sender, recv_task_wake; simpl. destruct op, rw; reflexivity. Qed.

Lemma completed_drop_sender : forall m, m_completed (drop_sender m) = m_completed m.
Proof. intros [q pk sk op rw c wr wk lg]. unfold drop_sender, recv_task_wake; simpl. destruct op, rw; reflexivity. Qed.

Lemma log_drop_sender : forall m, m_log (drop_sender m) = m_log m.
Proof. intros [q pk sk op rw c wr wk lg]. unfold drop_sender, recv_task_wake; simpl. destruct op, rw; reflexivity. Qed.

Lemma wait_reg_drop_sender : forall m, m_wait_reg (drop_sender m) = m_wait_reg m.
Proof. intros [q pk sk op rw c wr wk lg]. unfold drop_sender, recv_task_wake; simpl. destruct op, rw; reflexivity. Qed.

Lemma TR_frame : forall pc rest sb sent sw m t' m',
  TaskRun pc rest sb sent sw m t' m' -> clean m ->
  m_completed m' = m_completed m /\
  (pc <= t_pc t')%nat /\ (t_pc t' <= pc + length rest)%nat /\
  t_rest t' = skipn (t_pc t' - pc) rest /\
  m_log m' = m_log m ++ map N.of_nat (seq pc (t_pc t' - pc)) /\
  (t_done t' = true -> t_pc t' = (pc + length rest)%nat /\ m_open m' = false) /\
  (m_open m = false -> m_open m' = false) /\
  (clean m' \/ sentq m' t').
Proof.
  Local Ltac fr_next IH Hc :=
    let A := fresh in
    assert (A := IH (clean_log_done _ _ Hc)); clear IH;
    destruct A as (A1 & A2 & A3 & A4 & A5 & A6 & A7 & A8);
    cbn [length]; repeat split;
    [ rewrite A1; try apply completed_drop_sender; reflexivity
    | lia | lia
    | rewrite A4; symmetry; apply skipn_next; lia
    | rewrite A5, m_log_log_done, <- app_assoc; rewrite (seq_next _ _ A2); try rewrite log_drop_sender; reflexivity
    | destruct (A6 ltac:(assumption)); lia
    | apply A6; assumption
    | intros; apply A7; try apply open_drop_sender; assumption
    | exact A8 ].
  induction 1; intros Hc.
  - (* ret *) cbn [t_pc t_rest t_done length]. rewrite Nat.sub_diag, Nat.add_0_r. simpl seq. simpl map.
    rewrite app_nil_r. repeat split; auto using completed_drop_sender, log_drop_sender, open_drop_sender.
    left. apply clean_drop_sender, Hc.
  - fr_next IHTaskRun Hc.
  - (* yield send *) cbn [t_pc t_rest t_done length]. rewrite Nat.sub_diag. simpl. rewrite app_nil_r.
    repeat split; auto; try lia; try discriminate.
    right. exists x. simpl. auto.
  - fr_next IHTaskRun Hc.
  - fr_next IHTaskRun Hc.
  - fr_next IHTaskRun Hc.
  - cbn [t_pc t_rest t_done length]. rewrite Nat.sub_diag. simpl. rewrite app_nil_r.
    repeat split; auto; try lia; try discriminate.
    right. exists x. simpl. auto.
  - cbn [t_pc t_rest t_done length]. rewrite Nat.sub_diag. simpl. rewrite app_nil_r.
    repeat split; auto; try lia; try discriminate; try (left; exact Hc).
  - fr_next IHTaskRun Hc.
  - cbn [t_pc t_rest t_done length]. rewrite Nat.sub_diag. simpl. rewrite app_nil_r.
    repeat split; auto; try lia; try discriminate; try (left; exact Hc).
  - fr_next IHTaskRun Hc.
  - assert (Hc' := clean_drop_sender _ Hc). fr_next IHTaskRun Hc'.
Qed.

(* ---- emission accounting: (item, operation index) pairs still to be delivered ---- *)
Definition pendo (pc : nat) (open : bool) (rest : list op) (sb : sub) (sent : nat) : list (N * N) :=
  if open then
    match rest with
    | Yield x :: r =>
        (match sb with NotSent => [(x, N.of_nat pc)] | SentWaitingFlush => [] end) ++ owners_from (N.of_nat pc + 1) r
    | YieldAll xs :: r => map (fun x => (x, N.of_nat pc)) (skipn sent xs) ++ owners_from (N.of_nat pc + 1) r
    | _ => owners_from (N.of_nat pc) rest
    end
  else [].

Definition inflight (m : mach) (pc : nat) : list (N * N) := map (fun x => (x, N.of_nat pc)) (m_queue m).

Lemma of_nat_S : forall n, N.of_nat (S n) = N.of_nat n + 1.
Proof. intros. rewrite Nat2N.inj_succ. lia. Qed.

Lemma pendo_fresh : forall pc op r, pendo pc op r NotSent 0 = if op then owners_from (N.of_nat pc) r else [].
Proof. intros pc [] r; [|reflexivity]. destruct r as [|[] r]; reflexivity. Qed.

Lemma TR_emit : forall pc rest sb sent sw m t' m',
  TaskRun pc rest sb sent sw m t' m' -> clean m ->
  inflight m' (t_pc t') ++ pendo (t_pc t') (m_open m') (t_rest t') (t_sub t') (t_sent t')
  = pendo pc (m_open m) rest sb sent.
Proof.
  induction 1; intros Hc;
    try (specialize (IHTaskRun (clean_log_done _ _ (clean_drop_sender _ Hc))));
    try (specialize (IHTaskRun (clean_log_done _ _ Hc)));
    try (rewrite IHTaskRun, pendo_fresh; clear IHTaskRun; cbn [log_done set_log m_open]).
  - unfold inflight. rewrite open_drop_sender.
    destruct (clean_drop_sender _ Hc) as (-> & _).
    unfold pendo. destruct (m_open m); reflexivity.
  - rewrite H. reflexivity.
  - unfold inflight, sent_m, pendo; cbn. rewrite H. reflexivity.
  - rewrite H, of_nat_S. reflexivity.
  - rewrite H. reflexivity.
  - rewrite H, of_nat_S. unfold pendo. rewrite H0. reflexivity.
  - unfold inflight, sent_m, pendo; cbn [m_queue m_open t_pc t_rest t_sub t_sent map app].
    rewrite H, H0. destruct (skipn_cons_length _ _ _ _ H0) as (_ & -> & _). reflexivity.
  - unfold inflight, wake_root, set_woken, reg_wait; cbn [m_queue]. destruct Hc as (-> & _). reflexivity.
  - rewrite of_nat_S. unfold pendo. destruct (m_open m); reflexivity.
  - unfold inflight, wake_root, set_woken, reg_wait; cbn [m_queue]. destruct Hc as (-> & _). reflexivity.
  - rewrite of_nat_S. unfold pendo. destruct (m_open m); reflexivity.
  - rewrite open_drop_sender. unfold pendo. destruct (m_open m); reflexivity.
Qed.

(* ---- wake-up: a task that returns Pending without having pushed anything has
        woken the root waker or has registered it with the Wait it is blocked on ---- *)
Lemma TR_wake : forall pc rest sb sent sw m t' m',
  TaskRun pc rest sb sent sw m t' m' -> clean m ->
  m_queue m' = [] -> t_done t' = false ->
  m_woken m' = true \/
  exists k r, t_rest t' = Wait k :: r /\ mem k (m_completed m') = false /\ m_wait_reg m' = Some k.
Proof.
  induction 1; intros Hc Hq Hd;
    try (apply IHTaskRun; auto using clean_log_done, clean_drop_sender; fail);
    try discriminate.
  - left; reflexivity.
  - right. exists k, r. auto.
Qed.

(* ---- the Wait registration always belongs to the Wait the task is blocked on ---- *)
Definition wait_inv (rest : list op) (m : mach) : Prop :=
  forall k, m_wait_reg m = Some k -> exists r, rest = Wait k :: r /\ mem k (m_completed m) = false.

Lemma wait_inv_none : forall o r m, wait_inv (o :: r) m -> (forall k, o <> Wait k) -> m_wait_reg m = None.
Proof.
  intros o r m H Hn. destruct (m_wait_reg m) as [k|] eqn:E; auto.
  destruct (H k E) as (r' & Hr & _). injection Hr as -> _. destruct (Hn k eq_refl).
Qed.

Lemma wait_inv_vac : forall rest m, m_wait_reg m = None -> wait_inv rest m.
Proof. intros rest m H k Hk. congruence. Qed.

Lemma TR_wait_inv : forall pc rest sb sent sw m t' m',
  TaskRun pc rest sb sent sw m t' m' -> clean m -> wait_inv rest m ->
  wait_inv (t_rest t') m' /\ (t_done t' = true -> m_wait_reg m' = None).
Proof.
  Local Ltac wi_next IH Hc Hw :=
    apply IH; [ auto using clean_log_done, clean_drop_sender
              | apply wait_inv_vac; cbn [log_done set_log m_wait_reg]; try rewrite wait_reg_drop_sender;
                apply (wait_inv_none _ _ _ Hw); intros; discriminate ].
  induction 1; intros Hc Hw.
  - assert (E : m_wait_reg m = None).
    { destruct (m_wait_reg m) as [k|] eqn:E; auto. destruct (Hw k E) as (r & Hr & _). discriminate. }
    split; [apply wait_inv_vac|intros _]; rewrite wait_reg_drop_sender; exact E.
  - wi_next IHTaskRun Hc Hw.
  - split; [|discriminate]. apply wait_inv_vac. cbn. apply (wait_inv_none _ _ _ Hw). intros; discriminate.
  - wi_next IHTaskRun Hc Hw.
  - wi_next IHTaskRun Hc Hw.
  - wi_next IHTaskRun Hc Hw.
  - split; [|discriminate]. apply wait_inv_vac. cbn. apply (wait_inv_none _ _ _ Hw). intros; discriminate.
  - split; [|discriminate]. apply wait_inv_vac. cbn. apply (wait_inv_none _ _ _ Hw). intros; discriminate.
  - wi_next IHTaskRun Hc Hw.
  - split; [|discriminate]. intros k' Hk'. cbn in Hk'. injection Hk' as <-. exists r. split; auto.
  - apply IHTaskRun; [auto using clean_log_done|]. apply wait_inv_vac. cbn [log_done set_log m_wait_reg].
    destruct (m_wait_reg m) as [k'|] eqn:E; auto.
    destruct (Hw k' E) as (r' & Hr & Hm). injection Hr as <- _. congruence.
  - wi_next IHTaskRun Hc Hw.
Qed.

(* ---- wake potential: an upper bound on the wake-ups the run can still cause ---- *)
Definition phi_op (comp : list N) (o : op) : nat :=
  match o with
  | Yield _ => 1
  | YieldAll xs => length xs
  | SelfWake => 1
  | Wait k => if mem k comp then 0 else 1
  | DropHandle => 0
  end.

Fixpoint phi_rest (comp : list N) (rest : list op) : nat :=
  match rest with [] => 0 | o :: r => phi_op comp o + phi_rest comp r end.

Definition phi_cur (comp : list N) (rest : list op) (sb : sub) (sent : nat) (sw : bool) : nat :=
  match rest with
  | Yield x :: r => (match sb with NotSent => 1 | SentWaitingFlush => 0 end) + phi_rest comp r
  | YieldAll xs :: r => (length xs - sent) + phi_rest comp r
  | SelfWake :: r => (if sw then 0 else 1) + phi_rest comp r
  | _ => phi_rest comp rest
  end.

Definition b2n (b : bool) : nat := if b then 1 else 0.

Definition Phi (t : task) (m : mach) : nat :=
  phi_cur (m_completed m) (t_rest t) (t_sub t) (t_sent t) (t_selfwoke t) + b2n (m_open m).

Lemma phi_fresh : forall comp r, phi_cur comp r NotSent 0 false = phi_rest comp r.
Proof. intros comp [|[] r]; simpl; auto. lia. Qed.

Lemma phi_cur_le : forall comp o r sb sent sw, (phi_rest comp r <= phi_cur comp (o :: r) sb sent sw)%nat.
Proof. intros comp [] r sb sent sw; simpl; lia. Qed.

Lemma drop_sender_pot : forall m,
  (b2n (m_open (drop_sender m)) + b2n (m_woken (drop_sender m)) <= b2n (m_open m) + b2n (m_woken m))%nat.
Proof.
  intros [q pk sk op rw c wr wk lg]. unfold drop_sender, recv_task_wake; simpl.
  destruct op, rw, wk; simpl; lia.
Qed.

Lemma TR_phi : forall pc rest sb sent sw m t' m',
  TaskRun pc rest sb sent sw m t' m' -> clean m ->
  (m_queue m' = [] ->
     (Phi t' m' + b2n (m_woken m') <= phi_cur (m_completed m) rest sb sent sw + b2n (m_open m) + b2n (m_woken m))%nat) /\
  (m_queue m' <> [] ->
     (Phi t' m' + 1 <= phi_cur (m_completed m) rest sb sent sw + b2n (m_open m))%nat).
Proof.
  Local Ltac phi_next IH Hc :=
    let A := fresh in let B := fresh in
    destruct (IH (clean_log_done _ _ Hc)) as (A & B); clear IH;
    rewrite phi_fresh in A, B; cbn [log_done set_log m_completed m_open m_woken] in A, B;
    split; intros Hq; [specialize (A Hq)|specialize (B Hq)];
    match goal with |- context [phi_cur ?c (?o :: ?r) ?sb ?sent ?sw] =>
      pose proof (phi_cur_le c o r sb sent sw) end; lia.
  induction 1; intros Hc.
  - split; intros Hq.
    + unfold Phi; cbn [t_rest phi_cur phi_rest]. pose proof (drop_sender_pot m). simpl. lia.
    + destruct Hq. apply clean_drop_sender, Hc.
  - phi_next IHTaskRun Hc.
  - split; intros Hq; [discriminate|]. unfold Phi; cbn. rewrite H. simpl. lia.
  - phi_next IHTaskRun Hc.
  - phi_next IHTaskRun Hc.
  - phi_next IHTaskRun Hc.
  - split; intros Hq; [discriminate|]. unfold Phi; cbn [t_rest t_sub t_sent t_selfwoke phi_cur sent_m m_completed m_open].
    destruct (skipn_cons_length _ _ _ _ H0) as (L & _ & _). lia.
  - split; intros Hq; [|destruct Hq; apply Hc]. unfold Phi; cbn. destruct (m_woken m); simpl; lia.
  - phi_next IHTaskRun Hc.
  - split; intros Hq; [|destruct Hq; apply Hc]. unfold Phi; cbn; unfold mem; lia.
  - phi_next IHTaskRun Hc.
  - assert (Hc' := clean_drop_sender _ Hc).
    destruct (IHTaskRun (clean_log_done _ _ Hc')) as (A & B); clear IHTaskRun.
    rewrite phi_fresh in A, B. cbn [log_done set_log m_completed m_open m_woken] in A, B.
    rewrite completed_drop_sender in A, B. pose proof (drop_sender_pot m).
    split; intros Hq; [specialize (A Hq)|specialize (B Hq)]; cbn [phi_cur phi_rest phi_op]; simpl in *; try rewrite open_drop_sender in *; simpl in *; lia.
Qed.

(* ---- back-pressure inside the task: after pushing x the task is still inside the
        operation that emitted it ---- *)
Definition inflight_shape (t : task) (x : N) : Prop :=
  (exists r, t_rest t = Yield x :: r /\ t_sub t = SentWaitingFlush) \/
  (exists xs r j, t_rest t = YieldAll xs :: r /\ t_sent t = S j /\ nth_error xs j = Some x).

Lemma TR_sent_shape : forall pc rest sb sent sw m t' m',
  TaskRun pc rest sb sent sw m t' m' -> clean m ->
  forall x, m_queue m' = [x] -> inflight_shape t' x.
Proof.
  induction 1; intros Hc y Hq;
    try (apply IHTaskRun; auto using clean_log_done, clean_drop_sender; fail).
  - destruct (clean_drop_sender _ Hc) as (Q & _). congruence.
  - cbn in Hq. injection Hq as <-. left. exists r. auto.
  - cbn in Hq. injection Hq as <-. right. exists xs, r, sent.
    destruct (skipn_cons_length _ _ _ _ H0) as (_ & _ & E). auto.
  - destruct Hc as (Q & _). cbn in Hq. congruence.
  - destruct Hc as (Q & _). cbn in Hq. congruence.
Qed.

(* ------------------------------------ 3. one poll from a boundary state *)
Record Binv (p : program) (st : gstate) : Prop := mkBinv {
  b_clean : clean (g_m st);
  b_pc : (t_pc (g_task st) <= length (p_ops p))%nat;
  b_rest : t_rest (g_task st) = skipn (t_pc (g_task st)) (p_ops p);
  b_ret : g_ret st = p_ret p;
  b_res : g_res st = None;
  b_sterm : g_sterm st = negb (m_open (g_m st));
  b_done : t_done (g_task st) = true ->
           t_pc (g_task st) = length (p_ops p) /\ m_open (g_m st) = false /\ m_wait_reg (g_m st) = None;
  b_wait : wait_inv (t_rest (g_task st)) (g_m st)
}.

Definition pre_poll (st : gstate) : gstate := with_m (fun m => set_log [] (set_woken false m)) st.
Definition post_poll (st : gstate) : gstate := with_m (set_woken false) st.

Definition pendS (st : gstate) : list (N * N) :=
  pendo (t_pc (g_task st)) (m_open (g_m st)) (t_rest (g_task st)) (t_sub (g_task st)) (t_sent (g_task st)).

Definition PhiS (st : gstate) : nat := Phi (g_task st) (g_m st).

Definition blocked_on (st : gstate) (k : N) : Prop :=
  exists r, t_rest (g_task st) = Wait k :: r /\ mem k (m_completed (g_m st)) = false /\ m_wait_reg (g_m st) = Some k.

Lemma Binv_init : forall p, Binv p (init p).
Proof.
  intros p. constructor; simpl; auto; try lia; try discriminate; try (repeat split; reflexivity).
  all: try (intros k Hk; discriminate).
Qed.

Lemma Binv_with_m : forall p st f,
  Binv p st ->
  (forall m, m_queue (f m) = m_queue m /\ m_parked (f m) = m_parked m /\ m_swaker (f m) = m_swaker m /\
             m_open (f m) = m_open m /\ m_wait_reg (f m) = m_wait_reg m /\ m_completed (f m) = m_completed m) ->
  Binv p (with_m f st).
Proof.
  intros p st f [] Hf. destruct (Hf (g_m st)) as (A & B & C & D & E & F).
  constructor; simpl; auto.
  - destruct b_clean0 as (X & Y & Z). repeat split; congruence.
  - congruence.
  - intros Hd. destruct (b_done0 Hd) as (X & Y & Z). repeat split; congruence.
  - intros k Hk. rewrite E in Hk. destruct (b_wait0 k Hk) as (r & Hr & Hm). exists r. split; auto. congruence.
Qed.

Lemma Binv_pre_poll : forall p st, Binv p st -> Binv p (pre_poll st).
Proof. intros. apply Binv_with_m; auto. intros []; repeat split; reflexivity. Qed.

Lemma Binv_post_poll : forall p st, Binv p st -> Binv p (post_poll st).
Proof. intros. apply Binv_with_m; auto. intros []; repeat split; reflexivity. Qed.

Lemma recv_clean_open : forall m, clean m -> m_open m = true ->
  recv m = (mkM [] false false true true (m_completed m) (m_wait_reg m) (m_woken m) (m_log m), RPending).
Proof. intros [q pk sk op rw c wr wk lg] (A & B & C) D; simpl in *; subst. reflexivity. Qed.

Lemma recv_clean_closed : forall m, clean m -> m_open m = false -> recv m = (m, RClosed).
Proof. intros [q pk sk op rw c wr wk lg] (A & B & C) D; simpl in *; subst. reflexivity. Qed.

Lemma recv_sent : forall m x, m_queue m = [x] -> m_parked m = true -> m_swaker m = true ->
  recv m = (mkM [] false false (m_open m) (m_rwaker m) (m_completed m) (m_wait_reg m) true (m_log m), RItem x).
Proof. intros [q pk sk op rw c wr wk lg] x A B C; simpl in *; subst. reflexivity. Qed.

Definition poll_out (p : program) (st st1 : gstate) (r : poll_result) : Prop :=
  match r with
  | RPendingP => t_done (g_task st1) = false /\ pendS st1 = pendS st /\
                 (m_woken (g_m st1) = true \/ exists k, blocked_on st1 k)
  | RYielded x => t_done (g_task st1) = false /\
                  pendS st = (x, N.of_nat (t_pc (g_task st1))) :: pendS st1 /\
                  m_woken (g_m st1) = true /\ inflight_shape (g_task st1) x
  | RComplete v => v = p_ret p /\ t_done (g_task st1) = true /\ pendS st = []
  | RStreamEnd => False
  end.

Ltac binv_tac :=
  constructor; cbn [g_task g_m g_ret g_res g_sterm m_open m_wait_reg m_completed m_queue m_parked m_swaker];
  first [ assumption
        | reflexivity
        | (repeat split; reflexivity)
        | (match goal with H : m_open _ = _ |- _ => rewrite H end; reflexivity)
        | congruence
        | (intros _; repeat split; auto; lia)
        | auto ].

Lemma poll_running_gen : forall p st st1 r,
  Binv p st -> t_done (g_task st) = false -> poll_next st = (st1, r) ->
  Binv p st1 /\
  (t_pc (g_task st) <= t_pc (g_task st1))%nat /\
  m_log (g_m st1) = m_log (g_m st) ++ map N.of_nat (seq (t_pc (g_task st)) (t_pc (g_task st1) - t_pc (g_task st))) /\
  m_completed (g_m st1) = m_completed (g_m st) /\
  (PhiS st1 + b2n (m_woken (g_m st1)) <= PhiS st + b2n (m_woken (g_m st)))%nat /\
  poll_out p st st1 r.
Proof.
  intros p [[pc rest sb sent sw dn] m ret res sterm] st1 r HB Hd Hp.
  simpl in Hd; subst dn.
  destruct HB as [Bc Bpc Brest Bret Bres Bsterm _ Bwait]; cbn [g_task g_m g_ret g_res g_sterm t_pc t_rest t_done] in *.
  subst res.
  unfold poll_next in Hp; cbn [g_task g_m g_ret g_res g_sterm t_pc t_rest t_sub t_sent t_selfwoke t_done] in Hp.
  assert (Hc0 : clean m) by exact Bc.
  assert (Hw0 : wait_inv rest m) by exact Bwait.
  pose proof (run_task_TaskRun rest pc sb sent sw m Hc0) as TR.
  destruct (run_task pc rest sb sent sw m) as [t1 m1]. cbn [fst snd] in TR.
  destruct (TR_frame _ _ _ _ _ _ _ _ TR Hc0) as (F1 & F2 & F3 & F4 & F5 & F6 & F7 & F8).
  pose proof (TR_emit _ _ _ _ _ _ _ _ TR Hc0) as EM.
  pose proof (TR_wake _ _ _ _ _ _ _ _ TR Hc0) as WK.
  pose proof (TR_sent_shape _ _ _ _ _ _ _ _ TR Hc0) as SH.
  destruct (TR_wait_inv _ _ _ _ _ _ _ _ TR Hc0 Hw0) as (WI & WD).
  destruct (TR_phi _ _ _ _ _ _ _ _ TR Hc0) as (P1 & P2).
  cbn [negb andb] in Hp.
  assert (Brest1 : t_rest t1 = skipn (t_pc t1) (p_ops p)).
  { rewrite F4, Brest, skipn_skipn'. f_equal. lia. }
  assert (Hlen : (length rest = length (p_ops p) - pc)%nat) by (rewrite Brest; apply skipn_length).
  assert (Bpc1 : (t_pc t1 <= length (p_ops p))%nat) by lia.
  (* case analysis on the channel after the task ran *)
  destruct F8 as [Hc1 | (x & Q1 & Q2 & Q3 & Q4 & Q5)].
  - (* nothing pushed *)
    assert (Hq1 : m_queue m1 = []) by apply Hc1.
    specialize (P1 Hq1). clear P2.
    destruct (m_open m1) eqn:Ho1.
    + (* still open: the stream is pending *)
      assert (Hom : m_open m = true) by (destruct (m_open m); auto; discriminate (F7 eq_refl)).
      rewrite Hom in Bsterm; simpl in Bsterm; subst sterm.
      assert (Hd1 : t_done t1 = false) by (destruct (t_done t1); auto; destruct (F6 eq_refl); congruence).
      rewrite (recv_clean_open _ Hc1 Ho1) in Hp. injection Hp as <- <-.
      cbn [g_task g_m g_ret g_res g_sterm poll_out]. unfold PhiS, pendS, blocked_on, Phi in *.
      cbn [g_task g_m g_ret g_res g_sterm t_pc t_rest t_sub t_sent t_selfwoke t_done m_open m_completed m_woken m_log m_wait_reg].
      rewrite Hd1. cbn [negb andb].
      split; [solve [binv_tac]|]. repeat split; auto.
      all: first [ (rewrite <- EM; rewrite ?Ho1; unfold inflight; rewrite Hq1; reflexivity) | (try rewrite Ho1 in P1; simpl in P1; simpl; lia) ].
    + (* closed *)
      rewrite (recv_clean_closed _ Hc1 Ho1) in Hp.
      assert (Hp' : (if negb (t_done t1)
                     then (mkG t1 m1 ret (if t_done t1 then Some ret else None) true, RPendingP)
                     else match (if t_done t1 then Some ret else None) with
                          | Some r0 => (mkG t1 m1 ret None true, RComplete r0)
                          | None => (mkG t1 m1 ret None true, RStreamEnd)
                          end) = (st1, r)).
      { destruct sterm; exact Hp. }
      clear Hp.
      destruct (t_done t1) eqn:Hd1; cbn [negb] in Hp'; injection Hp' as <- <-;
        cbn [g_task g_m g_ret g_res g_sterm poll_out]; unfold PhiS, pendS, blocked_on, Phi in *;
        cbn [g_task g_m g_ret g_res g_sterm t_pc t_rest t_sub t_sent t_selfwoke t_done m_open m_completed m_woken m_log m_wait_reg].
      * (* task returned: Complete *)
        destruct (F6 eq_refl) as (E1 & _).
        split; [solve [binv_tac]|]. repeat split; auto.
        all: first [ (rewrite <- EM; rewrite ?Ho1; unfold inflight; rewrite Hq1; reflexivity) | (try rewrite Ho1 in P1; simpl in P1; simpl; lia) ].
      * split; [solve [binv_tac]|]. repeat split; auto.
        all: first [ (rewrite <- EM; rewrite ?Ho1; unfold inflight; rewrite Hq1; reflexivity) | (try rewrite Ho1 in P1; simpl in P1; simpl; lia) ].
  - (* one item pushed: it is delivered by this very poll *)
    assert (Hom : m_open m = true) by (destruct (m_open m); auto; rewrite (F7 eq_refl) in Q4; discriminate).
    rewrite Hom in Bsterm; simpl in Bsterm; subst sterm.
    rewrite (recv_sent _ _ Q1 Q2 Q3) in Hp. rewrite Q5 in Hp. cbn [negb andb] in Hp. injection Hp as <- <-.
    assert (Hq1 : m_queue m1 <> []) by (rewrite Q1; discriminate).
    specialize (P2 Hq1). clear P1.
    cbn [g_task g_m g_ret g_res g_sterm poll_out]. unfold PhiS, pendS, blocked_on, Phi in *.
    cbn [g_task g_m g_ret g_res g_sterm t_pc t_rest t_sub t_sent t_selfwoke t_done m_open m_completed m_woken m_log m_wait_reg].
    split; [solve [binv_tac]|]. repeat split; auto.
    all: first [ rewrite <- EM; unfold inflight; rewrite Q1, Q4; reflexivity | simpl; try rewrite Q4 in *; simpl in *; lia ].
Qed.

Lemma poll_running : forall p st st1 r,
  Binv p st -> t_done (g_task st) = false -> poll_next (pre_poll st) = (st1, r) ->
  Binv p st1 /\
  (t_pc (g_task st) <= t_pc (g_task st1))%nat /\
  m_log (g_m st1) = map N.of_nat (seq (t_pc (g_task st)) (t_pc (g_task st1) - t_pc (g_task st))) /\
  m_completed (g_m st1) = m_completed (g_m st) /\
  (PhiS st1 + b2n (m_woken (g_m st1)) <= PhiS st)%nat /\
  poll_out p st st1 r.
Proof.
  intros p st st1 r HB Hd Hp.
  destruct (poll_running_gen p (pre_poll st) st1 r (Binv_pre_poll _ _ HB) Hd Hp) as (A & B & C & D & E & F).
  split; [exact A|]. split; [exact B|]. split; [exact C|].
  split; [rewrite D; destruct st as [t [] ? ? ?]; reflexivity|].
  split.
  - replace (PhiS st) with (PhiS (pre_poll st) + b2n (m_woken (g_m (pre_poll st))))%nat; [exact E|].
    destruct st as [t [] ? ? ?]. unfold PhiS, Phi; cbn. lia.
  - destruct r; exact F.
Qed.

Lemma PhiS_done : forall p st, Binv p st -> t_done (g_task st) = true -> PhiS st = 0%nat.
Proof.
  intros p st HB Hd. destruct (b_done _ _ HB Hd) as (E & Ho & _).
  unfold PhiS, Phi. rewrite Ho, (b_rest _ _ HB), E, skipn_all. reflexivity.
Qed.

Lemma poll_finished : forall p st,
  Binv p st -> t_done (g_task st) = true -> poll_next (pre_poll st) = (pre_poll st, RStreamEnd).
Proof.
  intros p [[pc rest sb sent sw dn] m ret res sterm] HB Hd. simpl in Hd; subst dn.
  destruct (b_done _ _ HB eq_refl) as (_ & Ho & _).
  pose proof (b_res _ _ HB) as Hr. pose proof (b_sterm _ _ HB) as Hs.
  cbn [g_task g_m g_ret g_res g_sterm] in *. subst res. rewrite Ho in Hs. simpl in Hs. subst sterm.
  reflexivity.
Qed.

(* one poll from any boundary state *)
Lemma poll_any : forall p st st1 r,
  Binv p st -> poll_next (pre_poll st) = (st1, r) ->
  Binv p st1 /\
  (t_pc (g_task st) <= t_pc (g_task st1))%nat /\
  m_log (g_m st1) = map N.of_nat (seq (t_pc (g_task st)) (t_pc (g_task st1) - t_pc (g_task st))) /\
  m_completed (g_m st1) = m_completed (g_m st) /\
  (PhiS st1 + b2n (m_woken (g_m st1)) <= PhiS st)%nat /\
  (t_done (g_task st) = false -> poll_out p st st1 r) /\
  (t_done (g_task st) = true -> r = RStreamEnd /\ st1 = pre_poll st).
Proof.
  intros p st st1 r HB Hp. destruct (t_done (g_task st)) eqn:Hd.
  - rewrite (poll_finished _ _ HB Hd) in Hp. injection Hp as <- <-.
    split; [apply Binv_pre_poll, HB|].
    destruct st as [t m ret res sterm]; destruct m; cbn.
    rewrite Nat.sub_diag. repeat split; auto; try discriminate.
    change (PhiS (mkG t (mkM m_queue m_parked m_swaker m_open m_rwaker m_completed m_wait_reg false []) ret res sterm) + 0
            <= PhiS (mkG t (mkM m_queue m_parked m_swaker m_open m_rwaker m_completed m_wait_reg m_woken m_log) ret res sterm))%nat.
    unfold PhiS, Phi; cbn. lia.
  - destruct (poll_running _ _ _ _ HB Hd Hp) as (A & B & C & D & E & F).
    split; [exact A|]. repeat split; auto; discriminate.
Qed.

(* ---- external completions ---- *)
Lemma mem_cons : forall j k c, mem j (k :: c) = (j =? k) || mem j c.
Proof. reflexivity. Qed.

Lemma Binv_complete : forall p st k, Binv p st -> Binv p (with_m (complete_m k) st).
Proof.
  intros p [t m ret res sterm] k [Bc Bpc Brest Bret Bres Bsterm Bdone Bwait];
    cbn [g_task g_m g_ret g_res g_sterm] in *.
  assert (Q : forall m', m' = complete_m k m ->
     m_queue m' = m_queue m /\ m_parked m' = m_parked m /\ m_swaker m' = m_swaker m /\ m_open m' = m_open m /\
     m_completed m' = k :: m_completed m /\
     m_wait_reg m' = match m_wait_reg m with Some j => if j =? k then None else Some j | None => None end).
  { intros m' ->. destruct m as [q pk sk op rw c wr wk lg]. unfold complete_m; cbn.
    destruct wr as [j|]; [destruct (j =? k)|]; repeat split; reflexivity. }
  destruct (Q _ eq_refl) as (Q1 & Q2 & Q3 & Q4 & Q5 & Q6).
  constructor; cbn [g_task g_m g_ret g_res g_sterm with_m]; auto.
  - destruct Bc as (X & Y & Z). repeat split; congruence.
  - congruence.
  - intros Hd. destruct (Bdone Hd) as (X & Y & Z). repeat split; auto; try congruence.
    rewrite Q6, Z. reflexivity.
  - intros j Hj. rewrite Q6 in Hj. destruct (m_wait_reg m) as [j'|] eqn:E; [|discriminate].
    destruct (j' =? k) eqn:Ejk; [discriminate|]. injection Hj as ->.
    destruct (Bwait j E) as (r & Hr & Hm). exists r. split; auto.
    rewrite Q5, mem_cons, Ejk, Hm. reflexivity.
Qed.

Lemma phi_rest_mono : forall k c r, (phi_rest (k :: c) r <= phi_rest c r)%nat.
Proof.
  induction r as [|o r IH]; cbn [phi_rest]; auto.
  destruct o; cbn [phi_op]; try lia. rewrite mem_cons. destruct (k0 =? k), (mem k0 c); simpl; lia.
Qed.

Lemma phi_cur_mono : forall k c rest sb sent sw, (phi_cur (k :: c) rest sb sent sw <= phi_cur c rest sb sent sw)%nat.
Proof.
  intros k c [|o r] sb sent sw; cbn [phi_cur phi_rest]; auto.
  destruct o; cbn [phi_cur]; try (pose proof (phi_rest_mono k c r); lia).
  - pose proof (phi_rest_mono k c (Wait k0 :: r)). exact H.
  - pose proof (phi_rest_mono k c (DropHandle :: r)). exact H.
Qed.

Lemma complete_pot : forall p st k, Binv p st ->
  (PhiS (with_m (complete_m k) st) + b2n (m_woken (g_m (with_m (complete_m k) st)))
   <= PhiS st + b2n (m_woken (g_m st)))%nat.
Proof.
  intros p [t m ret res sterm] k HB. pose proof (b_wait _ _ HB) as Bwait.
  unfold PhiS, Phi, with_m; cbn [g_task g_m] in *.
  destruct m as [q pk sk op rw c wr wk lg]. unfold complete_m.
  cbn [m_wait_reg m_completed m_open m_woken m_queue m_parked m_swaker m_rwaker m_log] in *.
  pose proof (phi_cur_mono k c (t_rest t) (t_sub t) (t_sent t) (t_selfwoke t)) as M.
  destruct wr as [j|]; [destruct (N.eqb_spec j k) as [->|Hne]|].
  - cbn [wake_root set_woken m_completed m_open m_woken].
    destruct (Bwait k eq_refl) as (r & Hr & Hm). cbn [m_completed] in Hm. rewrite Hr. cbn [phi_cur phi_rest phi_op].
    rewrite mem_cons, N.eqb_refl, Hm. pose proof (phi_rest_mono k c r). simpl. destruct wk; simpl; lia.
  - cbn. lia.
  - cbn. lia.
Qed.

Lemma pendS_with_m : forall st f, (forall m, m_open (f m) = m_open m) -> pendS (with_m f st) = pendS st.
Proof. intros st f H. unfold pendS; cbn. rewrite H. reflexivity. Qed.

Lemma open_complete_m : forall k m, m_open (complete_m k m) = m_open m.
Proof. intros k [q pk sk op rw c wr wk lg]. unfold complete_m; cbn. destruct wr as [j|]; [destruct (j =? k)|]; reflexivity. Qed.

(* ------------------------------------------- 4. theorems over schedules *)
Lemma run_full_poll : forall st s,
  run_full st (Poll :: s) =
  let '(st1, r) := poll_next (pre_poll st) in
  (observe (m_woken (g_m st)) r st1, st1) :: run_full (post_poll st1) s.
Proof. reflexivity. Qed.

Lemma run_full_complete : forall st k s,
  run_full st (Complete k :: s) = run_full (with_m (complete_m k) st) s.
Proof. reflexivity. Qed.

Lemma pendS_post_poll : forall st, pendS (post_poll st) = pendS st.
Proof. intros. apply pendS_with_m. intros []; reflexivity. Qed.

Lemma pendS_complete : forall st k, pendS (with_m (complete_m k) st) = pendS st.
Proof. intros. apply pendS_with_m. intros; apply open_complete_m. Qed.

(* ---- order, exactly once, single completion, None forever ---- *)
Lemma order_finished : forall s p st,
  Binv p st -> t_done (g_task st) = true ->
  exists n, results (run_from st s) = repeat RStreamEnd n.
Proof.
  unfold results, run_from.
  induction s as [|[|k] s IH]; intros p st HB Hd.
  - exists 0%nat. reflexivity.
  - rewrite run_full_poll. rewrite (poll_finished _ _ HB Hd).
    destruct (IH p (post_poll (pre_poll st))) as (n & Hn).
    + apply Binv_post_poll, Binv_pre_poll, HB.
    + exact Hd.
    + exists (S n). cbn [map fst o_res observe repeat]. rewrite Hn. reflexivity.
  - rewrite run_full_complete. apply (IH p); [apply Binv_complete, HB|exact Hd].
Qed.

Lemma order_running : forall s p st,
  Binv p st -> t_done (g_task st) = false ->
  stream_shape (map fst (pendS st)) (p_ret p) (results (run_from st s)).
Proof.
  unfold results, run_from.
  induction s as [|[|k] s IH]; intros p st HB Hd.
  - exists [], []. repeat split; auto. left. split; auto. exists (map fst (pendS st)). reflexivity.
  - rewrite run_full_poll. destruct (poll_next (pre_poll st)) as [st1 r] eqn:Hp.
    destruct (poll_running _ _ _ _ HB Hd Hp) as (HB1 & _ & _ & _ & _ & Out).
    cbn [map fst o_res observe].
    destruct r as [|x|v|]; cbn [poll_out] in Out.
    + destruct Out as (Hd1 & Hpend & _).
      destruct (IH p (post_poll st1) (Binv_post_poll _ _ HB1) Hd1) as (pre & post & E & Fp & Hs).
      rewrite pendS_post_poll, Hpend in Hs.
      exists (RPendingP :: pre), post. rewrite E. repeat split; auto. constructor; simpl; auto.
    + destruct Out as (Hd1 & Hpend & _).
      destruct (IH p (post_poll st1) (Binv_post_poll _ _ HB1) Hd1) as (pre & post & E & Fp & Hs).
      rewrite pendS_post_poll in Hs. rewrite Hpend. cbn [map fst].
      exists (RYielded x :: pre), post. rewrite E. repeat split; auto. { constructor; simpl; auto. }
      destruct Hs as [(-> & later & Hl)|(n & -> & Hy)].
      * left. split; auto. exists later. change (yvals (RYielded x :: pre)) with (x :: yvals pre). rewrite Hl. reflexivity.
      * right. exists n. split; auto. change (yvals (RYielded x :: pre)) with (x :: yvals pre). rewrite Hy. reflexivity.
    + destruct Out as (-> & Hd1 & Hpend).
      destruct (order_finished s p (post_poll st1) (Binv_post_poll _ _ HB1) Hd1) as (n & Hn).
      unfold results, run_from in Hn. rewrite Hn, Hpend.
      exists [], (RComplete (p_ret p) :: repeat RStreamEnd n). repeat split; auto.
      right. exists n. auto.
    + destruct Out.
  - rewrite run_full_complete.
    specialize (IH p (with_m (complete_m k) st) (Binv_complete _ _ k HB) Hd).
    rewrite pendS_complete in IH. exact IH.
Qed.

Lemma owners_emits : forall ops j, map fst (owners_from j ops) = emits ops.
Proof.
  induction ops as [|o ops IH]; intros j; simpl; auto.
  destruct o; simpl; auto.
  - rewrite IH. reflexivity.
  - rewrite map_app, map_map, IH. simpl. rewrite map_id. reflexivity.
Qed.

Lemma pendS_init : forall p, map fst (pendS (init p)) = emits (p_ops p).
Proof.
  intros p. change (pendS (init p)) with (pendo 0 true (p_ops p) NotSent 0).
  rewrite pendo_fresh. apply owners_emits.
Qed.

Theorem order_exactly_once : forall p s,
  stream_shape (emits (p_ops p)) (p_ret p) (results (run p s)).
Proof.
  intros p s. rewrite <- pendS_init. apply order_running; [apply Binv_init|reflexivity].
Qed.

(* ---- per-poll facts: back-pressure and wake-ups ---- *)
Definition entry_ok (p : program) (e : observation * gstate) : Prop :=
  Binv p (snd e) /\
  o_wd (fst e) = m_woken (g_m (snd e)) /\
  o_done (fst e) = m_log (g_m (snd e)) /\
  o_blocked (fst e) = m_wait_reg (g_m (snd e)) /\
  (forall x, o_res (fst e) = RYielded x ->
     t_done (g_task (snd e)) = false /\ m_woken (g_m (snd e)) = true /\ inflight_shape (g_task (snd e)) x) /\
  (o_res (fst e) = RPendingP ->
     t_done (g_task (snd e)) = false /\ (m_woken (g_m (snd e)) = true \/ exists k, blocked_on (snd e) k)).

Lemma run_full_entries : forall s p st, Binv p st -> Forall (entry_ok p) (run_full st s).
Proof.
  induction s as [|[|k] s IH]; intros p st HB.
  - constructor.
  - rewrite run_full_poll. destruct (poll_next (pre_poll st)) as [st1 r] eqn:Hp.
    destruct (poll_any _ _ _ _ HB Hp) as (HB1 & _ & _ & _ & _ & Run & Fin).
    constructor; [|apply IH, Binv_post_poll, HB1].
    unfold entry_ok; cbn [fst snd observe o_wd o_done o_blocked o_res].
    split; [exact HB1|]. split; [reflexivity|]. split; [reflexivity|]. split; [reflexivity|].
    destruct (t_done (g_task st)) eqn:Hd.
    + destruct (Fin eq_refl) as (-> & _). split; intros; discriminate.
    + specialize (Run eq_refl). destruct r as [|y|v|]; cbn [poll_out] in Run.
      * split; [intros; discriminate|]. intros _. split; apply Run.
      * split; [|intros; discriminate]. intros x0 E. injection E as <-. repeat split; apply Run.
      * split; intros; discriminate.
      * destruct Run.
  - rewrite run_full_complete. apply IH, Binv_complete, HB.
Qed.

Lemma run_full_logs : forall s p st, Binv p st -> logs_ok (t_pc (g_task st)) (run_full st s).
Proof.
  induction s as [|[|k] s IH]; intros p st HB.
  - exact I.
  - rewrite run_full_poll. destruct (poll_next (pre_poll st)) as [st1 r] eqn:Hp.
    destruct (poll_any _ _ _ _ HB Hp) as (HB1 & Hpc & Hlog & _).
    cbn [logs_ok observe o_done]. repeat split; auto.
    apply (IH p (post_poll st1)), Binv_post_poll, HB1.
  - rewrite run_full_complete. apply (IH p (with_m (complete_m k) st)), Binv_complete, HB.
Qed.

Lemma logs_ok_mono : forall l pc i o st,
  logs_ok pc l -> nth_error l i = Some (o, st) -> (pc <= t_pc (g_task st))%nat.
Proof.
  induction l as [|[o0 st0] l IH]; intros pc i o st H Hn.
  - destruct i; discriminate.
  - destruct H as (A & B & C). destruct i as [|i].
    + injection Hn as -> ->. exact A.
    + simpl in Hn. specialize (IH _ _ _ _ C Hn). lia.
Qed.

Lemma in_seq_lt : forall j a b, (a <= b)%nat -> In j (map N.of_nat (seq a (b - a))) -> j < N.of_nat b.
Proof.
  intros j a b Hab Hin. apply in_map_iff in Hin. destruct Hin as (n & <- & Hn).
  apply in_seq in Hn. lia.
Qed.

Lemma logs_before : forall l pc i i' o st o' st',
  logs_ok pc l -> (i' <= i)%nat ->
  nth_error l i = Some (o, st) -> nth_error l i' = Some (o', st') ->
  forall j, In j (o_done o') -> j < N.of_nat (t_pc (g_task st)).
Proof.
  induction l as [|[o0 st0] l IH]; intros pc i i' o st o' st' H Hle Hi Hi' j Hj.
  - destruct i; discriminate.
  - destruct H as (A & B & C). destruct i' as [|i'].
    + injection Hi' as <- <-. rewrite B in Hj.
      pose proof (in_seq_lt _ _ _ A Hj) as L.
      destruct i as [|i].
      * injection Hi as <- <-. exact L.
      * simpl in Hi. pose proof (logs_ok_mono _ _ _ _ _ C Hi). lia.
    + destruct i as [|i]; [lia|]. simpl in Hi, Hi'.
      apply (IH _ i i' o st o' st' C); auto. lia.
Qed.

Lemma skipn_head : forall (A : Type) (l : list A) n a r, skipn n l = a :: r -> nth_error l n = Some a.
Proof.
  induction l as [|b l IH]; intros n a r H.
  - destruct n; discriminate.
  - destruct n as [|n]; simpl in *.
    + injection H as -> _. reflexivity.
    + eapply IH, H.
Qed.

Theorem back_pressure : forall p s i o st x,
  nth_error (run_full (init p) s) i = Some (o, st) -> o_res o = RYielded x ->
  let pc := t_pc (g_task st) in
  t_done (g_task st) = false /\
  ((nth_error (p_ops p) pc = Some (Yield x) /\ t_sub (g_task st) = SentWaitingFlush) \/
   (exists xs j, nth_error (p_ops p) pc = Some (YieldAll xs) /\ t_sent (g_task st) = S j /\ nth_error xs j = Some x)) /\
  (forall i' o' st', (i' <= i)%nat -> nth_error (run_full (init p) s) i' = Some (o', st') ->
     forall j, In j (o_done o') -> j < N.of_nat pc).
Proof.
  intros p s i o st x Hn Hr pc.
  pose proof (run_full_entries s p (init p) (Binv_init p)) as En.
  rewrite Forall_forall in En. specialize (En _ (nth_error_In _ _ Hn)).
  destruct En as (HB & _ & _ & _ & Hy & _). cbn [fst snd] in *.
  destruct (Hy x Hr) as (Hd & _ & Sh).
  split; [exact Hd|]. split.
  - pose proof (b_rest _ _ HB) as Er.
    destruct Sh as [(r & E1 & E2)|(xs & r & j & E1 & E2 & E3)].
    + left. split; auto. rewrite Er in E1. apply (skipn_head _ _ _ _ _ E1).
    + right. exists xs, j. repeat split; auto. rewrite Er in E1. apply (skipn_head _ _ _ _ _ E1).
  - intros i' o' st' Hle Hn' j Hj.
    apply (logs_before _ _ _ _ _ _ _ _ (run_full_logs s p (init p) (Binv_init p)) Hle Hn Hn' j Hj).
Qed.

Lemma woken_complete_blocked : forall st k,
  m_wait_reg (g_m st) = Some k -> m_woken (g_m (with_m (complete_m k) st)) = true.
Proof.
  intros [t [q pk sk op rw c wr wk lg] ret res sterm] k H. cbn in H. subst wr.
  unfold with_m, complete_m; cbn. rewrite N.eqb_refl. reflexivity.
Qed.

Theorem no_lost_wakeup : forall p s i o st,
  nth_error (run_full (init p) s) i = Some (o, st) ->
  (forall x, o_res o = RYielded x -> o_wd o = true) /\
  (o_res o = RPendingP ->
     o_wd o = true \/
     exists k r, t_done (g_task st) = false /\ t_rest (g_task st) = Wait k :: r /\
       nth_error (p_ops p) (t_pc (g_task st)) = Some (Wait k) /\
       mem k (m_completed (g_m st)) = false /\ o_blocked o = Some k /\
       m_woken (g_m (with_m (complete_m k) (post_poll st))) = true).
Proof.
  intros p s i o st Hn.
  pose proof (run_full_entries s p (init p) (Binv_init p)) as En.
  rewrite Forall_forall in En. specialize (En _ (nth_error_In _ _ Hn)).
  destruct En as (HB & Ewd & _ & Ebl & Hy & Hp). cbn [fst snd] in *.
  split.
  - intros x Hx. rewrite Ewd. apply (Hy x Hx).
  - intros Hr. destruct (Hp Hr) as (Hd & [W|(k & r & E1 & E2 & E3)]).
    + left. congruence.
    + right. exists k, r. repeat split; auto.
      * pose proof (b_rest _ _ HB) as Er. rewrite Er in E1. apply (skipn_head _ _ _ _ _ E1).
      * congruence.
      * apply woken_complete_blocked. destruct st as [t []]; exact E3.
Qed.

(* ---- liveness 1: a disciplined consumer needs at most wake_budget + 2 polls ---- *)
Lemma run_from_poll : forall st s,
  run_from st (Poll :: s) =
  observe (m_woken (g_m st)) (snd (poll_next (pre_poll st))) (fst (poll_next (pre_poll st)))
  :: run_from (post_poll (fst (poll_next (pre_poll st)))) s.
Proof. intros. unfold run_from. rewrite run_full_poll. destruct (poll_next (pre_poll st)); reflexivity. Qed.

Lemma run_from_complete : forall st k s, run_from st (Complete k :: s) = run_from (with_m (complete_m k) st) s.
Proof. reflexivity. Qed.

Lemma PhiS_post_poll : forall st, PhiS (post_poll st) = PhiS st.
Proof. intros [t [] ret res sterm]. reflexivity. Qed.

Lemma disciplined_bound : forall s p st may,
  Binv p st -> disciplined may (run_from st s) = true ->
  (length (run_from st s)
   <= PhiS st + b2n (m_woken (g_m st)) + b2n may + b2n (negb (t_done (g_task st))))%nat.
Proof.
  induction s as [|[|k] s IH]; intros p st may HB Hdis.
  - simpl. lia.
  - rewrite run_from_poll in *. destruct (poll_next (pre_poll st)) as [st1 r] eqn:Hp. cbn [fst snd] in *.
    cbn [disciplined] in Hdis. apply andb_prop in Hdis. destruct Hdis as (Hmay & Hdis).
    cbn [observe o_wb] in Hmay.
    destruct (poll_any _ _ _ _ HB Hp) as (HB1 & _ & _ & _ & Hphi & Run & Fin).
    specialize (IH p (post_poll st1) _ (Binv_post_poll _ _ HB1) Hdis).
    rewrite PhiS_post_poll in IH.
    change (m_woken (g_m (post_poll st1))) with false in IH.
    change (t_done (g_task (post_poll st1))) with (t_done (g_task st1)) in IH.
    cbn [length]. unfold warrants_next in IH; cbn [observe o_wd o_res] in IH.
    assert (Hm : (1 <= b2n (m_woken (g_m st)) + b2n may)%nat)
      by (destruct may, (m_woken (g_m st)); simpl in *; try discriminate; lia).
    destruct (t_done (g_task st)) eqn:Hd.
    + destruct (Fin eq_refl) as (-> & ->).
      change (m_woken (g_m (pre_poll st))) with false in IH.
      change (t_done (g_task (pre_poll st))) with (t_done (g_task st)) in IH. rewrite Hd in IH.
      pose proof (PhiS_done _ _ (Binv_pre_poll _ _ HB) Hd) as Z. rewrite Z in IH. simpl in IH. simpl. lia.
    + specialize (Run eq_refl). destruct r as [|x|v|]; cbn [poll_out] in Run.
      * destruct Run as (Hd1 & _). rewrite Hd1 in IH. rewrite orb_false_r in IH. simpl in IH |- *. lia.
      * destruct Run as (Hd1 & _ & W & _). rewrite Hd1, W in IH. rewrite W in Hphi. simpl in IH, Hphi |- *. lia.
      * destruct Run as (_ & Hd1 & _). rewrite Hd1 in IH. rewrite orb_true_r in IH.
        pose proof (PhiS_done _ _ HB1 Hd1) as Z. simpl in IH |- *. lia.
      * destruct Run.
  - rewrite run_from_complete in *.
    specialize (IH p _ may (Binv_complete _ _ k HB) Hdis).
    pose proof (complete_pot _ _ k HB).
    change (t_done (g_task (with_m (complete_m k) st))) with (t_done (g_task st)) in IH. lia.
Qed.

Lemma phi_rest_nil : forall ops, phi_rest [] ops = wake_sources ops.
Proof. induction ops as [|[] ops IH]; simpl; auto. Qed.

Lemma PhiS_init : forall p, PhiS (init p) = wake_budget p.
Proof.
  intros p. unfold PhiS, Phi, wake_budget. cbn [init g_task g_m t_rest t_sub t_sent t_selfwoke init_m m_completed m_open b2n].
  rewrite phi_fresh, phi_rest_nil. reflexivity.
Qed.

Theorem liveness_bound : forall p s,
  disciplined true (run p s) = true -> (length (run p s) <= wake_budget p + 2)%nat.
Proof.
  intros p s H. pose proof (disciplined_bound s p (init p) true (Binv_init p) H) as B.
  rewrite PhiS_init in B. unfold run. simpl in B. lia.
Qed.

(* ---- liveness 2: an idle consumer whose environment has completed every awaited
        event has seen the completion ---- *)
Lemma in_skipn : forall (A : Type) (a : A) n l, In a (skipn n l) -> In a l.
Proof.
  intros A a n. induction n as [|n IH]; intros l H; [exact H|].
  destruct l; [exact H|]. right. apply IH, H.
Qed.

Lemma woken_complete_mono : forall st k, m_woken (g_m st) = true -> m_woken (g_m (with_m (complete_m k) st)) = true.
Proof.
  intros [t [q pk sk op rw c wr wk lg] ret res sterm] k H. cbn in H. subst wk.
  unfold with_m, complete_m; cbn. destruct wr as [j|]; [destruct (j =? k)|]; reflexivity.
Qed.

Lemma blocked_complete_other : forall st k j, blocked_on st j -> j <> k -> blocked_on (with_m (complete_m k) st) j.
Proof.
  intros [t [q pk sk op rw c wr wk lg] ret res sterm] k j (r & E1 & E2 & E3) Hne.
  cbn [g_task g_m m_completed m_wait_reg] in *. subst wr.
  apply N.eqb_neq in Hne. exists r. unfold with_m, complete_m.
  cbn [g_task g_m m_wait_reg]. rewrite Hne. cbn [g_task g_m m_wait_reg m_completed].
  rewrite ?Hne. repeat split; auto. rewrite mem_cons, Hne, E2. reflexivity.
Qed.

Lemma progress_running : forall s p st may,
  Binv p st -> t_done (g_task st) = false ->
  (may = false -> m_woken (g_m st) = true \/ exists k, blocked_on st k) ->
  (forall k, In (Wait k) (t_rest (g_task st)) -> In (Complete k) s \/ mem k (m_completed (g_m st)) = true) ->
  idle_end st may s -> In (RComplete (p_ret p)) (results (run_from st s)).
Proof.
  induction s as [|[|k] s IH]; intros p st may HB Hd Hinv Hw Hidle.
  - destruct Hidle as (-> & Hwk). destruct (Hinv eq_refl) as [W|(k & r & E1 & E2 & E3)]; [congruence|].
    destruct (Hw k) as [[]|M]; [rewrite E1; left; reflexivity|congruence].
  - cbn [idle_end] in Hidle. change (with_m (fun m => set_log [] (set_woken false m)) st) with (pre_poll st) in Hidle.
    rewrite run_from_poll. destruct (poll_next (pre_poll st)) as [st1 r] eqn:Hp. cbn [fst snd].
    change (with_m (set_woken false) st1) with (post_poll st1) in Hidle.
    destruct (poll_running _ _ _ _ HB Hd Hp) as (HB1 & Hpc & _ & Hcomp & _ & Out).
    unfold results; cbn [map observe o_res].
    assert (Hw1 : forall k, In (Wait k) (t_rest (g_task (post_poll st1))) ->
                    In (Complete k) s \/ mem k (m_completed (g_m (post_poll st1))) = true).
    { intros k Hk. change (t_rest (g_task (post_poll st1))) with (t_rest (g_task st1)) in Hk.
      rewrite (b_rest _ _ HB1) in Hk.
      replace (t_pc (g_task st1)) with (t_pc (g_task st) + (t_pc (g_task st1) - t_pc (g_task st)))%nat in Hk by lia.
      rewrite <- skipn_skipn', <- (b_rest _ _ HB) in Hk. apply in_skipn in Hk.
      destruct (Hw k Hk) as [[E|I]|M]; [discriminate|left; exact I|right].
      change (m_completed (g_m (post_poll st1))) with (m_completed (g_m st1)). rewrite Hcomp. exact M. }
    destruct r as [|x|v|]; cbn [poll_out] in Out.
    + right. destruct Out as (Hd1 & _ & Wk).
      refine (IH p (post_poll st1) _ (Binv_post_poll _ _ HB1) Hd1 _ Hw1 Hidle).
      intros Hm. unfold warrants_next in Hm; cbn [observe o_wd o_res] in Hm. rewrite orb_false_r in Hm.
      right. destruct Wk as [W|(k & r & E1 & E2 & E3)]; [congruence|].
      exists k, r. destruct st1 as [t1 [] ? ? ?]; cbn in *. auto.
    + right. destruct Out as (Hd1 & _ & W & _).
      refine (IH p (post_poll st1) _ (Binv_post_poll _ _ HB1) Hd1 _ Hw1 Hidle).
      intros Hm. unfold warrants_next in Hm; cbn [observe o_wd o_res] in Hm. rewrite orb_true_r in Hm. discriminate.
    + left. destruct Out as (-> & _). reflexivity.
    + destruct Out.
  - cbn [idle_end] in Hidle. rewrite run_from_complete.
    apply (IH p (with_m (complete_m k) st) may (Binv_complete _ _ k HB) Hd); auto.
    + intros Hm. destruct (Hinv Hm) as [W|(j & B)].
      * left. apply woken_complete_mono, W.
      * destruct (N.eq_dec j k) as [->|Hne].
        -- left. apply woken_complete_blocked. destruct B as (r & _ & _ & E). exact E.
        -- right. exists j. apply blocked_complete_other; auto.
    + intros j Hj. change (t_rest (g_task (with_m (complete_m k) st))) with (t_rest (g_task st)) in Hj.
      assert (Q : m_completed (g_m (with_m (complete_m k) st)) = k :: m_completed (g_m st)).
      { destruct st as [t [q pk sk op rw c wr wk lg] ? ? ?]. unfold with_m, complete_m; cbn.
        destruct wr as [j'|]; [destruct (j' =? k)|]; reflexivity. }
      rewrite Q, mem_cons.
      destruct (Hw j Hj) as [[E|I]|M].
      * injection E as ->. right. rewrite N.eqb_refl. reflexivity.
      * left; exact I.
      * right. rewrite M. apply orb_true_r.
Qed.

Theorem liveness_progress : forall p s,
  idle_end (init p) true s ->
  (forall k, In (Wait k) (p_ops p) -> In (Complete k) s) ->
  In (RComplete (p_ret p)) (results (run p s)).
Proof.
  intros p s Hidle Hw. apply (progress_running s p (init p) true); auto using Binv_init; discriminate.
Qed.

(* ---- the executable monitor accepts every run of the model ---- *)
Lemma consecutive_seq : forall n pc, consecutive (N.of_nat pc) (map N.of_nat (seq pc n)) = true.
Proof.
  induction n as [|n IH]; intros pc; [reflexivity|].
  cbn [seq map consecutive]. rewrite N.eqb_refl. rewrite <- of_nat_S. apply IH.
Qed.

Lemma is_terminated_running : forall st, t_done (g_task st) = false -> is_terminated st = false.
Proof. intros st H. unfold is_terminated. rewrite H. reflexivity. Qed.

Lemma is_terminated_done : forall p st, Binv p st -> t_done (g_task st) = true -> is_terminated st = true.
Proof.
  intros p st HB H. unfold is_terminated. rewrite H, (b_res _ _ HB), (b_sterm _ _ HB).
  destruct (b_done _ _ HB H) as (_ & -> & _). reflexivity.
Qed.

Lemma mon_step_obs : forall p st st1 r wb,
  Binv p st -> poll_next (pre_poll st) = (st1, r) ->
  mon_step p (mkMS (pendS st) (N.of_nat (t_pc (g_task st))) (t_done (g_task st))) (observe wb r st1)
  = Some (mkMS (pendS st1) (N.of_nat (t_pc (g_task st1))) (t_done (g_task st1))).
Proof.
  intros p st st1 r wb HB Hp.
  destruct (poll_any _ _ _ _ HB Hp) as (HB1 & Hpc & Hlog & _ & _ & Run & Fin).
  unfold mon_step. cbn [observe o_done o_res o_wd o_term o_blocked ms_c ms_rem ms_fin].
  rewrite Hlog, consecutive_seq. cbn [negb]. rewrite map_length, seq_length.
  replace (N.of_nat (t_pc (g_task st)) + N.of_nat (t_pc (g_task st1) - t_pc (g_task st)))
    with (N.of_nat (t_pc (g_task st1))) by lia.
  pose proof (b_pc _ _ HB1) as Bpc1.
  replace (N.of_nat (t_pc (g_task st1)) <=? N.of_nat (length (p_ops p))) with true
    by (symmetry; apply N.leb_le; lia).
  cbn [negb]. rewrite Nat2N.id.
  destruct (t_done (g_task st)) eqn:Hd.
  - destruct (Fin eq_refl) as (-> & ->).
    change (t_done (g_task (pre_poll st))) with (t_done (g_task st)). rewrite Hd.
    rewrite (is_terminated_done p _ (Binv_pre_poll _ _ HB) Hd). cbn [andb].
    unfold pre_poll. rewrite (pendS_with_m st) by (intros []; reflexivity). reflexivity.
  - specialize (Run eq_refl). destruct r as [|x|v|]; cbn [poll_out] in Run.
    + destruct Run as (Hd1 & Hpend & Wk). rewrite Hd1, Hpend, (is_terminated_running _ Hd1). cbn [orb].
      destruct Wk as [W|(k & r & E1 & E2 & E3)].
      * rewrite W. reflexivity.
      * rewrite E3. rewrite (b_rest _ _ HB1) in E1. rewrite (skipn_head _ _ _ _ _ E1).
        cbn [is_wait]. rewrite N.eqb_refl, orb_true_r. reflexivity.
    + destruct Run as (Hd1 & Hpend & W & _). rewrite Hd1, Hpend, W, (is_terminated_running _ Hd1).
      rewrite !N.eqb_refl. reflexivity.
    + destruct Run as (-> & Hd1 & Hpend). rewrite Hd1, Hpend, (is_terminated_done p _ HB1 Hd1).
      destruct (b_done _ _ HB1 Hd1) as (E & Ho & _). rewrite E, !N.eqb_refl. cbn [negb andb].
      unfold pendS. rewrite Ho. reflexivity.
    + destruct Run.
Qed.

Lemma mon_accepts_from : forall s p st,
  Binv p st ->
  mon_run p (mkMS (pendS st) (N.of_nat (t_pc (g_task st))) (t_done (g_task st))) (run_from st s) = true.
Proof.
  induction s as [|[|k] s IH]; intros p st HB.
  - reflexivity.
  - rewrite run_from_poll. destruct (poll_next (pre_poll st)) as [st1 r] eqn:Hp. cbn [fst snd mon_run].
    rewrite (mon_step_obs _ _ _ _ _ HB Hp).
    destruct (poll_any _ _ _ _ HB Hp) as (HB1 & _).
    specialize (IH p (post_poll st1) (Binv_post_poll _ _ HB1)).
    rewrite pendS_post_poll in IH. exact IH.
  - rewrite run_from_complete. specialize (IH p _ (Binv_complete _ _ k HB)).
    rewrite pendS_complete in IH. exact IH.
Qed.

Theorem monitor_accepts_model : forall p s, c13_monitor p (run p s) = true.
Proof.
  intros p s. unfold c13_monitor, mon_init, run.
  pose proof (mon_accepts_from s p (init p) (Binv_init p)) as H.
  change (pendS (init p)) with (pendo 0 true (p_ops p) NotSent 0) in H. rewrite pendo_fresh in H. exact H.
Qed.

(* ---- soundness of the monitor: what acceptance of ANY observation list means ---- *)
Lemma mon_step_inv : forall p ms o ms',
  mon_step p ms o = Some ms' ->
  let c := ms_c ms + N.of_nat (length (o_done o)) in
  consecutive (ms_c ms) (o_done o) = true /\ ms_c ms' = c /\
  match o_res o with
  | RPendingP => ms_fin ms = false /\ ms_fin ms' = false /\ ms_rem ms' = ms_rem ms /\
                 (o_wd o = true \/ exists k, o_blocked o = Some k /\ nth_error (p_ops p) (N.to_nat c) = Some (Wait k))
  | RYielded x => ms_fin ms = false /\ ms_fin ms' = false /\ ms_rem ms = (x, c) :: ms_rem ms' /\ o_wd o = true
  | RComplete r => ms_fin ms = false /\ ms_fin ms' = true /\ ms_rem ms = [] /\ ms_rem ms' = [] /\ r = p_ret p
  | RStreamEnd => ms_fin ms = true /\ ms_fin ms' = true /\ ms_rem ms' = ms_rem ms
  end.
Proof.
  intros p ms o ms' H c. unfold mon_step in H. fold c in H.
  destruct (consecutive (ms_c ms) (o_done o)); [|discriminate]. cbn [negb] in H.
  destruct (c <=? N.of_nat (length (p_ops p))); [|discriminate]. cbn [negb] in H.
  split; [reflexivity|].
  destruct (o_res o) as [|x|r|].
  - destruct (ms_fin ms); [discriminate|]. destruct (o_term o); [discriminate|]. cbn [orb] in H.
    destruct (o_wd o) eqn:W; cbn [orb] in H.
    + injection H as <-. cbn. repeat split; auto.
    + destruct (o_blocked o) as [k|] eqn:B; [|rewrite andb_false_r in H; discriminate].
      rewrite andb_true_r in H.
      destruct (nth_error (p_ops p) (N.to_nat c)) as [[]|] eqn:E; cbn [is_wait] in H; try discriminate.
      destruct (k0 =? k) eqn:Ek; [|discriminate]. apply N.eqb_eq in Ek; subst k0.
      injection H as <-. cbn. repeat split; auto. right. exists k. auto.
  - destruct (ms_rem ms) as [|[y j] rem'] eqn:R; [discriminate|].
    destruct (ms_fin ms); [discriminate|]. destruct (o_term o); [discriminate|]. cbn [negb andb] in H.
    destruct (x =? y) eqn:E1; [|discriminate]. destruct (j =? c) eqn:E2; [|discriminate].
    destruct (o_wd o); [|discriminate]. cbn in H. injection H as <-.
    apply N.eqb_eq in E1, E2. subst. cbn. repeat split; auto.
  - destruct (ms_rem ms) as [|] eqn:R; [|discriminate].
    destruct (ms_fin ms); [discriminate|]. destruct (o_term o); [|discriminate]. cbn [negb andb] in H.
    destruct (r =? p_ret p) eqn:E1; [|discriminate].
    destruct (c =? N.of_nat (length (p_ops p))); [|discriminate]. cbn in H. injection H as <-.
    apply N.eqb_eq in E1. cbn. repeat split; auto.
  - destruct (ms_fin ms); [|discriminate]. destruct (o_term o); [|discriminate]. cbn in H.
    injection H as <-. cbn. repeat split; auto.
Qed.

Lemma mon_run_shape : forall obs p ms,
  mon_run p ms obs = true ->
  (ms_fin ms = false -> stream_shape (map fst (ms_rem ms)) (p_ret p) (results obs)) /\
  (ms_fin ms = true -> exists n, results obs = repeat RStreamEnd n).
Proof.
  induction obs as [|o obs IH]; intros p ms H.
  - split; intros _.
    + exists [], []. repeat split; auto. left. split; auto. exists (map fst (ms_rem ms)). reflexivity.
    + exists 0%nat. reflexivity.
  - cbn [mon_run] in H. destruct (mon_step p ms o) as [ms'|] eqn:St; [|discriminate].
    destruct (IH p ms' H) as (IH1 & IH2). destruct (mon_step_inv _ _ _ _ St) as (_ & _ & Inv).
    unfold results in *. cbn [map].
    destruct (o_res o) as [|x|r|].
    + destruct Inv as (F & F' & R & _). split; [intros _|congruence].
      destruct (IH1 F') as (pre & post & E & Fp & Hs). rewrite R in Hs.
      exists (RPendingP :: pre), post. rewrite E. repeat split; auto. constructor; simpl; auto.
    + destruct Inv as (F & F' & R & _). split; [intros _|congruence].
      destruct (IH1 F') as (pre & post & E & Fp & Hs). rewrite R. cbn [map fst].
      exists (RYielded x :: pre), post. rewrite E. repeat split; auto. { constructor; simpl; auto. }
      change (yvals (RYielded x :: pre)) with (x :: yvals pre).
      destruct Hs as [(-> & later & Hl)|(n & -> & Hy)].
      * left. split; auto. exists later. rewrite Hl. reflexivity.
      * right. exists n. split; auto. rewrite Hy. reflexivity.
    + destruct Inv as (F & F' & R & R' & ->). split; [intros _|congruence].
      destruct (IH2 F') as (n & Hn). rewrite Hn, R.
      exists [], (RComplete (p_ret p) :: repeat RStreamEnd n). repeat split; auto. right. exists n. auto.
    + destruct Inv as (F & F' & R). split; [congruence|intros _].
      destruct (IH2 F') as (n & Hn). exists (S n). rewrite Hn. reflexivity.
Qed.

Theorem monitor_sound_order : forall p obs,
  c13_monitor p obs = true -> stream_shape (emits (p_ops p)) (p_ret p) (results obs).
Proof.
  intros p obs H. destruct (mon_run_shape obs p (mon_init p) H) as (A & _).
  specialize (A eq_refl). cbn [mon_init ms_rem] in A. rewrite owners_emits in A. exact A.
Qed.

Lemma mon_run_wake : forall obs p ms,
  mon_run p ms obs = true ->
  Forall (fun o => (forall x, o_res o = RYielded x -> o_wd o = true) /\
                   (o_res o = RPendingP -> o_wd o = true \/ exists k, o_blocked o = Some k)) obs.
Proof.
  induction obs as [|o obs IH]; intros p ms H; [constructor|].
  cbn [mon_run] in H. destruct (mon_step p ms o) as [ms'|] eqn:St; [|discriminate].
  constructor; [|apply (IH p ms' H)].
  destruct (mon_step_inv _ _ _ _ St) as (_ & _ & Inv).
  destruct (o_res o) as [|x|r|]; split; intros; try discriminate.
  - destruct Inv as (_ & _ & _ & [W|(k & B & _)]); [left; exact W|right; exists k; exact B].
  - apply Inv.
Qed.

Theorem monitor_sound_wakeup : forall p obs,
  c13_monitor p obs = true ->
  Forall (fun o => (forall x, o_res o = RYielded x -> o_wd o = true) /\
                   (o_res o = RPendingP -> o_wd o = true \/ exists k, o_blocked o = Some k)) obs.
Proof. intros p obs H. apply (mon_run_wake obs p (mon_init p) H). Qed.

Lemma consecutive_lt : forall l c d, consecutive c l = true -> In d l -> d < c + N.of_nat (length l).
Proof.
  induction l as [|x l IH]; intros c d H Hin; [destruct Hin|].
  cbn [consecutive] in H. apply andb_prop in H. destruct H as (E & H). apply N.eqb_eq in E. subst x.
  cbn [length]. destruct Hin as [<-|Hin]; [lia|]. specialize (IH _ _ H Hin). lia.
Qed.

Lemma mon_run_back_pressure : forall obs p ms i o x,
  mon_run p ms obs = true -> nth_error obs i = Some o -> o_res o = RYielded x ->
  exists j, In (x, j) (ms_rem ms) /\ ms_c ms <= j /\
    forall i' o', (i' <= i)%nat -> nth_error obs i' = Some o' -> forall d, In d (o_done o') -> d < j.
Proof.
  induction obs as [|o0 obs IH]; intros p ms i o x H Hn Hr; [destruct i; discriminate|].
  cbn [mon_run] in H. destruct (mon_step p ms o0) as [ms'|] eqn:St; [|discriminate].
  destruct (mon_step_inv _ _ _ _ St) as (Cons & Hc & Inv).
  destruct i as [|i].
  - injection Hn as ->. rewrite Hr in Inv. destruct Inv as (_ & _ & R & _).
    exists (ms_c ms + N.of_nat (length (o_done o))). rewrite R. split; [left; reflexivity|]. split; [lia|].
    intros i' o' Hle Hn' d Hd. destruct i' as [|i']; [|lia]. injection Hn' as <-.
    apply (consecutive_lt _ _ _ Cons Hd).
  - simpl in Hn. destruct (IH p ms' i o x H Hn Hr) as (j & Hin & Hle & Hall).
    exists j. split; [|split].
    + revert Hin. generalize (x, j). intros e He.
      destruct (o_res o0).
      * destruct Inv as (_ & _ & R & _). rewrite <- R. exact He.
      * destruct Inv as (_ & _ & R & _). rewrite R. right; exact He.
      * destruct Inv as (_ & _ & _ & R' & _). rewrite R' in He. destruct He.
      * destruct Inv as (_ & _ & R). rewrite <- R. exact He.
    + lia.
    + intros i' o' Hle' Hn' d Hd. destruct i' as [|i'].
      * injection Hn' as <-. pose proof (consecutive_lt _ _ _ Cons Hd). lia.
      * simpl in Hn'. apply (Hall i' o'); auto. lia.
Qed.

Theorem monitor_sound_back_pressure : forall p obs i o x,
  c13_monitor p obs = true -> nth_error obs i = Some o -> o_res o = RYielded x ->
  exists j, In (x, j) (owners_from 0 (p_ops p)) /\
    forall i' o', (i' <= i)%nat -> nth_error obs i' = Some o' -> forall d, In d (o_done o') -> d < j.
Proof.
  intros p obs i o x H Hn Hr.
  destruct (mon_run_back_pressure obs p (mon_init p) i o x H Hn Hr) as (j & A & _ & B).
  exists j. split; auto.
Qed.

(* ------------------------------------ 5. into_yielded and into_complete *)
Lemma poll_finished_gen : forall p st,
  Binv p st -> t_done (g_task st) = true -> poll_next st = (st, RStreamEnd).
Proof.
  intros p [[pc rest sb sent sw dn] m ret res sterm] HB Hd. simpl in Hd; subst dn.
  destruct (b_done _ _ HB eq_refl) as (_ & Ho & _).
  pose proof (b_res _ _ HB) as Hr. pose proof (b_sterm _ _ HB) as Hs.
  cbn [g_task g_m g_ret g_res g_sterm] in *. subst res. rewrite Ho in Hs. simpl in Hs. subst sterm.
  reflexivity.
Qed.

Lemma run_mode_raw_full : forall s fuel st, run_mode_full MRaw fuel st s = run_full st s.
Proof.
  induction s as [|[|k] s IH]; intros fuel st; [reflexivity| |apply IH].
  cbn [run_mode_full run_full poll_mode].
  destruct (poll_next (with_m (fun m => set_log [] (set_woken false m)) st)) as [st1 r].
  rewrite IH. reflexivity.
Qed.

Theorem run_mode_raw : forall p s, run_mode MRaw p s = run p s.
Proof. intros. unfold run_mode, run, run_from. rewrite run_mode_raw_full. reflexivity. Qed.

Lemma rmf_poll : forall md fuel st s,
  run_mode_full md fuel st (Poll :: s) =
  let '(st1, r) := poll_mode md fuel (pre_poll st) in
  (Ob (m_woken (g_m st)) r (m_woken (g_m st1)) (m_log (g_m st1)) (m_wait_reg (g_m st1)) (term_mode md st1), st1)
  :: run_mode_full md fuel (post_poll st1) s.
Proof. reflexivity. Qed.

Lemma rmf_complete : forall md fuel st k s,
  run_mode_full md fuel st (Complete k :: s) = run_mode_full md fuel (with_m (complete_m k) st) s.
Proof. reflexivity. Qed.

(* ---- into_yielded: the yielded values, in order, then None for ever ---- *)
Definition yielded_shape (pend : list N) (rs : list poll_result) : Prop :=
  exists pre n, rs = pre ++ repeat RStreamEnd n /\ Forall running_result pre /\
    (exists later, pend = yvals pre ++ later) /\ (n <> 0%nat -> yvals pre = pend).

Lemma wy_finished : forall s p st fuel,
  Binv p st -> t_done (g_task st) = true ->
  exists n, results (map fst (run_mode_full MYielded fuel st s)) = repeat RStreamEnd n.
Proof.
  unfold results.
  induction s as [|[|k] s IH]; intros p st fuel HB Hd.
  - exists 0%nat. reflexivity.
  - rewrite rmf_poll. cbn [poll_mode]. unfold poll_into_yielded.
    rewrite (poll_finished_gen p (pre_poll st) (Binv_pre_poll _ _ HB) Hd).
    destruct (IH p (post_poll (pre_poll st)) fuel) as (n & Hn).
    + apply Binv_post_poll, Binv_pre_poll, HB.
    + exact Hd.
    + exists (S n). cbn [map fst o_res repeat]. rewrite Hn. reflexivity.
  - rewrite rmf_complete. apply (IH p); [apply Binv_complete, HB|exact Hd].
Qed.

Lemma wy_running : forall s p st fuel,
  Binv p st -> t_done (g_task st) = false ->
  yielded_shape (map fst (pendS st)) (results (map fst (run_mode_full MYielded fuel st s))).
Proof.
  unfold results.
  induction s as [|[|k] s IH]; intros p st fuel HB Hd.
  - exists [], 0%nat. repeat split; auto; [|congruence]. exists (map fst (pendS st)). reflexivity.
  - rewrite rmf_poll. cbn [poll_mode]. unfold poll_into_yielded.
    destruct (poll_next (pre_poll st)) as [st1 r] eqn:Hp.
    destruct (poll_running _ _ _ _ HB Hd Hp) as (HB1 & _ & _ & _ & _ & Out).
    destruct r as [|x|v|]; cbn [poll_out] in Out.
    + destruct Out as (Hd1 & Hpend & _). cbn [map fst o_res].
      destruct (IH p (post_poll st1) fuel (Binv_post_poll _ _ HB1) Hd1) as (pre & n & E & Fp & Hl & Hn).
      rewrite pendS_post_poll, Hpend in Hl, Hn.
      exists (RPendingP :: pre), n. rewrite E. repeat split; auto. constructor; simpl; auto.
    + destruct Out as (Hd1 & Hpend & _). cbn [map fst o_res].
      destruct (IH p (post_poll st1) fuel (Binv_post_poll _ _ HB1) Hd1) as (pre & n & E & Fp & (later & Hl) & Hn).
      rewrite pendS_post_poll in Hl, Hn. rewrite Hpend. cbn [map fst].
      exists (RYielded x :: pre), n. rewrite E. change (yvals (RYielded x :: pre)) with (x :: yvals pre).
      repeat split; auto.
      * constructor; simpl; auto.
      * exists later. rewrite Hl. reflexivity.
      * intros Hz. rewrite (Hn Hz). reflexivity.
    + destruct Out as (_ & Hd1 & Hpend).
      rewrite (poll_finished_gen p st1 HB1 Hd1). cbn [map fst o_res].
      destruct (wy_finished s p (post_poll st1) fuel (Binv_post_poll _ _ HB1) Hd1) as (n & Hn).
      unfold results in Hn. rewrite Hn, Hpend.
      exists [], (S n). repeat split; auto. exists []. reflexivity.
    + destruct Out.
  - rewrite rmf_complete.
    specialize (IH p (with_m (complete_m k) st) fuel (Binv_complete _ _ k HB) Hd).
    rewrite pendS_complete in IH. exact IH.
Qed.

Theorem into_yielded_order : forall p s,
  yielded_shape (emits (p_ops p)) (results (run_mode MYielded p s)).
Proof.
  intros p s. rewrite <- pendS_init. unfold run_mode. apply (wy_running s p (init p)); [apply Binv_init|reflexivity].
Qed.

(* ---- into_complete: Pending until it returns the closure's result; unwrap never sees None ---- *)
Lemma pic_spec : forall p fuel st st1 c,
  Binv p st -> t_done (g_task st) = false -> (length (pendS st) <= fuel)%nat ->
  poll_into_complete fuel st = (st1, c) ->
  Binv p st1 /\
  ((c = CPending /\ t_done (g_task st1) = false /\ (length (pendS st1) <= length (pendS st))%nat) \/
   (c = CReady (p_ret p) /\ t_done (g_task st1) = true)).
Proof.
  intros p. induction fuel as [|fuel IH]; intros st st1 c HB Hd Hf Hp; cbn [poll_into_complete] in Hp;
    destruct (poll_next st) as [st' r] eqn:Hn;
    destruct (poll_running_gen _ _ _ _ HB Hd Hn) as (HB' & _ & _ & _ & _ & Out);
    destruct r as [|x|v|]; cbn [poll_out] in Out.
  - injection Hp as <- <-. destruct Out as (Hd' & Hpend & _). split; auto. left. rewrite Hpend. auto.
  - destruct Out as (_ & Hpend & _). rewrite Hpend in Hf. simpl in Hf. lia.
  - injection Hp as <- <-. destruct Out as (-> & Hd' & _). split; auto.
  - destruct Out.
  - injection Hp as <- <-. destruct Out as (Hd' & Hpend & _). split; auto. left. rewrite Hpend. auto.
  - destruct Out as (Hd' & Hpend & _). rewrite Hpend in Hf. simpl in Hf.
    destruct (IH st' st1 c HB' Hd' ltac:(lia) Hp) as (A & [(B1 & B2 & B3)|B]).
    + split; auto. left. repeat split; auto. rewrite Hpend. simpl. lia.
    + split; auto.
  - injection Hp as <- <-. destruct Out as (-> & Hd' & _). split; auto.
  - destruct Out.
Qed.

Definition complete_shape (ret : N) (rs : list poll_result) : Prop :=
  exists n, rs = repeat RPendingP n \/ exists rest, rs = repeat RPendingP n ++ RComplete ret :: rest.

Lemma length_pendS_pre_poll : forall st, pendS (pre_poll st) = pendS st.
Proof. intros. unfold pre_poll. apply pendS_with_m. intros []; reflexivity. Qed.

Lemma wc_running : forall s p st fuel,
  Binv p st -> t_done (g_task st) = false -> (length (pendS st) <= fuel)%nat ->
  complete_shape (p_ret p) (results (map fst (run_mode_full MComplete fuel st s))).
Proof.
  unfold results.
  induction s as [|[|k] s IH]; intros p st fuel HB Hd Hf.
  - exists 0%nat. left. reflexivity.
  - rewrite rmf_poll. cbn [poll_mode].
    destruct (poll_into_complete fuel (pre_poll st)) as [st1 c] eqn:Hp.
    assert (Hf' : (length (pendS (pre_poll st)) <= fuel)%nat) by (rewrite length_pendS_pre_poll; exact Hf).
    destruct (pic_spec p fuel (pre_poll st) st1 c (Binv_pre_poll _ _ HB) Hd Hf' Hp) as (HB1 & [(-> & Hd1 & Hl)|(-> & Hd1)]).
    + rewrite length_pendS_pre_poll in Hl. cbn [map fst o_res cpoll_result].
      destruct (IH p (post_poll st1) fuel (Binv_post_poll _ _ HB1) Hd1) as (n & [E|(rest & E)]).
      * rewrite pendS_post_poll. lia.
      * exists (S n). left. rewrite E. reflexivity.
      * exists (S n). right. exists rest. rewrite E. reflexivity.
    + cbn [map fst o_res cpoll_result]. exists 0%nat. right. eexists. reflexivity.
  - rewrite rmf_complete. apply (IH p); [apply Binv_complete, HB|exact Hd|rewrite pendS_complete; exact Hf].
Qed.

Theorem into_complete_result : forall p s,
  complete_shape (p_ret p) (results (run_mode MComplete p s)).
Proof.
  intros p s. unfold run_mode. apply (wc_running s p (init p)); [apply Binv_init|reflexivity|].
  rewrite <- (map_length fst), pendS_init. lia.
Qed.

(* ---- the bound in terms of program size ---- *)
Lemma wake_sources_le : forall ops, (wake_sources ops <= length ops + item_count ops)%nat.
Proof. induction ops as [|[] ops IH]; simpl; lia. Qed.

Theorem liveness_bound_size : forall p s,
  disciplined true (run p s) = true ->
  (length (run p s) <= length (p_ops p) + item_count (p_ops p) + 3)%nat.
Proof.
  intros p s H. pose proof (liveness_bound p s H). pose proof (wake_sources_le (p_ops p)).
  unfold wake_budget in *. lia.
Qed.
