(* Proofs/C13smProof.v — every model trace is accepted by step13 (Model/Monitors13.v): progress values delivered in order
   before anything else happens; requests only after the check (or the wait for the reboot) has announced itself, the
   installer only after InstallingUpdate, the reboot only after WaitingForReboot. *)
Require Import Verif.Model.Time Verif.Base.Bytes Verif.Proofs.BytesFacts Verif.Model.Version Verif.Model.Json Verif.Model.Proto
               Verif.Model.Request Verif.Model.Env Verif.Model.SM Verif.Model.Monitors13
               Verif.Proofs.Monitor Verif.Proofs.MonitorG.
From Coq Require Import Lia.
Open Scope Z_scope.

Notation TG := (tripleG step13).

(* actions the monitor ignores whenever no progress value is owed *)
Definition dull (a : action) : bool :=
  match a with
  | AEvent (EvProgress _) | AEvent (EvResult _) | AEvent (EvState (CheckingForUpdates _)) | AEvent (EvState InstallingUpdate)
  | AEvent (EvState WaitingForReboot) | AEvent (EvState Idle) | AHttp _ _ | AInstaller _ _ => false
  | _ => true
  end.
Lemma step_dull q a : dull a = true -> prog13 q = [] -> step13 q a = Some q.
Proof.
  intros Ha Hp. destruct a as [ev|pq ans|w o|c ans|c|w|op ok|mt|id src|id r]; try discriminate Ha; unfold step13; try rewrite Hp; try reflexivity.
  destruct ev as [s| | | | | |]; try discriminate Ha; try reflexivity. destruct s; try discriminate Ha; reflexivity.
Qed.
Lemma step_ctl_req q id s : step13 q (ARequest id s) = Some q. Proof. reflexivity. Qed.
Lemma step_ctl_rep q id r : step13 q (AReply id r) = Some q. Proof. reflexivity. Qed.

Definition L (P : q13 -> Prop) : q13 -> env -> Prop := fun q _ => P q.
(* programs that emit only such actions preserve every predicate on the monitor state *)
Definition Quiet (P : q13 -> Prop) : Prop := forall q, P q -> prog13 q = [].
Definition ninv {A} (m : M A) : Prop := forall P, Quiet P -> TG (L P) m (fun _ => L P).
Lemma ninv_ret {A} (a : A) : ninv (ret a). Proof. intros P _. apply tripleG_ret. auto. Qed.
Lemma ninv_bind {A B} (m : M A) (f : A -> M B) : ninv m -> (forall a, ninv (f a)) -> ninv (bind m f).
Proof. intros Hm Hf P HP. eapply tripleG_bind; [apply Hm; exact HP|]. intro a. apply Hf. exact HP. Qed.
Lemma ninv_silent {A} (m : M A) : (forall e, e_trace (snd (m e)) = e_trace e) -> ninv m.
Proof. intros H P _. apply tripleG_silent; [exact H|]. intros q e a Hp _. exact Hp. Qed.
Lemma ninv_emit a : dull a = true -> ninv (emit a).
Proof. intros H P HP. apply tripleG_emit. intros q e Hp. exists q. split; [apply step_dull; [exact H|apply HP; exact Hp]|exact Hp]. Qed.
Lemma ninv_report x : ninv (report x). Proof. unfold report. apply ninv_emit. reflexivity. Qed.
Lemma ninv_write op : ninv (st_write op).
Proof.
  intros P HP q0 e q Hq Hp. exists q. split.
  - unfold mst, st_write. cbn [snd upd_trace e_trace rev]. rewrite runmon_app. unfold mst in Hq. rewrite Hq. cbn [runmon].
    rewrite step_dull; [reflexivity|reflexivity|apply HP; exact Hp].
  - cbn [fst st_write]. exact Hp.
Qed.
Lemma ninv_halt {A} : ninv (@halt A). Proof. intros P _. apply tripleG_halt. Qed.
Lemma ninv_iterM {A} (f : A -> M unit) l : (forall x, ninv (f x)) -> ninv (iterM f l).
Proof. intros H P HP. apply tripleG_iterM. intros x _. apply H. exact HP. Qed.
Lemma ninv_after_event b : ninv (after_event b).
Proof.
  intros P _ q0 e q Hm Hp. exists q. unfold mst, after_event in *.
  destruct (c_inject (e_cs e)) as [|[k src] rest]; [split; [exact Hm|exact Hp]|].
  destruct ((k <=? c_evn (e_cs e))%N && negb b); [|split; [exact Hm|exact Hp]].
  destruct (c_incheck (e_cs e)); cbn [fst snd upd_trace set_cs e_trace rev]; (split; [|exact Hp]).
  - rewrite <- app_assoc, runmon_app, Hm. reflexivity.
  - rewrite runmon_app, Hm. reflexivity.
Qed.
Lemma ninv_yield ev : dull (AEvent ev) = true -> ninv (yield_ ev).
Proof. intro H. unfold yield_. apply ninv_bind; [apply ninv_emit; exact H|]. intros []. apply ninv_after_event. Qed.
Lemma ninv_enter_check : ninv enter_check.
Proof.
  intros P _ q0 e q Hm Hp. exists q. split; [|exact Hp].
  unfold mst, enter_check in *. cbn [snd upd_trace set_cs e_trace].
  rewrite rev_app_distr, rev_involutive, runmon_app, Hm.
  induction (c_inq (e_cs e)) as [|x r IH]; cbn [map runmon]; [reflexivity|exact IH].
Qed.
Ltac sil := apply ninv_silent; intro e; reflexivity.
Lemma ninv_pop_queued : ninv pop_queued. Proof. apply ninv_silent. intro e. unfold pop_queued. destruct (c_inq (e_cs e)); reflexivity. Qed.
Lemma ninv_do_outer_select roles : ninv (do_outer_select roles).
Proof.
  intros P HP. unfold do_outer_select. eapply tripleG_bind; [apply ninv_pop_queued; exact HP|].
  intros [[id src]|]; [apply tripleG_ret; auto|].
  intros q0 e q Hm Hp. exists q. unfold mst in *.
  destruct (outer_select (e_stim e) roles (e_ctl e)) as [[[[[src id]|] r] c]|]; cbn [fst snd upd_trace set_stim e_trace rev].
  - split; [rewrite runmon_app, Hm; reflexivity|exact Hp].
  - split; [exact Hm|exact Hp].
  - split; [exact Hm|exact I].
Qed.
Lemma ninv_read_clock : ninv read_clock. Proof. apply ninv_silent. intro e. unfold read_clock. destruct (e_clock e); reflexivity. Qed.
Lemma ninv_pop_next_time : ninv pop_next_time. Proof. apply ninv_silent. intro e. unfold pop_next_time. destruct (q_next_time e); reflexivity. Qed.
Lemma ninv_pop_allowed : ninv pop_allowed. Proof. apply ninv_silent. intro e. unfold pop_allowed. destruct (q_allowed e); reflexivity. Qed.
Lemma ninv_pop_can_start : ninv pop_can_start. Proof. apply ninv_silent. intro e. unfold pop_can_start. destruct (q_can_start e); reflexivity. Qed.
Lemma ninv_pop_reboot_needed : ninv pop_reboot_needed. Proof. apply ninv_silent. intro e. unfold pop_reboot_needed. destruct (q_reboot_needed e); reflexivity. Qed.
Lemma ninv_pop_reboot_allowed : ninv pop_reboot_allowed. Proof. apply ninv_silent. intro e. unfold pop_reboot_allowed. destruct (q_reboot_allowed e); reflexivity. Qed.
Lemma ninv_pop_http : ninv pop_http. Proof. apply ninv_silent. intro e. unfold pop_http. destruct (q_http e); reflexivity. Qed.
Lemma ninv_pop_plan : ninv pop_plan. Proof. apply ninv_silent. intro e. unfold pop_plan. destruct (q_plan e); reflexivity. Qed.
Lemma ninv_pop_perform : ninv pop_perform. Proof. apply ninv_silent. intro e. unfold pop_perform. destruct (q_perform e); reflexivity. Qed.
Lemma ninv_pop_reboot : ninv pop_reboot. Proof. apply ninv_silent. intro e. unfold pop_reboot. destruct (q_reboot e); reflexivity. Qed.
Lemma ninv_pop_backoff : ninv pop_backoff. Proof. apply ninv_silent. intro e. unfold pop_backoff. destruct (q_backoff e); reflexivity. Qed.
Lemma ninv_pop_stim : ninv pop_stim. Proof. apply ninv_silent. intro e. unfold pop_stim. destruct (e_stim e); reflexivity. Qed.
Lemma ninv_canon_guid d : ninv (canon_guid d). Proof. apply ninv_silent. intro e. unfold canon_guid. destruct (glookup (e_guids e) d); reflexivity. Qed.
Lemma ninv_st_get_time k : ninv (st_get_time k).
Proof. unfold st_get_time. apply ninv_bind; [sil|intro; apply ninv_ret]. Qed.
Lemma ninv_with_ids b s r : ninv (with_ids b s r).
Proof. unfold with_ids. apply ninv_bind; [apply ninv_canon_guid|intro]. apply ninv_bind; [apply ninv_canon_guid|intro]. apply ninv_ret. Qed.
Lemma ninv_maybe_ids (c : bool) b s r : ninv (if c then with_ids b s r else ret b).
Proof. destruct c; [apply ninv_with_ids|apply ninv_ret]. Qed.
Lemma ninv_now : ninv now.
Proof. unfold now. apply ninv_bind; [apply ninv_read_clock|intro c]. apply ninv_bind; [apply ninv_emit; reflexivity|intro; apply ninv_ret]. Qed.
Lemma ninv_set_opt k v : ninv (st_set_option_int k v).
Proof. unfold st_set_option_int. destruct v; apply ninv_write. Qed.
Lemma ninv_ctx_persist s ps : ninv (ctx_persist s ps).
Proof. unfold ctx_persist. repeat (apply ninv_bind; [apply ninv_set_opt|intro]). apply ninv_ret. Qed.
Lemma ninv_persist_data m : ninv (persist_data m).
Proof.
  unfold persist_data. apply ninv_bind; [apply ninv_ctx_persist|intro]. apply ninv_bind.
  - apply ninv_iterM. intro ap. apply ninv_bind; [apply ninv_write|intro; apply ninv_ret].
  - intro. apply ninv_bind; [apply ninv_write|intro; apply ninv_ret].
Qed.
Lemma ninv_report_check_interval src m : ninv (report_check_interval src m).
Proof.
  unfold report_check_interval. apply ninv_bind; [apply ninv_now|intro n]. apply ninv_bind; [|intro; apply ninv_ret].
  destruct (s_last_check (m_sched m)) as [[w|mm|c]|]; try apply ninv_ret.
  - destruct (w <=? wall n); [apply ninv_report|apply ninv_ret].
  - destruct (mono c <=? mono n); [apply ninv_report|apply ninv_ret].
Qed.
Lemma ninv_record_first_seen plan t : ninv (record_first_seen plan t).
Proof.
  unfold record_first_seen. apply ninv_bind; [sil|intro prev].
  assert (Hnew : ninv (ok1 <- st_write (SSetStr K_INSTALL_PLAN_ID plan);;
                        (if negb ok1 then ret t
                         else ok2 <- st_set_time K_FIRST_SEEN t;;
                              (if negb ok2 then st_write (SRemove K_INSTALL_PLAN_ID);;; ret t else st_write SCommit;;; ret t)))).
  { apply ninv_bind; [apply ninv_write|intro ok1]. destruct (negb ok1); [apply ninv_ret|].
    apply ninv_bind; [apply ninv_set_opt|intro ok2]. destruct (negb ok2);
      (apply ninv_bind; [apply ninv_write|intro; apply ninv_ret]). }
  destruct prev as [p|]; [|exact Hnew].
  destruct (bytes_eqb p plan); [|exact Hnew].
  apply ninv_bind; [apply ninv_st_get_time|intro]. apply ninv_ret.
Qed.
Lemma ninv_report_attempts s : ninv (report_attempts_to_successful_install s).
Proof.
  unfold report_attempts_to_successful_install. apply ninv_bind; [sil|intro].
  apply ninv_bind; [apply ninv_report|intro]. apply ninv_bind; [destruct s; apply ninv_write|intro]. apply ninv_ret.
Qed.
Lemma ninv_update_next m : ninv (update_next_update_time m).
Proof.
  unfold update_next_update_time. apply ninv_bind; [apply ninv_pop_next_time|intro t].
  apply ninv_bind; [apply ninv_emit; reflexivity|intro]. apply ninv_bind; [apply ninv_yield; reflexivity|intro]. apply ninv_ret.
Qed.
Lemma ninv_make_wait t : ninv (make_wait t).
Proof.
  unfold make_wait. destruct (t_min t).
  - apply ninv_bind; [apply ninv_emit; reflexivity|intro]. apply ninv_bind; [apply ninv_emit; reflexivity|intro]. apply ninv_ret.
  - apply ninv_bind; [apply ninv_emit; reflexivity|intro]. apply ninv_ret.
Qed.
Lemma ninv_ask_reboot src : ninv (ask_reboot_allowed src).
Proof.
  unfold ask_reboot_allowed. apply ninv_bind; [apply ninv_pop_reboot_allowed|intro b].
  apply ninv_bind; [apply ninv_emit; reflexivity|intro]. apply ninv_ret.
Qed.
Lemma ninv_handle_in_reboot id sc0 : ninv (handle_in_reboot id sc0).
Proof. unfold handle_in_reboot. apply ninv_bind; [apply ninv_emit; reflexivity|intro]. destruct sc0; [apply ninv_ask_reboot|apply ninv_ret]. Qed.

(* ---------- programs that may also send requests: a check or the wait for the reboot must have announced itself ---------- *)
Definition Live (P : q13 -> Prop) : Prop := forall q, P q -> chk13 q || wfr13 q = true.
Definition hinv {A} (m : M A) : Prop := forall P, Quiet P -> Live P -> TG (L P) m (fun _ => L P).
Lemma hinv_n {A} (m : M A) : ninv m -> hinv m. Proof. intros H P HP _. apply H. exact HP. Qed.
Lemma hinv_ret {A} (a : A) : hinv (ret a). Proof. apply hinv_n, ninv_ret. Qed.
Lemma hinv_bind {A B} (m : M A) (f : A -> M B) : hinv m -> (forall a, hinv (f a)) -> hinv (bind m f).
Proof. intros Hm Hf P HP HL. eapply tripleG_bind; [apply Hm; assumption|]. intro a. apply Hf; assumption. Qed.
Lemma hinv_halt {A} : hinv (@halt A). Proof. apply hinv_n, ninv_halt. Qed.
Lemma hinv_http w o : hinv (emit (AHttp w o)).
Proof.
  intros P HP HL. apply tripleG_emit. intros q e Hp. exists q. split; [|exact Hp].
  unfold step13. rewrite (HP q Hp), (HL q Hp). reflexivity.
Qed.
Lemma hinv_do_req b m : hinv (do_omaha_request b m).
Proof.
  unfold do_omaha_request.
  destruct (negb (u_valid (m_url m))); [apply hinv_ret|].
  destruct (negb (headers_ok (m_cfg m) b)).
  { apply hinv_bind; [|intro; apply hinv_ret]. destruct (m_cup m); [|apply hinv_ret]. apply hinv_bind; [apply hinv_n; sil|intro; apply hinv_ret]. }
  apply hinv_bind. { destruct (m_cup m); [|apply hinv_ret]. apply hinv_bind; [apply hinv_n; sil|intro; apply hinv_ret]. }
  intro uri. apply hinv_bind; [apply hinv_n, ninv_pop_http|intro o]. apply hinv_bind; [apply hinv_http|intro].
  destruct o as [k|status ra au bd]; [apply hinv_ret|].
  destruct (match m_cup m with Some _ => negb au | None => false end); [apply hinv_ret|].
  apply hinv_bind.
  { destruct (oZ_eqb (ps_poll (m_ps m)) (parse_retry_after ra)); [apply hinv_ret|]. cbv zeta.
    apply hinv_bind; [apply hinv_n, ninv_yield; reflexivity|intro]. apply hinv_bind; [apply hinv_n, ninv_ctx_persist|intro].
    apply hinv_bind; [apply hinv_n, ninv_write|intro]. apply hinv_ret. }
  intro m'. destruct ((200 <=? status) && (status <? 300))%N; apply hinv_ret.
Qed.
Lemma hinv_report_event p ev apps sess nv dur m : hinv (report_event p ev apps sess nv dur m).
Proof.
  unfold report_event. apply hinv_bind; [apply hinv_n; sil|intro]. apply hinv_bind; [apply hinv_n, ninv_maybe_ids|intro b]. apply hinv_bind; [apply hinv_do_req|].
  intros [m' [e|bd]]; [|apply hinv_ret]. apply hinv_bind; [apply hinv_n, ninv_report|intro; apply hinv_ret].
Qed.
Lemma hinv_attempt_loop b0 sess fuel : forall attempt m, hinv (attempt_loop fuel attempt b0 sess m).
Proof.
  induction fuel as [|f IH]; intros attempt m; cbn [attempt_loop]; [apply hinv_halt|].
  apply hinv_bind; [apply hinv_n, ninv_now|intro]. apply hinv_bind; [apply hinv_n; sil|intro].
  apply hinv_bind; [apply hinv_n, ninv_maybe_ids|intro b]. apply hinv_bind; [apply hinv_do_req|]. intros [m1 res].
  apply hinv_bind; [apply hinv_n, ninv_now|intro fin].
  apply hinv_bind.
  { match goal with |- hinv (if ?c then _ else _) => destruct c end; [apply hinv_n, ninv_report|apply hinv_ret]. }
  intros _. destruct res as [e|bd]; [|apply hinv_ret].
  match goal with |- hinv (if ?c then _ else _) => destruct c end.
  - apply hinv_bind; [apply hinv_n, ninv_yield; reflexivity|intro; apply hinv_ret].
  - apply hinv_bind; [apply hinv_n, ninv_pop_backoff|intro r].
    apply hinv_bind; [apply hinv_n, ninv_emit; reflexivity|intro]. apply IH.
Qed.
Lemma hinv_ping m : hinv (ping_omaha m).
Proof.
  unfold ping_omaha. cbv zeta. apply hinv_bind; [apply hinv_n; sil|intro]. apply hinv_bind; [apply hinv_n; sil|intro].
  apply hinv_bind; [apply hinv_n, ninv_maybe_ids|intro b]. apply hinv_bind; [apply hinv_do_req|]. intros [m1 res].
  destruct res as [er|[d|]]; [apply hinv_bind; [apply hinv_n, ninv_persist_data|intro; apply hinv_ret]| |apply hinv_bind; [apply hinv_n, ninv_persist_data|intro; apply hinv_ret]].
  apply hinv_bind; [apply hinv_n, ninv_now|intro n]. apply hinv_bind; [apply hinv_n, ninv_yield; reflexivity|intro].
  apply hinv_bind; [apply hinv_n, ninv_persist_data|intro]. apply hinv_ret.
Qed.
Lemma hinv_reboot_loop fuel : forall src pending m, hinv (reboot_loop fuel src pending m).
Proof.
  induction fuel as [|f IH]; intros src pending m; cbn [reboot_loop]; [apply hinv_halt|].
  apply hinv_bind; [apply hinv_n, ninv_pop_queued|]. intros [[id sc]|].
  { apply hinv_bind; [apply hinv_n, ninv_handle_in_reboot|]. intros [|]; [apply hinv_ret|apply IH]. }
  apply hinv_bind; [apply hinv_n, ninv_pop_stim|]. intros [i|sc|].
  - assert (Hping : hinv (m1 <- ping_omaha m;; mt <- update_next_update_time m1;;
                         (let '(m2, t) := mt in roles <- make_wait t;; reboot_loop f src (remove_nth i pending ++ roles) m2))).
    { apply hinv_bind; [apply hinv_ping|intro m1]. apply hinv_bind; [apply hinv_n, ninv_update_next|]. intros [m2 t].
      apply hinv_bind; [apply hinv_n, ninv_make_wait|intro roles]. apply IH. }
    destruct (nth_error pending i) as [[| |]|].
    + destruct (has_ping_roles (remove_nth i pending)); [apply IH|exact Hping].
    + destruct (has_ping_roles (remove_nth i pending)); [apply IH|exact Hping].
    + apply hinv_bind; [apply hinv_n, ninv_ask_reboot|]. intros [|]; [apply hinv_ret|].
      apply hinv_bind; [apply hinv_n, ninv_emit; reflexivity|intro]. apply IH.
    + apply IH.
  - apply hinv_bind; [apply hinv_n; sil|intro id]. apply hinv_bind; [apply hinv_n, ninv_emit; reflexivity|intro].
    apply hinv_bind; [apply hinv_n, ninv_handle_in_reboot|]. intros [|]; [apply hinv_ret|apply IH].
  - apply IH.
Qed.

(* ---------- the flow ---------- *)
Lemma ninv_fresh_guid : ninv fresh_guid. Proof. apply ninv_silent. intro e. reflexivity. Qed.
Lemma ninv_set_incheck b : ninv (set_incheck b). Proof. apply ninv_silent. intro e. reflexivity. Qed.
Lemma ninv_take_upgrade : ninv take_upgrade. Proof. apply ninv_silent. intro e. reflexivity. Qed.
Lemma ninv_st_get_str k : ninv (st_get_str k). Proof. apply ninv_silent. intro e. reflexivity. Qed.
Definition Base (q : q13) : Prop := prog13 q = [].
Definition InChk (q : q13) : Prop := prog13 q = [] /\ chk13 q = true.
Definition InInst (q : q13) : Prop := prog13 q = [] /\ chk13 q = true /\ inst13 q = true.
Definition Pg (l : list N) (q : q13) : Prop := prog13 q = l /\ chk13 q = true /\ inst13 q = true.
Definition Wfr (q : q13) : Prop := prog13 q = [] /\ wfr13 q = true.
Lemma Q_Base : Quiet Base. Proof. intros q H. exact H. Qed.
Lemma Q_InChk : Quiet InChk. Proof. intros q [H _]. exact H. Qed.
Lemma Q_InInst : Quiet InInst. Proof. intros q [H _]. exact H. Qed.
Lemma Q_Wfr : Quiet Wfr. Proof. intros q [H _]. exact H. Qed.
Lemma L_InChk : Live InChk. Proof. intros q [_ H]. rewrite H. reflexivity. Qed.
Lemma L_InInst : Live InInst. Proof. intros q (_ & H & _). rewrite H. reflexivity. Qed.
Lemma L_Wfr : Live Wfr. Proof. intros q [_ H]. rewrite H. apply Bool.orb_true_r. Qed.
#[local] Hint Resolve Q_Base Q_InChk Q_InInst Q_Wfr L_InChk L_InInst L_Wfr : c13.

Ltac nn H := eapply tripleG_bind; [eapply H; auto with c13|intro; cbv beta].
Tactic Notation "nna" constr(H) "as" ident(x) := eapply tripleG_bind; [eapply H; auto with c13|intro x; cbv beta].
Ltac ny := match goal with
  | |- TG (L ?P) (bind (yield_ ?ev) _) _ => eapply tripleG_bind; [apply (ninv_yield ev eq_refl P); auto with c13|intro; cbv beta]
  | |- TG (L ?P) (bind (yield_state ?s) _) _ => eapply tripleG_bind; [apply (ninv_yield (EvState s) eq_refl P); auto with c13|intro; cbv beta]
  end.
Ltac ne := match goal with |- TG (L ?P) (bind (emit ?a) _) _ => eapply tripleG_bind; [apply (ninv_emit a eq_refl P); auto with c13|intro; cbv beta] end.
Ltac rj := apply tripleG_ret; auto.

(* a state announcement that moves the monitor from P to Q *)
Lemma T_state s (P Q : q13 -> Prop) : Quiet Q ->
  (forall q, P q -> exists q', step13 q (AEvent (EvState s)) = Some q' /\ Q q') -> TG (L P) (yield_state s) (fun _ => L Q).
Proof.
  intros HQ H. unfold yield_state, yield_. eapply tripleG_bind with (R := fun _ => L Q); [|intros []; apply (ninv_after_event _ Q HQ)].
  apply tripleG_emit. intros q e Hp. destruct (H q Hp) as (q' & Hs & Hq'). exists q'. split; assumption.
Qed.

Lemma T_progress : forall l, TG (L (Pg l)) (iterM (fun bits => yield_ (EvProgress bits)) l) (fun _ => L InInst).
Proof.
  induction l as [|b l IH]; cbn [iterM].
  - apply tripleG_ret. intros q e H. exact H.
  - eapply tripleG_bind with (R := fun _ => L (Pg l)); [|intros []; exact IH].
    unfold yield_. eapply tripleG_bind with (R := fun _ => L (Pg l)).
    + apply tripleG_emit. intros q e (Hp & Hc & Hi). eexists. split; [unfold step13; rewrite Hp, N.eqb_refl; reflexivity|].
      unfold L, Pg, set13. cbn. auto.
    + intros []. intros q0 e q Hm Hp. exists q. unfold mst, after_event in *.
      destruct (c_inject (e_cs e)) as [|[k src] rest]; [split; [exact Hm|exact Hp]|].
      destruct ((k <=? c_evn (e_cs e))%N && negb false); [|split; [exact Hm|exact Hp]].
      destruct (c_incheck (e_cs e)); cbn [fst snd upd_trace set_cs e_trace rev]; (split; [|exact Hp]).
      * rewrite <- app_assoc, runmon_app, Hm. reflexivity.
      * rewrite runmon_app, Hm. reflexivity.
Qed.

Lemma InInst_InChk q : InInst q -> InChk q. Proof. intros (H1 & H2 & _). split; assumption. Qed.

Lemma T_perform fuel p apps m : TG (L Base) (perform_update_check fuel p apps m) (fun _ => L InChk).
Proof.
  unfold perform_update_check.
  eapply tripleG_bind; [apply (T_state _ Base InChk Q_InChk)|].
  { intros q Hq. eexists. split; [unfold step13; rewrite Hq; reflexivity|]. split; reflexivity. }
  intro; cbv beta. nna ninv_report_check_interval as m0. nna ninv_fresh_guid as sess.
  nna hinv_attempt_loop as lr. destruct lr as [[m1 attempts] res]. nn ninv_report.
  assert (Hend : forall (x : sm * (check_err + (list app_response * reboot))), TG (L InInst) (ret x) (fun _ => L InChk)).
  { intro x. apply tripleG_ret. intros q e H. apply InInst_InChk. exact H. }
  destruct res as [e|[d|]].
  - rj.
  - ny. destruct (filter uc_ok (d_apps d)) as [|wu0 wur]; [ny; rj|].
    nna ninv_pop_plan as pl.
    eapply tripleG_bind with (R := fun _ => L InChk).
    { apply tripleG_emit. intros q e [Hp Hc]. exists q. split; [unfold step13; rewrite Hp, Hc; reflexivity|split; assumption]. }
    intro; cbv beta.
    assert (Hinst : TG (L InChk) (yield_state InstallingUpdate) (fun _ => L InInst)).
    { apply (T_state _ InChk InInst Q_InInst). intros q [Hp Hc]. eexists. split; [unfold step13; rewrite Hp; reflexivity|]. repeat split; assumption. }
    destruct pl as [plan|].
    2:{ eapply tripleG_bind; [exact Hinst|intro; cbv beta]. ny. nn hinv_report_event. apply Hend. }
    nna ninv_pop_can_start as dec. ne.
    destruct dec.
    + eapply tripleG_bind; [exact Hinst|intro; cbv beta]. nna hinv_report_event as m2.
      nna ninv_now as t0. nna ninv_record_first_seen as fs. nna ninv_pop_perform as pa.
      eapply tripleG_bind with (R := fun _ => L (Pg (pa_progress pa))).
      { apply tripleG_emit. intros q e (Hp & Hc & Hi). eexists. split; [unfold step13; rewrite Hp, Hi; reflexivity|]. repeat split; assumption. }
      intro; cbv beta. eapply tripleG_bind; [apply T_progress|]. intro; cbv beta.
      nna ninv_now as t1.
      eapply tripleG_bind with (R := fun _ => L InInst).
      { match goal with |- TG _ (if ?c then _ else _) _ => destruct c end; [|rj]. nn ninv_report. rj. }
      intro dur. nna ninv_fresh_guid as req. nna ninv_maybe_ids as b.
      nna hinv_do_req as r3. destruct r3 as [m3 rr].
      eapply tripleG_bind with (R := fun _ => L InInst).
      { destruct rr; [|rj]. apply (ninv_iterM _ _ (fun x => ninv_report _)). auto with c13. }
      intro; cbv beta.
      eapply tripleG_bind with (R := fun _ => L InInst).
      { match goal with |- TG _ (match ?l with [] => _ | _ => _ end) _ => destruct l end; [rj|apply hinv_report_event; auto with c13]. }
      intro m4.
      match goal with |- TG _ (match ?n with O => _ | S _ => _ end) _ => destruct n as [|nerr] end.
      * eapply tripleG_bind with (R := fun _ => L InInst).
        { match goal with |- TG _ (if ?c then _ else _) _ => destruct c end; [apply ninv_report; auto with c13|rj]. }
        intro; cbv beta. nn ninv_set_opt.
        eapply tripleG_bind with (R := fun _ => L InInst).
        { match goal with |- TG _ (match ?x with Some _ => _ | None => _ end) _ => destruct x end; [|rj]. nn ninv_write. rj. }
        intro; cbv beta. nn ninv_write. nna ninv_pop_reboot_needed as rn. ne. apply Hend.
      * eapply tripleG_bind; [apply (ninv_iterM _ _ (fun _ : unit => ninv_yield EvInstallerError eq_refl)); auto with c13|]. intro. cbv beta. ny. apply Hend.
    + nn hinv_report_event. ny. rj.
    + nn hinv_report_event. rj.
  - ny. nn hinv_report_event. rj.
Qed.

Lemma T_start fuel p m : TG (L Base) (start_update_check fuel p m) (fun _ => L Base).
Proof.
  unfold start_update_check. eapply tripleG_bind; [apply T_perform|]. intros [m1 res].
  eapply tripleG_bind with (R := fun _ => L InChk).
  { destruct res as [e|[rs rb]].
    - eapply tripleG_bind with (R := fun _ => L InChk).
      + destruct e as [re| |]; [destruct re; rj| |]; (nna ninv_now as n; rj).
      + intros [m2 reason]. nn ninv_report. rj.
    - nna ninv_now as n. nn ninv_report.
      eapply tripleG_bind; [destruct (install_success rs); [apply ninv_report_attempts; auto with c13|apply ninv_ret; auto with c13]|]. intro. cbv beta. rj. }
  intros [[m2 result] rb]. ny. ny.
  eapply tripleG_bind with (R := fun _ => L Base).
  { unfold yield_. eapply tripleG_bind with (R := fun _ => L Base); [|intros []; apply (ninv_after_event _ Base Q_Base)].
    apply tripleG_emit. intros q e [Hp Hc]. eexists. split; [unfold step13; rewrite Hp; reflexivity|reflexivity]. }
  intro; cbv beta. nn ninv_persist_data. rj.
Qed.

Lemma T_wait_for_reboot fuel src m : TG (L Wfr) (wait_for_reboot fuel src m) (fun _ => L Wfr).
Proof.
  unfold wait_for_reboot. nna ninv_ask_reboot as ok.
  eapply tripleG_bind with (R := fun _ => L Wfr).
  { destruct ok; [rj|]. ne. nna ninv_update_next as mt. destruct mt as [m1 t]. nna ninv_make_wait as roles. apply hinv_reboot_loop; auto with c13. }
  intro m1. nna ninv_pop_reboot as okr.
  eapply tripleG_bind with (R := fun _ => L Wfr); [|intro; rj].
  apply tripleG_emit. intros q e [Hp Hw]. exists q. split; [unfold step13; rewrite Hp, Hw; reflexivity|split; assumption].
Qed.

Lemma T_run_iteration fuel finish start_mono sr m : TG (L Base) (run_iteration fuel finish start_mono sr m) (fun _ => L Base).
Proof.
  unfold run_iteration.
  eapply tripleG_bind with (R := fun _ => L Base).
  { destruct sr; [|rj]. nna ninv_now as n.
    match goal with |- TG _ (match ?x with Some _ => _ | None => _ end) _ => destruct x end; [|rj].
    nn ninv_report. nn ninv_write. nn ninv_write. nn ninv_write. rj. }
  intro sr'. nna ninv_update_next as mt. destruct mt as [m1 t].
  nna ninv_make_wait as roles. nna ninv_do_outer_select as sel. nna ninv_pop_allowed as dec. ne.
  assert (Hrep : forall r, TG (L Base) (match sel with Some (_, id) => emit (AReply id r) | None => ret tt end) (fun _ => L Base)).
  { intro r. destruct sel as [[s id]|]; [apply (ninv_emit (AReply id r) eq_refl); auto with c13|rj]. }
  destruct dec.
  1,2: (eapply tripleG_bind; [apply Hrep|intro; cbv beta]; nn ninv_enter_check;
        eapply tripleG_bind; [apply T_start|]; intros [m2 rb]; cbv beta;
        nn ninv_set_incheck; nna ninv_take_upgrade as upg;
        eapply tripleG_bind with (R := fun _ => L Base);
        [destruct rb as [pl|];
         [eapply tripleG_bind;
          [apply (T_state _ Base Wfr Q_Wfr); intros q Hq; eexists; split; [unfold step13; rewrite Hq; reflexivity|split; reflexivity]
          |intro; cbv beta; eapply tripleG_conseq; [apply T_wait_for_reboot|auto|intros ? q e [H _]; exact H]]
         |rj]
        |intro m3; cbv beta];
        eapply tripleG_bind; [apply (T_state _ Base Base Q_Base); intros q Hq; eexists; split; [unfold step13; rewrite Hq; reflexivity|reflexivity]|intro; cbv beta]; rj).
  all: (eapply tripleG_bind; [apply Hrep|intro; cbv beta]; rj).
Qed.

Lemma T_run_loop iters : forall fuel finish start_mono sr m, TG (L Base) (run_loop iters fuel finish start_mono sr m) (fun _ => L Base).
Proof.
  induction iters as [|k IH]; intros; cbn [run_loop]; [apply tripleG_halt|].
  eapply tripleG_bind; [apply T_run_iteration|]. intros [m' sr']. apply IH.
Qed.
Lemma T_run iters fuel m : TG (L Base) (run iters fuel m) (fun _ => L Base).
Proof.
  unfold run. destruct (negb (forallb app_valid (m_apps m))); [rj|].
  nna ninv_now as n. nna ninv_st_get_time as fin. nna ninv_st_get_str as tv. apply T_run_loop.
Qed.
Lemma T_oneshot fuel m : TG (L Base) (oneshot fuel m) (fun _ => L Base).
Proof. unfold oneshot. eapply tripleG_bind; [apply T_start|]. intros [m' rb]. rj. Qed.

Theorem model_accepted_c13sm ep cfg url cup apps e :
  e_trace e = [] -> accepts step13 init13 (run_case ep cfg url cup apps e) = true.
Proof.
  intros Ht. unfold run_case, accepts.
  assert (Hm0 : mst step13 init13 e = Some init13) by (unfold mst; rewrite Ht; reflexivity).
  assert (HI : L Base init13 e) by reflexivity.
  destruct ep.
  - destruct (T_run (Datatypes.S (length (e_stim e) + length (c_inject (e_cs e)))) (4 + length (e_stim e) + length (c_inject (e_cs e)))
                (build cfg url cup apps (e_store e)) init13 e init13 Hm0 HI) as (q' & Hq' & _).
    destruct (run _ _ _ e) as [r e'] eqn:E. cbn [snd] in Hq'. unfold mst in Hq'. rewrite Hq'. reflexivity.
  - destruct (T_oneshot (4 + length (e_stim e) + length (c_inject (e_cs e))) (build cfg url cup apps (e_store e)) init13 e init13 Hm0 HI) as (q' & Hq' & _).
    destruct (oneshot _ _ e) as [r e'] eqn:E. cbn [snd] in Hq'. unfold mst in Hq'. rewrite Hq'. reflexivity.
Qed.
