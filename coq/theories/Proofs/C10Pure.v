(* Proofs/C10Pure.v — the requests the model builds for its reports carry exactly the events the
   report monitor (Model/Monitors.v, step10) expects.  Pure list reasoning, no traces. *)
Require Import Verif.Model.Time Verif.Base.Bytes Verif.Proofs.BytesFacts Verif.Model.Version Verif.Model.Json Verif.Model.Proto
               Verif.Model.Request Verif.Proofs.RequestFacts Verif.Model.Env Verif.Model.SM Verif.Model.Monitors.
Open Scope N_scope.

Definition idv (apps : list app) : idvers := map (fun a => (a_id a, Version.print (a_ver a))) apps.

Definition evt (ev : event) : wev :=
  (etype_code (ev_type ev), eresult_code (ev_result ev),
   match ev_err ev with Some x => Some (eerr_code x) | None => None end, ev_prev ev, ev_next ev).
Definition wa_of (e : entry) : wapp :=
  {| wa_id := a_id (e_app e); wa_cohort := a_cohort (e_app e); wa_uc := e_uc e;
     wa_ping := if e_ping e then Some (a_uc (e_app e), a_uc (e_app e)) else None;
     wa_events := map evt (e_events e) |}.

Lemma ws_apps_summary b : ws_apps (summary_of b) = map wa_of (b_entries b).
Proof. reflexivity. Qed.

(* an expected event and the builder operation that realises it *)
Definition match_op (x : xev) (o : op) : Prop :=
  exists a ev, o = OpEvent a ev /\ x_id x = a_id a /\ ev_code ev = x_code x /\ ev_prev ev = x_prev x /\ In (ev_next ev) (x_next x).

Lemma code3_eqb_refl c : code3_eqb c c = true.
Proof. destruct c as [[t r] [e|]]; cbn; rewrite !N.eqb_refl; reflexivity. Qed.
Lemma obytes_eqb_refl o : obytes_eqb o o = true.
Proof. destruct o; cbn; [apply bytes_eqb_refl|reflexivity]. Qed.

Lemma wev_ok_of x ev :
  ev_code ev = x_code x -> ev_prev ev = x_prev x -> In (ev_next ev) (x_next x) -> wev_ok x (evt ev) = true.
Proof.
  intros Hc Hp Hn. unfold wev_ok, evt. fold (ev_code ev). rewrite Hc, Hp, code3_eqb_refl, obytes_eqb_refl. cbn [andb].
  apply existsb_exists. exists (ev_next ev). split; [exact Hn|apply obytes_eqb_refl].
Qed.

Lemma only_events_uc exp ops : Forall2 match_op exp ops ->
  forall f, existsb (fun o => match o with OpUpdateCheck _ => true | _ => false end) (filter f ops) = false
         /\ existsb (fun o => match o with OpPing _ => true | _ => false end) (filter f ops) = false.
Proof.
  induction 1 as [|x o exp ops (a & ev & -> & _) _ IH]; intro f; [split; reflexivity|].
  cbn [filter]. destruct (f (OpEvent a ev)); [cbn [existsb orb]|]; apply IH.
Qed.

Lemma evs_match_filter exp ops id : Forall2 match_op exp ops ->
  evs_match (filter (fun x => bytes_eqb (x_id x) id) exp)
            (map evt (flat_map (fun o => match o with OpEvent _ e => [e] | _ => [] end)
                               (filter (fun o => bytes_eqb (a_id (op_app o)) id) ops))) = true.
Proof.
  induction 1 as [|x o exp ops (a & ev & -> & Hid & Hc & Hp & Hn) _ IH]; [reflexivity|].
  cbn [filter op_app]. rewrite Hid. destruct (bytes_eqb (a_id a) id); [|exact IH].
  cbn [flat_map List.app map evs_match]. rewrite (wev_ok_of x ev Hc Hp Hn). exact IH.
Qed.

Lemma nodupb_NoDup l : NoDup l -> nodupb l = true.
Proof.
  induction 1 as [|x l Hx _ IH]; [reflexivity|]. cbn [nodupb]. rewrite IH, andb_true_r.
  destruct (existsb (bytes_eqb x) l) eqn:E; [|reflexivity].
  apply existsb_exists in E. destruct E as (y & Hy & E). apply bytes_eqb_eq in E. subst. contradiction.
Qed.

(* the request built from exactly the operations `ops` satisfies the expectation `exp` *)
Lemma report_ok_ops p exp ops w :
  Forall2 match_op exp ops -> ws_apps (w_sum w) = map wa_of (fold_left (apply_op p) ops []) -> report_ok exp w = true.
Proof.
  intros HF Hw. rewrite build_refines_spec in Hw. unfold report_ok. rewrite Hw.
  rewrite map_map. cbn [wa_of wa_id].
  rewrite (nodupb_NoDup _ (spec_ids_once p ops)). cbn [andb].
  apply andb_true_iff. split.
  - apply forallb_forall. intros wa Hin. apply in_map_iff in Hin. destruct Hin as (e & <- & He).
    unfold spec_entries in He. apply in_map_iff in He. destruct He as (a & <- & _).
    cbn [wa_of spec_entry e_app e_uc e_ping e_events wa_uc wa_ping wa_events wa_id].
    destruct (only_events_uc exp ops HF (fun o => bytes_eqb (a_id (op_app o)) (a_id a))) as [-> ->].
    cbn [andb]. apply evs_match_filter. exact HF.
  - apply forallb_forall. intros x Hx. apply existsb_exists.
    assert (Hm : mem (x_id x) (map oid ops) = true).
    { clear Hw. induction HF as [|x0 o exp ops (a & ev & -> & Hid & _) _ IH]; [contradiction|].
      cbn [map]. rewrite mem_cons. destruct Hx as [->|Hx].
      - unfold oid. cbn [op_app]. rewrite Hid, bytes_eqb_refl. reflexivity.
      - rewrite (IH Hx). apply orb_true_r. }
    rewrite <- (spec_ids_cover p) in Hm. unfold mem in Hm. apply existsb_exists in Hm.
    destruct Hm as (y & Hy & E). apply in_map_iff in Hy. destruct Hy as (e & <- & He).
    exists (wa_of e). split; [apply in_map; exact He|exact E].
Qed.

(* ---------- next versions: the map the model keeps versus the versions the response offers ---------- *)
Definition nv_of (l : list rapp) : nvmap := map (fun r => (r_id r, manifest_version r)) l.

Lemma find_rev_app {A} (f : A -> bool) l x :
  find f (rev (l ++ [x])) = if f x then Some x else find f (rev l).
Proof. rewrite rev_app_distr. reflexivity. Qed.

Lemma nv_get_offers (apps : list rapp) id :
  match nv_get (nv_of (filter uc_ok apps)) id with
  | Some v => In v (map manifest_version (filter (fun r => uc_ok r && bytes_eqb (r_id r) id) apps))
  | None => map manifest_version (filter (fun r => uc_ok r && bytes_eqb (r_id r) id) apps) = []
  end.
Proof.
  induction apps as [|r apps IH] using rev_ind; [reflexivity|].
  rewrite !filter_app. cbn [filter]. destruct (uc_ok r) eqn:Eu; cbn [andb].
  - unfold nv_of, nv_get. rewrite map_app. cbn [map]. rewrite find_rev_app. cbn [fst].
    destruct (bytes_eqb (r_id r) id) eqn:Ei.
    + rewrite map_app. apply in_or_app. right. left. reflexivity.
    + rewrite app_nil_r. exact IH.
  - rewrite !app_nil_r. exact IH.
Qed.

Lemma offers_eq d id :
  offers d id = map manifest_version (filter (fun r => uc_ok r && bytes_eqb (r_id r) id) (d_apps d)).
Proof. reflexivity. Qed.

(* ---------- report_event with the offered-versions map ---------- *)
Lemma report_ops_offered ev d apps dur :
  Forall2 match_op (exp_offered (ev_code ev) d (idv apps)) (report_ops ev apps (nv_of (filter uc_ok (d_apps d))) dur).
Proof.
  induction apps as [|a apps IH]; [constructor|].
  unfold exp_offered, report_ops, idv in *. cbn [map flat_map fst snd].
  apply Forall2_app; [|exact IH].
  pose proof (nv_get_offers (d_apps d) (a_id a)) as H. rewrite <- offers_eq in H.
  destruct (nv_get (nv_of (filter uc_ok (d_apps d))) (a_id a)) as [v|].
  - destruct (offers d (a_id a)) as [|o os] eqn:Eo; [contradiction|].
    constructor; [|constructor]. eexists _, _. split; [reflexivity|]. cbn. auto.
  - rewrite H. constructor.
Qed.

(* ---------- report_event for an unparseable body: every app, no next version ---------- *)
Lemma nv_get_all_none (apps : list app) a :
  In a apps -> nv_get (map (fun a => (a_id a, None)) apps) (a_id a) = Some None.
Proof.
  intro Hin. unfold nv_get.
  destruct (find (fun x : bytes * option bytes => bytes_eqb (fst x) (a_id a)) (rev (map (fun a0 => (a_id a0, @None bytes)) apps))) as [[k v]|] eqn:E.
  - apply find_some in E. destruct E as [E _]. apply in_rev in E. apply in_map_iff in E.
    destruct E as (a0 & E & _). inversion E. reflexivity.
  - exfalso. assert (Hf := find_none _ _ E (a_id a, None)). cbn [fst] in Hf. rewrite bytes_eqb_refl in Hf.
    assert (Hx : true = false); [|discriminate]. apply Hf.
    apply -> in_rev. apply in_map_iff. exists a. split; [reflexivity|exact Hin].
Qed.

Lemma report_ops_all ev apps dur :
  Forall2 match_op (exp_all (ev_code ev) (idv apps)) (report_ops ev apps (map (fun a => (a_id a, None)) apps) dur).
Proof.
  unfold exp_all, report_ops, idv. rewrite map_map. cbn [fst snd].
  set (nv := map (fun a => (a_id a, None)) apps).
  assert (H : forall l, (forall a, In a l -> In a apps) ->
    Forall2 match_op (map (fun x => {| x_id := a_id x; x_code := ev_code ev; x_prev := Some (Version.print (a_ver x)); x_next := [None] |}) l)
      (flat_map (fun a => match nv_get nv (a_id a) with
                          | Some next => [OpEvent a {| ev_type := ev_type ev; ev_result := ev_result ev; ev_err := ev_err ev;
                                                       ev_prev := Some (Version.print (a_ver a)); ev_next := next; ev_dl := dl_ms dur |}]
                          | None => [] end) l)).
  { induction l as [|a l IH]; intro Hl; [constructor|]. cbn [map flat_map].
    unfold nv. rewrite (nv_get_all_none apps a (Hl a (or_introl eq_refl))). cbn [List.app].
    constructor; [|apply IH; intros; apply Hl; right; assumption].
    eexists _, _. split; [reflexivity|]. cbn. auto. }
  apply H. auto.
Qed.

(* ---------- per-app install results ---------- *)
Definition result_base (r : ares) : event :=
  match r with RInstalled => event_success ETUpdateDownloadFinished | RDeferred => deferred_event | RFailed => event_error EEInstallation end.

Definition model_evs (apps : list app) (pairs : list (rapp * ares)) (dl : option N) : list (app * ares * event) :=
  flat_map (fun pr =>
     match find (fun a => bytes_eqb (a_id a) (r_id (fst pr))) apps with
     | Some a => [(a, snd pr, {| ev_type := ev_type (result_base (snd pr)); ev_result := ev_result (result_base (snd pr));
                                 ev_err := ev_err (result_base (snd pr));
                                 ev_prev := Some (Version.print (a_ver a)); ev_next := manifest_version (fst pr); ev_dl := dl |})]
     | None => []
     end) pairs.

Lemma ver_of_idv apps id :
  ver_of (idv apps) id = match find (fun a => bytes_eqb (a_id a) id) apps with Some a => Some (Version.print (a_ver a)) | None => None end.
Proof.
  unfold ver_of, idv. induction apps as [|a apps IH]; [reflexivity|]. cbn [map find fst].
  destruct (bytes_eqb (a_id a) id); [reflexivity|exact IH].
Qed.

Lemma c_result_code r : ev_code (result_base r) = c_result r.
Proof. destruct r; reflexivity. Qed.

Definition exp_results_on (pairs : list (rapp * ares)) (apps : idvers) : list xev :=
  flat_map (fun pr => match ver_of apps (r_id (fst pr)) with
                      | Some v => [{| x_id := r_id (fst pr); x_code := c_result (snd pr); x_prev := Some v;
                                      x_next := [manifest_version (fst pr)] |}]
                      | None => [] end) pairs.

Lemma results_ops apps pairs dl :
  Forall2 match_op (exp_results_on pairs (idv apps)) (map (fun x => OpEvent (fst (fst x)) (snd x)) (model_evs apps pairs dl)).
Proof.
  induction pairs as [|[r res] pairs IH]; [constructor|].
  unfold exp_results_on, model_evs in *. cbn [flat_map fst snd]. rewrite map_app. apply Forall2_app; [|exact IH].
  rewrite ver_of_idv.
  destruct (find (fun a => bytes_eqb (a_id a) (r_id r)) apps) as [a|] eqn:E; [|constructor].
  apply find_some in E. destruct E as [_ E]. apply bytes_eqb_eq in E.
  cbn [map fst snd]. constructor; [|constructor].
  eexists _, _. split; [reflexivity|]. cbn [x_id x_code x_prev x_next ev_prev ev_next].
  split; [symmetry; exact E|]. split; [|split; [reflexivity|left; reflexivity]].
  unfold ev_code. cbn [ev_type ev_result ev_err]. fold (ev_code (result_base res)). apply c_result_code.
Qed.

Lemma results_lost apps pairs dl :
  map (fun x => ev_code (snd x)) (model_evs apps pairs dl) = map x_code (exp_results_on pairs (idv apps)).
Proof.
  induction pairs as [|[r res] pairs IH]; [reflexivity|].
  unfold exp_results_on, model_evs in *. cbn [flat_map fst snd]. rewrite !map_app. f_equal; [|exact IH].
  rewrite ver_of_idv. destruct (find (fun a => bytes_eqb (a_id a) (r_id r)) apps) as [a|]; [|reflexivity].
  cbn [map snd x_code]. f_equal. unfold ev_code at 1. cbn [ev_type ev_result ev_err]. fold (ev_code (result_base res)). apply c_result_code.
Qed.

(* ---------- update-complete for the apps that installed ---------- *)
Definition installed_of (evs : list (app * ares * event)) : list app :=
  flat_map (fun x => match snd (fst x) with RInstalled => [fst (fst x)] | _ => [] end) evs.

Definition exp_complete_on (d : doc) (pairs : list (rapp * ares)) (apps : idvers) : list xev :=
  flat_map (fun pr => match snd pr, ver_of apps (r_id (fst pr)) with
                      | RInstalled, Some v => [{| x_id := r_id (fst pr); x_code := c_complete; x_prev := Some v;
                                                  x_next := offers d (r_id (fst pr)) |}]
                      | _, _ => [] end) pairs.

Definition compl (d : doc) (x : xev) (a : app) : Prop :=
  x_id x = a_id a /\ x_code x = c_complete /\ x_prev x = Some (Version.print (a_ver a)) /\ x_next x = offers d (a_id a)
  /\ exists r, In r (filter uc_ok (d_apps d)) /\ r_id r = a_id a.

Lemma complete_installed d apps pairs dl :
  (forall pr, In pr pairs -> In (fst pr) (filter uc_ok (d_apps d))) ->
  Forall2 (compl d) (exp_complete_on d pairs (idv apps)) (installed_of (model_evs apps pairs dl)).
Proof.
  induction pairs as [|[r res] pairs IH]; intro Hp; [constructor|].
  unfold exp_complete_on, installed_of, model_evs in *. cbn [flat_map fst snd].
  rewrite flat_map_app. apply Forall2_app; [|apply IH; intros; apply Hp; right; assumption].
  rewrite ver_of_idv.
  destruct (find (fun a => bytes_eqb (a_id a) (r_id r)) apps) as [a|] eqn:E.
  - apply find_some in E. destruct E as [_ E]. apply bytes_eqb_eq in E.
    cbn [flat_map fst snd List.app]. destruct res; cbn [List.app]; try constructor; [|constructor].
    unfold compl. cbn [x_id x_code x_prev x_next].
    split; [symmetry; exact E|]. split; [reflexivity|]. split; [reflexivity|]. split; [rewrite E; reflexivity|].
    exists r. split; [apply (Hp (r, RInstalled)); left; reflexivity|symmetry; exact E].
  - destruct res; constructor.
Qed.

Lemma nv_get_some_of_offer d id r :
  In r (filter uc_ok (d_apps d)) -> r_id r = id ->
  exists v, nv_get (nv_of (filter uc_ok (d_apps d))) id = Some v /\ In v (offers d id).
Proof.
  intros Hr Hid. pose proof (nv_get_offers (d_apps d) id) as H. rewrite <- offers_eq in H.
  destruct (nv_get (nv_of (filter uc_ok (d_apps d))) id) as [v|]; [exists v; auto|].
  exfalso. apply filter_In in Hr. destruct Hr as [Hin Hu].
  assert (Hx : In (manifest_version r) (offers d id)).
  { rewrite offers_eq. apply in_map. apply filter_In. split; [exact Hin|]. rewrite Hu, Hid, bytes_eqb_refl. reflexivity. }
  rewrite H in Hx. contradiction.
Qed.

Lemma complete_ops ev d exp installed dur :
  ev_code ev = c_complete -> Forall2 (compl d) exp installed ->
  Forall2 match_op exp (report_ops ev installed (nv_of (filter uc_ok (d_apps d))) dur).
Proof.
  intros Hc. induction 1 as [|x a exp installed (Hid & Hcode & Hprev & Hnext & r & Hr & Hrid) _ IH]; [constructor|].
  unfold report_ops in *. cbn [flat_map].
  destruct (nv_get_some_of_offer d (a_id a) r Hr Hrid) as (v & -> & Hv).
  cbn [List.app]. constructor; [|exact IH].
  eexists _, _. split; [reflexivity|]. cbn [ev_prev ev_next]. rewrite Hnext.
  repeat split; auto. unfold ev_code. cbn [ev_type ev_result ev_err]. fold (ev_code ev). rewrite Hc, Hcode. reflexivity.
Qed.

Lemma Forall2_nil_iff {A B} (R : A -> B -> Prop) l l' : Forall2 R l l' -> (l = [] <-> l' = []).
Proof. destruct 1; split; intro; try reflexivity; discriminate. Qed.

Lemma idv_update apps rs : idv (update_from_omaha apps rs) = idv apps.
Proof.
  unfold idv, update_from_omaha. rewrite map_map. apply map_ext. intro a. unfold update_app.
  destruct (find (fun r => bytes_eqb (a_id a) (ar_id r)) rs); reflexivity.
Qed.
