(* Proofs/ResponseFacts.v — facts about Model/Response.v *)
Require Import Verif.Base.Bytes Verif.Model.Json Verif.Model.Proto Verif.Model.Response.
Require Import Verif.Proofs.BytesFacts Verif.Proofs.JsonFacts.
Open Scope N_scope.
Local Arguments N.eqb : simpl nomatch.
Local Arguments N.leb : simpl nomatch.
Local Arguments N.ltb : simpl nomatch.

(* ------------------------------------------------------------------ *)
(* keys                                                                 *)
Lemma beq_sym x y : bytes_eqb x y = bytes_eqb y x.
Proof.
  destruct (bytes_eqb x y) eqn:E1, (bytes_eqb y x) eqn:E2; try reflexivity.
  - apply bytes_eqb_eq in E1. subst. rewrite bytes_eqb_refl in E2. discriminate.
  - apply bytes_eqb_eq in E2. subst. rewrite bytes_eqb_refl in E1. discriminate.
Qed.

Lemma mem_key_cons x n ns : mem_key x (n :: ns) = bytes_eqb x n || mem_key x ns.
Proof. reflexivity. Qed.

Lemma mem_key_In x names : mem_key x names = true <-> In x names.
Proof.
  unfold mem_key. rewrite existsb_exists. split.
  - intros (y & Hy & He). apply bytes_eqb_eq in He. subst. assumption.
  - intro H. exists x. split; [assumption|apply bytes_eqb_refl].
Qed.

Fixpoint nodupb (l : list bytes) : bool :=
  match l with [] => true | x :: r => negb (mem_key x r) && nodupb r end.

Definition keys_notin (names : list bytes) (kvs : list kv) : Prop :=
  forall x, In x kvs -> mem_key (key_of x) names = false.

Lemma lookup_app key a b : lookup key (a ++ b) = lookup key a ++ lookup key b.
Proof. unfold lookup. apply filter_app. Qed.

Lemma lookup_notin key names kvs : mem_key key names = true -> keys_notin names kvs -> lookup key kvs = [].
Proof.
  intros Hk Hn. induction kvs as [|x r IH]; [reflexivity|].
  unfold lookup in *. cbn [filter].
  destruct (bytes_eqb (key_of x) key) eqn:E.
  - apply bytes_eqb_eq in E. subst key. rewrite (Hn x (or_introl eq_refl)) in Hk. discriminate.
  - apply IH. intros y Hy. apply Hn. right. assumption.
Qed.

Lemma lookup_okv_same key v : lookup key (okv key v) = okv key v.
Proof. destruct v; [|reflexivity]. unfold lookup, okv. cbn [filter key_of fst]. rewrite bytes_eqb_refl. reflexivity. Qed.

Lemma lookup_okv_other key key' v : bytes_eqb key' key = false -> lookup key (okv key' v) = [].
Proof. intro H. destruct v; [|reflexivity]. unfold lookup, okv. cbn [filter key_of fst]. rewrite H. reflexivity. Qed.

Lemma lookup_enc_fields key ns : forall vs, mem_key key ns = false -> lookup key (enc_fields ns vs) = [].
Proof.
  induction ns as [|n ns IH]; intros vs H; [reflexivity|].
  destruct vs as [|v vs]; [reflexivity|].
  rewrite mem_key_cons in H. apply orb_false_iff in H as [H1 H2].
  cbn [enc_fields]. rewrite lookup_app, lookup_okv_other, IH by (try assumption; rewrite beq_sym; assumption).
  reflexivity.
Qed.

Lemma get_fields_enc names : forall vals pre ex,
  nodupb names = true -> length vals = length names ->
  (forall n, mem_key n names = true -> lookup n pre = []) ->
  keys_notin names ex ->
  get_fields names (pre ++ enc_fields names vals ++ ex) = Some vals.
Proof.
  induction names as [|n ns IH]; intros vals pre ex Hnd Hlen Hpre Hex.
  - destruct vals; [reflexivity|discriminate].
  - destruct vals as [|v vs]; [discriminate|].
    cbn [nodupb] in Hnd. apply andb_true_iff in Hnd as [Hn Hnd]. apply negb_true_iff in Hn.
    cbn [get_fields enc_fields].
    assert (Hself : mem_key n (n :: ns) = true) by (rewrite mem_key_cons, bytes_eqb_refl; reflexivity).
    assert (Hg : get_field n (pre ++ (okv n v ++ enc_fields ns vs) ++ ex) = Some v).
    { unfold get_field. rewrite !lookup_app, (Hpre n Hself), lookup_okv_same, (lookup_enc_fields n ns vs Hn),
        (lookup_notin n (n :: ns) ex Hself Hex).
      destruct v; reflexivity. }
    rewrite Hg.
    replace (pre ++ (okv n v ++ enc_fields ns vs) ++ ex) with ((pre ++ okv n v) ++ enc_fields ns vs ++ ex)
      by (rewrite <- !app_assoc; reflexivity).
    rewrite IH; [reflexivity|assumption|cbn [length] in Hlen; lia| |].
    + intros m Hm. rewrite lookup_app, Hpre by (rewrite mem_key_cons, Hm; apply orb_true_r).
      rewrite lookup_okv_other; [reflexivity|].
      destruct (bytes_eqb n m) eqn:E; [|reflexivity].
      apply bytes_eqb_eq in E. subst m. rewrite Hm in Hn. discriminate.
    + intros x Hx. specialize (Hex x Hx). rewrite mem_key_cons in Hex. apply orb_false_iff in Hex. tauto.
Qed.

Lemma enc_fields_keys names : forall vals x, In x (enc_fields names vals) -> mem_key (key_of x) names = true /\ kok_of x = true.
Proof.
  induction names as [|n ns IH]; intros vals x Hx; [contradiction|].
  destruct vals as [|v vs]; [contradiction|].
  cbn [enc_fields] in Hx. apply in_app_or in Hx as [Hx|Hx].
  - destruct v; [|contradiction]. destruct Hx as [<-|[]]. cbn [key_of kok_of fst snd].
    rewrite mem_key_cons, bytes_eqb_refl. split; reflexivity.
  - destruct (IH _ _ Hx) as [H1 H2]. rewrite mem_key_cons, H1. split; [apply orb_true_r|assumption].
Qed.

Definition extras_fresh (names : list bytes) (ex : jextras) : bool :=
  forallb (fun e => negb (mem_key (fst e) names)) ex.

Lemma enc_extras_notin names ex : extras_fresh names ex = true -> keys_notin names (enc_extras ex).
Proof.
  unfold extras_fresh, keys_notin, enc_extras. rewrite forallb_forall. intros H x Hx.
  apply in_map_iff in Hx as (e & <- & He). cbn [key_of fst]. apply negb_true_iff. apply H. assumption.
Qed.

Lemma others_enc names vals ex :
  extras_fresh names ex = true -> others names (enc_fields names vals ++ enc_extras ex) = ex.
Proof.
  intro Hf. unfold others. rewrite filter_app, map_app.
  assert (H1 : filter (fun x => negb (mem_key (key_of x) names)) (enc_fields names vals) = []).
  { pose proof (enc_fields_keys names vals) as Hk. induction (enc_fields names vals) as [|x r IHr]; [reflexivity|].
    cbn [filter]. destruct (Hk x (or_introl eq_refl)) as [Hm _]. rewrite Hm. cbn [negb].
    apply IHr. intros y Hy. apply Hk. right. assumption. }
  rewrite H1. cbn [map List.app].
  unfold extras_fresh in Hf. induction ex as [|[ke ve] r IHr]; [reflexivity|].
  cbn [forallb fst] in Hf. apply andb_true_iff in Hf as [Ha Hb].
  cbn [enc_extras map filter key_of val_of fst snd]. rewrite Ha. cbn [map key_of val_of fst snd].
  f_equal. apply IHr. assumption.
Qed.

Lemma keys_ok_enc names vals ex : keys_ok (enc_fields names vals ++ enc_extras ex) = true.
Proof.
  unfold keys_ok. rewrite forallb_app. apply andb_true_iff. split; apply forallb_forall; intros x Hx.
  - apply (enc_fields_keys names vals x Hx).
  - unfold enc_extras in Hx. apply in_map_iff in Hx as (e & <- & _). reflexivity.
Qed.

Lemma flat_fields_enc names vals ex :
  nodupb names = true -> length vals = length names -> extras_fresh names ex = true ->
  flat_fields names (JObj (enc_fields names vals ++ enc_extras ex)) = Some (vals, ex).
Proof.
  intros Hnd Hlen Hf. unfold flat_fields. rewrite keys_ok_enc.
  pose proof (get_fields_enc names vals [] (enc_extras ex) Hnd Hlen (fun _ _ => eq_refl) (enc_extras_notin _ _ Hf)) as Hg.
  cbn [List.app] in Hg. rewrite Hg.
  rewrite others_enc by assumption. reflexivity.
Qed.

Lemma struct_fields_enc names vals :
  nodupb names = true -> length vals = length names ->
  struct_fields names (JObj (enc_fields names vals)) = Some vals.
Proof.
  intros Hnd Hlen. unfold struct_fields.
  pose proof (keys_ok_enc names vals []) as Hk. cbn [enc_extras map] in Hk. rewrite app_nil_r in Hk. rewrite Hk.
  pose proof (get_fields_enc names vals [] [] Hnd Hlen (fun _ _ => eq_refl)) as Hg.
  cbn [List.app] in Hg. rewrite app_nil_r in Hg. apply Hg. intros x [].
Qed.

(* ------------------------------------------------------------------ *)
(* well-formed values                                                   *)
Lemma wf_strings_ok j : wf_json j = true -> strings_ok j = true.
Proof.
  induction j as [|b|neg n| |o s|l IH|kvs IH] using json_ind'; intro H; try reflexivity; try discriminate.
  - cbn [wf_json] in H. apply andb_true_iff in H as [H _]. exact H.
  - rewrite wf_json_arr in H. change (strings_ok (JArr l)) with (forallb strings_ok l).
    rewrite forallb_forall in *. rewrite Forall_forall in IH. intros x Hx. apply IH; [assumption|apply H; assumption].
  - rewrite wf_json_obj in H.
    change (strings_ok (JObj kvs)) with (forallb (fun x => snd (fst x) && strings_ok (snd x)) kvs).
    rewrite forallb_forall in *. rewrite Forall_forall in IH. intros x Hx. specialize (H x Hx).
    apply andb_true_iff in H as [H1 H3]. apply andb_true_iff in H1 as [H1 H2].
    rewrite H1. cbn [andb]. apply IH; assumption.
Qed.

Lemma wf_extras_parts names lvl ex :
  wf_extras names lvl ex = true ->
  extras_fresh names ex = true /\ extras_ok lvl ex = true /\
  forallb (fun e => utf8_valid (fst e) && wf_json (snd e)) ex = true.
Proof.
  unfold wf_extras, extras_fresh, extras_ok, kept_ok. rewrite !forallb_forall. intro H.
  repeat split; intros e He; specialize (H e He);
    apply andb_true_iff in H as [H H5]; apply andb_true_iff in H as [H H4]; apply andb_true_iff in H as [H H3];
    apply andb_true_iff in H as [H1 H2].
  - assumption.
  - rewrite (wf_strings_ok _ H3), H5. reflexivity.
  - rewrite H1, H3. reflexivity.
Qed.

(* ------------------------------------------------------------------ *)
(* primitives                                                           *)
Lemma status_roundtrip s : wf_status s = true -> dec_status (json_of_status s) = Some s.
Proof.
  destruct s as [| | |e]; intro H; try reflexivity.
  cbn [wf_status] in H. apply andb_true_iff in H as [_ H]. apply negb_true_iff in H.
  unfold mem_key in H. cbn [existsb] in H.
  apply orb_false_iff in H as [H1 H]. apply orb_false_iff in H as [H2 H]. apply orb_false_iff in H as [H3 _].
  unfold json_of_status, jstr, status_string, dec_status, status_of_string. unfold nm in *.
  rewrite H1, H2, H3. reflexivity.
Qed.

Lemma all_some_map {A B} (dec : B -> option A) (enc : A -> B) l :
  Forall (fun x => dec (enc x) = Some x) l -> all_some (map dec (map enc l)) = Some l.
Proof.
  induction 1 as [|x r Hx Hr IH]; [reflexivity|]. cbn [map all_some]. rewrite Hx, IH. reflexivity.
Qed.

Lemma dec_list_roundtrip {A} (dec : json -> option A) (enc : A -> json) l :
  Forall (fun x => dec (enc x) = Some x) l -> dec_list dec (JArr (map enc l)) = Some l.
Proof. intro H. unfold dec_list. apply all_some_map. assumption. Qed.

Lemma forallb_Forall {A} (f : A -> bool) (P : A -> Prop) l :
  (forall x, f x = true -> P x) -> forallb f l = true -> Forall P l.
Proof.
  intros H Hf. rewrite forallb_forall in Hf. apply Forall_forall. intros x Hx. apply H, Hf, Hx.
Qed.

Lemma opt_string o : wf_ostr o = true -> opt dec_string (option_map jstr o) = Some o.
Proof. destruct o; reflexivity. Qed.
Lemma opt_uint bound o : wf_ouint bound o = true -> opt (dec_uint bound) (option_map (JInt false) o) = Some o.
Proof. destruct o as [n|]; [|reflexivity]. cbn [wf_ouint]. intro H. cbn. rewrite H. reflexivity. Qed.

Ltac split_wf H :=
  repeat match type of H with
         | (_ && _) = true => let H' := fresh H in apply andb_true_iff in H as [H H']
         end.

(* ------------------------------------------------------------------ *)
(* each struct: decode (encode x) = x                                   *)
Lemma status_struct_roundtrip s : wf_status s = true -> decode_status_struct (json_of_status_struct s) = Some s.
Proof.
  intro H. unfold decode_status_struct, json_of_status_struct.
  rewrite struct_fields_enc by reflexivity. cbn [req]. apply status_roundtrip. assumption.
Qed.

Lemma url_roundtrip c : decode_url (json_of_url c) = Some c.
Proof. unfold decode_url, json_of_url. rewrite struct_fields_enc by reflexivity. reflexivity. Qed.

Lemma urls_roundtrip l : decode_urls (json_of_urls l) = Some l.
Proof.
  unfold decode_urls, json_of_urls. rewrite struct_fields_enc by reflexivity. cbn [req].
  apply dec_list_roundtrip. apply Forall_forall. intros x _. apply url_roundtrip.
Qed.

Lemma action_roundtrip a : wf_action a = true -> decode_action (json_of_action a) = Some a.
Proof.
  intro H. unfold wf_action in H. split_wf H.
  match goal with Hx : wf_extras _ _ _ = true |- _ => destruct (wf_extras_parts _ _ _ Hx) as (Hf & Hok & _) end.
  unfold decode_action, json_of_action. rewrite flat_fields_enc by (try reflexivity; assumption).
  rewrite !opt_string by assumption. rewrite Hok. destruct a; reflexivity.
Qed.

Lemma actions_roundtrip l : forallb wf_action l = true -> decode_actions (json_of_actions l) = Some l.
Proof.
  intro H. unfold decode_actions, json_of_actions. rewrite struct_fields_enc by reflexivity. cbn [req].
  apply dec_list_roundtrip. apply (forallb_Forall wf_action); [apply action_roundtrip|assumption].
Qed.

Lemma package_roundtrip p : wf_package p = true -> decode_package (json_of_package p) = Some p.
Proof.
  intro H. unfold wf_package in H. split_wf H.
  match goal with Hx : wf_extras _ _ _ = true |- _ => destruct (wf_extras_parts _ _ _ Hx) as (Hf & Hok & _) end.
  unfold decode_package, json_of_package. rewrite flat_fields_enc by (try reflexivity; assumption).
  rewrite !opt_string by assumption. unfold dec_u64. rewrite opt_uint by assumption.
  cbn [req dec_string dec_bool jstr]. rewrite Hok. destruct p; reflexivity.
Qed.

Lemma packages_roundtrip l : forallb wf_package l = true -> decode_packages (json_of_packages l) = Some l.
Proof.
  intro H. unfold decode_packages, json_of_packages. rewrite struct_fields_enc by reflexivity. cbn [req].
  apply dec_list_roundtrip. apply (forallb_Forall wf_package); [apply package_roundtrip|assumption].
Qed.

Lemma manifest_roundtrip m : wf_manifest m = true -> decode_manifest (json_of_manifest m) = Some m.
Proof.
  intro H. unfold wf_manifest in H. split_wf H.
  unfold decode_manifest, json_of_manifest. rewrite struct_fields_enc by reflexivity.
  cbn [req dec_string jstr]. rewrite actions_roundtrip, packages_roundtrip by assumption.
  destruct m; reflexivity.
Qed.

Lemma opt_roundtrip {A} (dec : json -> option A) (enc : A -> json) o :
  (forall x, o = Some x -> dec (enc x) = Some x /\ enc x <> JNull) ->
  opt dec (option_map enc o) = Some o.
Proof.
  destruct o as [x|]; [|reflexivity]. intro H. destruct (H x eq_refl) as [Hd Hn].
  cbn [option_map opt]. destruct (enc x); try congruence; rewrite Hd; reflexivity.
Qed.

Lemma update_check_roundtrip u : wf_update_check u = true -> decode_update_check (json_of_update_check u) = Some u.
Proof.
  intro H. unfold wf_update_check in H. split_wf H.
  match goal with Hx : wf_extras _ _ _ = true |- _ => destruct (wf_extras_parts _ _ _ Hx) as (Hf & Hok & _) end.
  unfold decode_update_check, json_of_update_check. rewrite flat_fields_enc by (try reflexivity; assumption).
  cbn [req]. rewrite status_roundtrip, opt_string by assumption.
  rewrite (opt_roundtrip decode_urls json_of_urls).
  2:{ intros x _. split; [apply urls_roundtrip|discriminate]. }
  rewrite (opt_roundtrip decode_manifest json_of_manifest).
  2:{ intros x Hx. rewrite Hx in *. split; [apply manifest_roundtrip; assumption|discriminate]. }
  rewrite Hok. destruct u; reflexivity.
Qed.

Lemma app_roundtrip a : wf_app a = true -> decode_app (json_of_app a) = Some a.
Proof.
  intro H. unfold wf_app in H. split_wf H.
  match goal with Hx : wf_extras _ _ _ = true |- _ => destruct (wf_extras_parts _ _ _ Hx) as (Hf & Hok & _) end.
  unfold decode_app, json_of_app. rewrite flat_fields_enc by (try reflexivity; assumption).
  cbn [req dec_string jstr]. rewrite status_roundtrip, !opt_string by assumption.
  rewrite (opt_roundtrip decode_status_struct json_of_status_struct).
  2:{ intros x Hx. rewrite Hx in *. split; [apply status_struct_roundtrip; assumption|discriminate]. }
  rewrite (opt_roundtrip decode_update_check json_of_update_check).
  2:{ intros x Hx. rewrite Hx in *. split; [apply update_check_roundtrip; assumption|discriminate]. }
  rewrite (opt_roundtrip (dec_list decode_status_struct) (fun l => JArr (map json_of_status_struct l))).
  2:{ intros x Hx. rewrite Hx in *. split; [|discriminate].
      apply dec_list_roundtrip. apply (forallb_Forall wf_status); [apply status_struct_roundtrip|assumption]. }
  rewrite Hok. destruct a as [? ? [? ? ?] ? ? ? ?]; reflexivity.
Qed.

Lemma daystart_roundtrip d : wf_daystart d = true -> decode_daystart (json_of_daystart d) = Some d.
Proof.
  intro H. unfold wf_daystart in H. split_wf H.
  unfold decode_daystart, json_of_daystart. rewrite struct_fields_enc by reflexivity.
  unfold dec_u32. rewrite !opt_uint by assumption. destruct d; reflexivity.
Qed.

Lemma response_roundtrip r : wf_response r = true -> decode_response (json_of_response r) = Some r.
Proof.
  intro H. unfold wf_response in H. split_wf H.
  unfold decode_response, json_of_response. rewrite struct_fields_enc by reflexivity.
  cbn [req dec_string jstr]. rewrite opt_string by assumption.
  rewrite (opt_roundtrip decode_daystart json_of_daystart).
  2:{ intros x Hx. rewrite Hx in *. split; [apply daystart_roundtrip; assumption|discriminate]. }
  rewrite (dec_list_roundtrip decode_app json_of_app).
  2:{ apply (forallb_Forall wf_app); [apply app_roundtrip|assumption]. }
  destruct r; reflexivity.
Qed.

Lemma wrapper_roundtrip r : wf_response r = true -> decode_wrapper (json_of_wrapper r) = Some r.
Proof.
  intro H. unfold decode_wrapper, json_of_wrapper. rewrite struct_fields_enc by reflexivity.
  cbn [req]. apply response_roundtrip. assumption.
Qed.

(* ------------------------------------------------------------------ *)
(* required fields, wrong types, duplicates: one lemma per field of each struct.
   X_field_f: if key f occurs at most once in the object and its (possibly
   absent) value is not what the field's decoder accepts, the struct is rejected. *)
Lemma req_none {A} (d : json -> option A) : req d None = None.
Proof. reflexivity. Qed.
Lemma opt_fail {A} (d : json -> option A) v : v <> JNull -> d v = None -> opt d (Some v) = None.
Proof. intros Hn Hd. unfold opt. destruct v; try congruence; rewrite Hd; reflexivity. Qed.

Ltac fin_none :=
  repeat match goal with
         | |- context [opt ?d ?o] => destruct (opt d o)
         | |- context [req ?d ?o] => destruct (req d o)
         | |- context [extras_ok ?l ?e] => destruct (extras_ok l e)
         end; reflexivity.
Ltac struct_fail H Hr :=
  unfold struct_fields, flat_fields;
  match goal with |- context [keys_ok ?kvs] => destruct (keys_ok kvs); [|reflexivity] end;
  cbn [get_fields]; rewrite H;
  repeat match goal with |- context [get_field ?a ?b] => destruct (get_field a b) as [?|] end;
  try reflexivity; rewrite Hr; fin_none.
Ltac struct_dup H :=
  unfold struct_fields, flat_fields;
  match goal with |- context [keys_ok ?kvs] => destruct (keys_ok kvs); [|reflexivity] end;
  cbn [get_fields]; rewrite H;
  repeat match goal with |- context [get_field ?a ?b] => destruct (get_field a b) as [?|] end;
  reflexivity.

Definition remove_key (key : bytes) (kvs : list kv) : list kv :=
  filter (fun x => negb (bytes_eqb (key_of x) key)) kvs.
Definition retype (key : bytes) (v : json) (kvs : list kv) : list kv :=
  map (fun x => if bytes_eqb (key_of x) key then (key_of x, kok_of x, v) else x) kvs.

Lemma get_field_remove key kvs : get_field key (remove_key key kvs) = Some None.
Proof.
  unfold get_field. replace (lookup key (remove_key key kvs)) with (@nil kv); [reflexivity|].
  unfold lookup, remove_key. induction kvs as [|x r IH]; [reflexivity|].
  cbn [filter]. destruct (bytes_eqb (key_of x) key) eqn:E; cbn [negb filter]; [assumption|].
  rewrite E. assumption.
Qed.

Lemma lookup_retype key v kvs :
  lookup key (retype key v kvs) = map (fun x => (key_of x, kok_of x, v)) (lookup key kvs).
Proof.
  unfold lookup, retype. induction kvs as [|x r IH]; [reflexivity|].
  cbn [map filter]. destruct (bytes_eqb (key_of x) key) eqn:E.
  - cbn [key_of fst]. fold (key_of x). rewrite E. cbn [map]. f_equal. assumption.
  - rewrite E. assumption.
Qed.

Lemma get_field_retype key v kvs :
  get_field key (retype key v kvs) = None \/ get_field key (retype key v kvs) = Some None \/
  get_field key (retype key v kvs) = Some (Some v).
Proof.
  unfold get_field. rewrite lookup_retype. destruct (lookup key kvs) as [|x [|y r]]; cbn [map]; auto.
Qed.

Lemma wrapper_field_response kvs o :
  get_field (nm "response") kvs = Some o -> req decode_response o = None -> decode_wrapper (JObj kvs) = None.
Proof. intros H Hr. unfold decode_wrapper, wrapper_names. struct_fail H Hr. Qed.

Lemma wrapper_dup kvs f : In f wrapper_names -> get_field f kvs = None -> decode_wrapper (JObj kvs) = None.
Proof.
  intros Hin H. unfold wrapper_names in Hin. cbn [In] in Hin.
  repeat (destruct Hin as [<-|Hin]); try contradiction; unfold decode_wrapper, wrapper_names; struct_dup H.
Qed.

Lemma wrapper_required_removed kvs f : In f [nm "response"] -> decode_wrapper (JObj (remove_key f kvs)) = None.
Proof.
  intro Hin. cbn [In] in Hin. repeat (destruct Hin as [<-|Hin]); try contradiction.
  all: first [ eapply wrapper_field_response; [apply get_field_remove|reflexivity] ].
Qed.

Lemma wrapper_retyped_response kvs v : decode_response v = None -> decode_wrapper (JObj (retype (nm "response") v kvs)) = None.
Proof.
  intro Hd. destruct (get_field_retype (nm "response") v kvs) as [H|[H|H]].
  - apply (wrapper_dup _ (nm "response")); [unfold wrapper_names; cbn [In]; tauto|exact H].
  - apply (wrapper_field_response _ _ H). reflexivity.
  - apply (wrapper_field_response _ _ H). exact Hd.
Qed.

Lemma response_field_protocol kvs o :
  get_field (nm "protocol") kvs = Some o -> req dec_string o = None -> decode_response (JObj kvs) = None.
Proof. intros H Hr. unfold decode_response, response_names. struct_fail H Hr. Qed.

Lemma response_field_server kvs o :
  get_field (nm "server") kvs = Some o -> opt dec_string o = None -> decode_response (JObj kvs) = None.
Proof. intros H Hr. unfold decode_response, response_names. struct_fail H Hr. Qed.

Lemma response_field_daystart kvs o :
  get_field (nm "daystart") kvs = Some o -> opt decode_daystart o = None -> decode_response (JObj kvs) = None.
Proof. intros H Hr. unfold decode_response, response_names. struct_fail H Hr. Qed.

Lemma response_field_app kvs o :
  get_field (nm "app") kvs = Some o -> req (dec_list decode_app) o = None -> decode_response (JObj kvs) = None.
Proof. intros H Hr. unfold decode_response, response_names. struct_fail H Hr. Qed.

Lemma response_dup kvs f : In f response_names -> get_field f kvs = None -> decode_response (JObj kvs) = None.
Proof.
  intros Hin H. unfold response_names in Hin. cbn [In] in Hin.
  repeat (destruct Hin as [<-|Hin]); try contradiction; unfold decode_response, response_names; struct_dup H.
Qed.

Lemma response_required_removed kvs f : In f [nm "protocol"; nm "app"] -> decode_response (JObj (remove_key f kvs)) = None.
Proof.
  intro Hin. cbn [In] in Hin. repeat (destruct Hin as [<-|Hin]); try contradiction.
  all: first [ eapply response_field_protocol; [apply get_field_remove|reflexivity] | eapply response_field_app; [apply get_field_remove|reflexivity] ].
Qed.

Lemma response_retyped_protocol kvs v : dec_string v = None -> decode_response (JObj (retype (nm "protocol") v kvs)) = None.
Proof.
  intro Hd. destruct (get_field_retype (nm "protocol") v kvs) as [H|[H|H]].
  - apply (response_dup _ (nm "protocol")); [unfold response_names; cbn [In]; tauto|exact H].
  - apply (response_field_protocol _ _ H). reflexivity.
  - apply (response_field_protocol _ _ H). exact Hd.
Qed.

Lemma response_retyped_app kvs v : (dec_list decode_app) v = None -> decode_response (JObj (retype (nm "app") v kvs)) = None.
Proof.
  intro Hd. destruct (get_field_retype (nm "app") v kvs) as [H|[H|H]].
  - apply (response_dup _ (nm "app")); [unfold response_names; cbn [In]; tauto|exact H].
  - apply (response_field_app _ _ H). reflexivity.
  - apply (response_field_app _ _ H). exact Hd.
Qed.

Lemma daystart_field_elapsed_days kvs o :
  get_field (nm "elapsed_days") kvs = Some o -> opt dec_u32 o = None -> decode_daystart (JObj kvs) = None.
Proof. intros H Hr. unfold decode_daystart, daystart_names. struct_fail H Hr. Qed.

Lemma daystart_field_elapsed_seconds kvs o :
  get_field (nm "elapsed_seconds") kvs = Some o -> opt dec_u32 o = None -> decode_daystart (JObj kvs) = None.
Proof. intros H Hr. unfold decode_daystart, daystart_names. struct_fail H Hr. Qed.

Lemma daystart_dup kvs f : In f daystart_names -> get_field f kvs = None -> decode_daystart (JObj kvs) = None.
Proof.
  intros Hin H. unfold daystart_names in Hin. cbn [In] in Hin.
  repeat (destruct Hin as [<-|Hin]); try contradiction; unfold decode_daystart, daystart_names; struct_dup H.
Qed.

Lemma app_field_appid kvs o :
  get_field (nm "appid") kvs = Some o -> req dec_string o = None -> decode_app (JObj kvs) = None.
Proof. intros H Hr. unfold decode_app, app_names. struct_fail H Hr. Qed.

Lemma app_field_status kvs o :
  get_field (nm "status") kvs = Some o -> req dec_status o = None -> decode_app (JObj kvs) = None.
Proof. intros H Hr. unfold decode_app, app_names. struct_fail H Hr. Qed.

Lemma app_field_ping kvs o :
  get_field (nm "ping") kvs = Some o -> opt decode_status_struct o = None -> decode_app (JObj kvs) = None.
Proof. intros H Hr. unfold decode_app, app_names. struct_fail H Hr. Qed.

Lemma app_field_updatecheck kvs o :
  get_field (nm "updatecheck") kvs = Some o -> opt decode_update_check o = None -> decode_app (JObj kvs) = None.
Proof. intros H Hr. unfold decode_app, app_names. struct_fail H Hr. Qed.

Lemma app_field_event kvs o :
  get_field (nm "event") kvs = Some o -> opt (dec_list decode_status_struct) o = None -> decode_app (JObj kvs) = None.
Proof. intros H Hr. unfold decode_app, app_names. struct_fail H Hr. Qed.

Lemma app_field_cohort kvs o :
  get_field (nm "cohort") kvs = Some o -> opt dec_string o = None -> decode_app (JObj kvs) = None.
Proof. intros H Hr. unfold decode_app, app_names. struct_fail H Hr. Qed.

Lemma app_field_cohorthint kvs o :
  get_field (nm "cohorthint") kvs = Some o -> opt dec_string o = None -> decode_app (JObj kvs) = None.
Proof. intros H Hr. unfold decode_app, app_names. struct_fail H Hr. Qed.

Lemma app_field_cohortname kvs o :
  get_field (nm "cohortname") kvs = Some o -> opt dec_string o = None -> decode_app (JObj kvs) = None.
Proof. intros H Hr. unfold decode_app, app_names. struct_fail H Hr. Qed.

Lemma app_dup kvs f : In f app_names -> get_field f kvs = None -> decode_app (JObj kvs) = None.
Proof.
  intros Hin H. unfold app_names in Hin. cbn [In] in Hin.
  repeat (destruct Hin as [<-|Hin]); try contradiction; unfold decode_app, app_names; struct_dup H.
Qed.

Lemma app_required_removed kvs f : In f [nm "appid"; nm "status"] -> decode_app (JObj (remove_key f kvs)) = None.
Proof.
  intro Hin. cbn [In] in Hin. repeat (destruct Hin as [<-|Hin]); try contradiction.
  all: first [ eapply app_field_appid; [apply get_field_remove|reflexivity] | eapply app_field_status; [apply get_field_remove|reflexivity] ].
Qed.

Lemma app_retyped_appid kvs v : dec_string v = None -> decode_app (JObj (retype (nm "appid") v kvs)) = None.
Proof.
  intro Hd. destruct (get_field_retype (nm "appid") v kvs) as [H|[H|H]].
  - apply (app_dup _ (nm "appid")); [unfold app_names; cbn [In]; tauto|exact H].
  - apply (app_field_appid _ _ H). reflexivity.
  - apply (app_field_appid _ _ H). exact Hd.
Qed.

Lemma app_retyped_status kvs v : dec_status v = None -> decode_app (JObj (retype (nm "status") v kvs)) = None.
Proof.
  intro Hd. destruct (get_field_retype (nm "status") v kvs) as [H|[H|H]].
  - apply (app_dup _ (nm "status")); [unfold app_names; cbn [In]; tauto|exact H].
  - apply (app_field_status _ _ H). reflexivity.
  - apply (app_field_status _ _ H). exact Hd.
Qed.

Lemma status_struct_field_status kvs o :
  get_field (nm "status") kvs = Some o -> req dec_status o = None -> decode_status_struct (JObj kvs) = None.
Proof. intros H Hr. unfold decode_status_struct, status_names. struct_fail H Hr. Qed.

Lemma status_struct_dup kvs f : In f status_names -> get_field f kvs = None -> decode_status_struct (JObj kvs) = None.
Proof.
  intros Hin H. unfold status_names in Hin. cbn [In] in Hin.
  repeat (destruct Hin as [<-|Hin]); try contradiction; unfold decode_status_struct, status_names; struct_dup H.
Qed.

Lemma status_struct_required_removed kvs f : In f [nm "status"] -> decode_status_struct (JObj (remove_key f kvs)) = None.
Proof.
  intro Hin. cbn [In] in Hin. repeat (destruct Hin as [<-|Hin]); try contradiction.
  all: first [ eapply status_struct_field_status; [apply get_field_remove|reflexivity] ].
Qed.

Lemma status_struct_retyped_status kvs v : dec_status v = None -> decode_status_struct (JObj (retype (nm "status") v kvs)) = None.
Proof.
  intro Hd. destruct (get_field_retype (nm "status") v kvs) as [H|[H|H]].
  - apply (status_struct_dup _ (nm "status")); [unfold status_names; cbn [In]; tauto|exact H].
  - apply (status_struct_field_status _ _ H). reflexivity.
  - apply (status_struct_field_status _ _ H). exact Hd.
Qed.

Lemma update_check_field_status kvs o :
  get_field (nm "status") kvs = Some o -> req dec_status o = None -> decode_update_check (JObj kvs) = None.
Proof. intros H Hr. unfold decode_update_check, update_check_names. struct_fail H Hr. Qed.

Lemma update_check_field_info kvs o :
  get_field (nm "info") kvs = Some o -> opt dec_string o = None -> decode_update_check (JObj kvs) = None.
Proof. intros H Hr. unfold decode_update_check, update_check_names. struct_fail H Hr. Qed.

Lemma update_check_field_urls kvs o :
  get_field (nm "urls") kvs = Some o -> opt decode_urls o = None -> decode_update_check (JObj kvs) = None.
Proof. intros H Hr. unfold decode_update_check, update_check_names. struct_fail H Hr. Qed.

Lemma update_check_field_manifest kvs o :
  get_field (nm "manifest") kvs = Some o -> opt decode_manifest o = None -> decode_update_check (JObj kvs) = None.
Proof. intros H Hr. unfold decode_update_check, update_check_names. struct_fail H Hr. Qed.

Lemma update_check_dup kvs f : In f update_check_names -> get_field f kvs = None -> decode_update_check (JObj kvs) = None.
Proof.
  intros Hin H. unfold update_check_names in Hin. cbn [In] in Hin.
  repeat (destruct Hin as [<-|Hin]); try contradiction; unfold decode_update_check, update_check_names; struct_dup H.
Qed.

Lemma update_check_required_removed kvs f : In f [nm "status"] -> decode_update_check (JObj (remove_key f kvs)) = None.
Proof.
  intro Hin. cbn [In] in Hin. repeat (destruct Hin as [<-|Hin]); try contradiction.
  all: first [ eapply update_check_field_status; [apply get_field_remove|reflexivity] ].
Qed.

Lemma update_check_retyped_status kvs v : dec_status v = None -> decode_update_check (JObj (retype (nm "status") v kvs)) = None.
Proof.
  intro Hd. destruct (get_field_retype (nm "status") v kvs) as [H|[H|H]].
  - apply (update_check_dup _ (nm "status")); [unfold update_check_names; cbn [In]; tauto|exact H].
  - apply (update_check_field_status _ _ H). reflexivity.
  - apply (update_check_field_status _ _ H). exact Hd.
Qed.

Lemma urls_field_url kvs o :
  get_field (nm "url") kvs = Some o -> req (dec_list decode_url) o = None -> decode_urls (JObj kvs) = None.
Proof. intros H Hr. unfold decode_urls, urls_names. struct_fail H Hr. Qed.

Lemma urls_dup kvs f : In f urls_names -> get_field f kvs = None -> decode_urls (JObj kvs) = None.
Proof.
  intros Hin H. unfold urls_names in Hin. cbn [In] in Hin.
  repeat (destruct Hin as [<-|Hin]); try contradiction; unfold decode_urls, urls_names; struct_dup H.
Qed.

Lemma urls_required_removed kvs f : In f [nm "url"] -> decode_urls (JObj (remove_key f kvs)) = None.
Proof.
  intro Hin. cbn [In] in Hin. repeat (destruct Hin as [<-|Hin]); try contradiction.
  all: first [ eapply urls_field_url; [apply get_field_remove|reflexivity] ].
Qed.

Lemma urls_retyped_url kvs v : (dec_list decode_url) v = None -> decode_urls (JObj (retype (nm "url") v kvs)) = None.
Proof.
  intro Hd. destruct (get_field_retype (nm "url") v kvs) as [H|[H|H]].
  - apply (urls_dup _ (nm "url")); [unfold urls_names; cbn [In]; tauto|exact H].
  - apply (urls_field_url _ _ H). reflexivity.
  - apply (urls_field_url _ _ H). exact Hd.
Qed.

Lemma url_field_codebase kvs o :
  get_field (nm "codebase") kvs = Some o -> req dec_string o = None -> decode_url (JObj kvs) = None.
Proof. intros H Hr. unfold decode_url, url_names. struct_fail H Hr. Qed.

Lemma url_dup kvs f : In f url_names -> get_field f kvs = None -> decode_url (JObj kvs) = None.
Proof.
  intros Hin H. unfold url_names in Hin. cbn [In] in Hin.
  repeat (destruct Hin as [<-|Hin]); try contradiction; unfold decode_url, url_names; struct_dup H.
Qed.

Lemma url_required_removed kvs f : In f [nm "codebase"] -> decode_url (JObj (remove_key f kvs)) = None.
Proof.
  intro Hin. cbn [In] in Hin. repeat (destruct Hin as [<-|Hin]); try contradiction.
  all: first [ eapply url_field_codebase; [apply get_field_remove|reflexivity] ].
Qed.

Lemma url_retyped_codebase kvs v : dec_string v = None -> decode_url (JObj (retype (nm "codebase") v kvs)) = None.
Proof.
  intro Hd. destruct (get_field_retype (nm "codebase") v kvs) as [H|[H|H]].
  - apply (url_dup _ (nm "codebase")); [unfold url_names; cbn [In]; tauto|exact H].
  - apply (url_field_codebase _ _ H). reflexivity.
  - apply (url_field_codebase _ _ H). exact Hd.
Qed.

Lemma manifest_field_version kvs o :
  get_field (nm "version") kvs = Some o -> req dec_string o = None -> decode_manifest (JObj kvs) = None.
Proof. intros H Hr. unfold decode_manifest, manifest_names. struct_fail H Hr. Qed.

Lemma manifest_field_actions kvs o :
  get_field (nm "actions") kvs = Some o -> req decode_actions o = None -> decode_manifest (JObj kvs) = None.
Proof. intros H Hr. unfold decode_manifest, manifest_names. struct_fail H Hr. Qed.

Lemma manifest_field_packages kvs o :
  get_field (nm "packages") kvs = Some o -> req decode_packages o = None -> decode_manifest (JObj kvs) = None.
Proof. intros H Hr. unfold decode_manifest, manifest_names. struct_fail H Hr. Qed.

Lemma manifest_dup kvs f : In f manifest_names -> get_field f kvs = None -> decode_manifest (JObj kvs) = None.
Proof.
  intros Hin H. unfold manifest_names in Hin. cbn [In] in Hin.
  repeat (destruct Hin as [<-|Hin]); try contradiction; unfold decode_manifest, manifest_names; struct_dup H.
Qed.

Lemma manifest_required_removed kvs f : In f [nm "version"; nm "actions"; nm "packages"] -> decode_manifest (JObj (remove_key f kvs)) = None.
Proof.
  intro Hin. cbn [In] in Hin. repeat (destruct Hin as [<-|Hin]); try contradiction.
  all: first [ eapply manifest_field_version; [apply get_field_remove|reflexivity] | eapply manifest_field_actions; [apply get_field_remove|reflexivity] | eapply manifest_field_packages; [apply get_field_remove|reflexivity] ].
Qed.

Lemma manifest_retyped_version kvs v : dec_string v = None -> decode_manifest (JObj (retype (nm "version") v kvs)) = None.
Proof.
  intro Hd. destruct (get_field_retype (nm "version") v kvs) as [H|[H|H]].
  - apply (manifest_dup _ (nm "version")); [unfold manifest_names; cbn [In]; tauto|exact H].
  - apply (manifest_field_version _ _ H). reflexivity.
  - apply (manifest_field_version _ _ H). exact Hd.
Qed.

Lemma manifest_retyped_actions kvs v : decode_actions v = None -> decode_manifest (JObj (retype (nm "actions") v kvs)) = None.
Proof.
  intro Hd. destruct (get_field_retype (nm "actions") v kvs) as [H|[H|H]].
  - apply (manifest_dup _ (nm "actions")); [unfold manifest_names; cbn [In]; tauto|exact H].
  - apply (manifest_field_actions _ _ H). reflexivity.
  - apply (manifest_field_actions _ _ H). exact Hd.
Qed.

Lemma manifest_retyped_packages kvs v : decode_packages v = None -> decode_manifest (JObj (retype (nm "packages") v kvs)) = None.
Proof.
  intro Hd. destruct (get_field_retype (nm "packages") v kvs) as [H|[H|H]].
  - apply (manifest_dup _ (nm "packages")); [unfold manifest_names; cbn [In]; tauto|exact H].
  - apply (manifest_field_packages _ _ H). reflexivity.
  - apply (manifest_field_packages _ _ H). exact Hd.
Qed.

Lemma actions_field_action kvs o :
  get_field (nm "action") kvs = Some o -> req (dec_list decode_action) o = None -> decode_actions (JObj kvs) = None.
Proof. intros H Hr. unfold decode_actions, actions_names. struct_fail H Hr. Qed.

Lemma actions_dup kvs f : In f actions_names -> get_field f kvs = None -> decode_actions (JObj kvs) = None.
Proof.
  intros Hin H. unfold actions_names in Hin. cbn [In] in Hin.
  repeat (destruct Hin as [<-|Hin]); try contradiction; unfold decode_actions, actions_names; struct_dup H.
Qed.

Lemma actions_required_removed kvs f : In f [nm "action"] -> decode_actions (JObj (remove_key f kvs)) = None.
Proof.
  intro Hin. cbn [In] in Hin. repeat (destruct Hin as [<-|Hin]); try contradiction.
  all: first [ eapply actions_field_action; [apply get_field_remove|reflexivity] ].
Qed.

Lemma actions_retyped_action kvs v : (dec_list decode_action) v = None -> decode_actions (JObj (retype (nm "action") v kvs)) = None.
Proof.
  intro Hd. destruct (get_field_retype (nm "action") v kvs) as [H|[H|H]].
  - apply (actions_dup _ (nm "action")); [unfold actions_names; cbn [In]; tauto|exact H].
  - apply (actions_field_action _ _ H). reflexivity.
  - apply (actions_field_action _ _ H). exact Hd.
Qed.

Lemma action_field_event kvs o :
  get_field (nm "event") kvs = Some o -> opt dec_string o = None -> decode_action (JObj kvs) = None.
Proof. intros H Hr. unfold decode_action, action_names. struct_fail H Hr. Qed.

Lemma action_field_run kvs o :
  get_field (nm "run") kvs = Some o -> opt dec_string o = None -> decode_action (JObj kvs) = None.
Proof. intros H Hr. unfold decode_action, action_names. struct_fail H Hr. Qed.

Lemma action_dup kvs f : In f action_names -> get_field f kvs = None -> decode_action (JObj kvs) = None.
Proof.
  intros Hin H. unfold action_names in Hin. cbn [In] in Hin.
  repeat (destruct Hin as [<-|Hin]); try contradiction; unfold decode_action, action_names; struct_dup H.
Qed.

Lemma packages_field_package kvs o :
  get_field (nm "package") kvs = Some o -> req (dec_list decode_package) o = None -> decode_packages (JObj kvs) = None.
Proof. intros H Hr. unfold decode_packages, packages_names. struct_fail H Hr. Qed.

Lemma packages_dup kvs f : In f packages_names -> get_field f kvs = None -> decode_packages (JObj kvs) = None.
Proof.
  intros Hin H. unfold packages_names in Hin. cbn [In] in Hin.
  repeat (destruct Hin as [<-|Hin]); try contradiction; unfold decode_packages, packages_names; struct_dup H.
Qed.

Lemma packages_required_removed kvs f : In f [nm "package"] -> decode_packages (JObj (remove_key f kvs)) = None.
Proof.
  intro Hin. cbn [In] in Hin. repeat (destruct Hin as [<-|Hin]); try contradiction.
  all: first [ eapply packages_field_package; [apply get_field_remove|reflexivity] ].
Qed.

Lemma packages_retyped_package kvs v : (dec_list decode_package) v = None -> decode_packages (JObj (retype (nm "package") v kvs)) = None.
Proof.
  intro Hd. destruct (get_field_retype (nm "package") v kvs) as [H|[H|H]].
  - apply (packages_dup _ (nm "package")); [unfold packages_names; cbn [In]; tauto|exact H].
  - apply (packages_field_package _ _ H). reflexivity.
  - apply (packages_field_package _ _ H). exact Hd.
Qed.

Lemma package_field_name kvs o :
  get_field (nm "name") kvs = Some o -> req dec_string o = None -> decode_package (JObj kvs) = None.
Proof. intros H Hr. unfold decode_package, package_names. struct_fail H Hr. Qed.

Lemma package_field_required kvs o :
  get_field (nm "required") kvs = Some o -> req dec_bool o = None -> decode_package (JObj kvs) = None.
Proof. intros H Hr. unfold decode_package, package_names. struct_fail H Hr. Qed.

Lemma package_field_size kvs o :
  get_field (nm "size") kvs = Some o -> opt dec_u64 o = None -> decode_package (JObj kvs) = None.
Proof. intros H Hr. unfold decode_package, package_names. struct_fail H Hr. Qed.

Lemma package_field_hash kvs o :
  get_field (nm "hash") kvs = Some o -> opt dec_string o = None -> decode_package (JObj kvs) = None.
Proof. intros H Hr. unfold decode_package, package_names. struct_fail H Hr. Qed.

Lemma package_field_hash_sha256 kvs o :
  get_field (nm "hash_sha256") kvs = Some o -> opt dec_string o = None -> decode_package (JObj kvs) = None.
Proof. intros H Hr. unfold decode_package, package_names. struct_fail H Hr. Qed.

Lemma package_field_fp kvs o :
  get_field (nm "fp") kvs = Some o -> req dec_string o = None -> decode_package (JObj kvs) = None.
Proof. intros H Hr. unfold decode_package, package_names. struct_fail H Hr. Qed.

Lemma package_dup kvs f : In f package_names -> get_field f kvs = None -> decode_package (JObj kvs) = None.
Proof.
  intros Hin H. unfold package_names in Hin. cbn [In] in Hin.
  repeat (destruct Hin as [<-|Hin]); try contradiction; unfold decode_package, package_names; struct_dup H.
Qed.

Lemma package_required_removed kvs f : In f [nm "name"; nm "required"; nm "fp"] -> decode_package (JObj (remove_key f kvs)) = None.
Proof.
  intro Hin. cbn [In] in Hin. repeat (destruct Hin as [<-|Hin]); try contradiction.
  all: first [ eapply package_field_name; [apply get_field_remove|reflexivity] | eapply package_field_required; [apply get_field_remove|reflexivity] | eapply package_field_fp; [apply get_field_remove|reflexivity] ].
Qed.

Lemma package_retyped_name kvs v : dec_string v = None -> decode_package (JObj (retype (nm "name") v kvs)) = None.
Proof.
  intro Hd. destruct (get_field_retype (nm "name") v kvs) as [H|[H|H]].
  - apply (package_dup _ (nm "name")); [unfold package_names; cbn [In]; tauto|exact H].
  - apply (package_field_name _ _ H). reflexivity.
  - apply (package_field_name _ _ H). exact Hd.
Qed.

Lemma package_retyped_required kvs v : dec_bool v = None -> decode_package (JObj (retype (nm "required") v kvs)) = None.
Proof.
  intro Hd. destruct (get_field_retype (nm "required") v kvs) as [H|[H|H]].
  - apply (package_dup _ (nm "required")); [unfold package_names; cbn [In]; tauto|exact H].
  - apply (package_field_required _ _ H). reflexivity.
  - apply (package_field_required _ _ H). exact Hd.
Qed.

Lemma package_retyped_fp kvs v : dec_string v = None -> decode_package (JObj (retype (nm "fp") v kvs)) = None.
Proof.
  intro Hd. destruct (get_field_retype (nm "fp") v kvs) as [H|[H|H]].
  - apply (package_dup _ (nm "fp")); [unfold package_names; cbn [In]; tauto|exact H].
  - apply (package_field_fp _ _ H). reflexivity.
  - apply (package_field_fp _ _ H). exact Hd.
Qed.

(* ------------------------------------------------------------------ *)
(* the encoder produces printable trees                                 *)
Definition wfm (x : kv) : bool := snd (fst x) && utf8_valid (fst (fst x)) && wf_json (snd x).
Definition wfo (o : option json) : Prop := match o with Some j => wf_json j = true | None => True end.

Lemma wf_enc_fields names : forall vals,
  forallb utf8_valid names = true -> Forall wfo vals -> forallb wfm (enc_fields names vals) = true.
Proof.
  induction names as [|n ns IH]; intros vals Hn Hv; [reflexivity|].
  destruct vals as [|v vs]; [reflexivity|].
  cbn [forallb] in Hn. apply andb_true_iff in Hn as [Hn1 Hn2]. inversion Hv as [|? ? Hv1 Hv2]; subst.
  cbn [enc_fields]. rewrite forallb_app, (IH _ Hn2 Hv2), andb_true_r.
  destruct v as [j|]; [|reflexivity]. cbn [okv forallb]. unfold wfm. cbn [fst snd].
  cbn [wfo] in Hv1. rewrite Hn1, Hv1. reflexivity.
Qed.

Lemma wf_enc_extras ex :
  forallb (fun e => utf8_valid (fst e) && wf_json (snd e)) ex = true -> forallb wfm (enc_extras ex) = true.
Proof.
  intro H. unfold enc_extras. rewrite forallb_forall in *. intros x Hx.
  apply in_map_iff in Hx as (e & <- & He). unfold wfm. cbn [fst snd]. apply H. assumption.
Qed.

Lemma wf_obj names vals ex :
  forallb utf8_valid names = true -> Forall wfo vals ->
  forallb (fun e => utf8_valid (fst e) && wf_json (snd e)) ex = true ->
  wf_json (JObj (enc_fields names vals ++ enc_extras ex)) = true.
Proof.
  intros Hn Hv He. rewrite wf_json_obj. change (forallb wfm (enc_fields names vals ++ enc_extras ex) = true).
  rewrite forallb_app, (wf_enc_fields _ _ Hn Hv), (wf_enc_extras _ He). reflexivity.
Qed.

Lemma wf_obj0 names vals :
  forallb utf8_valid names = true -> Forall wfo vals -> wf_json (JObj (enc_fields names vals)) = true.
Proof.
  intros Hn Hv. pose proof (wf_obj names vals [] Hn Hv eq_refl) as H.
  cbn [enc_extras map] in H. rewrite app_nil_r in H. exact H.
Qed.

Lemma wf_arr_map {A} (enc : A -> json) l :
  Forall (fun x => wf_json (enc x) = true) l -> wf_json (JArr (map enc l)) = true.
Proof.
  intro H. rewrite wf_json_arr. apply forallb_forall. intros j Hj.
  apply in_map_iff in Hj as (x & <- & Hx). rewrite Forall_forall in H. apply H. assumption.
Qed.

Lemma wfo_str o : wf_ostr o = true -> wfo (option_map jstr o).
Proof. destruct o; [|exact (fun _ => I)]. cbn. intro H. exact H. Qed.
Lemma wfo_uint (o : option N) : wfo (option_map (JInt false) o).
Proof. destruct o; cbn; [reflexivity|exact I]. Qed.
Lemma wfo_opt {A} (enc : A -> json) (P : A -> Prop) o :
  (forall x, P x -> wf_json (enc x) = true) -> (forall x, o = Some x -> P x) -> wfo (option_map enc o).
Proof. intros H Ho. destruct o as [x|]; [|exact I]. cbn. apply H, Ho. reflexivity. Qed.

Lemma wf_status_json s : wf_status s = true -> wf_json (json_of_status s) = true.
Proof.
  destruct s as [| | |e]; intro H; try reflexivity.
  cbn [wf_status] in H. apply andb_true_iff in H as [H _]. exact H.
Qed.
Lemma wf_status_struct_json s : wf_status s = true -> wf_json (json_of_status_struct s) = true.
Proof.
  intro H. unfold json_of_status_struct. apply wf_obj0; [reflexivity|].
  repeat constructor. apply wf_status_json. assumption.
Qed.
Lemma wf_url_json c : wf_str c = true -> wf_json (json_of_url c) = true.
Proof. intro H. unfold json_of_url. apply wf_obj0; [reflexivity|]. repeat constructor. exact H. Qed.
Lemma wf_urls_json l : forallb wf_str l = true -> wf_json (json_of_urls l) = true.
Proof.
  intro H. unfold json_of_urls. apply wf_obj0; [reflexivity|]. repeat constructor. cbn [wfo].
  apply wf_arr_map. apply (forallb_Forall wf_str); [apply wf_url_json|assumption].
Qed.

Ltac wf_ex := match goal with Hx : wf_extras _ _ _ = true |- _ => apply (wf_extras_parts _ _ _ Hx) end.

Lemma wf_action_json a : wf_action a = true -> wf_json (json_of_action a) = true.
Proof.
  intro H. unfold wf_action in H. split_wf H. unfold json_of_action.
  apply wf_obj; [reflexivity| |wf_ex]. repeat constructor; apply wfo_str; assumption.
Qed.
Lemma wf_package_json p : wf_package p = true -> wf_json (json_of_package p) = true.
Proof.
  intro H. unfold wf_package in H. split_wf H. unfold json_of_package.
  apply wf_obj; [reflexivity| |wf_ex].
  repeat constructor; try (apply wfo_str; assumption); try apply wfo_uint; cbn [wfo]; try reflexivity; assumption.
Qed.
Lemma wf_manifest_json m : wf_manifest m = true -> wf_json (json_of_manifest m) = true.
Proof.
  intro H. unfold wf_manifest in H. split_wf H. unfold json_of_manifest.
  apply wf_obj0; [reflexivity|]. repeat constructor; cbn [wfo].
  - assumption.
  - unfold json_of_actions. apply wf_obj0; [reflexivity|]. repeat constructor. cbn [wfo].
    apply wf_arr_map. apply (forallb_Forall wf_action); [apply wf_action_json|assumption].
  - unfold json_of_packages. apply wf_obj0; [reflexivity|]. repeat constructor. cbn [wfo].
    apply wf_arr_map. apply (forallb_Forall wf_package); [apply wf_package_json|assumption].
Qed.
Lemma wf_update_check_json u : wf_update_check u = true -> wf_json (json_of_update_check u) = true.
Proof.
  intro H. unfold wf_update_check in H. split_wf H. unfold json_of_update_check.
  apply wf_obj; [reflexivity| |wf_ex]. repeat constructor.
  - cbn [wfo]. apply wf_status_json. assumption.
  - apply wfo_str. assumption.
  - apply (wfo_opt json_of_urls (fun l => forallb wf_str l = true)); [apply wf_urls_json|].
    intros x Hx. rewrite Hx in *. assumption.
  - apply (wfo_opt json_of_manifest (fun m => wf_manifest m = true)); [apply wf_manifest_json|].
    intros x Hx. rewrite Hx in *. assumption.
Qed.
Lemma wf_app_json a : wf_app a = true -> wf_json (json_of_app a) = true.
Proof.
  intro H. unfold wf_app in H. split_wf H. unfold json_of_app.
  apply wf_obj; [reflexivity| |wf_ex]. repeat constructor; try (apply wfo_str; assumption).
  - cbn [wfo]. assumption.
  - cbn [wfo]. apply wf_status_json. assumption.
  - apply (wfo_opt json_of_status_struct (fun s => wf_status s = true)); [apply wf_status_struct_json|].
    intros x Hx. rewrite Hx in *. assumption.
  - apply (wfo_opt json_of_update_check (fun u => wf_update_check u = true)); [apply wf_update_check_json|].
    intros x Hx. rewrite Hx in *. assumption.
  - apply (wfo_opt (fun l => JArr (map json_of_status_struct l)) (fun l => forallb wf_status l = true)).
    + intros l Hl. apply wf_arr_map. apply (forallb_Forall wf_status); [apply wf_status_struct_json|assumption].
    + intros x Hx. rewrite Hx in *. assumption.
Qed.
Lemma wf_response_json r : wf_response r = true -> wf_json (json_of_response r) = true.
Proof.
  intro H. unfold wf_response in H. split_wf H. unfold json_of_response.
  apply wf_obj0; [reflexivity|]. repeat constructor.
  - cbn [wfo]. assumption.
  - apply wfo_str. assumption.
  - apply (wfo_opt json_of_daystart (fun _ => True)); [|trivial].
    intros d _. unfold json_of_daystart. apply wf_obj0; [reflexivity|]. repeat constructor; apply wfo_uint.
  - cbn [wfo]. apply wf_arr_map. apply (forallb_Forall wf_app); [apply wf_app_json|assumption].
Qed.
Lemma wf_wrapper_json r : wf_response r = true -> wf_json (json_of_wrapper r) = true.
Proof.
  intro H. unfold json_of_wrapper. apply wf_obj0; [reflexivity|]. repeat constructor. cbn [wfo].
  apply wf_response_json. assumption.
Qed.

(* ------------------------------------------------------------------ *)
(* the anti-XSSI prefix                                                 *)
Lemma strip_xssi_prefixed b : strip_xssi (xssi_prefix ++ b) = b.
Proof. reflexivity. Qed.

Lemma strip_xssi_other b : starts_with xssi_prefix b = false -> strip_xssi b = b.
Proof. intro H. unfold strip_xssi, strip_prefix. rewrite H. reflexivity. Qed.

Lemma parse_response_prefixed b : parse_response (xssi_prefix ++ b) = parse_body b.
Proof. reflexivity. Qed.

Lemma parse_response_unprefixed b : starts_with xssi_prefix b = false -> parse_response b = parse_body b.
Proof. intro H. unfold parse_response. rewrite strip_xssi_other by assumption. reflexivity. Qed.

Lemma parse_json_rparen r : parse_json (41 :: r) = None.
Proof.
  unfold parse_json. set (s := 41 :: r).
  replace (2 * length s + 4)%nat with (S (2 * length s + 3))%nat by lia.
  reflexivity.
Qed.

(* only one prefix is removed: a second one is left for the JSON parser, which refuses it *)
Lemma parse_response_double_prefix b : parse_response (xssi_prefix ++ xssi_prefix ++ b) = None.
Proof. rewrite parse_response_prefixed. unfold parse_body, xssi_prefix. cbn [List.app]. rewrite parse_json_rparen. reflexivity. Qed.

Lemma print_json_not_prefixed j : starts_with xssi_prefix (print_json j) = false.
Proof.
  destruct (print_head j) as (c & t & Hp & Hw & _). rewrite Hp. unfold xssi_prefix. cbn [starts_with].
  destruct (41 =? c) eqn:E; [|reflexivity]. apply N.eqb_eq in E. subst c.
  exfalso. destruct j as [|b|neg n| |o s|l|kvs]; try discriminate Hp.
  - destruct b; discriminate Hp.
  - cbn [print_json] in Hp. destruct neg; [discriminate Hp|]. cbn [List.app] in Hp.
    destruct (canonical_dec_first_digit _ _ (print_dec_canonical n)) as (c & r & Hq & Hd).
    rewrite Hq in Hp. inversion Hp; subst. discriminate Hd.
Qed.

(* on the print of a well-formed tree, parsing is decoding *)
Lemma parse_response_print j : wf_json j = true -> parse_response (print_json j) = decode_wrapper j.
Proof.
  intro H. rewrite parse_response_unprefixed by apply print_json_not_prefixed.
  unfold parse_body. rewrite parse_print by assumption. reflexivity.
Qed.

Theorem roundtrip d : wf_doc d = true -> parse_response (print_doc d) = Some (to_response d).
Proof.
  intro H. unfold wf_doc in H. unfold print_doc, to_response.
  destruct (d_xssi d).
  - rewrite parse_response_prefixed. unfold parse_body.
    rewrite parse_print by (apply wf_wrapper_json; assumption). apply wrapper_roundtrip. assumption.
  - cbn [List.app]. rewrite parse_response_print by (apply wf_wrapper_json; assumption).
    apply wrapper_roundtrip. assumption.
Qed.

(* ------------------------------------------------------------------ *)
(* full URLs                                                            *)
Lemma full_urls_in u x :
  In x (full_urls u) <-> exists c p, In c (codebases u) /\ In p (packages u) /\ x = c ++ pk_name p.
Proof.
  unfold full_urls. rewrite in_flat_map. split.
  - intros (c & Hc & Hx). apply in_map_iff in Hx as (p & <- & Hp). exists c, p. auto.
  - intros (c & p & Hc & Hp & ->). exists c. split; [assumption|]. apply in_map_iff. exists p. auto.
Qed.

Lemma flat_map_length_const {A B} (f : A -> list B) n l :
  (forall a, length (f a) = n) -> length (flat_map f l) = (length l * n)%nat.
Proof.
  intro H. induction l as [|a r IH]; [reflexivity|]. cbn [flat_map length]. rewrite app_length, H, IH. lia.
Qed.

Lemma full_urls_length u : length (full_urls u) = (length (codebases u) * length (packages u))%nat.
Proof. unfold full_urls. apply flat_map_length_const. intro c. apply map_length. Qed.

Lemma flat_map_nth {A B C} (f : A -> B -> C) (ps : list B) : forall (cs : list A) i j c p,
  nth_error cs i = Some c -> nth_error ps j = Some p ->
  nth_error (flat_map (fun c => map (f c) ps) cs) (i * length ps + j) = Some (f c p).
Proof.
  induction cs as [|c0 cs IH]; intros i j c p Hc Hp; [destruct i; discriminate|].
  cbn [flat_map]. destruct i as [|i].
  - cbn [nth_error] in Hc. inversion Hc; subst. cbn [Nat.mul plus].
    rewrite nth_error_app1 by (rewrite map_length; apply nth_error_Some; congruence).
    apply map_nth_error. assumption.
  - cbn [nth_error] in Hc.
    rewrite nth_error_app2 by (rewrite map_length; cbn [Nat.mul]; lia).
    rewrite map_length. replace (S i * length ps + j - length ps)%nat with (i * length ps + j)%nat by (cbn [Nat.mul]; lia).
    apply IH; assumption.
Qed.

(* codebase-major order: entry (i, j) is at index i * #packages + j *)
Lemma full_urls_nth u i j c p :
  nth_error (codebases u) i = Some c -> nth_error (packages u) j = Some p ->
  nth_error (full_urls u) (i * length (packages u) + j) = Some (c ++ pk_name p).
Proof. intros Hc Hp. unfold full_urls. apply (flat_map_nth (fun c p => c ++ pk_name p)); assumption. Qed.

(* ------------------------------------------------------------------ *)
(* statuses                                                             *)
Definition known_status (s : bytes) : bool := mem_key s [nm "ok"; nm "restricted"; nm "noupdate"].

Lemma status_unknown_preserved s : known_status s = false -> status_of_string s = SError s.
Proof.
  unfold known_status, mem_key. cbn [existsb]. intro H.
  apply orb_false_iff in H as [H1 H]. apply orb_false_iff in H as [H2 H]. apply orb_false_iff in H as [H3 _].
  unfold status_of_string. unfold nm in *. rewrite H1, H2, H3. reflexivity.
Qed.

Lemma status_known s :
  known_status s = true ->
  (s = nm "ok" /\ status_of_string s = SOk) \/ (s = nm "restricted" /\ status_of_string s = SRestricted)
  \/ (s = nm "noupdate" /\ status_of_string s = SNoUpdate).
Proof.
  unfold known_status, mem_key. cbn [existsb]. intro H.
  apply orb_true_iff in H as [H|H]; [|apply orb_true_iff in H as [H|H]; [|apply orb_true_iff in H as [H|H]; [|discriminate]]];
    apply bytes_eqb_eq in H; subst; auto.
Qed.

Lemma status_error_iff s : (exists e, status_of_string s = SError e) <-> known_status s = false.
Proof.
  split.
  - intros (e & He). destruct (known_status s) eqn:K; [|reflexivity].
    destruct (status_known s K) as [[_ H]|[[_ H]|[_ H]]]; rewrite H in He; discriminate.
  - intro H. exists s. apply status_unknown_preserved. assumption.
Qed.

(* ------------------------------------------------------------------ *)
(* every JSON value the result keeps sits within serde_json's recursion limit and is decodable *)
Ltac break_hyp H :=
  repeat match type of H with
         | context [match ?x with _ => _ end] => destruct x eqn:?; try discriminate H
         end.

Lemma all_some_Forall2 {A B} (dec : B -> option A) : forall l l',
  all_some (map dec l) = Some l' -> Forall2 (fun j x => dec j = Some x) l l'.
Proof.
  induction l as [|j l IH]; intros l' H; cbn [map all_some] in H.
  - inversion H. constructor.
  - destruct (dec j) eqn:E; [|discriminate]. destruct (all_some (map dec l)) eqn:E2; [|discriminate].
    inversion H; subst. constructor; [assumption|apply IH; reflexivity].
Qed.

Lemma dec_list_Forall {A} (dec : json -> option A) (P : A -> Prop) j l :
  (forall j x, dec j = Some x -> P x) -> dec_list dec j = Some l -> Forall P l.
Proof.
  intros HP H. unfold dec_list in H. destruct j; try discriminate.
  apply all_some_Forall2 in H. induction H; constructor; eauto.
Qed.

Definition within_action (a : raction) : Prop := extras_ok action_lvl (ac_extra a) = true.
Definition within_package (p : rpackage) : Prop := extras_ok package_lvl (pk_extra p) = true.
Definition within_manifest (m : rmanifest) : Prop :=
  Forall within_action (mf_actions m) /\ Forall within_package (mf_packages m).
Definition within_update_check (u : rupdatecheck) : Prop :=
  extras_ok update_check_lvl (uc_extra u) = true /\
  match uc_manifest u with Some m => within_manifest m | None => True end.
Definition within_app (a : rapp) : Prop :=
  extras_ok app_lvl (ra_extra a) = true /\
  match ra_update_check a with Some u => within_update_check u | None => True end.
Definition within_response (r : response) : Prop := Forall within_app (r_apps r).

Lemma decode_action_within j a : decode_action j = Some a -> within_action a.
Proof. unfold decode_action. intro H. break_hyp H. inversion H; subst. assumption. Qed.
Lemma decode_package_within j p : decode_package j = Some p -> within_package p.
Proof. unfold decode_package. intro H. break_hyp H. inversion H; subst. assumption. Qed.

Lemma opt_Some {A} (dec : json -> option A) o x : opt dec o = Some (Some x) -> exists j, dec j = Some x.
Proof.
  unfold opt. intro H. destruct o as [j|]; [|discriminate].
  destruct j; try discriminate; match type of H with context [dec ?v] => exists v; destruct (dec v); inversion H; reflexivity end.
Qed.

Lemma req_Some {A} (dec : json -> option A) o x : req dec o = Some x -> exists j, dec j = Some x.
Proof. destruct o; [eauto|discriminate]. Qed.

Lemma decode_actions_within j l : decode_actions j = Some l -> Forall within_action l.
Proof.
  unfold decode_actions. intro H. break_hyp H. apply req_Some in H as (ja & H).
  eapply dec_list_Forall; [apply decode_action_within|exact H].
Qed.
Lemma decode_packages_within j l : decode_packages j = Some l -> Forall within_package l.
Proof.
  unfold decode_packages. intro H. break_hyp H. apply req_Some in H as (ja & H).
  eapply dec_list_Forall; [apply decode_package_within|exact H].
Qed.

Lemma decode_manifest_within j m : decode_manifest j = Some m -> within_manifest m.
Proof.
  unfold decode_manifest. intro H. break_hyp H. inversion H; subst.
  split; cbn [mf_actions mf_packages].
  - match goal with Ha : req decode_actions _ = Some _ |- _ => apply req_Some in Ha as (ja & Ha);
      eapply decode_actions_within; exact Ha end.
  - match goal with Ha : req decode_packages _ = Some _ |- _ => apply req_Some in Ha as (ja & Ha);
      eapply decode_packages_within; exact Ha end.
Qed.

Lemma decode_update_check_within j u : decode_update_check j = Some u -> within_update_check u.
Proof.
  unfold decode_update_check. intro H. break_hyp H. inversion H; subst.
  split; cbn [uc_extra uc_manifest]; [assumption|].
  match goal with |- match ?m with Some _ => _ | None => _ end => destruct m eqn:Em; [|exact I] end.
  match goal with Hm : opt decode_manifest _ = Some (Some _) |- _ => apply opt_Some in Hm as (jm & Hm) end.
  eapply decode_manifest_within. eassumption.
Qed.

Lemma decode_app_within j a : decode_app j = Some a -> within_app a.
Proof.
  unfold decode_app. intro H. break_hyp H. inversion H; subst.
  split; cbn [ra_extra ra_update_check]; [assumption|].
  match goal with |- match ?m with Some _ => _ | None => _ end => destruct m eqn:Em; [|exact I] end.
  match goal with Hm : opt decode_update_check _ = Some (Some _) |- _ => apply opt_Some in Hm as (jm & Hm) end.
  eapply decode_update_check_within. eassumption.
Qed.

Lemma decode_response_within j r : decode_response j = Some r -> within_response r.
Proof.
  unfold decode_response. intro H. break_hyp H. inversion H; subst.
  unfold within_response. cbn [r_apps].
  match goal with Ha : req (dec_list decode_app) _ = Some _ |- _ => apply req_Some in Ha as (ja & Ha);
    eapply dec_list_Forall; [apply decode_app_within|exact Ha] end.
Qed.

Theorem parse_response_within b r : parse_response b = Some r -> within_response r.
Proof.
  unfold parse_response, parse_body. intro H. destruct (parse_json (strip_xssi b)); [|discriminate].
  unfold decode_wrapper in H. break_hyp H. apply req_Some in H as (jr & H). eapply decode_response_within. exact H.
Qed.

(* what extras_ok says, spelled out *)
Lemma extras_ok_spec lvl ex :
  extras_ok lvl ex = true <-> forall key v, In (key, v) ex -> strings_ok v = true /\ lvl + depth v <= max_open.
Proof.
  unfold extras_ok, kept_ok. rewrite forallb_forall. split.
  - intros H key v Hin. specialize (H _ Hin). cbn [snd] in H. apply andb_true_iff in H as [H1 H2].
    apply N.leb_le in H2. auto.
  - intros H [key v] Hin. destruct (H key v Hin) as [H1 H2]. cbn [snd]. rewrite H1. apply N.leb_le in H2. rewrite H2. reflexivity.
Qed.

(* totality *)
Lemma parse_response_total b : parse_response b = None \/ exists r, parse_response b = Some r.
Proof. destruct (parse_response b) as [r|]; [right; exists r; reflexivity|left; reflexivity]. Qed.

(* ------------------------------------------------------------------ *)
(* statements of Props/C16.v that combine the lemmas above             *)
Lemma c16_prefix_proof :
  forall b, starts_with xssi_prefix b = false -> parse_response (xssi_prefix ++ b) = parse_response b.
Proof. intros b H. rewrite parse_response_prefixed, parse_response_unprefixed by assumption. reflexivity. Qed.

Lemma c16_status_proof :
  forall s, dec_status (JStr true s) = Some (status_of_string s) /\
            (known_status s = false -> status_of_string s = SError s).
Proof. intro s. split; [reflexivity|apply status_unknown_preserved]. Qed.

Lemma c16_status_not_a_string_proof :
  forall j, (forall s, j <> JStr true s) -> dec_status j = None.
Proof. intros j H. destruct j as [| | | |[|] s| |]; try reflexivity. exfalso. apply (H s). reflexivity. Qed.

Lemma c16_full_urls_proof :
  forall u,
    (forall x, In x (full_urls u) <-> exists c p, In c (codebases u) /\ In p (packages u) /\ x = c ++ pk_name p) /\
    length (full_urls u) = (length (codebases u) * length (packages u))%nat /\
    (forall i j c p, nth_error (codebases u) i = Some c -> nth_error (packages u) j = Some p ->
                     nth_error (full_urls u) (i * length (packages u) + j) = Some (c ++ pk_name p)).
Proof.
  intro u. split; [apply full_urls_in|]. split; [apply full_urls_length|apply full_urls_nth].
Qed.

Lemma c16_required_wrapper_proof :
  forall kvs v,
    decode_wrapper (JObj (remove_key (nm "response") kvs)) = None /\
    (decode_response v = None -> decode_wrapper (JObj (retype (nm "response") v kvs)) = None).
Proof. intros. split; [apply wrapper_required_removed; cbn; tauto|apply wrapper_retyped_response]. Qed.

Lemma c16_required_response_proof :
  forall kvs v,
    decode_response (JObj (remove_key (nm "protocol") kvs)) = None /\
    decode_response (JObj (remove_key (nm "app") kvs)) = None /\
    (dec_string v = None -> decode_response (JObj (retype (nm "protocol") v kvs)) = None) /\
    (dec_list decode_app v = None -> decode_response (JObj (retype (nm "app") v kvs)) = None).
Proof.
  intros. repeat split; try (apply response_required_removed; cbn; tauto);
    [apply response_retyped_protocol|apply response_retyped_app].
Qed.

Lemma c16_required_app_proof :
  forall kvs v,
    decode_app (JObj (remove_key (nm "appid") kvs)) = None /\
    decode_app (JObj (remove_key (nm "status") kvs)) = None /\
    (dec_string v = None -> decode_app (JObj (retype (nm "appid") v kvs)) = None) /\
    (dec_status v = None -> decode_app (JObj (retype (nm "status") v kvs)) = None).
Proof.
  intros. repeat split; try (apply app_required_removed; cbn; tauto);
    [apply app_retyped_appid|apply app_retyped_status].
Qed.

Lemma c16_required_ping_event_proof :
  forall kvs v,
    decode_status_struct (JObj (remove_key (nm "status") kvs)) = None /\
    (dec_status v = None -> decode_status_struct (JObj (retype (nm "status") v kvs)) = None).
Proof. intros. split; [apply status_struct_required_removed; cbn; tauto|apply status_struct_retyped_status]. Qed.

Lemma c16_required_update_check_proof :
  forall kvs v,
    decode_update_check (JObj (remove_key (nm "status") kvs)) = None /\
    (dec_status v = None -> decode_update_check (JObj (retype (nm "status") v kvs)) = None).
Proof. intros. split; [apply update_check_required_removed; cbn; tauto|apply update_check_retyped_status]. Qed.

Lemma c16_required_urls_proof :
  forall kvs v,
    decode_urls (JObj (remove_key (nm "url") kvs)) = None /\
    decode_url (JObj (remove_key (nm "codebase") kvs)) = None /\
    (dec_list decode_url v = None -> decode_urls (JObj (retype (nm "url") v kvs)) = None) /\
    (dec_string v = None -> decode_url (JObj (retype (nm "codebase") v kvs)) = None).
Proof.
  intros. repeat split.
  - apply urls_required_removed; cbn; tauto.
  - apply url_required_removed; cbn; tauto.
  - apply urls_retyped_url.
  - apply url_retyped_codebase.
Qed.

Lemma c16_required_manifest_proof :
  forall kvs v,
    decode_manifest (JObj (remove_key (nm "version") kvs)) = None /\
    decode_manifest (JObj (remove_key (nm "actions") kvs)) = None /\
    decode_manifest (JObj (remove_key (nm "packages") kvs)) = None /\
    (dec_string v = None -> decode_manifest (JObj (retype (nm "version") v kvs)) = None) /\
    (decode_actions v = None -> decode_manifest (JObj (retype (nm "actions") v kvs)) = None) /\
    (decode_packages v = None -> decode_manifest (JObj (retype (nm "packages") v kvs)) = None) /\
    decode_actions (JObj (remove_key (nm "action") kvs)) = None /\
    decode_packages (JObj (remove_key (nm "package") kvs)) = None /\
    (dec_list decode_action v = None -> decode_actions (JObj (retype (nm "action") v kvs)) = None) /\
    (dec_list decode_package v = None -> decode_packages (JObj (retype (nm "package") v kvs)) = None).
Proof.
  intros. repeat split; try (apply manifest_required_removed; cbn; tauto).
  - apply manifest_retyped_version.
  - apply manifest_retyped_actions.
  - apply manifest_retyped_packages.
  - apply actions_required_removed; cbn; tauto.
  - apply packages_required_removed; cbn; tauto.
  - apply actions_retyped_action.
  - apply packages_retyped_package.
Qed.

Lemma c16_required_package_proof :
  forall kvs v,
    decode_package (JObj (remove_key (nm "name") kvs)) = None /\
    decode_package (JObj (remove_key (nm "required") kvs)) = None /\
    decode_package (JObj (remove_key (nm "fp") kvs)) = None /\
    (dec_string v = None -> decode_package (JObj (retype (nm "name") v kvs)) = None) /\
    (dec_bool v = None -> decode_package (JObj (retype (nm "required") v kvs)) = None) /\
    (dec_string v = None -> decode_package (JObj (retype (nm "fp") v kvs)) = None).
Proof.
  intros. repeat split; try (apply package_required_removed; cbn; tauto).
  - apply package_retyped_name.
  - apply package_retyped_required.
  - apply package_retyped_fp.
Qed.

Lemma c16_size_is_u64_proof :
  forall kvs n,
    get_field (nm "size") kvs = Some (Some (JInt false n)) ->
    2 ^ 64 <= n -> decode_package (JObj kvs) = None.
Proof.
  intros kvs n H Hn. apply (package_field_size _ _ H). apply opt_fail; [discriminate|].
  unfold dec_u64, dec_uint. replace (n <? 2 ^ 64) with false by (symmetry; apply N.ltb_ge; assumption). reflexivity.
Qed.

Lemma c16_list_fails_proof :
  forall A (dec : json -> option A) l x, In x l -> dec x = None -> dec_list dec (JArr l) = None.
Proof.
  intros A dec l x Hin Hd. unfold dec_list. induction l as [|y r IH]; [contradiction|].
  cbn [map all_some]. destruct Hin as [->|Hin].
  - rewrite Hd. reflexivity.
  - rewrite (IH Hin). destruct (dec y); reflexivity.
Qed.
