(* Proofs/ResponseFacts.v — facts about Model/Response.v *)
Require Import Verif.Base.Bytes Verif.Model.Json Verif.Model.Proto Verif.Model.Response.
Require Import Verif.Proofs.BytesFacts Verif.Proofs.JsonFacts.
Open Scope N_scope.
Local Arguments N.eqb : simpl nomatch.
Local Arguments N.leb : simpl nomatch.
Local Arguments N.ltb : simpl nomatch.

(* ------------------------------------------------------------------ *)
(* keys                                                                 *)
Lemma beq_sym x y : bytes_eqb x y = bytes_eqb y x.
Proof.
  destruct (bytes_eqb x y) eqn:E1, (bytes_eqb y x) eqn:E2; try reflexivity.
  - apply bytes_eqb_eq in E1. subst. rewrite bytes_eqb_refl in E2. discriminate.
  - apply bytes_eqb_eq in E2. subst. rewrite bytes_eqb_refl in E1. discriminate.
Qed.

Lemma mem_key_cons x n ns : mem_key x (n :: ns) = bytes_eqb x n || mem_key x ns.
Proof. reflexivity. Qed.

Lemma mem_key_In x names : mem_key x names = true <-> In x names.
Proof.
  unfold mem_key. rewrite existsb_exists. split.
  - intros (y & Hy & He). apply bytes_eqb_eq in He. subst. assumption.
  - intro H. exists x. split; [assumption|apply bytes_eqb_refl].
Qed.

Fixpoint nodupb (l : list bytes) : bool :=
  match l with [] => true | x :: r => negb (mem_key x r) && nodupb r end.

Definition keys_notin (names : list bytes) (kvs : list kv) : Prop :=
  forall x, In x kvs -> mem_key (key_of x) names = false.

Lemma lookup_app key a b : lookup key (a ++ b) = lookup key a ++ lookup key b.
Proof. unfold lookup. apply filter_app. Qed.

Lemma lookup_notin key names kvs : mem_key key names = true -> keys_notin names kvs -> lookup key kvs = [].
Proof.
  intros Hk Hn. induction kvs as [|x r IH]; [reflexivity|].
  unfold lookup in *. cbn [filter].
  destruct (bytes_eqb (key_of x) key) eqn:E.
  - apply bytes_eqb_eq in E. subst key. rewrite (Hn x (or_introl eq_refl)) in Hk. discriminate.
  - apply IH. intros y Hy. apply Hn. right. assumption.
Qed.

Lemma lookup_okv_same key v : lookup key (okv key v) = okv key v.
Proof. destruct v; [|reflexivity]. unfold lookup, okv. cbn [filter key_of fst]. rewrite bytes_eqb_refl. reflexivity. Qed.

Lemma lookup_okv_other key key' v : bytes_eqb key' key = false -> lookup key (okv key' v) = [].
Proof. intro H. destruct v; [|reflexivity]. unfold lookup, okv. cbn [filter key_of fst]. rewrite H. reflexivity. Qed.

Lemma lookup_enc_fields key ns : forall vs, mem_key key ns = false -> lookup key (enc_fields ns vs) = [].
Proof.
  induction ns as [|n ns IH]; intros vs H; [reflexivity|].
  destruct vs as [|v vs]; [reflexivity|].
  rewrite mem_key_cons in H. apply orb_false_iff in H as [H1 H2].
  cbn [enc_fields]. rewrite lookup_app, lookup_okv_other, IH by (try assumption; rewrite beq_sym; assumption).
  reflexivity.
Qed.

Lemma get_fields_enc names : forall vals pre ex,
  nodupb names = true -> length vals = length names ->
  (forall n, mem_key n names = true -> lookup n pre = []) ->
  keys_notin names ex ->
  get_fields names (pre ++ enc_fields names vals ++ ex) = Some vals.
Proof.
  induction names as [|n ns IH]; intros vals pre ex Hnd Hlen Hpre Hex.
  - destruct vals; [reflexivity|discriminate].
  - destruct vals as [|v vs]; [discriminate|].
    cbn [nodupb] in Hnd. apply andb_true_iff in Hnd as [Hn Hnd]. apply negb_true_iff in Hn.
    cbn [get_fields enc_fields].
    assert (Hself : mem_key n (n :: ns) = true) by (rewrite mem_key_cons, bytes_eqb_refl; reflexivity).
    assert (Hg : get_field n (pre ++ (okv n v ++ enc_fields ns vs) ++ ex) = Some v).
    { unfold get_field. rewrite !lookup_app, (Hpre n Hself), lookup_okv_same, (lookup_enc_fields n ns vs Hn),
        (lookup_notin n (n :: ns) ex Hself Hex).
      destruct v; reflexivity. }
    rewrite Hg.
    replace (pre ++ (okv n v ++ enc_fields ns vs) ++ ex) with ((pre ++ okv n v) ++ enc_fields ns vs ++ ex)
      by (rewrite <- !app_assoc; reflexivity).
    rewrite IH; [reflexivity|assumption|cbn [length] in Hlen; lia| |].
    + intros m Hm. rewrite lookup_app, Hpre by (rewrite mem_key_cons, Hm; apply orb_true_r).
      rewrite lookup_okv_other; [reflexivity|].
      destruct (bytes_eqb n m) eqn:E; [|reflexivity].
      apply bytes_eqb_eq in E. subst m. rewrite Hm in Hn. discriminate.
    + intros x Hx. specialize (Hex x Hx). rewrite mem_key_cons in Hex. apply orb_false_iff in Hex. tauto.
Qed.

Lemma enc_fields_keys names : forall vals x, In x (enc_fields names vals) -> mem_key (key_of x) names = true /\ kok_of x = true.
Proof.
  induction names as [|n ns IH]; intros vals x Hx; [contradiction|].
  destruct vals as [|v vs]; [contradiction|].
  cbn [enc_fields] in Hx. apply in_app_or in Hx as [Hx|Hx].
  - destruct v; [|contradiction]. destruct Hx as [<-|[]]. cbn [key_of kok_of fst snd].
    rewrite mem_key_cons, bytes_eqb_refl. split; reflexivity.
  - destruct (IH _ _ Hx) as [H1 H2]. rewrite mem_key_cons, H1. split; [apply orb_true_r|assumption].
Qed.

Definition extras_fresh (names : list bytes) (ex : jextras) : bool :=
  forallb (fun e => negb (mem_key (fst e) names)) ex.

Lemma enc_extras_notin names ex : extras_fresh names ex = true -> keys_notin names (enc_extras ex).
Proof.
  unfold extras_fresh, keys_notin, enc_extras. rewrite forallb_forall. intros H x Hx.
  apply in_map_iff in Hx as (e & <- & He). cbn [key_of fst]. apply negb_true_iff. apply H. assumption.
Qed.

Lemma others_enc names vals ex :
  extras_fresh names ex = true -> others names (enc_fields names vals ++ enc_extras ex) = ex.
Proof.
  intro Hf. unfold others. rewrite filter_app, map_app.
  assert (H1 : filter (fun x => negb (mem_key (key_of x) names)) (enc_fields names vals) = []).
  { pose proof (enc_fields_keys names vals) as Hk. induction (enc_fields names vals) as [|x r IHr]; [reflexivity|].
    cbn [filter]. destruct (Hk x (or_introl eq_refl)) as [Hm _]. rewrite Hm. cbn [negb].
    apply IHr. intros y Hy. apply Hk. right. assumption. }
  rewrite H1. cbn [map List.app].
  unfold extras_fresh in Hf. induction ex as [|[ke ve] r IHr]; [reflexivity|].
  cbn [forallb fst] in Hf. apply andb_true_iff in Hf as [Ha Hb].
  cbn [enc_extras map filter key_of val_of fst snd]. rewrite Ha. cbn [map key_of val_of fst snd].
  f_equal. apply IHr. assumption.
Qed.

Lemma keys_ok_enc names vals ex : keys_ok (enc_fields names vals ++ enc_extras ex) = true.
Proof.
  unfold keys_ok. rewrite forallb_app. apply andb_true_iff. split; apply forallb_forall; intros x Hx.
  - apply (enc_fields_keys names vals x Hx).
  - unfold enc_extras in Hx. apply in_map_iff in Hx as (e & <- & _). reflexivity.
Qed.

Lemma flat_fields_enc names vals ex :
  nodupb names = true -> length vals = length names -> extras_fresh names ex = true ->
  flat_fields names (JObj (enc_fields names vals ++ enc_extras ex)) = Some (vals, ex).
Proof.
  intros Hnd Hlen Hf. unfold flat_fields. rewrite keys_ok_enc.
  pose proof (get_fields_enc names vals [] (enc_extras ex) Hnd Hlen (fun _ _ => eq_refl) (enc_extras_notin _ _ Hf)) as Hg.
  cbn [List.app] in Hg. rewrite Hg.
  rewrite others_enc by assumption. reflexivity.
Qed.

Lemma struct_fields_enc names vals :
  nodupb names = true -> length vals = length names ->
  struct_fields names (JObj (enc_fields names vals)) = Some vals.
Proof.
  intros Hnd Hlen. unfold struct_fields.
  pose proof (keys_ok_enc names vals []) as Hk. cbn [enc_extras map] in Hk. rewrite app_nil_r in Hk. rewrite Hk.
  pose proof (get_fields_enc names vals [] [] Hnd Hlen (fun _ _ => eq_refl)) as Hg.
  cbn [List.app] in Hg. rewrite app_nil_r in Hg. apply Hg. intros x [].
Qed.

(* ------------------------------------------------------------------ *)
(* well-formed values                                                   *)
Lemma wf_strings_ok j : wf_json j = true -> strings_ok j = true.
Proof.
  induction j as [|b|neg n| |o s|l IH|kvs IH] using json_ind'; intro H; try reflexivity; try discriminate.
  - cbn [wf_json] in H. apply andb_true_iff in H as [H _]. exact H.
  - rewrite wf_json_arr in H. change (strings_ok (JArr l)) with (forallb strings_ok l).
    rewrite forallb_forall in *. rewrite Forall_forall in IH. intros x Hx. apply IH; [assumption|apply H; assumption].
  - rewrite wf_json_obj in H.
    change (strings_ok (JObj kvs)) with (forallb (fun x => snd (fst x) && strings_ok (snd x)) kvs).
    rewrite forallb_forall in *. rewrite Forall_forall in IH. intros x Hx. specialize (H x Hx).
    apply andb_true_iff in H as [H1 H3]. apply andb_true_iff in H1 as [H1 H2].
    rewrite H1. cbn [andb]. apply IH; assumption.
Qed.

Lemma wf_extras_parts names lvl ex :
  wf_extras names lvl ex = true ->
  extras_fresh names ex = true /\ extras_ok lvl ex = true /\
  forallb (fun e => utf8_valid (fst e) && wf_json (snd e)) ex = true.
Proof.
  unfold wf_extras, extras_fresh, extras_ok, kept_ok. rewrite !forallb_forall. intro H.
  repeat split; intros e He; specialize (H e He);
    apply andb_true_iff in H as [H H4]; apply andb_true_iff in H as [H H3]; apply andb_true_iff in H as [H1 H2].
  - assumption.
  - rewrite (wf_strings_ok _ H3), H4. reflexivity.
  - rewrite H1, H3. reflexivity.
Qed.

(* ------------------------------------------------------------------ *)
(* primitives                                                           *)
Lemma status_roundtrip s : wf_status s = true -> dec_status (json_of_status s) = Some s.
Proof.
  destruct s as [| | |e]; intro H; try reflexivity.
  cbn [wf_status] in H. apply andb_true_iff in H as [_ H]. apply negb_true_iff in H.
  unfold mem_key in H. cbn [existsb] in H.
  apply orb_false_iff in H as [H1 H]. apply orb_false_iff in H as [H2 H]. apply orb_false_iff in H as [H3 _].
  unfold json_of_status, jstr, status_string, dec_status, status_of_string. unfold nm in *.
  rewrite H1, H2, H3. reflexivity.
Qed.

Lemma all_some_map {A B} (dec : B -> option A) (enc : A -> B) l :
  Forall (fun x => dec (enc x) = Some x) l -> all_some (map dec (map enc l)) = Some l.
Proof.
  induction 1 as [|x r Hx Hr IH]; [reflexivity|]. cbn [map all_some]. rewrite Hx, IH. reflexivity.
Qed.

Lemma dec_list_roundtrip {A} (dec : json -> option A) (enc : A -> json) l :
  Forall (fun x => dec (enc x) = Some x) l -> dec_list dec (JArr (map enc l)) = Some l.
Proof. intro H. unfold dec_list. apply all_some_map. assumption. Qed.

Lemma forallb_Forall {A} (f : A -> bool) (P : A -> Prop) l :
  (forall x, f x = true -> P x) -> forallb f l = true -> Forall P l.
Proof.
  intros H Hf. rewrite forallb_forall in Hf. apply Forall_forall. intros x Hx. apply H, Hf, Hx.
Qed.

Lemma opt_string o : wf_ostr o = true -> opt dec_string (option_map jstr o) = Some o.
Proof. destruct o; reflexivity. Qed.
Lemma opt_uint bound o : wf_ouint bound o = true -> opt (dec_uint bound) (option_map (JInt false) o) = Some o.
Proof. destruct o as [n|]; [|reflexivity]. cbn [wf_ouint]. intro H. cbn. rewrite H. reflexivity. Qed.

Ltac split_wf H :=
  repeat match type of H with
         | (_ && _) = true => let H' := fresh H in apply andb_true_iff in H as [H H']
         end.

(* ------------------------------------------------------------------ *)
(* each struct: decode (encode x) = x                                   *)
Lemma status_struct_roundtrip s : wf_status s = true -> decode_status_struct (json_of_status_struct s) = Some s.
Proof.
  intro H. unfold decode_status_struct, json_of_status_struct.
  rewrite struct_fields_enc by reflexivity. cbn [req]. apply status_roundtrip. assumption.
Qed.

Lemma url_roundtrip c : decode_url (json_of_url c) = Some c.
Proof. unfold decode_url, json_of_url. rewrite struct_fields_enc by reflexivity. reflexivity. Qed.

Lemma urls_roundtrip l : decode_urls (json_of_urls l) = Some l.
Proof.
  unfold decode_urls, json_of_urls. rewrite struct_fields_enc by reflexivity. cbn [req].
  apply dec_list_roundtrip. apply Forall_forall. intros x _. apply url_roundtrip.
Qed.

Lemma action_roundtrip a : wf_action a = true -> decode_action (json_of_action a) = Some a.
Proof.
  intro H. unfold wf_action in H. split_wf H.
  match goal with Hx : wf_extras _ _ _ = true |- _ => destruct (wf_extras_parts _ _ _ Hx) as (Hf & Hok & _) end.
  unfold decode_action, json_of_action. rewrite flat_fields_enc by (try reflexivity; assumption).
  rewrite !opt_string by assumption. rewrite Hok. destruct a; reflexivity.
Qed.

Lemma actions_roundtrip l : forallb wf_action l = true -> decode_actions (json_of_actions l) = Some l.
Proof.
  intro H. unfold decode_actions, json_of_actions. rewrite struct_fields_enc by reflexivity. cbn [req].
  apply dec_list_roundtrip. apply (forallb_Forall wf_action); [apply action_roundtrip|assumption].
Qed.

Lemma package_roundtrip p : wf_package p = true -> decode_package (json_of_package p) = Some p.
Proof.
  intro H. unfold wf_package in H. split_wf H.
  match goal with Hx : wf_extras _ _ _ = true |- _ => destruct (wf_extras_parts _ _ _ Hx) as (Hf & Hok & _) end.
  unfold decode_package, json_of_package. rewrite flat_fields_enc by (try reflexivity; assumption).
  rewrite !opt_string by assumption. unfold dec_u64. rewrite opt_uint by assumption.
  cbn [req dec_string dec_bool jstr]. rewrite Hok. destruct p; reflexivity.
Qed.

Lemma packages_roundtrip l : forallb wf_package l = true -> decode_packages (json_of_packages l) = Some l.
Proof.
  intro H. unfold decode_packages, json_of_packages. rewrite struct_fields_enc by reflexivity. cbn [req].
  apply dec_list_roundtrip. apply (forallb_Forall wf_package); [apply package_roundtrip|assumption].
Qed.

Lemma manifest_roundtrip m : wf_manifest m = true -> decode_manifest (json_of_manifest m) = Some m.
Proof.
  intro H. unfold wf_manifest in H. split_wf H.
  unfold decode_manifest, json_of_manifest. rewrite struct_fields_enc by reflexivity.
  cbn [req dec_string jstr]. rewrite actions_roundtrip, packages_roundtrip by assumption.
  destruct m; reflexivity.
Qed.

Lemma opt_roundtrip {A} (dec : json -> option A) (enc : A -> json) o :
  (forall x, o = Some x -> dec (enc x) = Some x /\ enc x <> JNull) ->
  opt dec (option_map enc o) = Some o.
Proof.
  destruct o as [x|]; [|reflexivity]. intro H. destruct (H x eq_refl) as [Hd Hn].
  cbn [option_map opt]. destruct (enc x); try congruence; rewrite Hd; reflexivity.
Qed.

Lemma update_check_roundtrip u : wf_update_check u = true -> decode_update_check (json_of_update_check u) = Some u.
Proof.
  intro H. unfold wf_update_check in H. split_wf H.
  match goal with Hx : wf_extras _ _ _ = true |- _ => destruct (wf_extras_parts _ _ _ Hx) as (Hf & Hok & _) end.
  unfold decode_update_check, json_of_update_check. rewrite flat_fields_enc by (try reflexivity; assumption).
  cbn [req]. rewrite status_roundtrip, opt_string by assumption.
  rewrite (opt_roundtrip decode_urls json_of_urls).
  2:{ intros x _. split; [apply urls_roundtrip|discriminate]. }
  rewrite (opt_roundtrip decode_manifest json_of_manifest).
  2:{ intros x Hx. rewrite Hx in *. split; [apply manifest_roundtrip; assumption|discriminate]. }
  rewrite Hok. destruct u; reflexivity.
Qed.

Lemma app_roundtrip a : wf_app a = true -> decode_app (json_of_app a) = Some a.
Proof.
  intro H. unfold wf_app in H. split_wf H.
  match goal with Hx : wf_extras _ _ _ = true |- _ => destruct (wf_extras_parts _ _ _ Hx) as (Hf & Hok & _) end.
  unfold decode_app, json_of_app. rewrite flat_fields_enc by (try reflexivity; assumption).
  cbn [req dec_string jstr]. rewrite status_roundtrip, !opt_string by assumption.
  rewrite (opt_roundtrip decode_status_struct json_of_status_struct).
  2:{ intros x Hx. rewrite Hx in *. split; [apply status_struct_roundtrip; assumption|discriminate]. }
  rewrite (opt_roundtrip decode_update_check json_of_update_check).
  2:{ intros x Hx. rewrite Hx in *. split; [apply update_check_roundtrip; assumption|discriminate]. }
  rewrite (opt_roundtrip (dec_list decode_status_struct) (fun l => JArr (map json_of_status_struct l))).
  2:{ intros x Hx. rewrite Hx in *. split; [|discriminate].
      apply dec_list_roundtrip. apply (forallb_Forall wf_status); [apply status_struct_roundtrip|assumption]. }
  rewrite Hok. destruct a as [? ? [? ? ?] ? ? ? ?]; reflexivity.
Qed.

Lemma daystart_roundtrip d : wf_daystart d = true -> decode_daystart (json_of_daystart d) = Some d.
Proof.
  intro H. unfold wf_daystart in H. split_wf H.
  unfold decode_daystart, json_of_daystart. rewrite struct_fields_enc by reflexivity.
  unfold dec_u32. rewrite !opt_uint by assumption. destruct d; reflexivity.
Qed.

Lemma response_roundtrip r : wf_response r = true -> decode_response (json_of_response r) = Some r.
Proof.
  intro H. unfold wf_response in H. split_wf H.
  unfold decode_response, json_of_response. rewrite struct_fields_enc by reflexivity.
  cbn [req dec_string jstr]. rewrite opt_string by assumption.
  rewrite (opt_roundtrip decode_daystart json_of_daystart).
  2:{ intros x Hx. rewrite Hx in *. split; [apply daystart_roundtrip; assumption|discriminate]. }
  rewrite (dec_list_roundtrip decode_app json_of_app).
  2:{ apply (forallb_Forall wf_app); [apply app_roundtrip|assumption]. }
  destruct r; reflexivity.
Qed.

Lemma wrapper_roundtrip r : wf_response r = true -> decode_wrapper (json_of_wrapper r) = Some r.
Proof.
  intro H. unfold decode_wrapper, json_of_wrapper. rewrite struct_fields_enc by reflexivity.
  cbn [req]. apply response_roundtrip. assumption.
Qed.
