(* Proofs/C08Proof.v — every model trace is accepted by the bookkeeping monitor step8 *)
Require Import Verif.Model.Time Verif.Base.Bytes Verif.Proofs.BytesFacts Verif.Model.Version Verif.Model.Json Verif.Model.Proto
               Verif.Model.Request Verif.Proofs.RequestFacts Verif.Model.Env Verif.Model.SM Verif.Model.Monitors
               Verif.Proofs.Monitor Verif.Proofs.MonGeneric Verif.Proofs.SMPure.
Open Scope Z_scope.

Notation T := (triple step8).
Definition Inv8 (q : q8) : Prop := todo8 q = [].
Notation nM := (neutralM step8 Inv8).

Definition cupb (m : sm) : bool := match m_cup m with Some _ => true | None => false end.
(* what stays fixed in the state machine as far as this monitor is concerned *)
Definition skw (m m' : sm) : Prop :=
  m_cup m' = m_cup m /\ m_cfg m' = m_cfg m /\ m_url m' = m_url m /\ map a_id (m_apps m') = map a_id (m_apps m).
Lemma skw_refl m : skw m m. Proof. repeat split; reflexivity. Qed.
Lemma skw_trans a b c : skw a b -> skw b c -> skw a c.
Proof. intros (H1 & H2 & H3 & H4) (H5 & H6 & H7 & H8). repeat split; congruence. Qed.
(* what do_omaha_request, report_check_interval, ... may change: schedule times other than last-contact, poll interval *)
Definition same_book (m m' : sm) : Prop :=
  skw m m' /\ s_last_update (m_sched m') = s_last_update (m_sched m) /\ ps_fails (m_ps m') = ps_fails (m_ps m).
Lemma same_book_refl m : same_book m m. Proof. split; [apply skw_refl|split; reflexivity]. Qed.
Lemma same_book_trans a b c : same_book a b -> same_book b c -> same_book a c.
Proof. intros (H1 & H2 & H3) (H4 & H5 & H6). split; [eapply skw_trans; eassumption|split; congruence]. Qed.

Ltac fld := cbn [cup8 pw8 in8 fails8 lu8 clk8 tsched8 tps8 pfail8 await8 todo8 q8_todo].

Definition Base (C PW : bool) (q : q8) : Prop := cup8 q = C /\ pw8 q = PW.
(* outside a check, values exact *)
Definition Jx (C PW : bool) (m : sm) (q : q8) : Prop :=
  Base C PW q /\ in8 q = false /\ todo8 q = [] /\ await8 q = false /\ pfail8 q = None
  /\ lu8 q = s_last_update (m_sched m) /\ fails8 q = ps_fails (m_ps m).
(* outside a check, a ping's outcome possibly not yet shown to the policy *)
Definition J (C PW : bool) (m : sm) (q : q8) : Prop :=
  Base C PW q /\ in8 q = false /\ todo8 q = [] /\ await8 q = false
  /\ lu8 q = s_last_update (m_sched m) /\ (PW = true -> fails_after (pfail8 q) (fails8 q) = ps_fails (m_ps m)).
(* inside a check, before its tail *)
Definition Ck (C PW : bool) (m : sm) (q : q8) : Prop :=
  Base C PW q /\ in8 q = true /\ todo8 q = [] /\ tsched8 q = None
  /\ lu8 q = s_last_update (m_sched m) /\ fails8 q = ps_fails (m_ps m).

Lemma Jx_J C PW m q : Jx C PW m q -> J C PW m q.
Proof. intros (Hb & Hi & Ht & Ha & Hp & Hl & Hf). repeat split; try tauto; try apply Hb. intros _. rewrite Hp. exact Hf. Qed.
Lemma Ck_book C PW m m' q : same_book m m' -> Ck C PW m q -> Ck C PW m' q.
Proof. intros (_ & H1 & H2) (Hb & Hi & Ht & Hs & Hl & Hf). repeat split; try tauto; try apply Hb; congruence. Qed.
Lemma Jx_book C PW m m' q : same_book m m' -> Jx C PW m q -> Jx C PW m' q.
Proof. intros (_ & H1 & H2) (Hb & Hi & Ht & Ha & Hp & Hl & Hf). repeat split; try tauto; try apply Hb; congruence. Qed.
Lemma Ck_inv C PW m q : Ck C PW m q -> Inv8 q. Proof. intros (_ & _ & H & _). exact H. Qed.
Lemma Jx_inv C PW m q : Jx C PW m q -> Inv8 q. Proof. intros (_ & _ & H & _). exact H. Qed.
Lemma J_inv C PW m q : J C PW m q -> Inv8 q. Proof. intros (_ & _ & H & _). exact H. Qed.

(* ---------- actions the monitor ignores while nothing is owed ---------- *)
Definition idle8 (a : action) : Prop :=
  match a with
  | AClock _ | AHttp _ _ | AEvent (EvState (CheckingForUpdates _)) | AEvent (EvSchedule _) | AEvent (EvProtocol _) | AEvent (EvResult _)
  | APolicy (QNextTime _ _ _) _ | APolicy (QCheckAllowed _ _ _ _) _ => False
  | _ => True
  end.
Lemma step8_idle q a : todo8 q = [] -> idle8 a -> step8 q a = Some q.
Proof.
  intros H Ha.
  destruct a as [ev|pq ans|w o|c ans|c|w|op ok|mt|id src|id r]; try contradiction; unfold step8; try rewrite H; try reflexivity.
  - destruct ev as [s| | | | | |]; try contradiction; try rewrite H; try reflexivity. destruct s; try contradiction; reflexivity.
  - destruct pq; try contradiction; reflexivity.
Qed.
Lemma ign_store8 : ign_store step8 Inv8. Proof. intros op ok q H. apply step8_idle; [exact H|exact I]. Qed.
Lemma ign_metric8 : ign_metric step8 Inv8. Proof. intros c q H. reflexivity. Qed.
Lemma ign_timer8 w : neutral step8 Inv8 (ATimer w). Proof. intros q H. reflexivity. Qed.
Lemma ign_ctl8 : ign_ctl step8. Proof. split; intros; reflexivity. Qed.

Lemma nM_emit_idle a : idle8 a -> nM (emit a).
Proof. intro Ha. apply neutralM_emit. intros q H. apply step8_idle; assumption. Qed.
Lemma nM_yield_idle ev : idle8 (AEvent ev) -> nM (yield_ ev).
Proof. intro H. apply neutralM_yield; [apply ign_ctl8|]. intros q Hq. apply step8_idle; assumption. Qed.
Lemma nM_silent {A} (m : M A) : silent m -> nM m.
Proof. apply neutralM_silent. Qed.
Lemma T_pre_l {A} (P : q8 -> Prop) (phi : Prop) (m : M A) Q : (phi -> T P m Q) -> T (fun q => phi /\ P q) m Q.
Proof. intros H q0 e q Hq [Hphi Hp]. exact (H Hphi q0 e q Hq Hp). Qed.
Ltac temit := first [apply triple_emit | apply (T_yield step8 _ _ _ ign_ctl8) | (unfold yield_state; apply (T_yield step8 _ _ _ ign_ctl8))].

(* predicates that do not look at the latest clock reading survive a clock reading, which they then know *)
Definition with_clk (q : q8) (c : ctime) : q8 :=
  {| cup8 := cup8 q; pw8 := pw8 q; in8 := in8 q; fails8 := fails8 q; lu8 := lu8 q; clk8 := Some c; tsched8 := tsched8 q;
     tps8 := tps8 q; pfail8 := pfail8 q; await8 := await8 q; todo8 := todo8 q |}.
Definition clkfree (P : q8 -> Prop) : Prop := forall q c, P q -> P (with_clk q c).
Lemma T_now (P : q8 -> Prop) : clkfree P -> T P now (fun n q => P q /\ clk8 q = Some n).
Proof.
  intro HP. unfold now. eapply triple_bind; [apply (triple_silent step8 _ P silent_read_clock)|]. intro c.
  eapply triple_bind with (R := fun _ q => P q /\ clk8 q = Some c); [|intro; apply triple_ret; auto].
  apply triple_emit. intros q Hq. exists (with_clk q c). split; [reflexivity|]. split; [apply HP; exact Hq|reflexivity].
Qed.
Lemma T_now' (P : q8 -> Prop) : clkfree P -> T P now (fun _ => P).
Proof. intro H. eapply triple_conseq; [apply (T_now P H)|auto|]. intros n q [Hq _]. exact Hq. Qed.
Lemma clkfree_Ck C PW m : clkfree (Ck C PW m). Proof. intros q c H. exact H. Qed.
Lemma clkfree_Jx C PW m : clkfree (Jx C PW m). Proof. intros q c H. exact H. Qed.
Lemma clkfree_J C PW m : clkfree (J C PW m). Proof. intros q c H. exact H. Qed.

(* programs neutral under a predicate that implies "nothing owed" *)
Lemma Pn {A} (P : q8 -> Prop) (m : M A) : (forall q, P q -> Inv8 q) -> nM m -> T P m (fun _ => P).
Proof. intros HP H. apply (H P HP). Qed.

(* the poll-interval update inside do_omaha_request: announced and stored, bookkeeping values untouched *)
Lemma T_poll_update (P : q8 -> Prop) m poll :
  (forall q, P q -> Inv8 q) ->
  (forall q, P q -> step8 q (AEvent (EvProtocol (m_ps (with_ps m (set_poll (m_ps m) poll))))) = Some q) ->
  T P (if oZ_eqb (ps_poll (m_ps m)) poll then ret m
       else let m1 := with_ps m (set_poll (m_ps m) poll) in
            yield_ (EvProtocol (m_ps m1));;; ctx_persist (m_sched m1) (m_ps m1);;; st_write SCommit;;; ret m1)
    (fun m' q => P q /\ same_book m m').
Proof.
  intros HP Hq. destruct (oZ_eqb (ps_poll (m_ps m)) poll).
  - apply triple_ret. intros q H. split; [exact H|apply same_book_refl].
  - cbv zeta. eapply triple_bind with (R := fun _ => P).
    { temit. intros q H. exists q. split; [apply Hq; exact H|exact H]. }
    intro. eapply triple_bind; [apply (Pn P _ HP (neutralM_ctx_persist step8 Inv8 _ _ ign_store8))|]. intro.
    eapply triple_bind; [apply (Pn P _ HP (neutralM_st_write step8 Inv8 SCommit ign_store8))|]. intro.
    apply triple_ret. intros q H. split; [exact H|]. split; [repeat split; reflexivity|split; reflexivity].
Qed.

(* ---------- requests inside a check ---------- *)
Lemma T_do_req_ck b m C PW : T (Ck C PW m) (do_omaha_request b m) (fun r q => Ck C PW (fst r) q /\ same_book m (fst r)).
Proof.
  unfold do_omaha_request.
  assert (Hret : forall e, T (Ck C PW m) (ret (m, e : req_err + body)) (fun r q => Ck C PW (fst r) q /\ same_book m (fst r))).
  { intro e. apply triple_ret. intros q Hq. split; [exact Hq|apply same_book_refl]. }
  destruct (negb (u_valid (m_url m))); [apply Hret|].
  destruct (negb (headers_ok (m_cfg m) b)).
  { eapply triple_bind with (R := fun _ => Ck C PW m); [|intro; apply Hret].
    destruct (m_cup m); [|apply triple_ret; auto].
    eapply triple_bind; [apply (Pn _ _ (Ck_inv C PW m) (nM_silent _ silent_fresh_nonce))|]. intro. apply triple_ret; auto. }
  eapply triple_bind with (R := fun _ => Ck C PW m).
  { destruct (m_cup m); [|apply triple_ret; auto].
    eapply triple_bind; [apply (Pn _ _ (Ck_inv C PW m) (nM_silent _ silent_fresh_nonce))|]. intro. apply triple_ret; auto. }
  intro uri. eapply triple_bind; [apply (Pn _ _ (Ck_inv C PW m) (nM_silent _ silent_pop_http))|]. intro o.
  eapply triple_bind with (R := fun _ => Ck C PW m).
  { apply triple_emit. intros q Hq. exists q. split; [|exact Hq]. destruct Hq as (_ & Hi & Ht & _).
    unfold step8. rewrite Ht, Hi. reflexivity. }
  intros _. destruct o as [k|status ra au bd]; [apply Hret|].
  destruct (match m_cup m with Some _ => negb au | None => false end); [apply Hret|].
  eapply triple_bind; [apply (T_poll_update (Ck C PW m) m (parse_retry_after ra) (Ck_inv C PW m))|].
  { intros q (_ & Hi & Ht & Hs & _ & Hf). unfold step8. rewrite Ht, Hi, Hs. cbn [with_ps m_ps set_poll ps_fails]. rewrite Hf, Z.eqb_refl. reflexivity. }
  intro m'. destruct ((200 <=? status) && (status <? 300))%N; apply triple_ret; intros q [Hq Hk]; cbn [fst];
    (split; [eapply Ck_book; eassumption|exact Hk]).
Qed.

Lemma T_maybe_ids8 (c : bool) b s r P : T P (if c then with_ids b s r else ret b) (fun b' q => P q).
Proof. eapply triple_conseq; [apply (T_maybe_ids step8 c b s r P)|auto|]. intros b' q [H _]. exact H. Qed.

Lemma T_report_event p ev apps sess nv dur m C PW :
  T (Ck C PW m) (report_event p ev apps sess nv dur m) (fun m' q => Ck C PW m' q /\ same_book m m').
Proof.
  unfold report_event.
  eapply triple_bind; [apply (Pn _ _ (Ck_inv C PW m) (nM_silent _ silent_fresh_guid))|]. intro.
  eapply triple_bind; [apply T_maybe_ids8|]. intro b.
  eapply triple_bind; [apply T_do_req_ck|]. intros [m' [e|bd]]; cbn [fst snd].
  - apply T_pre_pure. intro Hk.
    eapply triple_bind; [apply (Pn _ _ (Ck_inv C PW m') (neutralM_report step8 Inv8 (MOmahaEventLost ev) ign_metric8))|].
    intro. apply triple_ret. auto.
  - apply triple_ret. auto.
Qed.

Lemma T_attempt_loop b0 sess C PW fuel : forall attempt m,
  T (Ck C PW m) (attempt_loop fuel attempt b0 sess m) (fun r q => Ck C PW (fst (fst r)) q /\ same_book m (fst (fst r))).
Proof.
  induction fuel as [|f IH]; intros attempt m; cbn [attempt_loop]; [apply triple_halt|].
  eapply triple_bind; [apply (T_now' _ (clkfree_Ck C PW m))|]. intro.
  eapply triple_bind; [apply (Pn _ _ (Ck_inv C PW m) (nM_silent _ silent_fresh_guid))|]. intro.
  eapply triple_bind; [apply T_maybe_ids8|]. intro b.
  eapply triple_bind; [apply T_do_req_ck|]. intros [m1 res]; cbn [fst snd]. apply T_pre_pure. intro Hk.
  eapply triple_bind; [apply (T_now' _ (clkfree_Ck C PW m1))|]. intro fin.
  eapply triple_bind with (R := fun _ => Ck C PW m1).
  { match goal with |- T _ (if ?c then _ else _) _ => destruct c end;
      [apply (Pn _ _ (Ck_inv C PW m1) (neutralM_report step8 Inv8 _ ign_metric8))|apply triple_ret; auto]. }
  intros _. destruct res as [e|bd]; [|apply triple_ret; intros q Hq; split; [exact Hq|exact Hk]].
  match goal with |- T _ (if ?c then _ else _) _ => destruct c end.
  - eapply triple_bind; [apply (Pn _ _ (Ck_inv C PW m1) (nM_yield_idle (EvState ErrorCheckingForUpdate) I))|]. intro.
    apply triple_ret. intros q Hq. split; [exact Hq|exact Hk].
  - eapply triple_bind; [apply (Pn _ _ (Ck_inv C PW m1) (nM_silent _ silent_pop_backoff))|]. intro r.
    eapply triple_bind; [apply (Pn _ _ (Ck_inv C PW m1) (neutralM_emit step8 Inv8 _ (ign_timer8 (WFor (randomize (Z.shiftl 1 (attempt - 1) * 1000) 1000 r * 1000000)))))|]. intro.
    eapply triple_conseq; [apply IH|auto|]. intros r0 q [Hq Hk1]. split; [exact Hq|eapply same_book_trans; eassumption].
Qed.

Lemma T_report_check_interval src m C PW :
  T (Ck C PW m) (report_check_interval src m) (fun m' q => Ck C PW m' q /\ same_book m m').
Proof.
  unfold report_check_interval.
  eapply triple_bind; [apply (T_now' _ (clkfree_Ck C PW m))|]. intro n.
  eapply triple_bind with (R := fun _ => Ck C PW m).
  { destruct (s_last_check (m_sched m)) as [[w|mm|c]|]; try (apply triple_ret; auto).
    - destruct (w <=? wall n); [apply (Pn _ _ (Ck_inv C PW m) (neutralM_report step8 Inv8 _ ign_metric8))|apply triple_ret; auto].
    - destruct (mono c <=? mono n); [apply (Pn _ _ (Ck_inv C PW m) (neutralM_report step8 Inv8 _ ign_metric8))|apply triple_ret; auto]. }
  intro. apply triple_ret. intros q Hq.
  assert (Hb : same_book m (with_sched m (set_last_check (m_sched m) (Some (PComplex n))))).
  { split; [repeat split; reflexivity|split; reflexivity]. }
  split; [eapply Ck_book; eassumption|exact Hb].
Qed.

(* ---------- perform_update_check keeps the bookkeeping values ---------- *)
Ltac ckn H := cbv beta; match goal with |- T (Ck ?C ?PW ?m) _ _ => eapply triple_bind; [apply (Pn _ _ (Ck_inv C PW m) H)|intro; cbv beta] end.
Tactic Notation "ckna" constr(H) "as" ident(x) :=
  cbv beta; match goal with |- T (Ck ?C ?PW ?m) _ _ => eapply triple_bind; [apply (Pn _ _ (Ck_inv C PW m) H)|intro x; cbv beta] end.
Ltac cknow x := cbv beta; match goal with |- T (Ck ?C ?PW ?m) _ _ => eapply triple_bind; [apply (T_now' _ (clkfree_Ck C PW m))|intro x; cbv beta] end.

Lemma T_perform fuel p apps m C PW :
  T (fun q => Jx C PW m q)
    (perform_update_check fuel p apps m)
    (fun r q => Ck C PW (fst r) q /\ same_book m (fst r)).
Proof.
  unfold perform_update_check.
  eapply triple_bind with (R := fun _ => Ck C PW m).
  { temit. intros q (Hb & Hi & Ht & Ha & Hp & Hl & Hf). eexists. split.
    - unfold step8. rewrite Ht, Hi. reflexivity.
    - unfold Ck, Base. fld. rewrite Hp. cbn [fails_after]. destruct Hb as [Hb1 Hb2]. repeat split; assumption. }
  intros _. eapply triple_bind; [apply T_report_check_interval|]. intro m0. apply T_pre_pure. intro Hk0.
  ckna (nM_silent _ silent_fresh_guid) as sess.
  eapply triple_bind; [apply T_attempt_loop|]. intros [[m1 attempts] res]; cbn [fst]. apply T_pre_pure. intro Hk1.
  assert (Hk : same_book m m1) by (eapply same_book_trans; eassumption).
  ckn (neutralM_report step8 Inv8 (MRequestsPerCheck attempts (match res with inr _ => true | inl _ => false end)) ign_metric8).
  assert (Hdone : forall (mm : sm) (x : check_err + (list app_response * reboot)), same_book m mm ->
            T (Ck C PW mm) (ret (mm, x)) (fun r q => Ck C PW (fst r) q /\ same_book m (fst r))).
  { intros mm x Hmm. apply triple_ret. intros q Hq. split; [exact Hq|exact Hmm]. }
  destruct res as [e|[d|]].
  - apply Hdone. exact Hk.
  - ckn (nM_yield_idle (EvServerResponse d) I).
    destruct (filter uc_ok (d_apps d)) as [|wu0 wur] eqn:Hwu.
    + ckn (nM_yield_idle (EvState NoUpdateAvailable) I). apply Hdone. exact Hk.
    + rewrite <- Hwu.
      ckna (nM_silent _ silent_pop_plan) as pl.
      match goal with |- T _ (bind (emit ?a) _) _ => ckn (nM_emit_idle a I) end.
      destruct pl as [plan|].
      2:{ ckn (nM_yield_idle (EvState InstallingUpdate) I). ckn (nM_yield_idle (EvState InstallationError) I).
          eapply triple_bind; [apply T_report_event|]. intro m2. apply T_pre_pure. intro Hk2.
          apply Hdone. eapply same_book_trans; eassumption. }
      ckna (nM_silent _ silent_pop_can_start) as dec.
      match goal with |- T _ (bind (emit ?a) _) _ => ckn (nM_emit_idle a I) end.
      destruct dec.
      * ckn (nM_yield_idle (EvState InstallingUpdate) I).
        eapply triple_bind; [apply T_report_event|]. intro m2. apply T_pre_pure. intro Hk2.
        cknow t0.
        ckn (neutralM_record_first_seen step8 Inv8 plan (wall t0) ign_store8).
        ckna (nM_silent _ silent_pop_perform) as pa.
        match goal with |- T _ (bind (emit ?a) _) _ => ckn (nM_emit_idle a I) end.
        ckn (neutralM_iterM step8 Inv8 (fun bits => yield_ (EvProgress bits)) (pa_progress pa)
              (fun bits => nM_yield_idle (EvProgress bits) I)).
        cknow t1.
        eapply triple_bind with (R := fun _ => Ck C PW m2).
        { match goal with |- T _ (if ?c then _ else _) _ => destruct c end; [|apply triple_ret; auto].
          match goal with |- T _ (bind (report ?x) _) _ => ckn (neutralM_report step8 Inv8 x ign_metric8) end. apply triple_ret; auto. }
        intro dur. ckn (nM_silent _ silent_fresh_guid).
        eapply triple_bind; [apply T_maybe_ids8|]. intro b.
        eapply triple_bind; [apply T_do_req_ck|]. intros [m3 rr]; cbn [fst snd]. apply T_pre_pure. intro Hk3.
        eapply triple_bind with (R := fun _ => Ck C PW m3).
        { destruct rr; [|apply triple_ret; auto].
          apply (Pn _ _ (Ck_inv C PW m3) (neutralM_iterM step8 Inv8 _ _ (fun x => neutralM_report step8 Inv8 _ ign_metric8))). }
        intros _.
        eapply triple_bind with (R := fun m4 q => Ck C PW m4 q /\ same_book m3 m4).
        { match goal with |- T _ (match ?l with [] => _ | _ => _ end) _ => destruct l end;
            [apply triple_ret; intros q Hq; split; [exact Hq|apply same_book_refl]|apply T_report_event]. }
        intro m4. apply T_pre_pure. intro Hk4.
        assert (Hkm4 : same_book m m4) by (repeat (eapply same_book_trans; [eassumption|]); apply same_book_refl).
        match goal with |- T _ (match ?n with O => _ | S _ => _ end) _ => destruct n as [|nerr] end.
        -- eapply triple_bind with (R := fun _ => Ck C PW m4).
           { match goal with |- T _ (if ?c then _ else _) _ => destruct c end;
               [apply (Pn _ _ (Ck_inv C PW m4) (neutralM_report step8 Inv8 _ ign_metric8))|apply triple_ret; auto]. }
           intros _. ckn (neutralM_st_set_time step8 Inv8 K_FINISH_TIME (wall t1) ign_store8).
           eapply triple_bind with (R := fun _ => Ck C PW m4).
           { match goal with |- T _ (match ?x with Some _ => _ | None => _ end) _ => destruct x as [o|] end; [|apply triple_ret; auto].
             ckn (neutralM_st_write step8 Inv8 (SSetStr K_TARGET_VERSION (match o with Some v => v | None => s2b "UNKNOWN" end)) ign_store8).
             apply triple_ret; auto. }
           intros _. ckn (neutralM_st_write step8 Inv8 SCommit ign_store8).
           ckna (nM_silent _ silent_pop_reboot_needed) as rn.
           match goal with |- T _ (bind (emit ?a) _) _ => ckn (nM_emit_idle a I) end.
           apply Hdone. exact Hkm4.
        -- ckn (neutralM_iterM step8 Inv8 (fun _ : unit => yield_ EvInstallerError) (repeat tt (Datatypes.S nerr))
                 (fun _ => nM_yield_idle EvInstallerError I)).
           ckn (nM_yield_idle (EvState InstallationError) I).
           apply Hdone. exact Hkm4.
      * eapply triple_bind; [apply T_report_event|]. intro m2. apply T_pre_pure. intro Hk2.
        ckn (nM_yield_idle (EvState InstallationDeferredByPolicy) I).
        apply Hdone. eapply same_book_trans; eassumption.
      * eapply triple_bind; [apply T_report_event|]. intro m2. apply T_pre_pure. intro Hk2.
        apply Hdone. eapply same_book_trans; eassumption.
  - ckn (nM_yield_idle (EvState ErrorCheckingForUpdate) I).
    eapply triple_bind; [apply T_report_event|]. intro m2. apply T_pre_pure. intro Hk2.
    apply Hdone. eapply same_book_trans; eassumption.
Qed.

(* ---------- the tail of a check: announce, result, write, commit ---------- *)
Lemma store_op_eqb_refl op : store_op_eqb op op = true.
Proof. destruct op; cbn; rewrite ?bytes_eqb_refl, ?Z.eqb_refl; reflexivity. Qed.
Lemma opct_eqb_refl x : opct_eqb x x = true.
Proof. unfold opct_eqb. destruct (opct_eq_dec x x); [reflexivity|contradiction]. Qed.

(* after the result: everything settled except the writes owed *)
Definition Wr (C PW : bool) (m : sm) (td : list ob8) (q : q8) : Prop :=
  Base C PW q /\ in8 q = false /\ await8 q = false /\ pfail8 q = None
  /\ lu8 q = s_last_update (m_sched m) /\ fails8 q = ps_fails (m_ps m) /\ todo8 q = td.

Lemma Wr_step C PW m td td' q : Wr C PW m td q -> Wr C PW m td' (q8_todo q td').
Proof. intros (Hb & Hi & Ha & Hp & Hl & Hf & Ht). unfold Wr, Base. fld. destruct Hb. repeat split; assumption. Qed.

Lemma T_persist_block C PW m :
  T (Wr C PW m [ObLU (lu_store_op (s_last_update (m_sched m))); ObAnyCtx; ObFails (fails_store_op (ps_fails (m_ps m))); ObApps])
    (persist_data m) (fun _ => Jx C PW m).
Proof.
  unfold persist_data, ctx_persist.
  eapply triple_bind with (R := fun _ => Wr C PW m [ObApps]).
  { eapply triple_bind with (R := fun _ => Wr C PW m [ObAnyCtx; ObFails (fails_store_op (ps_fails (m_ps m))); ObApps]).
    { unfold st_set_option_int, lu_store_op.
      destruct (match s_last_update (m_sched m) with Some p => pct_to_micros p | None => None end);
        apply triple_st_write; intros q ok Hq; eexists; (split; [|eapply Wr_step; exact Hq]);
        unfold step8; rewrite (proj2 (proj2 (proj2 (proj2 (proj2 (proj2 Hq)))))); rewrite store_op_eqb_refl; reflexivity. }
    intro. eapply triple_bind with (R := fun _ => Wr C PW m [ObFails (fails_store_op (ps_fails (m_ps m))); ObApps]).
    { unfold st_set_option_int.
      match goal with |- T _ (match ?x with Some _ => _ | None => _ end) _ => destruct x end;
        apply triple_st_write; intros q ok Hq; eexists; (split; [|eapply Wr_step; exact Hq]);
        unfold step8; rewrite (proj2 (proj2 (proj2 (proj2 (proj2 (proj2 Hq)))))); reflexivity. }
    intro. eapply triple_bind with (R := fun _ => Wr C PW m [ObApps]); [|intro; apply triple_ret; auto].
    unfold st_set_option_int, fails_store_op. destruct (ps_fails (m_ps m) =? 0);
      apply triple_st_write; intros q ok Hq; eexists; (split; [|eapply Wr_step; exact Hq]);
      unfold step8; rewrite (proj2 (proj2 (proj2 (proj2 (proj2 (proj2 Hq)))))); rewrite store_op_eqb_refl; reflexivity. }
  intro. eapply triple_bind with (R := fun _ => Wr C PW m [ObApps]).
  { apply (triple_iterM step8). intros ap _.
    eapply triple_bind with (R := fun _ => Wr C PW m [ObApps]); [|intro; apply triple_ret; auto].
    apply triple_st_write. intros q ok Hq. exists q. split; [|exact Hq].
    unfold step8. rewrite (proj2 (proj2 (proj2 (proj2 (proj2 (proj2 Hq)))))). reflexivity. }
  intro. eapply triple_bind with (R := fun _ => Jx C PW m); [|intro; apply triple_ret; auto].
  apply triple_st_write. intros q ok Hq. eexists. split.
  - unfold step8. rewrite (proj2 (proj2 (proj2 (proj2 (proj2 (proj2 Hq)))))). reflexivity.
  - destruct Hq as (Hb & Hi & Ha & Hp & Hl & Hf & Ht). unfold Jx, Base. fld. destruct Hb. repeat split; assumption.
Qed.

Lemma opct_eqb_refl' x y : x = y -> opct_eqb x y = true.
Proof. intros ->. apply opct_eqb_refl. Qed.
Lemma skw_of_book m m' : same_book m m' -> skw m m'. Proof. intros [H _]. exact H. Qed.

Lemma T_start fuel p m C PW :
  T (Jx C PW m) (start_update_check fuel p m) (fun r q => Jx C PW (fst r) q /\ skw m (fst r)).
Proof.
  unfold start_update_check.
  eapply triple_bind; [apply T_perform|]. intros [m1 res]; cbn [fst]. apply T_pre_pure. intro Hk1.
  (* the branch computes the final state m2 and the result; the monitor will compare the announcements with what it
     expects from the result and its own values, which are those of m1 *)
  set (expect_lu := fun (result : check_err + list app_response) (c : option ctime) =>
         if answered result then match c with Some c => Some (PComplex c) | None => None end else s_last_update (m_sched m1)).
  set (expect_f := fun (result : check_err + list app_response) =>
         match result with inr _ => 0 | inl _ => sat_inc_u32 (ps_fails (m_ps m1)) end).
  eapply triple_bind with
    (R := fun fin q => Ck C PW m1 q /\ skw m (fst (fst fin))
                       /\ s_last_update (m_sched (fst (fst fin))) = expect_lu (snd (fst fin)) (clk8 q)
                       /\ ps_fails (m_ps (fst (fst fin))) = expect_f (snd (fst fin))).
  { destruct res as [e|[rs rb]].
    - eapply triple_bind with
        (R := fun mr q => Ck C PW m1 q /\ skw m (fst mr) /\ ps_fails (m_ps (fst mr)) = ps_fails (m_ps m1)
                          /\ s_last_update (m_sched (fst mr)) = expect_lu (inl e) (clk8 q)).
      { destruct e as [re| |].
        + assert (Hre : forall rn, T (Ck C PW m1) (ret (m1, rn : N))
                    (fun mr q => Ck C PW m1 q /\ skw m (fst mr) /\ ps_fails (m_ps (fst mr)) = ps_fails (m_ps m1)
                                 /\ s_last_update (m_sched (fst mr)) = expect_lu (inl (CEOmahaRequest re)) (clk8 q))).
          { intro rn. apply triple_ret. intros q Hq. split; [exact Hq|]. split; [apply skw_of_book; exact Hk1|]. split; reflexivity. }
          destruct re; apply Hre.
        + eapply triple_bind; [apply (T_now _ (clkfree_Ck C PW m1))|]. intro n.
          apply triple_ret. intros q [Hq Hc]. split; [exact Hq|]. cbn [fst].
          split; [destruct (skw_of_book _ _ Hk1) as (H1 & H2 & H3 & H4); repeat split; assumption|]. split; [reflexivity|].
          cbn [with_sched m_sched set_last_update s_last_update]. unfold expect_lu. cbn [answered]. rewrite Hc. reflexivity.
        + eapply triple_bind; [apply (T_now _ (clkfree_Ck C PW m1))|]. intro n.
          apply triple_ret. intros q [Hq Hc]. split; [exact Hq|]. cbn [fst].
          split; [destruct (skw_of_book _ _ Hk1) as (H1 & H2 & H3 & H4); repeat split; assumption|]. split; [reflexivity|].
          cbn [with_sched m_sched set_last_update s_last_update]. unfold expect_lu. cbn [answered]. rewrite Hc. reflexivity. }
      intros [m2 reason]; cbn [fst].
      eapply triple_bind with
        (R := fun _ q => Ck C PW m1 q /\ skw m m2 /\ ps_fails (m_ps m2) = ps_fails (m_ps m1)
                         /\ s_last_update (m_sched m2) = expect_lu (inl e) (clk8 q)).
      { apply triple_emit. intros q Hq. exists q. split; [reflexivity|exact Hq]. }
      intro. apply triple_ret. intros q (Hq & Hk2 & Hf & Hl). split; [exact Hq|]. cbn [fst snd with_ps m_sched m_ps set_fails ps_fails].
      split; [exact Hk2|]. split; [exact Hl|]. unfold expect_f. rewrite Hf. reflexivity.
    - eapply triple_bind; [apply (T_now _ (clkfree_Ck C PW m1))|]. intro n.
      set (m2 := with_apps (with_ps (with_sched m1 (set_last_update (m_sched m1) (Some (PComplex n))))
                                     (set_fails (m_ps (with_sched m1 (set_last_update (m_sched m1) (Some (PComplex n))))) 0))
                           (update_from_omaha (m_apps m1) rs)).
      assert (Hfix : forall P : q8 -> Prop, (forall q, P q -> Inv8 q) ->
                T P (report (MAttemptsToSuccessfulCheck (as_u64 (sat_inc_u32 (ps_fails (m_ps (with_sched m1 (set_last_update (m_sched m1) (Some (PComplex n)))))))));;;
                     match install_success rs with Some s => report_attempts_to_successful_install s | None => ret tt end;;;
                     ret (m2, (inr rs : check_err + list app_response), rb)) (fun r q => P q /\ r = (m2, inr rs, rb))).
      { intros P HP. eapply triple_bind; [apply (Pn P _ HP (neutralM_report step8 Inv8 _ ign_metric8))|]. intro.
        eapply triple_bind with (R := fun _ => P).
        { destruct (install_success rs); [apply (Pn P _ HP (neutralM_report_attempts_install step8 Inv8 _ ign_store8 ign_metric8))|apply triple_ret; auto]. }
        intro. apply triple_ret. auto. }
      eapply triple_conseq; [apply (Hfix (fun q => Ck C PW m1 q /\ clk8 q = Some n))| |].
      + intros q [Hq _]. eapply Ck_inv. exact Hq.
      + auto.
      + intros r q [[Hq Hc] ->]. cbn [fst snd]. split; [exact Hq|]. split.
        * destruct (skw_of_book _ _ Hk1) as (H1 & H2 & H3 & H4). unfold m2. repeat split; cbn [with_apps with_ps with_sched m_cup m_cfg m_url m_apps]; try assumption.
          rewrite update_from_omaha_ids. exact H4.
        * split; [unfold m2, expect_lu; cbn [answered with_apps with_ps with_sched m_sched set_last_update s_last_update]; rewrite Hc; reflexivity|reflexivity]. }
  intros [[m2 result] rb]; cbn [fst snd].
  (* schedule, protocol state, result *)
  eapply triple_bind with
    (R := fun _ q => Base C PW q /\ in8 q = true /\ todo8 q = [] /\ lu8 q = s_last_update (m_sched m1) /\ fails8 q = ps_fails (m_ps m1)
                     /\ skw m m2 /\ ps_fails (m_ps m2) = expect_f result
                     /\ exists c, tsched8 q = Some (m_sched m2, c) /\ s_last_update (m_sched m2) = expect_lu result c).
  { temit. intros q ((Hb & Hi & Ht & Hs & Hl & Hf) & Hk & Hlu & Hfs). eexists. split.
    - unfold step8. rewrite Ht, Hi. reflexivity.
    - fld. exact (conj Hb (conj eq_refl (conj eq_refl (conj Hl (conj Hf (conj Hk (conj Hfs (ex_intro _ (clk8 q) (conj eq_refl Hlu))))))))). }
  intros _.
  eapply triple_bind with
    (R := fun _ q => Base C PW q /\ in8 q = true /\ todo8 q = [] /\ lu8 q = s_last_update (m_sched m1) /\ fails8 q = ps_fails (m_ps m1)
                     /\ skw m m2 /\ ps_fails (m_ps m2) = expect_f result /\ tps8 q = Some (m_ps m2)
                     /\ exists c, tsched8 q = Some (m_sched m2, c) /\ s_last_update (m_sched m2) = expect_lu result c).
  { temit. intros q (Hb & Hi & Ht & Hl & Hf & Hk & Hfs & c & Hts & Hlu). eexists. split.
    - unfold step8. rewrite Ht, Hi, Hts. reflexivity.
    - fld. exact (conj Hb (conj eq_refl (conj eq_refl (conj Hl (conj Hf (conj Hk (conj Hfs (conj eq_refl (ex_intro _ c (conj eq_refl Hlu)))))))))). }
  intros _.
  eapply triple_bind with
    (R := fun _ q => Wr C PW m2 [ObLU (lu_store_op (s_last_update (m_sched m2))); ObAnyCtx; ObFails (fails_store_op (ps_fails (m_ps m2))); ObApps] q /\ skw m m2).
  { temit. intros q (Hb & Hi & Ht & Hl & Hf & Hk & Hfs & Htp & c & Hts & Hlu). eexists. split.
    - unfold step8. rewrite Ht, Hi, Hts, Htp. cbv zeta. rewrite Hl, Hf. fold (expect_lu result c). fold (expect_f result).
      rewrite <- Hlu, <- Hfs, opct_eqb_refl, Z.eqb_refl. cbn [andb]. reflexivity.
    - split; [|exact Hk]. unfold Wr, Base. fld. destruct Hb. repeat split; auto. }
  intros _. apply T_pre_pure. intro Hk2. eapply triple_bind; [apply T_persist_block|]. intro.
  apply triple_ret. intros q Hq. cbn [fst]. split; [exact Hq|exact Hk2].
Qed.

(* ---------- what the policy is shown ---------- *)
Lemma T_update_next m C PW :
  T (J C PW m) (update_next_update_time m) (fun r q => Jx C PW (fst r) q /\ same_book m (fst r)).
Proof.
  unfold update_next_update_time.
  eapply triple_bind; [apply (Pn _ _ (J_inv C PW m) (nM_silent _ silent_pop_next_time))|]. intro t.
  eapply triple_bind with (R := fun _ => Jx C PW m).
  { apply triple_emit. intros q (Hb & Hi & Ht & Ha & Hl & Hf). destruct Hb as [Hb1 Hb2].
    assert (Hff : fails_after (pfail8 q) (fails8 q) = ps_fails (m_ps m) \/ pw8 q = false).
    { destruct PW; [left; apply Hf; reflexivity|right; exact Hb2]. }
    assert (Hc : negb (pw8 q) || (ps_fails (m_ps m) =? fails_after (pfail8 q) (fails8 q)) = true).
    { destruct Hff as [Hx|Hx]; rewrite Hx; [rewrite Z.eqb_refl; apply orb_true_r|reflexivity]. }
    eexists. split.
    - unfold step8. rewrite Ht, Hi. cbv zeta. rewrite opct_eqb_refl', Hc by (symmetry; exact Hl). reflexivity.
    - unfold Jx, Base. fld. repeat split; try assumption.
      destruct Hff as [Hx|Hx]; [destruct (pw8 q); [exact Hx|reflexivity]|rewrite Hx; reflexivity]. }
  intros _.
  eapply triple_bind with (R := fun _ => Jx C PW m).
  { temit. intros q Hq. exists q. split; [|exact Hq]. destruct Hq as (Hb & Hi & Ht & Ha & Hp & Hl & Hf).
    unfold step8. rewrite Ht, Hi, Ha. cbn [with_sched m_sched set_next s_last_update]. rewrite Hl, opct_eqb_refl. reflexivity. }
  intros _. apply triple_ret. intros q Hq.
  assert (Hb : same_book m (with_sched m (set_next (m_sched m) (Some t)))) by (split; [repeat split; reflexivity|split; reflexivity]).
  cbn [fst]. split; [eapply Jx_book; eassumption|exact Hb].
Qed.

(* ---------- pings ---------- *)
Definition isdoc (res : req_err + body) : bool := match res with inr (BDoc _) => true | _ => false end.
(* a ping's exchange has been seen; its outcome is not yet reflected in the count *)
Definition Pg (C PW : bool) (m : sm) (ok : bool) (q : q8) : Prop :=
  Base C PW q /\ in8 q = false /\ todo8 q = [] /\ lu8 q = s_last_update (m_sched m) /\ fails8 q = ps_fails (m_ps m)
  /\ pfail8 q = Some ok /\ await8 q = ok.
Lemma Pg_inv C PW m ok q : Pg C PW m ok q -> Inv8 q. Proof. intros (_ & _ & H & _). exact H. Qed.
Lemma clkfree_Pg C PW m ok : clkfree (Pg C PW m ok). Proof. intros q c H. exact H. Qed.
Lemma Pg_book C PW m m' ok q : same_book m m' -> Pg C PW m ok q -> Pg C PW m' ok q.
Proof. intros (_ & H1 & H2) (Hb & Hi & Ht & Hl & Hf & Hp & Ha). repeat split; try tauto; try apply Hb; congruence. Qed.

Lemma headers_ok_core cfg b b' : same_core b b' -> headers_ok cfg b' = headers_ok cfg b.
Proof. intros (Hp & He & _). unfold headers_ok, headers_of. rewrite Hp, He. reflexivity. Qed.

Lemma T_do_req_ping b0 b m C PW :
  cupb m = C -> same_core b0 b -> PW = (u_valid (m_url m) && headers_ok (m_cfg m) b0) ->
  T (Jx C PW m) (do_omaha_request b m)
    (fun r q => same_book m (fst r) /\
                ((PW = false /\ Jx C PW m q /\ isdoc (snd r) = false) \/ Pg C PW (fst r) (isdoc (snd r)) q)).
Proof.
  intros HC Hcore HPW. unfold do_omaha_request. rewrite <- (headers_ok_core _ _ _ Hcore) in HPW.
  destruct (negb (u_valid (m_url m))) eqn:Eu.
  { apply triple_ret. intros q Hq. split; [apply same_book_refl|]. left. split; [|split; [exact Hq|reflexivity]].
    rewrite HPW. apply negb_true_iff in Eu. rewrite Eu. reflexivity. }
  destruct (negb (headers_ok (m_cfg m) b)) eqn:Eh.
  { eapply triple_bind with (R := fun _ => Jx C PW m).
    - destruct (m_cup m); [|apply triple_ret; auto].
      eapply triple_bind; [apply (Pn _ _ (Jx_inv C PW m) (nM_silent _ silent_fresh_nonce))|]. intro. apply triple_ret; auto.
    - intro. apply triple_ret. intros q Hq. split; [apply same_book_refl|]. left. split; [|split; [exact Hq|reflexivity]].
      rewrite HPW. apply negb_true_iff in Eh. rewrite Eh. apply andb_false_r. }
  eapply triple_bind with (R := fun _ => Jx C PW m).
  { destruct (m_cup m); [|apply triple_ret; auto].
    eapply triple_bind; [apply (Pn _ _ (Jx_inv C PW m) (nM_silent _ silent_fresh_nonce))|]. intro. apply triple_ret; auto. }
  intro uri. eapply triple_bind; [apply (Pn _ _ (Jx_inv C PW m) (nM_silent _ silent_pop_http))|]. intro o.
  set (okm := match usable C (Some o) with Some (BDoc _) => true | _ => false end).
  eapply triple_bind with (R := fun _ => Pg C PW m okm).
  { apply triple_emit. intros q (Hb & Hi & Ht & Ha & Hp & Hl & Hf). eexists. split.
    - unfold step8. rewrite Ht, Hi. reflexivity.
    - unfold Pg, Base. fld. rewrite Hp. cbn [fails_after]. destruct Hb as [Hb1 Hb2]. rewrite Hb1. fold okm. repeat split; assumption. }
  intros _.
  assert (Hret : forall e, okm = false ->
            T (Pg C PW m okm) (ret (m, inl e : req_err + body))
              (fun r q => same_book m (fst r) /\ ((PW = false /\ Jx C PW m q /\ isdoc (snd r) = false) \/ Pg C PW (fst r) (isdoc (snd r)) q))).
  { intros e Hok. apply triple_ret. intros q Hq. split; [apply same_book_refl|]. right. cbn [fst snd isdoc]. rewrite <- Hok. exact Hq. }
  destruct o as [k|status ra au bd]; [apply Hret; reflexivity|].
  destruct (match m_cup m with Some _ => negb au | None => false end) eqn:Ef.
  { apply Hret. unfold okm, usable. rewrite <- HC. unfold cupb. destruct (m_cup m); [|discriminate]. destruct au; [discriminate|reflexivity]. }
  assert (Hu : usable C (Some (HResp status ra au bd)) = if is_2xx status then Some bd else None).
  { unfold usable. rewrite <- HC. unfold cupb. destruct (m_cup m); [destruct au; [reflexivity|discriminate]|reflexivity]. }
  eapply triple_bind; [apply (T_poll_update (Pg C PW m okm) m (parse_retry_after ra) (Pg_inv C PW m okm))|].
  { intros q (Hb & Hi & Ht & Hl & Hf & Hp & Ha). unfold step8. rewrite Ht, Hi. cbn [with_ps m_ps set_poll ps_fails].
    rewrite Hf, Z.eqb_refl, orb_true_r. reflexivity. }
  intro m'. apply T_pre_pure. intro Hk. unfold okm. rewrite Hu. unfold is_2xx.
  destruct ((200 <=? status) && (status <? 300))%N; apply triple_ret; intros q Hq; (split; [exact Hk|]); right; cbn [fst snd isdoc].
  - destruct bd; eapply Pg_book; eassumption.
  - eapply Pg_book; eassumption.
Qed.

Definition Wm (PW : bool) (m : sm) : Prop :=
  PW = (u_valid (m_url m) && headers_ok (m_cfg m) (add_ops (builder_new ping_params) (map OpPing (m_apps m)))).

Lemma T_ping m C PW : cupb m = C -> Wm PW m ->
  T (Jx C PW m) (ping_omaha m) (fun m' q => J C PW m' q /\ skw m m').
Proof.
  intros HC HW. unfold ping_omaha.
  eapply triple_bind; [apply (Pn _ _ (Jx_inv C PW m) (nM_silent _ silent_fresh_guid))|]. intro sess.
  eapply triple_bind; [apply (Pn _ _ (Jx_inv C PW m) (nM_silent _ silent_fresh_guid))|]. intro req.
  eapply triple_bind; [apply (T_maybe_ids step8 _ _ _ _ (Jx C PW m))|]. intro b. apply T_pre_pure. intro Hcore.
  eapply triple_bind; [apply (T_do_req_ping _ b m C PW HC Hcore HW)|].
  intros [m1 res]; cbn [fst snd]. apply T_pre_l. intro Hk.
  set (mf := with_ps m1 (set_fails (m_ps m1) (sat_inc_u32 (ps_fails (m_ps m1))))).
  assert (Hskf : skw m mf).
  { destruct (skw_of_book _ _ Hk) as (H1 & H2 & H3 & H4). repeat split; assumption. }
  assert (Hfail : isdoc res = false ->
            T (fun q => (PW = false /\ Jx C PW m q /\ isdoc res = false) \/ Pg C PW m1 (isdoc res) q)
              (persist_data mf;;; ret mf) (fun m' q => J C PW m' q /\ skw m m')).
  { intro Hd. rewrite Hd.
    eapply triple_bind with (R := fun _ q => (PW = false /\ Jx C PW m q) \/ Pg C PW m1 false q).
    { eapply triple_conseq; [apply (neutralM_persist_data step8 Inv8 mf ign_store8 (fun q => (PW = false /\ Jx C PW m q) \/ Pg C PW m1 false q))| |auto].
      - intros q [[_ Hq]|Hq]; [eapply Jx_inv; exact Hq|eapply Pg_inv; exact Hq].
      - intros q [(H1 & H2 & _)|Hq]; [left; split; assumption|right; exact Hq]. }
    intro. apply triple_ret. intros q Hq. split; [|exact Hskf]. destruct Hq as [[Hpw Hq]|Hq].
    - destruct Hq as (Hb & Hi & Ht & Ha & Hp & Hl & Hf). destruct Hk as (_ & Hl1 & _).
      unfold J. repeat split; try assumption; try apply Hb.
      + unfold mf. cbn [with_ps m_sched]. congruence.
      + intro Hx. rewrite Hpw in Hx. discriminate.
    - destruct Hq as (Hb & Hi & Ht & Hl & Hf & Hp & Ha). unfold J. repeat split; try assumption; try apply Hb.
      intros _. rewrite Hp. cbn [fails_after]. rewrite Hf. reflexivity. }
  destruct res as [er|[d|]]; cbn [isdoc] in *.
  - eapply triple_conseq; [apply Hfail; reflexivity| |auto]. intros q [(H1 & H2 & H3)|Hq]; [left; auto|right; exact Hq].
  - (* success *)
    eapply triple_conseq with (P' := Pg C PW m1 true); [| |intros a q H; exact H].
    2:{ intros q [(_ & _ & Hx)|Hq]; [discriminate|exact Hq]. }
    set (m2 := with_ps m1 (set_fails (m_ps m1) 0)).
    eapply triple_bind; [apply (T_now _ (clkfree_Pg C PW m1 true))|]. intro n.
    set (m3 := with_sched m2 (set_last_update (m_sched m2) (Some (PComplex n)))).
    eapply triple_bind with (R := fun _ q => Base C PW q /\ in8 q = false /\ todo8 q = [] /\ await8 q = false /\ pfail8 q = Some true
                                             /\ lu8 q = Some (PComplex n)).
    { temit. intros q ((Hb & Hi & Ht & Hl & Hf & Hp & Ha) & Hc). eexists. split.
      - unfold step8. rewrite Ht, Hi, Ha, Hc. cbn [m3 with_sched m_sched set_last_update s_last_update]. rewrite opct_eqb_refl. reflexivity.
      - unfold Base in *. fld. destruct Hb. repeat split; try assumption; try reflexivity. }
    intros _.
    match goal with |- T _ (bind (persist_data ?x) _) _ => set (m4 := x) end.
    eapply triple_bind with (R := fun _ q => Base C PW q /\ in8 q = false /\ todo8 q = [] /\ await8 q = false /\ pfail8 q = Some true
                                             /\ lu8 q = Some (PComplex n)).
    { apply (neutralM_persist_data step8 Inv8 m4 ign_store8). intros q (_ & _ & H & _). exact H. }
    intro. apply triple_ret. intros q (Hb & Hi & Ht & Ha & Hp & Hl). split.
    + unfold J. repeat split; try assumption; try apply Hb. intros _. rewrite Hp. reflexivity.
    + destruct (skw_of_book _ _ Hk) as (H1 & H2 & H3 & H4). unfold m4, m3, m2. repeat split; cbn [with_apps with_sched with_ps m_cup m_cfg m_url m_apps]; try assumption.
      rewrite update_from_omaha_ids. exact H4.
  - eapply triple_conseq; [apply Hfail; reflexivity| |auto]. intros q [(H1 & H2 & H3)|Hq]; [left; auto|right; exact Hq].
Qed.

(* ---------- whether a ping can be put on the wire depends on the app ids only ---------- *)
Lemma ping_entries_head p (a : app) (L : list app) :
  exists rest, fold_left (apply_op p) (map OpPing (a :: L)) [] = spec_entry p (map OpPing (a :: L)) a :: rest.
Proof.
  rewrite build_refines_spec. unfold spec_entries. cbn [map]. rewrite first_ids_cons.
  replace (mem (oid (OpPing a)) []) with false by reflexivity. cbn [map op_app]. eexists. reflexivity.
Qed.

Lemma headers_of_ping cfg (L : list app) :
  headers_of cfg (add_ops (builder_new ping_params) (map OpPing L)) =
  [(s2b "content-type", s2b "application/json"); (s2b "x-goog-update-updater", cfg_name cfg); (s2b "x-goog-update-interactivity", s2b "bg")]
  ++ match L with a :: _ => [(s2b "x-goog-update-appid", a_id a)] | [] => [] end.
Proof.
  unfold headers_of, add_ops. cbn [b_params builder_new b_entries p_source ping_params]. f_equal.
  destruct L as [|a L]; [reflexivity|].
  destruct (ping_entries_head ping_params a L) as (rest & ->). reflexivity.
Qed.

Lemma Wm_skw PW m m' : skw m m' -> Wm PW m -> Wm PW m'.
Proof.
  intros (_ & Hc & Hu & Hi) H. unfold Wm in *. rewrite Hu, Hc. rewrite H. f_equal.
  unfold headers_ok. rewrite !headers_of_ping. f_equal. f_equal.
  destruct (m_apps m) as [|a L], (m_apps m') as [|a' L']; try discriminate; [reflexivity|].
  cbn [map] in Hi. inversion Hi. congruence.
Qed.

(* ---------- waiting for the reboot ---------- *)
Lemma T_ask_reboot src (P : q8 -> Prop) : (forall q, P q -> Inv8 q) -> T P (ask_reboot_allowed src) (fun _ => P).
Proof.
  intro HP. unfold ask_reboot_allowed.
  eapply triple_bind; [apply (Pn P _ HP (nM_silent _ silent_pop_reboot_allowed))|]. intro b.
  eapply triple_bind; [apply (Pn P _ HP (nM_emit_idle (APolicy (QRebootAllowed src) (PBool b)) I))|]. intro. apply triple_ret; auto.
Qed.
Lemma T_handle_in_reboot id sc (P : q8 -> Prop) : (forall q, P q -> Inv8 q) -> T P (handle_in_reboot id sc) (fun _ => P).
Proof.
  intro HP. unfold handle_in_reboot.
  eapply triple_bind; [apply (Pn P _ HP (nM_emit_idle (AReply id AlreadyRunning) I))|]. intro.
  destruct sc; [apply T_ask_reboot; exact HP|apply triple_ret; auto].
Qed.

Definition R8 (C PW : bool) (m0 m : sm) (q : q8) : Prop := Jx C PW m q /\ skw m0 m.

Lemma T_reboot_loop C PW m0 fuel : cupb m0 = C -> Wm PW m0 -> forall src pending m, skw m0 m ->
  T (Jx C PW m) (reboot_loop fuel src pending m) (R8 C PW m0).
Proof.
  intros HC HW. induction fuel as [|f IH]; intros src pending m Hk; cbn [reboot_loop]; [apply triple_halt|].
  assert (Hret : T (Jx C PW m) (ret m) (R8 C PW m0)).
  { apply triple_ret. intros q Hq. split; [exact Hq|exact Hk]. }
  eapply triple_bind; [apply (Pn _ _ (Jx_inv C PW m) (nM_silent _ (silent_pop_queued)))|]. intro qd. destruct qd as [[id sc]|].
  { eapply triple_bind; [apply T_handle_in_reboot; apply Jx_inv|]. intros [|]; [exact Hret|apply IH; exact Hk]. }
  eapply triple_bind; [apply (Pn _ _ (Jx_inv C PW m) (nM_silent _ silent_pop_stim))|]. intro s. destruct s as [i|sc|].
  - assert (Hping : T (Jx C PW m)
              (m1 <- ping_omaha m;; mt <- update_next_update_time m1;;
               (let '(m2, t) := mt in roles <- make_wait t;; reboot_loop f src (remove_nth i pending ++ roles) m2)) (R8 C PW m0)).
    { assert (HCm : cupb m = C) by (unfold cupb; rewrite (proj1 Hk); exact HC).
      eapply triple_bind; [apply (T_ping m C PW HCm (Wm_skw _ _ _ Hk HW))|]. intro m1. apply T_pre_pure. intro Hk1.
      eapply triple_bind; [apply T_update_next|]. intros [m2 t]; cbn [fst]. apply T_pre_pure. intro Hk2.
      eapply triple_bind; [apply (Pn _ _ (Jx_inv C PW m2) (neutralM_make_wait step8 Inv8 t ign_timer8))|]. intro roles.
      apply IH. eapply skw_trans; [exact Hk|]. eapply skw_trans; [exact Hk1|apply skw_of_book; exact Hk2]. }
    destruct (nth_error pending i) as [[| |]|].
    + destruct (has_ping_roles (remove_nth i pending)); [apply IH; exact Hk|exact Hping].
    + destruct (has_ping_roles (remove_nth i pending)); [apply IH; exact Hk|exact Hping].
    + eapply triple_bind; [apply T_ask_reboot; apply Jx_inv|]. intros [|]; [exact Hret|].
      eapply triple_bind; [apply (Pn _ _ (Jx_inv C PW m) (neutralM_emit step8 Inv8 _ (ign_timer8 (WFor REBOOT_INTERVAL_NS))))|]. intro.
      apply IH; exact Hk.
    + apply IH; exact Hk.
  - eapply triple_bind; [apply (Pn _ _ (Jx_inv C PW m) (nM_silent _ silent_next_ctl))|]. intro id.
    eapply triple_bind; [apply (Pn _ _ (Jx_inv C PW m) (nM_emit_idle (ARequest id sc) I))|]. intro.
    eapply triple_bind; [apply T_handle_in_reboot; apply Jx_inv|]. intros [|]; [exact Hret|apply IH; exact Hk].
  - apply IH; exact Hk.
Qed.

Lemma T_wait_for_reboot fuel src m C PW : cupb m = C -> Wm PW m ->
  T (Jx C PW m) (wait_for_reboot fuel src m) (fun m' q => Jx C PW m' q /\ skw m m').
Proof.
  intros HC HW. unfold wait_for_reboot.
  eapply triple_bind; [apply T_ask_reboot; apply Jx_inv|]. intro ok.
  eapply triple_bind with (R := fun m' q => Jx C PW m' q /\ skw m m').
  { destruct ok; [apply triple_ret; intros q Hq; split; [exact Hq|apply skw_refl]|].
    eapply triple_bind; [apply (Pn _ _ (Jx_inv C PW m) (neutralM_emit step8 Inv8 _ (ign_timer8 (WFor REBOOT_INTERVAL_NS))))|]. intro.
    eapply triple_bind; [eapply triple_conseq; [apply (T_update_next m C PW)|intros q Hq; apply Jx_J; exact Hq|intros r q H; exact H]|].
    intros [m1 t]; cbn [fst]. apply T_pre_pure. intro Hk1.
    eapply triple_bind; [apply (Pn _ _ (Jx_inv C PW m1) (neutralM_make_wait step8 Inv8 t ign_timer8))|]. intro roles.
    apply (T_reboot_loop C PW m fuel HC HW). apply skw_of_book. exact Hk1. }
  intro m1. apply T_pre_pure. intro Hk1.
  eapply triple_bind; [apply (Pn _ _ (Jx_inv C PW m1) (nM_silent _ silent_pop_reboot))|]. intro okr.
  eapply triple_bind; [apply (Pn _ _ (Jx_inv C PW m1) (nM_emit_idle (AInstaller IReboot (IRebooted okr)) I))|]. intro.
  apply triple_ret. intros q Hq. split; [exact Hq|exact Hk1].
Qed.

Lemma T_run_iteration fuel finish start_mono sr m C PW : cupb m = C -> Wm PW m ->
  T (Jx C PW m) (run_iteration fuel finish start_mono sr m) (fun r q => Jx C PW (fst r) q /\ skw m (fst r)).
Proof.
  intros HC HW. unfold run_iteration.
  eapply triple_bind with (R := fun _ => Jx C PW m).
  { destruct sr; [|apply triple_ret; auto].
    eapply triple_bind; [apply (T_now' _ (clkfree_Jx C PW m))|]. intro n.
    match goal with |- T _ (match ?x with Some _ => _ | None => _ end) _ => destruct x end; [|apply triple_ret; auto].
    eapply triple_bind; [apply (Pn _ _ (Jx_inv C PW m) (neutralM_report step8 Inv8 _ ign_metric8))|]. intro.
    eapply triple_bind; [apply (Pn _ _ (Jx_inv C PW m) (neutralM_st_write step8 Inv8 (SRemove K_FINISH_TIME) ign_store8))|]. intro.
    eapply triple_bind; [apply (Pn _ _ (Jx_inv C PW m) (neutralM_st_write step8 Inv8 (SRemove K_TARGET_VERSION) ign_store8))|]. intro.
    eapply triple_bind; [apply (Pn _ _ (Jx_inv C PW m) (neutralM_st_write step8 Inv8 SCommit ign_store8))|]. intro.
    apply triple_ret; auto. }
  intro sr'.
  eapply triple_bind; [eapply triple_conseq; [apply (T_update_next m C PW)|intros q Hq; apply Jx_J; exact Hq|intros r q H; exact H]|].
  intros [m1 t]; cbn [fst]. apply T_pre_pure. intro Hk1.
  assert (Hs1 : skw m m1) by (apply skw_of_book; exact Hk1).
  eapply triple_bind; [apply (Pn _ _ (Jx_inv C PW m1) (neutralM_make_wait step8 Inv8 t ign_timer8))|]. intro roles.
  eapply triple_bind with (R := fun _ => Jx C PW m1); [apply (T_do_outer_select step8 roles _ ign_ctl8)|]. intro sel.
  eapply triple_bind; [apply (Pn _ _ (Jx_inv C PW m1) (nM_silent _ silent_pop_allowed))|]. intro dec.
  eapply triple_bind with (R := fun _ => Jx C PW m1).
  { apply triple_emit. intros q ((Hb1 & Hb2) & Hi & Ht & Ha & Hp & Hl & Hf).
    assert (Hc : opct_eqb (s_last_update (m_sched m1)) (lu8 q) && (negb (pw8 q) || (ps_fails (m_ps m1) =? fails_after (pfail8 q) (fails8 q))) = true).
    { rewrite (opct_eqb_refl' _ _ (eq_sym Hl)), Hp. cbn [fails_after]. rewrite Hf, Z.eqb_refl, orb_true_r. reflexivity. }
    eexists. split.
    - unfold step8. rewrite Ht, Hi. cbv zeta. rewrite Hc. reflexivity.
    - unfold Jx, Base. fld. rewrite Hp. cbn [fails_after]. repeat split; try assumption. destruct (pw8 q); [exact Hf|reflexivity]. }
  intro.
  assert (Hneg : T (Jx C PW m1) (match sel with Some (_, id) => emit (AReply id Throttled) | None => ret tt end;;; ret (m1, sr'))
                   (fun r q => Jx C PW (fst r) q /\ skw m (fst r))).
  { eapply triple_bind with (R := fun _ => Jx C PW m1).
    - destruct sel as [[s id]|]; [apply (Pn _ _ (Jx_inv C PW m1) (nM_emit_idle (AReply id Throttled) I))|apply triple_ret; auto].
    - intro. apply triple_ret. intros q Hq. split; [exact Hq|exact Hs1]. }
  assert (Hpos : forall p, T (Jx C PW m1)
            (match sel with Some (_, id) => emit (AReply id Started) | None => ret tt end;;;
             enter_check;;;
             r <- start_update_check fuel p m1;;
             set_incheck false;;;
             upg <- take_upgrade;;
             (let '(m0, rb) := r in
              m2 <- match rb with
                    | RebootNeeded _ => yield_state WaitingForReboot;;; wait_for_reboot fuel (if upg then OnDemand else match sel with Some (s, _) => s | None => ScheduledTask end) m0
                    | RebootNotNeeded => ret m0
                    end;;
              yield_state Idle;;; ret (m2, sr'))) (fun r q => Jx C PW (fst r) q /\ skw m (fst r))).
  { intro p. eapply triple_bind with (R := fun _ => Jx C PW m1).
    { destruct sel as [[s id]|]; [apply (Pn _ _ (Jx_inv C PW m1) (nM_emit_idle (AReply id Started) I))|apply triple_ret; auto]. }
    intro. eapply triple_bind with (R := fun _ => Jx C PW m1); [apply (T_enter_check step8 _ ign_ctl8)|]. intro.
    eapply triple_bind; [apply T_start|]. intros [m2 rb]; cbn [fst]. apply T_pre_pure. intro Hk2.
    eapply triple_bind; [apply (Pn _ _ (Jx_inv C PW m2) (nM_silent _ (silent_set_incheck false)))|]. intro.
    eapply triple_bind; [apply (Pn _ _ (Jx_inv C PW m2) (nM_silent _ silent_take_upgrade))|]. intro upg.
    assert (Hs2 : skw m m2) by (eapply skw_trans; eassumption).
    eapply triple_bind with (R := fun m3 q => Jx C PW m3 q /\ skw m2 m3).
    { destruct rb as [plan|]; [|apply triple_ret; intros q Hq; split; [exact Hq|apply skw_refl]].
      eapply triple_bind; [apply (Pn _ _ (Jx_inv C PW m2) (nM_yield_idle (EvState WaitingForReboot) I))|]. intro.
      apply T_wait_for_reboot; [unfold cupb; rewrite (proj1 Hs2); exact HC|eapply Wm_skw; eassumption]. }
    intro m3. apply T_pre_pure. intro Hk3.
    eapply triple_bind; [apply (Pn _ _ (Jx_inv C PW m3) (nM_yield_idle (EvState Idle) I))|]. intro.
    apply triple_ret. intros q Hq. split; [exact Hq|eapply skw_trans; eassumption]. }
  destruct dec; [apply Hpos|apply Hpos|exact Hneg|exact Hneg|exact Hneg].
Qed.

Lemma T_run_loop C PW m0 iters : cupb m0 = C -> Wm PW m0 -> forall fuel finish start_mono sr m, skw m0 m ->
  T (Jx C PW m) (run_loop iters fuel finish start_mono sr m) (fun _ _ => True).
Proof.
  intros HC HW. induction iters as [|k IH]; intros; cbn [run_loop]; [apply triple_halt|].
  eapply triple_bind; [apply T_run_iteration; [unfold cupb; rewrite (proj1 H); exact HC|eapply Wm_skw; eassumption]|].
  intros [m' sr']; cbn [fst]. apply T_pre_pure. intro Hk. apply IH. eapply skw_trans; eassumption.
Qed.

Lemma T_run iters fuel m C PW : cupb m = C -> Wm PW m -> T (Jx C PW m) (run iters fuel m) (fun _ _ => True).
Proof.
  intros HC HW. unfold run. destruct (negb (forallb app_valid (m_apps m))); [apply triple_ret; auto|].
  eapply triple_bind; [apply (T_now' _ (clkfree_Jx C PW m))|]. intro.
  eapply triple_bind; [apply (Pn _ _ (Jx_inv C PW m) (nM_silent _ (silent_st_get_time K_FINISH_TIME)))|]. intro.
  eapply triple_bind; [apply (Pn _ _ (Jx_inv C PW m) (nM_silent _ (silent_st_get_str K_TARGET_VERSION)))|]. intro.
  apply (T_run_loop C PW m iters HC HW). apply skw_refl.
Qed.

Lemma T_oneshot fuel m C PW : T (Jx C PW m) (oneshot fuel m) (fun _ _ => True).
Proof. unfold oneshot. eapply triple_bind; [apply T_start|]. intros [m' rb]. apply triple_ret. auto. Qed.

Theorem model_accepted_c08 ep cfg url cup apps e :
  e_trace e = [] -> accepts step8 (init8 cfg url cup apps (e_store e)) (run_case ep cfg url cup apps e) = true.
Proof.
  intro Ht. unfold run_case, accepts.
  set (m := build cfg url cup apps (e_store e)).
  set (PW := ping_wireable cfg url apps).
  assert (HJ : Jx (cupb m) PW m (init8 cfg url cup apps (e_store e))).
  { unfold Jx, Base, init8, cupb, m, build. destruct (ctx_load (pend (e_store e))) as [sc ps]. cbn. repeat split; reflexivity. }
  assert (HW : Wm PW m).
  { unfold Wm, PW, ping_wireable, m, build. destruct (ctx_load (pend (e_store e))) as [sc ps]. cbn [m_url m_cfg m_apps]. f_equal.
    unfold headers_ok. rewrite !headers_of_ping. f_equal. f_equal. destruct apps as [|a L]; [reflexivity|]. cbn [map].
    unfold app_load. destruct (sm_get (pend (e_store e)) (a_id a)) as [v|]; [|reflexivity]. destruct v; try reflexivity.
    match goal with |- context [decode_persisted ?js] => destruct (decode_persisted js) as [[c u]|] end; reflexivity. }
  destruct ep.
  - destruct (T_run (Datatypes.S (length (e_stim e) + length (c_inject (e_cs e)))) (4 + length (e_stim e) + length (c_inject (e_cs e))) m (cupb m) PW eq_refl HW
                (init8 cfg url cup apps (e_store e)) e (init8 cfg url cup apps (e_store e))) as (q' & Hq' & _).
    + unfold mst. rewrite Ht. reflexivity.
    + exact HJ.
    + destruct (run _ _ m e) as [r e'] eqn:E. cbn [snd] in Hq'. unfold mst in Hq'. rewrite Hq'. reflexivity.
  - destruct (T_oneshot (4 + length (e_stim e) + length (c_inject (e_cs e))) m (cupb m) PW
                (init8 cfg url cup apps (e_store e)) e (init8 cfg url cup apps (e_store e))) as (q' & Hq' & _).
    + unfold mst. rewrite Ht. reflexivity.
    + exact HJ.
    + destruct (oneshot _ m e) as [r e'] eqn:E. cbn [snd] in Hq'. unfold mst in Hq'. rewrite Hq'. reflexivity.
Qed.
