(* Proofs/C11aProof.v — every model trace is accepted by step11a: replies only to requests that were sent and not yet
   answered, never two replies to one request, request ids never reused.  The invariant ties the monitor's list of
   outstanding requests to the model's queue of requests in flight, so it is stated over monitor state AND environment
   (Proofs/MonitorG.v). *)
Require Import Verif.Model.Time Verif.Base.Bytes Verif.Proofs.BytesFacts Verif.Model.Version Verif.Model.Json Verif.Model.Proto
               Verif.Model.Request Verif.Model.Env Verif.Model.SM Verif.Model.Monitors11a
               Verif.Proofs.Monitor Verif.Proofs.MonitorG.
From Coq Require Import Lia.
Open Scope N_scope.

Notation TG := (tripleG step11a).

Definition wf11 (q : q11a) : Prop := Forall (fun x => x < next11a q) (out11a q) /\ NoDup (out11a q).
(* outstanding = queued (plus, for a moment, the requests `fl` the machine has taken but not yet answered) *)
Definition Ifl (fl : list N) (q : q11a) (e : env) : Prop :=
  out11a q = fl ++ map fst (c_inq (e_cs e)) /\ next11a q <= e_ctl e /\ wf11 q.
Definition I11 := Ifl [].

(* predicates that only look at the queue and the id counter *)
Definition Vst (P : q11a -> env -> Prop) : Prop :=
  forall q e e', c_inq (e_cs e') = c_inq (e_cs e) -> e_ctl e' = e_ctl e -> P q e -> P q e'.
Lemma Vst_Ifl fl : Vst (Ifl fl).
Proof. intros q e e' H1 H2 (Ho & Hn & Hw). unfold Ifl. rewrite H1, H2. auto. Qed.

Definition boring11 (a : action) : bool := match a with ARequest _ _ | AReply _ _ => false | _ => true end.
Lemma step11a_boring q a : boring11 a = true -> step11a q a = Some q.
Proof. destruct a; cbn; intro H; try discriminate; reflexivity. Qed.

(* programs that change neither trace, queue nor counter *)
Definition quietV {A} (m : M A) : Prop :=
  forall e, e_trace (snd (m e)) = e_trace e /\ c_inq (e_cs (snd (m e))) = c_inq (e_cs e) /\ e_ctl (snd (m e)) = e_ctl e.
Lemma TG_quiet {A} (m : M A) (P : q11a -> env -> Prop) : Vst P -> quietV m -> TG P m (fun _ => P).
Proof.
  intros HP H. apply tripleG_silent; [intro e; apply (H e)|]. intros q e a Hp _. destruct (H e) as (_ & H1 & H2). exact (HP q e _ H1 H2 Hp).
Qed.
Lemma TG_emit_boring a (P : q11a -> env -> Prop) : Vst P -> boring11 a = true -> TG P (emit a) (fun _ => P).
Proof.
  intros HP H. apply tripleG_emit. intros q e Hp. exists q. split; [apply step11a_boring; exact H|]. apply (HP q e); [reflexivity|reflexivity|exact Hp].
Qed.
Lemma TG_write op (P : q11a -> env -> Prop) : Vst P -> TG P (st_write op) (fun _ => P).
Proof.
  intros HP q0 e q Hq Hp. exists q. split.
  - unfold mst, st_write. cbn [snd upd_trace e_trace rev]. rewrite runmon_app. unfold mst in Hq. rewrite Hq. reflexivity.
  - cbn [fst st_write]. apply (HP q e); [reflexivity|reflexivity|exact Hp].
Qed.

Lemma quietV_bind {A B} (m : M A) (f : A -> M B) : quietV m -> (forall a, quietV (f a)) -> quietV (bind m f).
Proof.
  intros Hm Hf e. unfold bind. destruct (Hm e) as (Ht & Hq & Hc). destruct (m e) as [[a|] e1]; cbn [snd] in *.
  - destruct (Hf a e1) as (Ht1 & Hq1 & Hc1). repeat split; congruence.
  - repeat split; assumption.
Qed.
Lemma quietV_ret {A} (a : A) : quietV (ret a). Proof. intro e. repeat split. Qed.
Ltac qv := intro e; repeat split; reflexivity.
Lemma quietV_read_clock : quietV read_clock. Proof. intro e. unfold read_clock. destruct (e_clock e); repeat split; reflexivity. Qed.
Lemma quietV_pop_next_time : quietV pop_next_time. Proof. intro e. unfold pop_next_time. destruct (q_next_time e); repeat split; reflexivity. Qed.
Lemma quietV_pop_allowed : quietV pop_allowed. Proof. intro e. unfold pop_allowed. destruct (q_allowed e); repeat split; reflexivity. Qed.
Lemma quietV_pop_can_start : quietV pop_can_start. Proof. intro e. unfold pop_can_start. destruct (q_can_start e); repeat split; reflexivity. Qed.
Lemma quietV_pop_reboot_needed : quietV pop_reboot_needed. Proof. intro e. unfold pop_reboot_needed. destruct (q_reboot_needed e); repeat split; reflexivity. Qed.
Lemma quietV_pop_reboot_allowed : quietV pop_reboot_allowed. Proof. intro e. unfold pop_reboot_allowed. destruct (q_reboot_allowed e); repeat split; reflexivity. Qed.
Lemma quietV_pop_http : quietV pop_http. Proof. intro e. unfold pop_http. destruct (q_http e); repeat split; reflexivity. Qed.
Lemma quietV_pop_plan : quietV pop_plan. Proof. intro e. unfold pop_plan. destruct (q_plan e); repeat split; reflexivity. Qed.
Lemma quietV_pop_perform : quietV pop_perform. Proof. intro e. unfold pop_perform. destruct (q_perform e); repeat split; reflexivity. Qed.
Lemma quietV_pop_reboot : quietV pop_reboot. Proof. intro e. unfold pop_reboot. destruct (q_reboot e); repeat split; reflexivity. Qed.
Lemma quietV_pop_backoff : quietV pop_backoff. Proof. intro e. unfold pop_backoff. destruct (q_backoff e); repeat split; reflexivity. Qed.
Lemma quietV_fresh_guid : quietV fresh_guid. Proof. qv. Qed.
Lemma quietV_fresh_nonce : quietV fresh_nonce. Proof. qv. Qed.
Lemma quietV_canon_guid d : quietV (canon_guid d). Proof. intro e. unfold canon_guid. destruct (glookup (e_guids e) d); repeat split; reflexivity. Qed.
Lemma quietV_st_get_int k : quietV (st_get_int k). Proof. qv. Qed.
Lemma quietV_st_get_str k : quietV (st_get_str k). Proof. qv. Qed.
Lemma quietV_st_get_time k : quietV (st_get_time k).
Proof. unfold st_get_time. apply quietV_bind; [apply quietV_st_get_int|intro; apply quietV_ret]. Qed.
Lemma quietV_pop_stim : quietV pop_stim. Proof. intro e. unfold pop_stim. destruct (e_stim e); repeat split; reflexivity. Qed.
Lemma quietV_set_incheck b : quietV (set_incheck b). Proof. qv. Qed.
Lemma quietV_take_upgrade : quietV take_upgrade. Proof. qv. Qed.

(* ---------- list facts about the outstanding set ---------- *)
Lemma filter_not_in (l : list N) id : ~ In id l -> filter (fun x => negb (x =? id)) l = l.
Proof.
  induction l as [|x l IH]; intro H; [reflexivity|]. cbn [filter].
  destruct (x =? id) eqn:E; [apply N.eqb_eq in E; subst; exfalso; apply H; left; reflexivity|].
  cbn [negb]. f_equal. apply IH. intro Hi. apply H. right. exact Hi.
Qed.
Lemma filter_remove_mid (l1 l2 : list N) id : NoDup (l1 ++ id :: l2) -> filter (fun x => negb (x =? id)) (l1 ++ id :: l2) = l1 ++ l2.
Proof.
  intro H. rewrite filter_app. cbn [filter]. rewrite N.eqb_refl. cbn [negb].
  apply NoDup_remove_2 in H. rewrite !filter_not_in; [reflexivity| |]; intro Hi; apply H; apply in_or_app; [right|left]; exact Hi.
Qed.
Lemma existsb_mid (l1 l2 : list N) id : existsb (N.eqb id) (l1 ++ id :: l2) = true.
Proof. apply existsb_exists. exists id. split; [apply in_or_app; right; left; reflexivity|apply N.eqb_refl]. Qed.

Lemma NoDup_snoc (l : list N) x : NoDup l -> ~ In x l -> NoDup (l ++ [x]).
Proof.
  induction l as [|y l IH]; intros Hn Hi; cbn [List.app]; [constructor; [intros []|constructor]|].
  inversion Hn; subst. constructor.
  - intro H. apply in_app_or in H as [H|[H|[]]]; [contradiction|subst; apply Hi; left; reflexivity].
  - apply IH; [assumption|intro; apply Hi; right; assumption].
Qed.

(* sending request number `ctl`: appended, counter bumped *)
Lemma step_request q ctl src : wf11 q -> next11a q <= ctl ->
  step11a q (ARequest ctl src) = Some {| out11a := out11a q ++ [ctl]; next11a := ctl + 1 |} /\ wf11 {| out11a := out11a q ++ [ctl]; next11a := ctl + 1 |}.
Proof.
  intros [Hf Hn] Hle. split.
  - unfold step11a. apply N.leb_le in Hle. rewrite Hle. reflexivity.
  - split; cbn [out11a next11a].
    + apply Forall_app. split; [eapply Forall_impl; [|exact Hf]; intros x Hx; cbn in Hx; lia|constructor; [lia|constructor]].
    + apply NoDup_snoc; [exact Hn|]. intro Hi. rewrite Forall_forall in Hf. specialize (Hf _ Hi). cbn in Hf. lia.
Qed.

(* ---------- the primitives that move requests ---------- *)
Lemma reply_last q ctl r : wf11 q -> ~ In ctl (out11a q) ->
  step11a {| out11a := out11a q ++ [ctl]; next11a := ctl + 1 |} (AReply ctl r) = Some {| out11a := out11a q; next11a := ctl + 1 |}.
Proof.
  intros [Hf Hn] Hni. unfold step11a. cbn [out11a next11a].
  replace (out11a q ++ [ctl]) with (out11a q ++ ctl :: []) by reflexivity. rewrite existsb_mid.
  rewrite filter_remove_mid; [rewrite app_nil_r; reflexivity|]. apply NoDup_snoc; assumption.
Qed.

Lemma not_in_out q ctl : wf11 q -> next11a q <= ctl -> ~ In ctl (out11a q).
Proof. intros [Hf _] Hle Hi. rewrite Forall_forall in Hf. specialize (Hf _ Hi). cbn in Hf. lia. Qed.

Lemma wf11_bump q ctl : wf11 q -> next11a q <= ctl -> wf11 {| out11a := out11a q; next11a := ctl + 1 |}.
Proof. intros [Hf Hn] Hle. split; [|exact Hn]. cbn. eapply Forall_impl; [|exact Hf]. intros x Hx. cbn in Hx. lia. Qed.

Lemma TG_after_event b : TG I11 (after_event b) (fun _ => I11).
Proof.
  intros q0 e q Hm (Ho & Hn & Hw). unfold after_event, mst in *.
  destruct (c_inject (e_cs e)) as [|[k src] rest].
  { exists q. split; [exact Hm|]. cbn [fst]. unfold I11, Ifl. cbn. auto. }
  destruct ((k <=? c_evn (e_cs e)) && negb b).
  2:{ exists q. split; [exact Hm|]. cbn [fst]. unfold I11, Ifl. cbn. auto. }
  destruct (step_request q (e_ctl e) src Hw Hn) as [Hs Hw'].
  destruct (c_incheck (e_cs e)); cbn [fst snd upd_trace set_cs e_trace rev e_cs e_ctl c_inq].
  - exists {| out11a := out11a q; next11a := e_ctl e + 1 |}. split.
    + rewrite <- app_assoc, runmon_app, Hm. cbn [List.app runmon]. rewrite Hs.
      rewrite (reply_last q (e_ctl e) AlreadyRunning Hw (not_in_out q _ Hw Hn)). reflexivity.
    + unfold I11, Ifl. cbn [out11a next11a List.app e_cs e_ctl c_inq upd_trace set_cs]. split; [exact Ho|]. split; [apply N.le_refl|apply wf11_bump; assumption].
  - exists {| out11a := out11a q ++ [e_ctl e]; next11a := e_ctl e + 1 |}. split.
    + rewrite runmon_app, Hm. cbn [runmon]. rewrite Hs. reflexivity.
    + unfold I11, Ifl. cbn [out11a next11a List.app e_cs e_ctl c_inq upd_trace set_cs]. split; [rewrite map_app, Ho; reflexivity|]. split; [apply N.le_refl|exact Hw'].
Qed.

Definition inv {A} (m : M A) : Prop := TG I11 m (fun _ => I11).
Lemma inv_ret {A} (a : A) : inv (ret a). Proof. apply tripleG_ret. auto. Qed.
Lemma inv_bind {A B} (m : M A) (f : A -> M B) : inv m -> (forall a, inv (f a)) -> inv (bind m f).
Proof. intros Hm Hf. eapply tripleG_bind; [exact Hm|]. intro a. apply Hf. Qed.
Lemma inv_quiet {A} (m : M A) : quietV m -> inv m. Proof. apply TG_quiet. apply Vst_Ifl. Qed.
Lemma inv_emit a : boring11 a = true -> inv (emit a). Proof. apply TG_emit_boring. apply Vst_Ifl. Qed.
Lemma inv_report x : inv (report x). Proof. unfold report. apply inv_emit. reflexivity. Qed.
Lemma inv_write op : inv (st_write op). Proof. apply TG_write. apply Vst_Ifl. Qed.
Lemma inv_halt {A} : inv (@halt A). Proof. apply tripleG_halt. Qed.
Lemma inv_iterM {A} (f : A -> M unit) l : (forall x, inv (f x)) -> inv (iterM f l).
Proof. intro H. apply tripleG_iterM. intros x _. apply H. Qed.
Lemma inv_yield ev : inv (yield_ ev).
Proof. unfold yield_. apply inv_bind; [apply inv_emit; reflexivity|]. intros []. apply TG_after_event. Qed.
Lemma inv_now : inv now.
Proof. unfold now. apply inv_bind; [apply inv_quiet, quietV_read_clock|intro c]. apply inv_bind; [apply inv_emit; reflexivity|intro; apply inv_ret]. Qed.

Lemma inv_set_opt k v : inv (st_set_option_int k v).
Proof. unfold st_set_option_int. destruct v; apply inv_write. Qed.
Lemma inv_ctx_persist sc ps : inv (ctx_persist sc ps).
Proof. unfold ctx_persist. repeat (apply inv_bind; [apply inv_set_opt|intro]). apply inv_ret. Qed.
Lemma inv_persist_data m : inv (persist_data m).
Proof.
  unfold persist_data. apply inv_bind; [apply inv_ctx_persist|intro]. apply inv_bind.
  - apply inv_iterM. intro ap. apply inv_bind; [apply inv_write|intro; apply inv_ret].
  - intro. apply inv_bind; [apply inv_write|intro; apply inv_ret].
Qed.
Lemma inv_with_ids b s r : inv (with_ids b s r).
Proof.
  unfold with_ids. apply inv_bind; [apply inv_quiet, quietV_canon_guid|intro].
  apply inv_bind; [apply inv_quiet, quietV_canon_guid|intro]. apply inv_ret.
Qed.
Lemma inv_maybe_ids (c : bool) b s r : inv (if c then with_ids b s r else ret b).
Proof. destruct c; [apply inv_with_ids|apply inv_ret]. Qed.

Lemma inv_do_req b m : inv (do_omaha_request b m).
Proof.
  unfold do_omaha_request.
  destruct (negb (u_valid (m_url m))); [apply inv_ret|].
  destruct (negb (headers_ok (m_cfg m) b)).
  { apply inv_bind; [|intro; apply inv_ret]. destruct (m_cup m); [|apply inv_ret].
    apply inv_bind; [apply inv_quiet, quietV_fresh_nonce|intro; apply inv_ret]. }
  apply inv_bind.
  { destruct (m_cup m); [|apply inv_ret]. apply inv_bind; [apply inv_quiet, quietV_fresh_nonce|intro; apply inv_ret]. }
  intro uri. apply inv_bind; [apply inv_quiet, quietV_pop_http|intro o].
  apply inv_bind; [apply inv_emit; reflexivity|intro].
  destruct o as [k|status ra au bd]; [apply inv_ret|].
  destruct (match m_cup m with Some _ => negb au | None => false end); [apply inv_ret|].
  apply inv_bind.
  { destruct (oZ_eqb (ps_poll (m_ps m)) (parse_retry_after ra)); [apply inv_ret|]. cbv zeta.
    apply inv_bind; [apply inv_yield|intro]. apply inv_bind; [apply inv_ctx_persist|intro].
    apply inv_bind; [apply inv_write|intro]. apply inv_ret. }
  intro m'. destruct ((200 <=? status) && (status <? 300))%N; apply inv_ret.
Qed.
Lemma inv_report_event p ev apps sess nv dur m : inv (report_event p ev apps sess nv dur m).
Proof.
  unfold report_event. apply inv_bind; [apply inv_quiet, quietV_fresh_guid|intro].
  apply inv_bind; [apply inv_maybe_ids|intro b]. apply inv_bind; [apply inv_do_req|].
  intros [m' [e|bd]]; [|apply inv_ret]. apply inv_bind; [apply inv_report|intro; apply inv_ret].
Qed.
Lemma inv_attempt_loop b0 sess fuel : forall attempt m, inv (attempt_loop fuel attempt b0 sess m).
Proof.
  induction fuel as [|f IH]; intros attempt m; cbn [attempt_loop]; [apply inv_halt|].
  apply inv_bind; [apply inv_now|intro]. apply inv_bind; [apply inv_quiet, quietV_fresh_guid|intro].
  apply inv_bind; [apply inv_maybe_ids|intro b]. apply inv_bind; [apply inv_do_req|]. intros [m1 res].
  apply inv_bind; [apply inv_now|intro fin].
  apply inv_bind.
  { match goal with |- inv (if ?c then _ else _) => destruct c end; [apply inv_report|apply inv_ret]. }
  intros _. destruct res as [e|bd]; [|apply inv_ret].
  match goal with |- inv (if ?c then _ else _) => destruct c end.
  - apply inv_bind; [apply inv_yield|intro; apply inv_ret].
  - apply inv_bind; [apply inv_quiet, quietV_pop_backoff|intro r].
    apply inv_bind; [apply inv_emit; reflexivity|intro]. apply IH.
Qed.
Lemma inv_report_check_interval src m : inv (report_check_interval src m).
Proof.
  unfold report_check_interval. apply inv_bind; [apply inv_now|intro n]. apply inv_bind; [|intro; apply inv_ret].
  destruct (s_last_check (m_sched m)) as [[w|mm|c]|]; try apply inv_ret.
  - destruct (w <=? wall n)%Z; [apply inv_report|apply inv_ret].
  - destruct (mono c <=? mono n)%Z; [apply inv_report|apply inv_ret].
Qed.
Lemma inv_record_first_seen plan t : inv (record_first_seen plan t).
Proof.
  unfold record_first_seen. apply inv_bind; [apply inv_quiet, quietV_st_get_str|intro prev].
  assert (Hnew : inv (ok1 <- st_write (SSetStr K_INSTALL_PLAN_ID plan);;
                       (if negb ok1 then ret t
                        else ok2 <- st_set_time K_FIRST_SEEN t;;
                             (if negb ok2 then st_write (SRemove K_INSTALL_PLAN_ID);;; ret t else st_write SCommit;;; ret t)))).
  { apply inv_bind; [apply inv_write|intro ok1]. destruct (negb ok1); [apply inv_ret|].
    apply inv_bind; [apply inv_set_opt|intro ok2]. destruct (negb ok2);
      (apply inv_bind; [apply inv_write|intro; apply inv_ret]). }
  destruct prev as [p|]; [|exact Hnew].
  destruct (bytes_eqb p plan); [|exact Hnew].
  apply inv_bind; [apply inv_quiet, quietV_st_get_time|intro]. apply inv_ret.
Qed.
Lemma inv_report_attempts s : inv (report_attempts_to_successful_install s).
Proof.
  unfold report_attempts_to_successful_install. apply inv_bind; [apply inv_quiet, quietV_st_get_int|intro].
  apply inv_bind; [apply inv_report|intro]. apply inv_bind; [destruct s; apply inv_write|intro]. apply inv_ret.
Qed.

Lemma inv_perform fuel p apps m : inv (perform_update_check fuel p apps m).
Proof.
  unfold perform_update_check.
  apply inv_bind; [apply inv_yield|intro]. apply inv_bind; [apply inv_report_check_interval|intro m0].
  apply inv_bind; [apply inv_quiet, quietV_fresh_guid|intro sess]. apply inv_bind; [apply inv_attempt_loop|].
  intros [[m1 attempts] res]. apply inv_bind; [apply inv_report|intro].
  destruct res as [e|[d|]].
  - apply inv_ret.
  - apply inv_bind; [apply inv_yield|intro].
    destruct (filter uc_ok (d_apps d)) as [|wu0 wur]; [apply inv_bind; [apply inv_yield|intro; apply inv_ret]|].
    apply inv_bind; [apply inv_quiet, quietV_pop_plan|intro pl]. apply inv_bind; [apply inv_emit; reflexivity|intro].
    destruct pl as [plan|].
    2:{ apply inv_bind; [apply inv_yield|intro]. apply inv_bind; [apply inv_yield|intro].
        apply inv_bind; [apply inv_report_event|intro]. apply inv_ret. }
    apply inv_bind; [apply inv_quiet, quietV_pop_can_start|intro dec]. apply inv_bind; [apply inv_emit; reflexivity|intro].
    destruct dec.
    + apply inv_bind; [apply inv_yield|intro]. apply inv_bind; [apply inv_report_event|intro m2].
      apply inv_bind; [apply inv_now|intro t0]. apply inv_bind; [apply inv_record_first_seen|intro fs].
      apply inv_bind; [apply inv_quiet, quietV_pop_perform|intro pa]. apply inv_bind; [apply inv_emit; reflexivity|intro].
      apply inv_bind; [apply inv_iterM; intro; apply inv_yield|intro]. apply inv_bind; [apply inv_now|intro t1].
      apply inv_bind.
      { match goal with |- inv (if ?c then _ else _) => destruct c end; [|apply inv_ret].
        apply inv_bind; [apply inv_report|intro; apply inv_ret]. }
      intro dur. apply inv_bind; [apply inv_quiet, quietV_fresh_guid|intro]. apply inv_bind; [apply inv_maybe_ids|intro b].
      apply inv_bind; [apply inv_do_req|]. intros [m3 rr].
      apply inv_bind; [destruct rr; [apply inv_iterM; intro; apply inv_report|apply inv_ret]|intro].
      apply inv_bind.
      { match goal with |- inv (match ?l with [] => _ | _ => _ end) => destruct l end; [apply inv_ret|apply inv_report_event]. }
      intro m4.
      match goal with |- inv (match ?n with O => _ | S _ => _ end) => destruct n as [|nerr] end.
      * apply inv_bind; [match goal with |- inv (if ?c then _ else _) => destruct c end; [apply inv_report|apply inv_ret]|intro].
        apply inv_bind; [apply inv_set_opt|intro].
        apply inv_bind.
        { match goal with |- inv (match ?x with Some _ => _ | None => _ end) => destruct x end; [|apply inv_ret].
          apply inv_bind; [apply inv_write|intro; apply inv_ret]. }
        intro. apply inv_bind; [apply inv_write|intro]. apply inv_bind; [apply inv_quiet, quietV_pop_reboot_needed|intro rn].
        apply inv_bind; [apply inv_emit; reflexivity|intro]. apply inv_ret.
      * apply inv_bind; [apply inv_iterM; intro; apply inv_yield|intro]. apply inv_bind; [apply inv_yield|intro]. apply inv_ret.
    + apply inv_bind; [apply inv_report_event|intro]. apply inv_bind; [apply inv_yield|intro]. apply inv_ret.
    + apply inv_bind; [apply inv_report_event|intro]. apply inv_ret.
  - apply inv_bind; [apply inv_yield|intro]. apply inv_bind; [apply inv_report_event|intro]. apply inv_ret.
Qed.

Lemma inv_start fuel p m : inv (start_update_check fuel p m).
Proof.
  unfold start_update_check. apply inv_bind; [apply inv_perform|]. intros [m1 res].
  apply inv_bind.
  { destruct res as [e|[rs rb]].
    - apply inv_bind.
      + destruct e as [re| |]; [destruct re; apply inv_ret| |]; (apply inv_bind; [apply inv_now|intro; apply inv_ret]).
      + intros [m2 reason]. apply inv_bind; [apply inv_report|intro; apply inv_ret].
    - apply inv_bind; [apply inv_now|intro n]. apply inv_bind; [apply inv_report|intro].
      apply inv_bind; [destruct (install_success rs); [apply inv_report_attempts|apply inv_ret]|intro]. apply inv_ret. }
  intros [[m2 result] rb]. apply inv_bind; [apply inv_yield|intro]. apply inv_bind; [apply inv_yield|intro].
  apply inv_bind; [apply inv_yield|intro]. apply inv_bind; [apply inv_persist_data|intro]. apply inv_ret.
Qed.

Lemma inv_update_next m : inv (update_next_update_time m).
Proof.
  unfold update_next_update_time. apply inv_bind; [apply inv_quiet, quietV_pop_next_time|intro t].
  apply inv_bind; [apply inv_emit; reflexivity|intro]. apply inv_bind; [apply inv_yield|intro]. apply inv_ret.
Qed.
Lemma inv_make_wait t : inv (make_wait t).
Proof.
  unfold make_wait. destruct (t_min t).
  - apply inv_bind; [apply inv_emit; reflexivity|intro]. apply inv_bind; [apply inv_emit; reflexivity|intro]. apply inv_ret.
  - apply inv_bind; [apply inv_emit; reflexivity|intro]. apply inv_ret.
Qed.
Lemma inv_ping m : inv (ping_omaha m).
Proof.
  unfold ping_omaha. apply inv_bind; [apply inv_quiet, quietV_fresh_guid|intro]. apply inv_bind; [apply inv_quiet, quietV_fresh_guid|intro].
  apply inv_bind; [apply inv_maybe_ids|intro b]. apply inv_bind; [apply inv_do_req|]. intros [m1 res].
  assert (Hf : inv (persist_data (with_ps m1 (set_fails (m_ps m1) (sat_inc_u32 (ps_fails (m_ps m1)))));;;
                    ret (with_ps m1 (set_fails (m_ps m1) (sat_inc_u32 (ps_fails (m_ps m1))))))).
  { apply inv_bind; [apply inv_persist_data|intro; apply inv_ret]. }
  destruct res as [er|[d|]]; [exact Hf| |exact Hf].
  apply inv_bind; [apply inv_now|intro n]. apply inv_bind; [apply inv_yield|intro].
  apply inv_bind; [apply inv_persist_data|intro]. apply inv_ret.
Qed.

(* ---------- taking requests and answering them ---------- *)
Lemma wf11_tail q x l : wf11 q -> out11a q = x :: l -> wf11 {| out11a := l; next11a := next11a q |}.
Proof.
  intros [Hf Hn] Ho. rewrite Ho in Hf, Hn. inversion Hf; subst. inversion Hn; subst. split; assumption.
Qed.
Lemma reply_head q x l r : wf11 q -> out11a q = x :: l ->
  step11a q (AReply x r) = Some {| out11a := l; next11a := next11a q |}.
Proof.
  intros [Hf Hn] Ho. unfold step11a. rewrite Ho. change (x :: l) with ([] ++ x :: l). rewrite existsb_mid.
  rewrite filter_remove_mid; [reflexivity|]. rewrite <- Ho. exact Hn.
Qed.

(* a reply to the request in flight restores the invariant *)
Lemma TG_reply id r : TG (Ifl [id]) (emit (AReply id r)) (fun _ => I11).
Proof.
  apply tripleG_emit. intros q e (Ho & Hn & Hw). cbn [List.app] in Ho. eexists. split; [apply (reply_head q id _ r Hw Ho)|].
  unfold I11, Ifl. cbn [out11a next11a List.app e_cs e_ctl upd_trace]. split; [reflexivity|]. split; [exact Hn|eapply wf11_tail; eassumption].
Qed.

Lemma TG_enter_check : inv enter_check.
Proof.
  intros q0 e q Hm (Ho & Hn & Hw). unfold mst, enter_check in *. cbn [fst snd upd_trace set_cs e_trace e_cs e_ctl c_inq].
  cbn [List.app] in Ho. exists {| out11a := []; next11a := next11a q |}. split.
  - rewrite rev_app_distr, rev_involutive, runmon_app, Hm.
    clear Hm Hn. revert q Ho Hw. induction (c_inq (e_cs e)) as [|[x s] r IH]; intros q Ho Hw; cbn [map runmon fst].
    + destruct q as [o n]. cbn in Ho. subst o. reflexivity.
    + cbn [map fst] in Ho. rewrite (reply_head q x _ AlreadyRunning Hw Ho).
      apply (IH {| out11a := map fst r; next11a := next11a q |}); [reflexivity|eapply wf11_tail; eassumption].
  - unfold I11, Ifl. cbn. split; [reflexivity|]. split; [exact Hn|]. split; constructor.
Qed.

Lemma outer_select_ctl stim : forall pending ctl x r c, outer_select stim pending ctl = Some (x, r, c) ->
  (x = None /\ c = ctl) \/ (exists src, x = Some (src, ctl) /\ c = ctl + 1).
Proof.
  induction stim as [|s stim IH]; intros pending ctl x r c H; cbn [outer_select] in H; [discriminate|].
  destruct s as [i|src|].
  - destruct (nth_error pending i); [|eapply IH; exact H].
    destruct (remove_nth i pending); [inversion H; left; split; reflexivity|eapply IH; exact H].
  - inversion H. right. exists src. split; reflexivity.
  - eapply IH. exact H.
Qed.

(* the wait returns either nothing (a timer) or one request, now in flight *)
Lemma TG_do_outer_select roles :
  TG I11 (do_outer_select roles) (fun sel => match sel with Some (_, id) => Ifl [id] | None => I11 end).
Proof.
  unfold do_outer_select. intros q0 e q Hm (Ho & Hn & Hw). unfold bind, pop_queued, ret, mst in *. cbn [List.app] in Ho.
  destruct (c_inq (e_cs e)) as [|[id src] rq] eqn:Eq.
  - cbn [fst snd].
    destruct (outer_select (e_stim e) roles (e_ctl e)) as [[[[[s id]|] r] c]|] eqn:Es; cbn [fst snd upd_trace set_stim e_trace rev e_cs e_ctl].
    + destruct (outer_select_ctl _ _ _ _ _ _ Es) as [[Hx _]|(s' & Hx & ->)]; [discriminate|]. inversion Hx; subst s' id.
      destruct (step_request q (e_ctl e) s Hw Hn) as [Hs Hw'].
      eexists. split; [rewrite runmon_app, Hm; cbn [runmon]; rewrite Hs; reflexivity|].
      unfold Ifl. cbn [out11a next11a e_cs e_ctl upd_trace set_stim]. rewrite Ho, Eq. cbn [map List.app]. split; [reflexivity|]. split; [apply N.le_refl|].
      rewrite Ho in Hw'. exact Hw'.
    + destruct (outer_select_ctl _ _ _ _ _ _ Es) as [[_ ->]|(s' & Hx & _)]; [|discriminate].
      exists q. split; [exact Hm|]. unfold I11, Ifl. cbn [e_cs e_ctl set_stim]. rewrite Eq. cbn [map List.app]. auto.
    + exists q. split; [exact Hm|exact I].
  - cbn [fst snd set_cs e_trace]. exists q. split; [exact Hm|]. unfold Ifl. cbn [e_cs e_ctl set_cs c_inq List.app]. cbn [map fst] in Ho. auto.
Qed.

Lemma inv_ask_reboot src : inv (ask_reboot_allowed src).
Proof.
  unfold ask_reboot_allowed. apply inv_bind; [apply inv_quiet, quietV_pop_reboot_allowed|intro b].
  apply inv_bind; [apply inv_emit; reflexivity|intro]. apply inv_ret.
Qed.
Lemma TG_handle_in_reboot id sc : TG (Ifl [id]) (handle_in_reboot id sc) (fun _ => I11).
Proof.
  unfold handle_in_reboot. eapply tripleG_bind; [apply TG_reply|]. intro. destruct sc; [apply inv_ask_reboot|apply inv_ret].
Qed.

Definition I11e (q : q11a) (e : env) : Prop := I11 q e /\ c_inq (e_cs e) = [].
Lemma Vst_I11e : Vst I11e.
Proof. intros q e e' H1 H2 [Hi He]. split; [eapply Vst_Ifl; eassumption|congruence]. Qed.

Lemma TG_pop_queued : TG I11 pop_queued (fun o => match o with Some (id, _) => Ifl [id] | None => I11e end).
Proof.
  apply tripleG_silent; [intro e; unfold pop_queued; destruct (c_inq (e_cs e)); reflexivity|].
  intros q e a (Ho & Hn & Hw) Ha. unfold pop_queued in *. cbn [List.app] in Ho. destruct (c_inq (e_cs e)) as [|[id src] r] eqn:Eq; cbn [fst snd] in *; inversion Ha; subst a.
  - split; [|exact Eq]. unfold I11, Ifl. rewrite Eq. auto.
  - unfold Ifl. cbn [e_cs e_ctl set_cs c_inq List.app]. cbn [map fst] in Ho. auto.
Qed.

Lemma I11e_I11 q e : I11e q e -> I11 q e. Proof. intros [H _]. exact H. Qed.

Lemma TG_reboot_loop fuel : forall src pending m, inv (reboot_loop fuel src pending m).
Proof.
  induction fuel as [|f IH]; intros src pending m; cbn [reboot_loop]; [apply inv_halt|].
  eapply tripleG_bind; [apply TG_pop_queued|]. intros [[id sc]|].
  { eapply tripleG_bind; [apply TG_handle_in_reboot|]. intros [|]; [apply inv_ret|apply IH]. }
  eapply tripleG_bind; [apply (TG_quiet _ _ Vst_I11e quietV_pop_stim)|]. intros [i|sc|].
  - eapply tripleG_conseq with (P' := I11); [|intros q e H; apply I11e_I11; exact H|intros a q e H; exact H].
    assert (Hping : inv (m1 <- ping_omaha m;; mt <- update_next_update_time m1;;
                         (let '(m2, t) := mt in roles <- make_wait t;; reboot_loop f src (remove_nth i pending ++ roles) m2))).
    { apply inv_bind; [apply inv_ping|intro m1]. apply inv_bind; [apply inv_update_next|]. intros [m2 t].
      apply inv_bind; [apply inv_make_wait|intro roles]. apply IH. }
    destruct (nth_error pending i) as [[| |]|].
    + destruct (has_ping_roles (remove_nth i pending)); [apply IH|exact Hping].
    + destruct (has_ping_roles (remove_nth i pending)); [apply IH|exact Hping].
    + apply inv_bind; [apply inv_ask_reboot|]. intros [|]; [apply inv_ret|].
      apply inv_bind; [apply inv_emit; reflexivity|intro]. apply IH.
    + apply IH.
  - eapply tripleG_bind with (R := fun id q e => out11a q = [] /\ c_inq (e_cs e) = [] /\ next11a q <= id /\ e_ctl e = id + 1 /\ wf11 q).
    { apply tripleG_silent; [intro e; reflexivity|]. intros q e a [(Ho & Hn & Hw) He] Ha. unfold next_ctl in *. cbn [fst snd] in *. inversion Ha; subst a.
      cbn [e_cs e_ctl set_stim]. rewrite He in Ho. cbn in Ho. auto. }
    intro id. eapply tripleG_bind with (R := fun _ => Ifl [id]).
    { apply tripleG_emit. intros q e (Ho & He & Hn & Hc & Hw). destruct (step_request q id sc Hw Hn) as [Hs Hw']. eexists. split; [exact Hs|].
      unfold Ifl. cbn [out11a next11a e_cs e_ctl upd_trace List.app]. rewrite He, Ho in *. cbn [map List.app] in *. split; [reflexivity|]. split; [rewrite Hc; apply N.le_refl|exact Hw']. }
    intro. eapply tripleG_bind; [apply TG_handle_in_reboot|]. intros [|]; [apply inv_ret|apply IH].
  - eapply tripleG_conseq with (P' := I11); [apply IH|intros q e H; apply I11e_I11; exact H|intros a q e H; exact H].
Qed.

Lemma inv_wait_for_reboot fuel src m : inv (wait_for_reboot fuel src m).
Proof.
  unfold wait_for_reboot. apply inv_bind; [apply inv_ask_reboot|intro ok].
  apply inv_bind.
  { destruct ok; [apply inv_ret|]. apply inv_bind; [apply inv_emit; reflexivity|intro].
    apply inv_bind; [apply inv_update_next|]. intros [m1 t]. apply inv_bind; [apply inv_make_wait|intro roles]. apply TG_reboot_loop. }
  intro m1. apply inv_bind; [apply inv_quiet, quietV_pop_reboot|intro okr]. apply inv_bind; [apply inv_emit; reflexivity|intro]. apply inv_ret.
Qed.

(* the request that woke the machine (if any) is answered before the check starts, or with Throttled *)
Definition Isel (sel : option (isource * N)) : q11a -> env -> Prop :=
  match sel with Some (_, id) => Ifl [id] | None => I11 end.
Lemma Vst_Isel sel : Vst (Isel sel).
Proof. destruct sel as [[s id]|]; apply Vst_Ifl. Qed.

Lemma inv_run_iteration fuel finish start_mono sr m : inv (run_iteration fuel finish start_mono sr m).
Proof.
  unfold run_iteration.
  apply inv_bind.
  { destruct sr; [|apply inv_ret]. apply inv_bind; [apply inv_now|intro n].
    match goal with |- inv (match ?x with Some _ => _ | None => _ end) => destruct x end; [|apply inv_ret].
    apply inv_bind; [apply inv_report|intro]. repeat (apply inv_bind; [apply inv_write|intro]). apply inv_ret. }
  intro sr'. apply inv_bind; [apply inv_update_next|]. intros [m1 t].
  apply inv_bind; [apply inv_make_wait|intro roles].
  eapply tripleG_bind; [apply TG_do_outer_select|]. intro sel. fold (Isel sel).
  eapply tripleG_bind; [apply (TG_quiet _ _ (Vst_Isel sel) quietV_pop_allowed)|]. intro dec.
  eapply tripleG_bind; [apply (TG_emit_boring _ _ (Vst_Isel sel)); reflexivity|]. intro.
  assert (Hrep : forall r, TG (Isel sel) (match sel with Some (_, id) => emit (AReply id r) | None => ret tt end) (fun _ => I11)).
  { intro r. destruct sel as [[s id]|]; [apply TG_reply|apply inv_ret]. }
  destruct dec.
  1,2: (eapply tripleG_bind; [apply Hrep|]; intro; apply inv_bind; [apply TG_enter_check|intro];
        apply inv_bind; [apply inv_start|]; intros [m2 rb]; apply inv_bind; [apply inv_quiet, quietV_set_incheck|intro];
        apply inv_bind; [apply inv_quiet, quietV_take_upgrade|intro upg];
        apply inv_bind; [destruct rb; [apply inv_bind; [apply inv_yield|intro; apply inv_wait_for_reboot]|apply inv_ret]|intro m3];
        apply inv_bind; [apply inv_yield|intro]; apply inv_ret).
  all: (eapply tripleG_bind; [apply Hrep|]; intro; apply inv_ret).
Qed.

Lemma inv_run_loop iters : forall fuel finish start_mono sr m, inv (run_loop iters fuel finish start_mono sr m).
Proof.
  induction iters as [|k IH]; intros; cbn [run_loop]; [apply inv_halt|].
  apply inv_bind; [apply inv_run_iteration|]. intros [m' sr']. apply IH.
Qed.
Lemma inv_run iters fuel m : inv (run iters fuel m).
Proof.
  unfold run. destruct (negb (forallb app_valid (m_apps m))); [apply inv_ret|].
  apply inv_bind; [apply inv_now|intro]. apply inv_bind; [apply inv_quiet, quietV_st_get_time|intro].
  apply inv_bind; [apply inv_quiet, quietV_st_get_str|intro]. apply inv_run_loop.
Qed.
Lemma inv_oneshot fuel m : inv (oneshot fuel m).
Proof. unfold oneshot. apply inv_bind; [apply inv_start|]. intros [m' rb]. apply inv_ret. Qed.

(* a script starts with nothing in flight; its own request ids start at e_ctl *)
Theorem model_accepted_c11a ep cfg url cup apps e :
  e_trace e = [] -> c_inq (e_cs e) = [] ->
  accepts step11a {| out11a := []; next11a := e_ctl e |} (run_case ep cfg url cup apps e) = true.
Proof.
  intros Ht Hq. unfold run_case, accepts.
  set (q0 := {| out11a := []; next11a := e_ctl e |}).
  assert (Hm0 : mst step11a q0 e = Some q0) by (unfold mst; rewrite Ht; reflexivity).
  assert (HI : I11 q0 e).
  { unfold I11, Ifl, q0. cbn. rewrite Hq. split; [reflexivity|]. split; [apply N.le_refl|]. split; constructor. }
  destruct ep.
  - destruct (inv_run (Datatypes.S (length (e_stim e) + length (c_inject (e_cs e)))) (4 + length (e_stim e) + length (c_inject (e_cs e)))
                (build cfg url cup apps (e_store e)) q0 e q0 Hm0 HI) as (q' & Hq' & _).
    destruct (run _ _ _ e) as [r e'] eqn:E. cbn [snd] in Hq'. unfold mst in Hq'. rewrite Hq'. reflexivity.
  - destruct (inv_oneshot (4 + length (e_stim e) + length (c_inject (e_cs e))) (build cfg url cup apps (e_store e)) q0 e q0 Hm0 HI) as (q' & Hq' & _).
    destruct (oneshot _ _ e) as [r e'] eqn:E. cbn [snd] in Hq'. unfold mst in Hq'. rewrite Hq'. reflexivity.
Qed.
