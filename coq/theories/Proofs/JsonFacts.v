(* Proofs/JsonFacts.v — facts about Model/Json.v:
   - parse_print: the parser reads back what the compact printer writes, for
     every well-formed tree (strings valid UTF-8, no float placeholder, no "-0");
   - every iteration of parse_loop consumes input: the explicit stack never
     outgrows the input and the fuel 2*|s|+4 is never the reason for None. *)
Require Import Verif.Base.Bytes Verif.Model.Json Verif.Model.Response Verif.Proofs.BytesFacts.
Open Scope N_scope.
Local Arguments N.eqb : simpl nomatch.
Local Arguments N.leb : simpl nomatch.
Local Arguments N.ltb : simpl nomatch.

(* ------------------------------------------------------------------ *)
(* induction on trees                                                   *)
Section JsonInd.
  Variable P : json -> Prop.
  Hypothesis Hnull : P JNull.
  Hypothesis Hbool : forall b, P (JBool b).
  Hypothesis Hint : forall s n, P (JInt s n).
  Hypothesis Hfloat : P JFloat.
  Hypothesis Hstr : forall o s, P (JStr o s).
  Hypothesis Harr : forall l, Forall P l -> P (JArr l).
  Hypothesis Hobj : forall kvs, Forall (fun x : bytes * bool * json => P (snd x)) kvs -> P (JObj kvs).
  Fixpoint json_ind' (j : json) : P j :=
    match j with
    | JNull => Hnull
    | JBool b => Hbool b
    | JInt s n => Hint s n
    | JFloat => Hfloat
    | JStr o s => Hstr o s
    | JArr l =>
        Harr l ((fix go (l : list json) : Forall P l :=
                   match l with
                   | [] => Forall_nil _
                   | x :: r => Forall_cons _ (json_ind' x) (go r)
                   end) l)
    | JObj kvs =>
        Hobj kvs ((fix go (l : list (bytes * bool * json)) : Forall (fun x => P (snd x)) l :=
                     match l with
                     | [] => Forall_nil _
                     | x :: r => Forall_cons _ (json_ind' (snd x)) (go r)
                     end) kvs)
    end.
End JsonInd.

(* ------------------------------------------------------------------ *)
(* strings                                                              *)
Lemma psb_char c f rest ok acc :
  parse_str_body (S f) (esc_char c ++ rest) ok acc = parse_str_body f rest ok (c :: acc).
Proof.
  unfold esc_char.
  destruct (c =? 34) eqn:E1; [apply N.eqb_eq in E1; subst; reflexivity|].
  destruct (c =? 92) eqn:E2; [apply N.eqb_eq in E2; subst; reflexivity|].
  destruct (c =? 8) eqn:E3; [apply N.eqb_eq in E3; subst; reflexivity|].
  destruct (c =? 12) eqn:E4; [apply N.eqb_eq in E4; subst; reflexivity|].
  destruct (c =? 10) eqn:E5; [apply N.eqb_eq in E5; subst; reflexivity|].
  destruct (c =? 13) eqn:E6; [apply N.eqb_eq in E6; subst; reflexivity|].
  destruct (c =? 9) eqn:E7; [apply N.eqb_eq in E7; subst; reflexivity|].
  destruct (c <? 32) eqn:E8.
  - apply N.ltb_lt in E8.
    assert (Hq : c / 16 < 16) by (apply N.div_lt_upper_bound; lia).
    assert (Hm : c mod 16 < 16) by (apply N.mod_lt; lia).
    cbn [app parse_str_body]. cbn.
    rewrite ?(hexval_hexdigit _ Hq), ?(hexval_hexdigit _ Hm).
    assert (Hu : (48 - 48) * 4096 + (48 - 48) * 256 + c / 16 * 16 + c mod 16 = c).
    { assert (Hdm := N.div_mod c 16 ltac:(lia)). lia. }
    rewrite Hu.
    replace (55296 <=? c) with false by (symmetry; apply N.leb_gt; lia).
    replace (56320 <=? c) with false by (symmetry; apply N.leb_gt; lia).
    cbn [andb]. unfold utf8_encode.
    replace (c <? 128) with true by (symmetry; apply N.ltb_lt; lia).
    reflexivity.
  - cbn [app parse_str_body]. rewrite E1, E2, E8. reflexivity.
Qed.

Lemma psb_print s : forall f r ok acc, (length s < f)%nat ->
  parse_str_body f (flat_map esc_char s ++ 34 :: r) ok acc = Some (ok, rev acc ++ s, r).
Proof.
  induction s as [|c s IH]; intros f r ok acc Hf.
  - destruct f as [|f]; [inversion Hf|]. cbn [flat_map app]. cbn. rewrite app_nil_r. reflexivity.
  - destruct f as [|f]; [inversion Hf|]. cbn [flat_map]. rewrite <- app_assoc, psb_char.
    rewrite IH by (cbn [length] in Hf; lia). cbn [rev]. rewrite <- app_assoc. reflexivity.
Qed.

Lemma esc_char_nonempty c : (1 <= length (esc_char c))%nat.
Proof. unfold esc_char. repeat match goal with |- context [if ?b then _ else _] => destruct b end; cbn; lia. Qed.

Lemma flat_map_esc_length s : (length s <= length (flat_map esc_char s))%nat.
Proof.
  induction s as [|c s IH]; [cbn; lia|]. cbn [flat_map length]. rewrite app_length.
  pose proof (esc_char_nonempty c). lia.
Qed.

Lemma parse_string_print s r :
  parse_string (flat_map esc_char s ++ 34 :: r) = Some (utf8_valid s, s, r).
Proof.
  unfold parse_string. rewrite psb_print.
  - reflexivity.
  - rewrite app_length. pose proof (flat_map_esc_length s). cbn [length]. lia.
Qed.

Lemma print_string_app s rest : print_string s ++ rest = 34 :: (flat_map esc_char s ++ 34 :: rest).
Proof. unfold print_string. cbn [app]. rewrite <- app_assoc. reflexivity. Qed.

(* ------------------------------------------------------------------ *)
(* numbers                                                              *)
(* what may follow a value for the number scanner to stop where the printer stopped *)
Definition follow_ok (rest : bytes) : Prop :=
  match rest with
  | [] => True
  | c :: _ => is_digit c = false /\ c <> 46 /\ c <> 101 /\ c <> 69
  end.

Lemma take_digits_app ds rest :
  all_digits ds = true -> follow_ok rest -> take_digits (ds ++ rest) = (ds, rest).
Proof.
  induction ds as [|d ds IH]; intros Hd Hf.
  - cbn [app]. destruct rest as [|c r]; [reflexivity|]. destruct Hf as (Hc & _).
    cbn [take_digits]. rewrite Hc. reflexivity.
  - cbn [all_digits forallb] in Hd. apply andb_true_iff in Hd as [H1 H2].
    cbn [app take_digits]. rewrite H1, IH by assumption. reflexivity.
Qed.

Lemma parse_number_print neg n rest :
  follow_ok rest -> parse_number neg (print_dec n ++ rest) = Some (JInt neg n, rest).
Proof.
  intro Hf. destruct (print_dec_canonical n) as (Hne & Had & Hv & Hz & Hnz).
  unfold parse_number. rewrite take_digits_app by assumption.
  destruct (print_dec n) as [|d0 dr] eqn:Hp; [congruence|].
  assert (Hlead : (d0 =? 48) && negb (match dr with [] => true | _ => false end) = false).
  { destruct (N.eq_dec n 0) as [H0|H0].
    - specialize (Hz H0). inversion Hz; subst. reflexivity.
    - destruct (Hnz H0) as (c & r & Heq & Hc). inversion Heq; subst.
      apply N.eqb_neq in Hc. rewrite Hc. reflexivity. }
  rewrite Hlead.
  destruct rest as [|c r].
  - rewrite Hv. reflexivity.
  - destruct Hf as (_ & H46 & H101 & H69).
    match goal with
    | |- match ?X with Some _ => _ | None => _ end = _ => assert (E : X = Some (false, c :: r))
    end.
    { destruct c as [|p]; [reflexivity|].
      do 6 (destruct p as [p|p|]; try reflexivity). congruence. }
    rewrite E.
    apply N.eqb_neq in H101, H69. rewrite H101, H69. cbn [orb]. rewrite Hv. reflexivity.
Qed.

(* ------------------------------------------------------------------ *)
(* one iteration of the loop on each kind of token                      *)
Lemma pl_null f stack rest :
  parse_loop (S f) PValue stack (s2b "null" ++ rest) = parse_loop f (PAfter JNull) stack rest.
Proof. reflexivity. Qed.
Lemma pl_true f stack rest :
  parse_loop (S f) PValue stack (s2b "true" ++ rest) = parse_loop f (PAfter (JBool true)) stack rest.
Proof. reflexivity. Qed.
Lemma pl_false f stack rest :
  parse_loop (S f) PValue stack (s2b "false" ++ rest) = parse_loop f (PAfter (JBool false)) stack rest.
Proof. reflexivity. Qed.

Lemma pl_string f stack s rest :
  parse_loop (S f) PValue stack (print_string s ++ rest) = parse_loop f (PAfter (JStr (utf8_valid s) s)) stack rest.
Proof.
  rewrite print_string_app. cbn [parse_loop skip_ws]. cbn.
  rewrite parse_string_print. reflexivity.
Qed.

Lemma pl_minus f stack r :
  parse_loop (S f) PValue stack (45 :: r) =
  match parse_number true r with Some (v, r') => parse_loop f (PAfter v) stack r' | None => None end.
Proof. reflexivity. Qed.

Lemma digit_range d : is_digit d = true -> 48 <= d <= 57.
Proof. unfold is_digit. intro H. apply andb_true_iff in H as [H1 H2]. apply N.leb_le in H1, H2. lia. Qed.

Ltac eqb_false d :=
  repeat match goal with
         | |- context [d =? ?x] => replace (d =? x) with false by (symmetry; apply N.eqb_neq; lia)
         end.

Lemma digit_not_ws d : is_digit d = true -> is_ws d = false.
Proof. intro H. apply digit_range in H. unfold is_ws. eqb_false d. reflexivity. Qed.

Lemma pl_digit f stack d r :
  is_digit d = true ->
  parse_loop (S f) PValue stack (d :: r) =
  match parse_number false (d :: r) with Some (v, r') => parse_loop f (PAfter v) stack r' | None => None end.
Proof.
  intro H. pose proof (digit_range d H) as Hr. pose proof (digit_not_ws d H) as Hw.
  cbn [parse_loop skip_ws]. rewrite Hw. eqb_false d. rewrite H. reflexivity.
Qed.

Lemma pl_arr_empty f stack rest :
  parse_loop (S f) PValue stack (91 :: 93 :: rest) = parse_loop f (PAfter (JArr [])) stack rest.
Proof. reflexivity. Qed.

Lemma pl_arr_open f stack c t :
  is_ws c = false -> c <> 93 ->
  parse_loop (S f) PValue stack (91 :: c :: t) = parse_loop f PValue (FArr [] :: stack) (c :: t).
Proof.
  intros Hw Hc. cbn [parse_loop skip_ws]. cbn. rewrite Hw.
  destruct c as [|p]; [reflexivity|].
  do 7 (destruct p as [p|p|]; try reflexivity). congruence.
Qed.

Lemma pl_obj_empty f stack rest :
  parse_loop (S f) PValue stack (123 :: 125 :: rest) = parse_loop f (PAfter (JObj [])) stack rest.
Proof. reflexivity. Qed.

Lemma pl_obj_open f stack key rest :
  parse_loop (S f) PValue stack (123 :: print_string key ++ 58 :: rest)
  = parse_loop f PValue (FObj [] key (utf8_valid key) :: stack) rest.
Proof.
  rewrite print_string_app. cbn [parse_loop skip_ws]. cbn.
  rewrite parse_string_print. reflexivity.
Qed.

Lemma pa_arr_comma f v acc stk r :
  parse_loop (S f) (PAfter v) (FArr acc :: stk) (44 :: r) = parse_loop f PValue (FArr (v :: acc) :: stk) r.
Proof. reflexivity. Qed.
Lemma pa_arr_close f v acc stk r :
  parse_loop (S f) (PAfter v) (FArr acc :: stk) (93 :: r) = parse_loop f (PAfter (JArr (rev (v :: acc)))) stk r.
Proof. reflexivity. Qed.
Lemma pa_obj_close f v acc key kok stk r :
  parse_loop (S f) (PAfter v) (FObj acc key kok :: stk) (125 :: r)
  = parse_loop f (PAfter (JObj (rev ((key, kok, v) :: acc)))) stk r.
Proof. reflexivity. Qed.
Lemma pa_obj_comma f v acc key kok stk key2 rest :
  parse_loop (S f) (PAfter v) (FObj acc key kok :: stk) (44 :: print_string key2 ++ 58 :: rest)
  = parse_loop f PValue (FObj ((key, kok, v) :: acc) key2 (utf8_valid key2) :: stk) rest.
Proof.
  rewrite print_string_app. cbn [parse_loop skip_ws]. cbn.
  rewrite parse_string_print. reflexivity.
Qed.
Lemma pa_done f v s : parse_loop (S f) (PAfter v) [] s = Some (v, s).
Proof. reflexivity. Qed.

(* ------------------------------------------------------------------ *)
(* the printer, with its two local loops named                          *)
Fixpoint print_elems (l : list json) : bytes :=
  match l with
  | [] => []
  | [x] => print_json x
  | x :: r => print_json x ++ 44 :: print_elems r
  end.
Fixpoint print_members (l : list (bytes * bool * json)) : bytes :=
  match l with
  | [] => []
  | [(key, _, v)] => print_string key ++ 58 :: print_json v
  | (key, _, v) :: r => print_string key ++ 58 :: print_json v ++ 44 :: print_members r
  end.
Lemma print_arr l : print_json (JArr l) = 91 :: print_elems l ++ [93].
Proof. reflexivity. Qed.
Lemma print_obj l : print_json (JObj l) = 123 :: print_members l ++ [125].
Proof. reflexivity. Qed.

(* first byte of a printed value: never white space, never ']' *)
Lemma print_head j : exists c t, print_json j = c :: t /\ is_ws c = false /\ c <> 93.
Proof.
  destruct j as [|b|neg n| |o s|l|kvs].
  - eexists _, _. split; [reflexivity|]. split; [reflexivity|discriminate].
  - destruct b; eexists _, _; (split; [reflexivity|]); (split; [reflexivity|discriminate]).
  - destruct neg.
    + eexists _, _. split; [reflexivity|]. split; [reflexivity|discriminate].
    + destruct (canonical_dec_first_digit _ _ (print_dec_canonical n)) as (c & r & Hp & Hd).
      exists c, r. cbn [print_json app]. split; [assumption|].
      split; [apply digit_not_ws; assumption|]. apply digit_range in Hd. lia.
  - eexists _, _. split; [reflexivity|]. split; [reflexivity|discriminate].
  - eexists _, _. split; [reflexivity|]. split; [reflexivity|discriminate].
  - eexists _, _. rewrite print_arr. split; [reflexivity|]. split; [reflexivity|discriminate].
  - eexists _, _. rewrite print_obj. split; [reflexivity|]. split; [reflexivity|discriminate].
Qed.

(* ------------------------------------------------------------------ *)
(* iterations needed for a printed value                                *)
Fixpoint steps (j : json) : nat :=
  match j with
  | JArr l => S (fold_right (fun y a => S (steps y) + a)%nat O l)
  | JObj kvs => S (fold_right (fun y a => S (steps (snd y)) + a)%nat O kvs)
  | _ => 1%nat
  end.
Definition elems_steps (l : list json) : nat := fold_right (fun y a => S (steps y) + a)%nat O l.
Definition members_steps (l : list (bytes * bool * json)) : nat :=
  fold_right (fun y a => S (steps (snd y)) + a)%nat O l.

Definition loop_ok (j : json) : Prop :=
  forall stack rest fuel, follow_ok rest ->
    parse_loop (steps j + fuel) PValue stack (print_json j ++ rest) = parse_loop fuel (PAfter j) stack rest.

Lemma follow_ok_comma r : follow_ok (44 :: r).
Proof. cbn. repeat split; discriminate. Qed.
Lemma follow_ok_rbracket r : follow_ok (93 :: r).
Proof. cbn. repeat split; discriminate. Qed.
Lemma follow_ok_rbrace r : follow_ok (125 :: r).
Proof. cbn. repeat split; discriminate. Qed.

Lemma loop_elems l :
  Forall loop_ok l -> l <> [] -> forall acc stk rest fuel,
  parse_loop (elems_steps l + fuel) PValue (FArr acc :: stk) (print_elems l ++ 93 :: rest)
  = parse_loop fuel (PAfter (JArr (rev acc ++ l))) stk rest.
Proof.
  induction l as [|x l IH]; intros HF Hne acc stk rest fuel; [congruence|].
  inversion HF as [|? ? Hx Hl]; subst.
  destruct l as [|y l'].
  - cbn [print_elems elems_steps fold_right].
    replace (S (steps x) + 0 + fuel)%nat with (steps x + S fuel)%nat by lia.
    rewrite (Hx _ _ _ (follow_ok_rbracket rest)).
    rewrite pa_arr_close. cbn [rev]. reflexivity.
  - change (print_elems (x :: y :: l')) with (print_json x ++ 44 :: print_elems (y :: l')).
    change (elems_steps (x :: y :: l')) with (S (steps x) + elems_steps (y :: l'))%nat.
    rewrite <- app_assoc. cbn [app].
    replace (S (steps x) + elems_steps (y :: l') + fuel)%nat
      with (steps x + S (elems_steps (y :: l') + fuel))%nat by lia.
    rewrite (Hx _ _ _ (follow_ok_comma _)).
    rewrite pa_arr_comma.
    rewrite (IH Hl ltac:(discriminate)).
    cbn [rev]. rewrite <- app_assoc. reflexivity.
Qed.

Definition member_ok (x : bytes * bool * json) : Prop :=
  snd (fst x) = true /\ utf8_valid (fst (fst x)) = true /\ loop_ok (snd x).

Lemma loop_members l :
  Forall member_ok l -> forall key kok v0 acc stk rest fuel,
  loop_ok v0 ->
  parse_loop (S (steps v0) + members_steps l + fuel) PValue (FObj acc key kok :: stk)
             (print_json v0 ++ (match l with [] => [] | _ => 44 :: print_members l end) ++ 125 :: rest)
  = parse_loop fuel (PAfter (JObj (rev acc ++ (key, kok, v0) :: l))) stk rest.
Proof.
  induction l as [|[[k2 o2] v2] l IH]; intros HF key kok v0 acc stk rest fuel Hv0.
  - cbn [members_steps fold_right app].
    replace (S (steps v0) + 0 + fuel)%nat with (steps v0 + S fuel)%nat by lia.
    rewrite (Hv0 _ _ _ (follow_ok_rbrace rest)).
    rewrite pa_obj_close. cbn [rev]. reflexivity.
  - inversion HF as [|? ? Hx Hl]; subst. destruct Hx as (Ho & Hk & Hv2). cbn [fst snd] in Ho, Hk, Hv2. subst o2.
    change (members_steps ((k2, true, v2) :: l)) with (S (steps v2) + members_steps l)%nat.
    replace (S (steps v0) + (S (steps v2) + members_steps l) + fuel)%nat
      with (steps v0 + S (S (steps v2) + members_steps l + fuel))%nat by lia.
    cbn [app].
    rewrite (Hv0 _ _ _ (follow_ok_comma _)).
    assert (Hpm : print_members ((k2, true, v2) :: l) ++ 125 :: rest
                  = print_string k2 ++ 58 :: (print_json v2 ++ (match l with [] => [] | _ => 44 :: print_members l end) ++ 125 :: rest)).
    { destruct l as [|z l'].
      - cbn [print_members app]. rewrite <- app_assoc. cbn [app]. reflexivity.
      - change (print_members ((k2, true, v2) :: z :: l'))
          with (print_string k2 ++ 58 :: print_json v2 ++ 44 :: print_members (z :: l')).
        rewrite <- app_assoc. cbn [app]. rewrite <- app_assoc. reflexivity. }
    rewrite Hpm, pa_obj_comma, Hk.
    rewrite (IH Hl). cbn [rev]. rewrite <- app_assoc. reflexivity.
    exact Hv2.
Qed.

Lemma wf_json_arr l : wf_json (JArr l) = forallb wf_json l.
Proof. reflexivity. Qed.
Lemma wf_json_obj l :
  wf_json (JObj l) = forallb (fun x => snd (fst x) && utf8_valid (fst (fst x)) && wf_json (snd x)) l.
Proof. reflexivity. Qed.

Lemma loop_print j : wf_json j = true -> loop_ok j.
Proof.
  induction j as [|b|neg n| |o s|l IH|kvs IH] using json_ind'; intro Hwf; unfold loop_ok; intros stack rest fuel Hf.
  - apply pl_null.
  - destruct b; [apply pl_true|apply pl_false].
  - cbn [steps plus print_json]. destruct neg.
    + cbn [app]. rewrite pl_minus, parse_number_print by assumption. reflexivity.
    + cbn [app].
      destruct (canonical_dec_first_digit _ _ (print_dec_canonical n)) as (c & r & Hp & Hd).
      pose proof (parse_number_print false n rest Hf) as Hn. rewrite Hp in *. cbn [app] in *.
      rewrite pl_digit, Hn by assumption. reflexivity.
  - discriminate.
  - cbn [wf_json] in Hwf. apply andb_true_iff in Hwf as [Ho Hu]. subst o.
    cbn [steps plus print_json]. rewrite pl_string, Hu. reflexivity.
  - rewrite wf_json_arr in Hwf. rewrite print_arr.
    destruct l as [|x l'].
    + cbn [print_elems app steps fold_right plus]. apply pl_arr_empty.
    + assert (HF : Forall loop_ok (x :: l')).
      { rewrite forallb_forall in Hwf. rewrite Forall_forall in *. intros y Hy. apply IH; [assumption|]. apply Hwf; assumption. }
      change (steps (JArr (x :: l'))) with (S (elems_steps (x :: l'))).
      cbn [app]. rewrite <- app_assoc. cbn [app].
      destruct (print_head x) as (c & t & Hp & Hw & Hc).
      assert (Hhd : exists t', print_elems (x :: l') ++ 93 :: rest = c :: t').
      { destruct l' as [|y l'']; cbn [print_elems]; rewrite Hp; cbn [app]; eexists; reflexivity. }
      destruct Hhd as (t' & Ht'). cbn [plus].
      rewrite Ht', pl_arr_open, <- Ht' by assumption.
      rewrite (loop_elems _ HF ltac:(discriminate)). reflexivity.
  - rewrite wf_json_obj in Hwf. rewrite print_obj.
    destruct kvs as [|[[k1 o1] v1] l'].
    + cbn [print_members app steps fold_right plus]. apply pl_obj_empty.
    + assert (HF : Forall member_ok ((k1, o1, v1) :: l')).
      { rewrite forallb_forall in Hwf. rewrite Forall_forall in *. intros y Hy.
        specialize (Hwf y Hy). apply andb_true_iff in Hwf as [Hw1 Hw3]. apply andb_true_iff in Hw1 as [Hw1 Hw2].
        repeat split; try assumption. apply IH; assumption. }
      inversion HF as [|? ? Hx Hl]; subst. destruct Hx as (Ho & Hk & Hv1). cbn [fst snd] in Ho, Hk, Hv1. subst o1.
      change (steps (JObj ((k1, true, v1) :: l'))) with (S (S (steps v1) + members_steps l'))%nat.
      cbn [app]. rewrite <- app_assoc. cbn [app].
      assert (Hpm : print_members ((k1, true, v1) :: l') ++ 125 :: rest
                    = print_string k1 ++ 58 :: (print_json v1 ++ (match l' with [] => [] | _ => 44 :: print_members l' end) ++ 125 :: rest)).
      { destruct l' as [|z l''].
        - cbn [print_members app]. rewrite <- app_assoc. cbn [app]. reflexivity.
        - change (print_members ((k1, true, v1) :: z :: l''))
            with (print_string k1 ++ 58 :: print_json v1 ++ 44 :: print_members (z :: l'')).
          rewrite <- app_assoc. cbn [app]. rewrite <- app_assoc. reflexivity. }
      cbn [plus]. rewrite Hpm, pl_obj_open, Hk.
      exact (loop_members _ Hl k1 true v1 [] stack rest fuel Hv1).
Qed.

(* ------------------------------------------------------------------ *)
(* the fuel of parse_json covers the iterations                         *)
Lemma print_json_nonempty j : (1 <= length (print_json j))%nat.
Proof. destruct (print_head j) as (c & t & Hp & _). rewrite Hp. cbn [length]. lia. Qed.

Lemma elems_steps_bound l :
  Forall (fun j => (steps j <= 2 * length (print_json j))%nat) l ->
  (elems_steps l <= 2 * length (print_elems l) + 1)%nat.
Proof.
  induction l as [|x l IH]; intro HF; [cbn; lia|].
  inversion HF as [|? ? Hx Hl]; subst. specialize (IH Hl).
  destruct l as [|y l'].
  - cbn [elems_steps fold_right print_elems]. lia.
  - change (elems_steps (x :: y :: l')) with (S (steps x) + elems_steps (y :: l'))%nat.
    change (print_elems (x :: y :: l')) with (print_json x ++ 44 :: print_elems (y :: l')).
    rewrite app_length. cbn [length]. lia.
Qed.

Lemma members_steps_bound l :
  Forall (fun x : bytes * bool * json => (steps (snd x) <= 2 * length (print_json (snd x)))%nat) l ->
  (members_steps l <= 2 * length (print_members l) + 1)%nat.
Proof.
  induction l as [|[[k1 o1] v1] l IH]; intro HF; [cbn; lia|].
  inversion HF as [|? ? Hx Hl]; subst. specialize (IH Hl). cbn [snd] in Hx.
  destruct l as [|y l'].
  - cbn [members_steps fold_right print_members snd]. rewrite app_length. cbn [length]. lia.
  - change (members_steps ((k1, o1, v1) :: y :: l')) with (S (steps v1) + members_steps (y :: l'))%nat.
    change (print_members ((k1, o1, v1) :: y :: l'))
      with (print_string k1 ++ 58 :: print_json v1 ++ 44 :: print_members (y :: l')).
    rewrite app_length. cbn [length]. rewrite app_length. cbn [length]. lia.
Qed.

Lemma steps_bound j : (steps j <= 2 * length (print_json j))%nat.
Proof.
  induction j as [|b|neg n| |o s|l IH|kvs IH] using json_ind'.
  all: try (match goal with |- (steps ?x <= _)%nat => pose proof (print_json_nonempty x) end;
            change (steps _) with 1%nat; lia).
  - change (steps (JArr l)) with (S (elems_steps l)). rewrite print_arr.
    pose proof (elems_steps_bound l IH). cbn [length]. rewrite app_length. cbn [length]. lia.
  - change (steps (JObj kvs)) with (S (members_steps kvs)). rewrite print_obj.
    pose proof (members_steps_bound kvs IH). cbn [length]. rewrite app_length. cbn [length]. lia.
Qed.

(* ------------------------------------------------------------------ *)
Theorem parse_print j : wf_json j = true -> parse_json (print_json j) = Some j.
Proof.
  intro Hwf. unfold parse_json.
  pose proof (steps_bound j) as Hb.
  replace (2 * length (print_json j) + 4)%nat
    with (steps j + S (2 * length (print_json j) + 3 - steps j))%nat by lia.
  rewrite <- (app_nil_r (print_json j)) at 2.
  rewrite (loop_print j Hwf [] [] _ I).
  rewrite pa_done. reflexivity.
Qed.

(* with trailing white space, as from_slice allows *)
Lemma skip_ws_all ws : forallb is_ws ws = true -> skip_ws ws = [].
Proof.
  induction ws as [|c r IH]; [reflexivity|]. cbn [forallb skip_ws]. intro H.
  apply andb_true_iff in H as [H1 H2]. rewrite H1. apply IH. assumption.
Qed.

(* ------------------------------------------------------------------ *)
(* one iteration of parse_loop as a function of its own: every iteration
   consumes at least one byte and pushes at most one frame, hence
   - the explicit stack is never higher than the input is long,
   - |s|+1 iterations always suffice: the fuel 2*|s|+4 of parse_json is never
     the reason for a None (the parser is total without an artificial error). *)
Inductive pres :=
| PNext (st : pstate) (stack : list frame) (s : bytes)
| PDone (r : option (json * bytes)).

Definition pstep (st : pstate) (stack : list frame) (s : bytes) : pres :=
      match st with
      | PValue =>
          match skip_ws s with
          | [] => PDone None
          | c :: r =>
              if c =? 110 then match strip_prefix (s2b "ull") r with Some r' => PNext (PAfter JNull) stack r' | None => PDone None end
              else if c =? 116 then match strip_prefix (s2b "rue") r with Some r' => PNext (PAfter (JBool true)) stack r' | None => PDone None end
              else if c =? 102 then match strip_prefix (s2b "alse") r with Some r' => PNext (PAfter (JBool false)) stack r' | None => PDone None end
              else if c =? 34 then
                match parse_string r with
                | Some (ok, b, r') => PNext (PAfter (JStr ok b)) stack r'
                | None => PDone None
                end
              else if c =? 45 then
                match parse_number true r with Some (v, r') => PNext (PAfter v) stack r' | None => PDone None end
              else if is_digit c then
                match parse_number false (c :: r) with Some (v, r') => PNext (PAfter v) stack r' | None => PDone None end
              else if c =? 91 then
                match skip_ws r with
                | 93 :: r' => PNext (PAfter (JArr [])) stack r'
                | _ => PNext PValue (FArr [] :: stack) r
                end
              else if c =? 123 then
                match skip_ws r with
                | 125 :: r' => PNext (PAfter (JObj [])) stack r'
                | 34 :: r' =>
                    match parse_string r' with
                    | Some (kok, k, r2) =>
                        match skip_ws r2 with
                        | 58 :: r3 => PNext PValue (FObj [] k kok :: stack) r3
                        | _ => PDone None
                        end
                    | None => PDone None
                    end
                | _ => PDone None
                end
              else PDone None
          end
      | PAfter v =>
          match stack with
          | [] => PDone (Some (v, s))
          | FArr acc :: stk =>
              match skip_ws s with
              | 44 :: r => PNext PValue (FArr (v :: acc) :: stk) r
              | 93 :: r => PNext (PAfter (JArr (rev (v :: acc)))) stk r
              | _ => PDone None
              end
          | FObj acc k kok :: stk =>
              match skip_ws s with
              | 44 :: r =>
                  match skip_ws r with
                  | 34 :: r' =>
                      match parse_string r' with
                      | Some (kok2, k2, r2) =>
                          match skip_ws r2 with
                          | 58 :: r3 => PNext PValue (FObj ((k, kok, v) :: acc) k2 kok2 :: stk) r3
                          | _ => PDone None
                          end
                      | None => PDone None
                      end
                  | _ => PDone None
                  end
              | 125 :: r => PNext (PAfter (JObj (rev ((k, kok, v) :: acc)))) stk r
              | _ => PDone None
              end
          end
      end.

Ltac break_goal :=
  repeat match goal with
         | |- context [match ?x with _ => _ end] =>
             lazymatch x with
             | context [match _ with _ => _ end] => fail
             | _ => destruct x
             end
         end.

Lemma parse_loop_step f st stack s :
  parse_loop (S f) st stack s =
  match pstep st stack s with PNext st' stack' s' => parse_loop f st' stack' s' | PDone r => r end.
Proof. unfold pstep. cbn [parse_loop]. break_goal; reflexivity. Qed.

Ltac break_inner H :=
  repeat match type of H with
         | context [match ?x with _ => _ end] =>
             lazymatch x with
             | context [match _ with _ => _ end] => fail
             | _ => destruct x eqn:?; cbv beta iota in H; try discriminate H
             end
         end.

Lemma skip_ws_len s : (length (skip_ws s) <= length s)%nat.
Proof. induction s as [|c r IH]; [cbn; lia|]. cbn [skip_ws]. destruct (is_ws c); cbn [length] in *; lia. Qed.
Lemma skip_ws_len_eq s t : skip_ws s = t -> (length t <= length s)%nat.
Proof. intros <-. apply skip_ws_len. Qed.

Lemma strip_prefix_len p s r : strip_prefix p s = Some r -> (length r <= length s)%nat.
Proof.
  unfold strip_prefix. destruct (starts_with p s); [|discriminate]. intro H. inversion H; subst.
  rewrite skipn_length. lia.
Qed.

Lemma hex4_len s u r : hex4 s = Some (u, r) -> (length r + 4 = length s)%nat.
Proof. unfold hex4. intro H. break_inner H. inversion H; subst. cbn [length]. lia. Qed.

Lemma parse_str_body_len f : forall s ok acc ok' b r,
  parse_str_body f s ok acc = Some (ok', b, r) -> (length r < length s)%nat.
Proof.
  induction f as [|f IH]; intros s ok acc ok' b r H; [discriminate|].
  cbn [parse_str_body] in H. break_inner H;
    repeat match goal with
           | E : hex4 _ = Some _ |- _ => apply hex4_len in E
           end;
    try (inversion H; subst; cbn [length]; lia);
    apply IH in H; cbn [length] in *; lia.
Qed.

Lemma parse_string_len s ok b r : parse_string s = Some (ok, b, r) -> (length r < length s)%nat.
Proof.
  unfold parse_string. destruct (parse_str_body (S (length s)) s true []) as [[[o b'] r']|] eqn:E; [|discriminate].
  intro H. inversion H; subst. eapply parse_str_body_len. exact E.
Qed.

Lemma take_digits_len s : forall d t, take_digits s = (d, t) -> (length d + length t = length s)%nat.
Proof.
  induction s as [|c r IH]; intros d t H; cbn [take_digits] in H.
  - inversion H. reflexivity.
  - destruct (is_digit c).
    + destruct (take_digits r) as [d' t'] eqn:E. inversion H; subst. specialize (IH _ _ eq_refl). cbn [length]. lia.
    + inversion H; subst. reflexivity.
Qed.

Lemma parse_number_len neg s v r : parse_number neg s = Some (v, r) -> (length r < length s)%nat.
Proof.
  unfold parse_number. intro H.
  destruct (take_digits s) as [ds t] eqn:E0. apply take_digits_len in E0.
  break_inner H;
    repeat match goal with
           | E : take_digits _ = _ |- _ => apply take_digits_len in E
           end;
    inversion H; subst; cbn [length] in *; lia.
Qed.

Lemma pstep_consumes st stack s st' stack' s' :
  pstep st stack s = PNext st' stack' s' ->
  (length s' < length s)%nat /\ (length stack' <= S (length stack))%nat.
Proof.
  intro H. unfold pstep in H. break_inner H; inversion H; subst; clear H;
    repeat match goal with
           | E : skip_ws _ = _ |- _ => apply skip_ws_len_eq in E
           | E : strip_prefix _ _ = Some _ |- _ => apply strip_prefix_len in E
           | E : parse_string _ = Some _ |- _ => apply parse_string_len in E
           | E : parse_number _ _ = Some _ |- _ => apply parse_number_len in E
           end;
    cbn [length] in *; lia.
Qed.

(* fuel: any two amounts above the input length give the same result *)
Lemma parse_loop_fuel n : forall st stack s f1 f2,
  (length s < n)%nat -> (n <= f1)%nat -> (n <= f2)%nat ->
  parse_loop f1 st stack s = parse_loop f2 st stack s.
Proof.
  induction n as [|n IH]; intros st stack s f1 f2 Hs H1 H2; [lia|].
  destruct f1 as [|f1]; [lia|]. destruct f2 as [|f2]; [lia|].
  rewrite !parse_loop_step. destruct (pstep st stack s) as [st' stack' s'|r] eqn:E; [|reflexivity].
  apply pstep_consumes in E as [E _]. apply IH; lia.
Qed.

Theorem fuel_never_exhausted s extra :
  parse_loop (2 * length s + 4 + extra) PValue [] s = parse_loop (2 * length s + 4) PValue [] s.
Proof. apply (parse_loop_fuel (S (length s))); lia. Qed.

(* configurations met while parsing *)
Inductive reach : pstate * list frame * bytes -> pstate * list frame * bytes -> Prop :=
| reach_refl c : reach c c
| reach_step st stack s st' stack' s' c :
    pstep st stack s = PNext st' stack' s' -> reach (st', stack', s') c -> reach (st, stack, s) c.

Lemma reach_bound c c' :
  reach c c' ->
  (length (snd (fst c')) + length (snd c') <= length (snd (fst c)) + length (snd c))%nat.
Proof.
  induction 1 as [c|st stack s st' stack' s' c E _ IH]; [lia|].
  apply pstep_consumes in E as [E1 E2]. cbn [fst snd] in *. lia.
Qed.

Theorem stack_never_exceeds_input s st stack rest :
  reach (PValue, [], s) (st, stack, rest) -> (length stack + length rest <= length s)%nat.
Proof. intro H. apply reach_bound in H. cbn [fst snd length] in H. lia. Qed.
