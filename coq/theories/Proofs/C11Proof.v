(* Proofs/C11Proof.v — every model trace is accepted by step11x (Model/Monitors.v): the reply each start-update-check request
   gets is the truthful one.  Started / Throttled only to the request that woke the waiting machine, matching the policy's
   answer to the check-allowed question asked with that request's source; AlreadyRunning only while a check or the wait
   for the reboot is in progress; the reboot question is asked with the check's source, upgraded to on-demand by an
   on-demand request, and an allowed reboot happens before anything else; an on-demand request during the wait for the
   reboot leads to the question being asked again before the next ping.
   The invariant ties the monitor's outstanding requests to the model's queue of requests in flight and the monitor's
   upgrade flag to the model's, so it ranges over monitor state and environment (Proofs/MonitorG.v). *)
Require Import Verif.Model.Time Verif.Base.Bytes Verif.Proofs.BytesFacts Verif.Model.Version Verif.Model.Json Verif.Model.Proto
               Verif.Model.Request Verif.Model.Env Verif.Model.SM Verif.Model.Monitors
               Verif.Proofs.Monitor Verif.Proofs.MonitorG.
From Coq Require Import Lia.
Open Scope N_scope.

Notation TG := (tripleG step11x).

Definition od (x : N * isource) : bool := is_ondemand (snd x).
Definition idis (id : N) (x : N * isource) : bool := fst x =? id.

(* ---------- list facts ---------- *)
Lemma existsb_idis_fresh (l : list (N * isource)) ctl : Forall (fun x => fst x < ctl) l -> existsb (idis ctl) l = false.
Proof.
  induction l as [|x l IH]; intro H; [reflexivity|]. inversion H; subst. cbn [existsb]. rewrite (IH H3).
  unfold idis. destruct (fst x =? ctl) eqn:E; [apply N.eqb_eq in E; lia|reflexivity].
Qed.
Lemma existsb_eqb_fresh (l : list N) ctl : Forall (fun x => x < ctl) l -> existsb (N.eqb ctl) l = false.
Proof.
  induction l as [|x l IH]; intro H; [reflexivity|]. inversion H; subst. cbn [existsb]. rewrite (IH H3).
  destruct (ctl =? x) eqn:E; [apply N.eqb_eq in E; lia|reflexivity].
Qed.
Lemma find_fresh (l : list (N * isource)) id src : ~ In id (map fst l) -> find (idis id) (l ++ [(id, src)]) = Some (id, src).
Proof.
  induction l as [|x l IH]; intro H; cbn [List.app find].
  - unfold idis. cbn [fst]. rewrite N.eqb_refl. reflexivity.
  - unfold idis at 1. destruct (fst x =? id) eqn:E; [apply N.eqb_eq in E; exfalso; apply H; left; exact E|].
    apply IH. intro Hi. apply H. right. exact Hi.
Qed.
Lemma filter_notin (l : list (N * isource)) id : ~ In id (map fst l) -> filter (fun x => negb (fst x =? id)) l = l.
Proof.
  induction l as [|x l IH]; intro H; [reflexivity|]. cbn [filter].
  destruct (fst x =? id) eqn:E; [apply N.eqb_eq in E; exfalso; apply H; left; exact E|].
  cbn [negb]. f_equal. apply IH. intro Hi. apply H. right. exact Hi.
Qed.
Lemma filter_fresh (l : list (N * isource)) id src : ~ In id (map fst l) -> filter (fun x => negb (fst x =? id)) (l ++ [(id, src)]) = l.
Proof.
  intro H. rewrite filter_app, (filter_notin l id H). cbn [filter fst]. rewrite N.eqb_refl. cbn [negb]. apply app_nil_r.
Qed.
Lemma notin_fresh (l : list (N * isource)) ctl : Forall (fun x => fst x < ctl) l -> ~ In ctl (map fst l).
Proof.
  intros H Hi. apply in_map_iff in Hi. destruct Hi as (x & Hx & Hi). rewrite Forall_forall in H. specialize (H x Hi). cbn in H. lia.
Qed.
Lemma NoDup_snoc (l : list N) x : NoDup l -> ~ In x l -> NoDup (l ++ [x]).
Proof.
  induction l as [|y l IH]; intros Hn Hi; cbn [List.app]; [constructor; [intros []|constructor]|].
  inversion Hn; subst. constructor.
  - intro H. apply in_app_or in H as [H|[H|[]]]; [contradiction|subst; apply Hi; left; reflexivity].
  - apply IH; [assumption|intro; apply Hi; right; assumption].
Qed.

(* ---------- the link between monitor and environment ---------- *)
(* every id the monitor knows is below the next id to be handed out; no id is outstanding twice *)
Definition Wid (b : q11) (n : N) : Prop :=
  Forall (fun x => fst x < n) (out11 b) /\ Forall (fun x => x < n) (done11 b) /\ NoDup (map fst (out11 b)).
Definition W (b : q11) (e : env) : Prop := Wid b (e_ctl e).
(* outstanding = fl (taken by the machine, not yet answered) ++ the queue of requests in flight *)
Definition Link (fl : list (N * isource)) (q : q11x) (e : env) : Prop :=
  out11 (base11 q) = fl ++ c_inq (e_cs e) /\ W (base11 q) e.

Definition setb (q : q11x) (b : q11) : q11x := {| base11 := b; askdue11 := askdue11 q |}.
Definition add_req (b : q11) (id : N) (src : isource) : q11 :=
  q11_upd b (out11 b ++ [(id, src)]) (done11 b) (ph11_ b) (starter11 b) (src11 b) (upg11 b) (must_reboot11 b).
Definition add_reqx (q : q11x) (id : N) (src : isource) : q11x :=
  {| base11 := add_req (base11 q) id src;
     askdue11 := match src with
                 | OnDemand => match ph11_ (base11 q) with P11Reboot => true | _ => askdue11 q end
                 | ScheduledTask => askdue11 q end |}.

(* sending request number id *)
Lemma step11x_request q id src : Wid (base11 q) id -> step11x q (ARequest id src) = Some (add_reqx q id src).
Proof.
  intros (Ho & Hd & _). unfold step11x, step11. fold (idis id).
  rewrite (existsb_idis_fresh _ _ Ho), (existsb_eqb_fresh _ _ Hd). cbn [orb]. unfold add_reqx, add_req.
  destruct src, (ph11_ (base11 q)); reflexivity.
Qed.
Lemma Wid_request b id src : Wid b id -> Wid (add_req b id src) (id + 1).
Proof.
  intros (Ho & Hd & Hn). unfold Wid, add_req, q11_upd. cbn [out11 done11]. split; [|split].
  - apply Forall_app. split; [eapply Forall_impl; [|exact Ho]; intros x Hx; cbn in Hx; lia|constructor; [cbn; lia|constructor]].
  - eapply Forall_impl; [|exact Hd]. intros x Hx. cbn in Hx. lia.
  - rewrite map_app. cbn [map fst]. apply NoDup_snoc; [exact Hn|]. apply notin_fresh. exact Ho.
Qed.
Lemma Wid_mono b i j : Wid b i -> i <= j -> Wid b j.
Proof.
  intros (Ho & Hd & Hn) Hle. split; [|split; [|exact Hn]]; (eapply Forall_impl; [|eassumption]); intros x Hx; cbn in Hx; lia.
Qed.
(* fields other than the two lists do not matter *)
Lemma Wid_fields b n out dn ph st s u mr : out = out11 b -> dn = done11 b -> Wid b n -> Wid (q11_upd b out dn ph st s u mr) n.
Proof. intros -> -> H. exact H. Qed.

(* ---------- actions the monitor ignores (given that no reboot is owed) ---------- *)
Definition mild (a : action) : bool :=
  match a with
  | ARequest _ _ | AReply _ _ | AHttp _ _ | AInstaller IReboot _ => false
  | APolicy (QCheckAllowed _ _ _ _) _ | APolicy (QRebootAllowed _) _ => false
  | AEvent (EvState WaitingForReboot) | AEvent (EvState Idle) | AEvent (EvState (CheckingForUpdates _)) => false
  | _ => true
  end.
Lemma step_mild q a : mild a = true -> must_reboot11 (base11 q) = false -> step11x q a = Some q.
Proof.
  destruct q as [b ad]. cbn [base11]. intros Hm Hr. unfold step11x. cbn [base11 askdue11].
  destruct a as [ev|pq ans|w o|c ans|c|w|op ok|mt|id src|id r]; try discriminate Hm.
  - destruct ev as [s| | | | | |]; try reflexivity. destruct s; try discriminate Hm; reflexivity.
  - destruct pq; try discriminate Hm; cbn [step11]; try rewrite Hr; reflexivity.
  - destruct c; try discriminate Hm; reflexivity.
  - reflexivity.
  - cbn [step11]. rewrite Hr. reflexivity.
  - reflexivity.
  - reflexivity.
Qed.
Lemma step_http q w o : must_reboot11 (base11 q) = false -> askdue11 q = false -> step11x q (AHttp w o) = Some q.
Proof. destruct q as [b ad]. cbn [base11 askdue11]. intros Hr Ha. unfold step11x. cbn [base11 askdue11 step11]. rewrite Hr, Ha. reflexivity. Qed.

(* predicates that read only the queue, the two flags and the id counter of the environment *)
Definition Vq (P : q11x -> env -> Prop) : Prop :=
  forall q e e', c_inq (e_cs e') = c_inq (e_cs e) -> c_incheck (e_cs e') = c_incheck (e_cs e) -> c_upg (e_cs e') = c_upg (e_cs e) ->
                 e_ctl e' = e_ctl e -> P q e -> P q e'.
Record Ord (P : q11x -> env -> Prop) : Prop := {
  o_v : Vq P;
  o_mr : forall q e, P q e -> must_reboot11 (base11 q) = false;
  o_inj : forall b, TG P (after_event b) (fun _ => P) }.
Lemma Vq_same P q e e' : Vq P -> e_cs e' = e_cs e -> e_ctl e' = e_ctl e -> P q e -> P q e'.
Proof. intros H H1 H2. apply H; rewrite ?H1; try reflexivity. exact H2. Qed.

Definition quietV {A} (m : M A) : Prop :=
  forall e, e_trace (snd (m e)) = e_trace e /\ e_cs (snd (m e)) = e_cs e /\ e_ctl (snd (m e)) = e_ctl e.
Lemma TGq {A} (m : M A) P : Vq P -> quietV m -> TG P m (fun _ => P).
Proof.
  intros HP H. apply tripleG_silent; [intro e; apply (H e)|]. intros q e a Hp _. destruct (H e) as (_ & H1 & H2). exact (Vq_same P q e _ HP H1 H2 Hp).
Qed.

Definition oinv {A} (m : M A) : Prop := forall P, Ord P -> TG P m (fun _ => P).
Lemma oinv_ret {A} (a : A) : oinv (ret a). Proof. intros P _. apply tripleG_ret. auto. Qed.
Lemma oinv_bind {A B} (m : M A) (f : A -> M B) : oinv m -> (forall a, oinv (f a)) -> oinv (bind m f).
Proof. intros Hm Hf P HP. eapply tripleG_bind; [apply Hm; exact HP|]. intro a. apply Hf. exact HP. Qed.
Lemma oinv_quiet {A} (m : M A) : quietV m -> oinv m.
Proof. intros H P HP. apply TGq; [apply (o_v P HP)|exact H]. Qed.
Lemma oinv_emit a : mild a = true -> oinv (emit a).
Proof.
  intros H P HP. apply tripleG_emit. intros q e Hp. exists q. split; [apply step_mild; [exact H|apply (o_mr P HP q e Hp)]|].
  apply (Vq_same P q e _ (o_v P HP)); [reflexivity|reflexivity|exact Hp].
Qed.
Lemma oinv_report x : oinv (report x). Proof. unfold report. apply oinv_emit. reflexivity. Qed.
Lemma oinv_write op : oinv (st_write op).
Proof.
  intros P HP q0 e q Hq Hp. exists q. split.
  - unfold mst, st_write. cbn [snd upd_trace e_trace rev]. rewrite runmon_app. unfold mst in Hq. rewrite Hq. cbn [runmon].
    rewrite step_mild; [reflexivity|reflexivity|apply (o_mr P HP q e Hp)].
  - cbn [fst st_write]. apply (Vq_same P q e _ (o_v P HP)); [reflexivity|reflexivity|exact Hp].
Qed.
Lemma oinv_halt {A} : oinv (@halt A). Proof. intros P _. apply tripleG_halt. Qed.
Lemma oinv_iterM {A} (f : A -> M unit) l : (forall x, oinv (f x)) -> oinv (iterM f l).
Proof. intros H P HP. apply tripleG_iterM. intros x _. apply H. exact HP. Qed.
Lemma oinv_after_event b : oinv (after_event b). Proof. intros P HP. apply (o_inj P HP). Qed.
Lemma oinv_yield ev : mild (AEvent ev) = true -> oinv (yield_ ev).
Proof. intro H. unfold yield_. apply oinv_bind; [apply oinv_emit; exact H|]. intros []. apply oinv_after_event. Qed.

Ltac qv := intro e; repeat split; reflexivity.
Lemma quietV_read_clock : quietV read_clock. Proof. intro e. unfold read_clock. destruct (e_clock e); repeat split; reflexivity. Qed.
Lemma quietV_pop_next_time : quietV pop_next_time. Proof. intro e. unfold pop_next_time. destruct (q_next_time e); repeat split; reflexivity. Qed.
Lemma quietV_pop_allowed : quietV pop_allowed. Proof. intro e. unfold pop_allowed. destruct (q_allowed e); repeat split; reflexivity. Qed.
Lemma quietV_pop_can_start : quietV pop_can_start. Proof. intro e. unfold pop_can_start. destruct (q_can_start e); repeat split; reflexivity. Qed.
Lemma quietV_pop_reboot_needed : quietV pop_reboot_needed. Proof. intro e. unfold pop_reboot_needed. destruct (q_reboot_needed e); repeat split; reflexivity. Qed.
Lemma quietV_pop_reboot_allowed : quietV pop_reboot_allowed. Proof. intro e. unfold pop_reboot_allowed. destruct (q_reboot_allowed e); repeat split; reflexivity. Qed.
Lemma quietV_pop_http : quietV pop_http. Proof. intro e. unfold pop_http. destruct (q_http e); repeat split; reflexivity. Qed.
Lemma quietV_pop_plan : quietV pop_plan. Proof. intro e. unfold pop_plan. destruct (q_plan e); repeat split; reflexivity. Qed.
Lemma quietV_pop_perform : quietV pop_perform. Proof. intro e. unfold pop_perform. destruct (q_perform e); repeat split; reflexivity. Qed.
Lemma quietV_pop_reboot : quietV pop_reboot. Proof. intro e. unfold pop_reboot. destruct (q_reboot e); repeat split; reflexivity. Qed.
Lemma quietV_pop_backoff : quietV pop_backoff. Proof. intro e. unfold pop_backoff. destruct (q_backoff e); repeat split; reflexivity. Qed.
Lemma quietV_fresh_guid : quietV fresh_guid. Proof. qv. Qed.
Lemma quietV_fresh_nonce : quietV fresh_nonce. Proof. qv. Qed.
Lemma quietV_canon_guid d : quietV (canon_guid d). Proof. intro e. unfold canon_guid. destruct (glookup (e_guids e) d); repeat split; reflexivity. Qed.
Lemma quietV_st_get_int k : quietV (st_get_int k). Proof. qv. Qed.
Lemma quietV_st_get_str k : quietV (st_get_str k). Proof. qv. Qed.
Lemma quietV_st_get_time k : quietV (st_get_time k).
Proof. intro e. unfold st_get_time, bind, st_get_int, ret. cbn. repeat split; reflexivity. Qed.
Lemma quietV_pop_stim : quietV pop_stim. Proof. intro e. unfold pop_stim. destruct (e_stim e); repeat split; reflexivity. Qed.
Lemma quietV_bind {A B} (m : M A) (f : A -> M B) : quietV m -> (forall a, quietV (f a)) -> quietV (bind m f).
Proof.
  intros Hm Hf e. unfold bind. destruct (Hm e) as (Ht & Hq & Hc). destruct (m e) as [[a|] e1]; cbn [snd] in *.
  - destruct (Hf a e1) as (Ht1 & Hq1 & Hc1). repeat split; congruence.
  - repeat split; assumption.
Qed.
Lemma quietV_ret {A} (a : A) : quietV (ret a). Proof. intro e. repeat split. Qed.
Lemma quietV_with_ids b s r : quietV (with_ids b s r).
Proof. unfold with_ids. apply quietV_bind; [apply quietV_canon_guid|intro]. apply quietV_bind; [apply quietV_canon_guid|intro]. apply quietV_ret. Qed.
Lemma quietV_maybe_ids (c : bool) b s r : quietV (if c then with_ids b s r else ret b).
Proof. destruct c; [apply quietV_with_ids|apply quietV_ret]. Qed.

Lemma oinv_now : oinv now.
Proof. unfold now. apply oinv_bind; [apply oinv_quiet, quietV_read_clock|intro c]. apply oinv_bind; [apply oinv_emit; reflexivity|intro; apply oinv_ret]. Qed.
Lemma oinv_set_opt k v : oinv (st_set_option_int k v).
Proof. unfold st_set_option_int. destruct v; apply oinv_write. Qed.
Lemma oinv_ctx_persist sc ps : oinv (ctx_persist sc ps).
Proof. unfold ctx_persist. repeat (apply oinv_bind; [apply oinv_set_opt|intro]). apply oinv_ret. Qed.
Lemma oinv_persist_data m : oinv (persist_data m).
Proof.
  unfold persist_data. apply oinv_bind; [apply oinv_ctx_persist|intro]. apply oinv_bind.
  - apply oinv_iterM. intro ap. apply oinv_bind; [apply oinv_write|intro; apply oinv_ret].
  - intro. apply oinv_bind; [apply oinv_write|intro; apply oinv_ret].
Qed.
Lemma oinv_report_check_interval src m : oinv (report_check_interval src m).
Proof.
  unfold report_check_interval. apply oinv_bind; [apply oinv_now|intro n]. apply oinv_bind; [|intro; apply oinv_ret].
  destruct (s_last_check (m_sched m)) as [[w|mm|c]|]; try apply oinv_ret.
  - destruct (w <=? wall n)%Z; [apply oinv_report|apply oinv_ret].
  - destruct (mono c <=? mono n)%Z; [apply oinv_report|apply oinv_ret].
Qed.
Lemma oinv_record_first_seen plan t : oinv (record_first_seen plan t).
Proof.
  unfold record_first_seen. apply oinv_bind; [apply oinv_quiet, quietV_st_get_str|intro prev].
  assert (Hnew : oinv (ok1 <- st_write (SSetStr K_INSTALL_PLAN_ID plan);;
                        (if negb ok1 then ret t
                         else ok2 <- st_set_time K_FIRST_SEEN t;;
                              (if negb ok2 then st_write (SRemove K_INSTALL_PLAN_ID);;; ret t else st_write SCommit;;; ret t)))).
  { apply oinv_bind; [apply oinv_write|intro ok1]. destruct (negb ok1); [apply oinv_ret|].
    apply oinv_bind; [apply oinv_set_opt|intro ok2]. destruct (negb ok2);
      (apply oinv_bind; [apply oinv_write|intro; apply oinv_ret]). }
  destruct prev as [p|]; [|exact Hnew].
  destruct (bytes_eqb p plan); [|exact Hnew].
  apply oinv_bind; [apply oinv_quiet, quietV_st_get_time|intro]. apply oinv_ret.
Qed.
Lemma oinv_report_attempts s : oinv (report_attempts_to_successful_install s).
Proof.
  unfold report_attempts_to_successful_install. apply oinv_bind; [apply oinv_quiet, quietV_st_get_int|intro].
  apply oinv_bind; [apply oinv_report|intro]. apply oinv_bind; [destruct s; apply oinv_write|intro]. apply oinv_ret.
Qed.
Lemma oinv_update_next m : oinv (update_next_update_time m).
Proof.
  unfold update_next_update_time. apply oinv_bind; [apply oinv_quiet, quietV_pop_next_time|intro t].
  apply oinv_bind; [apply oinv_emit; reflexivity|intro]. apply oinv_bind; [apply oinv_yield; reflexivity|intro]. apply oinv_ret.
Qed.
Lemma oinv_make_wait t : oinv (make_wait t).
Proof.
  unfold make_wait. destruct (t_min t).
  - apply oinv_bind; [apply oinv_emit; reflexivity|intro]. apply oinv_bind; [apply oinv_emit; reflexivity|intro]. apply oinv_ret.
  - apply oinv_bind; [apply oinv_emit; reflexivity|intro]. apply oinv_ret.
Qed.

(* ---------- sending a request: nothing may be owed (no reboot, no reboot question) ---------- *)
Definition NoDue (P : q11x -> env -> Prop) : q11x -> env -> Prop := fun q e => P q e /\ askdue11 q = false.
Lemma Vq_NoDue P : Vq P -> Vq (NoDue P).
Proof. intros H q e e' H1 H2 H3 H4 [Hp Ha]. split; [eapply H; eassumption|exact Ha]. Qed.
Lemma NoDue_P P : forall (a : unit) q e, NoDue P q e -> P q e. Proof. intros _ q e [H _]. exact H. Qed.

Lemma T_do_req P b m : Ord P -> TG (NoDue P) (do_omaha_request b m) (fun _ => P).
Proof.
  intro HP. assert (HV := Vq_NoDue P (o_v P HP)).
  assert (Hret : forall A (x : A), TG (NoDue P) (ret x) (fun _ => P)) by (intros A x; apply tripleG_ret; intros q e [H _]; exact H).
  unfold do_omaha_request.
  destruct (negb (u_valid (m_url m))); [apply Hret|].
  destruct (negb (headers_ok (m_cfg m) b)).
  { eapply tripleG_bind with (R := fun _ => NoDue P); [|intro; apply Hret]. destruct (m_cup m); [|apply tripleG_ret; auto].
    eapply tripleG_bind; [apply (TGq _ _ HV quietV_fresh_nonce)|intro; apply tripleG_ret; auto]. }
  eapply tripleG_bind with (R := fun _ => NoDue P).
  { destruct (m_cup m); [|apply tripleG_ret; auto]. eapply tripleG_bind; [apply (TGq _ _ HV quietV_fresh_nonce)|intro; apply tripleG_ret; auto]. }
  intro uri. eapply tripleG_bind; [apply (TGq _ _ HV quietV_pop_http)|intro o].
  eapply tripleG_bind with (R := fun _ => P).
  { apply tripleG_emit. intros q e [Hp Ha]. exists q. split; [apply step_http; [apply (o_mr P HP q e Hp)|exact Ha]|].
    apply (Vq_same P q e _ (o_v P HP)); [reflexivity|reflexivity|exact Hp]. }
  intros _.
  destruct o as [k|status ra au bd]; [apply tripleG_ret; auto|].
  destruct (match m_cup m with Some _ => negb au | None => false end); [apply tripleG_ret; auto|].
  eapply tripleG_bind with (R := fun _ => P).
  { destruct (oZ_eqb (ps_poll (m_ps m)) (parse_retry_after ra)); [apply tripleG_ret; auto|]. cbv zeta.
    eapply tripleG_bind; [apply (oinv_yield (EvProtocol _) eq_refl P HP)|intro]. eapply tripleG_bind; [apply (oinv_ctx_persist _ _ P HP)|intro].
    eapply tripleG_bind; [apply (oinv_write _ P HP)|intro]. apply tripleG_ret. auto. }
  intro m'. destruct ((200 <=? status) && (status <? 300))%N; apply tripleG_ret; auto.
Qed.

Lemma T_request P b0 sess m {A} (K : sm * (req_err + body) -> M A) (Q : A -> q11x -> env -> Prop) :
  Ord P -> (forall r, TG P (K r) Q) ->
  TG (NoDue P)
     (req <- fresh_guid;;
      b <- (if u_valid (m_url m) && headers_ok (m_cfg m) b0 then with_ids b0 sess req else ret b0);;
      r <- do_omaha_request b m;; K r) Q.
Proof.
  intros HP HK. assert (HV := Vq_NoDue P (o_v P HP)).
  eapply tripleG_bind; [apply (TGq _ _ HV quietV_fresh_guid)|intro req].
  eapply tripleG_bind; [apply (TGq _ _ HV (quietV_maybe_ids _ _ _ _))|intro b].
  eapply tripleG_bind; [apply (T_do_req P b m HP)|]. exact HK.
Qed.

(* ---------- phases ---------- *)
(* outside the select loop of a check: requests that arrive are queued *)
Definition Out (fl : list (N * isource)) (F : q11x -> Prop) (q : q11x) (e : env) : Prop :=
  Link fl q e /\ c_incheck (e_cs e) = false /\ c_upg (e_cs e) = false /\ F q.
Definition ReqClosed (F : q11x -> Prop) : Prop := forall q id src, F q -> F (add_reqx q id src).

Definition FW (q : q11x) : Prop := ph11_ (base11 q) = P11Wait /\ must_reboot11 (base11 q) = false /\ askdue11 q = false.
Definition FA (src : isource) (pos : bool) (q : q11x) : Prop :=
  ph11_ (base11 q) = (if pos then P11Check else P11Wait) /\ starter11 (base11 q) = Some (src, pos) /\ src11 (base11 q) = src /\
  upg11 (base11 q) = false /\ must_reboot11 (base11 q) = false /\ askdue11 q = false.
Definition FE (src : isource) (upg : bool) (q : q11x) : Prop :=
  ph11_ (base11 q) = P11Check /\ src11 (base11 q) = src /\ upg11 (base11 q) = upg /\ must_reboot11 (base11 q) = false /\ askdue11 q = false.
(* waiting for the reboot; s is the source the reboot question is asked with.  strict: the ask-due flag is accounted for *)
Definition FB (strict : bool) (s : isource) (q : q11x) : Prop :=
  ph11_ (base11 q) = P11Reboot /\ s = (if upg11 (base11 q) then OnDemand else src11 (base11 q)) /\ must_reboot11 (base11 q) = false /\
  (strict = true -> askdue11 q = true -> existsb od (out11 (base11 q)) = true).
Definition FX (q : q11x) : Prop := must_reboot11 (base11 q) = true.
Definition FY (q : q11x) : Prop := True.

Lemma RC_FW : ReqClosed FW.
Proof. intros q id src (H1 & H2 & H3). unfold FW, add_reqx, add_req, q11_upd. cbn. rewrite H1. destruct src; auto. Qed.
Lemma RC_FA s pos : ReqClosed (FA s pos).
Proof.
  intros q id src (H1 & H2 & H3 & H4 & H5 & H6). unfold FA, add_reqx, add_req, q11_upd. cbn. rewrite H1.
  repeat split; try assumption. destruct src, pos; auto.
Qed.
Lemma RC_FE s u : ReqClosed (FE s u).
Proof. intros q id src (H1 & H2 & H3 & H4 & H5). unfold FE, add_reqx, add_req, q11_upd. cbn. rewrite H1. repeat split; try assumption. destruct src; auto. Qed.
Lemma existsb_od_snoc l x : existsb od (l ++ [x]) = existsb od l || od x.
Proof. rewrite existsb_app. cbn. rewrite Bool.orb_false_r. reflexivity. Qed.
Lemma RC_FB st s : ReqClosed (FB st s).
Proof.
  intros q id src (H1 & H2 & H3 & H4). unfold FB, add_reqx, add_req, q11_upd. cbn. rewrite H1. repeat split; try assumption.
  intros Hs Ha. rewrite existsb_od_snoc. destruct src; cbn; [apply Bool.orb_true_r|]. rewrite (H4 Hs Ha). reflexivity.
Qed.

Lemma Vq_Out fl F : Vq (Out fl F).
Proof.
  intros q e e' H1 H2 H3 H4 ((Ho & Hw) & Hi & Hu & Hf). unfold Out, Link, W. rewrite H1, H2, H3, H4. auto.
Qed.

(* a request sent while the machine is not inside a check joins the queue *)
Lemma TG_after_event_out fl F b : ReqClosed F -> TG (Out fl F) (after_event b) (fun _ => Out fl F).
Proof.
  intros HF q0 e q Hm Hp. unfold after_event, mst in *.
  assert (Hsame : forall cs', c_inq cs' = c_inq (e_cs e) -> c_incheck cs' = c_incheck (e_cs e) -> c_upg cs' = c_upg (e_cs e) ->
                              Out fl F q (set_cs e cs' (e_ctl e))).
  { intros cs' H1 H2 H3. apply (Vq_Out fl F q e); cbn [e_cs e_ctl set_cs]; auto. }
  destruct (c_inject (e_cs e)) as [|[k src] rest]; [exists q; split; [exact Hm|apply Hsame; reflexivity]|].
  destruct ((k <=? c_evn (e_cs e)) && negb b); [|exists q; split; [exact Hm|apply Hsame; reflexivity]].
  destruct Hp as ((Ho & Hw) & Hi & Hu & Hf). rewrite Hi.
  cbn [fst snd upd_trace set_cs e_trace rev e_cs e_ctl c_inq].
  exists (add_reqx q (e_ctl e) src). split.
  - rewrite runmon_app, Hm. cbn [runmon]. rewrite (step11x_request q _ src Hw). reflexivity.
  - unfold Out, Link, W. cbn [e_cs e_ctl upd_trace set_cs c_inq c_incheck c_upg base11 add_reqx].
    split; [split|].
    + unfold add_req, q11_upd. cbn [out11]. rewrite Ho, app_assoc. reflexivity.
    + apply Wid_request. exact Hw.
    + split; [reflexivity|]. split; [exact Hu|]. apply HF. exact Hf.
Qed.
Lemma Ord_Out fl F : ReqClosed F -> (forall q, F q -> must_reboot11 (base11 q) = false) -> Ord (Out fl F).
Proof.
  intros HF Hmr. split; [apply Vq_Out| |intro b; apply TG_after_event_out; exact HF].
  intros q e (_ & _ & _ & Hf). apply Hmr. exact Hf.
Qed.
Lemma Ord_PW fl : Ord (Out fl FW). Proof. apply Ord_Out; [apply RC_FW|]. intros q (_ & H & _). exact H. Qed.
Lemma Ord_PB s : Ord (Out [] (FB true s)). Proof. apply Ord_Out; [apply RC_FB|]. intros q (_ & _ & H & _). exact H. Qed.

(* inside the select loop of a check: a request is answered AlreadyRunning at once, an on-demand one upgrades the check *)
Definition PC (src : isource) (q : q11x) (e : env) : Prop :=
  Link [] q e /\ c_incheck (e_cs e) = true /\ upg11 (base11 q) = c_upg (e_cs e) /\
  ph11_ (base11 q) = P11Check /\ src11 (base11 q) = src /\ must_reboot11 (base11 q) = false /\ askdue11 q = false.
Lemma Vq_PC src : Vq (PC src).
Proof. intros q e e' H1 H2 H3 H4 ((Ho & Hw) & Hi & Hu & Hf). unfold PC, Link, W. rewrite H1, H2, H3, H4. auto. Qed.

Lemma step11x_reply_AR q id src : find (idis id) (out11 (base11 q)) = Some (id, src) -> ph11_ (base11 q) <> P11Wait ->
  step11x q (AReply id AlreadyRunning) =
  Some (setb q (q11_upd (base11 q) (filter (fun x => negb (fst x =? id)) (out11 (base11 q))) (id :: done11 (base11 q)) (ph11_ (base11 q))
                        (starter11 (base11 q)) (src11 (base11 q)) (upg11 (base11 q) || is_ondemand src) (must_reboot11 (base11 q)))).
Proof.
  intros Hf Hp. unfold step11x, step11. change (fun x : N * isource => fst x =? id) with (idis id). rewrite Hf.
  destruct (ph11_ (base11 q)); [contradiction| |]; reflexivity.
Qed.

Lemma TG_after_event_PC src b : TG (PC src) (after_event b) (fun _ => PC src).
Proof.
  intros q0 e q Hm Hp. unfold after_event, mst in *.
  assert (Hsame : forall cs', c_inq cs' = c_inq (e_cs e) -> c_incheck cs' = c_incheck (e_cs e) -> c_upg cs' = c_upg (e_cs e) ->
                              PC src q (set_cs e cs' (e_ctl e))).
  { intros cs' H1 H2 H3. apply (Vq_PC src q e); cbn [e_cs e_ctl set_cs]; auto. }
  destruct (c_inject (e_cs e)) as [|[k sr] rest]; [exists q; split; [exact Hm|apply Hsame; reflexivity]|].
  destruct ((k <=? c_evn (e_cs e)) && negb b); [|exists q; split; [exact Hm|apply Hsame; reflexivity]].
  destruct Hp as ((Ho & Hw) & Hi & Hu & Hph & Hs & Hmr & Ha). rewrite Hi.
  cbn [fst snd upd_trace set_cs e_trace rev e_cs e_ctl c_inq].
  assert (Hni : ~ In (e_ctl e) (map fst (out11 (base11 q)))) by (apply notin_fresh; apply Hw).
  eexists. split.
  - rewrite <- app_assoc, runmon_app, Hm. cbn [List.app runmon]. rewrite (step11x_request q _ sr Hw).
    rewrite (step11x_reply_AR (add_reqx q (e_ctl e) sr) (e_ctl e) sr).
    + reflexivity.
    + cbn [add_reqx base11 add_req q11_upd out11]. apply find_fresh. exact Hni.
    + cbn [add_reqx base11 add_req q11_upd ph11_]. rewrite Hph. discriminate.
  - unfold PC, Link, W, setb. cbn [e_cs e_ctl upd_trace set_cs c_inq c_incheck c_upg base11 askdue11 add_reqx add_req q11_upd out11 done11 ph11_ src11 upg11 must_reboot11 starter11].
    rewrite (filter_fresh _ _ sr Hni). split; [split; [exact Ho|]|].
    + destruct Hw as (H1 & H2 & H3). split; [|split; [|exact H3]].
      * eapply Forall_impl; [|exact H1]. intros x Hx. cbn in Hx. lia.
      * constructor; [lia|]. eapply Forall_impl; [|exact H2]. intros x Hx. cbn in Hx. lia.
    + split; [reflexivity|]. split; [rewrite Hu; reflexivity|]. split; [exact Hph|]. split; [exact Hs|]. split; [exact Hmr|].
      rewrite Hph. destruct sr; exact Ha.
Qed.
Lemma Ord_PC src : Ord (PC src).
Proof. split; [apply Vq_PC| |intro b; apply TG_after_event_PC]. intros q e (_ & _ & _ & _ & _ & H & _). exact H. Qed.
Lemma PC_NoDue src q e : PC src q e -> NoDue (PC src) q e.
Proof. intro H. split; [exact H|]. destruct H as (_ & _ & _ & _ & _ & _ & H). exact H. Qed.

(* ---------- inside the check ---------- *)
Ltac oo H := match goal with |- TG ?P _ _ => eapply tripleG_bind; [eapply H; first [apply Ord_PC | apply Ord_PW | apply Ord_PB]|intro; cbv beta] end.
Tactic Notation "ooa" constr(H) "as" ident(x) :=
  match goal with |- TG ?P _ _ => eapply tripleG_bind; [eapply H; first [apply Ord_PC | apply Ord_PW | apply Ord_PB]|intro x; cbv beta] end.
Ltac oy := match goal with
  | |- TG ?P (bind (yield_ ?ev) _) _ => eapply tripleG_bind; [apply (oinv_yield ev eq_refl P); first [apply Ord_PC | apply Ord_PW | apply Ord_PB]|intro; cbv beta]
  | |- TG ?P (bind (yield_state ?s) _) _ => eapply tripleG_bind; [apply (oinv_yield (EvState s) eq_refl P); first [apply Ord_PC | apply Ord_PW | apply Ord_PB]|intro; cbv beta]
  end.
Ltac oe := match goal with |- TG ?P (bind (emit ?a) _) _ => eapply tripleG_bind; [apply (oinv_emit a eq_refl P); first [apply Ord_PC | apply Ord_PW | apply Ord_PB]|intro; cbv beta] end.

Lemma C_report_event src p ev apps sess nv dur m : TG (PC src) (report_event p ev apps sess nv dur m) (fun _ => PC src).
Proof.
  unfold report_event. cbv zeta.
  eapply tripleG_conseq; [apply (T_request (PC src) _ sess m _ (fun _ => PC src) (Ord_PC src))|intros q e H; apply PC_NoDue; exact H|auto].
  intros [m' [e|bd]]; [|apply tripleG_ret; auto]. oo oinv_report. apply tripleG_ret. auto.
Qed.

Lemma C_attempt_loop src sess b0 fuel : forall attempt m, TG (PC src) (attempt_loop fuel attempt b0 sess m) (fun _ => PC src).
Proof.
  induction fuel as [|f IH]; intros attempt m; cbn [attempt_loop]; [apply tripleG_halt|].
  ooa oinv_now as start.
  eapply tripleG_conseq; [apply (T_request (PC src) b0 sess m _ (fun _ => PC src) (Ord_PC src))|intros q e H; apply PC_NoDue; exact H|auto].
  intros [m1 res]. ooa oinv_now as fin.
  eapply tripleG_bind with (R := fun _ => PC src).
  { match goal with |- TG _ (if ?c then _ else _) _ => destruct c end; [apply (oinv_report _ _ (Ord_PC src))|apply tripleG_ret; auto]. }
  intros _. destruct res as [e|bd]; [|apply tripleG_ret; auto].
  match goal with |- TG _ (if ?c then _ else _) _ => destruct c end.
  - oy. apply tripleG_ret. auto.
  - ooa (oinv_quiet _ quietV_pop_backoff) as r. oe. apply IH.
Qed.

(* the check announces itself: nothing changes for a monitor already in the check *)
Lemma C_checking src s : TG (PC src) (emit (AEvent (EvState (CheckingForUpdates s)))) (fun _ => PC src).
Proof.
  apply tripleG_emit. intros q e Hp.
  assert (Hstep : step11x q (AEvent (EvState (CheckingForUpdates s))) = Some q \/
                  step11x q (AEvent (EvState (CheckingForUpdates s))) =
                  Some (setb q (q11_upd (base11 q) (out11 (base11 q)) (done11 (base11 q)) P11Check None (src11 (base11 q)) (upg11 (base11 q)) false))).
  { unfold step11x, step11, setb. destruct q as [b ad]. cbn [base11 askdue11].
    destruct (starter11 b) as [[s0 [|]]|]; [|left; reflexivity|left; reflexivity].
    destruct (out11 b); [right; reflexivity|left; reflexivity]. }
  destruct Hstep as [Hs|Hs]; rewrite Hs; eexists; (split; [reflexivity|]).
  - apply (Vq_same _ q e _ (Vq_PC src)); [reflexivity|reflexivity|exact Hp].
  - destruct Hp as ((Ho & Hw) & Hi & Hu & Hph & Hsr & Hmr & Ha). unfold PC, Link, W, setb.
    cbn [e_cs e_ctl upd_trace base11 askdue11 q11_upd out11 done11 ph11_ src11 upg11 must_reboot11]. repeat split; try assumption; apply Hw.
Qed.

Lemma C_perform src fuel p apps m : TG (PC src) (perform_update_check fuel p apps m) (fun _ => PC src).
Proof.
  unfold perform_update_check.
  eapply tripleG_bind with (R := fun _ => PC src).
  { unfold yield_state, yield_. eapply tripleG_bind; [apply C_checking|]. intros []. apply TG_after_event_PC. }
  intros _. ooa oinv_report_check_interval as m0.
  ooa (oinv_quiet _ quietV_fresh_guid) as sess.
  eapply tripleG_bind; [apply C_attempt_loop|]. intros [[m1 attempts] res].
  oo oinv_report.
  assert (Hend : forall (x : sm * (check_err + (list app_response * reboot))), TG (PC src) (ret x) (fun _ => PC src)).
  { intro x. apply tripleG_ret. auto. }
  destruct res as [e|[d|]].
  - apply Hend.
  - oy. destruct (filter uc_ok (d_apps d)) as [|wu0 wur]; [oy; apply Hend|].
    ooa (oinv_quiet _ quietV_pop_plan) as pl. oe.
    destruct pl as [plan|].
    2:{ oy. oy. eapply tripleG_bind; [apply C_report_event|]. intro. apply Hend. }
    ooa (oinv_quiet _ quietV_pop_can_start) as dec. oe.
    destruct dec.
    + oy. eapply tripleG_bind; [apply C_report_event|]. intro m2.
      ooa oinv_now as t0. ooa oinv_record_first_seen as fs. ooa (oinv_quiet _ quietV_pop_perform) as pa. oe.
      eapply tripleG_bind; [apply (oinv_iterM _ _ (fun bits => oinv_yield (EvProgress bits) eq_refl) _ (Ord_PC src))|]. intro. cbv beta.
      ooa oinv_now as t1.
      eapply tripleG_bind with (R := fun _ => PC src).
      { match goal with |- TG _ (if ?c then _ else _) _ => destruct c end; [|apply tripleG_ret; auto]. oo oinv_report. apply tripleG_ret. auto. }
      intro dur.
      eapply tripleG_conseq; [apply (T_request (PC src) _ sess m2 _ (fun _ => PC src) (Ord_PC src))|intros q e H; apply PC_NoDue; exact H|auto].
      intros [m3 rr].
      eapply tripleG_bind with (R := fun _ => PC src).
      { destruct rr; [|apply tripleG_ret; auto]. apply (oinv_iterM _ _ (fun x => oinv_report _) _ (Ord_PC src)). }
      intros _.
      eapply tripleG_bind with (R := fun _ => PC src).
      { match goal with |- TG _ (match ?l with [] => _ | _ => _ end) _ => destruct l end; [apply tripleG_ret; auto|apply C_report_event]. }
      intro m4.
      match goal with |- TG _ (match ?n with O => _ | S _ => _ end) _ => destruct n as [|nerr] end.
      * eapply tripleG_bind with (R := fun _ => PC src).
        { match goal with |- TG _ (if ?c then _ else _) _ => destruct c end; [apply (oinv_report _ _ (Ord_PC src))|apply tripleG_ret; auto]. }
        intros _. oo oinv_set_opt.
        eapply tripleG_bind with (R := fun _ => PC src).
        { match goal with |- TG _ (match ?x with Some _ => _ | None => _ end) _ => destruct x end; [|apply tripleG_ret; auto].
          oo oinv_write. apply tripleG_ret. auto. }
        intros _. oo oinv_write. ooa (oinv_quiet _ quietV_pop_reboot_needed) as rn. oe. apply Hend.
      * eapply tripleG_bind; [apply (oinv_iterM _ _ (fun _ : unit => oinv_yield EvInstallerError eq_refl) _ (Ord_PC src))|]. intro. cbv beta.
        oy. apply Hend.
    + eapply tripleG_bind; [apply C_report_event|]. intro. oy. apply Hend.
    + eapply tripleG_bind; [apply C_report_event|]. intro. apply Hend.
  - oy. eapply tripleG_bind; [apply C_report_event|]. intro. apply Hend.
Qed.

Lemma C_start src fuel p m : TG (PC src) (start_update_check fuel p m) (fun _ => PC src).
Proof.
  unfold start_update_check. eapply tripleG_bind; [apply C_perform|]. intros [m1 res].
  eapply tripleG_bind with (R := fun _ => PC src).
  { destruct res as [e|[rs rb]].
    - eapply tripleG_bind with (R := fun _ => PC src).
      + destruct e as [re| |]; [destruct re; apply tripleG_ret; auto| |]; (ooa oinv_now as n; apply tripleG_ret; auto).
      + intros [m2 reason]. oo oinv_report. apply tripleG_ret. auto.
    - ooa oinv_now as n. oo oinv_report.
      eapply tripleG_bind with (R := fun _ => PC src).
      { destruct (install_success rs); [apply (oinv_report_attempts _ _ (Ord_PC src))|apply tripleG_ret; auto]. }
      intro. apply tripleG_ret. auto. }
  intros [[m2 result] rb]. oy. oy. oy. oo oinv_persist_data. apply tripleG_ret. auto.
Qed.

(* ---------- taking a request and answering it ---------- *)
Lemma isource_eqb_refl s : isource_eqb s s = true. Proof. destruct s; reflexivity. Qed.

Lemma reply_head b n id src rest : out11 b = (id, src) :: rest -> Wid b n ->
  find (idis id) (out11 b) = Some (id, src) /\ filter (fun x => negb (fst x =? id)) (out11 b) = rest /\
  (forall ph st s u mr, Wid (q11_upd b rest (id :: done11 b) ph st s u mr) n).
Proof.
  intros Ho (H1 & H2 & H3). rewrite Ho in *. cbn [find filter map] in *. unfold idis. cbn [fst] in *. rewrite N.eqb_refl. cbn [negb].
  inversion H1; subst. inversion H3; subst. split; [reflexivity|]. split; [apply filter_notin; assumption|].
  intros. unfold Wid, q11_upd. cbn [out11 done11]. split; [assumption|]. split; [constructor; [cbn in *; assumption|assumption]|assumption].
Qed.

Lemma outer_select_ctl stim : forall pending ctl x r c, outer_select stim pending ctl = Some (x, r, c) ->
  (x = None /\ c = ctl) \/ (exists src, x = Some (src, ctl) /\ c = ctl + 1).
Proof.
  induction stim as [|s stim IH]; intros pending ctl x r c H; cbn [outer_select] in H; [discriminate|].
  destruct s as [i|src|].
  - destruct (nth_error pending i); [|eapply IH; exact H].
    destruct (remove_nth i pending); [inversion H; left; split; reflexivity|eapply IH; exact H].
  - inversion H. right. exists src. split; reflexivity.
  - eapply IH. exact H.
Qed.

(* the wait returns nothing (a timer) or one request, now in the machine's hands *)
Lemma T_do_outer_select roles :
  TG (Out [] FW) (do_outer_select roles) (fun sel => match sel with Some (src, id) => Out [(id, src)] FW | None => Out [] FW end).
Proof.
  unfold do_outer_select. intros q0 e q Hm Hp. unfold bind, pop_queued, ret, mst in *.
  destruct Hp as ((Ho & Hw) & Hi & Hu & Hf). cbn [List.app] in Ho.
  destruct (c_inq (e_cs e)) as [|[id src] rq] eqn:Eq.
  - cbn [fst snd].
    destruct (outer_select (e_stim e) roles (e_ctl e)) as [[[[[s id]|] r] c]|] eqn:Es; cbn [fst snd upd_trace set_stim e_trace rev e_cs e_ctl].
    + destruct (outer_select_ctl _ _ _ _ _ _ Es) as [[Hx _]|(s' & Hx & ->)]; [discriminate|]. inversion Hx; subst s' id.
      exists (add_reqx q (e_ctl e) s). split; [rewrite runmon_app, Hm; cbn [runmon]; rewrite (step11x_request q _ s Hw); reflexivity|].
      unfold Out, Link, W. cbn [e_cs e_ctl upd_trace set_stim base11 add_reqx]. rewrite Eq. split; [split|].
      * unfold add_req, q11_upd. cbn [out11]. rewrite Ho. reflexivity.
      * apply Wid_request. exact Hw.
      * split; [exact Hi|]. split; [exact Hu|]. apply RC_FW. exact Hf.
    + destruct (outer_select_ctl _ _ _ _ _ _ Es) as [[_ ->]|(s' & Hx & _)]; [|discriminate].
      exists q. split; [exact Hm|]. unfold Out, Link, W. cbn [e_cs e_ctl set_stim]. rewrite Eq. auto.
    + exists q. split; [exact Hm|exact I].
  - cbn [fst snd set_cs e_trace]. exists q. split; [exact Hm|]. unfold Out, Link, W. cbn [e_cs e_ctl set_cs c_inq c_incheck c_upg List.app]. auto.
Qed.

(* the policy decides *)
Lemma T_check_allowed fl apps sc ps src dec :
  TG (Out fl FW) (emit (APolicy (QCheckAllowed apps sc ps src) (PDecision dec))) (fun _ => Out fl (FA src (positive dec))).
Proof.
  apply tripleG_emit. intros q e ((Ho & Hw) & Hi & Hu & Hph & Hmr & Ha).
  eexists. split.
  - unfold step11x, step11. rewrite Hph. reflexivity.
  - unfold Out, Link, W, FA. cbn [e_cs e_ctl upd_trace base11 askdue11 q11_upd out11 done11 ph11_ starter11 src11 upg11 must_reboot11].
    repeat split; try assumption; apply Hw.
Qed.

(* ... and the request that woke the machine is told *)
Lemma T_reply_started id src : TG (Out [(id, src)] (FA src true)) (emit (AReply id Started)) (fun _ => Out [] (FE src false)).
Proof.
  apply tripleG_emit. intros q e ((Ho & Hw) & Hi & Hu & Hph & Hst & Hsr & Hup & Hmr & Ha). cbn [List.app] in Ho.
  destruct (reply_head _ _ _ _ _ Ho Hw) as (Hf & Hfl & Hw').
  eexists. split.
  - unfold step11x, step11. change (fun x : N * isource => fst x =? id) with (idis id). rewrite Hf, Hst, Hfl. rewrite Ho at 1.
    rewrite N.eqb_refl, isource_eqb_refl. reflexivity.
  - unfold Out, Link, W, FE. cbn [e_cs e_ctl upd_trace base11 askdue11 q11_upd out11 done11 ph11_ starter11 src11 upg11 must_reboot11 List.app].
    repeat split; try assumption; apply Hw'.
Qed.
Lemma T_reply_throttled id src : TG (Out [(id, src)] (FA src false)) (emit (AReply id Throttled)) (fun _ => Out [] FW).
Proof.
  apply tripleG_emit. intros q e ((Ho & Hw) & Hi & Hu & Hph & Hst & Hsr & Hup & Hmr & Ha). cbn [List.app] in Ho.
  destruct (reply_head _ _ _ _ _ Ho Hw) as (Hf & Hfl & Hw').
  eexists. split.
  - unfold step11x, step11. change (fun x : N * isource => fst x =? id) with (idis id). rewrite Hf, Hst, Hfl. rewrite Ho at 1.
    rewrite N.eqb_refl, isource_eqb_refl. reflexivity.
  - unfold Out, Link, W, FW. cbn [e_cs e_ctl upd_trace base11 askdue11 q11_upd out11 done11 ph11_ starter11 src11 upg11 must_reboot11 List.app].
    repeat split; try assumption; apply Hw'.
Qed.
Lemma FA_FE src q : FA src true q -> FE src false q.
Proof. intros (H1 & _ & H3 & H4 & H5 & H6). repeat split; assumption. Qed.
Lemma FA_FW src q : FA src false q -> FW q.
Proof. intros (H1 & _ & _ & _ & H5 & H6). repeat split; assumption. Qed.

(* entering the check: everything still queued is answered AlreadyRunning *)
Lemma run_replies : forall l q n, out11 (base11 q) = l -> Wid (base11 q) n -> ph11_ (base11 q) <> P11Wait ->
  exists dn, runmon step11x q (map (fun x => AReply (fst x) AlreadyRunning) l) =
             Some (setb q (q11_upd (base11 q) [] dn (ph11_ (base11 q)) (starter11 (base11 q)) (src11 (base11 q))
                                   (upg11 (base11 q) || existsb (fun x => is_ondemand (snd x)) l) (must_reboot11 (base11 q))))
             /\ Forall (fun x => x < n) dn.
Proof.
  induction l as [|[id s] r IH]; intros q n Ho Hw Hph.
  - exists (done11 (base11 q)). split; [|apply Hw]. cbn [map runmon existsb]. rewrite Bool.orb_false_r.
    destruct q as [b ad]. destruct b. cbn in *. subst. reflexivity.
  - destruct (reply_head _ _ _ _ _ Ho Hw) as (Hf & Hfl & Hw').
    cbn [map runmon fst]. rewrite (step11x_reply_AR q id s Hf Hph), Hfl.
    match goal with |- context [runmon step11x ?q1 _] => destruct (IH q1 n) as (dn & Hr & Hd) end.
    + reflexivity.
    + apply Hw'.
    + exact Hph.
    + exists dn. split; [|exact Hd]. rewrite Hr. unfold setb. cbn [base11 askdue11 q11_upd out11 done11 ph11_ starter11 src11 upg11 must_reboot11 existsb snd].
      rewrite Bool.orb_assoc. reflexivity.
Qed.

Lemma T_enter_check src : TG (Out [] (FE src false)) enter_check (fun _ => PC src).
Proof.
  intros q0 e q Hm ((Ho & Hw) & Hi & Hu & Hph & Hsr & Hup & Hmr & Ha). unfold mst, enter_check in *.
  cbn [fst snd upd_trace set_cs e_trace e_cs e_ctl c_inq]. cbn [List.app] in Ho.
  destruct (run_replies _ q (e_ctl e) Ho Hw) as (dn & Hr & Hd); [rewrite Hph; discriminate|].
  eexists. split.
  - rewrite rev_app_distr, rev_involutive, runmon_app, Hm. exact Hr.
  - unfold PC, Link, W, Wid, setb. cbn [e_cs e_ctl c_inq c_incheck c_upg base11 askdue11 q11_upd out11 done11 ph11_ starter11 src11 upg11 must_reboot11 List.app map].
    rewrite Hup, Hu. repeat split; try assumption; constructor.
Qed.

(* leaving the check *)
Definition PCo (src : isource) (q : q11x) (e : env) : Prop :=
  Link [] q e /\ c_incheck (e_cs e) = false /\ upg11 (base11 q) = c_upg (e_cs e) /\
  ph11_ (base11 q) = P11Check /\ src11 (base11 q) = src /\ must_reboot11 (base11 q) = false /\ askdue11 q = false.
Lemma T_set_incheck src : TG (PC src) (set_incheck false) (fun _ => PCo src).
Proof.
  apply tripleG_silent; [intro e; reflexivity|]. intros q e a ((Ho & Hw) & Hi & Hf) _. unfold PCo, Link, W. cbn. auto.
Qed.
Lemma T_take_upgrade src : TG (PCo src) take_upgrade (fun upg => Out [] (FE src upg)).
Proof.
  apply tripleG_silent; [intro e; reflexivity|]. intros q e a ((Ho & Hw) & Hi & Hu & Hph & Hs & Hmr & Ha) Hr.
  unfold take_upgrade in Hr. cbn [fst] in Hr. inversion Hr; subst a. unfold Out, Link, W, FE. cbn [e_cs e_ctl set_cs c_inq c_incheck c_upg]. auto 10.
Qed.

(* state announcements *)
Lemma T_waiting src upg :
  TG (Out [] (FE src upg)) (emit (AEvent (EvState WaitingForReboot))) (fun _ => Out [] (FB true (if upg then OnDemand else src))).
Proof.
  apply tripleG_emit. intros q e ((Ho & Hw) & Hi & Hu & Hph & Hs & Hup & Hmr & Ha).
  eexists. split; [reflexivity|]. unfold Out, Link, W, FB.
  cbn [e_cs e_ctl upd_trace base11 askdue11 q11_upd out11 done11 ph11_ starter11 src11 upg11 must_reboot11].
  rewrite Hup, Hs. repeat split; try assumption; try apply Hw. intros _ H. rewrite Ha in H. discriminate.
Qed.
Lemma T_idle F : TG (Out [] F) (emit (AEvent (EvState Idle))) (fun _ => Out [] FW).
Proof.
  apply tripleG_emit. intros q e ((Ho & Hw) & Hi & Hu & Hf).
  eexists. split; [reflexivity|]. unfold Out, Link, W, FW.
  cbn [e_cs e_ctl upd_trace base11 askdue11 q11_upd out11 done11 ph11_ starter11 src11 upg11 must_reboot11].
  repeat split; try assumption; apply Hw.
Qed.
Lemma T_rebooted ok : TG (Out [] FX) (emit (AInstaller IReboot (IRebooted ok))) (fun _ => Out [] FY).
Proof.
  apply tripleG_emit. intros q e ((Ho & Hw) & Hi & Hu & Hf). unfold FX in Hf.
  eexists. split; [unfold step11x, step11; rewrite Hf; reflexivity|]. unfold Out, Link, W, FY.
  cbn [e_cs e_ctl upd_trace base11 askdue11 q11_upd out11 done11 ph11_ starter11 src11 upg11 must_reboot11].
  repeat split; try assumption; apply Hw.
Qed.

(* ---------- waiting for the reboot ---------- *)
Lemma FB_weaken st s q : FB true s q -> FB st s q.
Proof. intros (H1 & H2 & H3 & H4). repeat split; try assumption. intros _. apply H4. reflexivity. Qed.

Lemma step11x_ask q s b : s = (if upg11 (base11 q) then OnDemand else src11 (base11 q)) ->
  step11x q (APolicy (QRebootAllowed s) (PBool b)) =
  Some {| base11 := q11_upd (base11 q) (out11 (base11 q)) (done11 (base11 q)) (ph11_ (base11 q)) (starter11 (base11 q)) (src11 (base11 q))
                            (upg11 (base11 q) || is_ondemand s && existsb (fun x => is_ondemand (snd x)) (out11 (base11 q))) b;
          askdue11 := match s with OnDemand => false | ScheduledTask => askdue11 q end |}.
Proof. intro Hs. unfold step11x, step11. rewrite <- Hs, isource_eqb_refl. cbn [orb]. destruct s; reflexivity. Qed.

(* the question is asked with the source in force; an on-demand question settles the ask-due flag *)
Lemma T_ask s : TG (Out [] (FB (negb (is_ondemand s)) s)) (ask_reboot_allowed s) (fun ok => if ok then Out [] FX else Out [] (FB true s)).
Proof.
  unfold ask_reboot_allowed.
  eapply tripleG_bind; [apply (TGq _ _ (Vq_Out _ _) quietV_pop_reboot_allowed)|intro b].
  eapply tripleG_bind with (R := fun _ => if b then Out [] FX else Out [] (FB true s)); [|intro; apply tripleG_ret; auto].
  apply tripleG_emit. intros q e ((Ho & Hw) & Hi & Hu & Hph & Hs & Hmr & Hd).
  eexists. split.
  - apply step11x_ask. exact Hs.
  - assert (Hl : Link [] {| base11 := q11_upd (base11 q) (out11 (base11 q)) (done11 (base11 q)) (ph11_ (base11 q)) (starter11 (base11 q)) (src11 (base11 q))
                                     (upg11 (base11 q) || is_ondemand s && existsb (fun x => is_ondemand (snd x)) (out11 (base11 q))) b;
                            askdue11 := match s with OnDemand => false | ScheduledTask => askdue11 q end |}
                         (upd_trace e (APolicy (QRebootAllowed s) (PBool b) :: e_trace e))).
    { split; [exact Ho|exact Hw]. }
    destruct s; (destruct b; [split; [exact Hl|]; split; [exact Hi|]; split; [exact Hu|]; reflexivity|]);
      (split; [exact Hl|]; split; [exact Hi|]; split; [exact Hu|]); unfold FB;
      cbn [base11 askdue11 q11_upd out11 done11 ph11_ starter11 src11 upg11 must_reboot11 is_ondemand andb negb] in *.
    + split; [exact Hph|]. split; [|split; [reflexivity|intros _ H; discriminate]].
      destruct (upg11 (base11 q)); [reflexivity|]. cbn [orb]. rewrite <- Hs. destruct (existsb _ _); reflexivity.
    + rewrite Bool.orb_false_r. split; [exact Hph|]. split; [exact Hs|]. split; [reflexivity|]. intros _. apply Hd. reflexivity.
Qed.

(* a request seen while waiting for the reboot *)
Lemma T_handle_in_reboot s id sc :
  TG (Out [(id, sc)] (FB true s)) (handle_in_reboot id sc)
     (fun go => if go then Out [] FX else Out [] (FB true (match sc with OnDemand => OnDemand | ScheduledTask => s end))).
Proof.
  unfold handle_in_reboot.
  eapply tripleG_bind with (R := fun _ => Out [] (match sc with OnDemand => FB false OnDemand | ScheduledTask => FB true s end)).
  { apply tripleG_emit. intros q e ((Ho & Hw) & Hi & Hu & Hph & Hs & Hmr & Hd). cbn [List.app] in Ho.
    destruct (reply_head _ _ _ _ _ Ho Hw) as (Hf & Hfl & Hw').
    eexists. split; [rewrite (step11x_reply_AR q id sc Hf); [reflexivity|rewrite Hph; discriminate]|].
    rewrite Hfl. split; [split; [reflexivity|apply Hw']|]. split; [exact Hi|]. split; [exact Hu|].
    unfold FB, setb. cbn [base11 askdue11 q11_upd out11 done11 ph11_ starter11 src11 upg11 must_reboot11].
    destruct sc; cbn [is_ondemand].
    - rewrite Bool.orb_true_r. split; [exact Hph|]. split; [reflexivity|]. split; [exact Hmr|]. intro H; discriminate.
    - rewrite Bool.orb_false_r. split; [exact Hph|]. split; [exact Hs|]. split; [exact Hmr|]. intros _ Ha.
      specialize (Hd eq_refl Ha). rewrite Ho in Hd. cbn [existsb od snd is_ondemand orb] in Hd. rewrite <- Hd. reflexivity. }
  intros _. destruct sc; [apply (T_ask OnDemand)|apply tripleG_ret; auto].
Qed.

(* nothing queued: nothing is due *)
Definition PBe (s : isource) (q : q11x) (e : env) : Prop := Out [] (FB true s) q e /\ c_inq (e_cs e) = [] /\ askdue11 q = false.
Lemma Vq_PBe s : Vq (PBe s).
Proof. intros q e e' H1 H2 H3 H4 (H & Hq & Ha). split; [eapply Vq_Out; eassumption|]. split; [congruence|exact Ha]. Qed.
Lemma PBe_NoDue s q e : PBe s q e -> NoDue (Out [] (FB true s)) q e. Proof. intros (H & _ & Ha). split; assumption. Qed.
Lemma PBe_PB s q e : PBe s q e -> Out [] (FB true s) q e. Proof. intros (H & _). exact H. Qed.

Lemma T_pop_queued_B s :
  TG (Out [] (FB true s)) pop_queued (fun o => match o with Some (id, sc) => Out [(id, sc)] (FB true s) | None => PBe s end).
Proof.
  apply tripleG_silent; [intro e; unfold pop_queued; destruct (c_inq (e_cs e)); reflexivity|].
  intros q e a ((Ho & Hw) & Hi & Hu & Hf) Ha. unfold pop_queued in *. cbn [List.app] in Ho.
  destruct (c_inq (e_cs e)) as [|[id src] r] eqn:Eq; cbn [fst snd] in *; inversion Ha; subst a.
  - split; [split; [split; [rewrite Eq; exact Ho|exact Hw]|auto]|]. split; [exact Eq|].
    destruct Hf as (_ & _ & _ & Hd). destruct (askdue11 q); [|reflexivity]. specialize (Hd eq_refl eq_refl). rewrite Ho in Hd. discriminate.
  - unfold Out, Link, W. cbn [e_cs e_ctl set_cs c_inq c_incheck c_upg List.app]. auto.
Qed.

Lemma T_ping s m : TG (NoDue (Out [] (FB true s))) (ping_omaha m) (fun _ => Out [] (FB true s)).
Proof.
  unfold ping_omaha. cbv zeta.
  eapply tripleG_bind; [apply (TGq _ _ (Vq_NoDue _ (Vq_Out _ _)) quietV_fresh_guid)|intro sess].
  apply (T_request _ _ sess m _ (fun _ => Out [] (FB true s)) (Ord_PB s)).
  intros [m1 res].
  assert (Hf : TG (Out [] (FB true s)) (persist_data (with_ps m1 (set_fails (m_ps m1) (sat_inc_u32 (ps_fails (m_ps m1)))));;;
                     ret (with_ps m1 (set_fails (m_ps m1) (sat_inc_u32 (ps_fails (m_ps m1)))))) (fun _ => Out [] (FB true s))).
  { oo oinv_persist_data. apply tripleG_ret. auto. }
  destruct res as [er|[d|]]; [exact Hf| |exact Hf].
  ooa oinv_now as n. oy. oo oinv_persist_data. apply tripleG_ret. auto.
Qed.

Lemma T_reboot_loop fuel : forall s pending m, TG (Out [] (FB true s)) (reboot_loop fuel s pending m) (fun _ => Out [] FX).
Proof.
  induction fuel as [|f IH]; intros s pending m; cbn [reboot_loop]; [apply tripleG_halt|].
  eapply tripleG_bind; [apply T_pop_queued_B|]. intros [[id sc]|].
  { eapply tripleG_bind; [apply T_handle_in_reboot|]. intros [|]; [apply tripleG_ret; auto|apply IH]. }
  eapply tripleG_bind; [apply (TGq _ _ (Vq_PBe s) quietV_pop_stim)|]. intros [i|sc|].
  - assert (Hping : TG (PBe s) (m1 <- ping_omaha m;; mt <- update_next_update_time m1;;
                         (let '(m2, t) := mt in roles <- make_wait t;; reboot_loop f s (remove_nth i pending ++ roles) m2)) (fun _ => Out [] FX)).
    { eapply tripleG_bind; [eapply tripleG_conseq; [apply (T_ping s m)|intros q e H; apply PBe_NoDue; exact H|intros a q e H; exact H]|intro m1].
      eapply tripleG_bind; [apply (oinv_update_next _ _ (Ord_PB s))|]. intros [m2 t].
      eapply tripleG_bind; [apply (oinv_make_wait _ _ (Ord_PB s))|intro roles]. apply IH. }
    assert (Hloop : forall p', TG (PBe s) (reboot_loop f s p' m) (fun _ => Out [] FX)).
    { intro p'. eapply tripleG_conseq; [apply IH|intros q e H; apply PBe_PB; exact H|auto]. }
    destruct (nth_error pending i) as [[| |]|].
    + destruct (has_ping_roles (remove_nth i pending)); [apply Hloop|exact Hping].
    + destruct (has_ping_roles (remove_nth i pending)); [apply Hloop|exact Hping].
    + eapply tripleG_bind; [eapply tripleG_conseq; [apply (T_ask s)|intros q e H; apply PBe_PB in H; destruct H as (Hl & Hi & Hu & Hf); split; [exact Hl|]; split; [exact Hi|]; split; [exact Hu|]; apply FB_weaken; exact Hf|intros a q e H; exact H]|].
      intros [|]; [apply tripleG_ret; auto|].
      eapply tripleG_bind; [apply (oinv_emit (ATimer _) eq_refl _ (Ord_PB s))|intro]. apply IH.
    + apply Hloop.
  - eapply tripleG_bind with (R := fun id q e => out11 (base11 q) = [] /\ c_inq (e_cs e) = [] /\ Wid (base11 q) id /\ e_ctl e = id + 1 /\
                                                   c_incheck (e_cs e) = false /\ c_upg (e_cs e) = false /\ FB true s q).
    { apply tripleG_silent; [intro e; reflexivity|]. intros q e a (((Ho & Hw) & Hi & Hu & Hf) & Hq & _) Ha. unfold next_ctl in *. cbn [fst snd] in *. inversion Ha; subst a.
      cbn [e_cs e_ctl set_stim]. rewrite Hq in Ho. cbn in Ho. auto 10. }
    intro id. eapply tripleG_bind with (R := fun _ => Out [(id, sc)] (FB true s)).
    { apply tripleG_emit. intros q e (Ho & Hq & Hw & Hc & Hi & Hu & Hf). exists (add_reqx q id sc). split; [apply step11x_request; exact Hw|].
      unfold Out, Link, W. cbn [e_cs e_ctl upd_trace base11 add_reqx]. rewrite Hq, Hc. split; [split|].
      - unfold add_req, q11_upd. cbn [out11]. rewrite Ho. reflexivity.
      - apply Wid_request. exact Hw.
      - split; [exact Hi|]. split; [exact Hu|]. apply RC_FB. exact Hf. }
    intro. eapply tripleG_bind; [apply T_handle_in_reboot|]. intros [|]; [apply tripleG_ret; auto|apply IH].
  - eapply tripleG_conseq; [apply IH|intros q e H; apply PBe_PB; exact H|auto].
Qed.

Lemma T_wait_for_reboot fuel s m : TG (Out [] (FB true s)) (wait_for_reboot fuel s m) (fun _ => Out [] FY).
Proof.
  unfold wait_for_reboot.
  eapply tripleG_bind; [eapply tripleG_conseq; [apply (T_ask s)|intros q e (Hl & Hi & Hu & Hf); split; [exact Hl|]; split; [exact Hi|]; split; [exact Hu|]; apply FB_weaken; exact Hf|intros a q e H; exact H]|].
  intro ok. cbv beta.
  eapply tripleG_bind with (R := fun _ => Out [] FX).
  { destruct ok; [apply tripleG_ret; auto|]. eapply tripleG_bind; [apply (oinv_emit (ATimer _) eq_refl _ (Ord_PB s))|intro].
    eapply tripleG_bind; [apply (oinv_update_next _ _ (Ord_PB s))|]. intros [m1 t].
    eapply tripleG_bind; [apply (oinv_make_wait _ _ (Ord_PB s))|intro roles]. apply T_reboot_loop. }
  intro m1. eapply tripleG_bind; [apply (TGq _ _ (Vq_Out _ _) quietV_pop_reboot)|intro okr].
  eapply tripleG_bind; [apply T_rebooted|intro]. apply tripleG_ret. auto.
Qed.

(* ---------- the main loop ---------- *)
Lemma Out_weaken fl (F G : q11x -> Prop) q e : (forall q, F q -> G q) -> Out fl F q e -> Out fl G q e.
Proof. intros H (Hl & Hi & Hu & Hf). split; [exact Hl|]. split; [exact Hi|]. split; [exact Hu|]. apply H. exact Hf. Qed.

Lemma T_run_iteration fuel finish start_mono sr m : TG (Out [] FW) (run_iteration fuel finish start_mono sr m) (fun _ => Out [] FW).
Proof.
  unfold run_iteration.
  eapply tripleG_bind with (R := fun _ => Out [] FW).
  { destruct sr; [|apply tripleG_ret; auto]. ooa oinv_now as n.
    match goal with |- TG _ (match ?x with Some _ => _ | None => _ end) _ => destruct x end; [|apply tripleG_ret; auto].
    oo oinv_report. oo oinv_write. oo oinv_write. oo oinv_write. apply tripleG_ret. auto. }
  intro sr'. eapply tripleG_bind; [apply (oinv_update_next _ _ (Ord_PW []))|]. intros [m1 t].
  ooa oinv_make_wait as roles.
  eapply tripleG_bind; [apply T_do_outer_select|]. intro sel.
  set (fl := match sel with Some (s, id) => [(id, s)] | None => [] end).
  set (src := match sel with Some (s, _) => s | None => ScheduledTask end).
  eapply tripleG_conseq with (P' := Out fl FW); [|intros q e H; destruct sel as [[s id]|]; exact H|intros a q e H; exact H].
  eapply tripleG_bind; [apply (TGq _ _ (Vq_Out _ _) quietV_pop_allowed)|]. intro dec.
  eapply tripleG_bind; [apply T_check_allowed|]. intro; cbv beta.
  assert (Hneg : positive dec = false ->
                 TG (Out fl (FA src (positive dec))) ((match sel with Some (_, id) => emit (AReply id Throttled) | None => ret tt end);;; ret (m1, sr'))
                    (fun _ => Out [] FW)).
  { intro Hp. rewrite Hp. eapply tripleG_bind with (R := fun _ => Out [] FW); [|intro; apply tripleG_ret; auto].
    subst fl src. destruct sel as [[s id]|]; [apply T_reply_throttled|].
    apply tripleG_ret. intros q e H. eapply Out_weaken; [apply FA_FW|exact H]. }
  assert (Hpos : forall p, positive dec = true ->
                 TG (Out fl (FA src (positive dec)))
                    ((match sel with Some (_, id) => emit (AReply id Started) | None => ret tt end);;;
                     enter_check;;;
                     r <- start_update_check fuel p m1;;
                     set_incheck false;;;
                     upg <- take_upgrade;;
                     (let src0 := if upg then OnDemand else src in
                      let '(m0, rb) := r in
                      m2 <- match rb with
                            | RebootNeeded _ => yield_state WaitingForReboot;;; wait_for_reboot fuel src0 m0
                            | RebootNotNeeded => ret m0
                            end;;
                      yield_state Idle;;; ret (m2, sr')))
                    (fun _ => Out [] FW)).
  { intros p Hp. rewrite Hp.
    eapply tripleG_bind with (R := fun _ => Out [] (FE src false)).
    { subst fl src. destruct sel as [[s id]|]; [apply T_reply_started|].
      apply tripleG_ret. intros q e H. eapply Out_weaken; [apply FA_FE|exact H]. }
    intro; cbv beta. eapply tripleG_bind; [apply T_enter_check|]. intro; cbv beta.
    eapply tripleG_bind; [apply C_start|]. intros [m2 rb].
    eapply tripleG_bind; [apply T_set_incheck|]. intro; cbv beta.
    eapply tripleG_bind; [apply T_take_upgrade|]. intro upg. cbv zeta.
    eapply tripleG_bind with (R := fun _ => Out [] FY).
    { destruct rb.
      - unfold yield_state, yield_.
        eapply tripleG_bind with (R := fun _ => Out [] (FB true (if upg then OnDemand else src))).
        { eapply tripleG_bind; [apply T_waiting|]. intros []. apply (oinv_after_event _ _ (Ord_PB _)). }
        intro; cbv beta. apply T_wait_for_reboot.
      - apply tripleG_ret. intros q e H. eapply Out_weaken; [|exact H]. intros; exact I. }
    intro m3. unfold yield_state, yield_.
    eapply tripleG_bind with (R := fun _ => Out [] FW); [|intro; apply tripleG_ret; auto].
    eapply tripleG_bind; [apply T_idle|]. intros []. apply (oinv_after_event _ _ (Ord_PW [])). }
  destruct dec; first [apply Hneg; reflexivity | apply Hpos; reflexivity].
Qed.

Lemma T_run_loop iters : forall fuel finish start_mono sr m, TG (Out [] FW) (run_loop iters fuel finish start_mono sr m) (fun _ => Out [] FW).
Proof.
  induction iters as [|k IH]; intros; cbn [run_loop]; [apply tripleG_halt|].
  eapply tripleG_bind; [apply T_run_iteration|]. intros [m' sr']. apply IH.
Qed.
Lemma T_run iters fuel m : TG (Out [] FW) (run iters fuel m) (fun _ => Out [] FW).
Proof.
  unfold run. destruct (negb (forallb app_valid (m_apps m))); [apply tripleG_ret; auto|].
  ooa oinv_now as n. ooa (oinv_quiet _ (quietV_st_get_time K_FINISH_TIME)) as fin. ooa (oinv_quiet _ (quietV_st_get_str K_TARGET_VERSION)) as tv. apply T_run_loop.
Qed.

(* a script starts with nothing in flight, outside any check; its own request ids start at e_ctl *)
Theorem model_accepted_c11 cfg url cup apps e :
  e_trace e = [] -> c_inq (e_cs e) = [] -> c_incheck (e_cs e) = false -> c_upg (e_cs e) = false ->
  accepts step11x {| base11 := init11; askdue11 := false |} (run_case EStart cfg url cup apps e) = true.
Proof.
  intros Ht Hq Hi Hu. unfold run_case, accepts.
  set (q0 := {| base11 := init11; askdue11 := false |}).
  assert (Hm0 : mst step11x q0 e = Some q0) by (unfold mst; rewrite Ht; reflexivity).
  assert (HI : Out [] FW q0 e).
  { unfold Out, Link, W, Wid, FW, q0. cbn. rewrite Hq. repeat split; try assumption; constructor. }
  destruct (T_run (Datatypes.S (length (e_stim e) + length (c_inject (e_cs e)))) (4 + length (e_stim e) + length (c_inject (e_cs e)))
              (build cfg url cup apps (e_store e)) q0 e q0 Hm0 HI) as (q' & Hq' & _).
  destruct (run _ _ _ e) as [r e'] eqn:E. cbn [snd] in Hq'. unfold mst in Hq'. rewrite Hq'. reflexivity.
Qed.

(* step11x only adds a rule to step11: whatever it accepts, step11 accepts *)
Lemma step11x_base q a q' : step11x q a = Some q' -> step11 (base11 q) a = Some (base11 q').
Proof.
  unfold step11x. destruct (step11 (base11 q) a) as [b|]; [|discriminate]. intro H.
  assert (Hb : base11 q' = b).
  { destruct a as [ev|pq ans|w o|c ans|c|w|op ok|mt|id src|id r]; try (inversion H; reflexivity).
    - destruct ev as [s| | | | | |]; try (inversion H; reflexivity). destruct s; inversion H; reflexivity.
    - destruct pq; try (inversion H; reflexivity). destruct src; inversion H; reflexivity.
    - destruct (askdue11 q); [discriminate|inversion H; reflexivity].
    - destruct src; [destruct (ph11_ (base11 q))|]; inversion H; reflexivity. }
  rewrite Hb. reflexivity.
Qed.
Lemma accepts11x_11 : forall t q, accepts step11x q t = true -> accepts step11 (base11 q) t = true.
Proof.
  unfold accepts. induction t as [|a t IH]; intros q H; [reflexivity|]. cbn [runmon] in *.
  destruct (step11x q a) as [q'|] eqn:E; [|discriminate]. rewrite (step11x_base _ _ _ E). apply IH. exact H.
Qed.
Theorem model_accepted_c11_base cfg url cup apps e :
  e_trace e = [] -> c_inq (e_cs e) = [] -> c_incheck (e_cs e) = false -> c_upg (e_cs e) = false ->
  accepts step11 init11 (run_case EStart cfg url cup apps e) = true.
Proof. intros. apply (accepts11x_11 _ {| base11 := init11; askdue11 := false |}). apply model_accepted_c11; assumption. Qed.
