(* Proofs/TimeFacts.v *)
Require Import Verif.Model.Time.
From Coq Require Import Lia ZArith.
Open Scope Z_scope.
Ltac Zify.zify_post_hook ::= Z.to_euclidean_division_equations.

Definition i64 (z : Z) : Prop := i64_min <= z <= i64_max.

Lemma in_i64_iff z : in_i64 z = true <-> i64 z.
Proof. unfold in_i64, i64. rewrite andb_true_iff, !Z.leb_le. tauto. Qed.

Lemma from_micros_mul m : from_micros m = m * 1000.
Proof. unfold from_micros. destruct (0 <? m); lia. Qed.

Lemma to_micros_spec t :
  to_micros t = if in_i64 (Z.quot t 1000) then Some (Z.quot t 1000) else None.
Proof.
  unfold to_micros, in_i64, i64_min, i64_max.
  destruct (0 <=? t) eqn:E; [apply Z.leb_le in E|apply Z.leb_gt in E].
  - rewrite Z.quot_div_nonneg by lia.
    assert (0 <= t / 1000) by (apply Z.div_pos; lia).
    destruct (t / 1000 <=? 2 ^ 63 - 1) eqn:E2.
    + replace (- 2 ^ 63 <=? t / 1000) with true by (symmetry; apply Z.leb_le; lia). reflexivity.
    + rewrite andb_false_r. reflexivity.
  - assert (Hq : Z.quot t 1000 = - ((- t) / 1000)).
    { rewrite <- (Z.opp_involutive t) at 1. rewrite Z.quot_opp_l by lia.
      rewrite Z.quot_div_nonneg by lia. reflexivity. }
    rewrite Hq.
    assert (0 <= (- t) / 1000) by (apply Z.div_pos; lia).
    destruct ((- t) / 1000 <=? 2 ^ 63) eqn:E2; [apply Z.leb_le in E2|apply Z.leb_gt in E2].
    + replace (- 2 ^ 63 <=? - (- t / 1000)) with true by (symmetry; apply Z.leb_le; lia).
      replace (- (- t / 1000) <=? 2 ^ 63 - 1) with true by (symmetry; apply Z.leb_le; lia). reflexivity.
    + replace (- 2 ^ 63 <=? - (- t / 1000)) with false by (symmetry; apply Z.leb_gt; lia). reflexivity.
Qed.

Lemma from_to_id m : i64 m -> to_micros (from_micros m) = Some m.
Proof.
  intro H. rewrite to_micros_spec, from_micros_mul.
  rewrite Z.quot_mul by lia. apply in_i64_iff in H. rewrite H. reflexivity.
Qed.

Lemma to_micros_some t m :
  to_micros t = Some m -> m = Z.quot t 1000 /\ i64 m.
Proof.
  rewrite to_micros_spec. destruct (in_i64 (Z.quot t 1000)) eqn:E; [|discriminate].
  intro H; inversion H; subst. split; [reflexivity|apply in_i64_iff; assumption].
Qed.

(* truncation toward the epoch, spelled out without quot *)
Lemma quot_toward_epoch t m :
  m = Z.quot t 1000 ->
  (0 <= t -> 0 <= m /\ m * 1000 <= t < m * 1000 + 1000) /\
  (t <= 0 -> m <= 0 /\ m * 1000 - 1000 < t <= m * 1000).
Proof.
  intros ->. split; intro Ht; lia.
Qed.

Lemma to_micros_none_iff t : to_micros t = None <-> ~ i64 (Z.quot t 1000).
Proof.
  rewrite to_micros_spec. destruct (in_i64 (Z.quot t 1000)) eqn:E.
  - apply in_i64_iff in E. split; [discriminate|tauto].
  - split; [|reflexivity]. intros _ H. apply in_i64_iff in H. congruence.
Qed.

Lemma truncate_wall_quot t : truncate_wall t = Z.quot t 1000 * 1000.
Proof.
  unfold truncate_wall. destruct (0 <=? t) eqn:E; [apply Z.leb_le in E|apply Z.leb_gt in E].
  - rewrite Z.quot_div_nonneg by lia. lia.
  - rewrite <- (Z.opp_involutive t) at 3. rewrite Z.quot_opp_l by lia.
    rewrite Z.quot_div_nonneg by lia. lia.
Qed.

Lemma store_reload t m : to_micros t = Some m -> from_micros m = truncate_wall t.
Proof.
  intro H. apply to_micros_some in H as [-> _].
  rewrite from_micros_mul, truncate_wall_quot. reflexivity.
Qed.

Lemma truncate_wall_idem t : truncate_wall (truncate_wall t) = truncate_wall t.
Proof. rewrite !truncate_wall_quot. rewrite Z.quot_mul by lia. reflexivity. Qed.

Lemma truncate_idem c : truncate (truncate c) = truncate c.
Proof. unfold truncate. cbn [wall mono]. rewrite truncate_wall_idem. reflexivity. Qed.

Lemma truncate_mono c : mono (truncate c) = mono c.
Proof. reflexivity. Qed.

(* reload of a stored time, as storage.rs does it *)
Lemma load_store t m :
  store_time t = Some m -> load_time (Some m) = Some (truncate_wall t).
Proof. intro H. unfold load_time. f_equal. apply store_reload. exact H. Qed.

(* the stored-and-reloaded instant is a fixed point of storing *)
Lemma store_load_store t m :
  store_time t = Some m -> store_time (truncate_wall t) = Some m.
Proof.
  intro H. unfold store_time in *. pose proof (to_micros_some _ _ H) as [Hm Hi].
  rewrite <- (store_reload _ _ H). apply from_to_id. exact Hi.
Qed.

(* ---- two-clock times ---- *)
Definition omap (f : Z -> Z) (o : option Z) : option Z :=
  match o with Some x => Some (f x) | None => None end.

Lemma destructure_add p d :
  destructure (pct_add p d) = (omap (fun x => x + d) (fst (destructure p)), omap (fun x => x + d) (snd (destructure p))).
Proof. destruct p as [w|m|[w m]]; reflexivity. Qed.

Lemma destructure_sub p d :
  destructure (pct_sub p d) = (omap (fun x => x - d) (fst (destructure p)), omap (fun x => x - d) (snd (destructure p))).
Proof. destruct p as [w|m|[w m]]; reflexivity. Qed.

Lemma pct_add_sub p d : pct_sub (pct_add p d) d = p.
Proof.
  destruct p as [w|m|[w m]]; cbn [pct_add pct_sub ct_add ct_sub wall mono].
  - replace (w + d - d) with w by lia. reflexivity.
  - replace (m + d - d) with m by lia. reflexivity.
  - unfold ct_sub, ct_add. cbn [wall mono].
    replace (w + d - d) with w by lia. replace (m + d - d) with m by lia. reflexivity.
Qed.

Lemma complete_with_spec p c :
  wall (complete_with p c) = match fst (destructure p) with Some w => w | None => wall c end /\
  mono (complete_with p c) = match snd (destructure p) with Some m => m | None => mono c end.
Proof. destruct p as [w|m|[w m]]; split; reflexivity. Qed.

Lemma complete_with_destructure p c :
  destructure (PComplex (complete_with p c)) =
  (Some (match fst (destructure p) with Some w => w | None => wall c end),
   Some (match snd (destructure p) with Some m => m | None => mono c end)).
Proof. destruct p as [w|m|[w m]]; reflexivity. Qed.

Lemma after_or_eq_any_iff c p :
  after_or_eq_any c p = true <->
  (exists w, fst (destructure p) = Some w /\ w <= wall c) \/
  (exists m, snd (destructure p) = Some m /\ m <= mono c).
Proof.
  destruct p as [w|m|[w m]]; cbn [after_or_eq_any destructure fst snd wall mono].
  - rewrite Z.leb_le. split.
    + intro H. left. exists w. tauto.
    + intros [(x & Hx & Hle)|(x & Hx & _)]; [inversion Hx; subst; assumption|discriminate].
  - rewrite Z.leb_le. split.
    + intro H. right. exists m. tauto.
    + intros [(x & Hx & _)|(x & Hx & Hle)]; [discriminate|inversion Hx; subst; assumption].
  - rewrite orb_true_iff, !Z.leb_le. split.
    + intros [H|H]; [left; exists w|right; exists m]; tauto.
    + intros [(x & Hx & Hle)|(x & Hx & Hle)]; inversion Hx; subst; tauto.
Qed.

Lemma pct_micros_roundtrip m : i64 m -> pct_to_micros (pct_from_micros m) = Some m.
Proof. intro H. unfold pct_to_micros, pct_from_micros. cbn [destructure fst]. apply from_to_id. exact H. Qed.
