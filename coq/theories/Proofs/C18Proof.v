(* Proofs/C18Proof.v — every model trace is accepted by the update-attempt bookkeeping monitor step18, for app sets
   whose ids do not collide with the bookkeeping keys.  Uses the linked triples of Proofs/MonitorL.v: the monitor's
   ghost copy of the storage view equals the view the model reads. *)
Require Import Verif.Model.Time Verif.Base.Bytes Verif.Proofs.BytesFacts Verif.Model.Version Verif.Model.Json Verif.Model.Proto
               Verif.Model.Request Verif.Model.Env Verif.Model.SM Verif.Model.Monitors Verif.Model.Monitors18
               Verif.Proofs.Monitor Verif.Proofs.MonGeneric Verif.Proofs.MonitorL Verif.Proofs.SMPure Verif.Proofs.C10Pure.
Open Scope Z_scope.

Definition L18 (q : q18) (e : env) : Prop := m18 q = pend (e_store e).
Lemma L18_store q e e' : e_store e' = e_store e -> L18 q e -> L18 q e'.
Proof. unfold L18. intros -> H. exact H. Qed.

Notation TL := (tripleL step18 L18).

(* ---------- keys ---------- *)
Definition book_keys : list bytes := [K_FAILED_INSTALLS; K_INSTALL_PLAN_ID; K_FIRST_SEEN; K_FINISH_TIME; K_TARGET_VERSION].
Definition free_key (k : bytes) : bool := forallb (fun b => negb (bytes_eqb b k)) book_keys.
Definition free_op (op : store_op) : bool := match op_key op with Some k => free_key k | None => true end.

Lemma free_key_is k op : op_key op = Some k -> free_key k = true ->
  key_is K_FAILED_INSTALLS op = false /\ key_is K_INSTALL_PLAN_ID op = false /\ key_is K_FIRST_SEEN op = false
  /\ key_is K_FINISH_TIME op = false /\ key_is K_TARGET_VERSION op = false.
Proof.
  intros Hk Hf. unfold key_is. rewrite Hk. unfold free_key, book_keys in Hf. cbn [forallb] in Hf.
  repeat (apply andb_prop in Hf; destruct Hf as [? Hf]).
  repeat split; apply negb_true_iff; assumption.
Qed.
Lemma commit_key_is : key_is K_FAILED_INSTALLS SCommit = false /\ key_is K_INSTALL_PLAN_ID SCommit = false /\ key_is K_FIRST_SEEN SCommit = false
  /\ key_is K_FINISH_TIME SCommit = false /\ key_is K_TARGET_VERSION SCommit = false.
Proof. repeat split; reflexivity. Qed.

(* ---------- the parts of the monitor state that storage operations on free keys, clock readings and commits move ---------- *)
Definition upd18 (q : q18) (m : smap) (fin : N) : q18 :=
  {| m18 := m; osver18 := osver18 q; sysid18 := sysid18 q; clk18 := clk18 q; should18 := should18 q; fin018 := fin018 q;
     start18 := start18 q; rep18 := rep18 q; todo18 := todo18 q; doc18 := doc18 q; planw18 := planw18 q; fs18 := fs18 q; perf18 := perf18 q;
     fin18 := fin; attm18 := attm18 q; attw18 := attw18 q |}.
Definition Stb (P : q18 -> Prop) : Prop := forall q m fin, P q -> P (upd18 q m fin).
(* a clock reading *)
Definition clk_upd (q : q18) (c : ctime) : q18 :=
  {| m18 := m18 q; osver18 := osver18 q; sysid18 := sysid18 q; clk18 := Some c; should18 := should18 q; fin018 := fin018 q;
     start18 := match start18 q with Some s => Some s | None => Some (mono c) end; rep18 := rep18 q; todo18 := todo18 q;
     doc18 := doc18 q; planw18 := planw18 q; fs18 := fs18 q; perf18 := perf18 q; fin18 := fin18 q; attm18 := attm18 q; attw18 := attw18 q |}.
Definition Sclk (P : q18 -> Prop) : Prop := forall q c, P q -> P (clk_upd q c).

(* field-wise description of the rest *)
Section Fields.
  Variables (SH : bool) (F0 : Z) (OSV : bytes) (SID : bytes).
  Definition St (td : list store_op) (dc : option doc) (pw : bool) (fs : option Z) (pf : bool) (am : option bool)
                (aw : option store_op) (rp : bool) (q : q18) : Prop :=
    should18 q = SH /\ fin018 q = F0 /\ osver18 q = OSV /\ sysid18 q = SID /\ todo18 q = td /\ doc18 q = dc /\ planw18 q = pw
    /\ fs18 q = fs /\ perf18 q = pf /\ attm18 q = am /\ attw18 q = aw /\ rep18 q = rp.
  Lemma Stb_St td dc pw fs pf am aw rp : Stb (St td dc pw fs pf am aw rp).
  Proof. intros q m fin H. exact H. Qed.
  Lemma Sclk_St td dc pw fs pf am aw rp : Sclk (St td dc pw fs pf am aw rp).
  Proof. intros q c H. exact H. Qed.
End Fields.

Ltac fld18 := cbn [m18 osver18 sysid18 clk18 should18 fin018 start18 rep18 todo18 doc18 planw18 fs18 perf18 fin18 attm18 attw18 set18 upd18 clk_upd].

(* ---------- actions the monitor never looks at ---------- *)
Definition boring18 (a : action) : bool :=
  match a with
  | AClock _ | AStore _ _ => false
  | AMetric (MWaitedForReboot _) | AMetric (MSuccessfulUpdateFromFirstSeen _) | AMetric (MAttemptsToSuccessfulInstall _ _) => false
  | AEvent (EvState (CheckingForUpdates _)) | AEvent (EvServerResponse _) | AEvent (EvResult _) => false
  | AInstaller (IPerform _) _ => false
  | APolicy (QRebootNeeded _) _ => false
  | _ => true
  end.
Lemma step18_boring q a : boring18 a = true -> step18 q a = Some q.
Proof.
  destruct a as [ev|pq ans|w o|c ans|c|w|op ok|mt|id src|id r]; cbn [boring18]; intro H; try discriminate; try reflexivity.
  - destruct ev as [s| | | | | |]; try discriminate; try reflexivity. destruct s; try discriminate; reflexivity.
  - destruct pq; try discriminate; reflexivity.
  - destruct c; try discriminate; reflexivity.
  - destruct mt; try discriminate; reflexivity.
Qed.

Lemma TL_emit_boring a (P : q18 -> Prop) : boring18 a = true -> TL P (emit a) (fun _ => P).
Proof.
  intro H. apply (tripleL_emit step18 L18 L18_store). intros q e Hl Hp. exists q. split; [apply step18_boring; exact H|]. split; assumption.
Qed.
Lemma TL_quiet {A} (m : M A) (P : q18 -> Prop) : quietL m -> TL P m (fun _ => P).
Proof. apply (tripleL_quiet step18 L18 L18_store). Qed.

(* control traffic interleaved with events *)
Lemma TL_after_event (P : q18 -> Prop) b : TL P (after_event b) (fun _ => P).
Proof.
  intros q0 e q Hm Hl Hp. exists q.
  unfold mst, after_event in *.
  destruct (c_inject (e_cs e)) as [|[k src] rest]; [split; [exact Hm|split; [exact Hl|exact Hp]]|].
  destruct ((k <=? c_evn (e_cs e))%N && negb b); [|split; [exact Hm|split; [exact Hl|exact Hp]]].
  destruct (c_incheck (e_cs e)); cbn [fst snd upd_trace set_cs e_trace rev]; (split; [|split; [exact Hl|exact Hp]]).
  - rewrite <- app_assoc, runmon_app, Hm. reflexivity.
  - rewrite runmon_app, Hm. reflexivity.
Qed.
Lemma TL_yield_boring ev (P : q18 -> Prop) : boring18 (AEvent ev) = true -> TL P (yield_ ev) (fun _ => P).
Proof.
  intro H. unfold yield_. eapply tripleL_bind; [apply TL_emit_boring; exact H|]. intros []. apply TL_after_event.
Qed.
Lemma TL_yield ev (P : q18 -> Prop) (Q : q18 -> Prop) :
  (forall q e, L18 q e -> P q -> exists q', step18 q (AEvent ev) = Some q' /\ L18 q' e /\ Q q') -> TL P (yield_ ev) (fun _ => Q).
Proof.
  intro H. unfold yield_. eapply tripleL_bind with (R := fun _ => Q); [apply (tripleL_emit step18 L18 L18_store); exact H|].
  intros []. apply TL_after_event.
Qed.
Lemma TL_enter_check (P : q18 -> Prop) : TL P enter_check (fun _ => P).
Proof.
  intros q0 e q Hm Hl Hp. exists q. split; [|split; [exact Hl|exact Hp]].
  unfold mst, enter_check in *. cbn [snd upd_trace set_cs e_trace].
  rewrite rev_app_distr, rev_involutive, runmon_app, Hm.
  induction (c_inq (e_cs e)) as [|x r IH]; cbn [map runmon]; [reflexivity|exact IH].
Qed.
Lemma TL_do_outer_select roles (P : q18 -> Prop) : TL P (do_outer_select roles) (fun _ => P).
Proof.
  unfold do_outer_select.
  eapply tripleL_bind; [apply TL_quiet, quietL_pop_queued|]. intros [[id src]|]; [apply tripleL_ret; auto|].
  intros q0 e q Hm Hl Hp. exists q. unfold mst in *.
  destruct (outer_select (e_stim e) roles (e_ctl e)) as [[[[[src id]|] r] c]|]; cbn [fst snd upd_trace set_stim e_trace rev].
  - split; [rewrite runmon_app, Hm; reflexivity|split; [exact Hl|exact Hp]].
  - split; [exact Hm|split; [exact Hl|exact Hp]].
  - split; [exact Hm|split; [exact Hl|exact I]].
Qed.

(* ---------- clock readings ---------- *)
Lemma TL_now (P : q18 -> Prop) : Sclk P -> TL P now (fun n q => P q /\ clk18 q = Some n).
Proof.
  intro HP. unfold now. eapply tripleL_bind; [apply TL_quiet, quietL_read_clock|]. intro c.
  eapply tripleL_bind with (R := fun _ q => P q /\ clk18 q = Some c); [|intro; apply tripleL_ret; auto].
  apply (tripleL_emit step18 L18 L18_store). intros q e Hl Hp. exists (clk_upd q c). split; [reflexivity|]. split; [exact Hl|].
  split; [apply HP; exact Hp|reflexivity].
Qed.
Lemma TL_now' (P : q18 -> Prop) : Sclk P -> TL P now (fun _ => P).
Proof. intro H. eapply tripleL_conseq; [apply (TL_now P H)|auto|]. intros n q [Hq _]. exact Hq. Qed.

(* ---------- storage operations on keys the monitor does not watch ---------- *)
Lemma st_write_pend op e :
  pend (e_store (snd (st_write op e))) = if negb (faulty e) then map_apply (pend (e_store e)) op else pend (e_store e).
Proof. unfold st_write. cbn [snd upd_trace set_store e_store]. destruct (negb (faulty e)); [destruct op|]; reflexivity. Qed.

Lemma TL_free_write op (P : q18 -> Prop) :
  Stb P -> (forall q, P q -> todo18 q = []) -> free_op op = true -> TL P (st_write op) (fun _ => P).
Proof.
  intros HS Htd Hfree. apply (tripleL_st_write step18 L18). intros q e Hl Hp.
  set (ok := negb (faulty e)).
  set (m' := if ok then map_apply (m18 q) op else m18 q).
  exists (upd18 q m' (if ok then match op with SCommit => if (fin18 q =? 1)%N then 2%N else fin18 q | _ => fin18 q end else 3%N)).
  split; [|split; [|apply HS; exact Hp]].
  - unfold step18. fold ok. rewrite (Htd q Hp).
    assert (Hk : key_is K_FAILED_INSTALLS op = false /\ key_is K_INSTALL_PLAN_ID op = false /\ key_is K_FIRST_SEEN op = false
                 /\ key_is K_FINISH_TIME op = false /\ key_is K_TARGET_VERSION op = false).
    { unfold free_op in Hfree. destruct (op_key op) as [k|] eqn:Ek; [apply (free_key_is k op Ek Hfree)|].
      destruct op; try discriminate. apply commit_key_is. }
    destruct Hk as (-> & -> & -> & -> & ->). fold m'.
    destruct op; destruct ok; unfold set18, upd18; cbn [m18 osver18 sysid18 clk18 should18 fin018 start18 rep18 todo18 doc18 planw18 fs18 perf18 fin18 attm18 attw18];
      rewrite ?(Htd q Hp); reflexivity.
  - unfold L18. fld18. rewrite st_write_pend. fold ok. unfold m'. unfold L18 in Hl. rewrite Hl. reflexivity.
Qed.

(* ---------- programs that preserve every stable predicate under which nothing is owed ---------- *)
Definition Good (P : q18 -> Prop) : Prop := Stb P /\ forall q, P q -> todo18 q = [].
Definition nL {A} (m : M A) : Prop := forall P, Good P -> TL P m (fun _ => P).

Lemma nL_ret {A} (a : A) : nL (ret a).
Proof. intros P _. apply tripleL_ret. auto. Qed.
Lemma nL_bind {A B} (m : M A) (f : A -> M B) : nL m -> (forall a, nL (f a)) -> nL (bind m f).
Proof. intros Hm Hf P HP. eapply tripleL_bind; [apply Hm; exact HP|]. intro a. apply Hf. exact HP. Qed.
Lemma nL_quiet {A} (m : M A) : quietL m -> nL m.
Proof. intros H P _. apply TL_quiet. exact H. Qed.
Lemma nL_emit a : boring18 a = true -> nL (emit a).
Proof. intros H P _. apply TL_emit_boring. exact H. Qed.
Lemma nL_yield ev : boring18 (AEvent ev) = true -> nL (yield_ ev).
Proof. intros H P _. apply TL_yield_boring. exact H. Qed.
Lemma nL_report x : boring18 (AMetric x) = true -> nL (report x).
Proof. intro H. unfold report. apply nL_emit. exact H. Qed.
Lemma nL_halt {A} : nL (@halt A).
Proof. intros P _. apply tripleL_halt. Qed.
Lemma nL_iterM {A} (f : A -> M unit) l : (forall x, nL (f x)) -> nL (iterM f l).
Proof. intros H P HP. apply tripleL_iterM. intros x _. apply H. exact HP. Qed.
Lemma nL_write op : free_op op = true -> nL (st_write op).
Proof. intros H P [HS Ht]. apply TL_free_write; assumption. Qed.

Lemma free_ctx_keys : free_key K_LAST_UPDATE_TIME = true /\ free_key K_POLL_INTERVAL = true /\ free_key K_FAILED_CHECKS = true.
Proof. repeat split; vm_compute; reflexivity. Qed.

Lemma nL_set_opt k v : free_key k = true -> nL (st_set_option_int k v).
Proof. intro H. unfold st_set_option_int. destruct v; apply nL_write; exact H. Qed.
Lemma nL_ctx_persist sc ps : nL (ctx_persist sc ps).
Proof.
  destruct free_ctx_keys as (H1 & H2 & H3). unfold ctx_persist.
  apply nL_bind; [apply nL_set_opt; exact H1|intro]. apply nL_bind; [apply nL_set_opt; exact H2|intro].
  apply nL_bind; [apply nL_set_opt; exact H3|intro]. apply nL_ret.
Qed.
(* app ids that do not collide with the bookkeeping keys *)
Definition apps_free (apps : list app) : bool := forallb (fun a => free_key (a_id a)) apps.
Lemma nL_persist_data m : apps_free (m_apps m) = true -> nL (persist_data m).
Proof.
  intro Hf. unfold persist_data. apply nL_bind; [apply nL_ctx_persist|intro].
  apply nL_bind.
  - unfold apps_free in Hf. rewrite forallb_forall in Hf. intros P HP. apply tripleL_iterM. intros ap Hap.
    eapply tripleL_bind; [apply (nL_write (SSetStr (a_id ap) (persisted_json ap)) (Hf ap Hap) P HP)|]. intro. apply tripleL_ret. auto.
  - intro. apply nL_bind; [apply nL_write; reflexivity|intro; apply nL_ret].
Qed.

Lemma nL_with_ids b s r : nL (with_ids b s r).
Proof.
  unfold with_ids. apply nL_bind; [apply nL_quiet, quietL_canon_guid|intro].
  apply nL_bind; [apply nL_quiet, quietL_canon_guid|intro]. apply nL_ret.
Qed.
Lemma nL_maybe_ids (c : bool) b s r : nL (if c then with_ids b s r else ret b).
Proof. destruct c; [apply nL_with_ids|apply nL_ret]. Qed.

Lemma nL_do_req b m : nL (do_omaha_request b m).
Proof.
  unfold do_omaha_request.
  destruct (negb (u_valid (m_url m))); [apply nL_ret|].
  destruct (negb (headers_ok (m_cfg m) b)).
  { apply nL_bind; [|intro; apply nL_ret]. destruct (m_cup m); [|apply nL_ret].
    apply nL_bind; [apply nL_quiet, quietL_fresh_nonce|intro; apply nL_ret]. }
  apply nL_bind.
  { destruct (m_cup m); [|apply nL_ret]. apply nL_bind; [apply nL_quiet, quietL_fresh_nonce|intro; apply nL_ret]. }
  intro uri. apply nL_bind; [apply nL_quiet, quietL_pop_http|intro o].
  apply nL_bind; [apply nL_emit; reflexivity|intro].
  destruct o as [k|status ra au bd]; [apply nL_ret|].
  destruct (match m_cup m with Some _ => negb au | None => false end); [apply nL_ret|].
  apply nL_bind.
  { destruct (oZ_eqb (ps_poll (m_ps m)) (parse_retry_after ra)); [apply nL_ret|]. cbv zeta.
    apply nL_bind; [apply nL_yield; reflexivity|intro]. apply nL_bind; [apply nL_ctx_persist|intro].
    apply nL_bind; [apply nL_write; reflexivity|intro]. apply nL_ret. }
  intro m'. destruct ((200 <=? status) && (status <? 300))%N; apply nL_ret.
Qed.

Lemma nL_report_event p ev apps sess nv dur m : nL (report_event p ev apps sess nv dur m).
Proof.
  unfold report_event. apply nL_bind; [apply nL_quiet, quietL_fresh_guid|intro].
  apply nL_bind; [apply nL_maybe_ids|intro b]. apply nL_bind; [apply nL_do_req|].
  intros [m' [e|bd]]; [|apply nL_ret]. apply nL_bind; [apply nL_report; reflexivity|intro; apply nL_ret].
Qed.

(* ... and those that may also read the clock *)
Definition GoodC (P : q18 -> Prop) : Prop := Good P /\ Sclk P.
Definition nLc {A} (m : M A) : Prop := forall P, GoodC P -> TL P m (fun _ => P).
Lemma nLc_of {A} (m : M A) : nL m -> nLc m.
Proof. intros H P [HG _]. apply H. exact HG. Qed.
Lemma nLc_bind {A B} (m : M A) (f : A -> M B) : nLc m -> (forall a, nLc (f a)) -> nLc (bind m f).
Proof. intros Hm Hf P HP. eapply tripleL_bind; [apply Hm; exact HP|]. intro a. apply Hf. exact HP. Qed.
Lemma nLc_now : nLc now.
Proof. intros P [_ HS]. apply TL_now'. exact HS. Qed.
Lemma nLc_ret {A} (a : A) : nLc (ret a). Proof. apply nLc_of, nL_ret. Qed.
Lemma nLc_halt {A} : nLc (@halt A). Proof. apply nLc_of, nL_halt. Qed.

Lemma nLc_attempt_loop b0 sess fuel : forall attempt m, nLc (attempt_loop fuel attempt b0 sess m).
Proof.
  induction fuel as [|f IH]; intros attempt m; cbn [attempt_loop]; [apply nLc_halt|].
  apply nLc_bind; [apply nLc_now|intro]. apply nLc_bind; [apply nLc_of, nL_quiet, quietL_fresh_guid|intro].
  apply nLc_bind; [apply nLc_of, nL_maybe_ids|intro b]. apply nLc_bind; [apply nLc_of, nL_do_req|]. intros [m1 res].
  apply nLc_bind; [apply nLc_now|intro fin].
  apply nLc_bind.
  { match goal with |- nLc (if ?c then _ else _) => destruct c end; [apply nLc_of, nL_report; reflexivity|apply nLc_ret]. }
  intros _. destruct res as [e|bd]; [|apply nLc_ret].
  match goal with |- nLc (if ?c then _ else _) => destruct c end.
  - apply nLc_bind; [apply nLc_of, nL_yield; reflexivity|intro; apply nLc_ret].
  - apply nLc_bind; [apply nLc_of, nL_quiet, quietL_pop_backoff|intro r].
    apply nLc_bind; [apply nLc_of, nL_emit; reflexivity|intro]. apply IH.
Qed.

Lemma nLc_report_check_interval src m : nLc (report_check_interval src m).
Proof.
  unfold report_check_interval. apply nLc_bind; [apply nLc_now|intro n]. apply nLc_bind; [|intro; apply nLc_ret].
  destruct (s_last_check (m_sched m)) as [[w|mm|c]|]; try apply nLc_ret.
  - destruct (w <=? wall n); [apply nLc_of, nL_report; reflexivity|apply nLc_ret].
  - destruct (mono c <=? mono n); [apply nLc_of, nL_report; reflexivity|apply nLc_ret].
Qed.

Lemma nL_update_next m : nL (update_next_update_time m).
Proof.
  unfold update_next_update_time. apply nL_bind; [apply nL_quiet, quietL_pop_next_time|intro t].
  apply nL_bind; [apply nL_emit; reflexivity|intro]. apply nL_bind; [apply nL_yield; reflexivity|intro]. apply nL_ret.
Qed.
Lemma nL_make_wait t : nL (make_wait t).
Proof.
  unfold make_wait. destruct (t_min t).
  - apply nL_bind; [apply nL_emit; reflexivity|intro]. apply nL_bind; [apply nL_emit; reflexivity|intro]. apply nL_ret.
  - apply nL_bind; [apply nL_emit; reflexivity|intro]. apply nL_ret.
Qed.
Lemma nL_ask_reboot src : nL (ask_reboot_allowed src).
Proof.
  unfold ask_reboot_allowed. apply nL_bind; [apply nL_quiet, quietL_pop_reboot_allowed|intro b].
  apply nL_bind; [apply nL_emit; reflexivity|intro]. apply nL_ret.
Qed.
Lemma nL_handle_in_reboot id sc : nL (handle_in_reboot id sc).
Proof.
  unfold handle_in_reboot. apply nL_bind; [apply nL_emit; reflexivity|intro]. destruct sc; [apply nL_ask_reboot|apply nL_ret].
Qed.

Lemma apps_free_ids l l' : map a_id l = map a_id l' -> apps_free l = apps_free l'.
Proof.
  revert l'. induction l as [|a l IH]; intros [|a' l'] H; try discriminate; [reflexivity|].
  cbn [map] in H. inversion H. unfold apps_free in *. cbn [forallb]. rewrite H1. f_equal. apply IH. assumption.
Qed.
Lemma ids_free_update apps rs : apps_free (update_from_omaha apps rs) = apps_free apps.
Proof. apply apps_free_ids. apply update_from_omaha_ids. Qed.

(* ---------- the watched keys, operation by operation ---------- *)
Lemma K_plan_set p : key_is K_FAILED_INSTALLS (SSetStr K_INSTALL_PLAN_ID p) = false /\ key_is K_INSTALL_PLAN_ID (SSetStr K_INSTALL_PLAN_ID p) = true.
Proof. split; reflexivity. Qed.
Lemma K_plan_rm : key_is K_FAILED_INSTALLS (SRemove K_INSTALL_PLAN_ID) = false /\ key_is K_INSTALL_PLAN_ID (SRemove K_INSTALL_PLAN_ID) = true.
Proof. split; reflexivity. Qed.
Lemma K_seen_set v : key_is K_FAILED_INSTALLS (SSetInt K_FIRST_SEEN v) = false /\ key_is K_INSTALL_PLAN_ID (SSetInt K_FIRST_SEEN v) = false
  /\ key_is K_FIRST_SEEN (SSetInt K_FIRST_SEEN v) = true.
Proof. repeat split; reflexivity. Qed.
Lemma K_seen_rm : key_is K_FAILED_INSTALLS (SRemove K_FIRST_SEEN) = false /\ key_is K_INSTALL_PLAN_ID (SRemove K_FIRST_SEEN) = false
  /\ key_is K_FIRST_SEEN (SRemove K_FIRST_SEEN) = true.
Proof. repeat split; reflexivity. Qed.
Lemma K_fin_set v : key_is K_FAILED_INSTALLS (SSetInt K_FINISH_TIME v) = false /\ key_is K_INSTALL_PLAN_ID (SSetInt K_FINISH_TIME v) = false
  /\ key_is K_FIRST_SEEN (SSetInt K_FINISH_TIME v) = false /\ key_is K_FINISH_TIME (SSetInt K_FINISH_TIME v) = true.
Proof. repeat split; reflexivity. Qed.
Lemma K_fin_rm : key_is K_FAILED_INSTALLS (SRemove K_FINISH_TIME) = false /\ key_is K_INSTALL_PLAN_ID (SRemove K_FINISH_TIME) = false
  /\ key_is K_FIRST_SEEN (SRemove K_FINISH_TIME) = false /\ key_is K_FINISH_TIME (SRemove K_FINISH_TIME) = true.
Proof. repeat split; reflexivity. Qed.
Lemma K_tv_set v : key_is K_FAILED_INSTALLS (SSetStr K_TARGET_VERSION v) = false /\ key_is K_INSTALL_PLAN_ID (SSetStr K_TARGET_VERSION v) = false
  /\ key_is K_FIRST_SEEN (SSetStr K_TARGET_VERSION v) = false /\ key_is K_FINISH_TIME (SSetStr K_TARGET_VERSION v) = false
  /\ key_is K_TARGET_VERSION (SSetStr K_TARGET_VERSION v) = true.
Proof. repeat split; reflexivity. Qed.
Lemma K_att_set v : key_is K_FAILED_INSTALLS (SSetInt K_FAILED_INSTALLS v) = true.
Proof. reflexivity. Qed.
Lemma K_att_rm : key_is K_FAILED_INSTALLS (SRemove K_FAILED_INSTALLS) = true.
Proof. reflexivity. Qed.

(* reading through the link *)
Lemma TL_get_str k (P : q18 -> Prop) : TL P (st_get_str k) (fun v q => P q /\ v = get_str (m18 q) k).
Proof.
  apply (tripleL_read step18 L18 L18_store); [apply quietL_st_get_str|].
  intros q e a Hl H. unfold st_get_str in H. cbn [fst] in H. inversion H. unfold get_str. rewrite Hl. reflexivity.
Qed.
Lemma TL_get_int k (P : q18 -> Prop) : TL P (st_get_int k) (fun v q => P q /\ v = get_int (m18 q) k).
Proof.
  apply (tripleL_read step18 L18 L18_store); [apply quietL_st_get_int|].
  intros q e a Hl H. unfold st_get_int in H. cbn [fst] in H. inversion H. unfold get_int. rewrite Hl. reflexivity.
Qed.
Lemma TL_get_time k (P : q18 -> Prop) : TL P (st_get_time k) (fun v q => P q /\ v = get_time (m18 q) k).
Proof.
  unfold st_get_time. eapply tripleL_bind; [apply TL_get_int|]. intro v. apply tripleL_ret. intros q [Hp ->]. split; [exact Hp|]. reflexivity.
Qed.

(* a write watched by the monitor: the caller says what the monitor does with it *)
Lemma TL_watched_write op (P : q18 -> Prop) (Q : bool -> q18 -> Prop) :
  (forall q ok, P q -> exists q1, step18 q (AStore op ok) = Some q1 /\ m18 q1 = (if ok then map_apply (m18 q) op else m18 q) /\ Q ok q1) ->
  TL P (st_write op) Q.
Proof.
  intro H. apply (tripleL_st_write step18 L18). intros q e Hl Hp. destruct (H q (negb (faulty e)) Hp) as (q1 & Hs & Hm & HQ).
  exists q1. split; [exact Hs|]. split; [|exact HQ]. unfold L18. rewrite Hm, st_write_pend. unfold L18 in Hl. rewrite Hl. reflexivity.
Qed.

(* ---------- facts about returned values that hold in every environment ---------- *)
Definition retp {A} (m : M A) (R : A -> Prop) : Prop := forall e a, fst (m e) = Some a -> R a.
Lemma retp_ret {A} (a : A) (R : A -> Prop) : R a -> retp (ret a) R.
Proof. intros H e a' E. cbn in E. inversion E. subst. exact H. Qed.
Lemma retp_bind {A B} (m : M A) (f : A -> M B) (R1 : A -> Prop) (R2 : B -> Prop) :
  retp m R1 -> (forall a, R1 a -> retp (f a) R2) -> retp (bind m f) R2.
Proof.
  intros Hm Hf e b E. unfold bind in E. destruct (m e) as [[a|] e1] eqn:Em; [|discriminate].
  apply (Hf a (Hm e a ltac:(rewrite Em; reflexivity)) e1 b E).
Qed.
Lemma retp_any {A} (m : M A) : retp m (fun _ => True).
Proof. intros e a _. exact I. Qed.
Lemma retp_conseq {A} (m : M A) (R R' : A -> Prop) : retp m R -> (forall a, R a -> R' a) -> retp m R'.
Proof. intros H HR e a E. apply HR. eapply H. exact E. Qed.
Lemma retp_halt {A} (R : A -> Prop) : retp (@halt A) R.
Proof. intros e a E. discriminate E. Qed.
Lemma TL_and_ret {A} (P : q18 -> Prop) (m : M A) Q (R : A -> Prop) :
  TL P m Q -> retp m R -> TL P m (fun a q => Q a q /\ R a).
Proof.
  intros H HR q0 e q Hq Hl Hp. destruct (H q0 e q Hq Hl Hp) as (q' & H1 & H2 & H3). exists q'. split; [exact H1|]. split; [exact H2|].
  destruct (fst (m e)) eqn:E; [|exact I]. split; [exact H3|]. eapply HR. exact E.
Qed.

Definition sapps (m m' : sm) : Prop := m_apps m' = m_apps m.
Lemma retp_do_req b m : retp (do_omaha_request b m) (fun r => sapps m (fst r)).
Proof.
  unfold do_omaha_request.
  destruct (negb (u_valid (m_url m))); [apply retp_ret; reflexivity|].
  destruct (negb (headers_ok (m_cfg m) b)).
  { eapply retp_bind; [apply retp_any|]. intros ? _. apply retp_ret. reflexivity. }
  eapply retp_bind; [apply retp_any|]. intros uri _. eapply retp_bind; [apply retp_any|]. intros o _.
  eapply retp_bind; [apply retp_any|]. intros ? _.
  destruct o as [k|status ra au bd]; [apply retp_ret; reflexivity|].
  destruct (match m_cup m with Some _ => negb au | None => false end); [apply retp_ret; reflexivity|].
  eapply retp_bind with (R1 := fun m' => sapps m m').
  { destruct (oZ_eqb (ps_poll (m_ps m)) (parse_retry_after ra)); [apply retp_ret; reflexivity|]. cbv zeta.
    eapply retp_bind; [apply retp_any|]. intros ? _. eapply retp_bind; [apply retp_any|]. intros ? _.
    eapply retp_bind; [apply retp_any|]. intros ? _. apply retp_ret. reflexivity. }
  intros m' Hm'. destruct ((200 <=? status) && (status <? 300))%N; apply retp_ret; exact Hm'.
Qed.
Lemma retp_report_event p ev apps sess nv dur m : retp (report_event p ev apps sess nv dur m) (sapps m).
Proof.
  unfold report_event. eapply retp_bind; [apply retp_any|]. intros ? _. eapply retp_bind; [apply retp_any|]. intros b _.
  eapply retp_bind; [apply retp_do_req|]. intros [m' [e|bd]] Hm'; cbn [fst] in Hm'.
  - eapply retp_bind; [apply retp_any|]. intros ? _. apply retp_ret. exact Hm'.
  - apply retp_ret. exact Hm'.
Qed.
Lemma retp_attempt_loop b0 sess fuel : forall attempt m, retp (attempt_loop fuel attempt b0 sess m) (fun r => sapps m (fst (fst r))).
Proof.
  induction fuel as [|f IH]; intros attempt m; cbn [attempt_loop]; [apply retp_halt|].
  eapply retp_bind; [apply retp_any|]. intros ? _. eapply retp_bind; [apply retp_any|]. intros ? _.
  eapply retp_bind; [apply retp_any|]. intros b _. eapply retp_bind; [apply retp_do_req|]. intros [m1 res] Hm1; cbn [fst] in Hm1.
  eapply retp_bind; [apply retp_any|]. intros fin _. eapply retp_bind; [apply retp_any|]. intros ? _.
  destruct res as [e|bd]; [|apply retp_ret; exact Hm1].
  match goal with |- retp (if ?c then _ else _) _ => destruct c end.
  - eapply retp_bind; [apply retp_any|]. intros ? _. apply retp_ret. exact Hm1.
  - eapply retp_bind; [apply retp_any|]. intros r _. eapply retp_bind; [apply retp_any|]. intros ? _.
    eapply retp_conseq; [apply IH|]. intros r0 H. unfold sapps in *. cbn [fst] in *. congruence.
Qed.

Lemma store_op_eqb_refl op : store_op_eqb op op = true.
Proof. destruct op; cbn; rewrite ?bytes_eqb_refl, ?Z.eqb_refl; reflexivity. Qed.
Lemma TL_pre {A} (P : q18 -> Prop) (phi : Prop) (m : M A) Q : (phi -> TL P m Q) -> TL (fun q => P q /\ phi) m Q.
Proof. apply (tripleL_pre_pure step18 L18). Qed.
Lemma TL_pre_l {A} (P : q18 -> Prop) (phi : Prop) (m : M A) Q : (phi -> TL P m Q) -> TL (fun q => phi /\ P q) m Q.
Proof. intros H q0 e q Hq Hl [Hphi Hp]. exact (H Hphi q0 e q Hq Hl Hp). Qed.

Section Flow.
  Variables (SH : bool) (F0 : Z) (OSV : bytes) (SID : bytes).
  (* in continuous operation the mono time of the first clock reading is the start of the state machine *)
  Variable ST : option Z.

  (* outside a check / inside one before the attempts metric: nothing owed *)
  Definition Out (rp : bool) (q : q18) : Prop :=
    should18 q = SH /\ fin018 q = F0 /\ osver18 q = OSV /\ sysid18 q = SID /\ todo18 q = [] /\ attw18 q = None /\ rep18 q = rp
    /\ match ST with Some s => start18 q = Some s | None => True end.
  Definition InCk (rp : bool) (q : q18) : Prop := Out rp q /\ attm18 q = None.

  Lemma stok_clk q c : match ST with Some s => start18 q = Some s | None => True end ->
                       match ST with Some s => start18 (clk_upd q c) = Some s | None => True end.
  Proof. destruct ST; [|auto]. intro H. cbn [clk_upd start18]. rewrite H. reflexivity. Qed.
  Ltac good := split; [split; [intros qg mg fing Hg; exact Hg|intros qg Hg; decompose [and] Hg; assumption]
                      |intros qg cg Hg; decompose [and] Hg; repeat split; try assumption; try (apply stok_clk; assumption)].
  Lemma GoodC_Out rp : GoodC (Out rp). Proof. unfold Out. good. Qed.
  Lemma GoodC_InCk rp : GoodC (InCk rp). Proof. unfold InCk, Out. good. Qed.

  Lemma Out_step_same q rp td : Out rp q -> todo18 q = td -> True. Proof. auto. Qed.

  (* ---------- record_first_seen ---------- *)
  Definition Rfs (rp : bool) (d : doc) (t0 : ctime) (plan : bytes) (fsv : Z) (q : q18) : Prop :=
    InCk rp q /\ doc18 q = Some d /\ perf18 q = false /\ clk18 q = Some t0 /\
    ((planw18 q = true /\ fsv = wall t0) \/
     (planw18 q = false /\ get_str (m18 q) K_INSTALL_PLAN_ID = Some plan /\
      fsv = match get_time (m18 q) K_FIRST_SEEN with Some x => x | None => wall t0 end)).

  Definition Pre_fs (rp : bool) (d : doc) (t0 : ctime) (pw : bool) (q : q18) : Prop :=
    InCk rp q /\ doc18 q = Some d /\ perf18 q = false /\ clk18 q = Some t0 /\ planw18 q = pw.

  Lemma to_left rp d t0 plan q : Pre_fs rp d t0 true q -> Rfs rp d t0 plan (wall t0) q.
  Proof. intros (H1 & H2 & H3 & H4 & H5). repeat split; try assumption; try apply H1. left. split; [exact H5|reflexivity]. Qed.

  Ltac unpack H := destruct H as (((Hs1 & Hs2 & Hs3 & Hs4 & Htd & Haw & Hrp & Hst) & Ham) & Hdc & Hpf & Hck & Hpw).
  Ltac repack := unfold Pre_fs, InCk, Out; fld18; repeat split; try assumption; try reflexivity.

  Lemma T_new_plan rp d t0 plan :
    TL (fun q => Pre_fs rp d t0 false q /\ match get_str (m18 q) K_INSTALL_PLAN_ID with Some p0 => bytes_eqb p0 plan | None => false end = false)
       (ok1 <- st_write (SSetStr K_INSTALL_PLAN_ID plan);;
        (if negb ok1 then ret (wall t0)
         else ok2 <- st_set_time K_FIRST_SEEN (wall t0);;
              (if negb ok2 then st_write (SRemove K_INSTALL_PLAN_ID);;; ret (wall t0) else st_write SCommit;;; ret (wall t0))))
       (Rfs rp d t0 plan).
  Proof.
    eapply tripleL_bind with (R := fun _ => Pre_fs rp d t0 true).
    { apply TL_watched_write. intros q ok [H Hne]. unpack H.
      destruct (K_plan_set plan) as [K1 K2]. eexists. split; [|split].
      - unfold step18. rewrite Htd, K1, K2, Hne. reflexivity.
      - destruct ok; reflexivity.
      - destruct ok; repack. }
    intro ok1. destruct (negb ok1); [apply tripleL_ret; intros q H; apply to_left; exact H|].
    eapply tripleL_bind with (R := fun _ => Pre_fs rp d t0 true).
    { unfold st_set_time, st_set_option_int. destruct (to_micros (wall t0)) as [z|] eqn:Ez.
      - apply TL_watched_write. intros q ok H. unpack H. destruct (K_seen_set z) as (K1 & K2 & K3). eexists. split; [|split].
        + unfold step18. rewrite Htd, K1, K2, K3, Hpw, Hck. cbn [wallc andb]. rewrite Ez, Z.eqb_refl. reflexivity.
        + destruct ok; reflexivity.
        + destruct ok; repack.
      - apply TL_watched_write. intros q ok H. unpack H. destruct K_seen_rm as (K1 & K2 & K3). eexists. split; [|split].
        + unfold step18. rewrite Htd, K1, K2, K3, Hpw. reflexivity.
        + destruct ok; reflexivity.
        + destruct ok; repack. }
    intro ok2. destruct (negb ok2).
    - eapply tripleL_bind with (R := fun _ => Pre_fs rp d t0 true); [|intro; apply tripleL_ret; intros q H; apply to_left; exact H].
      apply TL_watched_write. intros q ok H. unpack H. destruct K_plan_rm as [K1 K2]. eexists. split; [|split].
      + unfold step18. rewrite Htd, K1, K2. reflexivity.
      + destruct ok; reflexivity.
      + destruct ok; repack.
    - eapply tripleL_bind with (R := fun _ => Pre_fs rp d t0 true); [|intro; apply tripleL_ret; intros q H; apply to_left; exact H].
      apply TL_free_write; [intros q m fin H; exact H|intros q H; unpack H; exact Htd|reflexivity].
  Qed.

  Lemma T_record_first_seen rp d t0 plan :
    TL (Pre_fs rp d t0 false) (record_first_seen plan (wall t0)) (Rfs rp d t0 plan).
  Proof.
    unfold record_first_seen.
    eapply tripleL_bind; [apply TL_get_str|]. intro prev. cbv beta.
    destruct prev as [p|].
    - destruct (bytes_eqb p plan) eqn:Ep.
      + eapply tripleL_bind; [apply TL_get_time|]. intro t. apply tripleL_ret. intros q [[H Hprev] ->]. unpack H.
        unfold Rfs, InCk, Out. repeat split; try assumption. right. split; [exact Hpw|]. split; [|reflexivity].
        apply bytes_eqb_eq in Ep. subst p. symmetry. exact Hprev.
      + eapply tripleL_conseq; [apply (T_new_plan rp d t0 plan)| |auto].
        intros q [H Hprev]. split; [exact H|]. rewrite <- Hprev. exact Ep.
    - eapply tripleL_conseq; [apply (T_new_plan rp d t0 plan)| |auto].
      intros q [H Hprev]. split; [exact H|]. rewrite <- Hprev. reflexivity.
  Qed.

  (* ---------- the installer call ---------- *)
  Definition Inst (rp : bool) (d : doc) (fsv : Z) (q : q18) : Prop :=
    InCk rp q /\ doc18 q = Some d /\ perf18 q = true /\ fs18 q = Some fsv.
  Lemma Good_Inst rp d fsv : Good (Inst rp d fsv).
  Proof. unfold Inst, InCk, Out. split; [intros q m fin H; exact H|intros q H; decompose [and] H; assumption]. Qed.
  Lemma Sclk_Inst rp d fsv : Sclk (Inst rp d fsv).
  Proof. unfold Inst, InCk, Out. intros qg cg Hg; decompose [and] Hg; repeat split; try assumption; try (apply stok_clk; assumption). Qed.

  Lemma T_iperform rp d t0 plan fsv ans :
    TL (Rfs rp d t0 plan fsv) (emit (AInstaller (IPerform plan) ans)) (fun _ => Inst rp d fsv).
  Proof.
    apply (tripleL_emit step18 L18 L18_store). intros q e Hl (((Hs1 & Hs2 & Hs3 & Hs4 & Htd & Haw & Hrp & Hst) & Ham) & Hdc & Hpf & Hck & Hd).
    assert (Hc : (match get_str (m18 q) K_INSTALL_PLAN_ID with Some p0 => bytes_eqb p0 plan | None => false end || planw18 q = true)
                 /\ (if planw18 q then wallc (clk18 q) else match get_time (m18 q) K_FIRST_SEEN with Some x => x | None => wallc (clk18 q) end) = fsv).
    { rewrite Hck. cbn [wallc]. destruct Hd as [[Hpw ->]|(Hpw & Hg & ->)]; rewrite Hpw.
      - split; [apply orb_true_r|reflexivity].
      - rewrite Hg, bytes_eqb_refl. split; reflexivity. }
    destruct Hc as [Hc1 Hc2]. eexists. split; [|split].
    - unfold step18. rewrite Hc1. reflexivity.
    - exact Hl.
    - unfold Inst, InCk, Out. fld18. rewrite Hc2. repeat split; assumption.
  Qed.

  (* ---------- after an install without a failed app: first-seen metric, finish time, target version, commit, reboot question ---------- *)
  Definition InstC (rp : bool) (d : doc) (fsv : Z) (t1 : ctime) (q : q18) : Prop := Inst rp d fsv q /\ clk18 q = Some t1.
  Lemma Good_InstC rp d fsv t1 : Good (InstC rp d fsv t1).
  Proof. unfold InstC, Inst, InCk, Out. split; [intros q m fin H; exact H|intros q H; decompose [and] H; assumption]. Qed.
  Definition Fin (x : N) (rp : bool) (d : doc) (fsv : Z) (t1 : ctime) (q : q18) : Prop :=
    InstC rp d fsv t1 q /\ (fin18 q = x \/ fin18 q = 3%N).

  Ltac unpackI H := destruct H as ((((Hs1 & Hs2 & Hs3 & Hs4 & Htd & Haw & Hrp & Hst) & Ham) & Hdc & Hpf & Hfs) & Hck).
  Ltac repackI := unfold InstC, Inst, InCk, Out; fld18; repeat split; try assumption; try reflexivity.

  Lemma T_first_seen_metric rp d fsv t1 :
    TL (InstC rp d fsv t1)
       (if fsv <=? wall t1 then report (MSuccessfulUpdateFromFirstSeen (wall t1 - fsv)) else ret tt) (fun _ => InstC rp d fsv t1).
  Proof.
    destruct (fsv <=? wall t1) eqn:E; [|apply tripleL_ret; auto].
    apply (tripleL_emit step18 L18 L18_store). intros q e Hl H. exists q. split; [|split; assumption]. unpackI H.
    unfold step18. rewrite Hfs, Hck. cbn [wallc]. rewrite E, Z.eqb_refl. reflexivity.
  Qed.

  Lemma T_finish_write rp d fsv t1 :
    TL (InstC rp d fsv t1) (st_set_time K_FINISH_TIME (wall t1)) (fun _ => Fin 1%N rp d fsv t1).
  Proof.
    unfold st_set_time, st_set_option_int. destruct (to_micros (wall t1)) as [z|] eqn:Ez.
    - apply TL_watched_write. intros q ok H. unpackI H. destruct (K_fin_set z) as (K1 & K2 & K3 & K4). eexists. split; [|split].
      + unfold step18. rewrite Htd, K1, K2, K3, K4, Hpf, Hck. cbn [wallc andb]. rewrite Ez, Z.eqb_refl. reflexivity.
      + destruct ok; reflexivity.
      + destruct ok; (split; [repackI|fld18; auto]).
    - apply TL_watched_write. intros q ok H. unpackI H. destruct K_fin_rm as (K1 & K2 & K3 & K4). eexists. split; [|split].
      + unfold step18. rewrite Htd, K1, K2, K3, K4, Hpf, Hck. cbn [wallc andb]. rewrite Ez. reflexivity.
      + destruct ok; reflexivity.
      + destruct ok; (split; [repackI|fld18; auto]).
  Qed.

  Lemma T_target_version_write rp d fsv t1 (next : option bytes) :
    In next (offers d SID) ->
    TL (Fin 1%N rp d fsv t1) (st_write (SSetStr K_TARGET_VERSION (match next with Some v => v | None => s2b "UNKNOWN" end)))
       (fun _ => Fin 1%N rp d fsv t1).
  Proof.
    intro Hin. apply TL_watched_write. intros q ok [H Hfin]. unpackI H.
    destruct (K_tv_set (match next with Some v => v | None => s2b "UNKNOWN" end)) as (K1 & K2 & K3 & K4 & K5).
    assert (Hex : existsb (fun o => bytes_eqb (match next with Some v => v | None => s2b "UNKNOWN" end) (match o with Some x => x | None => s2b "UNKNOWN" end)) (offers d SID) = true).
    { apply existsb_exists. exists next. split; [exact Hin|apply bytes_eqb_refl]. }
    eexists. split; [|split].
    - unfold step18. rewrite Htd, K1, K2, K3, K4, K5, Hdc, Hpf, Hs4, Hex. reflexivity.
    - destruct ok; reflexivity.
    - destruct ok; (split; [repackI|fld18; tauto]).
  Qed.

  Lemma T_commit_after_finish rp d fsv t1 : TL (Fin 1%N rp d fsv t1) (st_write SCommit) (fun _ => Fin 2%N rp d fsv t1).
  Proof.
    apply TL_watched_write. intros q ok [H Hfin]. unpackI H. destruct commit_key_is as (K1 & K2 & K3 & K4 & K5). eexists. split; [|split].
    - unfold step18. rewrite Htd, K1, K2, K3, K4, K5. reflexivity.
    - destruct ok; reflexivity.
    - destruct ok; (split; [repackI|fld18]); [|right; reflexivity].
      destruct Hfin as [-> | ->]; [left|right]; reflexivity.
  Qed.

  Lemma T_reboot_needed_question rp d fsv t1 plan rn :
    TL (Fin 2%N rp d fsv t1) (emit (APolicy (QRebootNeeded plan) (PBool rn))) (fun _ => InCk rp).
  Proof.
    apply (tripleL_emit step18 L18 L18_store). intros q e Hl [H Hfin]. exists q. split; [|split; [exact Hl|apply H]].
    unfold step18. destruct Hfin as [-> | ->]; reflexivity.
  Qed.

  (* ---------- the install-attempt counter ---------- *)
  Lemma T_report_attempts rp s :
    TL (InCk rp) (report_attempts_to_successful_install s) (fun _ q => Out rp q /\ attm18 q = Some s).
  Proof.
    unfold report_attempts_to_successful_install.
    eapply tripleL_bind; [apply TL_get_int|]. intro v. cbv beta.
    set (attempts := sat_inc_i64 (match v with Some z => z | None => 0 end)).
    set (wop := if s then SRemove K_FAILED_INSTALLS else SSetInt K_FAILED_INSTALLS attempts).
    eapply tripleL_bind with (R := fun _ q => Out rp q /\ attm18 q = Some s /\ False \/ (should18 q = SH /\ fin018 q = F0 /\ osver18 q = OSV /\ sysid18 q = SID
                                          /\ todo18 q = [] /\ attw18 q = Some wop /\ rep18 q = rp /\ match ST with Some s0 => start18 q = Some s0 | None => True end /\ attm18 q = Some s)).
    { unfold report. apply (tripleL_emit step18 L18 L18_store). intros q e Hl [((Hs1 & Hs2 & Hs3 & Hs4 & Htd & Haw & Hrp & Hst) & Ham) Hv].
      eexists. split; [unfold step18; rewrite Ham, <- Hv; fold attempts; rewrite Z.eqb_refl; reflexivity|].
      split; [exact Hl|]. right. fld18. repeat split; try assumption; try (unfold wop; destruct s; reflexivity). }
    intros _.
    eapply tripleL_bind with (R := fun _ q => Out rp q /\ attm18 q = Some s); [|intro; apply tripleL_ret; auto].
    assert (Hw : TL (fun q => should18 q = SH /\ fin018 q = F0 /\ osver18 q = OSV /\ sysid18 q = SID
                              /\ todo18 q = [] /\ attw18 q = Some wop /\ rep18 q = rp /\ match ST with Some s0 => start18 q = Some s0 | None => True end /\ attm18 q = Some s)
                    (st_write wop) (fun _ q => Out rp q /\ attm18 q = Some s)).
    { apply TL_watched_write. intros q ok (Hs1 & Hs2 & Hs3 & Hs4 & Htd & Haw & Hrp & Hst & Ham).
      assert (Hk : key_is K_FAILED_INSTALLS wop = true) by (unfold wop; destruct s; reflexivity).
      eexists. split; [|split].
      - unfold step18. rewrite Htd, Hk, Haw, store_op_eqb_refl. reflexivity.
      - destruct ok; reflexivity.
      - destruct ok; unfold Out; fld18; repeat split; assumption. }
    eapply tripleL_conseq; [destruct s; exact Hw| |auto]. intros q [(_ & _ & [])|H]. exact H.
  Qed.

  (* ---------- perform_update_check ---------- *)
  Ltac gn H := match goal with |- TL ?P _ _ => eapply tripleL_bind; [apply (H P); first [apply GoodC_InCk | apply GoodC_Out | assumption]|intro; cbv beta] end.
  Tactic Notation "gna" constr(H) "as" ident(x) :=
    match goal with |- TL ?P _ _ => eapply tripleL_bind; [apply (H P); first [apply GoodC_InCk | apply GoodC_Out | assumption]|intro x; cbv beta] end.
  Lemma Good_InCk rp : Good (InCk rp). Proof. apply GoodC_InCk. Qed.
  Lemma Good_Out rp : Good (Out rp). Proof. apply GoodC_Out. Qed.
  Ltac nn H := match goal with |- TL ?P _ _ => eapply tripleL_bind; [apply (H P); first [apply Good_InCk | apply Good_Out | assumption]|intro; cbv beta] end.
  Tactic Notation "nna" constr(H) "as" ident(x) :=
    match goal with |- TL ?P _ _ => eapply tripleL_bind; [apply (H P); first [apply Good_InCk | apply Good_Out | assumption]|intro x; cbv beta] end.

  Definition DocP (rp : bool) (d : doc) (q : q18) : Prop := InCk rp q /\ doc18 q = Some d /\ perf18 q = false /\ planw18 q = false.
  Lemma GoodC_DocP rp d : GoodC (DocP rp d). Proof. unfold DocP, InCk, Out. good. Qed.


  Lemma retp_report_check_interval src m : retp (report_check_interval src m) (sapps m).
  Proof.
    unfold report_check_interval. eapply retp_bind; [apply retp_any|]. intros n _. eapply retp_bind; [apply retp_any|]. intros ? _.
    apply retp_ret. reflexivity.
  Qed.
  Lemma sapps_trans a b c : sapps a b -> sapps b c -> sapps a c.
  Proof. unfold sapps. congruence. Qed.

  Lemma InstC_InCk rp d fsv t1 q : InstC rp d fsv t1 q -> InCk rp q.
  Proof. intros [[H _] _]. exact H. Qed.
  Lemma DocP_InCk rp d q : DocP rp d q -> InCk rp q.
  Proof. intros [H _]. exact H. Qed.

  Ltac ny G := match goal with
    | |- TL ?P (bind (yield_ ?ev) _) _ => eapply tripleL_bind; [apply (nL_yield ev eq_refl P G)|]
    | |- TL ?P (bind (yield_state ?s) _) _ => eapply tripleL_bind; [apply (nL_yield (EvState s) eq_refl P G)|]
    end.
  Ltac ne G := match goal with |- TL ?P (bind (emit ?a) _) _ => eapply tripleL_bind; [apply (nL_emit a eq_refl P G)|] end.

  Lemma T_perform18 fuel p m rp :
    SID = match m_apps m with a :: _ => a_id a | [] => [] end ->
    TL (Out rp) (perform_update_check fuel p (m_apps m) m) (fun r q => InCk rp q /\ sapps m (fst r)).
  Proof.
    intro Hsid. unfold perform_update_check.
    set (P0 := fun q => InCk rp q /\ doc18 q = None /\ perf18 q = false /\ planw18 q = false).
    assert (HG0 : GoodC P0) by (unfold P0, InCk, Out; good).
    eapply tripleL_bind with (R := fun _ => P0).
    { apply TL_yield. intros q e Hl (Hs1 & Hs2 & Hs3 & Hs4 & Htd & Haw & Hrp & Hst). eexists. split; [reflexivity|]. split; [exact Hl|].
      unfold P0, InCk, Out. fld18. repeat split; assumption. }
    intro. cbv beta.
    eapply tripleL_bind; [apply TL_and_ret; [apply (nLc_report_check_interval _ _ P0 HG0)|apply retp_report_check_interval]|].
    intro m0. cbv beta. apply TL_pre. intro Ha0.
    eapply tripleL_bind; [apply (nL_quiet _ quietL_fresh_guid P0 (proj1 HG0))|]. intro sess. cbv beta.
    eapply tripleL_bind; [apply TL_and_ret; [apply (nLc_attempt_loop _ _ _ _ _ P0 HG0)|apply retp_attempt_loop]|].
    intros [[m1 attempts] res]. cbv beta. cbn [fst]. apply TL_pre. intro Ha1.
    assert (Hm1 : sapps m m1) by (eapply sapps_trans; eassumption).
    eapply tripleL_bind; [apply (nL_report (MRequestsPerCheck attempts (match res with inr _ => true | inl _ => false end)) eq_refl P0 (proj1 HG0))|]. intro. cbv beta.
    assert (HP0 : forall q, P0 q -> InCk rp q) by (intros q [H _]; exact H).
    destruct res as [e|[d|]].
    - apply tripleL_ret. intros q Hq. split; [apply HP0; exact Hq|exact Hm1].
    - (* a document *)
      eapply tripleL_bind with (R := fun _ => DocP rp d).
      { apply TL_yield. intros q e Hl (((Hs1 & Hs2 & Hs3 & Hs4 & Htd & Haw & Hrp & Hst) & Ham) & Hdc & Hpf & Hpw). eexists. split; [reflexivity|].
        split; [exact Hl|]. unfold DocP, InCk, Out. fld18. repeat split; assumption. }
      intro. cbv beta. pose proof (GoodC_DocP rp d) as HGd.
      assert (Hend : forall (mm : sm) x, sapps m mm ->
                TL (DocP rp d) (ret (mm, x : check_err + (list app_response * reboot))) (fun r q => InCk rp q /\ sapps m (fst r))).
      { intros mm x Hmm. apply tripleL_ret. intros q Hq. split; [eapply DocP_InCk; exact Hq|exact Hmm]. }
      destruct (filter uc_ok (d_apps d)) as [|wu0 wur] eqn:Hwu.
      + ny ((proj1 HGd)). intro. apply Hend. exact Hm1.
      + rewrite <- Hwu.
        change (map (fun r => (r_id r, manifest_version r)) (filter uc_ok (d_apps d))) with (nv_of (filter uc_ok (d_apps d))).
        set (nv := nv_of (filter uc_ok (d_apps d))).
        eapply tripleL_bind; [apply (nL_quiet _ quietL_pop_plan _ (proj1 HGd))|]. intro pl. cbv beta.
        ne ((proj1 HGd)). intro. cbv beta.
        destruct pl as [plan|].
        2:{ ny ((proj1 HGd)). intro.
            ny ((proj1 HGd)). intro. cbv beta.
            eapply tripleL_bind; [apply TL_and_ret; [apply (nL_report_event _ _ _ _ _ _ _ _ (proj1 HGd))|apply retp_report_event]|].
            intro m2. cbv beta. apply TL_pre. intro Ha2. apply Hend. eapply sapps_trans; eassumption. }
        eapply tripleL_bind; [apply (nL_quiet _ quietL_pop_can_start _ (proj1 HGd))|]. intro dec. cbv beta.
        ne ((proj1 HGd)). intro. cbv beta.
        destruct dec.
        * (* approved *)
          ny ((proj1 HGd)). intro. cbv beta.
          eapply tripleL_bind; [apply TL_and_ret; [apply (nL_report_event _ _ _ _ _ _ _ _ (proj1 HGd))|apply retp_report_event]|].
          intro m2. cbv beta. apply TL_pre. intro Ha2.
          assert (Hm2 : sapps m m2) by (eapply sapps_trans; eassumption).
          eapply tripleL_bind; [apply (TL_now _ (proj2 HGd))|]. intro t0. cbv beta.
          eapply tripleL_bind.
          { eapply tripleL_conseq; [apply (T_record_first_seen rp d t0 plan)| |intros af qf Hf; exact Hf].
            intros q [(H1 & H2 & H3 & H4) Hc]. exact (conj H1 (conj H2 (conj H3 (conj Hc H4)))). }
          intro fsv. cbv beta.
          eapply tripleL_bind; [apply TL_quiet, quietL_pop_perform|]. intro pa. cbv beta.
          eapply tripleL_bind; [apply T_iperform|]. intro. cbv beta.
          eapply tripleL_bind; [apply (nL_iterM _ _ (fun bits => nL_yield (EvProgress bits) eq_refl) _ (Good_Inst rp d fsv))|]. intro. cbv beta.
          eapply tripleL_bind; [apply (TL_now _ (Sclk_Inst rp d fsv))|]. intro t1. cbv beta.
          eapply tripleL_conseq with (P' := InstC rp d fsv t1); [|intros qx Hqx; exact Hqx|intros ax qx Hx; exact Hx].
          pose proof (Good_InstC rp d fsv t1) as HGi.
          eapply tripleL_bind with (R := fun _ => InstC rp d fsv t1).
          { match goal with |- TL _ (if ?c then _ else _) _ => destruct c end; [|apply tripleL_ret; auto].
            eapply tripleL_bind with (R := fun _ => InstC rp d fsv t1); [|intro; apply tripleL_ret; auto].
            match goal with |- TL _ (report ?x) _ => apply (nL_report x) end; [|exact HGi].
            match goal with |- boring18 (AMetric (if ?c then _ else _)) = true => destruct c end; reflexivity. }
          intro dur. cbv beta.
          eapply tripleL_bind; [apply (nL_quiet _ quietL_fresh_guid _ HGi)|]. intro req. cbv beta.
          eapply tripleL_bind; [apply (nL_maybe_ids _ _ _ _ _ HGi)|]. intro b. cbv beta.
          eapply tripleL_bind; [apply TL_and_ret; [apply (nL_do_req _ _ _ HGi)|apply retp_do_req]|].
          intros [m3 rr]. cbv beta. cbn [fst]. apply TL_pre. intro Ha3.
          eapply tripleL_bind with (R := fun _ => InstC rp d fsv t1).
          { destruct rr; [|apply tripleL_ret; auto]. apply (nL_iterM (fun x : app * ares * event => report (MOmahaEventLost (snd x))) _ (fun x => nL_report (MOmahaEventLost (snd x)) eq_refl) _ HGi). }
          intro. cbv beta.
          eapply tripleL_bind with (R := fun m4 q => InstC rp d fsv t1 q /\ sapps m3 m4).
          { match goal with |- TL _ (match ?l with [] => _ | _ => _ end) _ => destruct l end.
            - apply tripleL_ret. intros q Hq. split; [exact Hq|reflexivity].
            - apply TL_and_ret; [apply (nL_report_event _ _ _ _ _ _ _ _ HGi)|apply retp_report_event]. }
          intro m4. cbv beta. apply TL_pre. intro Ha4.
          assert (Hm4 : sapps m m4) by (repeat (eapply sapps_trans; [eassumption|]); reflexivity).
          match goal with |- TL _ (match ?n with O => _ | S _ => _ end) _ => destruct n as [|nerr] end.
          -- eapply tripleL_bind; [apply T_first_seen_metric|]. intro. cbv beta.
             eapply tripleL_bind; [apply T_finish_write|]. intro. cbv beta.
             eapply tripleL_bind with (R := fun _ => Fin 1%N rp d fsv t1).
             { rewrite Hm4, <- Hsid. pose proof (nv_get_offers (d_apps d) SID) as Hoff. fold nv in Hoff.
               destruct (nv_get nv SID) as [next|]; [|apply tripleL_ret; auto].
               eapply tripleL_bind; [apply (T_target_version_write rp d fsv t1 next)|intro; apply tripleL_ret; auto].
               rewrite offers_eq. exact Hoff. }
             intro. cbv beta.
             eapply tripleL_bind; [apply T_commit_after_finish|]. intro. cbv beta.
             eapply tripleL_bind; [apply TL_quiet, quietL_pop_reboot_needed|]. intro rn. cbv beta.
             eapply tripleL_bind; [apply T_reboot_needed_question|]. intro. cbv beta.
             apply tripleL_ret. intros q Hq. split; [exact Hq|exact Hm4].
          -- eapply tripleL_bind; [apply (nL_iterM _ _ (fun _ : unit => nL_yield EvInstallerError eq_refl) _ HGi)|]. intro. cbv beta.
             ny (HGi). intro. cbv beta.
             apply tripleL_ret. intros q Hq. split; [eapply InstC_InCk; exact Hq|exact Hm4].
        * eapply tripleL_bind; [apply TL_and_ret; [apply (nL_report_event _ _ _ _ _ _ _ _ (proj1 HGd))|apply retp_report_event]|].
          intro m2. cbv beta. apply TL_pre. intro Ha2.
          ny ((proj1 HGd)). intro. apply Hend. eapply sapps_trans; eassumption.
        * eapply tripleL_bind; [apply TL_and_ret; [apply (nL_report_event _ _ _ _ _ _ _ _ (proj1 HGd))|apply retp_report_event]|].
          intro m2. cbv beta. apply TL_pre. intro Ha2. apply Hend. eapply sapps_trans; eassumption.
    - (* unparseable body *)
      ny ((proj1 HG0)). intro. cbv beta.
      eapply tripleL_bind; [apply TL_and_ret; [apply (nL_report_event _ _ _ _ _ _ _ _ (proj1 HG0))|apply retp_report_event]|].
      intro m2. cbv beta. apply TL_pre. intro Ha2.
      apply tripleL_ret. intros q Hq. split; [apply HP0; exact Hq|eapply sapps_trans; eassumption].
  Qed.

  (* ---------- start_update_check ---------- *)
  Lemma inst_outcome_fold rs : install_success rs = inst_outcome rs.
  Proof.
    unfold install_success, inst_outcome.
    assert (H : forall acc, fold_left (fun acc r => match acc, ar_result r with
                                                     | _, AInstallPlanExecutionError => Some false
                                                     | None, AUpdated => Some true
                                                     | a, _ => a end) rs acc =
              match acc with
              | Some false => Some false
              | Some true => if existsb (fun r => match ar_result r with AInstallPlanExecutionError => true | _ => false end) rs then Some false else Some true
              | None => if existsb (fun r => match ar_result r with AInstallPlanExecutionError => true | _ => false end) rs then Some false
                        else if existsb (fun r => match ar_result r with AUpdated => true | _ => false end) rs then Some true else None
              end).
    { induction rs as [|r rs IH]; intro acc; cbn [fold_left existsb]; [destruct acc as [[|]|]; reflexivity|].
      rewrite IH. destruct acc as [[|]|], (ar_result r); cbn [orb]; try reflexivity;
        destruct (existsb (fun r0 => match ar_result r0 with AInstallPlanExecutionError => true | _ => false end) rs); reflexivity. }
    exact (H None).
  Qed.

  Definition ids_of (m : sm) : list bytes := map a_id (m_apps m).

  Lemma T_start18 fuel p m rp :
    SID = match m_apps m with a :: _ => a_id a | [] => [] end -> apps_free (m_apps m) = true ->
    TL (Out rp) (start_update_check fuel p m) (fun r q => Out rp q /\ ids_of (fst r) = ids_of m).
  Proof.
    intros Hsid Hfree. unfold start_update_check.
    eapply tripleL_bind; [apply (T_perform18 fuel p m rp Hsid)|]. intros [m1 res]. cbv beta. cbn [fst]. apply TL_pre. intro Ha1.
    pose proof (GoodC_InCk rp) as HGc. pose proof (GoodC_Out rp) as HGo.
    eapply tripleL_bind with
      (R := fun fin q => (Out rp q /\ attm18 q = match snd (fst fin) with inr rs => inst_outcome rs | inl _ => None end)
                         /\ ids_of (fst (fst fin)) = ids_of m).
    { destruct res as [e|[rs rb]].
      - eapply tripleL_bind with (R := fun mr q => InCk rp q /\ m_apps (fst mr) = m_apps m).
        { destruct e as [re| |].
          + destruct re; apply tripleL_ret; intros q Hq; (split; [exact Hq|exact Ha1]).
          + eapply tripleL_bind; [apply (nLc_now _ HGc)|]. intro n. apply tripleL_ret. intros q Hq. split; [exact Hq|exact Ha1].
          + eapply tripleL_bind; [apply (nLc_now _ HGc)|]. intro n. apply tripleL_ret. intros q Hq. split; [exact Hq|exact Ha1]. }
        intros [m2 reason]. cbv beta. cbn [fst]. apply TL_pre. intro Ha2.
        eapply tripleL_bind; [apply (nL_report (MFailureReason reason) eq_refl _ (proj1 HGc))|]. intro. cbv beta.
        apply tripleL_ret. intros q [Ho Ham]. cbn [fst snd]. split; [split; [exact Ho|exact Ham]|]. unfold ids_of; cbn [with_ps m_apps]; rewrite Ha2; reflexivity.
      - eapply tripleL_bind; [apply (nLc_now _ HGc)|]. intro n. cbv beta.
        match goal with |- TL _ (bind (report ?x) _) _ => eapply tripleL_bind; [apply (nL_report x eq_refl _ (proj1 HGc))|] end. intro. cbv beta.
        eapply tripleL_bind with (R := fun _ q => Out rp q /\ attm18 q = inst_outcome rs).
        { rewrite inst_outcome_fold. destruct (inst_outcome rs) as [s|].
          - apply T_report_attempts.
          - apply tripleL_ret. intros q [Ho Ham]. split; assumption. }
        intro. apply tripleL_ret. intros q [Ho Ham]. cbn [fst snd]. split; [split; [exact Ho|exact Ham]|].
        unfold ids_of. cbn [with_apps with_ps with_sched m_apps]. rewrite update_from_omaha_ids, Ha1. reflexivity. }
    intros [[m2 result] rb]. cbv beta. cbn [fst snd]. apply TL_pre. intro Hids.
    set (PA := fun q => Out rp q /\ attm18 q = match result with inr rs => inst_outcome rs | inl _ => None end).
    assert (HGA : GoodC PA) by (unfold PA, Out; good).
    match goal with |- TL _ (bind (yield_ ?ev) _) _ => eapply tripleL_bind; [apply (nL_yield ev eq_refl PA (proj1 HGA))|] end. intro. cbv beta.
    match goal with |- TL _ (bind (yield_ ?ev) _) _ => eapply tripleL_bind; [apply (nL_yield ev eq_refl PA (proj1 HGA))|] end. intro. cbv beta.
    eapply tripleL_bind with (R := fun _ => Out rp).
    { apply TL_yield. intros q e Hl [Ho Ham]. exists q. split; [|split; [exact Hl|exact Ho]].
      destruct Ho as (Hs1 & Hs2 & Hs3 & Hs4 & Htd & Haw & Hrp & Hst). unfold step18. rewrite Haw, Ham.
      destruct result as [er|rs]; [reflexivity|]. destruct (inst_outcome rs) as [[|]|]; reflexivity. }
    intro. cbv beta.
    assert (Hf2 : apps_free (m_apps m2) = true) by (rewrite (apps_free_ids _ _ Hids); exact Hfree).
    eapply tripleL_bind; [apply (nL_persist_data m2 Hf2 _ (proj1 HGo))|]. intro. cbv beta.
    apply tripleL_ret. intros q Hq. split; [exact Hq|exact Hids].
  Qed.

  (* ---------- waiting for the reboot: nothing the monitor watches, app ids kept ---------- *)
  Definition sids (m m' : sm) : Prop := ids_of m' = ids_of m.
  Lemma sids_trans a b c : sids a b -> sids b c -> sids a c. Proof. unfold sids. congruence. Qed.
  Lemma sids_of_sapps a b : sapps a b -> sids a b. Proof. unfold sapps, sids, ids_of. intros ->. reflexivity. Qed.
  Lemma free_sids a b : sids a b -> apps_free (m_apps a) = true -> apps_free (m_apps b) = true.
  Proof. intros H Hf. rewrite (apps_free_ids (m_apps b) (m_apps a) H). exact Hf. Qed.

  Lemma retp_update_next m : retp (update_next_update_time m) (fun r => sids m (fst r)).
  Proof.
    unfold update_next_update_time. eapply retp_bind; [apply retp_any|]. intros t _. eapply retp_bind; [apply retp_any|]. intros ? _.
    eapply retp_bind; [apply retp_any|]. intros ? _. apply retp_ret. reflexivity.
  Qed.

  Lemma retp_ping m : retp (ping_omaha m) (sids m).
  Proof.
    unfold ping_omaha. eapply retp_bind; [apply retp_any|]. intros sess _. eapply retp_bind; [apply retp_any|]. intros req _.
    eapply retp_bind; [apply retp_any|]. intros b _. eapply retp_bind; [apply retp_do_req|]. intros [m1 res] Hm1; cbn [fst] in Hm1.
    assert (Hf : retp (persist_data (with_ps m1 (set_fails (m_ps m1) (sat_inc_u32 (ps_fails (m_ps m1)))));;;
                       ret (with_ps m1 (set_fails (m_ps m1) (sat_inc_u32 (ps_fails (m_ps m1)))))) (sids m)).
    { eapply retp_bind; [apply retp_any|]. intros ? _. apply retp_ret. apply sids_of_sapps. exact Hm1. }
    destruct res as [er|[d|]]; [exact Hf| |exact Hf].
    eapply retp_bind; [apply retp_any|]. intros n _. eapply retp_bind; [apply retp_any|]. intros ? _.
    eapply retp_bind; [apply retp_any|]. intros ? _. apply retp_ret.
    unfold sids, ids_of. cbn [with_apps with_sched with_ps m_apps]. rewrite update_from_omaha_ids, Hm1. reflexivity.
  Qed.

  Lemma nLc_ping m : apps_free (m_apps m) = true -> nLc (ping_omaha m).
  Proof.
    intro Hfree. unfold ping_omaha. intros P HP. pose proof (proj1 HP) as HG.
    eapply tripleL_bind; [apply (nL_quiet _ quietL_fresh_guid P HG)|]. intro sess. cbv beta.
    eapply tripleL_bind; [apply (nL_quiet _ quietL_fresh_guid P HG)|]. intro req. cbv beta.
    eapply tripleL_bind; [apply (nL_maybe_ids _ _ _ _ P HG)|]. intro b. cbv beta.
    eapply tripleL_bind; [apply TL_and_ret; [apply (nL_do_req _ _ P HG)|apply retp_do_req]|].
    intros [m1 res]. cbv beta. cbn [fst]. apply TL_pre. intro Hm1.
    assert (Hf1 : forall mm, m_apps mm = m_apps m1 -> apps_free (m_apps mm) = true).
    { intros mm Hmm. rewrite Hmm, Hm1. exact Hfree. }
    assert (Hf : TL P (persist_data (with_ps m1 (set_fails (m_ps m1) (sat_inc_u32 (ps_fails (m_ps m1)))));;;
                       ret (with_ps m1 (set_fails (m_ps m1) (sat_inc_u32 (ps_fails (m_ps m1)))))) (fun _ => P)).
    { eapply tripleL_bind; [apply (nL_persist_data (with_ps m1 (set_fails (m_ps m1) (sat_inc_u32 (ps_fails (m_ps m1))))) (Hf1 _ eq_refl) P HG)|]. intro. apply tripleL_ret. auto. }
    destruct res as [er|[d|]]; [exact Hf| |exact Hf].
    eapply tripleL_bind; [apply (nLc_now P HP)|]. intro n. cbv beta.
    match goal with |- TL _ (bind (yield_ ?ev) _) _ => eapply tripleL_bind; [apply (nL_yield ev eq_refl P HG)|] end. intro. cbv beta.
    match goal with |- TL _ (bind (persist_data ?x) _) _ => eapply tripleL_bind; [apply (nL_persist_data x)|]; [|exact HG|] end.
    - cbn [with_apps with_sched with_ps m_apps]. rewrite ids_free_update, Hm1. exact Hfree.
    - intro. apply tripleL_ret. auto.
  Qed.

  Lemma both_reboot_loop fuel : forall src pending m, apps_free (m_apps m) = true ->
    nLc (reboot_loop fuel src pending m) /\ retp (reboot_loop fuel src pending m) (sids m).
  Proof.
    induction fuel as [|f IH]; intros src pending m Hfree; cbn [reboot_loop]; [split; [apply nLc_halt|apply retp_halt]|].
    split.
    - apply nLc_bind; [apply nLc_of, nL_quiet, quietL_pop_queued|]. intros [[id sc]|].
      { apply nLc_bind; [apply nLc_of, nL_handle_in_reboot|]. intros [|]; [apply nLc_ret|apply (IH _ _ _ Hfree)]. }
      apply nLc_bind; [apply nLc_of, nL_quiet, quietL_pop_stim|]. intros [i|sc|].
      + assert (Hping : nLc (m1 <- ping_omaha m;; mt <- update_next_update_time m1;;
                             (let '(m2, t) := mt in roles <- make_wait t;; reboot_loop f src (remove_nth i pending ++ roles) m2))).
        { intros P HP.
          eapply tripleL_bind; [apply TL_and_ret; [apply (nLc_ping m Hfree P HP)|apply retp_ping]|]. intro m1. cbv beta. apply TL_pre. intro H1.
          eapply tripleL_bind; [apply TL_and_ret; [apply (nL_update_next m1 P (proj1 HP))|apply retp_update_next]|].
          intros [m2 t]. cbv beta. cbn [fst]. apply TL_pre. intro H2.
          eapply tripleL_bind; [apply (nL_make_wait t P (proj1 HP))|]. intro roles. cbv beta.
          apply (IH src _ m2); [|exact HP]. eapply free_sids; [|exact Hfree]. eapply sids_trans; eassumption. }
        destruct (nth_error pending i) as [[| |]|].
        * destruct (has_ping_roles (remove_nth i pending)); [apply (IH _ _ _ Hfree)|exact Hping].
        * destruct (has_ping_roles (remove_nth i pending)); [apply (IH _ _ _ Hfree)|exact Hping].
        * apply nLc_bind; [apply nLc_of, nL_ask_reboot|]. intros [|]; [apply nLc_ret|].
          apply nLc_bind; [apply nLc_of, nL_emit; reflexivity|intro]. apply (IH _ _ _ Hfree).
        * apply (IH _ _ _ Hfree).
      + apply nLc_bind; [apply nLc_of, nL_quiet, quietL_next_ctl|]. intro id.
        apply nLc_bind; [apply nLc_of, nL_emit; reflexivity|intro].
        apply nLc_bind; [apply nLc_of, nL_handle_in_reboot|]. intros [|]; [apply nLc_ret|apply (IH _ _ _ Hfree)].
      + apply (IH _ _ _ Hfree).
    - eapply retp_bind; [apply retp_any|]. intros [[id sc]|] _.
      { eapply retp_bind; [apply retp_any|]. intros [|] _; [apply retp_ret; reflexivity|apply (IH _ _ _ Hfree)]. }
      eapply retp_bind; [apply retp_any|]. intros [i|sc|] _.
      + assert (Hping : retp (m1 <- ping_omaha m;; mt <- update_next_update_time m1;;
                              (let '(m2, t) := mt in roles <- make_wait t;; reboot_loop f src (remove_nth i pending ++ roles) m2)) (sids m)).
        { eapply retp_bind; [apply retp_ping|]. intros m1 H1. eapply retp_bind; [apply retp_update_next|]. intros [m2 t] H2. cbn [fst] in H2.
          eapply retp_bind; [apply retp_any|]. intros roles _.
          eapply retp_conseq; [apply (IH src _ m2); eapply free_sids; [|exact Hfree]; eapply sids_trans; eassumption|].
          intros r Hr. eapply sids_trans; [eapply sids_trans; eassumption|exact Hr]. }
        destruct (nth_error pending i) as [[| |]|].
        * destruct (has_ping_roles (remove_nth i pending)); [apply (IH _ _ _ Hfree)|exact Hping].
        * destruct (has_ping_roles (remove_nth i pending)); [apply (IH _ _ _ Hfree)|exact Hping].
        * eapply retp_bind; [apply retp_any|]. intros [|] _; [apply retp_ret; reflexivity|].
          eapply retp_bind; [apply retp_any|]. intros ? _. apply (IH _ _ _ Hfree).
        * apply (IH _ _ _ Hfree).
      + eapply retp_bind; [apply retp_any|]. intros id _. eapply retp_bind; [apply retp_any|]. intros ? _.
        eapply retp_bind; [apply retp_any|]. intros [|] _; [apply retp_ret; reflexivity|apply (IH _ _ _ Hfree)].
      + apply (IH _ _ _ Hfree).
  Qed.

  Lemma both_wait_for_reboot fuel src m : apps_free (m_apps m) = true ->
    nLc (wait_for_reboot fuel src m) /\ retp (wait_for_reboot fuel src m) (sids m).
  Proof.
    intro Hfree. unfold wait_for_reboot. split.
    - apply nLc_bind; [apply nLc_of, nL_ask_reboot|]. intro ok.
      apply nLc_bind.
      { destruct ok; [apply nLc_ret|]. apply nLc_bind; [apply nLc_of, nL_emit; reflexivity|intro].
        intros P HP. eapply tripleL_bind; [apply TL_and_ret; [apply (nL_update_next m P (proj1 HP))|apply retp_update_next]|].
        intros [m1 t]. cbv beta. cbn [fst]. apply TL_pre. intro H1.
        eapply tripleL_bind; [apply (nL_make_wait t P (proj1 HP))|]. intro roles. cbv beta.
        apply (both_reboot_loop fuel src _ m1); [eapply free_sids; eassumption|exact HP]. }
      intro m1. apply nLc_bind; [apply nLc_of, nL_quiet, quietL_pop_reboot|]. intro okr.
      apply nLc_bind; [apply nLc_of, nL_emit; reflexivity|intro]. apply nLc_ret.
    - eapply retp_bind; [apply retp_any|]. intros ok _.
      eapply retp_bind with (R1 := sids m).
      { destruct ok; [apply retp_ret; reflexivity|]. eapply retp_bind; [apply retp_any|]. intros ? _.
        eapply retp_bind; [apply retp_update_next|]. intros [m1 t] H1. cbn [fst] in H1.
        eapply retp_bind; [apply retp_any|]. intros roles _.
        eapply retp_conseq; [apply (both_reboot_loop fuel src _ m1); eapply free_sids; eassumption|].
        intros r Hr. eapply sids_trans; eassumption. }
      intros m1 H1. eapply retp_bind; [apply retp_any|]. intros okr _. eapply retp_bind; [apply retp_any|]. intros ? _.
      apply retp_ret. exact H1.
  Qed.

  (* ---------- one iteration of continuous operation ---------- *)
  Lemma TL_pre_ex {A X} (P : X -> q18 -> Prop) (m : M A) Q : (forall x, TL (P x) m Q) -> TL (fun q => exists x, P x q) m Q.
  Proof. intros H q0 e q Hq Hl [x Hp]. exact (H x q0 e q Hq Hl Hp). Qed.

  Definition first_id (m : sm) : bytes := match m_apps m with a :: _ => a_id a | [] => [] end.
  Lemma first_id_sids m m' : sids m m' -> first_id m' = first_id m.
  Proof.
    unfold sids, ids_of, first_id. intro H. destruct (m_apps m) as [|a l], (m_apps m') as [|a' l']; try discriminate; [reflexivity|].
    cbn [map] in H. inversion H. reflexivity.
  Qed.

  Lemma T_waited_report fin sm_start n d rp :
    ST = Some sm_start -> F0 = fin -> SH = true -> rp = false -> waited_for_reboot fin sm_start n = Some d ->
    TL (fun q => Out rp q /\ clk18 q = Some n)
       (report (MWaitedForReboot d);;; st_write (SRemove K_FINISH_TIME);;; st_write (SRemove K_TARGET_VERSION);;; st_write SCommit;;; ret false)
       (fun a q => Out true q /\ a = false).
  Proof.
    intros HST HF HSH Hrp Hw.
    set (Tq := fun (td : list store_op) (q : q18) =>
                 should18 q = SH /\ fin018 q = F0 /\ osver18 q = OSV /\ sysid18 q = SID /\ todo18 q = td /\ attw18 q = None /\ rep18 q = true
                 /\ match ST with Some s => start18 q = Some s | None => True end).
    eapply tripleL_bind with (R := fun _ => Tq [SRemove K_FINISH_TIME; SRemove K_TARGET_VERSION; SCommit]).
    { unfold report. apply (tripleL_emit step18 L18 L18_store). intros q e Hl [(Hs1 & Hs2 & Hs3 & Hs4 & Htd & Haw & Hrp0 & Hst) Hck].
      assert (Hst' : start18 q = Some sm_start) by (rewrite HST in Hst; exact Hst).
      eexists. split; [unfold step18; rewrite Hst', Hck, Hs1, HSH, Hrp0, Hrp, Hs2, HF, Hw, Z.eqb_refl; reflexivity|].
      split; [exact Hl|]. unfold Tq. fld18. repeat split; assumption. }
    intro. cbv beta.
    assert (Hstep : forall x rest, TL (Tq (x :: rest)) (st_write x) (fun _ => Tq rest)).
    { intros x rest. apply TL_watched_write. intros q ok (Hs1 & Hs2 & Hs3 & Hs4 & Htd & Haw & Hrp0 & Hst). eexists. split; [|split].
      - unfold step18. rewrite Htd, store_op_eqb_refl. reflexivity.
      - destruct ok; reflexivity.
      - destruct ok; unfold Tq; fld18; repeat split; assumption. }
    eapply tripleL_bind; [apply Hstep|]. intro. cbv beta.
    eapply tripleL_bind; [apply Hstep|]. intro. cbv beta.
    eapply tripleL_bind; [apply Hstep|]. intro. cbv beta.
    apply tripleL_ret. intros q H. split; [exact H|reflexivity].
  Qed.

  Lemma T_run_iteration18 fuel finish sm_start sr m rp :
    ST = Some sm_start -> F0 = match finish with Some f => f | None => 0 end ->
    (sr = true -> SH = true /\ rp = false) ->
    SID = first_id m -> apps_free (m_apps m) = true ->
    TL (Out rp) (run_iteration fuel finish sm_start sr m)
       (fun r q => (exists rp', Out rp' q /\ (snd r = true -> SH = true /\ rp' = false)) /\ sids m (fst r)).
  Proof.
    intros HST HF Hsr Hsid Hfree. unfold run_iteration.
    eapply tripleL_bind with (R := fun sr' q => exists rp', Out rp' q /\ (sr' = true -> SH = true /\ rp' = false)).
    { destruct sr.
      - destruct (Hsr eq_refl) as [HSH Hrp].
        eapply tripleL_bind; [apply (TL_now _ (proj2 (GoodC_Out rp)))|]. intro n. cbv beta.
        destruct (waited_for_reboot (match finish with Some f => f | None => 0 end) sm_start n) as [d|] eqn:Hw.
        + eapply tripleL_conseq; [apply (T_waited_report _ sm_start n d rp HST HF HSH Hrp Hw)|auto|].
          intros a q [H ->]. exists true. split; [exact H|]. intro Hx. discriminate.
        + apply tripleL_ret. intros q [H _]. exists rp. split; [exact H|]. intros _. split; assumption.
      - apply tripleL_ret. intros q H. exists rp. split; [exact H|]. intro Hx. discriminate. }
    intro sr'. cbv beta. apply TL_pre_ex. intro rp1. apply TL_pre. intro Hsr1.
    pose proof (GoodC_Out rp1) as HGo.
    eapply tripleL_bind; [apply TL_and_ret; [apply (nL_update_next m _ (proj1 HGo))|apply retp_update_next]|].
    intros [m1 t]. cbv beta. cbn [fst]. apply TL_pre. intro H1.
    eapply tripleL_bind; [apply (nL_make_wait t _ (proj1 HGo))|]. intro roles. cbv beta.
    eapply tripleL_bind; [apply TL_do_outer_select|]. intro sel. cbv beta.
    eapply tripleL_bind; [apply (nL_quiet _ quietL_pop_allowed _ (proj1 HGo))|]. intro dec. cbv beta.
    match goal with |- TL _ (bind (emit ?a) _) _ => eapply tripleL_bind; [apply (nL_emit a eq_refl _ (proj1 HGo))|] end. intro. cbv beta.
    assert (Hneg : TL (Out rp1) (match sel with Some (_, id) => emit (AReply id Throttled) | None => ret tt end;;; ret (m1, sr'))
                      (fun r q => (exists rp', Out rp' q /\ (snd r = true -> SH = true /\ rp' = false)) /\ sids m (fst r))).
    { eapply tripleL_bind with (R := fun _ => Out rp1).
      - destruct sel as [[s id]|]; [apply (nL_emit (AReply id Throttled) eq_refl _ (proj1 HGo))|apply tripleL_ret; auto].
      - intro. apply tripleL_ret. intros q Hq. split; [exists rp1; split; [exact Hq|exact Hsr1]|exact H1]. }
    assert (Hpos : forall p, TL (Out rp1)
              (match sel with Some (_, id) => emit (AReply id Started) | None => ret tt end;;;
               enter_check;;;
               r <- start_update_check fuel p m1;;
               set_incheck false;;;
               upg <- take_upgrade;;
               (let '(m0, rb) := r in
                m2 <- match rb with
                      | RebootNeeded _ => yield_state WaitingForReboot;;; wait_for_reboot fuel (if upg then OnDemand else match sel with Some (s, _) => s | None => ScheduledTask end) m0
                      | RebootNotNeeded => ret m0
                      end;;
                yield_state Idle;;; ret (m2, sr')))
              (fun r q => (exists rp', Out rp' q /\ (snd r = true -> SH = true /\ rp' = false)) /\ sids m (fst r))).
    { intro p. eapply tripleL_bind with (R := fun _ => Out rp1).
      { destruct sel as [[s id]|]; [apply (nL_emit (AReply id Started) eq_refl _ (proj1 HGo))|apply tripleL_ret; auto]. }
      intro. cbv beta. eapply tripleL_bind; [apply TL_enter_check|]. intro. cbv beta.
      eapply tripleL_bind.
      { apply (T_start18 fuel p m1 rp1); [rewrite Hsid; symmetry; apply first_id_sids; exact H1|eapply free_sids; eassumption]. }
      intros [m2 rb]. cbv beta. cbn [fst]. apply TL_pre. intro H2. fold (sids m1 m2) in H2.
      eapply tripleL_bind; [apply (nL_quiet _ (quietL_set_incheck false) _ (proj1 HGo))|]. intro. cbv beta.
      eapply tripleL_bind; [apply (nL_quiet _ quietL_take_upgrade _ (proj1 HGo))|]. intro upg. cbv beta.
      assert (Hf2 : apps_free (m_apps m2) = true) by (eapply free_sids; [exact H2|eapply free_sids; eassumption]).
      eapply tripleL_bind with (R := fun m3 q => Out rp1 q /\ sids m2 m3).
      { destruct rb as [plan|]; [|apply tripleL_ret; intros q Hq; split; [exact Hq|reflexivity]].
        eapply tripleL_bind; [apply (nL_yield (EvState WaitingForReboot) eq_refl _ (proj1 HGo))|]. intro. cbv beta.
        apply TL_and_ret; [apply (proj1 (both_wait_for_reboot fuel _ m2 Hf2) _ HGo)|apply (proj2 (both_wait_for_reboot fuel _ m2 Hf2))]. }
      intro m3. cbv beta. apply TL_pre. intro H3.
      eapply tripleL_bind; [apply (nL_yield (EvState Idle) eq_refl _ (proj1 HGo))|]. intro. cbv beta.
      apply tripleL_ret. intros q Hq. split; [exists rp1; split; [exact Hq|exact Hsr1]|].
      cbn [fst]. eapply sids_trans; [exact H1|]. eapply sids_trans; eassumption. }
    destruct dec; [apply Hpos|apply Hpos|exact Hneg|exact Hneg|exact Hneg].
  Qed.

  Lemma T_run_loop18 iters : forall fuel finish sm_start sr m rp,
    ST = Some sm_start -> F0 = match finish with Some f => f | None => 0 end ->
    (sr = true -> SH = true /\ rp = false) -> SID = first_id m -> apps_free (m_apps m) = true ->
    TL (Out rp) (run_loop iters fuel finish sm_start sr m) (fun _ _ => True).
  Proof.
    induction iters as [|k IH]; intros fuel finish sm_start sr m rp HST HF Hsr Hsid Hfree; cbn [run_loop]; [apply tripleL_halt|].
    eapply tripleL_bind; [apply (T_run_iteration18 fuel finish sm_start sr m rp HST HF Hsr Hsid Hfree)|].
    intros [m' sr']. cbv beta. cbn [fst snd]. apply TL_pre. intro Hs. apply TL_pre_ex. intro rp'. apply TL_pre. intro Hsr'.
    apply (IH fuel finish sm_start sr' m' rp' HST HF Hsr').
    - rewrite Hsid. symmetry. apply first_id_sids. exact Hs.
    - eapply free_sids; eassumption.
  Qed.
End Flow.

(* ---------- from the initial state ---------- *)
Lemma first_id_build cfg url cup apps st :
  first_id (build cfg url cup apps st) = match apps with a :: _ => a_id a | [] => [] end.
Proof.
  unfold first_id, build. destruct (ctx_load (pend st)) as [sc ps]. cbn [m_apps]. destruct apps as [|a l]; [reflexivity|]. cbn [map].
  unfold app_load. destruct (sm_get (pend st) (a_id a)) as [v|]; [|reflexivity]. destruct v; try reflexivity.
  match goal with |- context [decode_persisted ?js] => destruct (decode_persisted js) as [[c u]|] end; reflexivity.
Qed.
Lemma ids_build cfg url cup apps st : map a_id (m_apps (build cfg url cup apps st)) = map a_id apps.
Proof.
  unfold build. destruct (ctx_load (pend st)) as [sc ps]. cbn [m_apps]. rewrite map_map. apply map_ext. intro a.
  unfold app_load. destruct (sm_get (pend st) (a_id a)) as [v|]; [|reflexivity]. destruct v; try reflexivity.
  match goal with |- context [decode_persisted ?js] => destruct (decode_persisted js) as [[c u]|] end; reflexivity.
Qed.

Section Top.
  Variables (cfg : config) (url : urlparts) (cup : option N) (apps : list app) (st0 : storage).
  Let q0 := init18 cfg apps st0.
  Let SH := should18 q0.
  Let F0 := fin018 q0.
  Let OSV := osver18 q0.
  Let SID := sysid18 q0.
  Let m := build cfg url cup apps st0.

  Lemma Out_init : Out SH F0 OSV SID None false q0.
  Proof. unfold Out, SH, F0, OSV, SID, q0, init18. cbn. repeat split; reflexivity. Qed.

  Lemma T_oneshot18 fuel : apps_free apps = true ->
    TL (Out SH F0 OSV SID None false) (oneshot fuel m) (fun _ _ => True).
  Proof.
    intro Hfree. unfold oneshot. eapply tripleL_bind.
    - apply (T_start18 SH F0 OSV SID None fuel params_default m false).
      + unfold SID, q0, init18. cbn [sysid18]. symmetry. apply first_id_build.
      + unfold m. rewrite (apps_free_ids _ apps (ids_build cfg url cup apps st0)). exact Hfree.
    - intros [m' rb]. apply tripleL_ret. auto.
  Qed.

  Lemma T_run18 iters fuel : apps_free apps = true ->
    TL (fun q => Out SH F0 OSV SID None false q /\ start18 q = None /\ m18 q = pend st0) (run iters fuel m) (fun _ _ => True).
  Proof.
    intro Hfree. unfold run. destruct (negb (forallb app_valid (m_apps m))); [apply tripleL_ret; auto|].
    (* the first clock reading fixes the start of the state machine *)
    eapply tripleL_bind with (R := fun n q => Out SH F0 OSV SID (Some (mono n)) false q /\ m18 q = pend st0).
    { unfold now. eapply tripleL_bind; [apply TL_quiet, quietL_read_clock|]. intro c. cbv beta.
      eapply tripleL_bind with (R := fun _ q => Out SH F0 OSV SID (Some (mono c)) false q /\ m18 q = pend st0);
        [|intro; apply tripleL_ret; auto].
      apply (tripleL_emit step18 L18 L18_store). intros q e Hl ((Hs1 & Hs2 & Hs3 & Hs4 & Htd & Haw & Hrp & _) & Hst & Hm).
      exists (clk_upd q c). split; [reflexivity|]. split; [exact Hl|]. split; [|exact Hm].
      unfold Out. fld18. rewrite Hst. repeat split; assumption. }
    intro c. cbv beta.
    eapply tripleL_bind; [apply TL_get_time|]. intro finish. cbv beta.
    eapply tripleL_bind; [apply TL_get_str|]. intro tv. cbv beta.
    (* what was read is what the monitor computed its flags from *)
    eapply tripleL_conseq with (P' := fun q => Out SH F0 OSV SID (Some (mono c)) false q /\
                                     (finish = get_time (pend st0) K_FINISH_TIME /\ tv = get_str (pend st0) K_TARGET_VERSION));
      [|intros q [[[H Hm] ->] ->]; rewrite Hm; split; [exact H|split; reflexivity]|intros a q H; exact H].
    apply TL_pre. intros [-> ->].
    apply (T_run_loop18 SH F0 OSV SID (Some (mono c)) iters fuel _ (mono c) _ m false eq_refl).
    - unfold F0, q0, init18. reflexivity.
    - intro Hs. split; [|reflexivity]. unfold SH, q0, init18. cbn [should18]. unfold m, build in Hs.
      destruct (ctx_load (pend st0)) as [sc ps]. cbn [m_cfg] in Hs. exact Hs.
    - unfold SID, q0, init18. cbn [sysid18]. symmetry. apply first_id_build.
    - unfold m. rewrite (apps_free_ids _ apps (ids_build cfg url cup apps st0)). exact Hfree.
  Qed.
End Top.

Theorem model_accepted_c18 ep cfg url cup apps e :
  e_trace e = [] -> apps_free apps = true ->
  accepts step18 (init18 cfg apps (e_store e)) (run_case ep cfg url cup apps e) = true.
Proof.
  intros Ht Hfree. unfold run_case, accepts.
  set (q0 := init18 cfg apps (e_store e)).
  assert (Hm0 : mst step18 q0 e = Some q0) by (unfold mst; rewrite Ht; reflexivity).
  assert (Hl0 : L18 q0 e) by reflexivity.
  destruct ep.
  - destruct (T_run18 cfg url cup apps (e_store e) (Datatypes.S (length (e_stim e) + length (c_inject (e_cs e)))) (4 + length (e_stim e) + length (c_inject (e_cs e))) Hfree
                q0 e q0 Hm0 Hl0) as (q' & Hq' & _).
    + split; [apply Out_init|split; reflexivity].
    + destruct (run _ _ _ e) as [r e'] eqn:E. cbn [snd] in Hq'. unfold mst in Hq'. rewrite Hq'. reflexivity.
  - destruct (T_oneshot18 cfg url cup apps (e_store e) (4 + length (e_stim e) + length (c_inject (e_cs e))) Hfree q0 e q0 Hm0 Hl0) as (q' & Hq' & _).
    + apply Out_init.
    + destruct (oneshot _ _ e) as [r e'] eqn:E. cbn [snd] in Hq'. unfold mst in Hq'. rewrite Hq'. reflexivity.
Qed.
