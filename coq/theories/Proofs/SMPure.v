(* Proofs/SMPure.v — facts about the pure helpers of Model/SM.v *)
Require Import Verif.Model.Time Verif.Base.Bytes Verif.Proofs.BytesFacts Verif.Model.Version Verif.Model.Json Verif.Model.Proto
               Verif.Model.Request Verif.Model.Env Verif.Model.SM Verif.Proofs.TimeFacts.
From Coq Require Import Lia.
Open Scope Z_scope.

(* ---------- X-Retry-After ---------- *)
Lemma parse_retry_after_some v n :
  to_str_ok v = true -> parse_u64 v = Some n ->
  parse_retry_after (Some v) = Some (Z.min (Z.of_N n) 86400 * 1000000000).
Proof. intros H1 H2. unfold parse_retry_after. rewrite H1, H2. reflexivity. Qed.

Lemma parse_retry_after_none_header : parse_retry_after None = None.
Proof. reflexivity. Qed.

Lemma parse_retry_after_bad v :
  to_str_ok v = false \/ parse_u64 v = None -> parse_retry_after (Some v) = None.
Proof.
  intros [H|H]; unfold parse_retry_after; rewrite H; [reflexivity|].
  destruct (to_str_ok v); reflexivity.
Qed.

(* digits only: value N < 2^64 gives min(N, 86400) seconds *)
Lemma digits_to_str_ok ds : all_digits ds = true -> to_str_ok ds = true.
Proof.
  unfold all_digits, to_str_ok. rewrite !forallb_forall. intros H c Hc. specialize (H c Hc).
  unfold is_digit in H. apply andb_true_iff in H as [H1 H2]. apply N.leb_le in H1, H2.
  apply orb_true_iff. left. apply andb_true_iff. split; [apply N.leb_le|apply N.ltb_lt]; lia.
Qed.

Lemma parse_retry_after_digits ds :
  ds <> [] -> all_digits ds = true -> (dec_value ds < 2 ^ 64)%N ->
  parse_retry_after (Some ds) = Some (Z.min (Z.of_N (dec_value ds)) 86400 * 1000000000).
Proof.
  intros Hne Had Hb. apply parse_retry_after_some; [apply digits_to_str_ok; assumption|].
  apply parse_unsigned_iff. exists ds. repeat split; try assumption. left. reflexivity.
Qed.

Lemma parse_retry_after_overflow ds :
  all_digits ds = true -> (2 ^ 64 <= dec_value ds)%N -> parse_retry_after (Some ds) = None.
Proof.
  intros Had Hb. apply parse_retry_after_bad. right.
  apply (parse_unsigned_overflow (2 ^ 64)%N ds ds); [left; reflexivity|assumption|assumption].
Qed.

Lemma parse_retry_after_nondigit v c :
  In c v -> is_digit c = false -> c <> 43%N -> parse_retry_after (Some v) = None.
Proof.
  intros. apply parse_retry_after_bad. right. eapply parse_unsigned_nondigit; eassumption.
Qed.

Lemma parse_retry_after_range h x : parse_retry_after h = Some x -> 0 <= x <= 86400 * 1000000000.
Proof.
  unfold parse_retry_after. destruct h as [v|]; [|discriminate].
  destruct (to_str_ok v); [|discriminate]. destruct (parse_u64 v) as [n|]; [|discriminate].
  intro H. inversion H. unfold MAX_RETRY_AFTER_S. lia.
Qed.

(* ---------- cohort merge / routing ---------- *)
Lemma merge_cohort_fieldwise mine omaha :
  c_id (merge_cohort mine omaha) = (match c_id omaha with Some x => Some x | None => c_id mine end) /\
  c_hint (merge_cohort mine omaha) = (match c_hint omaha with Some x => Some x | None => c_hint mine end) /\
  c_name (merge_cohort mine omaha) = (match c_name omaha with Some x => Some x | None => c_name mine end).
Proof. unfold merge_cohort, orelse. cbn. destruct (c_id omaha), (c_hint omaha), (c_name omaha); repeat split. Qed.

Lemma update_app_not_named rs a :
  (forall r, In r rs -> bytes_eqb (a_id a) (ar_id r) = false) -> update_app rs a = a.
Proof.
  intro H. unfold update_app.
  destruct (find (fun r => bytes_eqb (a_id a) (ar_id r)) rs) eqn:E; [|reflexivity].
  apply find_some in E as [Hin Heq]. rewrite (H _ Hin) in Heq. discriminate.
Qed.

Lemma update_app_named rs a r :
  find (fun r => bytes_eqb (a_id a) (ar_id r)) rs = Some r ->
  update_app rs a = {| a_id := a_id a; a_ver := a_ver a; a_fp := a_fp a;
                       a_cohort := merge_cohort (a_cohort a) (ar_cohort r); a_uc := ar_uc r; a_extra := a_extra a |}.
Proof. intro H. unfold update_app. rewrite H. reflexivity. Qed.

Lemma update_from_omaha_ids apps rs : map a_id (update_from_omaha apps rs) = map a_id apps.
Proof.
  unfold update_from_omaha. rewrite map_map. apply map_ext. intro a. unfold update_app.
  destruct (find _ rs); reflexivity.
Qed.

Lemma update_from_omaha_nil apps : update_from_omaha apps [] = apps.
Proof. unfold update_from_omaha. rewrite <- (map_id apps) at 2. apply map_ext. intro a. reflexivity. Qed.

(* ---------- saturating counters ---------- *)
Lemma sat_inc_u32_spec z : 0 <= z <= u32_max -> sat_inc_u32 z = Z.min (z + 1) u32_max.
Proof. intro H. unfold sat_inc_u32. destruct (z <? u32_max) eqn:E; [apply Z.ltb_lt in E|apply Z.ltb_ge in E]; lia. Qed.

(* ---------- randomize ---------- *)
Lemma randomize_window n r : 0 <= r -> n - 500 <= randomize n 1000 r < n + 500.
Proof. intro H. unfold randomize. pose proof (Z.mod_pos_bound r 1000 ltac:(lia)). change (1000 / 2) with 500. lia. Qed.
Lemma randomize_onto n d : n - 500 <= d < n + 500 -> exists r, 0 <= r < 1000 /\ randomize n 1000 r = d.
Proof. intro H. exists (d - n + 500). split; [lia|]. unfold randomize. change (1000 / 2) with 500. rewrite Z.mod_small by lia. lia. Qed.

(* ---------- app validity gate ---------- *)
Lemma run_invalid_inert iters fuel m e :
  forallb app_valid (m_apps m) = false -> run iters fuel m e = (Some m, e).
Proof. intro H. unfold run. rewrite H. reflexivity. Qed.

Lemma app_valid_iff a : app_valid a = true <-> a_id a <> [] /\ a_ver a <> (0, 0, 0, 0)%N.
Proof.
  unfold app_valid. rewrite andb_true_iff, !negb_true_iff. split.
  - intros [H1 H2]. split.
    + destruct (a_id a); [discriminate|discriminate].
    + intro E. rewrite E in H2. cbn in H2. discriminate.
  - intros [H1 H2]. split.
    + destruct (a_id a); [congruence|reflexivity].
    + destruct (Version.eqb (a_ver a) (0, 0, 0, 0)%N) eqn:E; [|reflexivity].
      exfalso. apply H2. unfold Version.eqb in E.
      destruct (Version.cmp (a_ver a) (0, 0, 0, 0)%N) eqn:C; try discriminate.
      destruct (a_ver a) as [[[x y] z] w]. unfold Version.cmp in C.
      destruct (N.compare_spec x 0), (N.compare_spec y 0), (N.compare_spec z 0), (N.compare_spec w 0); try discriminate; subst; reflexivity.
Qed.

(* ---------- storage maps ---------- *)
Lemma sm_get_remove_same m k : sm_get (sm_remove m k) k = None.
Proof.
  induction m as [|[k' v] r IH]; cbn [sm_remove sm_get]; [reflexivity|].
  destruct (bytes_eqb k' k) eqn:E; [exact IH|]. cbn [sm_get]. rewrite E. exact IH.
Qed.
Lemma sm_get_set_same m k v : sm_get (sm_set m k v) k = Some v.
Proof. unfold sm_set. cbn [sm_get]. rewrite bytes_eqb_refl. reflexivity. Qed.

Definition apply_store_op (op : store_op) (m : smap) : smap :=
  match op with
  | SSetInt k v => sm_set m k (VInt v)
  | SSetStr k v => sm_set m k (VStr v)
  | SRemove k => sm_remove m k
  | SCommit => m
  end.

Lemma parse_retry_after_whole_seconds h x : parse_retry_after h = Some x -> x mod 1000000000 = 0 /\ 0 <= x.
Proof.
  unfold parse_retry_after. destruct h as [v|]; [|discriminate].
  destruct (to_str_ok v); [|discriminate]. destruct (parse_u64 v) as [n|]; [|discriminate].
  intro H. inversion H. split; [apply Z.mod_mul; lia|unfold MAX_RETRY_AFTER_S; lia].
Qed.

Require Import Verif.Model.Monitors.
(* a restarted state machine starts from the stored interval *)
Lemma poll_restart h s :
  ps_poll (snd (ctx_load (apply_store_op (poll_store_op (parse_retry_after h)) s))) = parse_retry_after h.
Proof.
  destruct (parse_retry_after h) as [x|] eqn:E.
  - destruct (parse_retry_after_whole_seconds _ _ E) as [Hm Hp].
    pose proof (parse_retry_after_range _ _ E) as Hr.
    unfold poll_store_op. cbv zeta.
    assert (Hfit : x / 1000 <=? i64_max = true).
    { apply Z.leb_le. unfold i64_max. assert (x / 1000 <= 86400 * 1000000) by (apply Z.div_le_upper_bound; lia). lia. }
    rewrite Hfit. cbn [apply_store_op]. unfold ctx_load. rewrite sm_get_set_same.
    assert (0 <=? x / 1000 = true) by (apply Z.leb_le, Z.div_pos; lia).
    cbn [snd ps_poll]. rewrite H. f_equal.
    assert (x mod 1000 = 0).
    { replace 1000000000 with (1000 * 1000000) in Hm by reflexivity.
      rewrite Z.rem_mul_r in Hm by lia. pose proof (Z.mod_pos_bound x 1000 ltac:(lia)).
      pose proof (Z.mod_pos_bound (x / 1000) 1000000 ltac:(lia)). lia. }
    pose proof (Z.div_mod x 1000 ltac:(lia)). lia.
  - unfold poll_store_op. cbn [apply_store_op]. unfold ctx_load. rewrite sm_get_remove_same. reflexivity.
Qed.
