(* Proofs/SMPure.v — facts about the pure helpers of Model/SM.v *)
Require Import Verif.Model.Time Verif.Base.Bytes Verif.Proofs.BytesFacts Verif.Model.Version Verif.Model.Json Verif.Model.Proto
               Verif.Model.Request Verif.Model.Env Verif.Model.SM Verif.Proofs.TimeFacts.
From Coq Require Import Lia.
Open Scope Z_scope.

(* ---------- X-Retry-After ---------- *)
Lemma parse_retry_after_some v n :
  to_str_ok v = true -> parse_u64 v = Some n ->
  parse_retry_after (Some v) = Some (Z.min (Z.of_N n) 86400 * 1000000000).
Proof. intros H1 H2. unfold parse_retry_after. rewrite H1, H2. reflexivity. Qed.

Lemma parse_retry_after_none_header : parse_retry_after None = None.
Proof. reflexivity. Qed.

Lemma parse_retry_after_bad v :
  to_str_ok v = false \/ parse_u64 v = None -> parse_retry_after (Some v) = None.
Proof.
  intros [H|H]; unfold parse_retry_after; rewrite H; [reflexivity|].
  destruct (to_str_ok v); reflexivity.
Qed.

(* digits only: value N < 2^64 gives min(N, 86400) seconds *)
Lemma digits_to_str_ok ds : all_digits ds = true -> to_str_ok ds = true.
Proof.
  unfold all_digits, to_str_ok. rewrite !forallb_forall. intros H c Hc. specialize (H c Hc).
  unfold is_digit in H. apply andb_true_iff in H as [H1 H2]. apply N.leb_le in H1, H2.
  apply orb_true_iff. left. apply andb_true_iff. split; [apply N.leb_le|apply N.ltb_lt]; lia.
Qed.

Lemma parse_retry_after_digits ds :
  ds <> [] -> all_digits ds = true -> (dec_value ds < 2 ^ 64)%N ->
  parse_retry_after (Some ds) = Some (Z.min (Z.of_N (dec_value ds)) 86400 * 1000000000).
Proof.
  intros Hne Had Hb. apply parse_retry_after_some; [apply digits_to_str_ok; assumption|].
  apply parse_unsigned_iff. exists ds. repeat split; try assumption. left. reflexivity.
Qed.

Lemma parse_retry_after_overflow ds :
  all_digits ds = true -> (2 ^ 64 <= dec_value ds)%N -> parse_retry_after (Some ds) = None.
Proof.
  intros Had Hb. apply parse_retry_after_bad. right.
  apply (parse_unsigned_overflow (2 ^ 64)%N ds ds); [left; reflexivity|assumption|assumption].
Qed.

Lemma parse_retry_after_nondigit v c :
  In c v -> is_digit c = false -> c <> 43%N -> parse_retry_after (Some v) = None.
Proof.
  intros. apply parse_retry_after_bad. right. eapply parse_unsigned_nondigit; eassumption.
Qed.

Lemma parse_retry_after_range h x : parse_retry_after h = Some x -> 0 <= x <= 86400 * 1000000000.
Proof.
  unfold parse_retry_after. destruct h as [v|]; [|discriminate].
  destruct (to_str_ok v); [|discriminate]. destruct (parse_u64 v) as [n|]; [|discriminate].
  intro H. inversion H. unfold MAX_RETRY_AFTER_S. lia.
Qed.

(* ---------- cohort merge / routing ---------- *)
Lemma merge_cohort_fieldwise mine omaha :
  c_id (merge_cohort mine omaha) = (match c_id omaha with Some x => Some x | None => c_id mine end) /\
  c_hint (merge_cohort mine omaha) = (match c_hint omaha with Some x => Some x | None => c_hint mine end) /\
  c_name (merge_cohort mine omaha) = (match c_name omaha with Some x => Some x | None => c_name mine end).
Proof. unfold merge_cohort, orelse. cbn. destruct (c_id omaha), (c_hint omaha), (c_name omaha); repeat split. Qed.

Lemma update_app_not_named rs a :
  (forall r, In r rs -> bytes_eqb (a_id a) (ar_id r) = false) -> update_app rs a = a.
Proof.
  intro H. unfold update_app.
  destruct (find (fun r => bytes_eqb (a_id a) (ar_id r)) rs) eqn:E; [|reflexivity].
  apply find_some in E as [Hin Heq]. rewrite (H _ Hin) in Heq. discriminate.
Qed.

Lemma update_app_named rs a r :
  find (fun r => bytes_eqb (a_id a) (ar_id r)) rs = Some r ->
  update_app rs a = {| a_id := a_id a; a_ver := a_ver a; a_fp := a_fp a;
                       a_cohort := merge_cohort (a_cohort a) (ar_cohort r); a_uc := ar_uc r; a_extra := a_extra a |}.
Proof. intro H. unfold update_app. rewrite H. reflexivity. Qed.

Lemma update_from_omaha_ids apps rs : map a_id (update_from_omaha apps rs) = map a_id apps.
Proof.
  unfold update_from_omaha. rewrite map_map. apply map_ext. intro a. unfold update_app.
  destruct (find _ rs); reflexivity.
Qed.

Lemma update_from_omaha_nil apps : update_from_omaha apps [] = apps.
Proof. unfold update_from_omaha. rewrite <- (map_id apps) at 2. apply map_ext. intro a. reflexivity. Qed.

(* ---------- saturating counters ---------- *)
Lemma sat_inc_u32_spec z : 0 <= z <= u32_max -> sat_inc_u32 z = Z.min (z + 1) u32_max.
Proof. intro H. unfold sat_inc_u32. destruct (z <? u32_max) eqn:E; [apply Z.ltb_lt in E|apply Z.ltb_ge in E]; lia. Qed.

(* ---------- randomize ---------- *)
Lemma randomize_window n r : 0 <= r -> n - 500 <= randomize n 1000 r < n + 500.
Proof. intro H. unfold randomize. pose proof (Z.mod_pos_bound r 1000 ltac:(lia)). change (1000 / 2) with 500. lia. Qed.
Lemma randomize_onto n d : n - 500 <= d < n + 500 -> exists r, 0 <= r < 1000 /\ randomize n 1000 r = d.
Proof. intro H. exists (d - n + 500). split; [lia|]. unfold randomize. change (1000 / 2) with 500. rewrite Z.mod_small by lia. lia. Qed.

(* ---------- app validity gate ---------- *)
Lemma run_invalid_inert iters fuel m e :
  forallb app_valid (m_apps m) = false -> run iters fuel m e = (Some m, e).
Proof. intro H. unfold run. rewrite H. reflexivity. Qed.

Lemma app_valid_iff a : app_valid a = true <-> a_id a <> [] /\ a_ver a <> (0, 0, 0, 0)%N.
Proof.
  unfold app_valid. rewrite andb_true_iff, !negb_true_iff. split.
  - intros [H1 H2]. split.
    + destruct (a_id a); [discriminate|discriminate].
    + intro E. rewrite E in H2. cbn in H2. discriminate.
  - intros [H1 H2]. split.
    + destruct (a_id a); [congruence|reflexivity].
    + destruct (Version.eqb (a_ver a) (0, 0, 0, 0)%N) eqn:E; [|reflexivity].
      exfalso. apply H2. unfold Version.eqb in E.
      destruct (Version.cmp (a_ver a) (0, 0, 0, 0)%N) eqn:C; try discriminate.
      destruct (a_ver a) as [[[x y] z] w]. unfold Version.cmp in C.
      destruct (N.compare_spec x 0), (N.compare_spec y 0), (N.compare_spec z 0), (N.compare_spec w 0); try discriminate; subst; reflexivity.
Qed.

(* ---------- storage maps ---------- *)
Lemma sm_get_remove_same m k : sm_get (sm_remove m k) k = None.
Proof.
  induction m as [|[k' v] r IH]; cbn [sm_remove sm_get]; [reflexivity|].
  destruct (bytes_eqb k' k) eqn:E; [exact IH|]. cbn [sm_get]. rewrite E. exact IH.
Qed.
Lemma sm_get_set_same m k v : sm_get (sm_set m k v) k = Some v.
Proof. unfold sm_set. cbn [sm_get]. rewrite bytes_eqb_refl. reflexivity. Qed.

Definition apply_store_op (op : store_op) (m : smap) : smap :=
  match op with
  | SSetInt k v => sm_set m k (VInt v)
  | SSetStr k v => sm_set m k (VStr v)
  | SRemove k => sm_remove m k
  | SCommit => m
  end.

Lemma parse_retry_after_whole_seconds h x : parse_retry_after h = Some x -> x mod 1000000000 = 0 /\ 0 <= x.
Proof.
  unfold parse_retry_after. destruct h as [v|]; [|discriminate].
  destruct (to_str_ok v); [|discriminate]. destruct (parse_u64 v) as [n|]; [|discriminate].
  intro H. inversion H. split; [apply Z.mod_mul; lia|unfold MAX_RETRY_AFTER_S; lia].
Qed.

Require Import Verif.Model.Monitors.
(* a restarted state machine starts from the stored interval *)
Lemma poll_restart h s :
  ps_poll (snd (ctx_load (apply_store_op (poll_store_op (parse_retry_after h)) s))) = parse_retry_after h.
Proof.
  destruct (parse_retry_after h) as [x|] eqn:E.
  - destruct (parse_retry_after_whole_seconds _ _ E) as [Hm Hp].
    pose proof (parse_retry_after_range _ _ E) as Hr.
    unfold poll_store_op. cbv zeta.
    assert (Hfit : x / 1000 <=? i64_max = true).
    { apply Z.leb_le. unfold i64_max. assert (x / 1000 <= 86400 * 1000000) by (apply Z.div_le_upper_bound; lia). lia. }
    rewrite Hfit. cbn [apply_store_op]. unfold ctx_load. rewrite sm_get_set_same.
    assert (0 <=? x / 1000 = true) by (apply Z.leb_le, Z.div_pos; lia).
    cbn [snd ps_poll]. rewrite H. f_equal.
    assert (x mod 1000 = 0).
    { replace 1000000000 with (1000 * 1000000) in Hm by reflexivity.
      rewrite Z.rem_mul_r in Hm by lia. pose proof (Z.mod_pos_bound x 1000 ltac:(lia)).
      pose proof (Z.mod_pos_bound (x / 1000) 1000000 ltac:(lia)). lia. }
    pose proof (Z.div_mod x 1000 ltac:(lia)). lia.
  - unfold poll_store_op. cbn [apply_store_op]. unfold ctx_load. rewrite sm_get_remove_same. reflexivity.
Qed.

(* ---------- result alignment (C04) ---------- *)
Lemma assign_results_ids apps : forall rs ds, map ar_id (assign_results apps rs ds) = map r_id apps.
Proof.
  induction apps as [|a r IH]; intros rs ds; cbn [assign_results map]; [reflexivity|].
  destruct (uc_ok a); [destruct rs|]; cbn [map ar_id]; rewrite IH; reflexivity.
Qed.
Lemma make_app_responses_ids d act : map ar_id (make_app_responses d act) = map r_id (d_apps d).
Proof. unfold make_app_responses. rewrite map_map. reflexivity. Qed.
Lemma make_app_responses_actions d act : Forall (fun r => ar_result r = act) (make_app_responses d act).
Proof. unfold make_app_responses. apply Forall_forall. intros r H. apply in_map_iff in H as (x & <- & _). reflexivity. Qed.

(* the i-th offered app receives the i-th installer result; the others NoUpdate *)
Fixpoint offered_actions (apps : list rapp) (rs : list ares) : list uaction :=
  match apps with
  | [] => []
  | a :: r => if uc_ok a then match rs with x :: rs' => result_action x :: offered_actions r rs' | [] => AInstallPlanExecutionError :: offered_actions r [] end
              else ANoUpdate :: offered_actions r rs
  end.
Lemma assign_results_actions apps : forall rs ds, map ar_result (assign_results apps rs ds) = offered_actions apps rs.
Proof.
  induction apps as [|a r IH]; intros rs ds; cbn [assign_results offered_actions map]; [reflexivity|].
  destruct (uc_ok a); [destruct rs|]; cbn [map ar_result]; rewrite IH; reflexivity.
Qed.
Lemma assign_results_data apps : forall rs ds,
  Forall2 (fun a r => ar_cohort r = r_cohort a /\ ar_uc r = ds) apps (assign_results apps rs ds).
Proof.
  induction apps as [|a r IH]; intros rs ds; cbn [assign_results]; [constructor|].
  destruct (uc_ok a); [destruct rs|]; constructor; try (split; reflexivity); apply IH.
Qed.

(* ---------- waited-for-reboot (C18) ---------- *)
Lemma waited_for_reboot_some finish start n d :
  waited_for_reboot finish start n = Some d <->
  finish <= wall n /\ start <= mono n /\ d = (wall n - finish) - (mono n - start) /\ 0 <= d.
Proof.
  unfold waited_for_reboot.
  destruct (wall n <? finish) eqn:E1; [apply Z.ltb_lt in E1|apply Z.ltb_ge in E1].
  { split; [discriminate|lia]. }
  destruct (mono n <? start) eqn:E2; [apply Z.ltb_lt in E2|apply Z.ltb_ge in E2].
  { split; [discriminate|lia]. }
  destruct (wall n - finish - (mono n - start) <? 0) eqn:E3; [apply Z.ltb_lt in E3|apply Z.ltb_ge in E3].
  { split; [discriminate|lia]. }
  split; [intro H; inversion H; lia|intros (_ & _ & -> & _); reflexivity].
Qed.
Lemma waited_for_reboot_none finish start n :
  waited_for_reboot finish start n = None <->
  wall n < finish \/ mono n < start \/ (wall n - finish) - (mono n - start) < 0.
Proof.
  destruct (waited_for_reboot finish start n) as [d|] eqn:E.
  - apply waited_for_reboot_some in E. split; [discriminate|lia].
  - split; [intros _|reflexivity]. unfold waited_for_reboot in E.
    destruct (wall n <? finish) eqn:E1; [apply Z.ltb_lt in E1; lia|].
    destruct (mono n <? start) eqn:E2; [apply Z.ltb_lt in E2; lia|].
    destruct (wall n - finish - (mono n - start) <? 0) eqn:E3; [apply Z.ltb_lt in E3; lia|discriminate].
Qed.
(* the reported duration does not depend on when the report happens: shifting both clocks by the same delay *)
Lemma waited_for_reboot_delay_independent finish start n delay :
  0 <= delay ->
  waited_for_reboot finish start {| wall := wall n + delay; mono := mono n + delay |} =
  match waited_for_reboot finish start n with
  | Some d => Some d
  | None => waited_for_reboot finish start {| wall := wall n + delay; mono := mono n + delay |}
  end.
Proof.
  intro Hd. destruct (waited_for_reboot finish start n) as [d|] eqn:E; [|reflexivity].
  apply waited_for_reboot_some in E. apply waited_for_reboot_some. cbn [wall mono]. lia.
Qed.

(* ---------- the waits (C12) ---------- *)
Fixpoint fires (stim : list stimulus) : nat :=
  match stim with Fire _ :: r => Datatypes.S (fires r) | _ :: r => fires r | [] => O end.
Lemma remove_nth_length {A} (l : list A) : forall i x, nth_error l i = Some x -> length l = Datatypes.S (length (remove_nth i l)).
Proof.
  induction l as [|p ps IH]; intros [|i] x H; cbn in *; try discriminate; [reflexivity|].
  f_equal. eapply IH. exact H.
Qed.
(* the timer branch of the outer select is taken only after every armed timer has fired *)
Lemma outer_select_timer stim : forall pending ctl rest c,
  outer_select stim pending ctl = Some (None, rest, c) -> pending <> [] ->
  exists used, stim = used ++ rest /\ (length pending <= fires used)%nat.
Proof.
  induction stim as [|s r IH]; intros pending ctl rest c H Hne; cbn [outer_select] in H; [discriminate|].
  destruct s as [i|src|]; [|discriminate|].
  2:{ destruct (IH pending ctl rest c H Hne) as (used & -> & Hl). exists (DropHandles :: used). split; [reflexivity|]. cbn [fires]. lia. }
  destruct (nth_error pending i) as [x|] eqn:En.
  - destruct (remove_nth i pending) as [|y ys] eqn:Er.
    + inversion H; subst. exists [Fire i]. split; [reflexivity|].
      pose proof (remove_nth_length _ _ _ En) as Hl. rewrite Er in Hl. cbn in *. lia.
    + destruct (IH (y :: ys) ctl rest c H ltac:(discriminate)) as (used & -> & Hl).
      exists (Fire i :: used). split; [reflexivity|]. cbn [fires].
      pose proof (remove_nth_length _ _ _ En) as Hl2. rewrite Er in Hl2. lia.
  - destruct (IH pending ctl rest c H Hne) as (used & -> & Hl). exists (Fire i :: used). split; [reflexivity|]. cbn [fires]. lia.
Qed.

(* ---------- context round trip through storage (C08) ---------- *)
Lemma sm_get_set_other m k k' v : bytes_eqb k k' = false -> sm_get (sm_set m k v) k' = sm_get m k'.
Proof.
  intro H. unfold sm_set. cbn [sm_get]. rewrite H.
  induction m as [|[k0 v0] r IH]; cbn [sm_remove sm_get]; [reflexivity|].
  destruct (bytes_eqb k0 k) eqn:E1.
  - apply bytes_eqb_eq in E1. subst. rewrite H. exact IH.
  - cbn [sm_get]. destruct (bytes_eqb k0 k'); [reflexivity|exact IH].
Qed.
Lemma sm_get_remove_other m k k' : bytes_eqb k k' = false -> sm_get (sm_remove m k) k' = sm_get m k'.
Proof.
  intro H. induction m as [|[k0 v0] r IH]; cbn [sm_remove sm_get]; [reflexivity|].
  destruct (bytes_eqb k0 k) eqn:E1.
  - apply bytes_eqb_eq in E1. subst. rewrite H. exact IH.
  - cbn [sm_get]. destruct (bytes_eqb k0 k'); [reflexivity|exact IH].
Qed.

(* ---------- event reports (C10) ---------- *)
Lemma report_ops_spec ev apps nv dur :
  report_ops ev apps nv dur =
  flat_map (fun a => match nv_get nv (a_id a) with
                     | Some next => [OpEvent a {| ev_type := ev_type ev; ev_result := ev_result ev; ev_err := ev_err ev;
                                                  ev_prev := Some (Version.print (a_ver a)); ev_next := next; ev_dl := dl_ms dur |}]
                     | None => [] end) apps.
Proof. reflexivity. Qed.

(* exactly the known apps that were offered an update, in app-set order, each with its own versions *)
Lemma report_ops_apps ev apps nv dur :
  map op_app (report_ops ev apps nv dur) = filter (fun a => match nv_get nv (a_id a) with Some _ => true | None => false end) apps.
Proof.
  unfold report_ops. induction apps as [|a r IH]; [reflexivity|]. cbn [flat_map filter].
  destruct (nv_get nv (a_id a)); cbn [List.app map op_app]; rewrite IH; reflexivity.
Qed.
Lemma report_ops_events ev apps nv dur o :
  In o (report_ops ev apps nv dur) ->
  exists a next, In a apps /\ nv_get nv (a_id a) = Some next /\
    o = OpEvent a {| ev_type := ev_type ev; ev_result := ev_result ev; ev_err := ev_err ev;
                     ev_prev := Some (Version.print (a_ver a)); ev_next := next; ev_dl := dl_ms dur |}.
Proof.
  unfold report_ops. intro H. apply in_flat_map in H as (a & Ha & Ho).
  destruct (nv_get nv (a_id a)) as [next|] eqn:E; [|destruct Ho].
  destruct Ho as [<-|[]]. exists a, next. auto.
Qed.

(* what Context::persist writes, as a pure list of operations (fault-free) *)
Definition opt_int_op (k : bytes) (v : option Z) : store_op := match v with Some z => SSetInt k z | None => SRemove k end.
Definition ctx_persist_ops (sc : sched) (ps : pstate) : list store_op :=
  [opt_int_op K_LAST_UPDATE_TIME (match s_last_update sc with Some p => pct_to_micros p | None => None end);
   opt_int_op K_POLL_INTERVAL (match ps_poll ps with Some ns => let us := ns / 1000 in if us <=? i64_max then Some us else None | None => None end);
   opt_int_op K_FAILED_CHECKS (if ps_fails ps =? 0 then None else Some (ps_fails ps))].

Lemma key_ne_1 : bytes_eqb K_POLL_INTERVAL K_LAST_UPDATE_TIME = false. Proof. vm_compute. reflexivity. Qed.
Lemma key_ne_2 : bytes_eqb K_FAILED_CHECKS K_LAST_UPDATE_TIME = false. Proof. vm_compute. reflexivity. Qed.
Lemma key_ne_3 : bytes_eqb K_FAILED_CHECKS K_POLL_INTERVAL = false. Proof. vm_compute. reflexivity. Qed.

Lemma get_after_opt_same s k v :
  sm_get (apply_store_op (opt_int_op k v) s) k = match v with Some z => Some (VInt z) | None => None end.
Proof. destruct v; cbn [opt_int_op apply_store_op]; [apply sm_get_set_same|apply sm_get_remove_same]. Qed.
Lemma get_after_opt_other s k k' v :
  bytes_eqb k k' = false -> sm_get (apply_store_op (opt_int_op k v) s) k' = sm_get s k'.
Proof. intro H. destruct v; cbn [opt_int_op apply_store_op]; [apply sm_get_set_other|apply sm_get_remove_other]; exact H. Qed.

(* a state machine rebuilt on storage written by Context::persist presents to its policy exactly the persisted
   values, times at microsecond precision *)
Lemma ctx_load_persist sc ps s :
  0 <= ps_fails ps <= u32_max ->
  (forall ns, ps_poll ps = Some ns -> 0 <= ns /\ ns / 1000 <= i64_max) ->
  ctx_load (fold_left (fun m op => apply_store_op op m) (ctx_persist_ops sc ps) s) =
  (let lut := match (match s_last_update sc with Some p => pct_to_micros p | None => None end) with
              | Some m => Some (PWall (from_micros m)) | None => None end in
   {| s_last_update := lut; s_last_check := lut; s_next := None |},
   {| ps_poll := match ps_poll ps with Some ns => Some (ns / 1000 * 1000) | None => None end;
      ps_fails := ps_fails ps; ps_proxied := 0 |}).
Proof.
  intros Hf Hp. unfold ctx_persist_ops. cbn [fold_left]. unfold ctx_load.
  rewrite (get_after_opt_other _ _ _ _ key_ne_2), (get_after_opt_other _ _ _ _ key_ne_1), get_after_opt_same.
  rewrite (get_after_opt_other _ _ _ _ key_ne_3), get_after_opt_same.
  rewrite get_after_opt_same.
  f_equal.
  - destruct (match s_last_update sc with Some p => pct_to_micros p | None => None end); reflexivity.
  - f_equal.
    + destruct (ps_poll ps) as [ns|] eqn:E; [|reflexivity]. destruct (Hp ns eq_refl) as [H0 H1].
      cbv zeta. replace (ns / 1000 <=? i64_max) with true by (symmetry; apply Z.leb_le; exact H1).
      replace (0 <=? ns / 1000) with true by (symmetry; apply Z.leb_le, Z.div_pos; lia). reflexivity.
    + destruct (ps_fails ps =? 0) eqn:E; [apply Z.eqb_eq in E; rewrite E; reflexivity|].
      replace ((0 <=? ps_fails ps) && (ps_fails ps <=? u32_max)) with true; [reflexivity|].
      symmetry. apply andb_true_iff. split; apply Z.leb_le; lia.
Qed.
