(* Proofs/MockServerFacts.v — facts about Model/MockServer.v (property C17):
   what the mock server reads of a request built by Model/Request.v, that its
   reply parses (Model/Response.v) to the configured decisions in request
   order, that its ETag is the one the client's verifier (Model/Cup.v) accepts
   for this exchange and no other, and that reconfiguration replaces the map. *)
Require Import Verif.Base.Bytes Verif.Proofs.BytesFacts Verif.Model.Version Verif.Model.Json Verif.Model.Proto
               Verif.Model.Request Verif.Model.Response Verif.Model.Cup Verif.Model.MockServer
               Verif.Proofs.JsonFacts Verif.Proofs.ResponseFacts Verif.Proofs.CupFacts.
From Coq Require Import Lia.
Open Scope N_scope.

(* ---------------- Value::get ---------------- *)
Lemma vget_kvs_app k a b :
  vget_kvs k (a ++ b) = match vget_kvs k b with Some x => Some x | None => vget_kvs k a end.
Proof.
  induction a as [|[[k' o] v] a IH]; cbn [app vget_kvs].
  - destruct (vget_kvs k b); reflexivity.
  - rewrite IH. destruct (vget_kvs k b); reflexivity.
Qed.

Lemma vget_kvs_notin k l :
  (forall x, In x l -> bytes_eqb (fst (fst x)) k = false) -> vget_kvs k l = None.
Proof.
  induction l as [|[[k' o] v] l IH]; intro H; cbn [vget_kvs]; [reflexivity|].
  rewrite IH by (intros x Hx; apply H; right; exact Hx).
  pose proof (H (k', o, v) (or_introl eq_refl)) as H0. cbn [fst] in H0. rewrite H0. reflexivity.
Qed.

Definition extras_fresh_entry (e : entry) : bool :=
  forallb (fun kv => negb (mem_key (fst kv) reserved_keys)) (a_extra (e_app e)).

Lemma vget_extras k (ex : list (bytes * bytes)) :
  mem_key k reserved_keys = true ->
  forallb (fun kv => negb (mem_key (fst kv) reserved_keys)) ex = true ->
  vget_kvs k (map (fun kv => (fst kv, true, js (snd kv))) ex) = None.
Proof.
  intros Hk Hf. apply vget_kvs_notin. intros x Hx. apply in_map_iff in Hx as ((a & c) & <- & Hin).
  cbn [fst snd]. rewrite forallb_forall in Hf. specialize (Hf _ Hin). cbn [fst] in Hf.
  destruct (bytes_eqb a k) eqn:E; [|reflexivity]. apply bytes_eqb_eq in E. subst a.
  rewrite Hk in Hf. discriminate.
Qed.

Definition entry_members_head (e : entry) : list (bytes * bool * json) :=
  let a := e_app e in
  [jk "appid" (js (a_id a)); jk "version" (js (Version.print (a_ver a)))]
  ++ jopt "fp" js (a_fp a)
  ++ json_of_cohort (a_cohort a)
  ++ jopt "updatecheck" json_of_uc (e_uc e)
  ++ (match e_events e with [] => [] | evs => [jk "event" (JArr (map json_of_event evs))] end)
  ++ (if e_ping e
      then [jk "ping" (JObj (jopt "ad" (JInt false) (a_uc a) ++ jopt "rd" (JInt false) (a_uc a)))]
      else []).

Lemma json_of_entry_split e :
  json_of_entry e = JObj (entry_members_head e ++ map (fun kv => (fst kv, true, js (snd kv))) (a_extra (e_app e))).
Proof. unfold json_of_entry, entry_members_head. rewrite <- !app_assoc. reflexivity. Qed.

Ltac destruct_entry e :=
  let a := fresh "a" in let u := fresh "u" in let p := fresh "p" in let ev := fresh "ev" in
  destruct e as [a u p ev];
  let id := fresh "id" in let ver := fresh "ver" in let fp := fresh "fp" in let co := fresh "co" in
  let uc := fresh "uc" in let ex := fresh "ex" in
  destruct a as [id ver fp co uc ex];
  let ci := fresh "ci" in let ch := fresh "ch" in let cn := fresh "cn" in
  destruct co as [ci ch cn].

Lemma vget_head_appid e : vget_kvs (s2b "appid") (entry_members_head e) = Some (js (a_id (e_app e))).
Proof. destruct_entry e. destruct fp, ci, ch, cn, u, p, ev, uc; reflexivity. Qed.
Lemma vget_head_version e : vget_kvs (s2b "version") (entry_members_head e) = Some (js (Version.print (a_ver (e_app e)))).
Proof. destruct_entry e. destruct fp, ci, ch, cn, u, p, ev, uc; reflexivity. Qed.
Lemma vget_head_updatecheck e : vget_kvs (s2b "updatecheck") (entry_members_head e) = option_map json_of_uc (e_uc e).
Proof. destruct_entry e. destruct fp, ci, ch, cn, u, p, ev, uc; reflexivity. Qed.
Lemma vget_head_cohort e : vget_kvs (s2b "cohort") (entry_members_head e) = option_map js (c_id (a_cohort (e_app e))).
Proof. destruct_entry e. destruct fp, ci, ch, cn, u, p, ev, uc; reflexivity. Qed.
Lemma vget_head_event e :
  vget_kvs (s2b "event") (entry_members_head e) =
  match e_events e with [] => None | evs => Some (JArr (map json_of_event evs)) end.
Proof. destruct_entry e. destruct fp, ci, ch, cn, u, p, ev, uc; reflexivity. Qed.

(* ---------------- one app of the request ---------------- *)
Lemma vget_entry k e :
  mem_key (s2b k) reserved_keys = true -> extras_fresh_entry e = true ->
  vget k (json_of_entry e) = vget_kvs (s2b k) (entry_members_head e).
Proof.
  intros Hk Hf. rewrite json_of_entry_split. unfold vget. rewrite vget_kvs_app.
  rewrite (vget_extras _ _ Hk Hf). reflexivity.
Qed.

Lemma has_updatecheck_entry e :
  extras_fresh_entry e = true ->
  has_updatecheck (json_of_entry e) = match e_uc e with Some _ => true | None => false end.
Proof.
  intro Hf. unfold has_updatecheck. rewrite (vget_entry "updatecheck" e eq_refl Hf), vget_head_updatecheck.
  destruct (e_uc e); reflexivity.
Qed.

Lemma updatedisabled_uc u :
  match vget "updatedisabled" (json_of_uc u) with
  | None => Some false
  | Some (JBool b) => Some b
  | Some _ => None
  end = Some (fst u).
Proof. destruct u as [[|] [|]]; reflexivity. Qed.

(* the reply entry the server assembles for a requested app *)
Definition entry_reply (m : response_map) (e : entry) : json :=
  match rmap_get (a_id (e_app e)) m with
  | Some r => app_json (js (a_id (e_app e)))
                       (match e_uc e with Some _ => Some (updatecheck_json r) | None => None end)
  | None => JNull
  end.

Lemma entry_served_fresh m e : entry_served m e = true -> extras_fresh_entry e = true.
Proof.
  unfold entry_served, extras_fresh_entry. destruct (rmap_get _ m); [|discriminate].
  intro H. apply andb_prop in H as [_ H]. exact H.
Qed.

Lemma app_reply_entry m e :
  entry_served m e = true -> app_reply m (json_of_entry e) = Some (entry_reply m e).
Proof.
  intro Hs. pose proof (entry_served_fresh _ _ Hs) as Hf.
  unfold entry_served in Hs. unfold entry_reply, app_reply.
  rewrite (vget_entry "appid" e eq_refl Hf), vget_head_appid. unfold js at 1.
  destruct (rmap_get (a_id (e_app e)) m) as [r|]; [|discriminate].
  apply andb_prop in Hs as [Hs _]. apply andb_prop in Hs as [Hv Hu].
  rewrite (vget_entry "version" e eq_refl Hf), vget_head_version. unfold js at 1.
  assert (Hver : match rm_version r with
                 | None => true
                 | Some v => match Some (JStr true (Version.print (a_ver (e_app e)))) with
                             | Some (JStr _ s) => bytes_eqb s v | _ => false end
                 end = true) by (destruct (rm_version r); exact Hv).
  rewrite Hver. clear Hver.
  cbn [negb].
  rewrite (vget_entry "updatecheck" e eq_refl Hf), vget_head_updatecheck.
  destruct (e_uc e) as [[dis same]|]; cbn [option_map].
  - rewrite updatedisabled_uc. cbn [fst].
    apply andb_prop in Hu as [Ha Hc]. rewrite Ha. cbn [andb].
    rewrite (vget_entry "cohort" e eq_refl Hf), vget_head_cohort.
    destruct (rm_cohort r) as [c|]; [|reflexivity].
    destruct (c_id (a_cohort (e_app e))) as [i|]; [|discriminate]. cbn [option_map]. unfold js. rewrite Hc. reflexivity.
  - rewrite (vget_entry "event" e eq_refl Hf), vget_head_event.
    destruct (e_events e); [discriminate|reflexivity].
Qed.

Lemma all_replies m es :
  forallb (entry_served m) es = true ->
  all_some (map (app_reply m) (map json_of_entry es)) = Some (map (entry_reply m) es).
Proof.
  induction es as [|e es IH]; intro H; [reflexivity|].
  cbn [forallb] in H. apply andb_prop in H as [He Hr].
  cbn [map all_some]. rewrite (app_reply_entry _ _ He), (IH Hr). reflexivity.
Qed.

Lemma uc_count_entries m es :
  forallb (entry_served m) es = true ->
  length (filter has_updatecheck (map json_of_entry es)) = uc_count es.
Proof.
  unfold uc_count. induction es as [|e es IH]; intro H; [reflexivity|].
  cbn [forallb] in H. apply andb_prop in H as [He Hr].
  cbn [map filter]. rewrite (has_updatecheck_entry _ (entry_served_fresh _ _ He)).
  destruct (e_uc e); cbn [length]; rewrite (IH Hr); reflexivity.
Qed.

(* ---------------- the request document as the server reads it ---------------- *)
Lemma fold_max_le (kvs : list (bytes * bool * json)) k :
  (forall x, In x kvs -> depth (snd x) <= k) ->
  fold_right (fun x m => N.max (depth (snd x)) m) 0 kvs <= k.
Proof.
  induction kvs as [|x r IH]; intro H; cbn [fold_right]; [lia|].
  apply N.max_lub; [apply H; left; reflexivity|apply IH; intros y Hy; apply H; right; exact Hy].
Qed.
Lemma depth_obj_le kvs k n : 1 + k <= n -> (forall x, In x kvs -> depth (snd x) <= k) -> depth (JObj kvs) <= n.
Proof. intros Hn H. cbn [depth]. pose proof (fold_max_le kvs k H). lia. Qed.
Lemma fold_max_le_arr (l : list json) k :
  (forall x, In x l -> depth x <= k) -> fold_right (fun x m => N.max (depth x) m) 0 l <= k.
Proof.
  induction l as [|x r IH]; intro H; cbn [fold_right]; [lia|].
  apply N.max_lub; [apply H; left; reflexivity|apply IH; intros y Hy; apply H; right; exact Hy].
Qed.
Lemma depth_arr_le l k n : 1 + k <= n -> (forall x, In x l -> depth x <= k) -> depth (JArr l) <= n.
Proof. intros Hn H. cbn [depth]. pose proof (fold_max_le_arr l k H). lia. Qed.

Lemma In_jopt {A} key (f : A -> json) o x : In x (jopt key f o) -> exists a, o = Some a /\ x = jk key (f a).
Proof. destruct o as [a|]; cbn; [intros [<-|[]]; exists a; split; reflexivity|intros []]. Qed.

Lemma depth_event ev : depth (json_of_event ev) <= 1.
Proof.
  unfold json_of_event. apply (depth_obj_le _ 0); [lia|]. intros x Hx.
  repeat (apply in_app_or in Hx as [Hx|Hx]).
  all: try (destruct Hx as [<-|[<-|[]]]; cbn; lia).
  all: apply In_jopt in Hx as (a & _ & ->); cbn; lia.
Qed.
Lemma depth_uc u : depth (json_of_uc u) <= 1.
Proof. destruct u as [[|] [|]]; vm_compute; discriminate. Qed.

Lemma depth_entry e : depth (json_of_entry e) <= 3.
Proof.
  unfold json_of_entry. apply (depth_obj_le _ 2); [lia|]. intros x Hx.
  repeat (apply in_app_or in Hx as [Hx|Hx]).
  all: try (destruct Hx as [<-|[<-|[]]]; cbn; lia).
  all: try (apply In_jopt in Hx as (a & _ & ->); cbn [snd jk]; first [ cbn; lia | pose proof (depth_uc a); lia ]).
  - destruct (e_events e) as [|ev evs] eqn:E; [destruct Hx|]. destruct Hx as [<-|[]]. cbn [snd jk].
    apply (depth_arr_le _ 1); [lia|]. intros y Hy. apply in_map_iff in Hy as (z & <- & _). apply depth_event.
  - destruct (e_ping e); [|destruct Hx]. destruct Hx as [<-|[]]. cbn [snd jk].
    apply (depth_obj_le _ 0); [lia|]. intros y Hy. apply in_app_or in Hy as [Hy|Hy];
      apply In_jopt in Hy as (a & _ & ->); cbn; lia.
  - apply in_map_iff in Hx as (kv & <- & _). cbn. lia.
Qed.

Lemma depth_request cfg b : depth (json_of_request cfg b) <= 6.
Proof.
  unfold json_of_request. apply (depth_obj_le _ 5); [lia|]. intros x [<-|[]]. cbn [snd jk].
  apply (depth_obj_le _ 4); [lia|]. intros x Hx.
  repeat (apply in_app_or in Hx as [Hx|Hx]).
  - repeat (destruct Hx as [<-|Hx]; [cbn; lia|]). destruct Hx.
  - apply In_jopt in Hx as (a & _ & ->). cbn. lia.
  - apply In_jopt in Hx as (a & _ & ->). cbn. lia.
  - destruct Hx as [<-|[<-|[]]]; cbn [snd jk].
    + vm_compute. discriminate.
    + apply (depth_arr_le _ 3); [lia|]. intros y Hy. apply in_map_iff in Hy as (e & <- & _). apply depth_entry.
Qed.

Lemma parse_value_request cfg b :
  wf_json (json_of_request cfg b) = true ->
  parse_value (body_of cfg b) = Some (json_of_request cfg b).
Proof.
  intro Hwf. unfold parse_value, body_of. rewrite (parse_print _ Hwf).
  unfold kept_ok. rewrite (wf_strings_ok _ Hwf). cbn [andb].
  replace (0 + depth (json_of_request cfg b) <=? max_open) with true; [reflexivity|].
  symmetry. apply N.leb_le. pose proof (depth_request cfg b). unfold max_open. lia.
Qed.

Lemma vget_request_app cfg b :
  match vget "request" (json_of_request cfg b) with
  | Some rq => vget "app" rq
  | None => None
  end = Some (JArr (map json_of_entry (b_entries b))).
Proof. unfold json_of_request. destruct (b_reqid b), (b_sessid b); reflexivity. Qed.

Theorem server_body_served m cfg b :
  request_served m cfg b = true ->
  server_body m (body_of cfg b) = Some (print_json (response_json (map (entry_reply m) (b_entries b)))).
Proof.
  unfold request_served. intro H. apply andb_prop in H as [H Hc]. apply andb_prop in H as [Hwf Hs].
  unfold server_body. rewrite (parse_value_request _ _ Hwf).
  pose proof (vget_request_app cfg b) as Hv.
  destruct (vget "request" (json_of_request cfg b)) as [rq|]; [|discriminate]. rewrite Hv.
  rewrite (uc_count_entries _ _ Hs). unfold count_served in Hc. rewrite Hc.
  rewrite (all_replies _ _ Hs). reflexivity.
Qed.

(* ---------------- the reply document as the client's parser reads it ---------------- *)
Lemma decode_wrapper_reply rs :
  decode_wrapper (response_json rs) =
  match all_some (map decode_app rs) with
  | Some apps => Some {| r_protocol := s2b "3.0"; r_server := Some (s2b "prod");
                         r_daystart := Some {| ds_days := Some 4775; ds_seconds := Some 48810 |};
                         r_apps := apps |}
  | None => None
  end.
Proof. reflexivity. Qed.

Lemma decode_app_reply id r :
  decode_app (app_json (js id) (Some (updatecheck_json r))) =
  match expected_update_check r with
  | Some u => Some (expected_rapp id (Some u))
  | None => None
  end.
Proof. unfold updatecheck_json, expected_update_check. destruct (rm_response r); reflexivity. Qed.

Lemma decode_app_reply_event id : decode_app (app_json (js id) None) = Some (expected_rapp id None).
Proof. reflexivity. Qed.

Lemma decode_entry_reply m e :
  entry_served m e = true -> decode_app (entry_reply m e) = expected_entry m e.
Proof.
  unfold entry_served, entry_reply, expected_entry. destruct (rmap_get (a_id (e_app e)) m) as [r|]; [|discriminate].
  intros _. destruct (e_uc e); [apply decode_app_reply|apply decode_app_reply_event].
Qed.

Lemma decode_replies m es :
  forallb (entry_served m) es = true ->
  all_some (map decode_app (map (entry_reply m) es)) = all_some (map (expected_entry m) es).
Proof.
  induction es as [|e es IH]; intro H; [reflexivity|].
  cbn [forallb] in H. apply andb_prop in H as [He Hr].
  cbn [map all_some]. rewrite (decode_entry_reply _ _ He), (IH Hr). reflexivity.
Qed.

Lemma rmap_get_wf m k r :
  wf_rmap m = true -> rmap_get k m = Some r -> utf8_valid k = true /\ wf_rm r = true.
Proof.
  unfold wf_rmap. induction m as [|[k' r'] m IH]; cbn [rmap_get forallb]; [discriminate|].
  intros H Hg. apply andb_prop in H as [H1 H2]. cbn [fst snd] in H1.
  destruct (bytes_eqb k' k) eqn:E.
  - apply bytes_eqb_eq in E. subst k'. inversion Hg; subst r'. apply andb_prop in H1 as [Ha Hb]. split; assumption.
  - apply IH; assumption.
Qed.

Lemma wf_app_json id r with_uc :
  utf8_valid id = true -> wf_rm r = true ->
  wf_json (app_json (js id) (if with_uc : bool then Some (updatecheck_json r) else None)) = true.
Proof.
  intros Hid Hr. unfold wf_rm in Hr. apply andb_prop in Hr as [Hc Hp].
  unfold updatecheck_json. destruct with_uc; [destruct (rm_response r)|];
    cbv -[utf8_valid rm_codebase rm_package]; rewrite ?Hid, ?Hc, ?Hp; reflexivity.
Qed.

Lemma wf_entry_reply m e :
  wf_rmap m = true -> entry_served m e = true -> wf_json (entry_reply m e) = true.
Proof.
  intros Hm Hs. unfold entry_served in Hs. unfold entry_reply.
  destruct (rmap_get (a_id (e_app e)) m) as [r|] eqn:Hg; [|discriminate].
  destruct (rmap_get_wf _ _ _ Hm Hg) as [Hid Hr].
  destruct (e_uc e).
  - apply (wf_app_json _ _ true Hid Hr).
  - apply (wf_app_json _ _ false Hid Hr).
Qed.

Lemma wf_response_json rs : forallb wf_json rs = true -> wf_json (response_json rs) = true.
Proof.
  intro H. change (response_json rs) with
    (JObj [(s2b "response", true,
            JObj [(s2b "app", true, JArr rs);
                  (s2b "daystart", true, JObj [(s2b "elapsed_days", true, JInt false 4775);
                                               (s2b "elapsed_seconds", true, JInt false 48810)]);
                  (s2b "protocol", true, JStr true (s2b "3.0"));
                  (s2b "server", true, JStr true (s2b "prod"))])]).
  rewrite wf_json_obj. cbn [forallb fst snd]. rewrite wf_json_obj. cbn [forallb fst snd].
  rewrite wf_json_arr, H. reflexivity.
Qed.

Lemma wf_replies m es :
  wf_rmap m = true -> forallb (entry_served m) es = true -> forallb wf_json (map (entry_reply m) es) = true.
Proof.
  intro Hm. induction es as [|e es IH]; intro H; [reflexivity|].
  cbn [forallb] in H. apply andb_prop in H as [He Hr].
  cbn [map forallb]. rewrite (wf_entry_reply _ _ Hm He), (IH Hr). reflexivity.
Qed.

(* C17_reply_parses *)
Theorem reply_parses m cfg b :
  wf_rmap m = true -> request_served m cfg b = true ->
  exists body,
    server_body m (body_of cfg b) = Some body /\
    parse_response body = expected_response m (b_entries b).
Proof.
  intros Hm Hs. eexists. split; [apply (server_body_served _ _ _ Hs)|].
  unfold request_served in Hs. apply andb_prop in Hs as [Hs _]. apply andb_prop in Hs as [_ Hs].
  rewrite parse_response_print by (apply wf_response_json, wf_replies; assumption).
  rewrite decode_wrapper_reply, (decode_replies _ _ Hs). reflexivity.
Qed.

(* ---------------- the request URI ---------------- *)
Lemma split_on_app sep a b : split_on sep (a ++ sep :: b) = split_on sep a ++ split_on sep b.
Proof.
  induction a as [|c a IH]; cbn [app split_on].
  - rewrite N.eqb_refl. reflexivity.
  - rewrite IH. destruct (c =? sep); [reflexivity|].
    pose proof (split_on_nonempty sep a) as Hne.
    destruct (split_on sep a) as [|p ps]; [congruence|]. reflexivity.
Qed.

Lemma split_once_none sep s : split_once sep s = None -> ~ In sep s.
Proof.
  induction s as [|c r IH]; cbn [split_once]; [intros _ []|].
  destruct (c =? sep) eqn:E; [discriminate|].
  destruct (split_once sep r) as [[a b]|]; [discriminate|].
  intros _ [H|H]; [apply N.eqb_neq in E; congruence|exact (IH eq_refl H)].
Qed.

Lemma query_pairs_app a b : query_pairs (a ++ 38 :: b) = query_pairs a ++ query_pairs b.
Proof. unfold query_pairs. rewrite split_on_app, flat_map_app. reflexivity. Qed.

Lemma find_app {A} (f : A -> bool) a b :
  find f (a ++ b) = match find f a with Some x => Some x | None => find f b end.
Proof. induction a as [|x a IH]; cbn [app find]; [reflexivity|]. destruct (f x); [reflexivity|exact IH]. Qed.

(* the characters of "<id>:<hex nonce>" and of an ETag: digits, ':', a-f *)
Definition hexish (c : N) : bool := is_digit c || (c =? 58) || ((97 <=? c) && (c <=? 102)).

Lemma hexish_range c : hexish c = true -> 48 <= c <= 58 \/ 97 <= c <= 102.
Proof.
  unfold hexish, is_digit. intro H.
  apply orb_prop in H as [H|H]; [apply orb_prop in H as [H|H]|].
  - apply andb_prop in H as [H1 H2]. apply N.leb_le in H1, H2. lia.
  - apply N.eqb_eq in H. lia.
  - apply andb_prop in H as [H1 H2]. apply N.leb_le in H1, H2. lia.
Qed.

Lemma hexdigit_hexish n : n < 16 -> hexish (hexdigit n) = true.
Proof.
  intro H. unfold hexdigit, hexish, is_digit. destruct (n <? 10) eqn:E.
  - apply N.ltb_lt in E. replace (48 <=? 48 + n) with true by (symmetry; apply N.leb_le; lia).
    replace (48 + n <=? 57) with true by (symmetry; apply N.leb_le; lia). reflexivity.
  - apply N.ltb_ge in E. replace (97 <=? 87 + n) with true by (symmetry; apply N.leb_le; lia).
    replace (87 + n <=? 102) with true by (symmetry; apply N.leb_le; lia). apply orb_true_r.
Qed.

Lemma hex_encode_hexish s : is_bytes s -> forallb hexish (hex_encode s) = true.
Proof.
  induction 1 as [|b r Hb Hr IH]; [reflexivity|]. cbn [hex_encode forallb].
  rewrite !hexdigit_hexish, IH; [reflexivity| |].
  - apply N.mod_lt. discriminate.
  - apply N.div_lt_upper_bound; [discriminate|]. change (16 * 16) with 256. exact Hb.
Qed.

Lemma print_dec_hexish n : forallb hexish (print_dec n) = true.
Proof.
  destruct (print_dec_canonical n) as (_ & Had & _). unfold all_digits in Had.
  rewrite forallb_forall in *. intros c Hc. unfold hexish. rewrite (Had c Hc). reflexivity.
Qed.

Lemma urlparam_hexish id nonce : is_bytes nonce -> forallb hexish (cup2_urlparam id nonce) = true.
Proof.
  intro H. unfold cup2_urlparam. rewrite !forallb_app, print_dec_hexish, (hex_encode_hexish _ H). reflexivity.
Qed.

Lemma hexish_not c x : hexish c = true -> (x < 48 \/ 58 < x < 97 \/ 102 < x) -> c <> x.
Proof. intros H Hx. apply hexish_range in H. lia. Qed.

Lemma hexish_no s x : forallb hexish s = true -> (x < 48 \/ 58 < x < 97 \/ 102 < x) -> ~ In x s.
Proof.
  intros H Hx Hin. rewrite forallb_forall in H. exact (hexish_not _ _ (H _ Hin) Hx eq_refl).
Qed.

Lemma form_decode_hexish s : forallb hexish s = true -> form_decode s = s.
Proof.
  unfold form_decode. induction s as [|c r IH]; intro H; [reflexivity|].
  cbn [forallb] in H. apply andb_prop in H as [Hc Hr]. cbn [map percent_decode].
  assert (plus_to_space c = c) as ->.
  { unfold plus_to_space. destruct (c =? 43) eqn:E; [|reflexivity].
    apply N.eqb_eq in E. exfalso. apply (hexish_not _ 43 Hc); [lia|exact E]. }
  destruct (c =? 37) eqn:E.
  - apply N.eqb_eq in E. exfalso. apply (hexish_not _ 37 Hc); [lia|exact E].
  - rewrite (IH Hr). reflexivity.
Qed.

Lemma cup2key_pair v :
  forallb hexish v = true -> query_pairs (cup2key_name ++ 61 :: v) = [(cup2key_name, v)].
Proof.
  intro Hv. unfold query_pairs. rewrite split_on_no_sep.
  - cbn [flat_map]. rewrite app_nil_r. unfold query_pair.
    change (cup2key_name ++ 61 :: v) with (99 :: (skipn 1 cup2key_name ++ 61 :: v)) at 1.
    cbv iota. rewrite split_once_app by (vm_compute; intuition discriminate).
    rewrite (form_decode_hexish _ Hv). reflexivity.
  - intro Hin. apply in_app_or in Hin as [Hin|[Hin|Hin]].
    + vm_compute in Hin. intuition discriminate.
    + discriminate.
    + apply (hexish_no _ 38 Hv); [lia|exact Hin].
Qed.

Lemma find_cup2key_none_pairs uri :
  find_cup2key uri = None -> find (fun p => bytes_eqb (fst p) cup2key_name) (uri_pairs uri) = None.
Proof. unfold find_cup2key. destruct (find _ (uri_pairs uri)) as [[n v]|]; [discriminate|reflexivity]. Qed.

(* decoration is found again by the server, wherever the service URL's own query puts it *)
Lemma find_cup2key_decorate base id nonce :
  is_bytes nonce -> find_cup2key base = None ->
  find_cup2key (decorate base id nonce) = Some (cup2_urlparam id nonce).
Proof.
  intros Hn Hb. pose proof (urlparam_hexish id _ Hn) as Hv.
  apply find_cup2key_none_pairs in Hb.
  unfold decorate, append_query_parameter, find_cup2key, uri_pairs, uri_query in *.
  destruct (split_once 63 base) as [[p q]|] eqn:E.
  - apply split_once_some in E as [-> Hp]. cbn [app].
    rewrite (split_once_app 63 p _ Hp). rewrite query_pairs_app, find_app, Hb.
    rewrite (cup2key_pair _ Hv). reflexivity.
  - apply split_once_none in E. cbn [app]. rewrite (split_once_app 63 base _ E).
    rewrite (cup2key_pair _ Hv). reflexivity.
Qed.

(* ... and a service URL that does not mention cup2key stays undecorated *)
Lemma split_urlparam id nonce :
  split_once 58 (cup2_urlparam id nonce) = Some (print_dec id, hex_encode nonce).
Proof. unfold cup2_urlparam. cbn [app]. apply split_once_app, print_dec_no_colon. Qed.

(* ---------------- make_etag and the client's verifier ---------------- *)
Lemma hexish_visible c : hexish c = true -> is_visible_ascii c = true.
Proof.
  intro H. apply hexish_range in H. unfold is_visible_ascii.
  replace (32 <=? c) with true by (symmetry; apply N.leb_le; lia).
  replace (c <? 127) with true by (symmetry; apply N.ltb_lt; lia). reflexivity.
Qed.
Lemma hexish_header c : hexish c = true -> ((32 <=? c) && negb (c =? 127)) || (c =? 9) = true.
Proof.
  intro H. apply hexish_range in H.
  replace (32 <=? c) with true by (symmetry; apply N.leb_le; lia).
  replace (c =? 127) with false by (symmetry; apply N.eqb_neq; lia). reflexivity.
Qed.
Lemma forallb_impl {A} (f g : A -> bool) l :
  (forall x, f x = true -> g x = true) -> forallb f l = true -> forallb g l = true.
Proof. intros H. rewrite !forallb_forall. intros Hf x Hx. apply H, Hf, Hx. Qed.

Lemma strip_etag_hexish s : forallb hexish s = true -> strip_etag s = s.
Proof.
  destruct s as [|a [|b r]]; [reflexivity|reflexivity|]. intro H. cbn [forallb] in H.
  apply andb_prop in H as [Ha _]. apply hexish_range in Ha. unfold strip_etag.
  replace (a =? 87) with false by (symmetry; apply N.eqb_neq; lia). cbn [andb].
  unfold unquote. replace (a =? 34) with false by (symmetry; apply N.eqb_neq; lia). reflexivity.
Qed.

Definition etag_of (sg hash : bytes) : bytes := hex_encode sg ++ [58] ++ hex_encode hash.
Lemma etag_hexish sg hash : is_bytes sg -> is_bytes hash -> forallb hexish (etag_of sg hash) = true.
Proof.
  intros H1 H2. unfold etag_of. rewrite !forallb_app, (hex_encode_hexish _ H1), (hex_encode_hexish _ H2). reflexivity.
Qed.

Section Exchange.
  Variable sha256 : bytes -> bytes.
  Variable der_ok : bytes -> bool.
  Variable ecdsa_verify : N -> bytes -> bytes -> bool.
  Variable sign : N -> bytes -> bytes.

  (* the server's digest is the client's, when the cup2key value is the client's *)
  Lemma server_digest_is_tx_digest req resp id nonce :
    server_digest sha256 req resp (cup2_urlparam id nonce) = tx_digest sha256 req resp id nonce.
  Proof. reflexivity. Qed.

  Lemma make_etag_decorated req base id nonce ks resp sk :
    is_bytes nonce -> find_cup2key base = None -> id < 2 ^ 64 ->
    find_key ks id = Some sk ->
    make_etag sha256 sign req (decorate base id nonce) ks resp =
    EtagSome (etag_of (sign sk (tx_digest sha256 req resp id nonce)) (sha256 req)).
  Proof.
    intros Hn Hb Hid Hk. unfold make_etag.
    rewrite (find_cup2key_decorate _ _ _ Hn Hb), split_urlparam.
    unfold parse_u64. rewrite (parse_print_dec _ _ Hid), Hk. reflexivity.
  Qed.

  Lemma make_etag_unknown_key req base id nonce ks resp :
    is_bytes nonce -> find_cup2key base = None -> id < 2 ^ 64 ->
    find_key ks id = None ->
    make_etag sha256 sign req (decorate base id nonce) ks resp = EtagNone.
  Proof.
    intros Hn Hb Hid Hk. unfold make_etag.
    rewrite (find_cup2key_decorate _ _ _ Hn Hb), split_urlparam.
    unfold parse_u64. rewrite (parse_print_dec _ _ Hid), Hk. reflexivity.
  Qed.

  Lemma make_etag_no_cup req uri ks resp :
    find_cup2key uri = None -> make_etag sha256 sign req uri ks resp = EtagNone.
  Proof. intro H. unfold make_etag. rewrite H. reflexivity. Qed.

  (* the client accepts the ETag made for its own exchange *)
  Lemma client_accepts ckeys req resp nonce id pk sg :
    map_get id (build_map ckeys) = Some pk ->
    is_bytes sg -> is_bytes (sha256 req) ->
    der_ok sg = true ->
    ecdsa_verify pk (tx_digest sha256 req resp id nonce) sg = true ->
    verify sha256 der_ok ecdsa_verify ckeys req resp nonce id [etag_of sg (sha256 req)] = inr sg.
  Proof.
    intros Hk Hs Hh Hd Hv. apply (proj2 (accept_iff sha256 der_ok ecdsa_verify ckeys req resp nonce id _ sg)).
    exists (etag_of sg (sha256 req)), [], (hex_encode sg), (hex_encode (sha256 req)), pk.
    pose proof (etag_hexish _ _ Hs Hh) as Hx.
    repeat split; try assumption.
    - apply (forallb_impl _ _ _ hexish_visible Hx).
    - apply (strip_etag_hexish _ Hx).
    - apply hex_decode_encode, Hs.
    - apply hex_decode_encode, Hh.
  Qed.

  (* the whole exchange through handle_omaha_request *)
  Lemma handle_served s uri req body :
    s_responses s <> [] ->
    server_body (s_responses s) req = Some body ->
    handle_omaha_request sha256 sign s true uri req =
    match make_etag sha256 sign req uri (s_keys s) body with
    | EtagPanic => SrvPanic
    | EtagSome e =>
        match s_etag_override s with
        | Some o => if header_value_ok o then Reply 200 (Some o) body else SrvPanic
        | None => if header_value_ok e then Reply 200 (Some e) body else SrvPanic
        end
    | EtagNone =>
        if s_require_cup s then SrvPanic else
        match s_etag_override s with
        | Some o => if header_value_ok o then Reply 200 (Some o) body else SrvPanic
        | None => Reply 200 None body
        end
    end.
  Proof.
    intros Hne Hb. unfold handle_omaha_request. cbn [negb].
    destruct (s_responses s) as [|x xs] eqn:E; [congruence|]. rewrite Hb.
    destruct (make_etag sha256 sign req uri (s_keys s) body) as [|e|]; [| |reflexivity].
    - destruct (s_require_cup s); [reflexivity|]. cbn [andb]. destruct (s_etag_override s); reflexivity.
    - rewrite andb_false_r. destruct (s_etag_override s); reflexivity.
  Qed.

  Theorem etag_verifies s ckeys base id nonce sk pk req body :
    is_bytes nonce -> find_cup2key base = None -> id < 2 ^ 64 ->
    find_key (s_keys s) id = Some sk ->
    map_get id (build_map ckeys) = Some pk ->
    s_etag_override s = None ->
    s_responses s <> [] ->
    server_body (s_responses s) req = Some body ->
    let d := tx_digest sha256 req body id nonce in
    ecdsa_verify pk d (sign sk d) = true -> der_ok (sign sk d) = true ->
    is_bytes (sign sk d) -> is_bytes (sha256 req) ->
    exists etag,
      handle_omaha_request sha256 sign s true (decorate base id nonce) req = Reply 200 (Some etag) body /\
      verify sha256 der_ok ecdsa_verify ckeys req body nonce id [etag] = inr (sign sk d).
  Proof.
    intros Hn Hb Hid Hsk Hpk Ho Hne Hbody d Hv Hd Hs Hh.
    exists (etag_of (sign sk d) (sha256 req)). split.
    - rewrite (handle_served _ _ _ _ Hne Hbody), (make_etag_decorated _ _ _ _ _ _ _ Hn Hb Hid Hsk), Ho.
      fold d. unfold header_value_ok.
      rewrite (forallb_impl _ _ _ hexish_header (etag_hexish _ _ Hs Hh)). reflexivity.
    - apply (client_accepts ckeys req body nonce id pk (sign sk d)); assumption.
  Qed.

  (* no cup2key, or a key id the server does not hold: no ETag (the override apart), and the
     client's verifier reports the missing header *)
  Theorem no_cup_no_etag s uri req body :
    find_cup2key uri = None ->
    s_responses s <> [] -> server_body (s_responses s) req = Some body ->
    handle_omaha_request sha256 sign s true uri req =
    if s_require_cup s then SrvPanic else
    match s_etag_override s with
    | Some o => if header_value_ok o then Reply 200 (Some o) body else SrvPanic
    | None => Reply 200 None body
    end.
  Proof. intros H Hne Hb. rewrite (handle_served _ _ _ _ Hne Hb), (make_etag_no_cup _ _ _ _ H). reflexivity. Qed.

  Theorem unknown_key_no_etag s base id nonce req body :
    is_bytes nonce -> find_cup2key base = None -> id < 2 ^ 64 ->
    find_key (s_keys s) id = None ->
    s_responses s <> [] -> server_body (s_responses s) req = Some body ->
    handle_omaha_request sha256 sign s true (decorate base id nonce) req =
    if s_require_cup s then SrvPanic else
    match s_etag_override s with
    | Some o => if header_value_ok o then Reply 200 (Some o) body else SrvPanic
    | None => Reply 200 None body
    end.
  Proof.
    intros Hn Hb Hid Hk Hne Hbody.
    rewrite (handle_served _ _ _ _ Hne Hbody), (make_etag_unknown_key _ _ _ _ _ _ Hn Hb Hid Hk). reflexivity.
  Qed.

  (* a forced ETag is sent whatever the request carried *)
  Theorem forced_etag s uri req body o :
    s_etag_override s = Some o -> header_value_ok o = true -> s_require_cup s = false ->
    s_responses s <> [] -> server_body (s_responses s) req = Some body ->
    make_etag sha256 sign req uri (s_keys s) body <> EtagPanic ->
    handle_omaha_request sha256 sign s true uri req = Reply 200 (Some o) body.
  Proof.
    intros Ho Hh Hr Hne Hb Hp. rewrite (handle_served _ _ _ _ Hne Hb), Ho, Hh, Hr.
    destruct (make_etag sha256 sign req uri (s_keys s) body); [reflexivity|reflexivity|congruence].
  Qed.

  (* the ETag of one exchange is refused for every other one *)
  Definition sig_exclusive (keys : list (N * N)) (sg : bytes) : Prop :=
    forall i1 i2 pk1 pk2 d1 d2,
      map_get i1 (build_map keys) = Some pk1 -> map_get i2 (build_map keys) = Some pk2 ->
      ecdsa_verify pk1 d1 sg = true -> ecdsa_verify pk2 d2 sg = true -> d1 = d2.

  Theorem etag_only_this_exchange ckeys req resp nonce id etags sg req' resp' nonce' id' :
    verify sha256 der_ok ecdsa_verify ckeys req resp nonce id etags = inr sg ->
    (req', resp', nonce', id') <> (req, resp, nonce, id) ->
    fixed_len sha256 -> is_bytes nonce -> is_bytes nonce' ->
    no_collision sha256 req' req -> no_collision sha256 resp' resp ->
    no_collision sha256 (digest_preimage sha256 req' resp' id' nonce') (digest_preimage sha256 req resp id nonce) ->
    sig_exclusive ckeys sg ->
    forall sg', verify sha256 der_ok ecdsa_verify ckeys req' resp' nonce' id' etags <> inr sg'.
  Proof.
    intros Hacc Hne Hfl Hn Hn' Hc1 Hc2 Hc3 Hex sg' Hacc'.
    apply accept_iff in Hacc as (h & rest & sh & hh & pk & -> & _ & Hst & Hsig & Hh & _ & Hk & Hv).
    apply accept_iff in Hacc' as (h' & rest' & sh' & hh' & pk' & E & _ & Hst' & Hsig' & Hh' & _ & Hk' & Hv').
    inversion E; subst h' rest'. clear E.
    rewrite Hst in Hst'. apply app_sep_inj in Hst' as [-> ->];
      try (eapply hex_decode_no_colon; eassumption).
    rewrite Hsig in Hsig'. inversion Hsig'; subst sg'. clear Hsig'.
    rewrite Hh in Hh'. inversion Hh' as [Hreq]. symmetry in Hreq.
    pose proof (Hex _ _ _ _ _ _ Hk' Hk Hv' Hv) as Hd.
    apply (digest_binds sha256) in Hd as (_ & Hresp & -> & ->); try assumption.
    apply Hc1 in Hreq. apply Hc2 in Hresp. subst. apply Hne. reflexivity.
  Qed.
End Exchange.

(* ---------------- reconfiguration ---------------- *)
Section History.
  Variable sha256 : bytes -> bytes.
  Variable sign : N -> bytes -> bytes.

  Lemma omaha_keeps_state s r :
    is_set_responses r = false ->
    handle_request sha256 sign s r = (handle_omaha_request sha256 sign s (hq_post r) (hq_uri r) (hq_body r), s).
  Proof. intro H. unfold handle_request. rewrite H. reflexivity. Qed.

  Lemma set_responses_ok s r m :
    is_set_responses r = true -> hq_post r = true -> decode_response_map (hq_body r) = Some m ->
    handle_request sha256 sign s r = (Reply 200 None [], with_responses s m).
  Proof. intros H Hp Hd. unfold handle_request, handle_set_responses. rewrite H, Hp, Hd. reflexivity. Qed.

  Lemma set_responses_refused s r :
    is_set_responses r = true -> hq_post r = true -> decode_response_map (hq_body r) = None ->
    handle_request sha256 sign s r = (SrvPanic, s).
  Proof. intros H Hp Hd. unfold handle_request, handle_set_responses. rewrite H, Hp, Hd. reflexivity. Qed.

  Lemma run_omaha s rs :
    Forall (fun r => is_set_responses r = false) rs ->
    run sha256 sign s rs = map (fun r => handle_omaha_request sha256 sign s (hq_post r) (hq_uri r) (hq_body r)) rs.
  Proof.
    induction 1 as [|r rs Hr _ IH]; [reflexivity|]. cbn [run map].
    rewrite (omaha_keeps_state _ _ Hr), IH. reflexivity.
  Qed.

  (* after a reconfiguration every later reply is the reply of a server that was
     configured with the new map from the start: nothing of the old map survives,
     keys / forced ETag / require_cup are untouched *)
  Theorem reconfigure s set m rs :
    is_set_responses set = true -> hq_post set = true -> decode_response_map (hq_body set) = Some m ->
    Forall (fun r => is_set_responses r = false) rs ->
    run sha256 sign s (set :: rs) =
    Reply 200 None [] ::
    map (fun r => handle_omaha_request sha256 sign (with_responses s m) (hq_post r) (hq_uri r) (hq_body r)) rs.
  Proof.
    intros H Hp Hd Hrs. cbn [run]. rewrite (set_responses_ok _ _ _ H Hp Hd), (run_omaha _ _ Hrs). reflexivity.
  Qed.

  Lemma with_responses_fields s m :
    s_responses (with_responses s m) = m /\ s_keys (with_responses s m) = s_keys s /\
    s_etag_override (with_responses s m) = s_etag_override s /\ s_require_cup (with_responses s m) = s_require_cup s.
  Proof. repeat split. Qed.

  (* the reply of a reconfigured server to a request it serves: the new map's decisions *)
  Theorem reconfigure_reply_parses s set m cfg b uri :
    is_set_responses set = true -> hq_post set = true -> decode_response_map (hq_body set) = Some m ->
    wf_rmap m = true -> request_served m cfg b = true -> m <> [] ->
    bytes_eqb (uri_path uri) set_responses_path = false ->
    find_cup2key uri = None -> s_require_cup s = false -> s_etag_override s = None ->
    exists body,
      run sha256 sign s [set; {| hq_post := true; hq_uri := uri; hq_body := body_of cfg b |}] =
        [Reply 200 None []; Reply 200 None body] /\
      parse_response body = expected_response m (b_entries b).
  Proof.
    intros H Hp Hd Hm Hs Hne Hu Hc Hr Ho.
    destruct (reply_parses _ _ _ Hm Hs) as (body & Hb & Hparse). exists body. split; [|exact Hparse].
    rewrite (reconfigure s set m _ H Hp Hd) by (constructor; [exact Hu|constructor]).
    cbn [map hq_post hq_uri hq_body].
    rewrite (no_cup_no_etag sha256 sign (with_responses s m) uri _ body Hc Hne Hb).
    cbn [with_responses s_require_cup s_etag_override]. rewrite Hr, Ho. reflexivity.
  Qed.
End History.

(* ---------------- D5: where the unrepaired make_etag panics ---------------- *)
Lemma d5_examples :
  d5_class (s2b "/service/update") = true /\
  d5_class (s2b "/?foo=bar&cup2key=1:00") = true /\
  d5_class (s2b "/service/update?foo=bar") = true /\
  d5_class (s2b "/") = false /\
  d5_class (s2b "/?cup2key=1:00") = false /\
  d5_class (s2b "/service/update?cup2key=1:00&foo=bar") = false.
Proof. vm_compute. repeat split. Qed.

(* the client's own decoration puts every service URL with a query into the class *)
Lemma decorated_query_in_d5 :
  d5_class (decorate (s2b "/service/update?foo=bar") 42 (repeat 171 32)) = true /\
  find_cup2key (decorate (s2b "/service/update?foo=bar") 42 (repeat 171 32)) = Some (cup2_urlparam 42 (repeat 171 32)).
Proof. vm_compute. split; reflexivity. Qed.

(* ---------------- the request tree is well-formed when its strings are Rust Strings ---------------- *)
Lemma ascii_utf8_fuel f : forall s, (length s <= f)%nat -> Forall (fun c => c < 128) s -> utf8_valid_fuel f s = true.
Proof.
  induction f as [|f IH]; intros s Hl Hs.
  - destruct s; [reflexivity|cbn in Hl; lia].
  - destruct s as [|b r]; [reflexivity|]. inversion Hs; subst. cbn [utf8_valid_fuel].
    replace (b <? 128) with true by (symmetry; apply N.ltb_lt; assumption).
    apply IH; [cbn in Hl; lia|assumption].
Qed.
Lemma ascii_utf8 s : Forall (fun c => c < 128) s -> utf8_valid s = true.
Proof. intro H. apply ascii_utf8_fuel; [lia|exact H]. Qed.

Lemma print_dec_ascii n : Forall (fun c => c < 128) (print_dec n).
Proof.
  pose proof (print_dec_hexish n) as H. rewrite forallb_forall in H. apply Forall_forall. intros c Hc.
  pose proof (hexish_range _ (H _ Hc)). lia.
Qed.
Lemma version_print_utf8 v : utf8_valid (Version.print v) = true.
Proof.
  destruct v as [[[a b] c] d]. apply ascii_utf8. unfold Version.print.
  repeat (apply Forall_app; split; [apply print_dec_ascii|]; constructor; [unfold Version.dot; lia|]).
  apply print_dec_ascii.
Qed.

Definition wf_kv (x : bytes * bool * json) : bool := snd (fst x) && utf8_valid (fst (fst x)) && wf_json (snd x).

Lemma wf_jopt {A} key (f : A -> json) o :
  utf8_valid (s2b key) = true -> (forall a, o = Some a -> wf_json (f a) = true) -> forallb wf_kv (jopt key f o) = true.
Proof.
  intros Hk Hf. destruct o as [a|]; [|reflexivity]. cbn [jopt forallb]. unfold wf_kv, jk. cbn [fst snd].
  rewrite Hk, (Hf a eq_refl). reflexivity.
Qed.
Definition wf_ostring (o : option bytes) : bool := match o with Some s => utf8_valid s | None => true end.
Lemma wf_jopt_str key o :
  utf8_valid (s2b key) = true -> wf_ostring o = true -> forallb wf_kv (jopt key js o) = true.
Proof. intros Hk Ho. apply wf_jopt; [exact Hk|]. intros a ->. cbn. exact Ho. Qed.
Lemma wf_jopt_int key o : utf8_valid (s2b key) = true -> forallb wf_kv (jopt key (JInt false) o) = true.
Proof. intros Hk. apply wf_jopt; [exact Hk|]. reflexivity. Qed.

Definition wf_event_strings (ev : event) : bool := wf_ostring (ev_prev ev) && wf_ostring (ev_next ev).
Definition wf_entry_strings (e : entry) : bool :=
  let a := e_app e in
  utf8_valid (a_id a) && wf_ostring (a_fp a)
  && wf_ostring (c_id (a_cohort a)) && wf_ostring (c_hint (a_cohort a)) && wf_ostring (c_name (a_cohort a))
  && forallb wf_event_strings (e_events e)
  && forallb (fun kv => utf8_valid (fst kv) && utf8_valid (snd kv)) (a_extra a).
Definition wf_request_strings (cfg : config) (b : builder) : bool :=
  utf8_valid (cfg_name cfg) && utf8_valid (os_platform cfg) && utf8_valid (os_version cfg)
  && utf8_valid (os_sp cfg) && utf8_valid (os_arch cfg)
  && wf_ostring (b_reqid b) && wf_ostring (b_sessid b)
  && forallb wf_entry_strings (b_entries b).

Lemma wf_json_event ev : wf_event_strings ev = true -> wf_json (json_of_event ev) = true.
Proof.
  unfold wf_event_strings. intro H. apply andb_prop in H as [Hp Hn].
  unfold json_of_event. rewrite wf_json_obj. change (forallb _) with (forallb wf_kv).
  rewrite !forallb_app. rewrite (wf_jopt_str "previousversion" _ eq_refl Hp), (wf_jopt_str "nextversion" _ eq_refl Hn).
  rewrite (wf_jopt_int "download_time_ms" _ eq_refl).
  rewrite (wf_jopt "errorcode" (fun x => JInt false (eerr_code x)) _ eq_refl) by reflexivity.
  reflexivity.
Qed.

Lemma wf_json_uc u : wf_json (json_of_uc u) = true.
Proof. destruct u as [[|] [|]]; reflexivity. Qed.

Lemma wf_json_entry e : wf_entry_strings e = true -> wf_json (json_of_entry e) = true.
Proof.
  unfold wf_entry_strings. intro H.
  repeat (let Hx := fresh "Hx" in apply andb_prop in H as [H Hx]).
  unfold json_of_entry, json_of_cohort. rewrite wf_json_obj. change (forallb _) with (forallb wf_kv).
  rewrite !forallb_app.
  rewrite (wf_jopt_str "fp" _ eq_refl), (wf_jopt_str "cohort" _ eq_refl), (wf_jopt_str "cohorthint" _ eq_refl),
          (wf_jopt_str "cohortname" _ eq_refl) by assumption.
  rewrite (wf_jopt "updatecheck" json_of_uc _ eq_refl) by (intros; apply wf_json_uc).
  assert (forallb wf_kv (map (fun kv => (fst kv, true, js (snd kv))) (a_extra (e_app e))) = true) as ->.
  { rewrite forallb_forall in *. intros x Hin. apply in_map_iff in Hin as (kv & <- & Hin).
    unfold wf_kv. cbn. specialize (Hx _ Hin). exact Hx. }
  assert (forallb wf_kv (if e_ping e
            then [jk "ping" (JObj (jopt "ad" (JInt false) (a_uc (e_app e)) ++ jopt "rd" (JInt false) (a_uc (e_app e))))]
            else []) = true) as ->.
  { destruct (e_ping e); [|reflexivity]. cbn [forallb]. unfold wf_kv at 1. cbn [fst snd jk].
    rewrite wf_json_obj. change (forallb _) with (forallb wf_kv). rewrite forallb_app.
    rewrite (wf_jopt_int "ad" _ eq_refl), (wf_jopt_int "rd" _ eq_refl). reflexivity. }
  assert (Hev : forallb wf_json (map json_of_event (e_events e)) = true).
  { rewrite forallb_forall in *. intros x Hin. apply in_map_iff in Hin as (z & <- & Hin).
    apply wf_json_event. apply Hx0. exact Hin. }
  destruct (e_events e) as [|ev evs]; cbv iota.
  - cbn [forallb]. unfold wf_kv. cbn [fst snd jk js wf_json]. rewrite H, version_print_utf8. reflexivity.
  - cbn [forallb]. unfold wf_kv. cbn [fst snd jk js]. rewrite wf_json_arr, Hev.
    unfold js. cbn [wf_json]. rewrite H, version_print_utf8. reflexivity.
Qed.

Theorem wf_request cfg b : wf_request_strings cfg b = true -> wf_json (json_of_request cfg b) = true.
Proof.
  unfold wf_request_strings. intro H.
  repeat (let Hx := fresh "Hx" in apply andb_prop in H as [H Hx]).
  unfold json_of_request. rewrite wf_json_obj. cbn [forallb fst snd jk]. rewrite wf_json_obj.
  change (forallb _) with (forallb wf_kv). rewrite !forallb_app.
  rewrite (wf_jopt_str "requestid" _ eq_refl), (wf_jopt_str "sessionid" _ eq_refl) by assumption.
  cbn [forallb]. unfold wf_kv. cbn [fst snd jk js]. rewrite wf_json_arr.
  replace (forallb wf_json (map json_of_entry (b_entries b))) with true.
  2:{ symmetry. rewrite forallb_forall in *. intros x Hin. apply in_map_iff in Hin as (z & <- & Hin).
      apply wf_json_entry. apply Hx. exact Hin. }
  rewrite wf_json_obj. unfold js, jk. cbn [forallb fst snd wf_json]. rewrite H, Hx5, Hx4, Hx3, Hx2, version_print_utf8.
  destruct (p_source (b_params b)); reflexivity.
Qed.

(* ---------------- reading expected_response ---------------- *)
Definition configured_check (m : response_map) (e : entry) : option rupdatecheck :=
  match e_uc e with
  | None => None
  | Some _ => match rmap_get (a_id (e_app e)) m with Some c => expected_update_check c | None => None end
  end.

Lemma expected_entry_fields m e a :
  expected_entry m e = Some a ->
  ra_id a = a_id (e_app e) /\ ra_status a = SOk /\ ra_cohort a = mock_cohort /\
  ra_ping a = None /\ ra_events a = None /\ ra_extra a = [] /\
  ra_update_check a = configured_check m e.
Proof.
  unfold expected_entry, configured_check. destruct (e_uc e).
  - destruct (rmap_get (a_id (e_app e)) m) as [c|]; [|discriminate].
    destruct (expected_update_check c); [|discriminate]. intro H. inversion H. repeat split.
  - intro H. inversion H. repeat split.
Qed.

Lemma expected_apps m es r :
  expected_response m es = Some r ->
  r_protocol r = s2b "3.0" /\
  Forall2 (fun e a => ra_id a = a_id (e_app e) /\ ra_status a = SOk /\ ra_cohort a = mock_cohort /\
                      ra_ping a = None /\ ra_events a = None /\ ra_extra a = [] /\
                      ra_update_check a = configured_check m e) es (r_apps r).
Proof.
  unfold expected_response. destruct (all_some (map (expected_entry m) es)) as [apps|] eqn:E; [|discriminate].
  intro H. inversion H. cbn [r_protocol r_apps]. split; [reflexivity|].
  apply all_some_Forall2 in E. clear - E. induction E; [constructor|constructor; [apply expected_entry_fields; assumption|assumption]].
Qed.

Lemma expected_request_order m es r :
  expected_response m es = Some r -> map ra_id (r_apps r) = map (fun e => a_id (e_app e)) es.
Proof.
  intro H. apply expected_apps in H as [_ H]. induction H as [|e a es apps Hea _ IH]; [reflexivity|].
  cbn [map]. destruct Hea as [-> _]. rewrite IH. reflexivity.
Qed.

Lemma all_some_none {A B} (f : A -> option B) l x : In x l -> f x = None -> all_some (map f l) = None.
Proof.
  induction l as [|y l IH]; [intros []|]. intros [->|Hin] Hx; cbn [map all_some].
  - rewrite Hx. reflexivity.
  - rewrite (IH Hin Hx). destruct (f y); reflexivity.
Qed.

(* a requested check of an app configured InvalidResponse: the client's parser must refuse the reply *)
Lemma expected_invalid m es e c :
  In e es -> e_uc e <> None -> rmap_get (a_id (e_app e)) m = Some c -> rm_response c = InvalidResponse ->
  expected_response m es = None.
Proof.
  intros Hin Hu Hg Hk. unfold expected_response. rewrite (all_some_none _ _ _ Hin); [reflexivity|].
  unfold expected_entry. destruct (e_uc e); [|congruence]. rewrite Hg. unfold expected_update_check. rewrite Hk. reflexivity.
Qed.

(* otherwise it must accept it *)
Lemma all_some_some {A B} (f : A -> option B) l : (forall x, In x l -> f x <> None) -> exists r, all_some (map f l) = Some r.
Proof.
  induction l as [|y l IH]; intro H; [exists []; reflexivity|].
  destruct IH as (r & Hr); [intros x Hx; apply H; right; exact Hx|].
  cbn [map all_some]. destruct (f y) as [b|] eqn:E; [|exfalso; exact (H y (or_introl eq_refl) E)].
  rewrite Hr. eexists. reflexivity.
Qed.
Lemma expected_valid m es :
  forallb (entry_served m) es = true ->
  (forall e c, In e es -> e_uc e <> None -> rmap_get (a_id (e_app e)) m = Some c -> rm_response c <> InvalidResponse) ->
  exists r, expected_response m es = Some r.
Proof.
  intros Hs Hv. unfold expected_response.
  destruct (all_some_some (expected_entry m) es) as (apps & ->); [|eexists; reflexivity].
  intros e Hin. rewrite forallb_forall in Hs. specialize (Hs _ Hin). unfold entry_served in Hs.
  unfold expected_entry. destruct (e_uc e) eqn:Eu; [|discriminate].
  destruct (rmap_get (a_id (e_app e)) m) as [c|] eqn:Eg; [|discriminate].
  assert (Hk : rm_response c <> InvalidResponse) by (apply (Hv e c Hin); [rewrite Eu; discriminate|exact Eg]).
  unfold expected_update_check. destruct (rm_response c); try discriminate. congruence.
Qed.

(* requests assembled by the builder operations of Model/Request.v *)
Theorem reply_parses_built m cfg p ops reqid sessid :
  let b := {| b_params := p; b_entries := b_entries (add_ops (builder_new p) ops); b_reqid := reqid; b_sessid := sessid |} in
  wf_rmap m = true -> request_served m cfg b = true ->
  exists body,
    server_body m (body_of cfg b) = Some body /\
    parse_response body = expected_response m (b_entries b).
Proof. intros b. apply reply_parses. Qed.

(* ---------------- definitions, unfolded for the property file ---------------- *)
Lemma expected_update_check_cases c :
  expected_update_check c =
  match rm_response c with
  | NoUpdate => Some {| uc_status := SNoUpdate; uc_info := None; uc_urls := None; uc_manifest := None; uc_extra := [] |}
  | Update => Some {| uc_status := SOk; uc_info := None; uc_urls := Some [rm_codebase c];
                      uc_manifest := Some (expected_manifest (rm_package c)); uc_extra := [] |}
  | UrgentUpdate => Some {| uc_status := SOk; uc_info := None; uc_urls := Some [rm_codebase c];
                            uc_manifest := Some (expected_manifest (rm_package c));
                            uc_extra := [(s2b "_urgent_update", JBool true)] |}
  | InvalidURL => Some {| uc_status := SOk; uc_info := None; uc_urls := Some [s2b "http://integration.test.fuchsia.com/"];
                          uc_manifest := Some (expected_manifest (rm_package c)); uc_extra := [] |}
  | InvalidResponse => None
  end.
Proof. reflexivity. Qed.

Lemma find_key_cases ks id :
  find_key ks id =
  if fst (keys_latest ks) =? id then Some (snd (keys_latest ks)) else find_in id (keys_historical ks).
Proof. destruct ks as [[i k] h]. reflexivity. Qed.
