(* Proofs/C06Proof.v — every model trace is accepted by the retry monitor step6 *)
Require Import Verif.Model.Time Verif.Base.Bytes Verif.Proofs.BytesFacts Verif.Model.Version Verif.Model.Json Verif.Model.Proto
               Verif.Model.Request Verif.Model.Env Verif.Model.SM Verif.Model.Monitors Verif.Proofs.Monitor Verif.Proofs.MonGeneric.
From Coq Require Import Lia.
Open Scope Z_scope.

Notation T := (triple step6).
Definition Inv6 (q : q6) : Prop := True.
Notation nM := (neutralM step6 Inv6).

Definition cupb (m : sm) : bool := match m_cup m with Some _ => true | None => false end.
Definition Jp (m : sm) (ph : ph6) (q : q6) : Prop := cup6 q = cupb m /\ poll6 q = ps_poll (m_ps m) /\ ph6_ q = ph.

Lemma Jp_ext m m' ph q : ps_poll (m_ps m') = ps_poll (m_ps m) -> m_cup m' = m_cup m -> Jp m ph q -> Jp m' ph q.
Proof. intros Hp Hc (H1 & H2 & H3). unfold Jp, cupb. rewrite Hp, Hc. auto. Qed.

Definition quiet (a : action) : Prop :=
  match a with
  | AHttp _ _ | ATimer _ | AMetric (MRequestsPerCheck _ _) | AEvent (EvState (CheckingForUpdates _)) | AEvent (EvResult _) => False
  | _ => True
  end.
Lemma step6_quiet q a : quiet a -> step6 q a = Some q.
Proof.
  intro H. destruct a as [ev|pq ans|w o|c ans|c|w|op ok|mt|id src|id r]; try contradiction; try reflexivity.
  - destruct ev as [s| | | | | |]; try contradiction; try reflexivity. destruct s; try contradiction; reflexivity.
  - destruct mt; try contradiction; reflexivity.
Qed.
Lemma nM_quiet a : quiet a -> nM (emit a).
Proof. intro H. apply neutralM_emit. intros q _. apply step6_quiet. exact H. Qed.
Lemma ign_store6 : ign_store step6 Inv6. Proof. intros op ok q _. reflexivity. Qed.
Lemma ign_clock6 : ign_clock step6 Inv6. Proof. intros c q _. reflexivity. Qed.

Lemma ign_ctl6 : ign_ctl step6.
Proof. split; intros; reflexivity. Qed.
Ltac temit := first [apply triple_emit | apply (T_yield step6 _ _ _ ign_ctl6) | (unfold yield_state; apply (T_yield step6 _ _ _ ign_ctl6))].
Lemma nM_yieldq ev : quiet (AEvent ev) -> nM (yield_ ev).
Proof. intro H. apply neutralM_yield; [apply ign_ctl6|]. intros q _. apply step6_quiet. exact H. Qed.

Lemma Jn {A} m0 ph (m : M A) : nM m -> T (Jp m0 ph) m (fun _ => Jp m0 ph).
Proof. intro H. apply (H (Jp m0 ph)). intros q _. exact I. Qed.
Lemma An {A} (P : q6 -> Prop) (m : M A) : nM m -> T P m (fun _ => P).
Proof. intro H. apply (H P). intros q _. exact I. Qed.
Ltac kn H := eapply triple_bind; [apply (Jn _ _ _ H)|intro].
Tactic Notation "kna" constr(H) "as" ident(x) := eapply triple_bind; [apply (Jn _ _ _ H)|intro x].
Ltac rj := apply triple_ret; intros q Hq; exact Hq.
Ltac rext := apply triple_ret; intros q Hq; (eapply Jp_ext; [| |exact Hq]; reflexivity).

(* metrics other than RequestsPerCheck are quiet *)
Lemma nM_report mt : (match mt with MRequestsPerCheck _ _ => False | _ => True end) -> nM (report mt).
Proof. intro H. unfold report. apply nM_quiet. destruct mt; try contradiction; exact I. Qed.
Lemma nM_yield_state s : (match s with CheckingForUpdates _ => False | _ => True end) -> nM (yield_state s).
Proof. intro H. unfold yield_state. apply nM_yieldq. destruct s; try contradiction; exact I. Qed.
Lemma nM_now : nM now. Proof. apply neutralM_now, ign_clock6. Qed.
Lemma nM_st_write op : nM (st_write op). Proof. apply neutralM_st_write, ign_store6. Qed.
Lemma nM_ctx_persist sc ps : nM (ctx_persist sc ps). Proof. apply neutralM_ctx_persist, ign_store6. Qed.
Lemma nM_persist_data m : nM (persist_data m). Proof. apply neutralM_persist_data, ign_store6. Qed.
Lemma nM_silent {A} (m : M A) : silent m -> nM m. Proof. apply neutralM_silent. Qed.

(* ---------- do_omaha_request: what it returns is determined by the outcome the monitor saw ---------- *)
Definition res_of (cup : bool) (o : http_outcome) : req_err + body :=
  match o with
  | HErr k => inl (REHttpTransport k)
  | HResp st ra au bd => if cup && negb au then inl RECupValidation else if is_2xx st then inr bd else inl (REHttpStatus st)
  end.
Definition sendable (m : sm) (b : builder) : bool := u_valid (m_url m) && headers_ok (m_cfg m) b.
Definition is_builder_err (r : req_err + body) : Prop :=
  r = inl REHttpBuilder \/ r = inl RECupDecoration.

Lemma T_do_req_gen b m (pre : ph6) (post : http_outcome -> ph6) :
  (forall q o, Jp m pre q ->
     step6 q (AHttp {| w_uri := []; w_headers := []; w_body := []; w_sum := summary_of b |} o)
     = Some (q6_with q (poll_after (cup6 q) (poll6 q) o) (post o))) ->
  T (Jp m pre) (do_omaha_request b m)
    (fun r q => if sendable m b
                then exists o, Jp (fst r) (post o) q /\ snd r = res_of (cupb m) o /\
                               ps_poll (m_ps (fst r)) = poll_after (cupb m) (ps_poll (m_ps m)) o /\ m_cup (fst r) = m_cup m
                                /\ m_url (fst r) = m_url m /\ m_cfg (fst r) = m_cfg m
                else Jp m pre q /\ fst r = m /\ is_builder_err (snd r)).
Proof.
  intro Hstep. unfold do_omaha_request, sendable.
  destruct (u_valid (m_url m)) eqn:Ev; cbn [negb andb].
  2:{ apply triple_ret. intros q Hq. split; [exact Hq|split; [reflexivity|]]. destruct (m_cup m); [right|left]; reflexivity. }
  destruct (headers_ok (m_cfg m) b) eqn:Eh; cbn [negb].
  2:{ eapply triple_bind with (R := fun _ => Jp m pre).
      - destruct (m_cup m); [|rj]. kn (nM_silent _ silent_fresh_nonce). rj.
      - intro. apply triple_ret. intros q Hq. split; [exact Hq|split; [reflexivity|left; reflexivity]]. }
  eapply triple_bind with (R := fun _ => Jp m pre).
  { destruct (m_cup m); [kn (nM_silent _ silent_fresh_nonce); rj|rj]. }
  intro uri. kna (nM_silent _ silent_pop_http) as o.
  eapply triple_bind with (R := fun _ q => cup6 q = cupb m /\ poll6 q = poll_after (cupb m) (ps_poll (m_ps m)) o /\ ph6_ q = post o).
  { temit. intros q Hq. eexists. split.
    - specialize (Hstep q o Hq). unfold step6 in *. cbn [w_sum] in *. exact Hstep.
    - destruct Hq as (Hc & Hp & Hph). unfold q6_with. cbn [cup6 poll6 ph6_]. rewrite Hc, Hp. auto. }
  intro.
  assert (Hfin : forall m', ps_poll (m_ps m') = poll_after (cupb m) (ps_poll (m_ps m)) o -> m_cup m' = m_cup m ->
                 forall q, cup6 q = cupb m /\ poll6 q = poll_after (cupb m) (ps_poll (m_ps m)) o /\ ph6_ q = post o -> Jp m' (post o) q).
  { intros m' Hp' Hc' q (H1 & H2 & H3). unfold Jp, cupb. rewrite Hp', Hc'. auto. }
  destruct o as [k|status ra authentic bd].
  - apply triple_ret. intros q Hq. exists (HErr k). cbn [fst snd].
    split; [apply Hfin; [reflexivity|reflexivity|exact Hq]|]. repeat split; reflexivity.
  - destruct (match m_cup m with Some _ => negb authentic | None => false end) eqn:Ef.
    + apply triple_ret. intros q Hq. exists (HResp status ra authentic bd). cbn [fst snd].
      assert (Hcup : cupb m = true /\ authentic = false).
      { unfold cupb. destruct (m_cup m); [|discriminate]. destruct authentic; [discriminate|auto]. }
      destruct Hcup as [Hc1 Ha]. 
      split; [apply Hfin; [|reflexivity|exact Hq]|].
      * cbn [poll_after]. rewrite Hc1, Ha. reflexivity.
      * cbn [res_of poll_after]. rewrite Hc1, Ha. cbn. repeat split; reflexivity.
    + assert (Hau : negb (cupb m) || authentic = true /\ cupb m && negb authentic = false).
      { unfold cupb. destruct (m_cup m); cbn; [|auto]. destruct authentic; [auto|discriminate]. }
      destruct Hau as [Hau1 Hau2].
      set (p' := parse_retry_after ra).
      eapply triple_bind with
        (R := fun m' q => (cup6 q = cupb m /\ poll6 q = poll_after (cupb m) (ps_poll (m_ps m)) (HResp status ra authentic bd) /\
                           ph6_ q = post (HResp status ra authentic bd)) /\
                          ps_poll (m_ps m') = p' /\ m_cup m' = m_cup m /\ m_url m' = m_url m /\ m_cfg m' = m_cfg m).
      { destruct (oZ_eqb (ps_poll (m_ps m)) p') eqn:Eq.
        - apply triple_ret. intros q Hq. split; [exact Hq|]. split; [|repeat split; reflexivity].
          subst p'. destruct (ps_poll (m_ps m)), (parse_retry_after ra); cbn in Eq; try discriminate; [apply Z.eqb_eq in Eq; subst|]; reflexivity.
        - set (PP := fun q : q6 => cup6 q = cupb m /\ poll6 q = poll_after (cupb m) (ps_poll (m_ps m)) (HResp status ra authentic bd) /\ ph6_ q = post (HResp status ra authentic bd)).
          eapply triple_bind with (R := fun _ => PP); [apply (An PP), nM_yieldq; exact I|]. intro.
          eapply triple_bind with (R := fun _ => PP); [apply (An PP), nM_ctx_persist|]. intro.
          eapply triple_bind with (R := fun _ => PP); [apply (An PP), nM_st_write|]. intro.
          apply triple_ret. intros q Hq. split; [exact Hq|]. repeat split; reflexivity. }
      intro m'.
      assert (Hres : forall q r, r = (if is_2xx status then inr bd else inl (REHttpStatus status)) ->
                ((cup6 q = cupb m /\ poll6 q = poll_after (cupb m) (ps_poll (m_ps m)) (HResp status ra authentic bd) /\
                  ph6_ q = post (HResp status ra authentic bd)) /\
                 ps_poll (m_ps m') = p' /\ m_cup m' = m_cup m /\ m_url m' = m_url m /\ m_cfg m' = m_cfg m) ->
                exists o, Jp m' (post o) q /\ r = res_of (cupb m) o /\
                          ps_poll (m_ps m') = poll_after (cupb m) (ps_poll (m_ps m)) o /\ m_cup m' = m_cup m /\ m_url m' = m_url m /\ m_cfg m' = m_cfg m).
      { intros q r -> (Hq & Hp' & Hc' & Hu' & Hg'). exists (HResp status ra authentic bd).
        assert (Hpa : poll_after (cupb m) (ps_poll (m_ps m)) (HResp status ra authentic bd) = p').
        { cbn [poll_after]. rewrite Hau1. reflexivity. }
        split; [apply Hfin; [rewrite Hp', Hpa; reflexivity|exact Hc'|exact Hq]|].
        cbn [res_of]. rewrite Hau2. rewrite Hp', Hpa. repeat split; auto. }
      unfold is_2xx in Hres.
      destruct ((200 <=? status)%N && (status <? 300)%N).
      * apply triple_ret. intros q Hq. cbn [fst snd]. exact (Hres q _ eq_refl Hq).
      * apply triple_ret. intros q Hq. cbn [fst snd]. exact (Hres q _ eq_refl Hq).
Qed.

Lemma headers_core cfg b b' : same_core b b' -> headers_of cfg b' = headers_of cfg b.
Proof. intros (Hp & He & _). unfold headers_of. rewrite Hp, He. reflexivity. Qed.
Lemma sendable_core m b b' : same_core b b' -> sendable m b' = sendable m b.
Proof. intro H. unfold sendable, headers_ok. rewrite (headers_core _ _ _ H). reflexivity. Qed.

Lemma T_do_req_plain b m ph :
  (match ph with Q6Att _ _ _ => False | _ => True end) ->
  T (Jp m ph) (do_omaha_request b m) (fun r => Jp (fst r) ph).
Proof.
  intro Hph. eapply triple_conseq; [apply (T_do_req_gen b m ph (fun _ => ph))|auto|].
  - intros q o (Hc & Hp & Hq). unfold step6. cbn [w_sum]. rewrite Hq. destruct ph; try contradiction; reflexivity.
  - intros r q H. destruct (sendable m b).
    + destruct H as (o & HJ & _). exact HJ.
    + destruct H as (HJ & -> & _). exact HJ.
Qed.

Lemma randomize_in_window k r : 1 <= k -> in_window k (randomize (Z.shiftl 1 (k - 1) * 1000) 1000 r * 1000000) = true.
Proof.
  intro Hk. unfold in_window, randomize. cbv zeta. change (1000 / 2) with 500.
  pose proof (Z.mod_pos_bound r 1000 ltac:(lia)).
  apply andb_true_iff. split; [apply Z.leb_le|apply Z.ltb_lt]; nia.
Qed.

Definition is_ok (res : req_err + body) : bool := match res with inr _ => true | inl _ => false end.

Definition att_post (r : sm * Z * (req_err + body)) (q : q6) : Prop :=
  exists k last ready, Jp (fst (fst r)) (Q6Att k last ready) q /\
     rpc_ok (cup6 q) (poll6 q) k last ready (snd (fst r)) (is_ok (snd r)) = true.

Definition stop_of (e : req_err) (attempt : Z) (poll : option Z) : bool :=
  match e with
  | REJson | REHttpBuilder | RECupDecoration | RECupValidation => true
  | REHttpTransport k => (MAX_ATTEMPTS <=? attempt) || (match k with TUser => true | _ => false end) || (match poll with Some _ => true | None => false end)
  | REHttpStatus _ => (MAX_ATTEMPTS <=? attempt) || (match poll with Some _ => true | None => false end)
  end.

Lemma stop_spec cup o e attempt poll :
  res_of cup o = inl e ->
  stop_of e attempt poll = negb (retryable cup o && (attempt <? 3) && poll_none poll).
Proof.
  unfold res_of, stop_of, retryable, poll_none, MAX_ATTEMPTS. intro H.
  assert (Hlt : (3 <=? attempt) = negb (attempt <? 3)).
  { destruct (3 <=? attempt) eqn:E1, (attempt <? 3) eqn:E2; try reflexivity;
      [apply Z.leb_le in E1; apply Z.ltb_lt in E2; lia|apply Z.leb_gt in E1; apply Z.ltb_ge in E2; lia]. }
  destruct o as [k|st ra au bd].
  - inversion H; subst. rewrite Hlt. destruct k, (attempt <? 3), poll; reflexivity.
  - destruct (cup && negb au) eqn:Ec.
    + inversion H; subst. reflexivity.
    + destruct (is_2xx st) eqn:E2; [discriminate|]. inversion H; subst. rewrite Hlt. cbn [negb].
      destruct (attempt <? 3), poll; reflexivity.
Qed.

Lemma res_not_ok cup o e : res_of cup o = inl e ->
  authenticated cup o && match o with HResp st _ _ _ => is_2xx st | _ => false end = false.
Proof.
  unfold res_of, authenticated. destruct o as [k|st ra au bd]; [reflexivity|].
  destruct cup, au; cbn; try discriminate; destruct (is_2xx st); try discriminate; reflexivity.
Qed.
Lemma res_ok cup o bd : res_of cup o = inr bd ->
  retryable cup o = false /\ authenticated cup o && match o with HResp st _ _ _ => is_2xx st | _ => false end = true.
Proof.
  unfold res_of, retryable, authenticated. destruct o as [k|st ra au bd']; [discriminate|].
  destruct cup, au; cbn; try discriminate; destruct (is_2xx st); try discriminate; auto.
Qed.

Lemma T_pre_false {A} (P : q6 -> Prop) (m : M A) Q : (forall q, P q -> False) -> T P m Q.
Proof. intros H q0 e q _ Hp. destruct (H q Hp). Qed.

Lemma T_attempt_loop b0 sess fuel : forall attempt m last,
  1 <= attempt <= 3 ->
  (sendable m b0 = false -> attempt = 1 /\ last = None) ->
  T (Jp m (Q6Att (if sendable m b0 then attempt - 1 else 0) last true))
    (attempt_loop fuel attempt b0 sess m) att_post.
Proof.
  induction fuel as [|f IH]; intros attempt m last Hatt Hns; cbn [attempt_loop]; [apply triple_halt|].
  kn nM_now. kn (nM_silent _ silent_fresh_guid).
  eapply triple_bind; [apply (T_maybe_ids step6 _ _ _ _ (Jp m _))|]. intro b. apply T_pre_pure. intro Hcore.
  pose proof (sendable_core m _ _ Hcore) as Hsb.
  eapply triple_bind.
  { apply (T_do_req_gen b m _ (fun o => Q6Att (if sendable m b0 then attempt else 1) (Some o) false)).
    intros q o (Hc & Hp & Hq). unfold step6. cbn [w_sum]. rewrite Hq.
    destruct (sendable m b0) eqn:Es.
    - replace (attempt - 1 <? 3) with true by (symmetry; apply Z.ltb_lt; lia). cbn [andb].
      replace (attempt - 1 + 1) with attempt by lia. reflexivity.
    - reflexivity. }
  intros [m1 res]. rewrite Hsb. cbn [fst snd].
  destruct (sendable m b0) eqn:Es.
  - (* the request went out *)
    set (P1 := fun q : q6 => exists o, Jp m1 (Q6Att attempt (Some o) false) q /\ res = res_of (cupb m) o /\
                  ps_poll (m_ps m1) = poll_after (cupb m) (ps_poll (m_ps m)) o /\ m_cup m1 = m_cup m /\ m_url m1 = m_url m /\ m_cfg m1 = m_cfg m).
    eapply triple_bind with (R := fun _ => P1); [apply (An P1), nM_now|]. intro fin.
    eapply triple_bind with (R := fun _ => P1).
    { match goal with |- T _ (if ?c then _ else _) _ => destruct c end;
        [apply (An P1), nM_report; exact I|apply triple_ret; auto]. }
    intros _.
    assert (Hcupb : forall o : http_outcome, m_cup m1 = m_cup m -> cupb m1 = cupb m) by (intros _ H; unfold cupb; rewrite H; reflexivity).
    destruct res as [e|bd].
    + match goal with |- T _ (if ?c then _ else _) _ => change c with (stop_of e attempt (ps_poll (m_ps m1))) end.
      destruct (stop_of e attempt (ps_poll (m_ps m1))) eqn:Est.
      * eapply triple_bind with (R := fun _ => P1); [apply (An P1), nM_yield_state; exact I|]. intro.
        apply triple_ret. intros q (o & HJ & Hr & Hp & Hc & Hu & Hg). exists attempt, (Some o), false. cbn [fst snd].
        split; [exact HJ|]. destruct HJ as (Hc6 & Hp6 & _). rewrite Hc6, Hp6, (Hcupb o Hc).
        unfold rpc_ok. cbn [negb andb is_ok].
        rewrite <- (stop_spec _ _ _ attempt (ps_poll (m_ps m1)) (eq_sym Hr)), Est.
        rewrite (res_not_ok _ _ _ (eq_sym Hr)). cbn [Bool.eqb andb].
        apply Z.eqb_eq. lia.
      * (* retry: exactly one wait inside the window, then the next attempt *)
        eapply triple_bind with (R := fun _ => P1); [apply (An P1), nM_silent, silent_pop_backoff|]. intro r.
        assert (Hlt : attempt < 3).
        { destruct e; cbn [stop_of] in Est; try discriminate; unfold MAX_ATTEMPTS in Est;
            destruct (3 <=? attempt) eqn:E3; try discriminate; apply Z.leb_gt in E3; exact E3. }
        eapply triple_bind with (R := fun _ q => exists o, Jp m1 (Q6Att attempt (Some o) true) q /\ m_url m1 = m_url m /\ m_cfg m1 = m_cfg m).
        { temit. intros q (o & HJ & Hr & Hp & Hc & Hu & Hg). eexists. split.
          - destruct HJ as (Hc6 & Hp6 & Hph). unfold step6. rewrite Hph, Hc6, Hp6, (Hcupb o Hc).
            pose proof (stop_spec _ _ _ attempt (ps_poll (m_ps m1)) (eq_sym Hr)) as Hs. rewrite Est in Hs.
            apply (f_equal negb) in Hs. rewrite Bool.negb_involutive in Hs. cbn [negb] in Hs.
            rewrite <- Hs. rewrite randomize_in_window by lia. reflexivity.
          - exists o. split; [|auto]. destruct HJ as (Hc6 & Hp6 & Hph). unfold Jp, q6_with. cbn [cup6 poll6 ph6_]. auto. }
        intro.
        intros q0 e0 q Hq (o & HJ & Hu & Hg).
        assert (Hs1 : sendable m1 b0 = true) by (unfold sendable in *; rewrite Hu, Hg; exact Es).
        assert (HT := IH (attempt + 1) m1 (Some o) ltac:(lia) ltac:(rewrite Hs1; discriminate)).
        rewrite Hs1 in HT. replace (attempt + 1 - 1) with attempt in HT by lia.
        exact (HT q0 e0 q Hq HJ).
    + apply triple_ret. intros q (o & HJ & Hr & Hp & Hc & Hu & Hg). exists attempt, (Some o), false. cbn [fst snd].
      split; [exact HJ|]. destruct HJ as (Hc6 & Hp6 & _). rewrite Hc6, Hp6, (Hcupb o Hc).
      destruct (res_ok _ _ _ (eq_sym Hr)) as [Hnr Hok].
      unfold rpc_ok. rewrite Hnr, Hok. cbn. apply Z.eqb_eq. lia.
  - (* the request could not be built: nothing on the wire, the loop stops *)
    destruct (Hns eq_refl) as [-> ->].
    set (P0 := fun q : q6 => Jp m (Q6Att 0 None true) q /\ m1 = m /\ is_builder_err res).
    eapply triple_bind with (R := fun _ => P0); [apply (An P0), nM_now|]. intro fin.
    eapply triple_bind with (R := fun _ => P0).
    { match goal with |- T _ (if ?c then _ else _) _ => destruct c end;
        [apply (An P0), nM_report; exact I|apply triple_ret; auto]. }
    intros _.
    assert (Hcases : res = inl REHttpBuilder \/ res = inl RECupDecoration -> True) by auto.
    destruct res as [e|bd].
    2:{ apply T_pre_false. intros q (_ & _ & [H|H]); discriminate. }
    destruct e; try (apply T_pre_false; intros q (_ & _ & [H|H]); discriminate).
    all: cbn [orb];
      (eapply triple_bind with (R := fun _ => P0); [apply (An P0), nM_yield_state; exact I|]); intro;
      apply triple_ret; intros q (HJ & -> & _); exists 0, None, true; cbn [fst snd]; split; [exact HJ|reflexivity].
Qed.

(* ---------- the rest of the flow ---------- *)
Ltac repn := match goal with |- T _ (report ?x) _ => apply (Jn _ _ _ (nM_report x I)) end.
Ltac krep := match goal with |- T _ (bind (report ?x) _) _ => kn (nM_report x I) end.
Lemma T_maybe_ids6 (c : bool) b s r m ph : T (Jp m ph) (if c then with_ids b s r else ret b) (fun _ => Jp m ph).
Proof. eapply triple_conseq; [apply (T_maybe_ids step6 _ _ _ _ (Jp m ph))|auto|]. intros b' q [H _]. exact H. Qed.

Lemma T_report_event p ev apps sess nv dur m ph :
  (match ph with Q6Att _ _ _ => False | _ => True end) ->
  T (Jp m ph) (report_event p ev apps sess nv dur m) (fun m' => Jp m' ph).
Proof.
  intro Hph. unfold report_event. kn (nM_silent _ silent_fresh_guid).
  eapply triple_bind; [apply T_maybe_ids6|]. intro b.
  eapply triple_bind; [apply T_do_req_plain; exact Hph|]. intros [m' [e|bd]]; cbn [fst].
  - kn (nM_report (MOmahaEventLost ev) I). rj.
  - rj.
Qed.

Lemma T_report_check_interval src m ph : T (Jp m ph) (report_check_interval src m) (fun m' => Jp m' ph).
Proof.
  unfold report_check_interval. kna nM_now as n.
  eapply triple_bind with (R := fun _ => Jp m ph); [|intro; rext].
  destruct (s_last_check (m_sched m)) as [[w|mm|c]|]; try rj.
  - destruct (w <=? wall n); [repn|rj].
  - destruct (mono c <=? mono n); [repn|rj].
Qed.

Lemma nM_record_first_seen plan t : nM (record_first_seen plan t).
Proof. apply neutralM_record_first_seen, ign_store6. Qed.

Lemma nM_report_attempts_install s : nM (report_attempts_to_successful_install s).
Proof.
  unfold report_attempts_to_successful_install.
  apply neutralM_bind; [apply nM_silent, silent_st_get_int|intro].
  apply neutralM_bind; [apply nM_report; exact I|intro].
  apply neutralM_bind; [destruct s; apply nM_st_write|intro]. apply neutralM_ret.
Qed.

Lemma T_perform fuel p apps m : T (Jp m Q6Out) (perform_update_check fuel p apps m) (fun r => Jp (fst r) Q6Rep).
Proof.
  unfold perform_update_check.
  eapply triple_bind with (R := fun _ => Jp m (Q6Att 0 None true)).
  { temit. intros q (Hc & Hp & Hq). eexists. split; [unfold step6; rewrite Hq; reflexivity|].
    unfold Jp, q6_with. cbn. auto. }
  intro. eapply triple_bind; [apply T_report_check_interval|]. intro m0.
  kn (nM_silent _ silent_fresh_guid).
  eapply triple_bind.
  { match goal with |- T _ (attempt_loop _ _ ?b0 _ _) _ =>
      pose proof (T_attempt_loop b0 a0 fuel 1 m0 None ltac:(lia) ltac:(auto)) as HT end.
    destruct (sendable m0 _); exact HT. }
  intros [[m1 attempts] res].
  eapply triple_bind with (R := fun _ => Jp m1 Q6Rep).
  { temit. intros q (k & last & ready & (Hc & Hp & Hq) & Hrpc). cbn [fst snd] in *. eexists. split.
    - unfold step6. rewrite Hq. fold (is_ok res). rewrite Hrpc. reflexivity.
    - unfold Jp, q6_with. cbn. auto. }
  intro.
  destruct res as [e|[d|]].
  - rj.
  - kn (nM_yieldq (EvServerResponse d) I).
    destruct (filter uc_ok (d_apps d)) as [|wu0 wur] eqn:Hwu.
    + kn (nM_yield_state NoUpdateAvailable I). rj.
    + kna (nM_silent _ silent_pop_plan) as pl.
      match goal with |- T _ (bind (emit ?a) _) _ => kn (nM_quiet a I) end.
      destruct pl as [plan|].
      2:{ kn (nM_yield_state InstallingUpdate I). kn (nM_yield_state InstallationError I).
          eapply triple_bind; [apply T_report_event; exact I|]. intro. rj. }
      kna (nM_silent _ silent_pop_can_start) as dec.
      match goal with |- T _ (bind (emit ?a) _) _ => kn (nM_quiet a I) end.
      destruct dec.
      * kn (nM_yield_state InstallingUpdate I).
        eapply triple_bind; [apply T_report_event; exact I|]. intro m2.
        kna nM_now as t0. kn (nM_record_first_seen plan (wall t0)).
        kna (nM_silent _ silent_pop_perform) as pa.
        match goal with |- T _ (bind (emit ?a) _) _ => kn (nM_quiet a I) end.
        kn (neutralM_iterM step6 Inv6 (fun bits => yield_ (EvProgress bits)) (pa_progress pa)
              (fun bits => nM_yieldq (EvProgress bits) I)).
        kna nM_now as t1.
        eapply triple_bind with (R := fun _ => Jp m2 Q6Rep).
        { match goal with |- T _ (if ?c then _ else _) _ => destruct c end; [|rj].
          destruct (forallb _ _); krep; rj. }
        intro dur. kn (nM_silent _ silent_fresh_guid).
        eapply triple_bind; [apply T_maybe_ids6|]. intro b.
        eapply triple_bind; [apply T_do_req_plain; exact I|]. intros [m3 rr]; cbn [fst].
        eapply triple_bind with (R := fun _ => Jp m3 Q6Rep).
        { destruct rr; [|rj]. apply (Jn _ _ _ (neutralM_iterM step6 Inv6 _ _ (fun x => nM_report (MOmahaEventLost (snd x)) I))). }
        intros _.
        eapply triple_bind with (R := fun m' => Jp m' Q6Rep).
        { match goal with |- T _ (match ?l with [] => _ | _ => _ end) _ => destruct l end; [rj|apply T_report_event; exact I]. }
        intro m4.
        match goal with |- T _ (match ?n with O => _ | S _ => _ end) _ => destruct n as [|nerr] end.
        -- eapply triple_bind with (R := fun _ => Jp m4 Q6Rep).
           { match goal with |- T _ (if ?c then _ else _) _ => destruct c end; [repn|rj]. }
           intros _. kn (neutralM_st_set_time step6 Inv6 K_FINISH_TIME (wall t1) ign_store6).
           eapply triple_bind with (R := fun _ => Jp m4 Q6Rep).
           { match goal with |- T _ (match ?x with Some _ => _ | None => _ end) _ => destruct x as [o|] end; [|rj].
             kn (nM_st_write (SSetStr K_TARGET_VERSION (match o with Some v => v | None => s2b "UNKNOWN" end))). rj. }
           intros _. kn (nM_st_write SCommit).
           kna (nM_silent _ silent_pop_reboot_needed) as rn.
           match goal with |- T _ (bind (emit ?a) _) _ => kn (nM_quiet a I) end. rj.
        -- kn (neutralM_iterM step6 Inv6 (fun _ : unit => yield_ EvInstallerError) (repeat tt (Datatypes.S nerr))
                 (fun _ => nM_yieldq EvInstallerError I)).
           kn (nM_yield_state InstallationError I). rj.
      * eapply triple_bind; [apply T_report_event; exact I|]. intro.
        kn (nM_yield_state InstallationDeferredByPolicy I). rj.
      * eapply triple_bind; [apply T_report_event; exact I|]. intro. rj.
  - kn (nM_yield_state ErrorCheckingForUpdate I).
    eapply triple_bind; [apply T_report_event; exact I|]. intro. rj.
Qed.

Lemma T_start fuel p m : T (Jp m Q6Out) (start_update_check fuel p m) (fun r => Jp (fst r) Q6Out).
Proof.
  unfold start_update_check.
  eapply triple_bind; [apply T_perform|]. intros [m1 res]; cbn [fst].
  eapply triple_bind with (R := fun fin => Jp (fst (fst fin)) Q6Rep).
  { destruct res as [e|[rs rb]].
    - eapply triple_bind with (R := fun mr => Jp (fst mr) Q6Rep).
      { destruct e as [re| |]; [destruct re; rj| |]; (kna nM_now as n; rext). }
      intros [m2 reason]; cbn [fst]. kn (nM_report (MFailureReason reason) I). rext.
    - kna nM_now as n.
      krep.
      eapply triple_bind with (R := fun _ => Jp m1 Q6Rep).
      { destruct (install_success rs); [|rj].
        apply (Jn _ _ _ (nM_report_attempts_install _)). }
      intro. rext. }
  intros [[m2 result] rb]; cbn [fst].
  kn (nM_yieldq (EvSchedule (m_sched m2)) I). kn (nM_yieldq (EvProtocol (m_ps m2)) I).
  eapply triple_bind with (R := fun _ => Jp m2 Q6Out).
  { temit. intros q (Hc & Hp & Hq). eexists. split; [unfold step6; rewrite Hq; reflexivity|]. unfold Jp, q6_with. cbn. auto. }
  intro. kn (nM_persist_data m2). rj.
Qed.

(* ---------- waiting, pings, the outer loop: the phase stays Q6Out ---------- *)
Lemma timer_out m w q : Jp m Q6Out q -> step6 q (ATimer w) = Some q.
Proof. intros (_ & _ & Hq). unfold step6. rewrite Hq. destruct w; reflexivity. Qed.
Lemma T_timer_out m w : T (Jp m Q6Out) (emit (ATimer w)) (fun _ => Jp m Q6Out).
Proof. temit. intros q Hq. exists q. split; [eapply timer_out; exact Hq|exact Hq]. Qed.

Lemma T_make_wait m t : T (Jp m Q6Out) (make_wait t) (fun _ => Jp m Q6Out).
Proof.
  unfold make_wait. destruct (t_min t).
  - eapply triple_bind; [apply T_timer_out|]. intro. eapply triple_bind; [apply T_timer_out|]. intro. rj.
  - eapply triple_bind; [apply T_timer_out|]. intro. rj.
Qed.

Lemma T_update_next m : T (Jp m Q6Out) (update_next_update_time m) (fun r => Jp (fst r) Q6Out).
Proof.
  unfold update_next_update_time. kna (nM_silent _ silent_pop_next_time) as t.
  match goal with |- T _ (bind (emit ?a) _) _ => kn (nM_quiet a I) end.
  match goal with |- T _ (bind (yield_ ?ev) _) _ => kn (nM_yieldq ev I) end. rext.
Qed.

Lemma T_ping m : T (Jp m Q6Out) (ping_omaha m) (fun m' => Jp m' Q6Out).
Proof.
  unfold ping_omaha. kn (nM_silent _ silent_fresh_guid). kn (nM_silent _ silent_fresh_guid).
  eapply triple_bind; [apply T_maybe_ids6|]. intro b.
  eapply triple_bind; [apply T_do_req_plain; exact I|]. intros [m1 res]; cbn [fst].
  assert (Hfail : T (Jp m1 Q6Out)
            (persist_data (with_ps m1 (set_fails (m_ps m1) (sat_inc_u32 (ps_fails (m_ps m1)))));;;
             ret (with_ps m1 (set_fails (m_ps m1) (sat_inc_u32 (ps_fails (m_ps m1)))))) (fun m' => Jp m' Q6Out)).
  { kn (nM_persist_data (with_ps m1 (set_fails (m_ps m1) (sat_inc_u32 (ps_fails (m_ps m1)))))). rext. }
  destruct res as [er|[d|]]; [exact Hfail| |exact Hfail].
  kna nM_now as n.
  match goal with |- T _ (bind (yield_ ?ev) _) _ => kn (nM_yieldq ev I) end.
  match goal with |- T _ (bind (persist_data ?x) _) _ => kn (nM_persist_data x) end. rext.
Qed.

Lemma T_ask_reboot src m ph : T (Jp m ph) (ask_reboot_allowed src) (fun _ => Jp m ph).
Proof.
  unfold ask_reboot_allowed. kna (nM_silent _ silent_pop_reboot_allowed) as b.
  kn (nM_quiet (APolicy (QRebootAllowed src) (PBool b)) I). rj.
Qed.

Lemma T_handle_in_reboot id sc m : T (Jp m Q6Out) (handle_in_reboot id sc) (fun _ => Jp m Q6Out).
Proof.
  unfold handle_in_reboot. kn (nM_quiet (AReply id AlreadyRunning) I).
  destruct sc; [apply T_ask_reboot|rj].
Qed.

Lemma T_reboot_loop fuel : forall src pending m, T (Jp m Q6Out) (reboot_loop fuel src pending m) (fun m' => Jp m' Q6Out).
Proof.
  induction fuel as [|f IH]; intros src pending m; cbn [reboot_loop]; [apply triple_halt|].
  kna (nM_silent _ (silent_pop_queued)) as qd. destruct qd as [[id sc]|].
  { eapply triple_bind; [apply T_handle_in_reboot|]. intros [|]; [rj|apply IH]. }
  kna (nM_silent _ (silent_pop_stim)) as s. destruct s as [i|sc|].
  - assert (Hping : T (Jp m Q6Out)
              (m1 <- ping_omaha m;; mt <- update_next_update_time m1;;
               (let '(m2, t) := mt in roles <- make_wait t;; reboot_loop f src (remove_nth i pending ++ roles) m2)) (fun m' => Jp m' Q6Out)).
    { eapply triple_bind; [apply T_ping|]. intro m1.
      eapply triple_bind; [apply T_update_next|]. intros [m2 t]; cbn [fst].
      eapply triple_bind; [apply T_make_wait|]. intro roles. apply IH. }
    destruct (nth_error pending i) as [[| |]|].
    + destruct (has_ping_roles (remove_nth i pending)); [apply IH|exact Hping].
    + destruct (has_ping_roles (remove_nth i pending)); [apply IH|exact Hping].
    + eapply triple_bind; [apply T_ask_reboot|]. intros [|]; [rj|].
      eapply triple_bind; [apply T_timer_out|]. intro. apply IH.
    + apply IH.
  - kna (nM_silent _ silent_next_ctl) as id.
    kn (nM_quiet (ARequest id sc) I).
    eapply triple_bind; [apply T_handle_in_reboot|]. intros [|]; [rj|apply IH].
  - apply IH.
Qed.

Lemma T_wait_for_reboot fuel src m : T (Jp m Q6Out) (wait_for_reboot fuel src m) (fun m' => Jp m' Q6Out).
Proof.
  unfold wait_for_reboot.
  eapply triple_bind; [apply T_ask_reboot|]. intro ok.
  eapply triple_bind with (R := fun m' => Jp m' Q6Out).
  { destruct ok; [rj|].
    eapply triple_bind; [apply T_timer_out|]. intro.
    eapply triple_bind; [apply T_update_next|]. intros [m1 t]; cbn [fst].
    eapply triple_bind; [apply T_make_wait|]. intro roles. apply T_reboot_loop. }
  intro m1. kna (nM_silent _ silent_pop_reboot) as okr.
  kn (nM_quiet (AInstaller IReboot (IRebooted okr)) I). rj.
Qed.

Lemma T_run_iteration fuel finish start_mono sr m :
  T (Jp m Q6Out) (run_iteration fuel finish start_mono sr m) (fun r => Jp (fst r) Q6Out).
Proof.
  unfold run_iteration.
  eapply triple_bind with (R := fun _ => Jp m Q6Out).
  { destruct sr; [|rj]. kna nM_now as n.
    match goal with |- T _ (match ?x with Some _ => _ | None => _ end) _ => destruct x end; [|rj].
    krep. kn (nM_st_write (SRemove K_FINISH_TIME)). kn (nM_st_write (SRemove K_TARGET_VERSION)). kn (nM_st_write SCommit). rj. }
  intro sr'. eapply triple_bind; [apply T_update_next|]. intros [m1 t]; cbn [fst].
  eapply triple_bind; [apply T_make_wait|]. intro roles.
  eapply triple_bind with (R := fun _ => Jp m1 Q6Out); [apply (T_do_outer_select step6 roles (Jp m1 Q6Out) ign_ctl6)|]. intro sel.
  kna (nM_silent _ silent_pop_allowed) as dec.
  match goal with |- T _ (bind (emit ?a) _) _ => kn (nM_quiet a I) end.
  assert (Hneg : T (Jp m1 Q6Out) (match sel with Some (_, id) => emit (AReply id Throttled) | None => ret tt end;;; ret (m1, sr'))
                   (fun r => Jp (fst r) Q6Out)).
  { eapply triple_bind with (R := fun _ => Jp m1 Q6Out); [|intro; rj].
    destruct sel as [[s id]|]; [apply (Jn _ _ _ (nM_quiet (AReply id Throttled) I))|rj]. }
  assert (Hpos : forall p, T (Jp m1 Q6Out)
            (match sel with Some (_, id) => emit (AReply id Started) | None => ret tt end;;;
             enter_check;;;
             r <- start_update_check fuel p m1;;
             set_incheck false;;;
             upg <- take_upgrade;;
             (let '(m0, rb) := r in
              m2 <- match rb with
                    | RebootNeeded _ => yield_state WaitingForReboot;;; wait_for_reboot fuel (if upg then OnDemand else match sel with Some (s, _) => s | None => ScheduledTask end) m0
                    | RebootNotNeeded => ret m0
                    end;;
              yield_state Idle;;; ret (m2, sr'))) (fun r => Jp (fst r) Q6Out)).
  { intro p. eapply triple_bind with (R := fun _ => Jp m1 Q6Out).
    { destruct sel as [[s id]|]; [apply (Jn _ _ _ (nM_quiet (AReply id Started) I))|rj]. }
    intro. eapply triple_bind with (R := fun _ => Jp m1 Q6Out); [apply (T_enter_check step6 (Jp m1 Q6Out) ign_ctl6)|]. intro.
    eapply triple_bind; [apply T_start|]. intros [m2 rb]; cbn [fst].
    kn (nM_silent _ (silent_set_incheck false)).
    kna (nM_silent _ silent_take_upgrade) as upg.
    eapply triple_bind with (R := fun m' => Jp m' Q6Out).
    { destruct rb as [plan|]; [|rj]. kn (nM_yield_state WaitingForReboot I). apply T_wait_for_reboot. }
    intro m3. kn (nM_yield_state Idle I). rj. }
  destruct dec; [apply Hpos|apply Hpos|exact Hneg|exact Hneg|exact Hneg].
Qed.

Lemma T_run_loop iters : forall fuel finish start_mono sr m,
  T (Jp m Q6Out) (run_loop iters fuel finish start_mono sr m) (fun m' => Jp m' Q6Out).
Proof.
  induction iters as [|k IH]; intros; cbn [run_loop]; [apply triple_halt|].
  eapply triple_bind; [apply T_run_iteration|]. intros [m' sr']; cbn [fst]. apply IH.
Qed.

Lemma T_run iters fuel m : T (Jp m Q6Out) (run iters fuel m) (fun m' => Jp m' Q6Out).
Proof.
  unfold run. destruct (negb (forallb app_valid (m_apps m))); [rj|].
  kn nM_now. kn (nM_silent _ (silent_st_get_time K_FINISH_TIME)).
  kn (nM_silent _ (silent_st_get_str K_TARGET_VERSION)). apply T_run_loop.
Qed.

Lemma T_oneshot fuel m : T (Jp m Q6Out) (oneshot fuel m) (fun m' => Jp m' Q6Out).
Proof. unfold oneshot. eapply triple_bind; [apply T_start|]. intros [m' rb]; cbn [fst]. rj. Qed.

Theorem model_accepted_c06 ep cfg url cup apps e :
  e_trace e = [] -> accepts step6 (init6 ep cup (e_store e)) (run_case ep cfg url cup apps e) = true.
Proof.
  intro Ht. unfold run_case, accepts.
  set (m := build cfg url cup apps (e_store e)).
  assert (HJ : Jp m Q6Out (init6 ep cup (e_store e))).
  { unfold Jp, init6, cupb, m, build. cbn [cup6 poll6 ph6_]. destruct (ctx_load (pend (e_store e))) as [sc ps]. cbn. auto. }
  destruct ep.
  - destruct (T_run (Datatypes.S (length (e_stim e) + length (c_inject (e_cs e)))) (4 + length (e_stim e) + length (c_inject (e_cs e))) m (init6 EStart cup (e_store e)) e (init6 EStart cup (e_store e))) as (q' & Hq' & _).
    + unfold mst. rewrite Ht. reflexivity.
    + exact HJ.
    + destruct (run _ _ m e) as [r e'] eqn:E. cbn [snd] in Hq'. unfold mst in Hq'. rewrite Hq'. reflexivity.
  - destruct (T_oneshot (4 + length (e_stim e) + length (c_inject (e_cs e))) m (init6 EOneshot cup (e_store e)) e (init6 EOneshot cup (e_store e))) as (q' & Hq' & _).
    + unfold mst. rewrite Ht. reflexivity.
    + exact HJ.
    + destruct (oneshot _ m e) as [r e'] eqn:E. cbn [snd] in Hq'. unfold mst in Hq'. rewrite Hq'. reflexivity.
Qed.
