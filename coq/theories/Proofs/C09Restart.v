(* Proofs/C09Restart.v — what persist_data writes for an app is what App::load reads back *)
Require Import Verif.Base.Bytes Verif.Proofs.BytesFacts Verif.Model.Json Verif.Model.Response Verif.Proofs.JsonFacts.
Require Import Verif.Model.Time Verif.Model.Version Verif.Model.Proto Verif.Model.Request Verif.Model.Env Verif.Model.SM.
Open Scope N_scope.

(* strings the Rust side can hold (String is UTF-8), a u32 day number *)
Definition ostr_ok (o : option bytes) : bool := match o with Some s => utf8_valid s | None => true end.
Definition persistable (c : cohort) (u : option N) : bool :=
  ostr_ok (c_id c) && ostr_ok (c_hint c) && ostr_ok (c_name c) && match u with Some d => d <? 2 ^ 32 | None => true end.

Definition persisted_value (c : cohort) (u : option N) : json :=
  JObj [jk "cohort" (JObj (json_of_cohort c));
        jk "user_counting" (JObj [jk "ClientRegulatedByDate" (match u with Some d => JInt false d | None => JNull end)])].

Lemma persisted_json_value a : persisted_json a = print_json (persisted_value (a_cohort a) (a_uc a)).
Proof. reflexivity. Qed.

Lemma persisted_value_wf c u : persistable c u = true -> wf_json (persisted_value c u) = true.
Proof.
  destruct c as [[i|] [h|] [n|]], u as [d|]; unfold persistable, ostr_ok; cbn [c_id c_hint c_name];
    intro H; repeat (apply andb_prop in H; destruct H as [H ?]);
    lazy -[utf8_valid]; repeat match goal with Hx : utf8_valid _ = true |- _ => rewrite Hx; clear Hx end; reflexivity.
Qed.

Lemma decode_value c u : persistable c u = true ->
  match persisted_value c u with
  | JObj kvs =>
      if forallb (fun x => snd (fst x)) kvs
         && Nat.eqb (count_key (s2b "cohort") kvs) 1 && Nat.eqb (count_key (s2b "user_counting") kvs) 1 then
        match obj_get (s2b "cohort") kvs, obj_get (s2b "user_counting") kvs with
        | Some cj, Some uj =>
            match decode_cohort cj, decode_user_counting uj with
            | Some c', Some u' => Some (c', u')
            | _, _ => None
            end
        | _, _ => None
        end
      else None
  | _ => None
  end = Some (c, u).
Proof.
  intro H. destruct c as [[i|] [h|] [n|]], u as [d|]; unfold persistable in H; cbn [c_id c_hint c_name ostr_ok] in H;
    repeat (apply andb_prop in H; destruct H as [H ?]);
    try (match goal with Hd : (d <? 2 ^ 32) = true |- _ => lazy -[N.ltb N.pow]; rewrite Hd end); reflexivity.
Qed.

Theorem decode_persisted_roundtrip c u :
  persistable c u = true -> decode_persisted (print_json (persisted_value c u)) = Some (c, u).
Proof.
  intro H. unfold decode_persisted. rewrite (parse_print _ (persisted_value_wf c u H)).
  exact (decode_value c u H).
Qed.

(* restart: every field the embedder left unset takes the stored value; set fields win *)
Theorem app_load_restores s a c u :
  sm_get s (a_id a) = Some (VStr (print_json (persisted_value c u))) -> persistable c u = true ->
  app_load s a = {| a_id := a_id a; a_ver := a_ver a; a_fp := a_fp a;
                    a_cohort := {| c_id := orelse (c_id (a_cohort a)) (c_id c);
                                   c_hint := orelse (c_hint (a_cohort a)) (c_hint c);
                                   c_name := orelse (c_name (a_cohort a)) (c_name c) |};
                    a_uc := match a_uc a with None => u | Some d => Some d end;
                    a_extra := a_extra a |}.
Proof. intros Hs Hp. unfold app_load. rewrite Hs, (decode_persisted_roundtrip c u Hp). reflexivity. Qed.

Theorem app_load_nothing_stored s a : sm_get s (a_id a) = None -> app_load s a = a.
Proof. intro H. unfold app_load. rewrite H. reflexivity. Qed.
