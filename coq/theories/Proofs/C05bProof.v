(* Proofs/C05bProof.v — every model trace is accepted by step5b (Model/Monitors5b.v): the reboot-needed question and the
   wait for the reboot come only after an installer answer with no failure among the offered apps. *)
Require Import Verif.Model.Time Verif.Base.Bytes Verif.Proofs.BytesFacts Verif.Model.Version Verif.Model.Json Verif.Model.Proto
               Verif.Model.Request Verif.Model.Env Verif.Model.SM Verif.Model.Monitors5b
               Verif.Proofs.Monitor Verif.Proofs.MonitorG.
From Coq Require Import Lia.
Open Scope Z_scope.

Notation TG := (tripleG step5b).

(* actions the monitor ignores in every state *)
Definition dull (a : action) : bool :=
  match a with
  | AEvent (EvState (CheckingForUpdates _)) | AEvent (EvState WaitingForReboot) | AEvent (EvServerResponse _)
  | AInstaller (IPerform _) _ | APolicy (QRebootNeeded _) _ => false
  | _ => true
  end.
Lemma step_dull q a : dull a = true -> step5b q a = Some q.
Proof.
  destruct a as [ev|pq ans|w o|c ans|c|w|op ok|mt|id src|id r]; try discriminate; try reflexivity.
  - destruct ev as [s| | | | | |]; try discriminate; try reflexivity. destruct s; try discriminate; reflexivity.
  - destruct pq; try discriminate; reflexivity.
  - destruct c; try discriminate; reflexivity.
Qed.

(* programs that emit only such actions preserve every predicate on the monitor state *)
Definition L (P : q5b -> Prop) : q5b -> env -> Prop := fun q _ => P q.
Definition ninv {A} (m : M A) : Prop := forall P, TG (L P) m (fun _ => L P).
Lemma ninv_ret {A} (a : A) : ninv (ret a). Proof. intros P. apply tripleG_ret. auto. Qed.
Lemma ninv_bind {A B} (m : M A) (f : A -> M B) : ninv m -> (forall a, ninv (f a)) -> ninv (bind m f).
Proof. intros Hm Hf P. eapply tripleG_bind; [apply Hm|]. intro a. apply Hf. Qed.
Lemma ninv_silent {A} (m : M A) : (forall e, e_trace (snd (m e)) = e_trace e) -> ninv m.
Proof. intros H P. apply tripleG_silent; [exact H|]. intros q e a Hp _. exact Hp. Qed.
Lemma ninv_emit a : dull a = true -> ninv (emit a).
Proof. intros H P. apply tripleG_emit. intros q e Hp. exists q. split; [apply step_dull; exact H|exact Hp]. Qed.
Lemma ninv_report x : ninv (report x). Proof. unfold report. apply ninv_emit. reflexivity. Qed.
Lemma ninv_write op : ninv (st_write op).
Proof.
  intros P q0 e q Hq Hp. exists q. split.
  - unfold mst, st_write. cbn [snd upd_trace e_trace rev]. rewrite runmon_app. unfold mst in Hq. rewrite Hq. reflexivity.
  - cbn [fst st_write]. exact Hp.
Qed.
Lemma ninv_halt {A} : ninv (@halt A). Proof. intros P. apply tripleG_halt. Qed.
Lemma ninv_iterM {A} (f : A -> M unit) l : (forall x, ninv (f x)) -> ninv (iterM f l).
Proof. intros H P. apply tripleG_iterM. intros x _. apply H. Qed.
Lemma ninv_after_event b : ninv (after_event b).
Proof.
  intros P q0 e q Hm Hp. exists q. unfold mst, after_event in *.
  destruct (c_inject (e_cs e)) as [|[k src] rest]; [split; [exact Hm|exact Hp]|].
  destruct ((k <=? c_evn (e_cs e))%N && negb b); [|split; [exact Hm|exact Hp]].
  destruct (c_incheck (e_cs e)); cbn [fst snd upd_trace set_cs e_trace rev]; (split; [|exact Hp]).
  - rewrite <- app_assoc, runmon_app, Hm. reflexivity.
  - rewrite runmon_app, Hm. reflexivity.
Qed.
Lemma ninv_yield ev : dull (AEvent ev) = true -> ninv (yield_ ev).
Proof. intro H. unfold yield_. apply ninv_bind; [apply ninv_emit; exact H|]. intros []. apply ninv_after_event. Qed.
Lemma ninv_enter_check : ninv enter_check.
Proof.
  intros P q0 e q Hm Hp. exists q. split; [|exact Hp].
  unfold mst, enter_check in *. cbn [snd upd_trace set_cs e_trace].
  rewrite rev_app_distr, rev_involutive, runmon_app, Hm.
  induction (c_inq (e_cs e)) as [|x r IH]; cbn [map runmon]; [reflexivity|exact IH].
Qed.
Ltac sil := apply ninv_silent; intro e; reflexivity.
Lemma ninv_pop_queued : ninv pop_queued. Proof. apply ninv_silent. intro e. unfold pop_queued. destruct (c_inq (e_cs e)); reflexivity. Qed.
Lemma ninv_do_outer_select roles : ninv (do_outer_select roles).
Proof.
  intros P. unfold do_outer_select. eapply tripleG_bind; [apply ninv_pop_queued|].
  intros [[id src]|]; [apply tripleG_ret; auto|].
  intros q0 e q Hm Hp. exists q. unfold mst in *.
  destruct (outer_select (e_stim e) roles (e_ctl e)) as [[[[[src id]|] r] c]|]; cbn [fst snd upd_trace set_stim e_trace rev].
  - split; [rewrite runmon_app, Hm; reflexivity|exact Hp].
  - split; [exact Hm|exact Hp].
  - split; [exact Hm|exact I].
Qed.
Lemma ninv_read_clock : ninv read_clock. Proof. apply ninv_silent. intro e. unfold read_clock. destruct (e_clock e); reflexivity. Qed.
Lemma ninv_pop_next_time : ninv pop_next_time. Proof. apply ninv_silent. intro e. unfold pop_next_time. destruct (q_next_time e); reflexivity. Qed.
Lemma ninv_pop_allowed : ninv pop_allowed. Proof. apply ninv_silent. intro e. unfold pop_allowed. destruct (q_allowed e); reflexivity. Qed.
Lemma ninv_pop_can_start : ninv pop_can_start. Proof. apply ninv_silent. intro e. unfold pop_can_start. destruct (q_can_start e); reflexivity. Qed.
Lemma ninv_pop_reboot_needed : ninv pop_reboot_needed. Proof. apply ninv_silent. intro e. unfold pop_reboot_needed. destruct (q_reboot_needed e); reflexivity. Qed.
Lemma ninv_pop_reboot_allowed : ninv pop_reboot_allowed. Proof. apply ninv_silent. intro e. unfold pop_reboot_allowed. destruct (q_reboot_allowed e); reflexivity. Qed.
Lemma ninv_pop_http : ninv pop_http. Proof. apply ninv_silent. intro e. unfold pop_http. destruct (q_http e); reflexivity. Qed.
Lemma ninv_pop_plan : ninv pop_plan. Proof. apply ninv_silent. intro e. unfold pop_plan. destruct (q_plan e); reflexivity. Qed.
Lemma ninv_pop_perform : ninv pop_perform. Proof. apply ninv_silent. intro e. unfold pop_perform. destruct (q_perform e); reflexivity. Qed.
Lemma ninv_pop_reboot : ninv pop_reboot. Proof. apply ninv_silent. intro e. unfold pop_reboot. destruct (q_reboot e); reflexivity. Qed.
Lemma ninv_pop_backoff : ninv pop_backoff. Proof. apply ninv_silent. intro e. unfold pop_backoff. destruct (q_backoff e); reflexivity. Qed.
Lemma ninv_pop_stim : ninv pop_stim. Proof. apply ninv_silent. intro e. unfold pop_stim. destruct (e_stim e); reflexivity. Qed.
Lemma ninv_canon_guid d : ninv (canon_guid d). Proof. apply ninv_silent. intro e. unfold canon_guid. destruct (glookup (e_guids e) d); reflexivity. Qed.
Lemma ninv_st_get_time k : ninv (st_get_time k).
Proof. unfold st_get_time. apply ninv_bind; [sil|intro; apply ninv_ret]. Qed.
Lemma ninv_with_ids b s r : ninv (with_ids b s r).
Proof. unfold with_ids. apply ninv_bind; [apply ninv_canon_guid|intro]. apply ninv_bind; [apply ninv_canon_guid|intro]. apply ninv_ret. Qed.
Lemma ninv_maybe_ids (c : bool) b s r : ninv (if c then with_ids b s r else ret b).
Proof. destruct c; [apply ninv_with_ids|apply ninv_ret]. Qed.
Lemma ninv_now : ninv now.
Proof. unfold now. apply ninv_bind; [apply ninv_read_clock|intro c]. apply ninv_bind; [apply ninv_emit; reflexivity|intro; apply ninv_ret]. Qed.
Lemma ninv_set_opt k v : ninv (st_set_option_int k v).
Proof. unfold st_set_option_int. destruct v; apply ninv_write. Qed.
Lemma ninv_ctx_persist s ps : ninv (ctx_persist s ps).
Proof. unfold ctx_persist. repeat (apply ninv_bind; [apply ninv_set_opt|intro]). apply ninv_ret. Qed.
Lemma ninv_persist_data m : ninv (persist_data m).
Proof.
  unfold persist_data. apply ninv_bind; [apply ninv_ctx_persist|intro]. apply ninv_bind.
  - apply ninv_iterM. intro ap. apply ninv_bind; [apply ninv_write|intro; apply ninv_ret].
  - intro. apply ninv_bind; [apply ninv_write|intro; apply ninv_ret].
Qed.
Lemma ninv_report_check_interval src m : ninv (report_check_interval src m).
Proof.
  unfold report_check_interval. apply ninv_bind; [apply ninv_now|intro n]. apply ninv_bind; [|intro; apply ninv_ret].
  destruct (s_last_check (m_sched m)) as [[w|mm|c]|]; try apply ninv_ret.
  - destruct (w <=? wall n); [apply ninv_report|apply ninv_ret].
  - destruct (mono c <=? mono n); [apply ninv_report|apply ninv_ret].
Qed.
Lemma ninv_record_first_seen plan t : ninv (record_first_seen plan t).
Proof.
  unfold record_first_seen. apply ninv_bind; [sil|intro prev].
  assert (Hnew : ninv (ok1 <- st_write (SSetStr K_INSTALL_PLAN_ID plan);;
                        (if negb ok1 then ret t
                         else ok2 <- st_set_time K_FIRST_SEEN t;;
                              (if negb ok2 then st_write (SRemove K_INSTALL_PLAN_ID);;; ret t else st_write SCommit;;; ret t)))).
  { apply ninv_bind; [apply ninv_write|intro ok1]. destruct (negb ok1); [apply ninv_ret|].
    apply ninv_bind; [apply ninv_set_opt|intro ok2]. destruct (negb ok2);
      (apply ninv_bind; [apply ninv_write|intro; apply ninv_ret]). }
  destruct prev as [p|]; [|exact Hnew].
  destruct (bytes_eqb p plan); [|exact Hnew].
  apply ninv_bind; [apply ninv_st_get_time|intro]. apply ninv_ret.
Qed.
Lemma ninv_report_attempts s : ninv (report_attempts_to_successful_install s).
Proof.
  unfold report_attempts_to_successful_install. apply ninv_bind; [sil|intro].
  apply ninv_bind; [apply ninv_report|intro]. apply ninv_bind; [destruct s; apply ninv_write|intro]. apply ninv_ret.
Qed.
Lemma ninv_update_next m : ninv (update_next_update_time m).
Proof.
  unfold update_next_update_time. apply ninv_bind; [apply ninv_pop_next_time|intro t].
  apply ninv_bind; [apply ninv_emit; reflexivity|intro]. apply ninv_bind; [apply ninv_yield; reflexivity|intro]. apply ninv_ret.
Qed.
Lemma ninv_make_wait t : ninv (make_wait t).
Proof.
  unfold make_wait. destruct (t_min t).
  - apply ninv_bind; [apply ninv_emit; reflexivity|intro]. apply ninv_bind; [apply ninv_emit; reflexivity|intro]. apply ninv_ret.
  - apply ninv_bind; [apply ninv_emit; reflexivity|intro]. apply ninv_ret.
Qed.
Lemma ninv_ask_reboot src : ninv (ask_reboot_allowed src).
Proof.
  unfold ask_reboot_allowed. apply ninv_bind; [apply ninv_pop_reboot_allowed|intro b].
  apply ninv_bind; [apply ninv_emit; reflexivity|intro]. apply ninv_ret.
Qed.
Lemma ninv_handle_in_reboot id sc0 : ninv (handle_in_reboot id sc0).
Proof. unfold handle_in_reboot. apply ninv_bind; [apply ninv_emit; reflexivity|intro]. destruct sc0; [apply ninv_ask_reboot|apply ninv_ret]. Qed.
Lemma ninv_do_req b m : ninv (do_omaha_request b m).
Proof.
  unfold do_omaha_request.
  destruct (negb (u_valid (m_url m))); [apply ninv_ret|].
  destruct (negb (headers_ok (m_cfg m) b)).
  { apply ninv_bind; [|intro; apply ninv_ret]. destruct (m_cup m); [|apply ninv_ret]. apply ninv_bind; [sil|intro; apply ninv_ret]. }
  apply ninv_bind. { destruct (m_cup m); [|apply ninv_ret]. apply ninv_bind; [sil|intro; apply ninv_ret]. }
  intro uri. apply ninv_bind; [apply ninv_pop_http|intro o]. apply ninv_bind; [apply ninv_emit; reflexivity|intro].
  destruct o as [k|status ra au bd]; [apply ninv_ret|].
  destruct (match m_cup m with Some _ => negb au | None => false end); [apply ninv_ret|].
  apply ninv_bind.
  { destruct (oZ_eqb (ps_poll (m_ps m)) (parse_retry_after ra)); [apply ninv_ret|]. cbv zeta.
    apply ninv_bind; [apply ninv_yield; reflexivity|intro]. apply ninv_bind; [apply ninv_ctx_persist|intro].
    apply ninv_bind; [apply ninv_write|intro]. apply ninv_ret. }
  intro m'. destruct ((200 <=? status) && (status <? 300))%N; apply ninv_ret.
Qed.
Lemma ninv_report_event p ev apps sess nv dur m : ninv (report_event p ev apps sess nv dur m).
Proof.
  unfold report_event. apply ninv_bind; [sil|intro]. apply ninv_bind; [apply ninv_maybe_ids|intro b]. apply ninv_bind; [apply ninv_do_req|].
  intros [m' [e|bd]]; [|apply ninv_ret]. apply ninv_bind; [apply ninv_report|intro; apply ninv_ret].
Qed.
Lemma ninv_attempt_loop b0 sess fuel : forall attempt m, ninv (attempt_loop fuel attempt b0 sess m).
Proof.
  induction fuel as [|f IH]; intros attempt m; cbn [attempt_loop]; [apply ninv_halt|].
  apply ninv_bind; [apply ninv_now|intro]. apply ninv_bind; [sil|intro].
  apply ninv_bind; [apply ninv_maybe_ids|intro b]. apply ninv_bind; [apply ninv_do_req|]. intros [m1 res].
  apply ninv_bind; [apply ninv_now|intro fin].
  apply ninv_bind.
  { match goal with |- ninv (if ?c then _ else _) => destruct c end; [apply ninv_report|apply ninv_ret]. }
  intros _. destruct res as [e|bd]; [|apply ninv_ret].
  match goal with |- ninv (if ?c then _ else _) => destruct c end.
  - apply ninv_bind; [apply ninv_yield; reflexivity|intro; apply ninv_ret].
  - apply ninv_bind; [apply ninv_pop_backoff|intro r].
    apply ninv_bind; [apply ninv_emit; reflexivity|intro]. apply IH.
Qed.
Lemma ninv_ping m : ninv (ping_omaha m).
Proof.
  unfold ping_omaha. cbv zeta. apply ninv_bind; [sil|intro]. apply ninv_bind; [sil|intro].
  apply ninv_bind; [apply ninv_maybe_ids|intro b]. apply ninv_bind; [apply ninv_do_req|]. intros [m1 res].
  destruct res as [er|[d|]]; [apply ninv_bind; [apply ninv_persist_data|intro; apply ninv_ret]| |apply ninv_bind; [apply ninv_persist_data|intro; apply ninv_ret]].
  apply ninv_bind; [apply ninv_now|intro n]. apply ninv_bind; [apply ninv_yield; reflexivity|intro].
  apply ninv_bind; [apply ninv_persist_data|intro]. apply ninv_ret.
Qed.
Lemma ninv_reboot_loop fuel : forall src pending m, ninv (reboot_loop fuel src pending m).
Proof.
  induction fuel as [|f IH]; intros src pending m; cbn [reboot_loop]; [apply ninv_halt|].
  apply ninv_bind; [apply ninv_pop_queued|]. intros [[id sc]|].
  { apply ninv_bind; [apply ninv_handle_in_reboot|]. intros [|]; [apply ninv_ret|apply IH]. }
  apply ninv_bind; [apply ninv_pop_stim|]. intros [i|sc|].
  - assert (Hping : ninv (m1 <- ping_omaha m;; mt <- update_next_update_time m1;;
                         (let '(m2, t) := mt in roles <- make_wait t;; reboot_loop f src (remove_nth i pending ++ roles) m2))).
    { apply ninv_bind; [apply ninv_ping|intro m1]. apply ninv_bind; [apply ninv_update_next|]. intros [m2 t].
      apply ninv_bind; [apply ninv_make_wait|intro roles]. apply IH. }
    destruct (nth_error pending i) as [[| |]|].
    + destruct (has_ping_roles (remove_nth i pending)); [apply IH|exact Hping].
    + destruct (has_ping_roles (remove_nth i pending)); [apply IH|exact Hping].
    + apply ninv_bind; [apply ninv_ask_reboot|]. intros [|]; [apply ninv_ret|].
      apply ninv_bind; [apply ninv_emit; reflexivity|intro]. apply IH.
    + apply IH.
  - apply ninv_bind; [sil|intro id]. apply ninv_bind; [apply ninv_emit; reflexivity|intro].
    apply ninv_bind; [apply ninv_handle_in_reboot|]. intros [|]; [apply ninv_ret|apply IH].
  - apply IH.
Qed.
Lemma ninv_wait_for_reboot fuel src m : ninv (wait_for_reboot fuel src m).
Proof.
  unfold wait_for_reboot. apply ninv_bind; [apply ninv_ask_reboot|intro ok]. apply ninv_bind.
  { destruct ok; [apply ninv_ret|]. apply ninv_bind; [apply ninv_emit; reflexivity|intro].
    apply ninv_bind; [apply ninv_update_next|]. intros [m1 t]. apply ninv_bind; [apply ninv_make_wait|intro roles]. apply ninv_reboot_loop. }
  intro m1. apply ninv_bind; [apply ninv_pop_reboot|intro okr]. apply ninv_bind; [apply ninv_emit; reflexivity|intro]. apply ninv_ret.
Qed.

(* ---------- the check ---------- *)
Lemma no_failed_of_count n rs :
  length (filter (fun r => match r with RFailed => true | _ => false end) (firstn n rs)) = O -> no_failed n rs = true.
Proof.
  unfold no_failed. induction (firstn n rs) as [|x l IH]; intro H; [reflexivity|]. cbn [filter forallb] in *.
  destruct x; cbn in *; try (apply IH; exact H). discriminate.
Qed.

Definition Any : q5b -> env -> Prop := L (fun _ => True).
Definition PN (n : nat) : q5b -> env -> Prop := L (fun q => nupd5 q = Some n).
Definition PCl (b : bool) : q5b -> env -> Prop := L (fun q => clean5 q = Some b).
Definition Rb (rb : reboot) : q5b -> env -> Prop := L (fun q => match rb with RebootNeeded _ => clean5 q = Some true | RebootNotNeeded => True end).
Ltac nn H := match goal with |- TG (L ?P) _ _ => eapply tripleG_bind; [eapply H|intro; cbv beta] end.
Tactic Notation "nna" constr(H) "as" ident(x) := match goal with |- TG (L ?P) _ _ => eapply tripleG_bind; [eapply H|intro x; cbv beta] end.
Ltac ny := match goal with
  | |- TG (L ?P) (bind (yield_ ?ev) _) _ => eapply tripleG_bind; [apply (ninv_yield ev eq_refl P)|intro; cbv beta]
  | |- TG (L ?P) (bind (yield_state ?s) _) _ => eapply tripleG_bind; [apply (ninv_yield (EvState s) eq_refl P)|intro; cbv beta]
  end.
Ltac ne := match goal with |- TG (L ?P) (bind (emit ?a) _) _ => eapply tripleG_bind; [apply (ninv_emit a eq_refl P)|intro; cbv beta] end.

Lemma weaken_any {A} (P : q5b -> Prop) (m : M A) Q : TG Any m Q -> TG (L P) m Q.
Proof. intro H. eapply tripleG_conseq; [exact H|intros q e _; exact I|auto]. Qed.

Lemma T_perform fuel p apps m :
  TG Any (perform_update_check fuel p apps m)
     (fun r => Rb (match snd r with inr (_, rb) => rb | inl _ => RebootNotNeeded end)).
Proof.
  unfold perform_update_check, Any.
  eapply tripleG_bind with (R := fun _ => Any).
  { unfold yield_state, yield_. eapply tripleG_bind with (R := fun _ => Any); [|intros []; apply (ninv_after_event _ (fun _ => True))].
    apply tripleG_emit. intros q e _. eexists. split; [reflexivity|exact I]. }
  intros _. unfold Any. nna ninv_report_check_interval as m0. nna (ninv_silent fresh_guid) as sess. { intro e; reflexivity. }
  nna ninv_attempt_loop as lr. destruct lr as [[m1 attempts] res]. nn ninv_report.
  assert (Hend : forall x, TG (L (fun _ => True)) (ret (x : sm * (check_err + (list app_response * reboot)))) (fun r => Rb (match snd r with inr (_, rb) => rb | inl _ => RebootNotNeeded end)) ->
                           True) by auto.
  assert (Hno : forall P (x : sm) (y : check_err + list app_response * reboot),
                 match y with inr (_, RebootNeeded _) => False | _ => True end ->
                 TG (L P) (ret (x, y)) (fun r => Rb (match snd r with inr (_, rb) => rb | inl _ => RebootNotNeeded end))).
  { intros P x y Hy. apply tripleG_ret. intros q e _. unfold Rb, L. cbn [snd]. destruct y as [c|[rs [pl|]]]; [exact I|contradiction|exact I]. }
  destruct res as [e|[d|]].
  - apply Hno. exact I.
  - eapply tripleG_bind with (R := fun _ => PN (length (filter uc_ok (d_apps d)))).
    { unfold yield_. eapply tripleG_bind with (R := fun _ => PN (length (filter uc_ok (d_apps d)))); [|intros []; apply (ninv_after_event _ _)].
      apply tripleG_emit. intros q e _. eexists. split; [reflexivity|reflexivity]. }
    intros _. unfold PN.
    destruct (filter uc_ok (d_apps d)) as [|wu0 wur] eqn:Ewu; [ny; apply Hno; exact I|].
    nna ninv_pop_plan as pl. ne.
    destruct pl as [plan|].
    2:{ ny. ny. nn ninv_report_event. apply Hno. exact I. }
    nna ninv_pop_can_start as dec. ne.
    destruct dec.
    + ny. nna ninv_report_event as m2. nna ninv_now as t0. nna ninv_record_first_seen as fs. nna ninv_pop_perform as pa.
      eapply tripleG_bind with (R := fun _ => PCl (no_failed (length (wu0 :: wur)) (pa_results pa))).
      { apply tripleG_emit. intros q e Hq. unfold L in Hq. eexists. split; [unfold step5b; rewrite Hq; reflexivity|reflexivity]. }
      intros _. unfold PCl.
      eapply tripleG_bind; [apply (ninv_iterM _ _ (fun bits => ninv_yield (EvProgress bits) eq_refl))|]. intro. cbv beta.
      nna ninv_now as t1.
      eapply tripleG_bind with (R := fun _ => PCl (no_failed (length (wu0 :: wur)) (pa_results pa))).
      { match goal with |- TG _ (if ?c then _ else _) _ => destruct c end; [|apply tripleG_ret; auto]. unfold PCl. nn ninv_report. apply tripleG_ret. auto. }
      intro dur. unfold PCl. nna (ninv_silent fresh_guid) as req. { intro e; reflexivity. } nna ninv_maybe_ids as b.
      nna ninv_do_req as r3. destruct r3 as [m3 rr].
      eapply tripleG_bind with (R := fun _ => PCl (no_failed (length (wu0 :: wur)) (pa_results pa))).
      { destruct rr; [|apply tripleG_ret; auto]. apply (ninv_iterM _ _ (fun x => ninv_report _)). }
      intros _.
      eapply tripleG_bind with (R := fun _ => PCl (no_failed (length (wu0 :: wur)) (pa_results pa))).
      { match goal with |- TG _ (match ?l with [] => _ | _ => _ end) _ => destruct l end; [apply tripleG_ret; auto|apply ninv_report_event]. }
      intro m4. unfold PCl.
      match goal with |- TG _ (match ?n with O => _ | S _ => _ end) _ => destruct n as [|nerr] eqn:En end.
      * rewrite (no_failed_of_count _ _ En).
        eapply tripleG_bind with (R := fun _ => PCl true).
        { match goal with |- TG _ (if ?c then _ else _) _ => destruct c end; [apply ninv_report|apply tripleG_ret; auto]. }
        intros _. unfold PCl. nn ninv_set_opt.
        eapply tripleG_bind with (R := fun _ => PCl true).
        { match goal with |- TG _ (match ?x with Some _ => _ | None => _ end) _ => destruct x end; [|apply tripleG_ret; auto]. unfold PCl. nn ninv_write. apply tripleG_ret. auto. }
        intros _. unfold PCl. nn ninv_write. nna ninv_pop_reboot_needed as rn.
        eapply tripleG_bind with (R := fun _ => PCl true).
        { apply tripleG_emit. intros q e Hq. unfold L in Hq. exists q. split; [unfold step5b; rewrite Hq; reflexivity|exact Hq]. }
        intros _. apply tripleG_ret. intros q e Hq. unfold Rb, PCl, L in *. cbn [snd]. destruct rn; [exact Hq|exact I].
      * eapply tripleG_bind; [apply (ninv_iterM _ _ (fun _ : unit => ninv_yield EvInstallerError eq_refl))|]. intro. cbv beta. ny. apply Hno. exact I.
    + nn ninv_report_event. ny. apply Hno. exact I.
    + nn ninv_report_event. apply Hno. exact I.
  - ny. nn ninv_report_event. apply Hno. exact I.
Qed.

Lemma T_start fuel p m : TG Any (start_update_check fuel p m) (fun r => Rb (snd r)).
Proof.
  unfold start_update_check. eapply tripleG_bind; [apply T_perform|]. intros [m1 res]. cbv beta. cbn [snd].
  eapply tripleG_bind with (R := fun f => Rb (snd f)).
  { destruct res as [e|[rs rb]]; unfold Rb.
    - eapply tripleG_bind with (R := fun _ => L (fun _ => True)).
      + destruct e as [re| |]; [destruct re; apply tripleG_ret; auto| |]; (nna ninv_now as n; apply tripleG_ret; auto).
      + intros [m2 reason]. nn ninv_report. apply tripleG_ret. auto.
    - nna ninv_now as n. nn ninv_report.
      eapply tripleG_bind; [destruct (install_success rs); [apply ninv_report_attempts|apply ninv_ret]|]. intro. cbv beta. apply tripleG_ret. auto. }
  intros [[m2 result] rb]. cbv beta. cbn [snd]. unfold Rb. ny. ny. ny. nn ninv_persist_data. apply tripleG_ret. auto.
Qed.

Lemma T_run_iteration fuel finish start_mono sr m : TG Any (run_iteration fuel finish start_mono sr m) (fun _ => Any).
Proof.
  unfold run_iteration, Any.
  eapply tripleG_bind with (R := fun _ => Any).
  { destruct sr; [|apply tripleG_ret; auto]. unfold Any. nna ninv_now as n.
    match goal with |- TG _ (match ?x with Some _ => _ | None => _ end) _ => destruct x end; [|apply tripleG_ret; auto].
    nn ninv_report. nn ninv_write. nn ninv_write. nn ninv_write. apply tripleG_ret. auto. }
  intro sr'. unfold Any. nna ninv_update_next as mt. destruct mt as [m1 t].
  nna ninv_make_wait as roles. nna ninv_do_outer_select as sel. nna ninv_pop_allowed as dec. ne.
  assert (Hrep : forall r, TG Any (match sel with Some (_, id) => emit (AReply id r) | None => ret tt end) (fun _ => Any)).
  { intro r. destruct sel as [[s id]|]; [apply (ninv_emit (AReply id r) eq_refl)|apply tripleG_ret; auto]. }
  fold Any.
  destruct dec.
  1,2: (eapply tripleG_bind; [apply Hrep|intro; cbv beta]; unfold Any; nn ninv_enter_check;
        eapply tripleG_bind; [apply T_start|]; intros [m2 rb]; cbv beta; cbn [snd]; unfold Rb;
        nn (ninv_silent (set_incheck false)); [intro e; reflexivity|]; nna (ninv_silent take_upgrade) as upg; [intro e; reflexivity|];
        eapply tripleG_bind with (R := fun _ => Any);
        [destruct rb as [pl|];
         [unfold yield_state, yield_;
          eapply tripleG_bind with (R := fun _ => Any);
          [eapply tripleG_bind with (R := fun _ => Any); [|intros []; apply (ninv_after_event _ (fun _ => True))];
           apply tripleG_emit; intros q e Hq; unfold L in Hq; exists q; split; [unfold step5b; rewrite Hq; reflexivity|exact I]
          |intro; apply (ninv_wait_for_reboot _ _ _ (fun _ => True))]
         |apply tripleG_ret; intros; exact I]
        |intro m3; cbv beta; unfold Any; ny; apply tripleG_ret; auto]).
  all: (eapply tripleG_bind; [apply Hrep|intro; cbv beta]; apply tripleG_ret; auto).
Qed.

Lemma T_run_loop iters : forall fuel finish start_mono sr m, TG Any (run_loop iters fuel finish start_mono sr m) (fun _ => Any).
Proof.
  induction iters as [|k IH]; intros; cbn [run_loop]; [apply tripleG_halt|].
  eapply tripleG_bind; [apply T_run_iteration|]. intros [m' sr']. apply IH.
Qed.
Lemma T_run iters fuel m : TG Any (run iters fuel m) (fun _ => Any).
Proof.
  unfold run, Any. destruct (negb (forallb app_valid (m_apps m))); [apply tripleG_ret; auto|].
  nna ninv_now as n. nna ninv_st_get_time as fin. nna (ninv_silent (st_get_str K_TARGET_VERSION)) as tv. { intro e; reflexivity. } apply T_run_loop.
Qed.
Lemma T_oneshot fuel m : TG Any (oneshot fuel m) (fun _ => Any).
Proof. unfold oneshot. eapply tripleG_bind; [apply T_start|]. intros [m' rb]. apply tripleG_ret. intros; exact I. Qed.

Theorem model_accepted_c05b ep cfg url cup apps e :
  e_trace e = [] -> accepts step5b init5b (run_case ep cfg url cup apps e) = true.
Proof.
  intros Ht. unfold run_case, accepts.
  assert (Hm0 : mst step5b init5b e = Some init5b) by (unfold mst; rewrite Ht; reflexivity).
  destruct ep.
  - destruct (T_run (Datatypes.S (length (e_stim e) + length (c_inject (e_cs e)))) (4 + length (e_stim e) + length (c_inject (e_cs e)))
                (build cfg url cup apps (e_store e)) init5b e init5b Hm0 I) as (q' & Hq' & _).
    destruct (run _ _ _ e) as [r e'] eqn:E. cbn [snd] in Hq'. unfold mst in Hq'. rewrite Hq'. reflexivity.
  - destruct (T_oneshot (4 + length (e_stim e) + length (c_inject (e_cs e))) (build cfg url cup apps (e_store e)) init5b e init5b Hm0 I) as (q' & Hq' & _).
    destruct (oneshot _ _ e) as [r e'] eqn:E. cbn [snd] in Hq'. unfold mst in Hq'. rewrite Hq'. reflexivity.
Qed.
