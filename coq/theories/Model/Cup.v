(* Model/Cup.v — omaha-client/src/cup_ecdsa.rs, the verifying half of CUPv2:
     StandardCupv2Handler::new                 (lines 204-215)
     Cupv2RequestHandler::verify_response      (lines 244-299)
     make_transaction_hash                     (lines 302-317)
     Cupv2Verifier::verify_response_with_signature (lines 319-344)
     parse_etag                                (lines 346-363)
   Definitions only; facts are in Proofs/CupFacts.v.

   Byte strings are lists of N (each < 256).  Public keys are abstract
   handles (N); SHA-256, DER decoding and ECDSA verification are Section
   variables, never axioms (DESIGN.md 2.2, 7). *)
Require Export Verif.Base.Bytes.
Open Scope N_scope.

(* CupVerificationError, in declaration order (= order of first use in the
   code's sequence of checks).  The payloads of EtagNotString and
   SignatureError carry no information and are dropped. *)
Inductive cup_error :=
| EtagHeaderMissing
| EtagNotString
| EtagMalformed
| RequestHashMalformed
| RequestHashMismatch
| SignatureMalformed
| SpecifiedPublicKeyIdMissing
| SignatureError.

Definition cup_error_index (e : cup_error) : N :=
  match e with
  | EtagHeaderMissing => 0 | EtagNotString => 1 | EtagMalformed => 2
  | RequestHashMalformed => 3 | RequestHashMismatch => 4 | SignatureMalformed => 5
  | SpecifiedPublicKeyIdMissing => 6 | SignatureError => 7
  end.

(* ---- http::HeaderValue::to_str (http 0.2.12 header/value.rs:251, 583):
        every byte is visible ASCII (32..126) or a tab ---- *)
Definition is_visible_ascii (b : N) : bool := ((32 <=? b) && (b <? 127)) || (b =? 9).
Definition to_str_ok (h : bytes) : bool := forallb is_visible_ascii h.

(* ---- parse_etag (lines 346-363) ----
   slice pattern  [b'"', inner @ .., b'"']  : at least two bytes, first and
   last are a double quote (34) *)
Definition unquote (s : bytes) : option bytes :=
  match s with
  | [] => None
  | c :: r =>
      if c =? 34 then
        match rev r with
        | [] => None
        | d :: ri => if d =? 34 then Some (rev ri) else None
        end
      else None
  end.

(* first arm  [b'W', b'/', b'"', inner @ .., b'"']  (>= 4 bytes),
   second arm [b'"', inner @ .., b'"']              (>= 2 bytes),
   otherwise unchanged.  A string starting with W/ can never match the
   second arm, a string starting with a quote never the first. *)
Definition strip_etag (s : bytes) : bytes :=
  match s with
  | a :: b :: r =>
      if (a =? 87) && (b =? 47)
      then match unquote r with Some i => i | None => s end
      else match unquote s with Some i => i | None => s end
  | _ => s
  end.

(* the three encodings of a content t *)
Definition quoted (t : bytes) : bytes := 34 :: t ++ [34].
Definition weak_quoted (t : bytes) : bytes := 87 :: 47 :: 34 :: t ++ [34].
(* t is left unchanged by parse_etag: it is itself neither "..." nor W/"..." *)
Definition plain_form (t : bytes) : Prop :=
  (forall i, t <> quoted i) /\ (forall i, t <> weak_quoted i).

(* ---- StandardCupv2Handler::new (lines 206-214): the id -> key map is
   collected from latest :: historical; HashMap::insert overwrites, so the
   LAST entry with a given id wins.  Model: newest binding first, get
   returns the first binding. ---- *)
Definition key_map := list (N * N).              (* (key id, key handle) *)
Definition map_insert (m : key_map) (kv : N * N) : key_map := kv :: m.
Fixpoint map_get (id : N) (m : key_map) : option N :=
  match m with
  | [] => None
  | (i, k) :: r => if i =? id then Some k else map_get id r
  end.
Definition build_map (keys : list (N * N)) : key_map := fold_left map_insert keys [].

Section Crypto.
  Variable sha256 : bytes -> bytes.               (* sha2::Sha256::digest *)
  Variable der_ok : bytes -> bool.                (* DerSignature::from_bytes(..).is_ok() *)
  (* ecdsa_verify pk m s: the bytes s convert to an ecdsa::Signature and
     VerifyingKey::verify(m, sig) succeeds.  NB: signature::Verifier::verify
     takes a MESSAGE: p256 applies SHA-256 to m once more internally.  The
     message handed over by the code is the 32-byte transaction digest. *)
  Variable ecdsa_verify : N -> bytes -> bytes -> bool.

  (* make_transaction_hash (lines 302-317); format!("{public_key_id}:{nonce}")
     with Display for Nonce = lower-case hex of its 32 bytes *)
  Definition cup2_urlparam (id : N) (nonce : bytes) : bytes :=
    print_dec id ++ [58] ++ hex_encode nonce.
  Definition digest_preimage (req resp : bytes) (id : N) (nonce : bytes) : bytes :=
    sha256 req ++ sha256 resp ++ cup2_urlparam id nonce.
  Definition tx_digest (req resp : bytes) (id : N) (nonce : bytes) : bytes :=
    sha256 (digest_preimage req resp id nonce).

  (* verify_response (lines 244-299) followed by
     verify_response_with_signature (lines 319-344).
     keys  : latest :: historical, as (id, key handle)
     req   : request_metadata.request_body       nonce : request_metadata.nonce
     id    : the public_key_id ARGUMENT (request_metadata.public_key_id is
             not read by the code)
     etags : values of the response's ETag headers in order; HeaderMap::get
             returns the first.
     Order of checks as in the code: the hash half is decoded and compared
     before the signature half is decoded. *)
  Definition verify (keys : list (N * N)) (req resp nonce : bytes) (id : N)
                    (etags : list bytes) : cup_error + bytes :=
    match etags with
    | [] => inl EtagHeaderMissing
    | h :: _ =>
      if negb (to_str_ok h) then inl EtagNotString else
      match split_once 58 (strip_etag h) with
      | None => inl EtagMalformed
      | Some (sighex, hashhex) =>
        match hex_decode hashhex with
        | None => inl RequestHashMalformed
        | Some hash =>
          if negb (bytes_eqb hash (sha256 req)) then inl RequestHashMismatch else
          match hex_decode sighex with
          | None => inl SignatureMalformed
          | Some sig =>
            if negb (der_ok sig) then inl SignatureError else
            match map_get id (build_map keys) with
            | None => inl SpecifiedPublicKeyIdMissing
            | Some pk =>
                if ecdsa_verify pk (tx_digest req resp id nonce) sig
                then inr sig else inl SignatureError
            end
          end
        end
      end
    end.

  (* ---- idealising hypotheses, used ONLY as explicit premises of the
     tamper theorems (DESIGN.md 7); never assumed globally ---- *)
  (* SHA-256 does not collide on these two inputs *)
  Definition no_collision (a b : bytes) : Prop := sha256 a = sha256 b -> a = b.
  (* under key pk the signature s verifies for at most one message *)
  Definition sig_binds (pk : N) (s : bytes) : Prop :=
    forall d1 d2, ecdsa_verify pk d1 s = true -> ecdsa_verify pk d2 s = true -> d1 = d2.
  (* digests have a fixed length (32 for SHA-256; any fixed length will do) *)
  Definition fixed_len : Prop := forall a b, length (sha256 a) = length (sha256 b).
End Crypto.

(* ASCII upper-casing of a byte string (for "either case" of the hex halves) *)
Definition upper_byte (c : N) : N := if (97 <=? c) && (c <=? 122) then c - 32 else c.
Definition upper (s : bytes) : bytes := map upper_byte s.
