(* Model/Monitors11a.v — the provable core of C11: every reply answers a request that was sent and not yet answered,
   no request is answered twice, and request ids are never reused.  (That every request is eventually answered is
   liveness; a finite trace may end with requests outstanding.  Truthfulness of the replies is step11, run time.) *)
Require Import Verif.Model.Time Verif.Base.Bytes Verif.Model.Proto Verif.Model.Env.
Open Scope N_scope.

Record q11a := { out11a : list N;      (* sent, not yet answered, oldest first *)
                 next11a : N }.        (* every id seen so far is below this *)
Definition step11a (q : q11a) (a : action) : option q11a :=
  match a with
  | ARequest id _ => if next11a q <=? id then Some {| out11a := out11a q ++ [id]; next11a := id + 1 |} else None
  | AReply id _ =>
      if existsb (N.eqb id) (out11a q)
      then Some {| out11a := filter (fun x => negb (N.eqb x id)) (out11a q); next11a := next11a q |}
      else None
  | _ => Some q
  end.
Definition init11a : q11a := {| out11a := []; next11a := 0 |}.
