(* Model/Monitors5b.v — clause of C05: the machine considers a reboot only after an install in which, by the installer's own
   answer, no offered app failed.  (step5 learns of failures from the InstallerError events the machine itself emits; this
   monitor looks at the installer's answer instead, so a failure that the machine attributes to the wrong app, or drops,
   is seen.)  The offered apps are the apps of the latest server response whose update check says "ok"; the installer
   answers with one result per offered app, in order. *)
Require Import Verif.Model.Time Verif.Base.Bytes Verif.Model.Version Verif.Model.Json Verif.Model.Proto
               Verif.Model.Request Verif.Model.Env Verif.Model.SM.

Record q5b := { nupd5 : option nat;      (* number of apps offered an update by the latest response of this check *)
                clean5 : option bool }.  (* the installer has answered in this check: no failure among the offered apps? *)
Definition no_failed (n : nat) (rs : list ares) : bool :=
  forallb (fun r => match r with RFailed => false | _ => true end) (firstn n rs).
Definition step5b (q : q5b) (a : action) : option q5b :=
  match a with
  | AEvent (EvState (CheckingForUpdates _)) => Some {| nupd5 := None; clean5 := None |}
  | AEvent (EvServerResponse d) => Some {| nupd5 := Some (length (filter uc_ok (d_apps d))); clean5 := None |}
  | AInstaller (IPerform _) (IPerformed pa) =>
      match nupd5 q with
      | Some n => Some {| nupd5 := nupd5 q; clean5 := Some (no_failed n (pa_results pa)) |}
      | None => None
      end
  | APolicy (QRebootNeeded _) _ | AEvent (EvState WaitingForReboot) =>
      match clean5 q with Some true => Some q | _ => None end
  | _ => Some q
  end.
Definition init5b : q5b := {| nupd5 := None; clean5 := None |}.
