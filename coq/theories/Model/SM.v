(* Model/SM.v — transcription of omaha-client/src/state_machine.rs (263-1528),
   state_machine/update_check.rs (42-125), state_machine/builder.rs (build,
   start, oneshot_check), app_set.rs (23-62), common.rs (85-150) in the monad
   of Model/Env.v.  One definition per Rust function; Rust line ranges in the
   comments refer to the repaired tree (fix: commits recorded in
   known_findings.txt). *)
Require Import Verif.Model.Time Verif.Base.Bytes Verif.Model.Version Verif.Model.Json Verif.Model.Proto
               Verif.Model.Request Verif.Model.Env.
Open Scope Z_scope.

(* ---------- constants (regenerated from the sources into gen/Anchors.v) ---------- *)
Definition K_LAST_UPDATE_TIME := s2b "last_update_time".
Definition K_POLL_INTERVAL := s2b "server_dictated_poll_interval".
Definition K_FAILED_CHECKS := s2b "consecutive_failed_update_checks".
Definition K_INSTALL_PLAN_ID := s2b "install_plan_id".
Definition K_FIRST_SEEN := s2b "update_first_seen_time".
Definition K_FINISH_TIME := s2b "update_finish_time".
Definition K_TARGET_VERSION := s2b "target_version".
Definition K_FAILED_INSTALLS := s2b "consecutive_failed_install_attempts".
Definition REBOOT_INTERVAL_NS : Z := 30 * 60 * 1000000000.
Definition MAX_ATTEMPTS : Z := 3.
Definition MAX_RETRY_AFTER_S : Z := 86400.
Definition u32_max : Z := 2 ^ 32 - 1.

(* ---------- service URL (http::Uri components are an oracle supplied with the case) ---------- *)
Record urlparts := { u_valid : bool; u_prefix : bytes; u_path : bytes; u_query : option bytes }.

Record sm := {
  m_cfg : config; m_url : urlparts; m_cup : option N (* latest key id when a CUP handler is configured *);
  m_apps : list app; m_sched : sched; m_ps : pstate }.

Definition with_apps (m : sm) (a : list app) : sm :=
  {| m_cfg := m_cfg m; m_url := m_url m; m_cup := m_cup m; m_apps := a; m_sched := m_sched m; m_ps := m_ps m |}.
Definition with_sched (m : sm) (s : sched) : sm :=
  {| m_cfg := m_cfg m; m_url := m_url m; m_cup := m_cup m; m_apps := m_apps m; m_sched := s; m_ps := m_ps m |}.
Definition with_ps (m : sm) (p : pstate) : sm :=
  {| m_cfg := m_cfg m; m_url := m_url m; m_cup := m_cup m; m_apps := m_apps m; m_sched := m_sched m; m_ps := p |}.

Definition set_last_update (s : sched) (t : option pct) : sched :=
  {| s_last_update := t; s_last_check := s_last_check s; s_next := s_next s |}.
Definition set_last_check (s : sched) (t : option pct) : sched :=
  {| s_last_update := s_last_update s; s_last_check := t; s_next := s_next s |}.
Definition set_next (s : sched) (t : option timing) : sched :=
  {| s_last_update := s_last_update s; s_last_check := s_last_check s; s_next := t |}.
Definition set_poll (p : pstate) (v : option Z) : pstate :=
  {| ps_poll := v; ps_fails := ps_fails p; ps_proxied := ps_proxied p |}.
Definition set_fails (p : pstate) (v : Z) : pstate :=
  {| ps_poll := ps_poll p; ps_fails := v; ps_proxied := ps_proxied p |}.

(* u32 saturating_add(1)  (state_machine.rs report_attempts_to_successful_check, ping_omaha) *)
Definition sat_inc_u32 (z : Z) : Z := if z <? u32_max then z + 1 else u32_max.
(* i64 saturating_add(1) (report_attempts_to_successful_install) *)
Definition sat_inc_i64 (z : Z) : Z := if z <? i64_max then z + 1 else i64_max.
Definition as_u64 (z : Z) : Z := z mod 2 ^ 64.

(* ---------- update_check.rs: Context::load / persist ---------- *)
Definition ctx_load (s : smap) : sched * pstate :=
  let gi k := match sm_get s k with Some (VInt z) => Some z | _ => None end in
  let lut := match gi K_LAST_UPDATE_TIME with Some m => Some (PWall (from_micros m)) | None => None end in
  let poll := match gi K_POLL_INTERVAL with
              | Some t => if (0 <=? t) then Some (t * 1000) else None      (* u64::try_from, Duration::from_micros *)
              | None => None end in
  let fails := match gi K_FAILED_CHECKS with
               | Some z => if (0 <=? z) && (z <=? u32_max) then z else 0   (* try_into::<u32>().unwrap_or_default() *)
               | None => 0 end in
  ({| s_last_update := lut; s_last_check := lut; s_next := None |},
   {| ps_poll := poll; ps_fails := fails; ps_proxied := 0 |}).

Definition ctx_persist (sc : sched) (ps : pstate) : M unit :=
  st_set_option_int K_LAST_UPDATE_TIME (match s_last_update sc with Some p => pct_to_micros p | None => None end) ;;;
  st_set_option_int K_POLL_INTERVAL
    (match ps_poll ps with
     | Some ns => let us := ns / 1000 in if us <=? i64_max then Some us else None
     | None => None end) ;;;
  st_set_option_int K_FAILED_CHECKS (if ps_fails ps =? 0 then None else Some (ps_fails ps)) ;;;
  ret tt.

(* ---------- common.rs: PersistedApp ---------- *)
Definition persisted_json (a : app) : bytes :=
  print_json (JObj [jk "cohort" (JObj (json_of_cohort (a_cohort a)));
                    jk "user_counting" (JObj [jk "ClientRegulatedByDate"
                                                (match a_uc a with Some d => JInt false d | None => JNull end)])]).

(* serde: Option<String> field of a derived struct: absent or null -> None; string -> Some; anything else -> error;
   a field given twice -> error *)
Definition count_key (k : bytes) (kvs : list (bytes * bool * json)) : nat :=
  length (filter (fun x => bytes_eqb (fst (fst x)) k) kvs).
Definition opt_string_field (k : bytes) (kvs : list (bytes * bool * json)) : option (option bytes) :=
  if Nat.ltb 1 (count_key k kvs) then None
  else match obj_get k kvs with
       | None => Some None
       | Some JNull => Some None
       | Some (JStr true s) => Some (Some s)
       | Some _ => None
       end.
Definition decode_cohort (j : json) : option cohort :=
  match j with
  | JObj kvs =>
      if forallb (fun x => snd (fst x)) kvs then
        match opt_string_field (s2b "cohort") kvs, opt_string_field (s2b "cohorthint") kvs, opt_string_field (s2b "cohortname") kvs with
        | Some i, Some h, Some n => Some {| c_id := i; c_hint := h; c_name := n |}
        | _, _, _ => None
        end
      else None
  | _ => None
  end.
Definition decode_user_counting (j : json) : option (option N) :=
  match j with
  | JObj [(k, true, v)] =>
      if bytes_eqb k (s2b "ClientRegulatedByDate") then
        match v with
        | JNull => Some None
        | JInt false n => if (n <? 2 ^ 32)%N then Some (Some n) else None
        | _ => None
        end
      else None
  | _ => None
  end.
(* object form only (documented sub-language of stored values; see Run generators) *)
Definition decode_persisted (s : bytes) : option (cohort * option N) :=
  match parse_json s with
  | Some (JObj kvs) =>
      if forallb (fun x => snd (fst x)) kvs
         && Nat.eqb (count_key (s2b "cohort") kvs) 1 && Nat.eqb (count_key (s2b "user_counting") kvs) 1 then
        match obj_get (s2b "cohort") kvs, obj_get (s2b "user_counting") kvs with
        | Some c, Some u =>
            match decode_cohort c, decode_user_counting u with
            | Some c', Some u' => Some (c', u')
            | _, _ => None
            end
        | _, _ => None
        end
      else None
  | _ => None
  end.

(* common.rs:101-130 App::load — fill only what the embedder left unset *)
Definition app_load (s : smap) (a : app) : app :=
  match sm_get s (a_id a) with
  | Some (VStr js) =>
      match decode_persisted js with
      | Some (c, u) =>
          {| a_id := a_id a; a_ver := a_ver a; a_fp := a_fp a;
             a_cohort := {| c_id := orelse (c_id (a_cohort a)) (c_id c);
                            c_hint := orelse (c_hint (a_cohort a)) (c_hint c);
                            c_name := orelse (c_name (a_cohort a)) (c_name c) |};
             a_uc := match a_uc a with None => u | Some d => Some d end;
             a_extra := a_extra a |}
      | None => a
      end
  | _ => a
  end.

(* builder.rs build(): app_set.load + Context::load on the *pending* view of storage *)
Definition build (cfg : config) (url : urlparts) (cup : option N) (apps : list app) (st : storage) : sm :=
  let '(sc, ps) := ctx_load (pend st) in
  {| m_cfg := cfg; m_url := url; m_cup := cup; m_apps := map (app_load (pend st)) apps; m_sched := sc; m_ps := ps |}.

(* app_set.rs:29-40 update_from_omaha: the first response naming the app *)
Definition update_app (rs : list app_response) (a : app) : app :=
  match find (fun r => bytes_eqb (a_id a) (ar_id r)) rs with
  | Some r => {| a_id := a_id a; a_ver := a_ver a; a_fp := a_fp a;
                 a_cohort := merge_cohort (a_cohort a) (ar_cohort r); a_uc := ar_uc r; a_extra := a_extra a |}
  | None => a
  end.
Definition update_from_omaha (apps : list app) (rs : list app_response) : list app := map (update_app rs) apps.

Definition make_app_responses (d : doc) (act : uaction) : list app_response :=
  map (fun r => {| ar_id := r_id r; ar_cohort := r_cohort r;
                   ar_uc := match d_daystart d with Some x => x | None => None end; ar_result := act |}) (d_apps d).

(* ---------- helpers ---------- *)
Definition report (m : metric) : M unit := emit (AMetric m).
Definition yield_ (e : sm_event) : M unit :=
  emit (AEvent e) ;;; after_event (match e with EvResult _ => true | _ => false end).
Definition yield_state (s : state) : M unit := yield_ (EvState s).

Definition persist_data (m : sm) : M unit :=
  ctx_persist (m_sched m) (m_ps m) ;;;
  iterM (fun a => st_write (SSetStr (a_id a) (persisted_json a)) ;;; ret tt) (m_apps m) ;;;
  st_write SCommit ;;; ret tt.

(* canonical text of the n-th distinct GUID / nonce seen on the wire *)
Fixpoint pad_left (c : N) (n : nat) (s : bytes) : bytes :=
  match n with O => s | S k => if Nat.ltb (length s) n then pad_left c k (c :: s) else s end.
Definition pad_to (c : N) (n : nat) (s : bytes) : bytes :=
  repeat c (n - length s) ++ s.
Definition guid_text (c : N) : bytes :=
  s2b "{00000000-0000-0000-0000-" ++ pad_to 48%N 12 (print_dec c) ++ s2b "}".
Definition nonce_text (c : N) : bytes := pad_to 48%N 64 (print_dec c).

(* http_uri_ext.rs:52-67 append_query_parameter on (path, query) *)
Definition append_query (path : bytes) (query : option bytes) (k v : bytes) : bytes :=
  match query with
  | Some q => path ++ 63%N :: q ++ 38%N :: k ++ 61%N :: v
  | None => path ++ 63%N :: k ++ 61%N :: v
  end.
Definition plain_uri (u : urlparts) : bytes :=
  u_prefix u ++ u_path u ++ match u_query u with Some q => 63%N :: q | None => [] end.

(* structured content of a request, from the builder *)
Definition summary_of (b : builder) : wsum :=
  {| ws_source := p_source (b_params b); ws_session := b_sessid b; ws_request := b_reqid b;
     ws_apps := map (fun e =>
       {| wa_id := a_id (e_app e); wa_cohort := a_cohort (e_app e); wa_uc := e_uc e;
          wa_ping := if e_ping e then Some (a_uc (e_app e), a_uc (e_app e)) else None;
          wa_events := map (fun ev => (etype_code (ev_type ev), eresult_code (ev_result ev),
                                       match ev_err ev with Some x => Some (eerr_code x) | None => None end,
                                       ev_prev ev, ev_next ev)) (e_events e) |}) (b_entries b) |}.

(* X-Retry-After: first header value; HeaderValue::to_str; u64::from_str; min 86400 s *)
Definition to_str_ok (v : bytes) : bool := forallb (fun b => ((32 <=? b) && (b <? 127))%N || (b =? 9)%N) v.
Definition parse_retry_after (h : option bytes) : option Z :=
  match h with
  | Some v => if to_str_ok v then
                match parse_u64 v with
                | Some n => Some (Z.min (Z.of_N n) MAX_RETRY_AFTER_S * 1000000000)
                | None => None
                end
              else None
  | None => None
  end.
Definition oZ_eqb (a b : option Z) : bool :=
  match a, b with Some x, Some y => x =? y | None, None => true | _, _ => false end.

(* ---------- state_machine.rs:1341-1409 do_omaha_request_and_update_context ---------- *)
Definition do_omaha_request (b : builder) (m : sm) : M (sm * (req_err + body)) :=
  let cfg := m_cfg m in
  if negb (u_valid (m_url m)) then
    ret (m, inl (match m_cup m with Some _ => RECupDecoration | None => REHttpBuilder end))
  else if negb (headers_ok cfg b) then
    (* the CUP nonce is drawn before the http builder rejects the header *)
    (match m_cup m with Some _ => n <- fresh_nonce ;; ret tt | None => ret tt end) ;;;
    ret (m, inl REHttpBuilder)
  else
    uri <- (match m_cup m with
            | Some kid => n <- fresh_nonce ;;
                          ret (u_prefix (m_url m) ++
                               append_query (u_path (m_url m)) (u_query (m_url m)) (s2b "cup2key")
                                            (print_dec kid ++ 58%N :: nonce_text n))
            | None => ret (plain_uri (m_url m))
            end) ;;
    o <- pop_http ;;
    emit (AHttp {| w_uri := uri; w_headers := headers_of cfg b; w_body := body_of cfg b; w_sum := summary_of b |} o) ;;;
    match o with
    | HErr k => ret (m, inl (REHttpTransport k))
    | HResp status ra authentic bd =>
        if (match m_cup m with Some _ => negb authentic | None => false end) then ret (m, inl RECupValidation)
        else
          let poll := parse_retry_after ra in
          m' <- (if oZ_eqb (ps_poll (m_ps m)) poll then ret m
                 else let m1 := with_ps m (set_poll (m_ps m) poll) in
                      yield_ (EvProtocol (m_ps m1)) ;;;
                      ctx_persist (m_sched m1) (m_ps m1) ;;;
                      st_write SCommit ;;; ret m1) ;;
          if ((200 <=? status) && (status <? 300))%N then ret (m', inr bd)
          else ret (m', inl (REHttpStatus status))
    end.

(* the builder gets GUID *texts*; draws are canonicalised at the moment the request is built:
   session id first, then request id *)
Definition with_ids (b : builder) (sess req : N) : M builder :=
  cs <- canon_guid sess ;; cr <- canon_guid req ;;
  ret (set_request_id (set_session_id b (guid_text cs)) (guid_text cr)).

(* next_versions: HashMap<String, Option<String>> collected from pairs — the last pair for a key wins *)
Definition nvmap := list (bytes * option bytes).
Definition nv_get (nv : nvmap) (k : bytes) : option (option bytes) :=
  match find (fun x => bytes_eqb (fst x) k) (rev nv) with Some (_, v) => Some v | None => None end.

Definition dl_ms (d : option Z) : option N :=
  match d with Some ns => let ms := ns / 1000000 in if ms <=? u64_max then Some (Z.to_N ms) else None | None => None end.

(* state_machine.rs:1238-1272 report_omaha_event_and_update_context *)
Definition report_ops (ev : event) (apps : list app) (nv : nvmap) (dur : option Z) : list op :=
  flat_map (fun a => match nv_get nv (a_id a) with
                     | Some next => [OpEvent a {| ev_type := ev_type ev; ev_result := ev_result ev; ev_err := ev_err ev;
                                                  ev_prev := Some (Version.print (a_ver a)); ev_next := next;
                                                  ev_dl := dl_ms dur |}]
                     | None => [] end) apps.

Definition report_event (p : params) (ev : event) (apps : list app) (sess : N) (nv : nvmap) (dur : option Z) (m : sm)
  : M sm :=
  let ops := report_ops ev apps nv dur in
  req <- fresh_guid ;;
  (* canonical ids are assigned only if the request is actually put on the wire *)
  let b0 := add_ops (builder_new p) ops in
  b <- (if u_valid (m_url m) && headers_ok (m_cfg m) b0 then with_ids b0 sess req else ret b0) ;;
  r <- do_omaha_request b m ;;
  match r with
  | (m', inl _) => report (MOmahaEventLost ev) ;;; ret m'
  | (m', inr _) => ret m'
  end.

(* state_machine.rs:578-615 report_check_interval *)
Definition report_check_interval (src : isource) (m : sm) : M sm :=
  n <- now ;;
  (match s_last_check (m_sched m) with
   | Some (PWall t) => if t <=? wall n then report (MCheckInterval (wall n - t) false src) else ret tt
   | Some (PComplex c) => if mono c <=? mono n then report (MCheckInterval (mono n - mono c) true src) else ret tt
   | _ => ret tt
   end) ;;;
  ret (with_sched m (set_last_check (m_sched m) (Some (PComplex n)))).

(* state_machine.rs:1495-1522 record_update_first_seen_time *)
Definition record_first_seen (plan : bytes) (nowt : Z) : M Z :=
  prev <- st_get_str K_INSTALL_PLAN_ID ;;
  match prev with
  | Some p =>
      if bytes_eqb p plan then t <- st_get_time K_FIRST_SEEN ;; ret (match t with Some x => x | None => nowt end)
      else
        ok1 <- st_write (SSetStr K_INSTALL_PLAN_ID plan) ;;
        if negb ok1 then ret nowt else
        ok2 <- st_set_time K_FIRST_SEEN nowt ;;
        if negb ok2 then st_write (SRemove K_INSTALL_PLAN_ID) ;;; ret nowt
        else st_write SCommit ;;; ret nowt
  | None =>
      ok1 <- st_write (SSetStr K_INSTALL_PLAN_ID plan) ;;
      if negb ok1 then ret nowt else
      ok2 <- st_set_time K_FIRST_SEEN nowt ;;
      if negb ok2 then st_write (SRemove K_INSTALL_PLAN_ID) ;;; ret nowt
      else st_write SCommit ;;; ret nowt
  end.

(* randomize(n, range) = n - range/2 + r % range   (state_machine.rs:1526-1528) *)
Definition randomize (n range r : Z) : Z := n - range / 2 + r mod range.

(* the attempt loop of perform_update_check (state_machine.rs:778-874).
   Fuel is generic; the bound of three attempts is a theorem, not the fuel. *)
Fixpoint attempt_loop (fuel : nat) (attempt : Z) (b0 : builder) (sess : N) (m : sm)
  : M (sm * Z * (req_err + body)) :=
  match fuel with
  | O => halt
  | S f =>
      start <- now ;;
      req <- fresh_guid ;;
      b <- (if u_valid (m_url m) && headers_ok (m_cfg m) b0 then with_ids b0 sess req else ret b0) ;;
      r <- do_omaha_request b m ;;
      let '(m1, res) := r in
      fin <- now ;;
      (if mono start <=? mono fin
       then report (MResponseTime (mono fin - mono start) (match res with inr _ => true | inl _ => false end))
       else ret tt) ;;;
      match res with
      | inr bd => ret (m1, attempt, inr bd)
      | inl e =>
          let stop :=
            match e with
            | REJson | REHttpBuilder | RECupDecoration | RECupValidation => true
            | REHttpTransport k =>
                (MAX_ATTEMPTS <=? attempt) || (match k with TUser => true | _ => false end)
                || (match ps_poll (m_ps m1) with Some _ => true | None => false end)
            | REHttpStatus _ =>
                (MAX_ATTEMPTS <=? attempt) || (match ps_poll (m_ps m1) with Some _ => true | None => false end)
            end in
          if stop then yield_state ErrorCheckingForUpdate ;;; ret (m1, attempt, inl e)
          else
            r <- pop_backoff ;;
            let backoff_ms := randomize (Z.shiftl 1 (attempt - 1) * 1000) 1000 r in
            emit (ATimer (WFor (backoff_ms * 1000000))) ;;;
            attempt_loop f (attempt + 1) b0 sess m1
      end
  end.

Definition uc_ok (r : rapp) : bool := match r_uc r with Some (true, _) => true | _ => false end.
Definition manifest_version (r : rapp) : option bytes := match r_uc r with Some (_, v) => v | None => None end.

Definition result_action (r : ares) : uaction :=
  match r with RInstalled => AUpdated | RDeferred => ADeferredByPolicy | RFailed => AInstallPlanExecutionError end.

(* response.apps.into_iter().map(... app_install_results.remove(0) ...) *)
Fixpoint assign_results (apps : list rapp) (rs : list ares) (ds : option N) : list app_response :=
  match apps with
  | [] => []
  | a :: r =>
      if uc_ok a then
        match rs with
        | x :: rs' => {| ar_id := r_id a; ar_cohort := r_cohort a; ar_uc := ds; ar_result := result_action x |}
                      :: assign_results r rs' ds
        | [] => (* Vec::remove(0) on an empty vector panics: excluded by contract-conforming installers *)
                {| ar_id := r_id a; ar_cohort := r_cohort a; ar_uc := ds; ar_result := AInstallPlanExecutionError |}
                :: assign_results r [] ds
        end
      else {| ar_id := r_id a; ar_cohort := r_cohort a; ar_uc := ds; ar_result := ANoUpdate |} :: assign_results r rs ds
  end.

Definition deferred_event : event :=
  {| ev_type := ETUpdateComplete; ev_result := ERUpdateDeferred; ev_err := None; ev_prev := None; ev_next := None; ev_dl := None |}.

Inductive reboot := RebootNeeded (plan : bytes) | RebootNotNeeded.

(* state_machine.rs:758-1233 perform_update_check *)
Definition perform_update_check (fuel : nat) (p : params) (apps : list app) (m : sm)
  : M (sm * (check_err + (list app_response * reboot))) :=
  yield_state (CheckingForUpdates (p_source p)) ;;;
  m <- report_check_interval (p_source p) m ;;
  let b0 := add_ops (builder_new p) (flat_map (fun a => [OpUpdateCheck a; OpPing a]) apps) in
  sess <- fresh_guid ;;
  lr <- attempt_loop fuel 1 b0 sess m ;;
  let '(m, attempts, res) := lr in
  report (MRequestsPerCheck attempts (match res with inr _ => true | inl _ => false end)) ;;;
  match res with
  | inl e => ret (m, inl (CEOmahaRequest e))
  | inr BBad =>
      yield_state ErrorCheckingForUpdate ;;;
      m <- report_event p (event_error EEParseResponse) apps sess (map (fun a => (a_id a, None)) apps) None m ;;
      ret (m, inl CEResponseParser)
  | inr (BDoc d) =>
      yield_ (EvServerResponse d) ;;;
      let ds := match d_daystart d with Some x => x | None => None end in
      let with_update := filter uc_ok (d_apps d) in
      match with_update with
      | [] => yield_state NoUpdateAvailable ;;; ret (m, inr (make_app_responses d ANoUpdate, RebootNotNeeded))
      | _ =>
          let nv : nvmap := map (fun r => (r_id r, manifest_version r)) with_update in
          pl <- pop_plan ;;
          emit (AInstaller (ICreatePlan p (match m_cup m with Some _ => Some true | None => None end) d
                                        (match m_cup m with Some _ => true | None => false end)) (IPlan pl)) ;;;
          match pl with
          | None =>
              yield_state InstallingUpdate ;;; yield_state InstallationError ;;;
              m <- report_event p (event_error EEConstructInstallPlan) apps sess nv None m ;;
              ret (m, inl CEInstallPlan)
          | Some plan =>
              dec <- pop_can_start ;;
              emit (APolicy (QCanStart plan) (PUDecision dec)) ;;;
              match dec with
              | UDeferred =>
                  m <- report_event p deferred_event apps sess nv None m ;;
                  yield_state InstallationDeferredByPolicy ;;;
                  ret (m, inr (make_app_responses d ADeferredByPolicy, RebootNotNeeded))
              | UDenied =>
                  m <- report_event p (event_error EEDeniedByPolicy) apps sess nv None m ;;
                  ret (m, inr (make_app_responses d ADeniedByPolicy, RebootNotNeeded))
              | UOk =>
                  yield_state InstallingUpdate ;;;
                  m <- report_event p (event_success ETUpdateDownloadStarted) apps sess nv None m ;;
                  t0 <- now ;;
                  let start := wall t0 in
                  first_seen <- record_first_seen plan start ;;
                  pa <- pop_perform ;;
                  emit (AInstaller (IPerform plan) (IPerformed pa)) ;;;
                  iterM (fun bits => yield_ (EvProgress bits)) (pa_progress pa) ;;;
                  let results := pa_results pa in
                  let no_failed := forallb (fun r => match r with RFailed => false | _ => true end) results in
                  t1 <- now ;;
                  let finish := wall t1 in
                  dur <- (if start <=? finish
                          then report (if no_failed then MSuccessfulUpdateDuration (finish - start)
                                       else MFailedUpdateDuration (finish - start)) ;;; ret (Some (finish - start))
                          else ret None) ;;
                  (* per-app events: zip(apps_with_update, results), unknown ids skipped *)
                  let pairs := combine with_update results in
                  let evs := flat_map (fun pr =>
                               match find (fun a => bytes_eqb (a_id a) (r_id (fst pr))) apps with
                               | Some a =>
                                   let base := match snd pr with
                                               | RInstalled => event_success ETUpdateDownloadFinished
                                               | RDeferred => deferred_event
                                               | RFailed => event_error EEInstallation end in
                                   [(a, snd pr, {| ev_type := ev_type base; ev_result := ev_result base; ev_err := ev_err base;
                                                   ev_prev := Some (Version.print (a_ver a));
                                                   ev_next := manifest_version (fst pr); ev_dl := dl_ms dur |})]
                               | None => []
                               end) pairs in
                  let installed := flat_map (fun x => match snd (fst x) with RInstalled => [fst (fst x)] | _ => [] end) evs in
                  req <- fresh_guid ;;
                  let b0 := add_ops (builder_new p) (map (fun x => OpEvent (fst (fst x)) (snd x)) evs) in
                  b <- (if u_valid (m_url m) && headers_ok (m_cfg m) b0 then with_ids b0 sess req else ret b0) ;;
                  r <- do_omaha_request b m ;;
                  let '(m, rr) := r in
                  (match rr with
                   | inl _ => iterM (fun x => report (MOmahaEventLost (snd x))) evs
                   | inr _ => ret tt end) ;;;
                  m <- (match installed with
                        | [] => ret m
                        | _ => report_event p (event_success ETUpdateComplete) installed sess nv dur m
                        end) ;;
                  let responses := assign_results (d_apps d) results ds in
                  let nerr := length (filter (fun r => match r with RFailed => true | _ => false end)
                                             (firstn (length with_update) results)) in
                  match nerr with
                  | S _ =>
                      iterM (fun _ => yield_ EvInstallerError) (repeat tt nerr) ;;;
                      yield_state InstallationError ;;;
                      ret (m, inr (responses, RebootNotNeeded))
                  | O =>
                      (if first_seen <=? finish then report (MSuccessfulUpdateFromFirstSeen (finish - first_seen)) else ret tt) ;;;
                      st_set_time K_FINISH_TIME finish ;;;
                      (match nv_get nv (match m_apps m with a :: _ => a_id a | [] => [] end) with
                       | Some next => st_write (SSetStr K_TARGET_VERSION (match next with Some v => v | None => s2b "UNKNOWN" end)) ;;; ret tt
                       | None => ret tt end) ;;;
                      st_write SCommit ;;;
                      rn <- pop_reboot_needed ;;
                      emit (APolicy (QRebootNeeded plan) (PBool rn)) ;;;
                      ret (m, inr (responses, if rn then RebootNeeded plan else RebootNotNeeded))
                  end
              end
          end
      end
  end.

(* state_machine.rs:706-745 *)
Definition report_attempts_to_successful_install (success : bool) : M unit :=
  v <- st_get_int K_FAILED_INSTALLS ;;
  let attempts := sat_inc_i64 (match v with Some z => z | None => 0 end) in
  report (MAttemptsToSuccessfulInstall (as_u64 attempts) success) ;;;
  (if success then st_write (SRemove K_FAILED_INSTALLS) else st_write (SSetInt K_FAILED_INSTALLS attempts)) ;;;
  ret tt.

Definition install_success (rs : list app_response) : option bool :=
  fold_left (fun acc r =>
               match acc, ar_result r with
               | _, AInstallPlanExecutionError => Some false
               | None, AUpdated => Some true
               | a, _ => a
               end) rs None.

(* state_machine.rs:620-702 start_update_check *)
Definition start_update_check (fuel : nat) (p : params) (m : sm) : M (sm * reboot) :=
  r <- perform_update_check fuel p (m_apps m) m ;;
  let '(m, res) := r in
  fin <- (match res with
          | inr (rs, rb) =>
              n <- now ;;
              let m := with_sched m (set_last_update (m_sched m) (Some (PComplex n))) in
              let attempts := sat_inc_u32 (ps_fails (m_ps m)) in
              let m := with_ps m (set_fails (m_ps m) 0) in
              report (MAttemptsToSuccessfulCheck (as_u64 attempts)) ;;;
              let m := with_apps m (update_from_omaha (m_apps m) rs) in
              (match install_success rs with Some s => report_attempts_to_successful_install s | None => ret tt end) ;;;
              ret (m, (inr rs : check_err + list app_response), rb)
          | inl e =>
              mr <- (match e with
                     | CEResponseParser | CEInstallPlan =>
                         n <- now ;;
                         ret (with_sched m (set_last_update (m_sched m) (Some (PComplex n))), 0%N)
                     | CEOmahaRequest (REHttpTransport _) | CEOmahaRequest (REHttpStatus _) => ret (m, 1%N)
                     | CEOmahaRequest _ => ret (m, 4%N)
                     end) ;;
              let '(m, reason) := mr in
              report (MFailureReason reason) ;;;
              let m := with_ps m (set_fails (m_ps m) (sat_inc_u32 (ps_fails (m_ps m)))) in
              ret (m, inl e, RebootNotNeeded)
          end) ;;
  let '(m, result, rb) := fin in
  yield_ (EvSchedule (m_sched m)) ;;;
  yield_ (EvProtocol (m_ps m)) ;;;
  yield_ (EvResult result) ;;;
  persist_data m ;;;
  ret (m, rb).

(* state_machine.rs:1275-1327 ping_omaha *)
Definition ping_params : params := {| p_source := ScheduledTask; p_proxies := true; p_disable := false; p_samever := false |}.
Definition ping_omaha (m : sm) : M sm :=
  let b0 := add_ops (builder_new ping_params) (map OpPing (m_apps m)) in
  sess <- fresh_guid ;; req <- fresh_guid ;;
  b <- (if u_valid (m_url m) && headers_ok (m_cfg m) b0 then with_ids b0 sess req else ret b0) ;;
  r <- do_omaha_request b m ;;
  let '(m, res) := r in
  match res with
  | inl _ | inr BBad =>
      let m := with_ps m (set_fails (m_ps m) (sat_inc_u32 (ps_fails (m_ps m)))) in
      persist_data m ;;; ret m
  | inr (BDoc d) =>
      let m := with_ps m (set_fails (m_ps m) 0) in
      n <- now ;;
      let m := with_sched m (set_last_update (m_sched m) (Some (PComplex n))) in
      yield_ (EvSchedule (m_sched m)) ;;;
      let m := with_apps m (update_from_omaha (m_apps m) (make_app_responses d ANoUpdate)) in
      persist_data m ;;; ret m
  end.

(* state_machine.rs:263-301 *)
Inductive role := RMin | RUntil | RReboot.
Definition role_eqb (a b : role) : bool :=
  match a, b with RMin, RMin | RUntil, RUntil | RReboot, RReboot => true | _, _ => false end.

Definition update_next_update_time (m : sm) : M (sm * timing) :=
  t <- pop_next_time ;;
  emit (APolicy (QNextTime (m_apps m) (m_sched m) (m_ps m)) (PTiming t)) ;;;
  let m := with_sched m (set_next (m_sched m) (Some t)) in
  yield_ (EvSchedule (m_sched m)) ;;;
  ret (m, t).

Definition make_wait (t : timing) : M (list role) :=
  match t_min t with
  | Some d => emit (ATimer (WFor d)) ;;; emit (ATimer (WUntil (t_time t))) ;;; ret [RMin; RUntil]
  | None => emit (ATimer (WUntil (t_time t))) ;;; ret [RUntil]
  end.

Fixpoint remove_nth {A} (n : nat) (l : list A) : list A :=
  match n, l with
  | O, _ :: r => r
  | S k, x :: r => x :: remove_nth k r
  | _, [] => []
  end.

(* the outer select! of run(): returns None for the timer branch, Some (src, request id) for a control request *)
Fixpoint outer_select (stim : list stimulus) (pending : list role) (ctl : N)
  : option (option (isource * N) * list stimulus * N) :=
  match stim with
  | [] => None
  | Fire i :: r =>
      match nth_error pending i with
      | Some _ => let p' := remove_nth i pending in
                  match p' with [] => Some (None, r, ctl) | _ => outer_select r p' ctl end
      | None => outer_select r pending ctl
      end
  | Control src :: r => Some (Some (src, ctl), r, (ctl + 1)%N)
  | DropHandles :: r => outer_select r pending ctl
  end.

Definition do_outer_select (pending : list role) : M (option (isource * N)) :=
  q <- pop_queued ;;
  match q with
  | Some (id, src) => ret (Some (src, id))           (* a request already sent is seen first *)
  | None =>
      fun e =>
        match outer_select (e_stim e) pending (e_ctl e) with
        | None => (None, set_stim e [] (e_ctl e))
        | Some (None, r, c) => (Some None, set_stim e r c)
        | Some (Some (src, id), r, c) =>
            (Some (Some (src, id)), upd_trace (set_stim e r c) (ARequest id src :: e_trace e))
        end
  end.

Definition ask_reboot_allowed (src : isource) : M bool :=
  b <- pop_reboot_allowed ;; emit (APolicy (QRebootAllowed src) (PBool b)) ;;; ret b.

Definition has_ping_roles (p : list role) : bool := existsb (fun r => match r with RReboot => false | _ => true end) p.

(* state_machine.rs:449-510 wait_for_reboot; one loop turn per stimulus *)
Definition handle_in_reboot (id : N) (sc : isource) : M bool :=   (* true = leave the loop and reboot *)
  emit (AReply id AlreadyRunning) ;;;
  match sc with
  | OnDemand => ask_reboot_allowed OnDemand
  | ScheduledTask => ret false
  end.

Fixpoint reboot_loop (fuel : nat) (src : isource) (pending : list role) (m : sm) : M sm :=
  match fuel with
  | O => halt
  | S f =>
      q <- pop_queued ;;
      match q with
      | Some (id, sc) =>
          go <- handle_in_reboot id sc ;;
          if go then ret m else reboot_loop f (match sc with OnDemand => OnDemand | ScheduledTask => src end) pending m
      | None =>
      s <- pop_stim ;;
      match s with
      | Fire i =>
          match nth_error pending i with
          | None => reboot_loop f src pending m
          | Some RReboot =>
              ok <- ask_reboot_allowed src ;;
              if ok then ret m
              else emit (ATimer (WFor REBOOT_INTERVAL_NS)) ;;; reboot_loop f src (remove_nth i pending ++ [RReboot]) m
          | Some _ =>
              let p' := remove_nth i pending in
              if has_ping_roles p' then reboot_loop f src p' m
              else
                m1 <- ping_omaha m ;;
                mt <- update_next_update_time m1 ;;
                let '(m2, t) := mt in
                roles <- make_wait t ;;
                reboot_loop f src (p' ++ roles) m2
          end
      | Control sc =>
          id <- next_ctl ;;
          emit (ARequest id sc) ;;;
          go <- handle_in_reboot id sc ;;
          if go then ret m else reboot_loop f (match sc with OnDemand => OnDemand | ScheduledTask => src end) pending m
      | DropHandles => reboot_loop f src pending m
      end
      end
  end.

Definition wait_for_reboot (fuel : nat) (src : isource) (m : sm) : M sm :=
  ok <- ask_reboot_allowed src ;;
  m <- (if ok then ret m
        else
          emit (ATimer (WFor REBOOT_INTERVAL_NS)) ;;;
          mt <- update_next_update_time m ;;
          let '(m1, t) := mt in
          roles <- make_wait t ;;
          reboot_loop fuel src (RReboot :: roles) m1) ;;
  ok <- pop_reboot ;; emit (AInstaller IReboot (IRebooted ok)) ;;; ret m.

(* state_machine.rs:516-574 report_waited_for_reboot_duration *)
Definition waited_for_reboot (finish start_mono : Z) (n : ctime) : option Z :=
  if wall n <? finish then None
  else if mono n <? start_mono then None
  else let d := (wall n - finish) - (mono n - start_mono) in if d <? 0 then None else Some d.

(* one iteration of the loop in run() (state_machine.rs:336-446) *)
Definition run_iteration (fuel : nat) (finish : option Z) (start_mono : Z) (should_report : bool) (m : sm)
  : M (sm * bool) :=
  sr <- (if should_report then
           n <- now ;;
           match waited_for_reboot (match finish with Some f => f | None => 0 end) start_mono n with
           | Some d => report (MWaitedForReboot d) ;;;
                       st_write (SRemove K_FINISH_TIME) ;;; st_write (SRemove K_TARGET_VERSION) ;;; st_write SCommit ;;;
                       ret false
           | None => ret true
           end
         else ret false) ;;
  mt <- update_next_update_time m ;;
  let '(m, t) := mt in
  roles <- make_wait t ;;
  sel <- do_outer_select roles ;;
  let src := match sel with Some (s, _) => s | None => ScheduledTask end in
  dec <- pop_allowed ;;
  emit (APolicy (QCheckAllowed (m_apps m) (m_sched m) (m_ps m) src) (PDecision dec)) ;;;
  match dec with
  | DTooSoon | DThrottled | DDenied =>
      (match sel with Some (_, id) => emit (AReply id Throttled) | None => ret tt end) ;;;
      ret (m, sr)
  | DOk p | DOkDeferred p =>
      (match sel with Some (_, id) => emit (AReply id Started) | None => ret tt end) ;;;
      enter_check ;;;
      r <- start_update_check fuel p m ;;
      set_incheck false ;;;
      upg <- take_upgrade ;;
      let src := if upg then OnDemand else src in
      let '(m, rb) := r in
      m <- (match rb with
            | RebootNeeded _ => yield_state WaitingForReboot ;;; wait_for_reboot fuel src m
            | RebootNotNeeded => ret m
            end) ;;
      yield_state Idle ;;;
      ret (m, sr)
  end.

Fixpoint run_loop (iters fuel : nat) (finish : option Z) (start_mono : Z) (should_report : bool) (m : sm) : M sm :=
  match iters with
  | O => halt
  | S k =>
      r <- run_iteration fuel finish start_mono should_report m ;;
      let '(m', sr) := r in
      run_loop k fuel finish start_mono sr m'
  end.

(* state_machine.rs:303-335 run() prologue *)
Definition run (iters fuel : nat) (m : sm) : M sm :=
  if negb (forallb app_valid (m_apps m)) then ret m
  else
    n <- now ;;
    finish <- st_get_time K_FINISH_TIME ;;
    tv <- st_get_str K_TARGET_VERSION ;;
    let should := match finish, tv with
                  | Some _, Some v => bytes_eqb v (os_version (m_cfg m))
                  | _, _ => false end in
    run_loop iters fuel finish (mono n) should m.

(* builder.rs oneshot_check *)
Definition oneshot (fuel : nat) (m : sm) : M sm :=
  r <- start_update_check fuel params_default m ;; ret (fst r).

Inductive entry_point := EStart | EOneshot.
Definition run_case (ep : entry_point) (cfg : config) (url : urlparts) (cup : option N) (apps : list app) (e : env)
  : list action :=
  let m := build cfg url cup apps (e_store e) in
  let n := S (length (e_stim e) + length (c_inject (e_cs e))) in
  let fuel := (4 + length (e_stim e) + length (c_inject (e_cs e)))%nat in
  let '(_, e') := match ep with EStart => run n fuel m e | EOneshot => oneshot fuel m e end in
  rev (e_trace e').
