(* Model/Json.v — JSON as serde_json 1.x reads and writes it (from_slice /
   to_vec, default features: no arbitrary precision, no preserve_order).
   Value tree, compact printer, parser with explicit fuel.
   Sub-language note: numbers with a fraction or exponent are recognised
   syntactically and kept as JFloat without their value. *)
Require Import Verif.Base.Bytes.
Open Scope N_scope.

Inductive json :=
| JNull
| JBool (b : bool)
| JInt (neg : bool) (n : N)          (* integer literal: no fraction, no exponent *)
| JFloat                             (* any other number *)
| JStr (ok : bool) (s : bytes)       (* ok = false: lone surrogate escape or invalid UTF-8
                                        (skippable by the ignoring scanner, not decodable) *)
| JArr (l : list json)
| JObj (kvs : list (bytes * bool * json)).

(* ------------------------------------------------------------------ *)
(* UTF-8 validity as core::str::from_utf8 decides it                   *)
Definition cont (b : N) : bool := (128 <=? b) && (b <=? 191).

Fixpoint utf8_valid_fuel (fuel : nat) (s : bytes) : bool :=
  match fuel with
  | O => match s with [] => true | _ => false end
  | S f =>
      match s with
      | [] => true
      | b0 :: r =>
          if b0 <? 128 then utf8_valid_fuel f r
          else if (194 <=? b0) && (b0 <=? 223) then
            match r with b1 :: r' => cont b1 && utf8_valid_fuel f r' | _ => false end
          else if b0 =? 224 then
            match r with b1 :: b2 :: r' => (160 <=? b1) && (b1 <=? 191) && cont b2 && utf8_valid_fuel f r' | _ => false end
          else if ((225 <=? b0) && (b0 <=? 236)) || (b0 =? 238) || (b0 =? 239) then
            match r with b1 :: b2 :: r' => cont b1 && cont b2 && utf8_valid_fuel f r' | _ => false end
          else if b0 =? 237 then
            match r with b1 :: b2 :: r' => (128 <=? b1) && (b1 <=? 159) && cont b2 && utf8_valid_fuel f r' | _ => false end
          else if b0 =? 240 then
            match r with b1 :: b2 :: b3 :: r' => (144 <=? b1) && (b1 <=? 191) && cont b2 && cont b3 && utf8_valid_fuel f r' | _ => false end
          else if (241 <=? b0) && (b0 <=? 243) then
            match r with b1 :: b2 :: b3 :: r' => cont b1 && cont b2 && cont b3 && utf8_valid_fuel f r' | _ => false end
          else if b0 =? 244 then
            match r with b1 :: b2 :: b3 :: r' => (128 <=? b1) && (b1 <=? 143) && cont b2 && cont b3 && utf8_valid_fuel f r' | _ => false end
          else false
      end
  end.
Definition utf8_valid (s : bytes) : bool := utf8_valid_fuel (length s) s.

(* encode a scalar value (no surrogates) as UTF-8 *)
Definition utf8_encode (c : N) : bytes :=
  if c <? 128 then [c]
  else if c <? 2048 then [192 + c / 64; 128 + c mod 64]
  else if c <? 65536 then [224 + c / 4096; 128 + (c / 64) mod 64; 128 + c mod 64]
  else [240 + c / 262144; 128 + (c / 4096) mod 64; 128 + (c / 64) mod 64; 128 + c mod 64].

(* ------------------------------------------------------------------ *)
(* printer: serde_json::to_vec (CompactFormatter)                      *)
Definition esc_char (c : N) : bytes :=
  if c =? 34 then [92; 34]
  else if c =? 92 then [92; 92]
  else if c =? 8 then [92; 98]
  else if c =? 12 then [92; 102]
  else if c =? 10 then [92; 110]
  else if c =? 13 then [92; 114]
  else if c =? 9 then [92; 116]
  else if c <? 32 then [92; 117; 48; 48; hexdigit (c / 16); hexdigit (c mod 16)]
  else [c].

Definition print_string (s : bytes) : bytes := 34 :: flat_map esc_char s ++ [34].

Fixpoint print_json (j : json) : bytes :=
  match j with
  | JNull => s2b "null"
  | JBool true => s2b "true"
  | JBool false => s2b "false"
  | JInt neg n => (if neg then [45] else []) ++ print_dec n
  | JFloat => s2b "0.5"
  | JStr _ s => print_string s
  | JArr l =>
      91 :: (fix go (l : list json) : bytes :=
               match l with
               | [] => []
               | [x] => print_json x
               | x :: r => print_json x ++ 44 :: go r
               end) l ++ [93]
  | JObj kvs =>
      123 :: (fix go (l : list (bytes * bool * json)) : bytes :=
                match l with
                | [] => []
                | [(k, _, v)] => print_string k ++ 58 :: print_json v
                | (k, _, v) :: r => print_string k ++ 58 :: print_json v ++ 44 :: go r
                end) kvs ++ [125]
  end.

(* ------------------------------------------------------------------ *)
(* parser                                                              *)
Definition is_ws (c : N) : bool := (c =? 32) || (c =? 9) || (c =? 10) || (c =? 13).

Fixpoint skip_ws (s : bytes) : bytes :=
  match s with
  | c :: r => if is_ws c then skip_ws r else s
  | [] => []
  end.

Definition hex4 (s : bytes) : option (N * bytes) :=
  match s with
  | a :: b :: c :: d :: r =>
      match hexval a, hexval b, hexval c, hexval d with
      | Some x, Some y, Some z, Some w => Some (x * 4096 + y * 256 + z * 16 + w, r)
      | _, _, _, _ => None
      end
  | _ => None
  end.

(* after the opening quote; acc is reversed output; returns (escapes_ok, bytes, rest) *)
Fixpoint parse_str_body (fuel : nat) (s : bytes) (ok : bool) (acc : bytes) : option (bool * bytes * bytes) :=
  match fuel with
  | O => None
  | S f =>
      match s with
      | [] => None
      | c :: r =>
          if c =? 34 then Some (ok, rev acc, r)
          else if c =? 92 then
            match r with
            | [] => None
            | e :: r' =>
                if e =? 34 then parse_str_body f r' ok (34 :: acc)
                else if e =? 92 then parse_str_body f r' ok (92 :: acc)
                else if e =? 47 then parse_str_body f r' ok (47 :: acc)
                else if e =? 98 then parse_str_body f r' ok (8 :: acc)
                else if e =? 102 then parse_str_body f r' ok (12 :: acc)
                else if e =? 110 then parse_str_body f r' ok (10 :: acc)
                else if e =? 114 then parse_str_body f r' ok (13 :: acc)
                else if e =? 116 then parse_str_body f r' ok (9 :: acc)
                else if e =? 117 then
                  match hex4 r' with
                  | None => None
                  | Some (u, r2) =>
                      if (55296 <=? u) && (u <=? 56319) then
                        (* leading surrogate: needs \uDC00..DFFF right after *)
                        match r2 with
                        | 92 :: 117 :: r3 =>
                            match hex4 r3 with
                            | Some (l, r4) =>
                                if (56320 <=? l) && (l <=? 57343)
                                then parse_str_body f r4 ok (rev (utf8_encode (65536 + (u - 55296) * 1024 + (l - 56320))) ++ acc)
                                else parse_str_body f r2 false acc
                            | None => parse_str_body f r2 false acc
                            end
                        | _ => parse_str_body f r2 false acc
                        end
                      else if (56320 <=? u) && (u <=? 57343) then parse_str_body f r2 false acc
                      else parse_str_body f r2 ok (rev (utf8_encode u) ++ acc)
                  end
                else None
            end
          else if c <? 32 then None
          else parse_str_body f r ok (c :: acc)
      end
  end.

Definition parse_string (s : bytes) : option (bool * bytes * bytes) :=
  match parse_str_body (S (length s)) s true [] with
  | Some (ok, b, r) => Some (ok && utf8_valid b, b, r)
  | None => None
  end.

Fixpoint take_digits (s : bytes) : bytes * bytes :=
  match s with
  | c :: r => if is_digit c then let '(d, t) := take_digits r in (c :: d, t) else ([], s)
  | [] => ([], [])
  end.

(* number after an optional '-' has been noted *)
Definition parse_number (neg : bool) (s : bytes) : option (json * bytes) :=
  let '(ds, r) := take_digits s in
  match ds with
  | [] => None
  | d0 :: dr =>
      if (d0 =? 48) && negb (match dr with [] => true | _ => false end) then None   (* leading zero *)
      else
        let frac :=
          match r with
          | 46 :: r1 => let '(fs, r2) := take_digits r1 in
                        match fs with [] => None | _ => Some (true, r2) end
          | _ => Some (false, r)
          end in
        match frac with
        | None => None
        | Some (hasf, r2) =>
            let ex :=
              match r2 with
              | c :: r3 =>
                  if (c =? 101) || (c =? 69) then
                    let r4 := match r3 with s0 :: r' => if (s0 =? 43) || (s0 =? 45) then r' else r3 | [] => r3 end in
                    let '(es, r5) := take_digits r4 in
                    match es with [] => None | _ => Some (true, r5) end
                  else Some (false, r2)
              | [] => Some (false, r2)
              end in
            match ex with
            | None => None
            | Some (hase, r5) =>
                if hasf || hase then Some (JFloat, r5) else Some (JInt neg (dec_value ds), r5)
            end
        end
  end.

Inductive frame :=
| FArr (acc : list json)
| FObj (acc : list (bytes * bool * json)) (key : bytes) (kok : bool).

(* Iterative parser with an explicit stack of open containers, one byte of
   progress (or one pop) per step.  `state`: expecting a value, or having just
   completed one. *)
Inductive pstate := PValue | PAfter (v : json).

Fixpoint parse_loop (fuel : nat) (st : pstate) (stack : list frame) (s : bytes) : option (json * bytes) :=
  match fuel with
  | O => None
  | S f =>
      match st with
      | PValue =>
          match skip_ws s with
          | [] => None
          | c :: r =>
              if c =? 110 then match strip_prefix (s2b "ull") r with Some r' => parse_loop f (PAfter JNull) stack r' | None => None end
              else if c =? 116 then match strip_prefix (s2b "rue") r with Some r' => parse_loop f (PAfter (JBool true)) stack r' | None => None end
              else if c =? 102 then match strip_prefix (s2b "alse") r with Some r' => parse_loop f (PAfter (JBool false)) stack r' | None => None end
              else if c =? 34 then
                match parse_string r with
                | Some (ok, b, r') => parse_loop f (PAfter (JStr ok b)) stack r'
                | None => None
                end
              else if c =? 45 then
                match parse_number true r with Some (v, r') => parse_loop f (PAfter v) stack r' | None => None end
              else if is_digit c then
                match parse_number false (c :: r) with Some (v, r') => parse_loop f (PAfter v) stack r' | None => None end
              else if c =? 91 then
                match skip_ws r with
                | 93 :: r' => parse_loop f (PAfter (JArr [])) stack r'
                | _ => parse_loop f PValue (FArr [] :: stack) r
                end
              else if c =? 123 then
                match skip_ws r with
                | 125 :: r' => parse_loop f (PAfter (JObj [])) stack r'
                | 34 :: r' =>
                    match parse_string r' with
                    | Some (kok, k, r2) =>
                        match skip_ws r2 with
                        | 58 :: r3 => parse_loop f PValue (FObj [] k kok :: stack) r3
                        | _ => None
                        end
                    | None => None
                    end
                | _ => None
                end
              else None
          end
      | PAfter v =>
          match stack with
          | [] => Some (v, s)
          | FArr acc :: stk =>
              match skip_ws s with
              | 44 :: r => parse_loop f PValue (FArr (v :: acc) :: stk) r
              | 93 :: r => parse_loop f (PAfter (JArr (rev (v :: acc)))) stk r
              | _ => None
              end
          | FObj acc k kok :: stk =>
              match skip_ws s with
              | 44 :: r =>
                  match skip_ws r with
                  | 34 :: r' =>
                      match parse_string r' with
                      | Some (kok2, k2, r2) =>
                          match skip_ws r2 with
                          | 58 :: r3 => parse_loop f PValue (FObj ((k, kok, v) :: acc) k2 kok2 :: stk) r3
                          | _ => None
                          end
                      | None => None
                      end
                  | _ => None
                  end
              | 125 :: r => parse_loop f (PAfter (JObj (rev ((k, kok, v) :: acc)))) stk r
              | _ => None
              end
          end
      end
  end.

(* serde_json::from_slice: one value, then only whitespace *)
Definition parse_json (s : bytes) : option json :=
  match parse_loop (2 * length s + 4) PValue [] s with
  | Some (v, r) => match skip_ws r with [] => Some v | _ => None end
  | None => None
  end.

(* nesting depth of containers *)
Fixpoint depth (j : json) : N :=
  match j with
  | JArr l => 1 + fold_right (fun x m => N.max (depth x) m) 0 l
  | JObj kvs => 1 + fold_right (fun x m => N.max (depth (snd x)) m) 0 kvs
  | _ => 0
  end.

(* all strings (keys and values) decodable *)
Fixpoint strings_ok (j : json) : bool :=
  match j with
  | JStr ok _ => ok
  | JArr l => forallb strings_ok l
  | JObj kvs => forallb (fun x => snd (fst x) && strings_ok (snd x)) kvs
  | _ => true
  end.

(* structural equality *)
Fixpoint json_eqb (a b : json) : bool :=
  match a, b with
  | JNull, JNull => true
  | JBool x, JBool y => Bool.eqb x y
  | JInt s n, JInt t m => Bool.eqb s t && (n =? m)
  | JFloat, JFloat => true
  | JStr o s, JStr p t => Bool.eqb o p && bytes_eqb s t
  | JArr l, JArr m =>
      (fix go (l m : list json) : bool :=
         match l, m with
         | [], [] => true
         | x :: l', y :: m' => json_eqb x y && go l' m'
         | _, _ => false
         end) l m
  | JObj l, JObj m =>
      (fix go (l m : list (bytes * bool * json)) : bool :=
         match l, m with
         | [], [] => true
         | (k, o, x) :: l', (k', o', y) :: m' => bytes_eqb k k' && Bool.eqb o o' && json_eqb x y && go l' m'
         | _, _ => false
         end) l m
  | _, _ => false
  end.

Definition obj_get (k : bytes) (kvs : list (bytes * bool * json)) : option json :=
  match find (fun x => bytes_eqb (fst (fst x)) k) kvs with
  | Some (_, _, v) => Some v
  | None => None
  end.
